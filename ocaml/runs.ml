(* GENERATED: table property id -> extracted entry point *)
open Model
let lookup (p : string) : sx -> sx =
  match p with
  | "C04" -> run_C04
  | "C06" -> run_C06
  | "C08" -> run_C08
  | "C12" -> run_C12
  | "C13" -> run_C13
  | _ -> failwith ("no model entry point for " ^ p)
