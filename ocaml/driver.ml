(* Generic correspondence driver.  Reads case lines "<input>\t<impl outputs>",
   evaluates the extracted model entry point of the chosen property on the
   input and classifies every sub-case:
     impl = spec                      -> ok
     impl <> spec, known class, impl = model -> known finding
     impl <> spec otherwise           -> violation (failing input on the implementation)
     known = 0 and model <> spec      -> model divergence (a theorem would be contradicted)
   Prints one JSON object. Hand-written, trusted (see DESIGN.md trusted base). *)
open Model

let rec pos_of_int n =
  if n = 1 then XH
  else if n land 1 = 0 then XO (pos_of_int (n lsr 1))
  else XI (pos_of_int (n lsr 1))

let z_of_int n = if n = 0 then Z0 else if n > 0 then Zpos (pos_of_int n) else Zneg (pos_of_int (-n))

let rec int_of_pos = function
  | XH -> 1
  | XO p -> 2 * int_of_pos p
  | XI p -> 2 * int_of_pos p + 1

let int_of_z = function Z0 -> 0 | Zpos p -> int_of_pos p | Zneg p -> - (int_of_pos p)

exception Parse_error

let parse (s : string) (start : int) (stop : int) : sx =
  let pos = ref start in
  let rec skip () =
    if !pos < stop && (s.[!pos] = ' ') then (incr pos; skip ()) in
  let rec item () =
    skip ();
    if !pos >= stop then raise Parse_error;
    if s.[!pos] = '(' then begin
      incr pos;
      let acc = ref [] in
      let fin = ref false in
      while not !fin do
        skip ();
        if !pos >= stop then raise Parse_error;
        if s.[!pos] = ')' then (incr pos; fin := true)
        else acc := item () :: !acc
      done;
      L (List.rev !acc)
    end else begin
      let neg = s.[!pos] = '-' in
      if neg then incr pos;
      let n = ref 0 in
      let st = !pos in
      while !pos < stop && s.[!pos] >= '0' && s.[!pos] <= '9' do
        n := !n * 10 + (Char.code s.[!pos] - 48);
        incr pos
      done;
      if !pos = st then raise Parse_error;
      A (z_of_int (if neg then - !n else !n))
    end in
  item ()

let rec print_sx buf = function
  | A z -> Buffer.add_string buf (string_of_int (int_of_z z))
  | L l ->
    Buffer.add_char buf '(';
    List.iteri (fun i x -> if i > 0 then Buffer.add_char buf ' '; print_sx buf x) l;
    Buffer.add_char buf ')'

let show x = let b = Buffer.create 64 in print_sx b x; Buffer.contents b

let json_escape s =
  let b = Buffer.create (String.length s + 8) in
  String.iter (fun c -> match c with
      | '"' -> Buffer.add_string b "\\\""
      | '\\' -> Buffer.add_string b "\\\\"
      | '\n' -> Buffer.add_string b "\\n"
      | '\t' -> Buffer.add_string b "\\t"
      | c -> Buffer.add_char b c) s;
  Buffer.contents b

let () =
  let prop = Sys.argv.(1) in
  let file = Sys.argv.(2) in
  let run = Runs.lookup prop in
  let maxs = if Array.length Sys.argv > 3 then int_of_string Sys.argv.(3) else 20 in
  let ic = open_in file in
  let lines = ref 0 and subs = ref 0 and ok = ref 0 and repaired = ref 0
  and diverge = ref 0 and nviol = ref 0 and malformed = ref 0 in
  let known : (int, int * string) Hashtbl.t = Hashtbl.create 7 in
  let viol = ref [] and divs = ref [] in
  (try
     while true do
       let line = input_line ic in
       incr lines;
       let n = String.length line in
       (match String.index_opt line '\t' with
        | None -> incr malformed
        | Some t ->
          (try
             let input = parse line 0 t in
             let t2 = (match String.index_from_opt line (t + 1) '\t' with Some k -> k | None -> n) in
             let req = if t2 < n then String.sub line (t2 + 1) (n - t2 - 1) else "" in
             let impl = parse line (t + 1) t2 in
             let out = run input in
             let impls = (match impl with L l -> l | A _ -> []) in
             let outs = (match out with L l -> l | A _ -> []) in
             if List.length impls <> List.length outs then begin
               incr nviol;
               if List.length !viol < maxs then
                 viol := (!lines, -1, req, show impl, show out, "length-mismatch") :: !viol
             end else
               List.iteri (fun i (im, o) ->
                   incr subs;
                   let (m, sp, k) = (match o with
                       | L [m; sp; A k] -> (m, sp, int_of_z k)
                       | _ -> (A Z0, A Z0, 0)) in
                   if sx_eqb im sp then begin
                     incr ok;
                     if not (sx_eqb m sp) then begin
                       if k <> 0 then incr repaired
                       else begin
                         incr diverge;
                         if List.length !divs < 10 then
                           divs := (!lines, i, req, show im, show m, show sp) :: !divs
                       end
                     end
                   end else if k <> 0 && sx_eqb im m then begin
                     let (c, s) = (try Hashtbl.find known k with Not_found -> (0, "")) in
                     let s = if c = 0 then Printf.sprintf "line %d sub %d request %s impl %s spec %s" !lines i (if String.length req > 400 then String.sub req 0 400 else req) (show im) (show sp) else s in
                     Hashtbl.replace known k (c + 1, s)
                   end else begin
                     incr nviol;
                     if List.length !viol < maxs then
                       viol := (!lines, i, req, show im, show m, show sp) :: !viol
                   end)
                 (List.combine impls outs)
           with Parse_error -> incr malformed))
     done
   with End_of_file -> ());
  close_in ic;
  let b = Buffer.create 1024 in
  Printf.bprintf b "{\"lines\": %d, \"subcases\": %d, \"ok\": %d, \"repaired_known\": %d, \"model_divergence\": %d, \"violations\": %d, \"malformed\": %d, \"known\": {"
    !lines !subs !ok !repaired !diverge !nviol !malformed;
  let first = ref true in
  Hashtbl.iter (fun k (c, s) ->
      if not !first then Buffer.add_string b ", ";
      first := false;
      Printf.bprintf b "\"%d\": {\"count\": %d, \"sample\": \"%s\"}" k c (json_escape s)) known;
  Buffer.add_string b "}, \"violation_samples\": [";
  let pr l =
    List.iteri (fun i (ln, sub, inp, im, m, sp) ->
        if i > 0 then Buffer.add_string b ", ";
        Printf.bprintf b "{\"line\": %d, \"sub\": %d, \"request\": \"%s\", \"impl\": \"%s\", \"model\": \"%s\", \"spec\": \"%s\"}"
          ln sub (json_escape inp) (json_escape im) (json_escape m) (json_escape sp)) (List.rev l) in
  pr !viol;
  Buffer.add_string b "], \"divergence_samples\": [";
  pr !divs;
  Buffer.add_string b "]}";
  print_endline (Buffer.contents b)
