(* C05, saving repeatedly: if every operation flags the stand-off members whose file content it
   changes, then after every save the files on disk hold the current content of every
   stand-off member, whatever was saved, modified and saved before. *)
From Coq Require Import String Ascii.
From Coq Require Import List NArith ZArith Bool Arith Lia.
From Stam Require Import Base.Tac Model.Offset Model.Json Model.TempId Model.StamJson Proofs.StamJson.
Import ListNotations.

Lemma str_mem_In x l : str_mem x l = true <-> In x l.
Proof.
  induction l as [|y l IH]; cbn; [split; [discriminate|intros []]|].
  rewrite orb_true_iff, IH. split.
  - intros [E|H]; [left; apply str_eqb_eq; exact E|right; exact H].
  - intros [->|H]; [left; apply str_eqb_refl|right; exact H].
Qed.

Lemma str_mem_app x a b : str_mem x (a ++ b) = str_mem x a || str_mem x b.
Proof. induction a as [|y a IH]; cbn; [reflexivity|]. rewrite IH, orb_assoc. reflexivity. Qed.

(** * equality of file contents *)
Lemma json_eqb_eq : forall a b, json_eqb a b = true -> a = b.
Proof.
  fix IH 1. intros a b. destruct a as [|x|x|x|x|x], b as [|y|y|y|y|y]; cbn [json_eqb]; try discriminate; intros H.
  - reflexivity.
  - apply Bool.eqb_prop in H. subst. reflexivity.
  - apply str_eqb_eq in H. subst. reflexivity.
  - apply str_eqb_eq in H. subst. reflexivity.
  - f_equal. revert y H. induction x as [|u x IHx]; intros [|v y] H; try discriminate; [reflexivity|].
    apply andb_prop in H. destruct H as [H1 H2]. f_equal; [apply IH; exact H1|apply IHx; exact H2].
  - f_equal. revert y H. induction x as [|u x IHx]; intros [|v y] H; try discriminate; [reflexivity|].
    apply andb_prop in H. destruct H as [H12 H3]. apply andb_prop in H12. destruct H12 as [H1 H2].
    destruct u as [ku ju], v as [kv jv]. cbn [fst snd] in *. apply str_eqb_eq in H1. apply IH in H2. subst.
    f_equal. apply IHx. exact H3.
Qed.

Lemma fcontent_eqb_eq a b : fcontent_eqb a b = true -> a = b.
Proof.
  destruct a, b; cbn; try discriminate; intros H.
  - apply str_eqb_eq in H. subst. reflexivity.
  - apply json_eqb_eq in H. subst. reflexivity.
Qed.

(** * the disk *)
Lemma file_get_put_same d f c : file_get (file_put d f c) f = Some c.
Proof. unfold file_put. cbn. rewrite str_eqb_refl. reflexivity. Qed.

Lemma file_get_filter_other d f g : str_eqb f g = false ->
  file_get (filter (fun p => negb (str_eqb (fst p) f)) d) g = file_get d g.
Proof.
  intros N. induction d as [|[n c] d IH]; cbn [filter file_get fst]; [reflexivity|].
  destruct (str_eqb n f) eqn:E; cbn [negb].
  - apply str_eqb_eq in E. subst n. rewrite N. exact IH.
  - cbn [file_get]. rewrite IH. reflexivity.
Qed.

Lemma file_get_put_other d f c g : str_eqb f g = false -> file_get (file_put d f c) g = file_get d g.
Proof. intros N. unfold file_put. cbn [file_get]. rewrite N. apply file_get_filter_other. exact N. Qed.

Lemma file_get_In fs f c : file_get fs f = Some c -> In (f, c) fs.
Proof.
  induction fs as [|[n x] fs IH]; cbn; [discriminate|].
  destruct (str_eqb n f) eqn:E.
  - intros H. injection H as <-. apply str_eqb_eq in E. subst. left. reflexivity.
  - intros H. right. apply IH. exact H.
Qed.

Lemma file_get_first fs f c : NoDup (map fst fs) -> In (f, c) fs -> file_get fs f = Some c.
Proof.
  induction fs as [|[n x] fs IH]; intros ND Hin; [destruct Hin|].
  cbn [map fst] in ND. apply NoDup_cons_iff in ND. destruct ND as [Hn ND].
  cbn [file_get]. destruct Hin as [E|Hin].
  - injection E as -> ->. rewrite str_eqb_refl. reflexivity.
  - destruct (str_eqb n f) eqn:E.
    + apply str_eqb_eq in E. subst n. exfalso. apply Hn. apply in_map_iff. exists (f, c). split; [reflexivity|exact Hin].
    + apply IH; assumption.
Qed.

(** * the contract of the changed flags *)
(* every stand-off file that is not flagged holds what it should *)
Definition Clean (st : fstate) (current : files) : Prop :=
  forall f c, file_get current f = Some c -> str_mem f (fs_dirty st) = false -> file_get (fs_disk st) f = Some c.

Lemma Clean_start : Clean (mkfs [] []) [].
Proof. intros f c H. discriminate. Qed.

Lemma mark_clean st before after : Clean st before -> Clean (mark before after st) after.
Proof.
  intros HC f c Hf Hd. unfold mark in *. cbn [fs_dirty fs_disk] in *.
  rewrite str_mem_app in Hd. apply orb_false_iff in Hd. destruct Hd as [Hd1 Hd2].
  apply HC; [|exact Hd1].
  (* the entry (f, c) of [after] was not flagged: [before] holds the same content *)
  destruct (file_get before f) as [c'|] eqn:Eb.
  - destruct (fcontent_eqb c' c) eqn:Ec; [apply fcontent_eqb_eq in Ec; subst; reflexivity|].
    exfalso. assert (T : str_mem f (map fst (filter (fun p => match file_get before (fst p) with
                                  | Some c0 => negb (fcontent_eqb c0 (snd p)) | None => true end) after)) = true).
    { apply str_mem_In. apply in_map_iff. exists (f, c). split; [reflexivity|]. apply filter_In.
      split; [apply file_get_In; exact Hf|]. cbn [fst snd]. rewrite Eb, Ec. reflexivity. }
    rewrite T in Hd2. discriminate.
  - exfalso. assert (T : str_mem f (map fst (filter (fun p => match file_get before (fst p) with
                                  | Some c0 => negb (fcontent_eqb c0 (snd p)) | None => true end) after)) = true).
    { apply str_mem_In. apply in_map_iff. exists (f, c). split; [reflexivity|]. apply filter_In.
      split; [apply file_get_In; exact Hf|]. cbn [fst snd]. rewrite Eb. reflexivity. }
    rewrite T in Hd2. discriminate.
Qed.

(* writing some of the files of [l] (those selected by [sel]) *)
Lemma fold_put_get (sel : str -> bool) : forall (l : files) d g,
  NoDup (map fst l) ->
  file_get (fold_left (fun d p => if sel (fst p) then file_put d (fst p) (snd p) else d) l d) g =
  match file_get l g with
  | Some c => if sel g then Some c else file_get d g
  | None => file_get d g
  end.
Proof.
  induction l as [|[n c] l IH]; intros d g ND; cbn [fold_left file_get fst snd]; [reflexivity|].
  cbn [map fst] in ND. apply NoDup_cons_iff in ND. destruct ND as [Hn ND].
  rewrite IH by exact ND.
  destruct (str_eqb n g) eqn:E.
  - apply str_eqb_eq in E. subst n.
    assert (Hnone : file_get l g = None).
    { destruct (file_get l g) as [x|] eqn:Ex; [|reflexivity]. exfalso. apply Hn. apply file_get_In in Ex.
      apply in_map_iff. exists (g, x). split; [reflexivity|exact Ex]. }
    rewrite Hnone. destruct (sel g); [apply file_get_put_same|reflexivity].
  - destruct (file_get l g) as [x|]; [destruct (sel g); [reflexivity|]|];
      (destruct (sel n); [apply file_get_put_other; exact E|reflexivity]).
Qed.

Theorem flush_current st current : NoDup (map fst current) -> Clean st current ->
  forall f c, file_get current f = Some c -> file_get (fs_disk (flush current st)) f = Some c.
Proof.
  intros ND HC f c Hf. unfold flush. cbn [fs_disk].
  rewrite (fold_put_get (fun n => str_mem n (fs_dirty st))) by exact ND. rewrite Hf.
  destruct (str_mem f (fs_dirty st)) eqn:E; [reflexivity|]. apply HC; assumption.
Qed.

(* flushing the flagged files gives the disk that rewriting every file would give *)
Theorem flush_is_rewrite_all st current : NoDup (map fst current) -> Clean st current ->
  forall g, file_get (fs_disk (flush current st)) g = file_get (rewrite_all current (fs_disk st)) g.
Proof.
  intros ND HC g. unfold flush, rewrite_all. cbn [fs_disk].
  rewrite (fold_put_get (fun n => str_mem n (fs_dirty st))) by exact ND.
  rewrite (fold_put_get (fun _ => true)) by exact ND.
  destruct (file_get current g) as [c|] eqn:E; [|reflexivity].
  destruct (str_mem g (fs_dirty st)) eqn:Ed; [reflexivity|]. apply HC; assumption.
Qed.

Lemma flush_clean st current : NoDup (map fst current) -> Clean st current -> Clean (flush current st) current.
Proof. intros ND HC f c Hf _. apply flush_current; assumption. Qed.

Lemma flag_all_clean names st current : Clean st current -> Clean (flag_all names st) current.
Proof.
  intros HC f c Hf Hd. unfold flag_all in *. cbn [fs_dirty fs_disk] in *.
  rewrite str_mem_app in Hd. apply orb_false_iff in Hd. destruct Hd as [Hd _]. apply HC; assumption.
Qed.

(* any sequence of modifications and saves *)
Inductive Reached : fstate -> files -> Prop :=
| R_start : Reached (mkfs [] []) []
| R_modify st before after : Reached st before -> Reached (mark before after st) after
| R_flag st names current : Reached st current -> Reached (flag_all names st) current
| R_save st current : Reached st current -> NoDup (map fst current) -> Reached (flush current st) current.

Theorem reached_clean st current : Reached st current -> Clean st current.
Proof.
  induction 1 as [|st before after H IH|st names current H IH|st current H IH ND].
  - exact Clean_start.
  - apply mark_clean. exact IH.
  - apply flag_all_clean. exact IH.
  - apply flush_clean; assumption.
Qed.

Theorem save_after_any_history st current :
  Reached st current -> NoDup (map fst current) ->
  forall f c, file_get current f = Some c -> file_get (fs_disk (flush current st)) f = Some c.
Proof. intros H ND. apply flush_current; [exact ND|apply reached_clean; exact H]. Qed.

(* the histories of the correspondence run: any operations, saves anywhere *)
Theorem save_run_reached {S X} (step : S -> X -> S) (cur : S -> files) (always : S -> list str) :
  (forall s, NoDup (map fst (cur s))) ->
  forall ops s st, Reached st (cur s) ->
  Reached (snd (save_run step cur always ops s st)) (cur (fst (save_run step cur always ops s st))).
Proof.
  intros ND. induction ops as [|[x|] ops IH]; intros s st H; cbn [save_run].
  - exact H.
  - apply IH. apply R_modify. exact H.
  - apply IH. apply R_save; [apply R_flag; exact H|apply ND].
Qed.

(* an operation that leaves the contents of the stand-off files as they are (exporting a copy
   elsewhere, naming files) flags nothing and unflags nothing *)
Lemma fcontent_eqb_refl c : fcontent_eqb c c = true.
Proof.
  assert (J : forall j, json_eqb j j = true).
  { fix IH 1. intros [|b|l|s|l|m]; cbn [json_eqb]; try apply str_eqb_refl; try reflexivity.
    - destruct b; reflexivity.
    - induction l as [|x l IHl]; [reflexivity|]. rewrite IH, IHl. reflexivity.
    - induction m as [|[k v] m IHm]; [reflexivity|]. cbn [fst snd]. rewrite str_eqb_refl, IH, IHm. reflexivity. }
  destruct c; cbn; [apply str_eqb_refl|apply J].
Qed.

Lemma filter_unchanged base : forall l,
  (forall p, In p l -> file_get base (fst p) = Some (snd p)) ->
  filter (fun p => match file_get base (fst p) with Some c => negb (fcontent_eqb c (snd p)) | None => true end) l = [].
Proof.
  induction l as [|p l IH]; intros H; [reflexivity|]. cbn [filter].
  rewrite (H p (or_introl eq_refl)), fcontent_eqb_refl. cbn [negb]. apply IH. intros q Hq. apply H. right. exact Hq.
Qed.

Theorem export_keeps_flags cur st : NoDup (map fst cur) -> mark cur cur st = st.
Proof.
  intros ND. unfold mark. destruct st as [dirty disk]. cbn [fs_dirty fs_disk].
  rewrite filter_unchanged; [cbn [map]; rewrite app_nil_r; reflexivity|].
  intros [f c] Hin. apply file_get_first; assumption.
Qed.
