(* The table of arms that tools/translate_relpair.py reads from src/textselection.rs on every run
   (Gen/RelPairTable.v) denotes Model/Rel.test_pair: for every operator, modifier combination,
   text and pair of selections the code's match evaluates - without any subtraction underflowing -
   to the value of the model that the theorems of C13 and C06 are about. *)
From Coq Require Import List Arith Bool Lia.
Import ListNotations.
From Stam Require Import Base.Tac Model.Rel Model.RelArms Gen.RelPairTable.

Lemma ws_limit_agrees : src_whitespace_limit = WHITESPACE_LIMIT.
Proof. reflexivity. Qed.

Lemma gap_ws_text ws b e :
  gap_ws ws b e = if WHITESPACE_LIMIT <? e - b then false else text_ws ws b e.
Proof.
  unfold gap_ws, text_ws. destruct (WHITESPACE_LIMIT <? e - b) eqn:E.
  - apply Nat.ltb_lt in E. replace (e - b <=? WHITESPACE_LIMIT) with false by (symmetry; apply Nat.leb_gt; exact E).
    rewrite andb_false_r. reflexivity.
  - apply Nat.ltb_ge in E. replace (e - b <=? WHITESPACE_LIMIT) with true by (symmetry; apply Nat.leb_le; exact E).
    rewrite andb_true_r. reflexivity.
Qed.

Ltac one_case :=
  match goal with
  | |- context [?a <=? ?b] => destruct (Nat.leb_spec a b)
  | |- context [?a <? ?b] => destruct (Nat.ltb_spec a b)
  | |- context [?a =? ?b] => destruct (Nat.eqb_spec a b)
  end.
Ltac cases := repeat (one_case; cbv beta iota).

(* for every operator (12 relations x all x negate x limit x allow_whitespace), every text and every
   two selections: the arm the source selects evaluates, with no underflow, to test_pair *)
Theorem pair_arms_agree ws o s r : interp_pair pair_arms ws o s r = Some (test_pair ws o s r).
Proof.
  destruct o as [rel all neg lim w]. destruct s as [sh sb se], r as [rh rb re].
  destruct rel, neg, lim as [lim|].
  all: cbv [interp_pair find_arm pair_arms existsb pa_pats pa_body pat_matches rel_eqb flag_matches p_rel p_all p_neg p_lim
            orel oall oneg olim ows Bool.eqb andb orb toggle negb test_pair pos_pair].
  all: cbv [eval_b eval_n cmp2 option_map tb te olim ows].
  all: try reflexivity.
  all: try rewrite !gap_ws_text.
  all: try (destruct w; cbv beta iota).
  all: cases; try reflexivity; try lia.
Qed.

(* in particular the pair test of the code never subtracts below zero *)
Corollary pair_test_never_underflows ws o s r : interp_pair pair_arms ws o s r <> None.
Proof. rewrite pair_arms_agree. discriminate. Qed.
