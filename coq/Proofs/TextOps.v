(* Proofs about Model/TextOps.v against Spec/TextOpsSpec.v. *)
From Coq Require Import NArith.
From Stam Require Import Base.Tac Base.ListAux Model.Offset Model.Utf8 Proofs.Utf8 Model.TextOps Spec.TextOpsSpec.

(** * the resource's conversions are exact (C12, index-free instance) *)

Lemma cons_nil t : Consistent [] t.
Proof. intros p bp []. Qed.
Lemma cons_nil' t : Consistent' [] t.
Proof. intros p bp []. Qed.

Lemma bpos_ok t p : p <= length t -> bpos t p = OOk (bytepos t p).
Proof. intros. apply utf8byte_exact; [apply cons_nil|assumption]. Qed.
Lemma bpos_oob t p : length t < p -> bpos t p = OErr.
Proof. intros. apply utf8byte_oob; [apply cons_nil|assumption]. Qed.
Lemma cpos_ok t p : p <= length t -> cpos t (bytepos t p) = OOk p.
Proof. intros. apply charpos_exact; [apply cons_nil'|assumption]. Qed.

Lemma bytepos_mono t a b : a <= b -> b <= length t -> bytepos t a <= bytepos t b.
Proof.
  intros H1 H2. destruct (Nat.eq_dec a b) as [->|]; [lia|].
  pose proof (bytepos_lt t a b). lia.
Qed.

Lemma res_text_by_offset_ok t ob oe : ob <= oe -> oe <= length t ->
  res_text_by_offset t ob oe = OOk (bytepos t ob, sub t ob oe).
Proof.
  intros H1 H2. unfold res_text_by_offset. rewrite !bpos_ok by lia.
  pose proof (bytepos_mono t ob oe H1 H2).
  replace (bytepos t oe <? bytepos t ob) with false by lia.
  rewrite byte_slice_sub by lia. reflexivity.
Qed.

Lemma res_text_by_offset_past t ob oe : oe < ob -> oe <= length t ->
  res_text_by_offset t ob oe = OErr.
Proof.
  intros H1 H2. unfold res_text_by_offset.
  destruct (Nat.le_gt_cases ob (length t)) as [H|H].
  - rewrite !bpos_ok by lia. pose proof (bytepos_lt t oe ob H1 H).
    replace (bytepos t oe <? bytepos t ob) with true by lia. reflexivity.
  - rewrite (bpos_oob t ob) by lia. reflexivity.
Qed.

Lemma sel_text_ok t sb se : sb <= se -> se <= length t ->
  sel_text t sb se = OOk (bytepos t sb, sub t sb se).
Proof.
  intros H1 H2. unfold sel_text. rewrite !bpos_ok by lia.
  rewrite byte_slice_sub by lia. reflexivity.
Qed.

Lemma res_textselection_ok t b e : b <= e -> e <= length t -> res_textselection t b e = Some (b, e).
Proof.
  intros. unfold res_textselection.
  replace (length t <? b) with false by lia. replace (length t <? e) with false by lia.
  replace (b <=? e) with true by lia. reflexivity.
Qed.

(* a byte position inside the selection's slice, back to a codepoint position of the resource *)
Lemma cpos_in_sub t sb se p : sb <= se -> se <= length t -> p <= se - sb ->
  cpos t (bytepos t sb + bytepos (sub t sb se) p) = OOk (sb + p).
Proof.
  intros H1 H2 H3. rewrite bytepos_sub by lia.
  pose proof (bytepos_mono t sb (sb + p) ltac:(lia) ltac:(lia)).
  replace (bytepos t sb + (bytepos t (sb + p) - bytepos t sb)) with (bytepos t (sb + p)) by lia.
  apply cpos_ok. lia.
Qed.
(** * occurrences on the plain string *)

Lemma prefixb_app nd rest : prefixb nd (nd ++ rest) = true.
Proof. induction nd as [|c nd IH]; [reflexivity|]. cbn. rewrite N.eqb_refl. exact IH. Qed.

Lemma prefixb_true nd : forall hay, prefixb nd hay = true -> hay = nd ++ skipn (length nd) hay.
Proof.
  induction nd as [|c nd IH]; intros hay H; [reflexivity|].
  destruct hay as [|h hay]; [discriminate|]. cbn in H. apply andb_true_iff in H. destruct H as [H1 H2].
  apply N.eqb_eq in H1. subst h. cbn. f_equal. apply IH. exact H2.
Qed.

Lemma prefixb_length nd hay : prefixb nd hay = true -> length nd <= length hay.
Proof.
  intros H. apply prefixb_true in H. rewrite H, app_length. lia.
Qed.

Lemma first_occ_Some nd : forall hay k, first_occ nd hay = Some k ->
  k + length nd <= length hay /\ prefixb nd (skipn k hay) = true
  /\ forall j, j < k -> prefixb nd (skipn j hay) = false.
Proof.
  induction hay as [|c hay IH]; intros k H.
  - cbn in H. destruct (prefixb nd []) eqn:E; [|discriminate]. injection H as <-.
    split; [apply prefixb_length in E; cbn in *; lia|]. split; [exact E|]. intros j Hj. lia.
  - cbn [first_occ] in H. destruct (prefixb nd (c :: hay)) eqn:E.
    + injection H as <-. split; [apply prefixb_length in E; cbn in *; lia|]. split; [exact E|]. intros; lia.
    + destruct (first_occ nd hay) as [k'|] eqn:E'; [|discriminate]. cbn in H. injection H as <-.
      destruct (IH k' eq_refl) as (H1 & H2 & H3). split; [cbn; lia|]. split; [exact H2|].
      intros [|j] Hj; [exact E|]. cbn. apply H3. lia.
Qed.

Lemma first_occ_None nd : forall hay, first_occ nd hay = None ->
  forall j, prefixb nd (skipn j hay) = false.
Proof.
  induction hay as [|c hay IH]; intros H j.
  - cbn in H. destruct (prefixb nd []) eqn:E; [discriminate|]. destruct j; exact E.
  - cbn [first_occ] in H. destruct (prefixb nd (c :: hay)) eqn:E; [discriminate|].
    destruct (first_occ nd hay) eqn:E'; [discriminate|]. destruct j; [exact E|]. cbn. apply IH. reflexivity.
Qed.

Lemma mi_skip nd : forall hay pos skip, skip <= length hay ->
  match_indices_go nd hay pos skip = match_indices_go nd (skipn skip hay) (pos + skip) 0.
Proof.
  induction hay as [|c hay IH]; intros pos skip H.
  - cbn in H. replace skip with 0 by lia. rewrite Nat.add_0_r. reflexivity.
  - destruct skip as [|s]; [rewrite Nat.add_0_r; reflexivity|].
    cbn [match_indices_go skipn]. cbn [Nat.eqb andb]. rewrite Nat.sub_succ, Nat.sub_0_r.
    rewrite IH by (cbn in H; lia). f_equal. lia.
Qed.

Lemma mi_unfold nd : forall hay pos, match_indices_go nd hay pos 0 =
  match first_occ nd hay with
  | None => []
  | Some k => (pos + k, pos + k + length nd) ::
       match nd with
       | [] => match hay with [] => [] | _ :: h' => match_indices_go nd h' (S pos) 0 end
       | _ :: _ => match_indices_go nd (skipn (k + length nd) hay) (pos + k + length nd) 0
       end
  end.
Proof.
  destruct nd as [|n nd].
  - intros [|c hay] pos; cbn; rewrite !Nat.add_0_r; reflexivity.
  - set (ND := n :: nd). induction hay as [|c hay IH]; intros pos; [reflexivity|].
    cbn [match_indices_go first_occ]. cbn [Nat.eqb andb]. destruct (prefixb ND (c :: hay)) eqn:E.
    + rewrite !Nat.add_0_r. f_equal. apply prefixb_length in E.
      rewrite mi_skip by (subst ND; cbn in *; lia). subst ND. cbn [length].
      rewrite Nat.sub_succ, Nat.sub_0_r. cbn [Nat.add skipn]. f_equal. lia.
    + rewrite IH. destruct (first_occ ND hay) as [k|]; [|reflexivity]. cbn [option_map].
      subst ND. cbn [length]. replace (S pos + k) with (pos + S k) by lia. f_equal.
Qed.

Lemma mi_shift nd : forall hay pos skip,
  match_indices_go nd hay pos skip = map (shift pos) (match_indices_go nd hay 0 skip).
Proof.
  induction hay as [|c hay IH]; intros pos skip.
  - cbn. destruct ((skip =? 0) && prefixb nd []); [|reflexivity]. cbn. unfold shift. cbn. rewrite !Nat.add_0_r. reflexivity.
  - cbn [match_indices_go]. destruct ((skip =? 0) && prefixb nd (c :: hay)).
    + cbn [map]. f_equal; [unfold shift; cbn; f_equal; lia|].
      rewrite IH, (IH 1). rewrite map_map. apply map_ext. intros [a b]. unfold shift. cbn. f_equal; lia.
    + rewrite IH, (IH 1). rewrite map_map. apply map_ext. intros [a b]. unfold shift. cbn. f_equal; lia.
Qed.
(** * slices of slices *)
Lemma sub_skipn t ob oe j : j <= oe - ob -> skipn j (sub t ob oe) = sub t (ob + j) oe.
Proof.
  intros H. unfold sub. rewrite skipn_firstn_comm. rewrite skipn_skipn.
  f_equal; [lia|]. f_equal. lia.
Qed.

Lemma sub_nil t ob : sub t ob ob = [].
Proof. unfold sub. rewrite Nat.sub_diag. reflexivity. Qed.

Lemma In_firstn' {X} (l : list X) n x : In x (firstn n l) -> In x l.
Proof. intros H. rewrite <- (firstn_skipn n l). apply in_or_app. left. exact H. Qed.
Lemma In_skipn' {X} (l : list X) n x : In x (skipn n l) -> In x l.
Proof. intros H. rewrite <- (firstn_skipn n l). apply in_or_app. right. exact H. Qed.

Lemma In_sub t b e c : In c (sub t b e) -> In c t.
Proof. unfold sub. intros H. apply In_firstn' in H. apply (In_skipn' _ _ _ H). Qed.

Lemma blen_map (g : N -> N) l : (forall c, In c l -> clen (g c) = clen c) -> blen (map g l) = blen l.
Proof.
  induction l as [|c l IH]; intros H; [reflexivity|]. cbn [map]. rewrite !blen_cons.
  rewrite H by (left; reflexivity). rewrite IH; [reflexivity|]. intros; apply H; right; assumption.
Qed.

Lemma bytepos_map (g : N -> N) l p : (forall c, In c l -> clen (g c) = clen c) ->
  bytepos (map g l) p = bytepos l p.
Proof.
  intros H. unfold bytepos. rewrite firstn_map. apply blen_map. intros c Hc. apply H.
  apply (In_firstn' _ _ _ Hc).
Qed.

(* the needle occupies blen nd bytes where it occurs *)
Lemma bytepos_occ nd hay k : prefixb nd (skipn k hay) = true ->
  bytepos hay (k + length nd) = bytepos hay k + blen nd.
Proof.
  intros H. apply prefixb_true in H. rewrite bytepos_add. f_equal.
  rewrite H. unfold bytepos. rewrite firstn_app, Nat.sub_diag, firstn_all. cbn. rewrite app_nil_r. reflexivity.
Qed.

Section FindProof.
  Variable find_b : text -> text -> option nat.
  Hypothesis find_b_spec : forall hay nd, find_b hay nd = option_map (bytepos hay) (first_occ nd hay).
  Variable g : N -> N.
  Variable t : text.
  Hypothesis g_len : forall c, In c t -> clen (g c) = clen c.
  Variable tr : text -> text.
  Hypothesis tr_spec : forall b e, tr (sub t b e) = map g (sub t b e).

  Lemma find_iter_done fuel frag ob oe : oe < ob -> oe <= length t ->
    find_iter find_b (S fuel) tr t frag ob oe = ([], Done).
  Proof. intros. cbn [find_iter]. rewrite res_text_by_offset_past by assumption. reflexivity. Qed.

  Lemma find_iter_spec : forall n fuel frag ob oe,
    oe - ob <= n -> ob <= oe -> oe <= length t -> n + 2 <= fuel ->
    find_iter find_b fuel tr t frag ob oe
    = (match_indices_go frag (map g (sub t ob oe)) ob 0, Done).
  Proof.
    induction n as [|n IH]; intros fuel frag ob oe Hn H1 H2 Hf.
    all: destruct fuel as [|fuel]; [lia|]; cbn [find_iter].
    all: rewrite res_text_by_offset_ok, tr_spec, find_b_spec, mi_unfold by assumption.
    all: set (hay := sub t ob oe); set (hay' := map g hay).
    all: assert (Hg : forall c, In c hay -> clen (g c) = clen c) by (intros c Hc; apply g_len; apply (In_sub _ _ _ _ Hc)).
    all: assert (Hlen : length hay' = oe - ob) by (subst hay' hay; rewrite map_length, sub_length; lia).
    all: destruct (first_occ frag hay') as [k|] eqn:Eo; [|reflexivity]; cbn [option_map].
    all: destruct (first_occ_Some _ _ _ Eo) as (Hk & Hp & _).
    all: pose proof (bytepos_occ _ _ _ Hp) as Hocc.
    all: unfold hay' in Hocc; rewrite (bytepos_map g hay (k + length frag) Hg), (bytepos_map g hay k Hg) in Hocc.
    all: change (bytepos hay' k) with (bytepos (map g hay) k); rewrite !(bytepos_map g hay k Hg).
    all: unfold hay at 1; rewrite cpos_in_sub by lia.
    all: rewrite <- Nat.add_assoc, <- Hocc; unfold hay at 1; rewrite cpos_in_sub by lia.
    all: rewrite res_textselection_ok by lia.
    - (* n = 0: ob = oe *)
      assert (ob = oe) by lia. subst oe. assert (k = 0 /\ length frag = 0) as [-> Hl] by lia.
      destruct frag; [|discriminate]. cbn [is_nil length]. rewrite !Nat.add_0_r.
      destruct fuel; [lia|]. rewrite find_iter_done by lia.
      unfold hay', hay. rewrite sub_nil. reflexivity.
    - destruct frag as [|f frag].
      + cbn [is_nil length]. assert (k = 0) as ->.
        { destruct k; [reflexivity|]. destruct (first_occ_Some _ _ _ Eo) as (_ & _ & H3). specialize (H3 0 ltac:(lia)). discriminate. }
        rewrite !Nat.add_0_r. destruct (Nat.eq_dec ob oe) as [->|Hne].
        * destruct fuel; [lia|]. rewrite find_iter_done by lia. unfold hay', hay. rewrite sub_nil. reflexivity.
        * rewrite (IH fuel [] (S ob) oe) by lia.
          assert (Hs : skipn 1 hay' = map g (sub t (S ob) oe)).
          { unfold hay', hay. rewrite skipn_map, sub_skipn by lia. do 2 f_equal. lia. }
          destruct hay' as [|c h']; [cbn in Hlen; lia|]. cbn in Hs. rewrite Hs. reflexivity.
      + cbn [is_nil]. set (F := f :: frag) in *.
        assert (1 <= length F) by (subst F; cbn; lia).
        rewrite (IH fuel F (ob + (k + length F)) oe) by lia.
        unfold hay', hay. rewrite skipn_map, sub_skipn by lia.
        replace (ob + k + length F) with (ob + (k + length F)) by lia. reflexivity.
  Qed.
End FindProof.
(** * case-insensitive occurrences when lower-casing is one-to-one and length-preserving *)
Lemma lc_prefix_map lc (g : N -> N) : forall hay nd, (forall c, In c hay -> lc c = [g c]) ->
  lc_prefix lc hay nd = if prefixb nd (map g hay) then Some (length nd) else None.
Proof.
  induction hay as [|c hay IH]; intros nd H.
  - destruct nd; reflexivity.
  - destruct nd as [|n nd]; [reflexivity|]. cbn [lc_prefix map prefixb]. rewrite (H c) by (left; reflexivity).
    cbn [strip_prefix]. rewrite (N.eqb_sym (g c) n). destruct (n =? g c)%N; [|reflexivity]. cbn [andb].
    rewrite IH by (intros; apply H; right; assumption).
    destruct (prefixb nd (map g hay)); reflexivity.
Qed.

Lemma nocase_go_map lc (g : N -> N) nd : forall hay pos skip, (forall c, In c hay -> lc c = [g c]) ->
  nocase_go lc nd hay pos skip = match_indices_go nd (map g hay) pos skip.
Proof.
  induction hay as [|c hay IH]; intros pos skip H.
  - cbn. destruct nd; destruct (skip =? 0); reflexivity.
  - cbn [nocase_go map match_indices_go]. change (g c :: map g hay) with (map g (c :: hay)).
    destruct (skip =? 0) eqn:E; cbn [andb].
    + rewrite (lc_prefix_map lc g) by exact H. apply Nat.eqb_eq in E. subst skip.
      destruct (prefixb nd (map g (c :: hay))); rewrite IH by (intros; apply H; right; assumption); reflexivity.
    + apply IH. intros; apply H; right; assumption.
Qed.

Lemma flat_map_singleton lc (g : N -> N) : forall l, (forall c, In c l -> lc c = [g c]) -> flat_map lc l = map g l.
Proof.
  induction l as [|c l IH]; intros H; [reflexivity|]. cbn. rewrite (H c) by (left; reflexivity).
  cbn. f_equal. apply IH. intros; apply H; right; assumption.
Qed.

Definition LenPres (lc : N -> text) (g : N -> N) (t : text) : Prop :=
  forall c, In c t -> lc c = [g c] /\ clen (g c) = clen c.

Section FindTop.
  Variable find_b : text -> text -> option nat.
  Hypothesis find_b_spec : forall hay nd, find_b hay nd = option_map (bytepos hay) (first_occ nd hay).

  Theorem find_text_spec t nd sb se : sb <= se -> se <= length t ->
    find_text find_b t nd sb se = (map (shift sb) (match_indices nd (sub t sb se)), Done).
  Proof.
    intros H1 H2. unfold find_text, find_fuel.
    rewrite (find_iter_spec find_b find_b_spec (fun c => c) t (fun _ _ => eq_refl) (fun x => x)
               (fun b e => eq_sym (map_id _)) (se - sb)) by lia.
    rewrite map_id, mi_shift. reflexivity.
  Qed.

  Theorem find_text_nocase_spec lc g t nd sb se : LenPres lc g t -> sb <= se -> se <= length t ->
    find_text_nocase find_b (flat_map lc) t nd sb se
    = (map (shift sb) (nocase_indices lc (flat_map lc nd) (sub t sb se)), Done).
  Proof.
    intros HL H1 H2. unfold find_text_nocase, find_fuel.
    rewrite (find_iter_spec find_b find_b_spec g t (fun c Hc => proj2 (HL c Hc)) (flat_map lc)) with (n := se - sb); try lia.
    - rewrite mi_shift. unfold nocase_indices. rewrite (nocase_go_map lc g); [reflexivity|].
      intros c Hc. apply HL. apply (In_sub _ _ _ _ Hc).
    - intros b e. apply flat_map_singleton. intros c Hc. apply HL. apply (In_sub _ _ _ _ Hc).
  Qed.

  Theorem store_find_spec nd : forall ts i, store_find find_b i ts nd = (store_indices i ts nd, Done).
  Proof.
    induction ts as [|t ts IH]; intros i; [reflexivity|]. cbn [store_find store_indices].
    rewrite find_text_spec by lia. rewrite IH. unfold sub. rewrite Nat.sub_0_r, firstn_all. cbn [skipn].
    f_equal. f_equal. rewrite map_map. apply map_ext. intros [a b]. reflexivity.
  Qed.
End FindTop.
