(* Proofs about Model/TextOps.v against Spec/TextOpsSpec.v. *)
From Coq Require Import NArith.
From Stam Require Import Base.Tac Base.ListAux Model.Offset Model.Utf8 Proofs.Utf8 Model.TextOps Spec.TextOpsSpec.

(** * the resource's conversions are exact (C12, index-free instance) *)

Lemma cons_nil t : Consistent [] t.
Proof. intros p bp []. Qed.
Lemma cons_nil' t : Consistent' [] t.
Proof. intros p bp []. Qed.

Lemma bpos_ok t p : p <= length t -> bpos t p = OOk (bytepos t p).
Proof. intros. apply utf8byte_exact; [apply cons_nil|assumption]. Qed.
Lemma bpos_oob t p : length t < p -> bpos t p = OErr.
Proof. intros. apply utf8byte_oob; [apply cons_nil|assumption]. Qed.
Lemma cpos_ok t p : p <= length t -> cpos t (bytepos t p) = OOk p.
Proof. intros. apply charpos_exact; [apply cons_nil'|assumption]. Qed.

Lemma bytepos_mono t a b : a <= b -> b <= length t -> bytepos t a <= bytepos t b.
Proof.
  intros H1 H2. destruct (Nat.eq_dec a b) as [->|]; [lia|].
  pose proof (bytepos_lt t a b). lia.
Qed.

Lemma res_text_by_offset_ok t ob oe : ob <= oe -> oe <= length t ->
  res_text_by_offset t ob oe = OOk (bytepos t ob, sub t ob oe).
Proof.
  intros H1 H2. unfold res_text_by_offset. rewrite !bpos_ok by lia.
  pose proof (bytepos_mono t ob oe H1 H2).
  replace (bytepos t oe <? bytepos t ob) with false by lia.
  rewrite byte_slice_sub by lia. reflexivity.
Qed.

Lemma res_text_by_offset_past t ob oe : oe < ob -> oe <= length t ->
  res_text_by_offset t ob oe = OErr.
Proof.
  intros H1 H2. unfold res_text_by_offset.
  destruct (Nat.le_gt_cases ob (length t)) as [H|H].
  - rewrite !bpos_ok by lia. pose proof (bytepos_lt t oe ob H1 H).
    replace (bytepos t oe <? bytepos t ob) with true by lia. reflexivity.
  - rewrite (bpos_oob t ob) by lia. reflexivity.
Qed.

Lemma sel_text_ok t sb se : sb <= se -> se <= length t ->
  sel_text t sb se = OOk (bytepos t sb, sub t sb se).
Proof.
  intros H1 H2. unfold sel_text. rewrite !bpos_ok by lia.
  rewrite byte_slice_sub by lia. reflexivity.
Qed.

Lemma res_textselection_ok t b e : b <= e -> e <= length t -> res_textselection t b e = Some (b, e).
Proof.
  intros. unfold res_textselection.
  replace (length t <? b) with false by lia. replace (length t <? e) with false by lia.
  replace (b <=? e) with true by lia. reflexivity.
Qed.

(* a byte position inside the selection's slice, back to a codepoint position of the resource *)
Lemma cpos_in_sub t sb se p : sb <= se -> se <= length t -> p <= se - sb ->
  cpos t (bytepos t sb + bytepos (sub t sb se) p) = OOk (sb + p).
Proof.
  intros H1 H2 H3. rewrite bytepos_sub by lia.
  pose proof (bytepos_mono t sb (sb + p) ltac:(lia) ltac:(lia)).
  replace (bytepos t sb + (bytepos t (sb + p) - bytepos t sb)) with (bytepos t (sb + p)) by lia.
  apply cpos_ok. lia.
Qed.
(** * occurrences on the plain string *)

Lemma prefixb_app nd rest : prefixb nd (nd ++ rest) = true.
Proof. induction nd as [|c nd IH]; [reflexivity|]. cbn. rewrite N.eqb_refl. exact IH. Qed.

Lemma prefixb_true nd : forall hay, prefixb nd hay = true -> hay = nd ++ skipn (length nd) hay.
Proof.
  induction nd as [|c nd IH]; intros hay H; [reflexivity|].
  destruct hay as [|h hay]; [discriminate|]. cbn in H. apply andb_true_iff in H. destruct H as [H1 H2].
  apply N.eqb_eq in H1. subst h. cbn. f_equal. apply IH. exact H2.
Qed.

Lemma prefixb_length nd hay : prefixb nd hay = true -> length nd <= length hay.
Proof.
  intros H. apply prefixb_true in H. rewrite H, app_length. lia.
Qed.

Lemma first_occ_Some nd : forall hay k, first_occ nd hay = Some k ->
  k + length nd <= length hay /\ prefixb nd (skipn k hay) = true
  /\ forall j, j < k -> prefixb nd (skipn j hay) = false.
Proof.
  induction hay as [|c hay IH]; intros k H.
  - cbn in H. destruct (prefixb nd []) eqn:E; [|discriminate]. injection H as <-.
    split; [apply prefixb_length in E; cbn in *; lia|]. split; [exact E|]. intros j Hj. lia.
  - cbn [first_occ] in H. destruct (prefixb nd (c :: hay)) eqn:E.
    + injection H as <-. split; [apply prefixb_length in E; cbn in *; lia|]. split; [exact E|]. intros; lia.
    + destruct (first_occ nd hay) as [k'|] eqn:E'; [|discriminate]. cbn in H. injection H as <-.
      destruct (IH k' eq_refl) as (H1 & H2 & H3). split; [cbn; lia|]. split; [exact H2|].
      intros [|j] Hj; [exact E|]. cbn. apply H3. lia.
Qed.

Lemma first_occ_None nd : forall hay, first_occ nd hay = None ->
  forall j, prefixb nd (skipn j hay) = false.
Proof.
  induction hay as [|c hay IH]; intros H j.
  - cbn in H. destruct (prefixb nd []) eqn:E; [discriminate|]. destruct j; exact E.
  - cbn [first_occ] in H. destruct (prefixb nd (c :: hay)) eqn:E; [discriminate|].
    destruct (first_occ nd hay) eqn:E'; [discriminate|]. destruct j; [exact E|]. cbn. apply IH. reflexivity.
Qed.

Lemma mi_skip nd : forall hay pos skip, skip <= length hay ->
  match_indices_go nd hay pos skip = match_indices_go nd (skipn skip hay) (pos + skip) 0.
Proof.
  induction hay as [|c hay IH]; intros pos skip H.
  - cbn in H. replace skip with 0 by lia. rewrite Nat.add_0_r. reflexivity.
  - destruct skip as [|s]; [rewrite Nat.add_0_r; reflexivity|].
    cbn [match_indices_go skipn]. cbn [Nat.eqb andb]. rewrite Nat.sub_succ, Nat.sub_0_r.
    rewrite IH by (cbn in H; lia). f_equal. lia.
Qed.

Lemma mi_unfold nd : forall hay pos, match_indices_go nd hay pos 0 =
  match first_occ nd hay with
  | None => []
  | Some k => (pos + k, pos + k + length nd) ::
       match nd with
       | [] => match hay with [] => [] | _ :: h' => match_indices_go nd h' (S pos) 0 end
       | _ :: _ => match_indices_go nd (skipn (k + length nd) hay) (pos + k + length nd) 0
       end
  end.
Proof.
  destruct nd as [|n nd].
  - intros [|c hay] pos; cbn; rewrite !Nat.add_0_r; reflexivity.
  - set (ND := n :: nd). induction hay as [|c hay IH]; intros pos; [reflexivity|].
    cbn [match_indices_go first_occ]. cbn [Nat.eqb andb]. destruct (prefixb ND (c :: hay)) eqn:E.
    + rewrite !Nat.add_0_r. f_equal. apply prefixb_length in E.
      rewrite mi_skip by (subst ND; cbn in *; lia). subst ND. cbn [length].
      rewrite Nat.sub_succ, Nat.sub_0_r. cbn [Nat.add skipn]. f_equal. lia.
    + rewrite IH. destruct (first_occ ND hay) as [k|]; [|reflexivity]. cbn [option_map].
      subst ND. cbn [length]. replace (S pos + k) with (pos + S k) by lia. f_equal.
Qed.

Lemma mi_shift nd : forall hay pos skip,
  match_indices_go nd hay pos skip = map (shift pos) (match_indices_go nd hay 0 skip).
Proof.
  induction hay as [|c hay IH]; intros pos skip.
  - cbn. destruct ((skip =? 0) && prefixb nd []); [|reflexivity]. cbn. unfold shift. cbn. rewrite !Nat.add_0_r. reflexivity.
  - cbn [match_indices_go]. destruct ((skip =? 0) && prefixb nd (c :: hay)).
    + cbn [map]. f_equal; [unfold shift; cbn; f_equal; lia|].
      rewrite IH, (IH 1). rewrite map_map. apply map_ext. intros [a b]. unfold shift. cbn. f_equal; lia.
    + rewrite IH, (IH 1). rewrite map_map. apply map_ext. intros [a b]. unfold shift. cbn. f_equal; lia.
Qed.

(** * slices of slices *)
Lemma sub_skipn t ob oe j : j <= oe - ob -> skipn j (sub t ob oe) = sub t (ob + j) oe.
Proof.
  intros H. unfold sub. rewrite skipn_firstn_comm. rewrite skipn_skipn.
  f_equal; [lia|]. f_equal. lia.
Qed.

Lemma sub_nil t ob : sub t ob ob = [].
Proof. unfold sub. rewrite Nat.sub_diag. reflexivity. Qed.

Lemma In_firstn' {X} (l : list X) n x : In x (firstn n l) -> In x l.
Proof. intros H. rewrite <- (firstn_skipn n l). apply in_or_app. left. exact H. Qed.
Lemma In_skipn' {X} (l : list X) n x : In x (skipn n l) -> In x l.
Proof. intros H. rewrite <- (firstn_skipn n l). apply in_or_app. right. exact H. Qed.

Lemma In_sub t b e c : In c (sub t b e) -> In c t.
Proof. unfold sub. intros H. apply In_firstn' in H. apply (In_skipn' _ _ _ H). Qed.

Lemma blen_map (g : N -> N) l : (forall c, In c l -> clen (g c) = clen c) -> blen (map g l) = blen l.
Proof.
  induction l as [|c l IH]; intros H; [reflexivity|]. cbn [map]. rewrite !blen_cons.
  rewrite H by (left; reflexivity). rewrite IH; [reflexivity|]. intros; apply H; right; assumption.
Qed.

Lemma bytepos_map (g : N -> N) l p : (forall c, In c l -> clen (g c) = clen c) ->
  bytepos (map g l) p = bytepos l p.
Proof.
  intros H. unfold bytepos. rewrite firstn_map. apply blen_map. intros c Hc. apply H.
  apply (In_firstn' _ _ _ Hc).
Qed.

(* the needle occupies blen nd bytes where it occurs *)
Lemma bytepos_occ nd hay k : prefixb nd (skipn k hay) = true ->
  bytepos hay (k + length nd) = bytepos hay k + blen nd.
Proof.
  intros H. apply prefixb_true in H. rewrite bytepos_add. f_equal.
  rewrite H. unfold bytepos. rewrite firstn_app, Nat.sub_diag, firstn_all. cbn. rewrite app_nil_r. reflexivity.
Qed.

Lemma In_sub_mono t lo b e c : lo <= b -> In c (sub t b e) -> In c (sub t lo e).
Proof.
  intros H Hc. destruct (Nat.le_gt_cases b e) as [Hbe|Hbe].
  - replace b with (lo + (b - lo)) in Hc by lia. rewrite <- sub_skipn in Hc by lia. apply (In_skipn' _ _ _ Hc).
  - unfold sub in Hc. replace (e - b) with 0 in Hc by lia. contradiction.
Qed.

(* the search inside [lo, hi): [g] is what the transformation [tr] of the searched slices does
   to the characters there (nothing, or a one-to-one lower-casing that keeps UTF-8 lengths) *)
Section FindProof.
  Variable find_b : text -> text -> option nat.
  Hypothesis find_b_spec : forall hay nd, find_b hay nd = option_map (bytepos hay) (first_occ nd hay).
  Variable g : N -> N.
  Variable t : text.
  Variables lo hi : nat.
  Hypothesis g_len : forall c, In c (sub t lo hi) -> clen (g c) = clen c.
  Variable tr : text -> text.
  Hypothesis tr_spec : forall b, lo <= b -> b <= hi -> tr (sub t b hi) = map g (sub t b hi).

  Lemma find_iter_done fuel frag ob oe : oe < ob -> oe <= length t ->
    find_iter find_b (S fuel) tr t frag ob oe = ([], Done).
  Proof. intros. cbn [find_iter]. rewrite res_text_by_offset_past by assumption. reflexivity. Qed.

  (* one next() of the iterator *)
  Lemma find_iter_step fuel frag ob : lo <= ob -> ob <= hi -> hi <= length t ->
    find_iter find_b (S fuel) tr t frag ob hi
    = match first_occ frag (map g (sub t ob hi)) with
      | None => ([], Done)
      | Some k =>
          let '(l, s) := find_iter find_b fuel tr t frag
                           (if is_nil frag then S (ob + (k + length frag)) else ob + (k + length frag)) hi in
          ((ob + k, ob + (k + length frag)) :: l, s)
      end.
  Proof.
    intros H0 H1 H2. cbn [find_iter].
    rewrite res_text_by_offset_ok, tr_spec, find_b_spec by assumption.
    set (hay := sub t ob hi); set (hay' := map g hay).
    assert (Hg : forall c, In c hay -> clen (g c) = clen c) by (intros c Hc; apply g_len; apply (In_sub_mono _ _ _ _ _ H0 Hc)).
    assert (Hlen : length hay' = hi - ob) by (subst hay' hay; rewrite map_length, sub_length; lia).
    destruct (first_occ frag hay') as [k|] eqn:Eo; [|reflexivity]; cbn [option_map].
    destruct (first_occ_Some _ _ _ Eo) as (Hk & Hp & _).
    pose proof (bytepos_occ _ _ _ Hp) as Hocc.
    unfold hay' in Hocc; rewrite (bytepos_map g hay (k + length frag) Hg), (bytepos_map g hay k Hg) in Hocc.
    change (bytepos hay' k) with (bytepos (map g hay) k); rewrite !(bytepos_map g hay k Hg).
    unfold hay at 1; rewrite cpos_in_sub by lia.
    rewrite <- Hocc; unfold hay at 1; rewrite cpos_in_sub by lia.
    rewrite res_textselection_ok by lia. reflexivity.
  Qed.

  Lemma find_iter_spec : forall n fuel frag ob,
    hi - ob <= n -> lo <= ob -> ob <= hi -> hi <= length t -> n + 2 <= fuel ->
    find_iter find_b fuel tr t frag ob hi
    = (match_indices_go frag (map g (sub t ob hi)) ob 0, Done).
  Proof.
    induction n as [|n IH]; intros fuel frag ob Hn H0 H1 H2 Hf.
    all: destruct fuel as [|fuel]; [lia|]; rewrite find_iter_step, mi_unfold by assumption.
    all: set (hay' := map g (sub t ob hi)).
    all: assert (Hlen : length hay' = hi - ob) by (subst hay'; rewrite map_length, sub_length; lia).
    all: destruct (first_occ frag hay') as [k|] eqn:Eo; [|reflexivity].
    all: destruct (first_occ_Some _ _ _ Eo) as (Hk & Hp & Hmin).
    - (* n = 0: ob = hi *)
      assert (ob = hi) by lia. subst ob. assert (k = 0 /\ length frag = 0) as [-> Hl] by lia.
      destruct frag; [|discriminate]. cbn [is_nil length]. rewrite !Nat.add_0_r.
      destruct fuel; [lia|]. rewrite find_iter_done by lia.
      unfold hay'. rewrite sub_nil. reflexivity.
    - destruct frag as [|f frag].
      + cbn [is_nil length]. assert (k = 0) as ->.
        { destruct k; [reflexivity|]. specialize (Hmin 0 ltac:(lia)). discriminate. }
        rewrite !Nat.add_0_r. destruct (Nat.eq_dec ob hi) as [->|Hne].
        * destruct fuel; [lia|]. rewrite find_iter_done by lia. unfold hay'. rewrite sub_nil. reflexivity.
        * rewrite (IH fuel [] (S ob)) by lia.
          assert (Hs : skipn 1 hay' = map g (sub t (S ob) hi)).
          { unfold hay'. rewrite skipn_map, sub_skipn by lia. do 2 f_equal. lia. }
          destruct hay' as [|c h']; [cbn in Hlen; lia|]. cbn in Hs. rewrite Hs. reflexivity.
      + cbn [is_nil]. set (F := f :: frag) in *.
        assert (1 <= length F) by (subst F; cbn; lia).
        rewrite (IH fuel F (ob + (k + length F))) by lia.
        unfold hay'. rewrite skipn_map, sub_skipn by lia.
        replace (ob + k + length F) with (ob + (k + length F)) by lia. reflexivity.
  Qed.

  Lemma find_first_spec frag ob : lo <= ob -> ob <= hi -> hi <= length t ->
    find_first find_b tr t frag ob hi
    = OOk (hd_error (match_indices_go frag (map g (sub t ob hi)) ob 0)).
  Proof.
    intros H0 H1 H2. unfold find_first. rewrite find_iter_step, mi_unfold by assumption.
    destruct (first_occ frag (map g (sub t ob hi))) as [k|]; [|reflexivity]. cbn [find_iter].
    replace (ob + k + length frag) with (ob + (k + length frag)) by lia. reflexivity.
  Qed.
End FindProof.

(** * case-insensitive occurrences when lower-casing is one-to-one and length-preserving *)
Lemma lc_prefix_map lc (g : N -> N) : forall hay nd, (forall c, In c hay -> lc c = [g c]) ->
  lc_prefix lc hay nd = if prefixb nd (map g hay) then Some (length nd) else None.
Proof.
  induction hay as [|c hay IH]; intros nd H.
  - destruct nd; reflexivity.
  - destruct nd as [|n nd]; [reflexivity|]. cbn [lc_prefix map prefixb]. rewrite (H c) by (left; reflexivity).
    cbn [strip_prefix]. rewrite (N.eqb_sym (g c) n). destruct (n =? g c)%N; [|reflexivity]. cbn [andb].
    rewrite IH by (intros; apply H; right; assumption).
    destruct (prefixb nd (map g hay)); reflexivity.
Qed.

Lemma nocase_go_map lc (g : N -> N) nd : forall hay pos skip, (forall c, In c hay -> lc c = [g c]) ->
  nocase_go lc nd hay pos skip = match_indices_go nd (map g hay) pos skip.
Proof.
  induction hay as [|c hay IH]; intros pos skip H.
  - cbn. destruct nd; destruct (skip =? 0); reflexivity.
  - cbn [nocase_go map match_indices_go]. change (g c :: map g hay) with (map g (c :: hay)).
    destruct (skip =? 0) eqn:E; cbn [andb].
    + rewrite (lc_prefix_map lc g) by exact H. apply Nat.eqb_eq in E. subst skip.
      destruct (prefixb nd (map g (c :: hay))); rewrite IH by (intros; apply H; right; assumption); reflexivity.
    + apply IH. intros; apply H; right; assumption.
Qed.

Lemma flat_map_singleton lc (g : N -> N) : forall l, (forall c, In c l -> lc c = [g c]) -> flat_map lc l = map g l.
Proof.
  induction l as [|c l IH]; intros H; [reflexivity|]. cbn. rewrite (H c) by (left; reflexivity).
  cbn. f_equal. apply IH. intros; apply H; right; assumption.
Qed.

Definition LenPres (lc : N -> text) (g : N -> N) (hay : text) : Prop :=
  forall c, In c hay -> lc c = [g c] /\ clen (g c) = clen c.

Lemma not_known_LenPres lc hay : Known_C07_nocase_len lc hay = false ->
  LenPres lc (fun c => hd c (lc c)) hay.
Proof.
  unfold Known_C07_nocase_len. intros H. apply negb_false_iff in H. rewrite forallb_forall in H.
  intros c Hc. specialize (H c Hc). unfold len_pres in H.
  destruct (lc c) as [|c' [|? ?]]; try discriminate. cbn. split; [reflexivity|]. apply Nat.eqb_eq in H. exact H.
Qed.

Section FindTop.
  Variable find_b : text -> text -> option nat.
  Hypothesis find_b_spec : forall hay nd, find_b hay nd = option_map (bytepos hay) (first_occ nd hay).

  Theorem find_text_spec t nd sb se : sb <= se -> se <= length t ->
    find_text find_b t nd sb se = (map (shift sb) (match_indices nd (sub t sb se)), Done).
  Proof.
    intros H1 H2. unfold find_text, find_fuel.
    rewrite (find_iter_spec find_b find_b_spec (fun c => c) t sb se (fun _ _ => eq_refl) (fun x => x)
               (fun b _ _ => eq_sym (map_id _)) (se - sb)) by lia.
    rewrite map_id, mi_shift. reflexivity.
  Qed.

  Theorem find_text_nocase_spec lc g t nd sb se : LenPres lc g (sub t sb se) -> sb <= se -> se <= length t ->
    find_text_nocase find_b (flat_map lc) t nd sb se
    = (map (shift sb) (nocase_indices lc (flat_map lc nd) (sub t sb se)), Done).
  Proof.
    intros HL H1 H2. unfold find_text_nocase, find_fuel.
    rewrite (find_iter_spec find_b find_b_spec g t sb se (fun c Hc => proj2 (HL c Hc)) (flat_map lc)) with (n := se - sb); try lia.
    - rewrite mi_shift. unfold nocase_indices. rewrite (nocase_go_map lc g); [reflexivity|].
      intros c Hc. apply HL. exact Hc.
    - intros b Hb1 Hb2. apply flat_map_singleton. intros c Hc. apply HL. apply (In_sub_mono _ _ _ _ _ Hb1 Hc).
  Qed.

  Theorem find_text_nocase_guarded lc t nd sb se : Known_C07_nocase_len lc (sub t sb se) = false ->
    sb <= se -> se <= length t ->
    find_text_nocase find_b (flat_map lc) t nd sb se
    = (map (shift sb) (nocase_indices lc (flat_map lc nd) (sub t sb se)), Done).
  Proof. intros H. apply find_text_nocase_spec with (g := fun c => hd c (lc c)). apply not_known_LenPres. exact H. Qed.

  Theorem store_find_spec nd : forall ts i, store_find find_b i ts nd = (store_indices i ts nd, Done).
  Proof.
    induction ts as [|t ts IH]; intros i; [reflexivity|]. cbn [store_find store_indices].
    rewrite find_text_spec by lia. rewrite IH. unfold sub. rewrite Nat.sub_0_r, firstn_all. cbn [skipn].
    f_equal. f_equal. rewrite map_map. apply map_ext. intros [a b]. reflexivity.
  Qed.
End FindTop.

(** * what match_indices means: sound, ordered and non-overlapping, maximal *)

(* every reported range begins at or after [from], ranges follow each other without overlap
   (after an empty match the next one begins further on), all inside [.., hi] *)
Fixpoint chain (from : nat) (ms : list (nat * nat)) (hi : nat) : Prop :=
  match ms with
  | [] => True
  | m :: ms' => from <= fst m /\ fst m <= snd m /\ snd m <= hi
                /\ chain (Nat.max (snd m) (S (fst m))) ms' hi
  end.

Lemma chain_weaken ms hi : forall from from', from' <= from -> chain from ms hi -> chain from' ms hi.
Proof. destruct ms as [|m ms]; [trivial|]. cbn. intros. intuition lia. Qed.

Lemma chain_In ms hi : forall from m, chain from ms hi -> In m ms -> from <= fst m /\ fst m <= snd m /\ snd m <= hi.
Proof.
  induction ms as [|x ms IH]; intros from m Hc Hin; [contradiction|].
  cbn in Hc. destruct Hc as (H1 & H2 & H3 & H4). destruct Hin as [<-|Hin]; [lia|].
  destruct (IH _ _ H4 Hin). lia.
Qed.

Lemma mi_chain nd : forall hay pos skip,
  chain (pos + skip) (match_indices_go nd hay pos skip) (pos + length hay).
Proof.
  induction hay as [|c hay IH]; intros pos skip.
  - cbn. destruct ((skip =? 0) && prefixb nd []) eqn:E; cbn; [|trivial].
    apply andb_true_iff in E. destruct E as [E _]. apply Nat.eqb_eq in E. lia.
  - cbn [match_indices_go]. destruct ((skip =? 0) && prefixb nd (c :: hay)) eqn:E.
    + apply andb_true_iff in E. destruct E as [E1 E2]. apply Nat.eqb_eq in E1. apply prefixb_length in E2.
      cbn [length] in *. cbn [chain fst snd]. repeat split; try lia.
      eapply chain_weaken; [|replace (pos + S (length hay)) with (S pos + length hay) by lia; apply IH]. lia.
    + replace (pos + length (c :: hay)) with (S pos + length hay) by (cbn; lia).
      eapply chain_weaken; [|apply IH]. lia.
Qed.

Lemma mi_sound nd : forall hay pos skip m, In m (match_indices_go nd hay pos skip) ->
  pos <= fst m /\ snd m = fst m + length nd /\ prefixb nd (skipn (fst m - pos) hay) = true.
Proof.
  induction hay as [|c hay IH]; intros pos skip m H.
  - cbn in H. destruct ((skip =? 0) && prefixb nd []) eqn:E; [|contradiction].
    destruct H as [<-|[]]. apply andb_true_iff in E. destruct E as [_ E]. cbn.
    destruct nd; [|discriminate]. rewrite Nat.sub_diag. cbn. repeat split; lia.
  - cbn [match_indices_go] in H. destruct ((skip =? 0) && prefixb nd (c :: hay)) eqn:E.
    + destruct H as [<-|H].
      * apply andb_true_iff in E. destruct E as [_ E]. cbn [fst snd]. rewrite Nat.sub_diag. cbn [skipn].
        repeat split; [lia|exact E].
      * destruct (IH _ _ _ H) as (H1 & H2 & H3). repeat split; [lia|exact H2|].
        replace (fst m - pos) with (S (fst m - S pos)) by lia. exact H3.
    + destruct (IH _ _ _ H) as (H1 & H2 & H3). repeat split; [lia|exact H2|].
      replace (fst m - pos) with (S (fst m - S pos)) by lia. exact H3.
Qed.

(* no occurrence is missed: every position where the needle occurs is the begin of a reported
   range or lies inside one *)
Lemma mi_maximal nd : forall hay pos skip p, pos + skip <= p -> p <= pos + length hay ->
  prefixb nd (skipn (p - pos) hay) = true ->
  exists m, In m (match_indices_go nd hay pos skip) /\ fst m <= p /\ p < Nat.max (snd m) (S (fst m)).
Proof.
  induction hay as [|c hay IH]; intros pos skip p H1 H2 H3.
  - cbn in H2. assert (p = pos) by lia. subst p. rewrite Nat.sub_diag in H3. cbn in H3.
    cbn. replace (skip =? 0) with true by lia. rewrite H3. cbn. exists (pos, pos). cbn. split; [left; reflexivity|lia].
  - cbn [match_indices_go]. destruct ((skip =? 0) && prefixb nd (c :: hay)) eqn:E.
    + destruct (Nat.lt_ge_cases p (Nat.max (pos + length nd) (S pos))) as [Hin|Hout].
      * exists (pos, pos + length nd). cbn [fst snd]. split; [left; reflexivity|lia].
      * destruct (IH (S pos) (length nd - 1) p) as (m & Hm & Hm'); [lia|cbn in H2; lia| |].
        { replace (p - pos) with (S (p - S pos)) in H3 by lia. exact H3. }
        exists m. split; [right; exact Hm|exact Hm'].
    + assert (pos < p).
      { destruct (Nat.eq_dec p pos) as [->|]; [|lia]. exfalso. rewrite Nat.sub_diag in H3. cbn [skipn] in H3.
        rewrite H3 in E. replace (skip =? 0) with true in E by lia. discriminate. }
      destruct (IH (S pos) (skip - 1) p) as (m & Hm & Hm'); [lia|cbn in H2; lia| |].
      { replace (p - pos) with (S (p - S pos)) in H3 by lia. exact H3. }
      exists m. split; assumption.
Qed.

(* the text of a range in a plain string *)
Lemma subtext_prefix nd hay k : prefixb nd (skipn k hay) = true -> subtext hay k (k + length nd) = nd.
Proof.
  intros H. apply prefixb_true in H. unfold subtext. rewrite H.
  replace (k + length nd - k) with (length nd) by lia.
  rewrite firstn_app, Nat.sub_diag, firstn_all. cbn. apply app_nil_r.
Qed.

Theorem match_indices_sound nd hay m : In m (match_indices nd hay) ->
  snd m <= length hay /\ subtext hay (fst m) (snd m) = nd.
Proof.
  intros H. pose proof (mi_sound nd hay 0 0 m H) as (_ & H2 & H3). rewrite Nat.sub_0_r in H3.
  split; [|rewrite H2; apply subtext_prefix; exact H3].
  pose proof (chain_In _ _ _ _ (mi_chain nd hay 0 0) H). cbn in *. lia.
Qed.

Theorem match_indices_ordered nd hay : chain 0 (match_indices nd hay) (length hay).
Proof. exact (mi_chain nd hay 0 0). Qed.

Theorem match_indices_maximal nd hay p : p + length nd <= length hay -> subtext hay p (p + length nd) = nd ->
  exists m, In m (match_indices nd hay) /\ fst m <= p /\ p < Nat.max (snd m) (S (fst m)).
Proof.
  intros H1 H2. apply (mi_maximal nd hay 0 0 p); [lia|lia|]. rewrite Nat.sub_0_r.
  unfold subtext in H2. replace (p + length nd - p) with (length nd) in H2 by lia.
  rewrite <- H2 at 1. rewrite <- (firstn_skipn (length nd) (skipn p hay)) at 2. apply prefixb_app.
Qed.

(** * split_text *)

Lemma gaps_range ms hi : forall from, chain from ms hi -> from <= hi ->
  forall r, In r (gaps from ms hi) -> from <= fst r /\ fst r <= snd r /\ snd r <= hi.
Proof.
  induction ms as [|m ms IH]; intros from Hc Hf r Hr.
  - destruct Hr as [<-|[]]. cbn. lia.
  - cbn in Hc. destruct Hc as (H1 & H2 & H3 & H4). destruct Hr as [<-|Hr]; [cbn; lia|].
    destruct (IH (snd m) (chain_weaken ms hi (Nat.max (snd m) (S (fst m))) (snd m) ltac:(lia) H4) H3 r Hr). lia.
Qed.

Lemma collect_map_ok {X Y} (f : X -> out Y) (h : X -> Y) : forall l,
  (forall x, In x l -> f x = OOk (h x)) -> collect (map f l) = (map h l, Done).
Proof.
  induction l as [|x l IH]; intros H; [reflexivity|]. cbn [map collect].
  rewrite (H x) by (left; reflexivity). rewrite IH by (intros; apply H; right; assumption). reflexivity.
Qed.

Lemma split_piece_ok t sb se s e : sb <= se -> se <= length t -> s <= e -> e <= se - sb ->
  split_piece t (bytepos t sb)
    (bytepos (sub t sb se) s, bytepos (sub t sb se) e - bytepos (sub t sb se) s)
  = OOk (sb + s, sb + e).
Proof.
  intros H1 H2 H3 H4. unfold split_piece. cbn [fst snd]. rewrite !Nat.sub_0_r.
  pose proof (bytepos_mono (sub t sb se) s e H3 ltac:(rewrite sub_length; lia)).
  replace (bytepos t sb + bytepos (sub t sb se) s + (bytepos (sub t sb se) e - bytepos (sub t sb se) s))
    with (bytepos t sb + bytepos (sub t sb se) e) by lia.
  rewrite !cpos_in_sub by lia. rewrite res_textselection_ok by lia. reflexivity.
Qed.

Section SplitProof.
  Variable split_b : text -> text -> list (nat * nat).
  Hypothesis split_b_spec : forall hay d,
    split_b hay d = map (fun r => (bytepos hay (fst r), bytepos hay (snd r) - bytepos hay (fst r))) (split_spec d hay).

  Theorem split_text_spec t d sb se : sb <= se -> se <= length t ->
    split_text split_b t d sb se = (map (shift sb) (split_spec d (sub t sb se)), Done).
  Proof.
    intros H1 H2. unfold split_text. rewrite sel_text_ok, split_b_spec by assumption.
    rewrite map_map. apply collect_map_ok. intros r Hr.
    destruct (gaps_range _ _ _ (match_indices_ordered d (sub t sb se)) ltac:(lia) r Hr) as (_ & Ha & Hb).
    rewrite sub_length in Hb by lia. apply split_piece_ok; assumption.
  Qed.
End SplitProof.

Lemma subtext_split hay a b : a <= b -> b <= length hay -> skipn a hay = subtext hay a b ++ skipn b hay.
Proof.
  intros H1 H2. unfold subtext. rewrite <- (firstn_skipn (b - a) (skipn a hay)) at 1. f_equal.
  rewrite skipn_skipn. f_equal. lia.
Qed.

Lemma gaps_nonempty ms : forall from hi, gaps from ms hi <> [].
Proof. destruct ms; discriminate. Qed.

Lemma join_cons d x l : l <> [] -> join d (x :: l) = x ++ d ++ join d l.
Proof. destruct l; [contradiction|reflexivity]. Qed.

Lemma gaps_join d hay ms : forall from, chain from ms (length hay) -> from <= length hay ->
  (forall m, In m ms -> subtext hay (fst m) (snd m) = d) ->
  join d (map (fun r => subtext hay (fst r) (snd r)) (gaps from ms (length hay))) = skipn from hay.
Proof.
  induction ms as [|m ms IH]; intros from Hc Hf Hd.
  - cbn. unfold subtext. apply firstn_all2. rewrite skipn_length. lia.
  - cbn in Hc. destruct Hc as (H1 & H2 & H3 & H4). cbn [gaps map fst snd].
    rewrite join_cons by (intros E; apply map_eq_nil in E; exact (gaps_nonempty _ _ _ E)).
    rewrite IH; [|eapply chain_weaken; [|exact H4]; lia|lia|intros; apply Hd; right; assumption].
    rewrite (subtext_split hay from (fst m)) by lia. f_equal.
    rewrite (subtext_split hay (fst m) (snd m)) by lia. f_equal. symmetry. apply Hd. left. reflexivity.
Qed.

(* the pieces are in order, cover the text and are separated by exactly the delimiter:
   joining their texts with the delimiter gives the text back *)
Theorem split_join d hay :
  join d (map (fun r => subtext hay (fst r) (snd r)) (split_spec d hay)) = hay.
Proof.
  unfold split_spec. rewrite gaps_join; [reflexivity|apply match_indices_ordered|lia|].
  intros m Hm. apply match_indices_sound. exact Hm.
Qed.

(* consecutive pieces: [pieces_chain from ps hi]: first begins at from, each next begins where a
   delimiter occurrence after the previous ends, last ends at hi *)
Fixpoint pieces_sep (d hay : text) (ps : list (nat * nat)) : Prop :=
  match ps with
  | p :: ((q :: _) as ps') => snd p <= fst q /\ subtext hay (snd p) (fst q) = d /\ fst q = snd p + length d /\ pieces_sep d hay ps'
  | _ => True
  end.

Lemma gaps_sep d hay ms : forall from, (forall m, In m ms -> snd m = fst m + length d /\ subtext hay (fst m) (snd m) = d) ->
  pieces_sep d hay (gaps from ms (length hay)).
Proof.
  induction ms as [|m ms IH]; intros from H; [exact I|].
  cbn [gaps]. specialize (IH (snd m) (fun x Hx => H x (or_intror Hx))).
  destruct ms as [|m' ms]; cbn [gaps pieces_sep fst snd] in *.
  - destruct (H m (or_introl eq_refl)) as [E1 E2]. repeat split; [lia|exact E2|exact E1].
  - destruct (H m (or_introl eq_refl)) as [E1 E2]. repeat split; [lia|exact E2|exact E1|exact IH].
Qed.

Lemma gaps_last ms hi : forall from dflt, exists b, last (gaps from ms hi) dflt = (b, hi).
Proof.
  induction ms as [|m ms IH]; intros from dflt; [cbn; eauto|].
  cbn [gaps]. destruct (IH (snd m) dflt) as [b Hb]. exists b. rewrite <- Hb.
  pose proof (gaps_nonempty ms (snd m) hi). destruct (gaps (snd m) ms hi); [contradiction|reflexivity].
Qed.

Theorem split_partition d hay :
  let ps := split_spec d hay in
  (exists e, hd_error ps = Some (0, e)) /\ (exists b, last ps (0, 0) = (b, length hay))
  /\ pieces_sep d hay ps
  /\ forall r, In r ps -> fst r <= snd r /\ snd r <= length hay.
Proof.
  cbv zeta. unfold split_spec. repeat split.
  - destruct (match_indices d hay); cbn; eauto.
  - apply gaps_last.
  - apply gaps_sep. intros m Hm. pose proof (mi_sound d hay 0 0 m Hm) as (_ & H2 & _).
    split; [exact H2|apply match_indices_sound; exact Hm].
  - destruct (gaps_range _ _ _ (match_indices_ordered d hay) ltac:(lia) r H). lia.
  - destruct (gaps_range _ _ _ (match_indices_ordered d hay) ltac:(lia) r H). lia.
Qed.

(** * trim_text *)

Lemma dropwhile_decomp f : forall l, l = firstn (count_while f l) l ++ dropwhile f l
  /\ forallb f (firstn (count_while f l) l) = true
  /\ count_while f l + length (dropwhile f l) = length l.
Proof.
  induction l as [|c l IH]; [repeat split|]. cbn [count_while dropwhile].
  destruct (f c) eqn:E; [|repeat split]. destruct IH as (H1 & H2 & H3). cbn [firstn app forallb length].
  rewrite E, H2. repeat split; [f_equal; exact H1|lia].
Qed.

Lemma dropwhile_head f l : match dropwhile f l with [] => True | c :: _ => f c = false end.
Proof. induction l as [|c l IH]; [exact I|]. cbn. destruct (f c) eqn:E; [exact IH|exact E]. Qed.

Lemma count_while_app_stop f : forall a z, existsb (fun c => negb (f c)) a = true ->
  count_while f (a ++ z) = count_while f a.
Proof.
  induction a as [|c a IH]; intros z H; [discriminate|]. cbn in *. destruct (f c); [|reflexivity].
  cbn in H. f_equal. apply IH. exact H.
Qed.

Lemma skipn_count_dropwhile f l : skipn (count_while f l) l = dropwhile f l.
Proof. induction l as [|c l IH]; [reflexivity|]. cbn. destruct (f c); [exact IH|reflexivity]. Qed.

Theorem trim_text_spec inset t sb se : sb <= se -> se <= length t ->
  trim_text inset t sb se = OOk (shift sb (trim_spec inset (sub t sb se))).
Proof.
  intros H1 H2. unfold trim_text, trim_spec. rewrite sel_text_ok by assumption.
  set (hay := sub t sb se). assert (HL : length hay = se - sb) by (apply sub_length; assumption).
  destruct (dropwhile_decomp inset hay) as (Hd & _ & Hc).
  set (a := dropwhile inset hay) in *. set (tb := count_while inset hay) in *.
  destruct (dropwhile_decomp inset (rev a)) as (_ & _ & Hc').
  destruct a as [|x a'] eqn:Ea.
  - cbn [length rev dropwhile] in *. replace (tb =? se - sb) with true by lia.
    replace (se - sb <? 0) with false by lia. rewrite Nat.sub_0_r.
    replace (se - sb <? tb) with false by lia. replace (se - sb <? se - sb) with false by lia.
    rewrite res_textselection_ok by lia. unfold shift. cbn [fst snd]. do 2 f_equal; lia.
  - rewrite <- Ea in *. assert (Hx : inset x = false).
    { pose proof (dropwhile_head inset hay) as Hh. fold a in Hh. rewrite Ea in Hh. exact Hh. }
    assert (Hla : 1 <= length a) by (rewrite Ea; cbn; lia).
    replace (tb =? se - sb) with false by lia.
    assert (Hte : count_while inset (rev hay) = count_while inset (rev a)).
    { rewrite Hd at 1. rewrite rev_app_distr. apply count_while_app_stop.
      rewrite Ea. cbn [rev]. rewrite existsb_app. cbn. rewrite Hx. cbn. apply orb_true_r. }
    rewrite Hte. rewrite rev_length in Hc'.
    set (te := count_while inset (rev a)) in *. set (b := dropwhile inset (rev a)) in *.
    replace (se - sb <? te) with false by lia. replace (se - sb <? tb) with false by lia.
    replace (se - sb <? se - sb - te) with false by lia.
    rewrite res_textselection_ok by lia. unfold shift. cbn [fst snd]. do 2 f_equal; lia.
Qed.

(* what remains is the text without its leading and trailing set members (str::trim_matches) *)
Theorem trim_spec_text f hay :
  let r := trim_spec f hay in
  fst r <= snd r /\ snd r <= length hay
  /\ subtext hay (fst r) (snd r) = rev (dropwhile f (rev (dropwhile f hay)))
  /\ forallb f (firstn (fst r) hay) = true /\ forallb f (skipn (snd r) hay) = true.
Proof.
  cbv zeta. unfold trim_spec. cbn [fst snd].
  destruct (dropwhile_decomp f hay) as (Hd & Hf & Hc).
  set (a := dropwhile f hay) in *. set (tb := count_while f hay) in *.
  destruct (dropwhile_decomp f (rev a)) as (Hd' & Hf' & Hc'). rewrite rev_length in Hc'.
  set (b := dropwhile f (rev a)) in *. set (te := count_while f (rev a)) in *.
  assert (Ha : skipn tb hay = a) by apply skipn_count_dropwhile.
  assert (Hra : a = rev b ++ rev (firstn te (rev a))).
  { rewrite <- rev_app_distr, <- Hd', rev_involutive. reflexivity. }
  replace (length hay - length a) with tb by lia.
  split; [lia|]. split; [lia|]. split; [|split; [exact Hf|]].
  - unfold subtext. replace (tb + length b - tb) with (length b) by lia. rewrite Ha, Hra.
    rewrite firstn_app, rev_length, Nat.sub_diag, firstn_all2 by (rewrite rev_length; lia).
    cbn. apply app_nil_r.
  - replace (tb + length b) with (length b + tb) by lia. rewrite <- skipn_skipn, Ha, Hra.
    rewrite skipn_app, rev_length, Nat.sub_diag, skipn_all2 by (rewrite rev_length; lia). cbn.
    rewrite forallb_forall in *. intros c Hc0. apply Hf'. apply in_rev. exact Hc0.
Qed.

(** * segmentation *)

Lemma filter_ext_seq (P Q : nat -> bool) : forall k lo, (forall p, lo <= p -> P p = Q p) ->
  filter P (seq lo k) = filter Q (seq lo k).
Proof.
  induction k as [|k IH]; intros lo H; [reflexivity|]. cbn. rewrite (H lo) by lia.
  rewrite (IH (S lo)) by (intros; apply H; lia). reflexivity.
Qed.

Lemma filter_none_seq (Q : nat -> bool) : forall k lo, (forall p, lo <= p -> Q p = false) -> filter Q (seq lo k) = [].
Proof.
  induction k as [|k IH]; intros lo H; [reflexivity|]. cbn. rewrite (H lo) by lia. apply IH. intros; apply H; lia.
Qed.

(* positions at or beyond the end of the range make no difference *)
Lemma seg_iter_cut active (P : nat -> bool) e : forall k lo cursor, cursor < e ->
  seg_iter active (filter P (seq lo k)) cursor e
  = seg_iter active (filter (fun p => P p && (p <? e)) (seq lo k)) cursor e.
Proof.
  induction k as [|k IH]; intros lo cursor Hc; [reflexivity|]. cbn [seq filter].
  destruct (P lo) eqn:EP; cbn [andb]; [|apply IH; exact Hc].
  destruct (lo <? e) eqn:El.
  - cbn [seg_iter]. replace (e <=? cursor) with false by lia.
    destruct ((cursor <? lo) && active lo); [|apply IH; exact Hc].
    replace (e <? lo) with false by lia. f_equal. apply IH. lia.
  - rewrite (filter_none_seq (fun p => P p && (p <? e)) k (S lo))
      by (intros p Hp; replace (p <? e) with false by lia; apply andb_false_r).
    cbn [seg_iter]. replace (e <=? cursor) with false by lia.
    destruct ((cursor <? lo) && active lo).
    + destruct (e <? lo) eqn:E2; [reflexivity|]. assert (lo = e) by lia. subst lo.
      destruct (filter P (seq (S e) k)); cbn; rewrite Nat.leb_refl; reflexivity.
    + rewrite IH by exact Hc.
      rewrite (filter_none_seq (fun p => P p && (p <? e)) k (S lo))
        by (intros p Hp; replace (p <? e) with false by lia; apply andb_false_r).
      cbn. replace (e <=? cursor) with false by lia. reflexivity.
Qed.

Lemma seg_iter_filter active (P : nat -> bool) e b :
  (forall p, active p = true -> b < p -> p < e -> P p = true) ->
  (forall p, P p = true -> p < e) ->
  forall k lo cursor, b <= cursor -> cursor < e ->
  seg_iter active (filter P (seq lo k)) cursor e
  = pieces cursor (filter (fun p => (cursor <? p) && active p && (p <? e)) (seq lo k)) e.
Proof.
  intros HP HP2. induction k as [|k IH]; intros lo cursor Hb Hc.
  - cbn. replace (e <=? cursor) with false by lia. reflexivity.
  - cbn [seq filter]. destruct ((cursor <? lo) && active lo && (lo <? e)) eqn:EQ.
    + apply andb_true_iff in EQ. destruct EQ as [EQ E3]. apply andb_true_iff in EQ. destruct EQ as [E1 E2].
      rewrite HP by (try assumption; lia). cbn [seg_iter]. replace (e <=? cursor) with false by lia.
      rewrite E1, E2. cbn [andb]. replace (e <? lo) with false by lia. cbn [pieces]. f_equal.
      rewrite IH by lia. f_equal. apply filter_ext_seq. intros p Hp.
      replace (cursor <? p) with true by lia. replace (lo <? p) with true by lia. reflexivity.
    + destruct (P lo) eqn:EP; [|apply IH; assumption].
      cbn [seg_iter]. replace (e <=? cursor) with false by lia.
      apply HP2 in EP. replace (lo <? e) with true in EQ by lia. rewrite andb_true_r in EQ. rewrite EQ.
      apply IH; assumption.
Qed.

Lemma cuts_eq known lo hi n : hi <= n ->
  filter (fun p => (lo <? p) && seg_active known p && (p <? hi)) (seq 0 n) = cuts known lo hi.
Proof.
  intros Hn. unfold cuts. replace n with (hi + (n - hi)) by lia. rewrite seq_app, filter_app.
  rewrite (filter_none_seq _ (n - hi) (0 + hi))
    by (intros p Hp; replace (p <? hi) with false by lia; apply andb_false_r).
  rewrite app_nil_r. apply filter_ext_in. intros p Hp. apply in_seq in Hp.
  replace (p <? hi) with true by lia. rewrite andb_true_r. reflexivity.
Qed.

Lemma filter_comp {X} (f g : X -> bool) l : filter g (filter f l) = filter (fun x => f x && g x) l.
Proof.
  induction l as [|x l IH]; [reflexivity|]. cbn. destruct (f x); cbn; [|exact IH].
  destruct (g x); [f_equal|]; exact IH.
Qed.

Lemma seg_iter_empty active poss c e : e <= c -> seg_iter active poss c e = [].
Proof. intros H. destruct poss; cbn; replace (e <=? c) with true by lia; reflexivity. Qed.

Theorem segmentation_in_range_spec interval t known b e : b <= e -> e <= length t ->
  segmentation_in_range interval t known b e = segments_spec known b e.
Proof.
  intros H1 H2. unfold segmentation_in_range, segments_spec. destruct (b <? e) eqn:E.
  - unfold index_keys. rewrite filter_comp.
    rewrite (seg_iter_filter (seg_active known) _ e b) by
      (try lia; intros p; intros; repeat (apply andb_true_iff in H || apply andb_true_iff; split); try lia;
       try (rewrite H; apply orb_true_r); destruct H; lia).
    rewrite cuts_eq by lia. reflexivity.
  - apply seg_iter_empty. lia.
Qed.

Theorem segmentation_spec interval t known :
  segmentation interval t known = segments_spec known 0 (length t).
Proof.
  unfold segmentation, segments_spec. destruct (0 <? length t) eqn:E.
  - unfold index_keys. rewrite seg_iter_cut by lia.
    rewrite (seg_iter_filter (seg_active known) _ (length t) 0); try lia.
    rewrite cuts_eq by lia. reflexivity.
  - apply seg_iter_empty. lia.
Qed.

(* what the segments are: consecutive non-empty pieces from lo to hi ... *)
Fixpoint contiguous (from : nat) (segs : list (nat * nat)) (hi : nat) : Prop :=
  match segs with
  | [] => from = hi
  | s :: segs' => fst s = from /\ fst s < snd s /\ contiguous (snd s) segs' hi
  end.

Fixpoint increasing_from (from : nat) (cs : list nat) (hi : nat) : Prop :=
  match cs with
  | [] => True
  | c :: cs' => from < c /\ c < hi /\ increasing_from c cs' hi
  end.

Lemma pieces_contiguous hi : forall cs from, from < hi -> increasing_from from cs hi ->
  contiguous from (pieces from cs hi) hi.
Proof.
  induction cs as [|c cs IH]; intros from Hf Hi; cbn in *; [lia|].
  destruct Hi as (H1 & H2 & H3). repeat split; [lia|]. apply IH; assumption.
Qed.

Lemma filter_seq_increasing (Q : nat -> bool) hi : forall k s from,
  (forall p, s <= p -> p < s + k -> Q p = true -> from < p /\ p < hi) ->
  increasing_from from (filter Q (seq s k)) hi.
Proof.
  induction k as [|k IH]; intros s from H; [exact I|]. cbn. destruct (Q s) eqn:E.
  - destruct (H s (le_n _) ltac:(lia) E). cbn. repeat split; [lia|lia|]. apply IH. intros p Hp Hp' Hq.
    destruct (H p ltac:(lia) ltac:(lia) Hq). lia.
  - apply IH. intros p Hp Hp' Hq. apply H; [lia|lia|exact Hq].
Qed.

Theorem segments_contiguous known lo hi : lo < hi -> contiguous lo (segments_spec known lo hi) hi.
Proof.
  intros H. unfold segments_spec. replace (lo <? hi) with true by lia.
  apply pieces_contiguous; [exact H|]. unfold cuts. apply filter_seq_increasing.
  intros p _ Hp Hq. apply andb_true_iff in Hq. destruct Hq as [Hq _]. lia.
Qed.

(* ... cut exactly at the positions strictly inside the range where a known selection begins or ends *)
Lemma pieces_begins hi : forall cs from, map fst (pieces from cs hi) = from :: cs.
Proof. induction cs as [|c cs IH]; intros from; [reflexivity|]. cbn. f_equal. apply IH. Qed.

Theorem segments_cut_points known lo hi p : lo < hi ->
  In p (tl (map fst (segments_spec known lo hi))) <-> lo < p /\ p < hi /\ is_boundary known p = true.
Proof.
  intros H. unfold segments_spec. replace (lo <? hi) with true by lia. rewrite pieces_begins. cbn [tl].
  unfold cuts. rewrite filter_In, in_seq, andb_true_iff. split; intros; intuition lia.
Qed.

(** * find_text_sequence *)

Lemma sub_sub t sb se a b : sb <= se -> se <= length t -> a <= b -> b <= se - sb ->
  sub (sub t sb se) a b = sub t (sb + a) (sb + b).
Proof.
  intros H1 H2 H3 H4. unfold sub at 1. rewrite sub_skipn by lia. unfold sub.
  rewrite firstn_firstn. f_equal. lia.
Qed.

Section SeqProof.
  Variable find_b : text -> text -> option nat.
  Hypothesis find_b_spec : forall hay nd, find_b hay nd = option_map (bytepos hay) (first_occ nd hay).
  Variable g : N -> N.
  Variable t : text.
  Variables sb se : nat.
  Hypothesis g_len : forall c, In c (sub t sb se) -> clen (g c) = clen c.
  Variable tr : text -> text.
  Hypothesis tr_spec : forall b, sb <= b -> b <= se -> tr (sub t b se) = map g (sub t b se).

  Lemma sequence_go_spec skip : sb <= se -> se <= length t ->
    forall frags pos, sb <= pos -> pos <= se ->
    sequence_go find_b tr skip t sb se frags pos (Some (pos, se))
    = OOk (option_map (map (shift sb))
             (sequence_spec (fun f h => match_indices (tr f) (map g h)) skip (sub t sb se) (pos - sb) frags)).
  Proof.
    intros H1 H2. induction frags as [|f frags IH]; intros pos Hp1 Hp2; [reflexivity|].
    cbn [sequence_go sequence_spec]. rewrite (find_first_spec find_b find_b_spec g t sb se g_len tr tr_spec) by lia.
    rewrite sub_skipn by lia. replace (sb + (pos - sb)) with pos by lia.
    unfold match_indices. rewrite (mi_shift (tr f) _ pos 0).
    destruct (match_indices_go (tr f) (map g (sub t pos se)) 0 0) as [|[k k2] rest] eqn:Em; [reflexivity|].
    cbn [map hd_error shift fst snd].
    assert (Hin : In (k, k2) (match_indices (tr f) (map g (sub t pos se)))) by (unfold match_indices; rewrite Em; left; reflexivity).
    pose proof (chain_In _ _ _ _ (match_indices_ordered _ _) Hin) as (_ & Hk1 & Hk2). cbn [fst snd] in *.
    rewrite map_length, sub_length in Hk2 by lia.
    assert (Hskip : (if pos <? pos + k
                     then if (se - sb <? pos - sb) || (se - sb <? pos + k - sb) then None
                          else match res_textselection t pos (sb + (pos + k - sb)) with
                               | None => None
                               | Some (x, y) => match sel_text t x y with OOk (_, s) => Some (forallb skip s) | _ => None end
                               end
                     else Some true)
                    = Some (forallb skip (firstn k (sub t pos se)))).
    { destruct (pos <? pos + k) eqn:E.
      - replace (se - sb <? pos - sb) with false by lia. replace (se - sb <? pos + k - sb) with false by lia.
        cbn [orb]. replace (sb + (pos + k - sb)) with (pos + k) by lia.
        rewrite res_textselection_ok by lia. rewrite sel_text_ok by lia.
        do 2 f_equal. unfold sub. rewrite firstn_firstn. f_equal. lia.
      - assert (k = 0) by lia. subst k. reflexivity. }
    rewrite Hskip. destruct (forallb skip (firstn k (sub t pos se))); [|reflexivity].
    replace (se - pos <? pos + k2 - pos) with false by lia.
    replace (pos + (pos + k2 - pos)) with (pos + k2) by lia. replace (pos + (se - pos)) with se by lia.
    rewrite res_textselection_ok by lia. rewrite IH by lia.
    replace (pos + k2 - sb) with (pos - sb + k2) by lia.
    destruct (sequence_spec _ skip (sub t sb se) (pos - sb + k2) frags); [|reflexivity].
    cbn [option_map map]. do 3 f_equal. unfold shift. cbn [fst snd]. f_equal; lia.
  Qed.
End SeqProof.

Lemma sequence_spec_ext occ1 occ2 skip hay : (forall f pos, occ1 f (skipn pos hay) = occ2 f (skipn pos hay)) ->
  forall frags pos, sequence_spec occ1 skip hay pos frags = sequence_spec occ2 skip hay pos frags.
Proof.
  intros H. induction frags as [|f frags IH]; intros pos; [reflexivity|]. cbn. rewrite H.
  destruct (occ2 f (skipn pos hay)) as [|[k k2] _]; [reflexivity|]. rewrite IH. reflexivity.
Qed.

Section SeqTop.
  Variable find_b : text -> text -> option nat.
  Hypothesis find_b_spec : forall hay nd, find_b hay nd = option_map (bytepos hay) (first_occ nd hay).

  Theorem find_text_sequence_spec skip t frags sb se : sb <= se -> se <= length t ->
    find_text_sequence find_b (fun x => x) skip t frags sb se
    = OOk (option_map (map (shift sb)) (sequence_spec match_indices skip (sub t sb se) 0 frags)).
  Proof.
    intros H1 H2. unfold find_text_sequence. rewrite res_textselection_ok by lia.
    rewrite (sequence_go_spec find_b find_b_spec (fun c => c) t sb se (fun _ _ => eq_refl) (fun x => x)
               (fun b _ _ => eq_sym (map_id _))) by lia.
    rewrite Nat.sub_diag. do 2 f_equal. apply sequence_spec_ext. intros f pos. rewrite map_id. reflexivity.
  Qed.

  Theorem find_text_sequence_nocase_spec lc g skip t frags sb se : LenPres lc g (sub t sb se) -> sb <= se -> se <= length t ->
    find_text_sequence find_b (flat_map lc) skip t frags sb se
    = OOk (option_map (map (shift sb))
             (sequence_spec (fun f h => nocase_indices lc (flat_map lc f) h) skip (sub t sb se) 0 frags)).
  Proof.
    intros HL H1 H2. unfold find_text_sequence. rewrite res_textselection_ok by lia.
    rewrite (sequence_go_spec find_b find_b_spec g t sb se (fun c Hc => proj2 (HL c Hc)) (flat_map lc)); try lia.
    - rewrite Nat.sub_diag. do 2 f_equal. apply sequence_spec_ext. intros f pos.
      unfold nocase_indices, match_indices. symmetry. apply nocase_go_map.
      intros c Hc. apply HL. apply (In_skipn' _ _ _ Hc).
    - intros b Hb1 Hb2. apply flat_map_singleton. intros c Hc. apply HL. apply (In_sub_mono _ _ _ _ _ Hb1 Hc).
  Qed.

  Theorem find_text_sequence_nocase_guarded lc skip t frags sb se :
    Known_C07_nocase_len lc (sub t sb se) = false -> sb <= se -> se <= length t ->
    find_text_sequence find_b (flat_map lc) skip t frags sb se
    = OOk (option_map (map (shift sb))
             (sequence_spec (fun f h => nocase_indices lc (flat_map lc f) h) skip (sub t sb se) 0 frags)).
  Proof. intros H. apply find_text_sequence_nocase_spec with (g := fun c => hd c (lc c)). apply not_known_LenPres. exact H. Qed.
End SeqTop.

(** * find_text_regex: from the engine's byte offsets on the slice to absolute codepoint positions *)

Lemma ulen_clen c : ulen c = clen c.
Proof. reflexivity. Qed.

Lemma char_index_bytepos : forall hay p, p <= length hay -> char_index hay (bytepos hay p) = Some p.
Proof.
  induction hay as [|c hay IH]; intros p Hp.
  - cbn in Hp. replace p with 0 by lia. reflexivity.
  - destruct p as [|p]; [rewrite bytepos_0; reflexivity|]. rewrite bytepos_S. pose proof (clen_pos c).
    cbn [char_index]. destruct (clen c + bytepos hay p) eqn:E; [lia|]. rewrite <- E, ulen_clen.
    replace (clen c <=? clen c + bytepos hay p) with true by lia.
    replace (clen c + bytepos hay p - clen c) with (bytepos hay p) by lia.
    rewrite IH by (cbn in Hp; lia). reflexivity.
Qed.

(* a byte offset that char_index accepts is the byte position of that character *)
Lemma char_index_sound : forall hay b p, char_index hay b = Some p -> p <= length hay /\ b = bytepos hay p.
Proof.
  induction hay as [|c hay IH]; intros b p H.
  - destruct b; [|discriminate]. injection H as <-. split; [lia|reflexivity].
  - destruct b as [|b']; [injection H as <-; rewrite bytepos_0; split; [lia|reflexivity]|].
    cbn [char_index] in H. rewrite ulen_clen in H. destruct (clen c <=? S b') eqn:E; [|discriminate].
    destruct (char_index hay (S b' - clen c)) as [q|] eqn:Eq; [|discriminate]. injection H as <-.
    destruct (IH _ _ Eq) as [H1 H2]. rewrite bytepos_S. cbn. split; lia.
Qed.

(* the oracle's group (s, e), on character boundaries of the searched slice *)
Definition on_boundaries (hay : text) (g : nat * nat) (ps pe : nat) : Prop :=
  ps <= pe /\ pe <= length hay /\ g = (bytepos hay ps, bytepos hay pe).

Theorem regex_offsets t sb se g ps pe : sb <= se -> se <= length t ->
  on_boundaries (sub t sb se) g ps pe ->
  conv_group t (bytepos t sb) g = OOk (sb + ps, sb + pe)
  /\ sub t (sb + ps) (sb + pe) = sub (sub t sb se) ps pe
  /\ char_index (sub t sb se) (fst g) = Some ps /\ char_index (sub t sb se) (snd g) = Some pe.
Proof.
  intros H1 H2 (H3 & H4 & ->). rewrite sub_length in H4 by lia. cbn [fst snd]. split; [|split; [|split]].
  - unfold conv_group. cbn [fst snd]. rewrite !cpos_in_sub by lia. rewrite res_textselection_ok by lia. reflexivity.
  - symmetry. apply sub_sub; lia.
  - apply char_index_bytepos. rewrite sub_length; lia.
  - apply char_index_bytepos. rewrite sub_length; lia.
Qed.



(** * reference engines (what the hypotheses on str::find / str::split say, as functions) *)
Definition find_b_ref (hay nd : text) : option nat := option_map (bytepos hay) (first_occ nd hay).
Definition split_b_ref (hay d : text) : list (nat * nat) :=
  map (fun r => (bytepos hay (fst r), bytepos hay (snd r) - bytepos hay (fst r))) (split_spec d hay).

(* the faithful model refutes the unguarded case-insensitive statement *)
Definition lc_witness (c : N) : text :=
  if (c =? 304)%N then [105; 775]%N else if (c =? 7838)%N then [223]%N else [c].

Lemma nocase_refuted :
  Known_C07_nocase_len lc_witness [304; 120]%N = true
  /\ find_text_nocase find_b_ref (flat_map lc_witness) [304; 120]%N [120]%N 0 2 = ([], Panicked)
  /\ nocase_indices lc_witness [120]%N [304; 120]%N = [(1, 2)]
  /\ Known_C07_nocase_len lc_witness [7838; 97; 98]%N = true
  /\ find_text_nocase find_b_ref (flat_map lc_witness) [7838; 97; 98]%N [98]%N 0 3 = ([(1, 2); (2, 3)], Done)
  /\ nocase_indices lc_witness [98]%N [7838; 97; 98]%N = [(2, 3)].
Proof. vm_compute. repeat split. Qed.
