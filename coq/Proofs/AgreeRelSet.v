(* The table of arms of `TextSelection::test_set` that tools/translate_relset.py reads from the
   source on every run (Gen/RelTsSetTable.v), interpreted over the pair table, denotes
   Model/Rel.test_ts_set: for every operator, modifier combination, text, selection and set. *)
From Coq Require Import List Arith Bool Lia.
Import ListNotations.
From Stam Require Import Base.Tac Model.Rel Model.RelArms Gen.RelPairTable Gen.RelTsSetTable Proofs.AgreeRelPair.

Lemma any_opt_agree ws o s l :
  any_opt (interp_pair pair_arms ws o s) l = Some (existsb (test_pair ws o s) l).
Proof.
  induction l as [|x l IH]; [reflexivity|]. cbn [any_opt existsb]. rewrite pair_arms_agree.
  destruct (test_pair ws o s x); [reflexivity|exact IH].
Qed.

Lemma all_opt_agree ws o s l :
  all_opt (interp_pair pair_arms ws o s) l = Some (forallb (test_pair ws o s) l).
Proof.
  induction l as [|x l IH]; [reflexivity|]. cbn [all_opt forallb]. rewrite pair_arms_agree.
  destruct (test_pair ws o s x); [exact IH|reflexivity].
Qed.

Lemma fold_min_some l : forall v,
  fold_left (fun m y => match m with None => Some (tb y) | Some v => if tb y <? v then Some (tb y) else Some v end) l (Some v)
  = Some (fold_left (fun m y => if tb y <? m then tb y else m) l v).
Proof. induction l as [|y l IH]; intros v; [reflexivity|]. cbn [fold_left]. destruct (tb y <? v); apply IH. Qed.

Lemma fold_max_some l : forall v,
  fold_left (fun m y => match m with None => Some (te y) | Some v => if v <? te y then Some (te y) else Some v end) l (Some v)
  = Some (fold_left (fun m y => if m <? te y then te y else m) l v).
Proof. induction l as [|y l IH]; intros v; [reflexivity|]. cbn [fold_left]. destruct (v <? te y); apply IH. Qed.

Lemma fold_min_cons x l : fold_min_begin (x :: l) = Some (fold_left (fun m y => if tb y <? m then tb y else m) l (tb x)).
Proof. unfold fold_min_begin. cbn [fold_left]. apply fold_min_some. Qed.
Lemma fold_max_cons x l : fold_max_end (x :: l) = Some (fold_left (fun m y => if m <? te y then te y else m) l (te x)).
Proof. unfold fold_max_end. cbn [fold_left]. apply fold_max_some. Qed.

Theorem ts_set_arms_agree ws o s B :
  interp_ts_set pair_arms ts_set_arms ws o s B = Some (test_ts_set ws o s B).
Proof.
  destruct o as [rel all neg lim w]. destruct B as [it srt].
  destruct rel, all, neg.
  all: cbv [interp_ts_set find_sarm ts_set_arms existsb sa_pats sa_body pat_matches rel_eqb flag_matches p_rel p_all p_neg p_lim
            orel oall oneg olim ows Bool.eqb andb orb toggle negb run_stmt items].
  all: try rewrite any_opt_agree; try rewrite all_opt_agree.
  all: try reflexivity.
  all: destruct it as [|x l]; try reflexivity.
  all: cbv [is_nil'].
  all: try rewrite fold_min_cons; try rewrite fold_max_cons.
  all: try reflexivity.
  all: cbv [test_ts_set pos_ts_set orel oall oneg olim ows items leftmost rightmost sorted option_map negb].
  all: cbv [eval_b eval_n cmp2 option_map olim ows].
  all: try (destruct srt; cbv beta iota).
  all: try (destruct w; cbv beta iota).
  all: try rewrite !gap_ws_text.
  all: cases; try reflexivity; try lia.
Qed.

Corollary ts_set_test_never_underflows ws o s B : interp_ts_set pair_arms ts_set_arms ws o s B <> None.
Proof. rewrite ts_set_arms_agree. discriminate. Qed.
