(* What a failed call can leave behind is purely additive.  The frame theorems of StoreErr.v say
   that a failed annotate / insert_data touches only the text selections of resources and the
   vocabulary of datasets (the known classes of C14); here: those parts only GROW.  Every resource
   keeps its text selections under the same handles, every dataset keeps its keys and data under
   the same handles, and every reference (by id or by handle) that resolved before the failed call
   resolves to the same item after it.  Nothing that existed is removed, renumbered or renamed. *)
From Coq Require Import List Arith Bool Lia.
Import ListNotations.
From Stam Require Import Base.Tac Model.Offset Model.Store Model.StoreExt
     Proofs.RelMap Proofs.StoreInv Proofs.StoreErr Proofs.StoreSel Proofs.StoreData.

Definition dset_ext (d d' : dset) : Prop :=
  d_id d' = d_id d
  /\ (exists ks, d_keys d' = d_keys d ++ ks)
  /\ (exists xs, d_data d' = d_data d ++ xs)
  /\ (forall r k, ref_key d r = Some k -> ref_key d' r = Some k)
  /\ (forall r x, ref_data d r = Some x -> ref_data d' r = Some x).

Definition sets_ext (s s' : store) : Prop :=
  (forall h d, get_set s h = Some d -> exists d', get_set s' h = Some d' /\ dset_ext d d')
  /\ (forall r h, ref_set s r = Some h -> ref_set s' r = Some h).

Definition ress_ext (s s' : store) : Prop :=
  (forall r rs, get_res s r = Some rs ->
     exists suf, get_res s' r = Some (mkres (r_id rs) (r_len rs) (r_sels rs ++ suf)))
  /\ (forall r h, ref_res s r = Some h -> ref_res s' r = Some h).

Lemma dset_ext_refl d : dset_ext d d.
Proof.
  split; [reflexivity|]. split; [exists []; rewrite app_nil_r; reflexivity|].
  split; [exists []; rewrite app_nil_r; reflexivity|]. split; intros; assumption.
Qed.

Lemma dset_ext_trans d1 d2 d3 : dset_ext d1 d2 -> dset_ext d2 d3 -> dset_ext d1 d3.
Proof.
  intros (A1 & (ks & A2) & (xs & A3) & A4 & A5) (B1 & (ks' & B2) & (xs' & B3) & B4 & B5).
  split; [congruence|]. split; [exists (ks ++ ks'); rewrite B2, A2, app_assoc; reflexivity|].
  split; [exists (xs ++ xs'); rewrite B3, A3, app_assoc; reflexivity|].
  split; intros r k H; [apply B4, A4|apply B5, A5]; exact H.
Qed.

Lemma sets_ext_refl s : sets_ext s s.
Proof. split; [intros h d H; exists d; split; [exact H|apply dset_ext_refl]|intros; assumption]. Qed.

Lemma sets_ext_trans s1 s2 s3 : sets_ext s1 s2 -> sets_ext s2 s3 -> sets_ext s1 s3.
Proof.
  intros (A1 & A2) (B1 & B2). split.
  - intros h d H. destruct (A1 h d H) as (d' & H' & E). destruct (B1 h d' H') as (d'' & H'' & E').
    exists d''. split; [exact H''|eapply dset_ext_trans; eassumption].
  - intros r h H. apply B2, A2, H.
Qed.

Lemma slot_app_some' {X} (l l2 : list (option X)) h x : slot l h = Some x -> slot (l ++ l2) h = Some x.
Proof.
  unfold slot. intros H. assert (h < length l).
  { destruct (Nat.lt_ge_cases h (length l)) as [L|L]; [exact L|]. rewrite nth_overflow in H by exact L. discriminate. }
  rewrite app_nth1 by assumption. exact H.
Qed.

(* a reference that resolves keeps resolving when slots are appended and an unused id is registered *)
Lemma resolve_ref_grow {X} (l l2 : list (option X)) m tok k r h :
  id_get m tok = None \/ (forall h0, id_get m tok = Some h0 -> slot l h0 = None) ->
  resolve_ref l m r = Some h -> resolve_ref (l ++ l2) (id_put m tok k) r = Some h.
Proof.
  intros Hfree H. destruct r as [tok'|h']; cbn [resolve_ref] in *.
  - rewrite id_get_put. destruct (id_get m tok') as [h0|] eqn:E; [|discriminate].
    destruct (slot l h0) as [x|] eqn:S0; [|discriminate]. injection H as <-.
    destruct (tok' =? tok) eqn:Et.
    + apply Nat.eqb_eq in Et. subst tok'. exfalso. destruct Hfree as [Hf|Hf]; [congruence|].
      rewrite (Hf h0 E) in S0. discriminate.
    + rewrite (slot_app_some' l l2 h0 x S0). reflexivity.
  - destruct (slot l h') as [x|] eqn:S0; [|discriminate]. injection H as <-.
    rewrite (slot_app_some' l l2 h' x S0). reflexivity.
Qed.

Lemma resolve_ref_app {X} (l l2 : list (option X)) m r h :
  resolve_ref l m r = Some h -> resolve_ref (l ++ l2) m r = Some h.
Proof.
  intros H. destruct r as [tok'|h']; cbn [resolve_ref] in *.
  - destruct (id_get m tok') as [h0|]; [|discriminate]. destruct (slot l h0) as [x|] eqn:S0; [|discriminate].
    rewrite (slot_app_some' l l2 h0 x S0). exact H.
  - destruct (slot l h') as [x|] eqn:S0; [|discriminate]. rewrite (slot_app_some' l l2 h' x S0). exact H.
Qed.

Lemma resolve_none_free {X} (l : list (option X)) m tok :
  resolve_ref l m (ById tok) = None ->
  id_get m tok = None \/ (forall h0, id_get m tok = Some h0 -> slot l h0 = None).
Proof.
  cbn [resolve_ref]. destruct (id_get m tok) as [h0|]; [|left; reflexivity].
  destruct (slot l h0) eqn:S0; [discriminate|]. intros _. right. intros h1 E. injection E as <-. exact S0.
Qed.

(* AnnotationDataSet::insert_data only appends *)
Lemma dset_insert_data_ext d id key v : dset_ext d (fst (dset_insert_data d id key v)).
Proof.
  unfold dset_insert_data.
  destruct (match id with Some r => ref_data d r | None => None end) as [h|] eqn:Eid; [apply dset_ext_refl|].
  destruct key as [kr|]; [|apply dset_ext_refl].
  (* the key step *)
  assert (K : exists d1 kres newkey,
             match ref_key d kr with
             | Some k => (d, Some k, false)
             | None => match kr with
                       | ById tok => (mkset (d_id d) (d_keys d ++ [Some tok]) (d_data d) (id_put (d_kidx d) tok (length (d_keys d))) (d_xidx d) (d_k2x d), Some (length (d_keys d)), true)
                       | ByHandle _ => (d, None, false)
                       end
             end = (d1, kres, newkey)
             /\ dset_ext d d1 /\ d_data d1 = d_data d /\ d_xidx d1 = d_xidx d).
  { destruct (ref_key d kr) as [k|] eqn:Ek.
    - exists d, (Some k), false. split; [reflexivity|]. split; [apply dset_ext_refl|split; reflexivity].
    - destruct kr as [tok|h0].
      + eexists _, _, _. split; [reflexivity|]. split; [|split; reflexivity].
        split; [reflexivity|]. split; [exists [Some tok]; reflexivity|]. split; [exists []; rewrite app_nil_r; reflexivity|].
        split; [|intros r x H; exact H].
        intros r k H. unfold ref_key in *. cbn [d_keys d_kidx]. apply resolve_ref_grow; [apply resolve_none_free; exact Ek|exact H].
      + exists d, None, false. split; [reflexivity|]. split; [apply dset_ext_refl|split; reflexivity]. }
  destruct K as (d1 & kres & newkey & -> & E1 & D1 & X1).
  destruct kres as [k|]; [|exact E1].
  destruct (if negb newkey then match id with None => data_by_value d1 k v | Some _ => None end else None) as [h|]; [exact E1|].
  cbn [fst]. eapply dset_ext_trans; [exact E1|].
  split; [reflexivity|]. split; [exists []; rewrite app_nil_r; reflexivity|]. split; [eexists; reflexivity|].
  split; [intros r k0 H; exact H|].
  intros r x H. unfold ref_data in *. cbn [d_data d_xidx].
  destruct id as [[tok|h0]|]; cbn iota.
  - apply resolve_ref_grow; [|exact H]. apply resolve_none_free. unfold ref_data in Eid. rewrite D1, X1. exact Eid.
  - apply resolve_ref_app. exact H.
  - apply resolve_ref_app. exact H.
Qed.

Lemma get_set_set_slot s h v h' : h < length (sets s) ->
  get_set (set_sets s (set_slot (sets s) h v)) h' = if h' =? h then v else get_set s h'.
Proof.
  intros Hlt. unfold get_set. cbn [set_sets sets]. rewrite slot_set_slot.
  destruct (h' =? h); cbn [andb]; [|reflexivity]. destruct (h <? length (sets s)) eqn:E; [reflexivity|].
  apply Nat.ltb_ge in E. lia.
Qed.

Lemma slot_lt {X} (l : list (option X)) h x : slot l h = Some x -> h < length l.
Proof.
  unfold slot. intros H. destruct (Nat.lt_ge_cases h (length l)) as [L|L]; [exact L|]. rewrite nth_overflow in H by exact L. discriminate.
Qed.

(* replacing a dataset by an extension of itself *)
Lemma sets_ext_update s h d d' : get_set s h = Some d -> dset_ext d d' ->
  sets_ext s (set_sets s (set_slot (sets s) h (Some d'))).
Proof.
  intros Hd E. pose proof (slot_lt _ _ _ Hd) as Hlt. split.
  - intros h0 d0 H0. rewrite get_set_set_slot by exact Hlt. destruct (h0 =? h) eqn:Eh.
    + apply Nat.eqb_eq in Eh. subst h0. exists d'. split; [reflexivity|]. congruence.
    + exists d0. split; [exact H0|apply dset_ext_refl].
  - intros r h0 H. unfold ref_set in *. destruct r as [tok|h1]; cbn [resolve_ref] in *; cbn [set_sets sidx sets] in *.
    + destruct (id_get (sidx s) tok) as [h2|]; [|discriminate].
      destruct (slot (sets s) h2) eqn:S2; [|discriminate]. rewrite slot_set_slot.
      destruct ((h2 =? h) && (h <? length (sets s))); [exact H|]. rewrite S2. exact H.
    + destruct (slot (sets s) h1) eqn:S2; [|discriminate]. rewrite slot_set_slot.
      destruct ((h1 =? h) && (h <? length (sets s))); [exact H|]. rewrite S2. exact H.
Qed.

Lemma add_set_ext s id : sets_ext s (fst (add_set s id)).
Proof.
  unfold add_set. destruct (id_get (sidx s) id) as [h|] eqn:E.
  - destruct (get_set s h) as [d|]; [destruct (dset_is_empty d)|]; apply sets_ext_refl.
  - cbn [fst]. split.
    + intros h d H. exists d. split; [|apply dset_ext_refl]. unfold get_set in *. cbn [set_sidx set_sets sets]. apply slot_app_some'. exact H.
    + intros r h H. unfold ref_set in *. cbn [set_sidx set_sets sets sidx]. apply resolve_ref_grow; [left; exact E|exact H].
Qed.

Lemma store_insert_data_ext s b : sets_ext s (fst (store_insert_data s b)).
Proof.
  unfold store_insert_data.
  assert (K : exists s1 sh,
     match ref_set s (db_set b) with
     | Some h => (s, Some h)
     | None => match add_set s (match db_set b with ById tok => tok | ByHandle _ => DEFAULT_SET_TOKEN end) with
               | (s', OOk h) => (s', Some h)
               | (s', _) => (s', None)
               end
     end = (s1, sh) /\ sets_ext s s1).
  { destruct (ref_set s (db_set b)) as [h|]; [exists s, (Some h); split; [reflexivity|apply sets_ext_refl]|].
    pose proof (add_set_ext s (match db_set b with ById tok => tok | ByHandle _ => DEFAULT_SET_TOKEN end)) as A.
    destruct (add_set s _) as [s' [h| |]]; cbn [fst] in A; eexists _, _; (split; [reflexivity|exact A]). }
  destruct K as (s1 & sh & -> & E1). destruct sh as [h|]; [|exact E1].
  destruct (get_set s1 h) as [d|] eqn:Hd; [|exact E1].
  pose proof (dset_insert_data_ext d (db_id b) (db_key b) (db_val b)) as E2.
  destruct (dset_insert_data d (db_id b) (db_key b) (db_val b)) as [d' [x| |]]; cbn [fst] in *;
    (eapply sets_ext_trans; [exact E1|apply (sets_ext_update s1 h d d' Hd E2)]).
Qed.

Lemma insert_datas_ext l : forall s, sets_ext s (fst (insert_datas s l)).
Proof.
  induction l as [|b l IH]; intros s; cbn [insert_datas]; [apply sets_ext_refl|].
  pose proof (store_insert_data_ext s b) as A. destruct (store_insert_data s b) as [s1 [dx|]]; cbn [fst] in *; [|exact A].
  pose proof (IH s1) as B. destruct (insert_datas s1 l) as [s2 [dxs|]]; cbn [fst] in *; eapply sets_ext_trans; eassumption.
Qed.

Lemma sets_ext_of_eq s s' : sets s' = sets s -> sidx s' = sidx s -> sets_ext s s'.
Proof.
  intros A B. split.
  - intros h d H. exists d. split; [unfold get_set in *; rewrite A; exact H|apply dset_ext_refl].
  - intros r h H. unfold ref_set in *. rewrite A, B. exact H.
Qed.

Lemma ress_ext_of_sel s s' : sel_ext s s' -> ridx s' = ridx s -> ress_ext s s'.
Proof.
  intros (_ & E) R. split; [exact E|].
  intros r h H. unfold ref_res in *. rewrite R. destruct r as [tok|h1]; cbn [resolve_ref] in *.
  - destruct (id_get (ridx s) tok) as [h2|]; [|discriminate]. destruct (slot (ress s) h2) as [rs|] eqn:S2; [|discriminate].
    destruct (E h2 rs S2) as (suf & G). unfold get_res in G. rewrite G. exact H.
  - destruct (slot (ress s) h1) as [rs|] eqn:S2; [|discriminate].
    destruct (E h1 rs S2) as (suf & G). unfold get_res in G. rewrite G. exact H.
Qed.

Lemma ress_ext_refl s : ress_ext s s.
Proof. apply ress_ext_of_sel; [apply sel_ext_refl|reflexivity]. Qed.

Lemma ress_ext_trans s1 s2 s3 : ress_ext s1 s2 -> ress_ext s2 s3 -> ress_ext s1 s3.
Proof.
  intros (A1 & A2) (B1 & B2). split.
  - intros r rs H. destruct (A1 r rs H) as (suf & H2). destruct (B1 r _ H2) as (suf' & H3). cbn [r_id r_len r_sels] in H3.
    exists (suf ++ suf'). rewrite app_assoc. exact H3.
  - intros r h H. apply B2, A2, H.
Qed.

Lemma ress_ext_of_eq s s' : ress s' = ress s -> ridx s' = ridx s -> ress_ext s s'.
Proof.
  intros A B. split.
  - intros r rs H. exists []. rewrite app_nil_r. unfold get_res in *. rewrite A. destruct rs; exact H.
  - intros r h H. unfold ref_res in *. rewrite A, B. exact H.
Qed.

Definition grows (s s' : store) : Prop := same_core s s' /\ ress_ext s s' /\ sets_ext s s'.

Lemma grows_refl s : grows s s.
Proof. split; [apply same_core_refl|split; [apply ress_ext_refl|apply sets_ext_refl]]. Qed.

Lemma grows_trans s1 s2 s3 : grows s1 s2 -> grows s2 s3 -> grows s1 s3.
Proof.
  intros (A1 & A2 & A3) (B1 & B2 & B3).
  split; [eapply same_core_trans; eassumption|split; [eapply ress_ext_trans; eassumption|eapply sets_ext_trans; eassumption]].
Qed.

(* the two preparatory steps of annotate() only grow the store, whatever their outcome *)
Lemma resolve_target_grows s tb : SelInv s -> grows s (fst (resolve_target s tb)).
Proof.
  intros HI. pose proof (resolve_target_sel s tb HI) as R. pose proof (resolve_target_core s tb) as C.
  destruct (resolve_target_ridx s tb) as (R1 & R2). pose proof (resolve_target_sets s tb) as T.
  destruct (resolve_target s tb) as [s1 r]; cbn [fst] in *. destruct R as (X & _ & _).
  split; [exact C|split; [apply ress_ext_of_sel; assumption|apply sets_ext_of_eq; assumption]].
Qed.

Lemma insert_datas_grows l s : grows s (fst (insert_datas s l)).
Proof.
  destruct (insert_datas_frame l s) as (F1 & F2).
  split; [apply insert_datas_core|split; [apply ress_ext_of_eq; assumption|apply insert_datas_ext]].
Qed.

(* a failed annotate: whatever it leaves behind was added, nothing was lost *)
Theorem annotate_err_grows s b s' : SelInv s -> annotate s b = (s', OErr) -> grows s s'.
Proof.
  intros HI H. unfold annotate in H. destruct (ab_target b) as [tb|]; [|inversion H; subst; apply grows_refl].
  pose proof (resolve_target_grows s tb HI) as G1.
  destruct (resolve_target s tb) as [s1 [[kind leaves]|]]; cbn [fst] in *; [|inversion H; subst; exact G1].
  pose proof (insert_datas_grows (ab_data b) s1) as G2.
  destruct (insert_datas s1 (ab_data b)) as [s2 [data|]]; cbn [fst] in *;
    [|inversion H; subst; eapply grows_trans; eassumption].
  destruct (match ab_id b with Some tok => id_get (aidx s2) tok | None => None end) as [h'|]; [|discriminate].
  destruct (get_ann s2 h') as [exi|]; [|discriminate].
  destruct (_ && _); [discriminate|]. inversion H; subst. eapply grows_trans; eassumption.
Qed.

(* every failed adding operation of a history *)
Theorem step_err_grows s o s' : SelInv s ->
  match o with AddRes _ _ | AddSet _ | InsData _ | Annotate _ => True | _ => False end ->
  step s o = (s', OErr) -> grows s s'.
Proof.
  intros HI Ho H. destruct o; try destruct Ho; cbn [step] in H.
  - unfold add_res in H. destruct (id_get (ridx s) id) as [h|]; [|discriminate].
    destruct (get_res s h) as [r|]; [destruct (r_len r =? len)|]; inversion H; subst; apply grows_refl.
  - unfold add_set in H. destruct (id_get (sidx s) id) as [h|]; [|discriminate].
    destruct (get_set s h) as [d|]; [destruct (dset_is_empty d)|]; inversion H; subst; apply grows_refl.
  - pose proof (store_insert_data_core s b) as C. destruct (store_insert_data_frame s b) as (F1&F2).
    pose proof (store_insert_data_ext s b) as E.
    destruct (store_insert_data s b) as [s1 [[d x]|]]; [discriminate|]. inversion H; subst. cbn [fst] in *.
    split; [exact C|split; [apply ress_ext_of_eq; assumption|exact E]].
  - apply (annotate_err_grows s b s' HI H).
Qed.

Theorem reachable_err_grows : forall ops o s',
  match o with AddRes _ _ | AddSet _ | InsData _ | Annotate _ => True | _ => False end ->
  step (run ops) o = (s', OErr) -> grows (run ops) s'.
Proof. intros ops o s' Ho H. apply (step_err_grows (run ops) o s' (reachable_SelInv ops) Ho H). Qed.

(** * batches: annotate_from_iter stops at the first failing element *)

Fixpoint annotate_all (s : store) (l : list abuild) : store :=
  match l with [] => s | b :: l' => annotate_all (fst (annotate s b)) l' end.

(* a failed batch of n elements done is: the first n elements, each added successfully one after
   the other, followed by one failed annotate() of element n - nothing else (known class
   Known_C14_batch_prefix says exactly this much stays) *)
Theorem annotate_batch_err l : forall s s' n, annotate_batch s l = (s', OErr, n) ->
  exists b, nth_error l n = Some b
  /\ (forall i bi, i < n -> nth_error l i = Some bi ->
        exists h, snd (annotate (annotate_all s (firstn i l)) bi) = OOk h)
  /\ annotate (annotate_all s (firstn n l)) b = (s', OErr).
Proof.
  induction l as [|b l IH]; intros s s' n H; cbn [annotate_batch] in H; [discriminate|].
  destruct (annotate s b) as [s1 [h| |]] eqn:E.
  - destruct (annotate_batch s1 l) as [[s2 r] m] eqn:E2. injection H as -> -> <-.
    destruct (IH s1 s' m E2) as (b' & Hn & Hpre & Hlast). exists b'. cbn [nth_error firstn annotate_all]. rewrite E. cbn [fst].
    split; [exact Hn|split; [|exact Hlast]].
    intros i bi Hi Hnth. destruct i as [|i]; cbn [nth_error firstn annotate_all] in *.
    + injection Hnth as <-. exists h. rewrite E. reflexivity.
    + rewrite E. cbn [fst]. apply (Hpre i bi); [lia|exact Hnth].
  - injection H as <- <-. exists b. cbn [nth_error firstn annotate_all]. split; [reflexivity|split; [intros i bi Hi; lia|exact E]].
  - discriminate.
Qed.

(* a successful batch is the fold of annotate *)
Theorem annotate_batch_ok l : forall s s' h n, annotate_batch s l = (s', OOk h, n) ->
  s' = annotate_all s l /\ n = length l.
Proof.
  induction l as [|b l IH]; intros s s' h n H; cbn [annotate_batch] in H.
  - injection H as <- _ <-. split; reflexivity.
  - destruct (annotate s b) as [s1 [h1| |]] eqn:E; try discriminate.
    destruct (annotate_batch s1 l) as [[s2 r] m] eqn:E2. injection H as -> -> <-.
    destruct (IH s1 s' h m E2) as (A & B). cbn [annotate_all length]. rewrite E. cbn [fst]. split; [exact A|congruence].
Qed.
