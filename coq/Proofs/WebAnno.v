(* C17: the string the exporter builds is the intended JSON tree.
   Method: every fragment the Rust code appends is shown to lex to a list of tokens whatever
   follows it (LXs) or whenever a delimiter follows it (LX, fragments ending in a number);
   fragments compose by concatenation; the tokens of the whole are those of the intended
   tree ([export_ast]), and the parser reads tokens of a tree back to that tree. *)
From Coq Require Import NArith ZArith Lia DecimalN DecimalFacts DecimalPos.
From Stam Require Import Base.Tac Model.Json Model.WebAnno Spec.WebAnnoSpec Proofs.Json.
Local Open Scope N_scope.

(* ====================================================================== *)
(* plain strings                                                          *)
(* ====================================================================== *)

Lemma escape_char_plain c : plain_char c = true -> escape_char c = [c].
Proof.
  unfold plain_char, escape_char. intros H. apply negb_true_iff in H.
  apply orb_false_iff in H. destruct H as [H H3]. apply orb_false_iff in H. destruct H as [H1 H2].
  rewrite H1, H2, H3.
  apply N.ltb_ge in H3.
  replace (c =? 8) with false by (symmetry; apply N.eqb_neq; lia).
  replace (c =? 9) with false by (symmetry; apply N.eqb_neq; lia).
  replace (c =? 10) with false by (symmetry; apply N.eqb_neq; lia).
  replace (c =? 12) with false by (symmetry; apply N.eqb_neq; lia).
  replace (c =? 13) with false by (symmetry; apply N.eqb_neq; lia).
  reflexivity.
Qed.

Lemma escape_plain : forall s, plain s = true -> escape s = s.
Proof.
  induction s as [|c s IH]; intros H; [reflexivity|].
  cbn [plain forallb] in H. apply andb_prop in H. destruct H as [Hc Hs].
  unfold escape in *. cbn [flat_map]. rewrite (escape_char_plain _ Hc), (IH Hs). reflexivity.
Qed.

Lemma plain_app a b : plain (a ++ b) = plain a && plain b.
Proof. apply forallb_app. Qed.

(* format!("\"{}\"", s) of a plain string is the JSON string s *)
Lemma LXs_q s : plain s = true -> LXs (q s) [TStr s].
Proof.
  intros H. unfold q. rewrite <- (escape_plain _ H) at 1. apply (LXs_str s).
Qed.

Lemma LXs_jstr s : LXs (jstr s) [TStr s].
Proof. apply (LXs_str s). Qed.

(* ====================================================================== *)
(* numbers                                                                *)
(* ====================================================================== *)

Lemma uint_chars_digits d : forallb is_digit (uint_chars d) = true.
Proof. induction d; cbn [uint_chars forallb]; try rewrite IHd; reflexivity. Qed.

Lemma nzhead_head d : match Decimal.nzhead d with Decimal.D0 _ => False | _ => True end.
Proof. induction d; cbn; trivial. Qed.

Lemma to_uint_norm n : Decimal.unorm (N.to_uint n) = N.to_uint n.
Proof.
  rewrite <- (DecimalN.Unsigned.of_to n) at 2. rewrite DecimalN.Unsigned.to_of. reflexivity.
Qed.

(* a decimal numeral without leading zero: "0" or a non-zero first digit *)
Definition int_shape (ds : str) : Prop :=
  ds = [48] \/ exists c r, ds = c :: r /\ is_digit c = true /\ c <> 48.

Lemma dec_N_shape n : int_shape (dec_N n).
Proof.
  unfold dec_N. pose proof (to_uint_norm n) as H. set (d := N.to_uint n) in *.
  unfold Decimal.unorm in H. pose proof (nzhead_head d) as Hh.
  destruct (Decimal.nzhead d) eqn:E.
  - left. rewrite <- H. reflexivity.
  - contradiction.
  - right. rewrite <- H. cbn [uint_chars]. eexists; eexists; split; [reflexivity|split; [reflexivity|discriminate]].
  - right. rewrite <- H. cbn [uint_chars]. eexists; eexists; split; [reflexivity|split; [reflexivity|discriminate]].
  - right. rewrite <- H. cbn [uint_chars]. eexists; eexists; split; [reflexivity|split; [reflexivity|discriminate]].
  - right. rewrite <- H. cbn [uint_chars]. eexists; eexists; split; [reflexivity|split; [reflexivity|discriminate]].
  - right. rewrite <- H. cbn [uint_chars]. eexists; eexists; split; [reflexivity|split; [reflexivity|discriminate]].
  - right. rewrite <- H. cbn [uint_chars]. eexists; eexists; split; [reflexivity|split; [reflexivity|discriminate]].
  - right. rewrite <- H. cbn [uint_chars]. eexists; eexists; split; [reflexivity|split; [reflexivity|discriminate]].
  - right. rewrite <- H. cbn [uint_chars]. eexists; eexists; split; [reflexivity|split; [reflexivity|discriminate]].
  - right. rewrite <- H. cbn [uint_chars]. eexists; eexists; split; [reflexivity|split; [reflexivity|discriminate]].
Qed.

Lemma dec_N_digits n : forallb is_digit (dec_N n) = true.
Proof. apply uint_chars_digits. Qed.

Definition nondigit_head (s : str) : Prop :=
  match s with c :: _ => is_digit c = false | [] => True end.

Lemma skip_digits_app : forall r sfx,
  forallb is_digit r = true -> nondigit_head sfx -> skip_digits (r ++ sfx) = sfx.
Proof.
  induction r as [|c r IH]; intros sfx Hr Hs.
  - cbn [app]. destruct sfx as [|d sfx]; [reflexivity|]. cbn in Hs. cbn [skip_digits]. rewrite Hs. reflexivity.
  - cbn [forallb] in Hr. apply andb_prop in Hr. destruct Hr as [Hc Hr].
    cbn [app skip_digits]. rewrite Hc. apply IH; assumption.
Qed.

Lemma num_unsigned_int ds sfx :
  int_shape ds -> forallb is_digit ds = true -> nondigit_head sfx ->
  num_unsigned (ds ++ sfx) = num_after_int sfx.
Proof.
  intros [->|(c & r & -> & Hc & Hn)] Hd Hs; [reflexivity|].
  cbn [app num_unsigned]. apply N.eqb_neq in Hn. rewrite Hn, Hc.
  cbn [forallb] in Hd. apply andb_prop in Hd. destruct Hd as [_ Hd].
  rewrite skip_digits_app by assumption. reflexivity.
Qed.

Lemma digit_not_minus c : is_digit c = true -> (c =? 45) = false.
Proof.
  unfold is_digit. intros H. apply andb_prop in H. destruct H as [H _].
  apply N.leb_le in H. apply N.eqb_neq. lia.
Qed.

Lemma int_shape_head ds : int_shape ds -> exists c r, ds = c :: r /\ is_digit c = true.
Proof.
  intros [->|(c & r & -> & Hc & _)]; [exists 48, []; split; reflexivity|exists c, r; split; [reflexivity|exact Hc]].
Qed.

Lemma json_number_unsigned ds sfx :
  int_shape ds -> forallb is_digit ds = true -> nondigit_head sfx ->
  is_json_number (ds ++ sfx) = num_after_int sfx.
Proof.
  intros Hs Hd Hx. destruct (int_shape_head _ Hs) as (c & r & E & Hc). subst ds.
  cbn [app is_json_number]. rewrite (digit_not_minus _ Hc).
  change (c :: r ++ sfx) with ((c :: r) ++ sfx).
  apply num_unsigned_int; assumption.
Qed.

Lemma json_number_signed ds sfx :
  int_shape ds -> forallb is_digit ds = true -> nondigit_head sfx ->
  is_json_number (45 :: ds ++ sfx) = num_after_int sfx.
Proof. intros. cbn [is_json_number]. cbn. apply num_unsigned_int; assumption. Qed.

Lemma dec_N_number n : is_json_number (dec_N n) = true.
Proof.
  rewrite <- (app_nil_r (dec_N n)).
  rewrite json_number_unsigned; [reflexivity|apply dec_N_shape|apply dec_N_digits|exact I].
Qed.

Lemma dec_nat_number n : is_json_number (dec_nat n) = true.
Proof. apply dec_N_number. Qed.

Lemma dec_Z_number z : is_json_number (dec_Z z) = true.
Proof.
  unfold dec_Z. destruct (z <? 0)%Z; [|apply dec_N_number].
  rewrite <- (app_nil_r (dec_N (Z.abs_N z))).
  rewrite json_number_signed; [reflexivity|apply dec_N_shape|apply dec_N_digits|exact I].
Qed.

Lemma float_str_number x : is_json_number (float_str (FQ x)) = true.
Proof.
  unfold float_str. set (a := Z.abs_N x).
  assert (S : forall sfx, nondigit_head sfx -> num_after_int sfx = true ->
              is_json_number ((if (x <? 0)%Z then [45] else []) ++ dec_N (a / 4) ++ sfx) = true).
  { intros sfx H1 H2. destruct (x <? 0)%Z; cbn [app].
    - rewrite json_number_signed; [exact H2|apply dec_N_shape|apply dec_N_digits|exact H1].
    - rewrite json_number_unsigned; [exact H2|apply dec_N_shape|apply dec_N_digits|exact H1]. }
  destruct (a mod 4) as [|[[p|p|]|[p|p|]|]]; apply S; try exact I; reflexivity.
Qed.

Lemma float_whole_number neg mant zeros :
  fw_ok mant = true -> is_json_number (float_str (FW neg mant zeros)) = true.
Proof.
  unfold fw_ok, float_str. destruct mant as [|c r] eqn:Em; [discriminate|]. intros H.
  apply andb_prop in H. destruct H as [Hd Hc]. apply negb_true_iff in Hc. apply N.eqb_neq in Hc.
  rewrite <- Em in *.
  assert (Hz : forallb is_digit (repeat 48 zeros) = true) by (induction zeros; [reflexivity|exact IHzeros]).
  assert (Hs : int_shape (mant ++ repeat 48 zeros)).
  { right. subst mant. exists c, (r ++ repeat 48 zeros). split; [reflexivity|].
    cbn [forallb] in Hd. apply andb_prop in Hd. split; [apply Hd|exact Hc]. }
  assert (Ha : forallb is_digit (mant ++ repeat 48 zeros) = true) by (rewrite forallb_app, Hd, Hz; reflexivity).
  destruct neg; cbn [app]; rewrite <- (app_nil_r (mant ++ repeat 48 zeros)).
  - rewrite json_number_signed; [reflexivity|exact Hs|exact Ha|exact I].
  - rewrite json_number_unsigned; [reflexivity|exact Hs|exact Ha|exact I].
Qed.

Lemma digits_plain : forall s, forallb is_digit s = true -> plain s = true.
Proof.
  induction s as [|c s IH]; intros H; [reflexivity|].
  cbn [forallb] in H. apply andb_prop in H. destruct H as [Hc Hs].
  unfold plain in *. cbn [forallb]. rewrite (IH Hs), andb_true_r.
  unfold is_digit in Hc. apply andb_prop in Hc. destruct Hc as [H1 H2].
  apply N.leb_le in H1. apply N.leb_le in H2. unfold plain_char.
  apply negb_true_iff. apply orb_false_iff. split; [apply orb_false_iff; split|].
  - apply N.eqb_neq. lia.
  - apply N.eqb_neq. lia.
  - apply N.ltb_ge. lia.
Qed.

Lemma dec_nat_plain n : plain (dec_nat n) = true.
Proof. apply digits_plain. apply dec_N_digits. Qed.

(* ====================================================================== *)
(* IRIs and templates are plain when the configuration is                 *)
(* ====================================================================== *)

Lemma not_invalid_plain c : invalid_in_iri c = false -> plain_char c = true.
Proof.
  unfold invalid_in_iri, plain_char, is_control. intros H.
  apply orb_false_iff in H. destruct H as [H H4].
  apply orb_false_iff in H. destruct H as [H H3].
  apply orb_false_iff in H. destruct H as [H1 H2].
  apply orb_false_iff in H4. destruct H4 as [H4 _].
  rewrite H2, H3, H4. reflexivity.
Qed.

Lemma no_invalid_plain : forall s, existsb invalid_in_iri s = false -> plain s = true.
Proof.
  induction s as [|c s IH]; intros H; [reflexivity|].
  cbn [existsb] in H. apply orb_false_iff in H. destruct H as [Hc Hs].
  unfold plain in *. cbn [forallb]. rewrite (not_invalid_plain _ Hc). apply IH. exact Hs.
Qed.

Lemma is_iri_plain s : is_iri s = true -> plain s = true.
Proof.
  unfold is_iri. destruct (before_colon s); [|discriminate].
  destruct (existsb invalid_in_iri s) eqn:E; [discriminate|]. intros _. apply no_invalid_plain. exact E.
Qed.

Lemma cleaned_plain : forall s, plain (map (fun c => if invalid_in_iri c then 45 else c) s) = true.
Proof.
  induction s as [|c s IH]; [reflexivity|].
  unfold plain in *. cbn [map forallb]. rewrite IH, andb_true_r. destruct (invalid_in_iri c) eqn:E; [reflexivity|apply not_invalid_plain; exact E].
Qed.

Lemma into_iri_plain s prefix : plain prefix = true -> plain (into_iri s prefix) = true.
Proof.
  intros Hp. unfold into_iri. destruct (is_iri s) eqn:E; [apply is_iri_plain; exact E|].
  match goal with |- context [last ?x 0] => set (p := x) end.
  assert (Hp' : plain p = true) by (subst p; destruct (is_nil prefix); [reflexivity|exact Hp]).
  destruct ((last p 0 =? 47) || (last p 0 =? 35) || (last p 0 =? 58));
    rewrite ?plain_app, Hp', ?cleaned_plain; reflexivity.
Qed.

Lemma plain_skipn : forall n s, plain s = true -> plain (skipn n s) = true.
Proof.
  induction n as [|n IH]; intros s H; [exact H|].
  destruct s as [|c s]; [reflexivity|]. cbn [skipn]. apply IH.
  unfold plain in *. cbn [forallb] in H. apply andb_prop in H. apply H.
Qed.

Lemma replace_fuel_plain : forall f pat to s,
  plain to = true -> plain s = true -> plain (replace_fuel f pat to s) = true.
Proof.
  induction f as [|f IH]; intros pat to s Ht Hs; [exact Hs|].
  cbn [replace_fuel]. destruct s as [|c r]; [reflexivity|].
  destruct (starts_with pat (c :: r)).
  - rewrite plain_app, Ht. cbn [andb]. apply IH; [exact Ht|apply plain_skipn; exact Hs].
  - assert (Hc : plain_char c = true /\ plain r = true) by (unfold plain in *; cbn [forallb] in Hs; apply andb_prop in Hs; exact Hs).
    destruct Hc as [Hc Hr]. change (plain (c :: replace_fuel f pat to r)) with (plain_char c && plain (replace_fuel f pat to r)).
    rewrite Hc. cbn [andb]. apply IH; assumption.
Qed.

Lemma fill_template_plain tpl iri b e :
  plain tpl = true -> plain iri = true -> plain (fill_template tpl iri b e) = true.
Proof.
  intros Ht Hi. unfold fill_template, replace_all.
  apply replace_fuel_plain; [apply dec_nat_plain|].
  apply replace_fuel_plain; [apply dec_nat_plain|].
  apply replace_fuel_plain; assumption.
Qed.

(* ====================================================================== *)
(* comma separated tokens                                                 *)
(* ====================================================================== *)

Fixpoint csv (l : list (list token)) : list token :=
  match l with
  | [] => []
  | x :: r => match r with [] => x | _ => x ++ TComma :: csv r end
  end.

Definition mem_tokens (kv : str * json) : list token :=
  TStr (fst kv) :: TColon :: tokens_of (snd kv).

Lemma csv_cons : forall r x, csv (x :: r) = x ++ flat_map (fun y => TComma :: y) r.
Proof.
  induction r as [|y r IH]; intros x; [cbn; rewrite app_nil_r; reflexivity|].
  change (csv (x :: y :: r)) with (x ++ TComma :: csv (y :: r)). rewrite IH. reflexivity.
Qed.

Lemma flat_map_map {X Y Z} (f : X -> Y) (g : Y -> list Z) l :
  flat_map g (map f l) = flat_map (fun x => g (f x)) l.
Proof. induction l; cbn; [reflexivity|rewrite IHl; reflexivity]. Qed.

Lemma tokens_of_arr' l : tokens_of (JArr l) = TLBrack :: csv (map tokens_of l) ++ [TRBrack].
Proof.
  destruct l as [|v l]; [reflexivity|]. rewrite tokens_of_arr. cbn [map]. rewrite csv_cons, flat_map_map.
  rewrite <- app_assoc. reflexivity.
Qed.

Lemma tokens_of_obj' m : tokens_of (JObj m) = TLBrace :: csv (map mem_tokens m) ++ [TRBrace].
Proof.
  destruct m as [|[k v] m]; [reflexivity|]. rewrite tokens_of_obj. cbn [map]. rewrite csv_cons, flat_map_map.
  unfold mem_tokens at 1. cbn [fst snd app]. rewrite <- app_assoc. reflexivity.
Qed.

(* all but the last followed by a comma, as the annotation object is written *)
Lemma csv_snoc : forall l x, csv (l ++ [x]) = flat_map (fun t => t ++ [TComma]) l ++ x.
Proof.
  induction l as [|y l IH]; intros x; [reflexivity|].
  cbn [app flat_map]. destruct l as [|z l].
  - cbn [app flat_map csv]. rewrite app_nil_r. rewrite <- app_assoc. reflexivity.
  - change (csv (y :: (z :: l) ++ [x])) with (y ++ TComma :: csv ((z :: l) ++ [x])).
    rewrite IH. rewrite <- !app_assoc. reflexivity.
Qed.

Lemma csv_app_nonnil : forall a b, a <> [] -> b <> [] -> csv (a ++ b) = csv a ++ TComma :: csv b.
Proof.
  induction a as [|x a IH]; intros b Ha Hb; [congruence|].
  destruct a as [|y a].
  - cbn [app]. destruct b; [congruence|]. reflexivity.
  - change (csv ((x :: y :: a) ++ b)) with (x ++ TComma :: csv ((y :: a) ++ b)).
    rewrite IH by (try discriminate; exact Hb).
    change (csv (x :: y :: a)) with (x ++ TComma :: csv (y :: a)). rewrite <- app_assoc. reflexivity.
Qed.

(* texts joined by a separator that lexes to a comma *)
Lemma LX_join sep :
  LXs sep [TComma] -> dhead sep ->
  forall l : list (str * list token),
  Forall (fun p => LX (fst p) (snd p)) l ->
  LX (join sep (map fst l)) (csv (map snd l)).
Proof.
  intros Hsep Hd. induction l as [|p l IH]; intros HF.
  - apply LXs_LX. apply LXs_nil.
  - inversion HF as [|? ? Hp HF']; subst. destruct l as [|p' l]; [exact Hp|].
    change (join sep (map fst (p :: p' :: l))) with (fst p ++ sep ++ join sep (map fst (p' :: l))).
    change (csv (map snd (p :: p' :: l))) with (snd p ++ [TComma] ++ csv (map snd (p' :: l))).
    apply LX_LX_app; [exact Hp| |].
    + destruct sep; [contradiction|exact Hd].
    + apply LXs_LX_app; [exact Hsep|]. apply IH. exact HF'.
Qed.

Lemma LXs_join sep :
  LXs sep [TComma] ->
  forall l : list (str * list token),
  Forall (fun p => LXs (fst p) (snd p)) l ->
  LXs (join sep (map fst l)) (csv (map snd l)).
Proof.
  intros Hsep. induction l as [|p l IH]; intros HF.
  - apply LXs_nil.
  - inversion HF as [|? ? Hp HF']; subst. destruct l as [|p' l]; [exact Hp|].
    change (join sep (map fst (p :: p' :: l))) with (fst p ++ sep ++ join sep (map fst (p' :: l))).
    change (csv (map snd (p :: p' :: l))) with (snd p ++ [TComma] ++ csv (map snd (p' :: l))).
    apply LXs_app; [exact Hp|]. apply LXs_app; [exact Hsep|]. apply IH. exact HF'.
Qed.

Ltac lx_const :=
  let rest := fresh "rest" in
  intros rest; cbn; destruct (lex LStart rest); reflexivity.

Lemma LXs_comma_space : LXs [44; 32] [TComma]. Proof. lx_const. Qed.
Lemma LXs_comma : LXs [44] [TComma]. Proof. lx_const. Qed.

(* ====================================================================== *)
(* values                                                                 *)
(* ====================================================================== *)

Section ValueInd.
  Variable P : value -> Prop.
  Hypothesis Hnull : P VNull.
  Hypothesis Hstr : forall s, P (VStr s).
  Hypothesis Hbool : forall b, P (VBool b).
  Hypothesis Hint : forall z, P (VInt z).
  Hypothesis Hfloat : forall f, P (VFloat f).
  Hypothesis Hlist : forall l, Forall P l -> P (VList l).
  Hypothesis Hdate : forall s, P (VDate s).

  Fixpoint value_ind' (v : value) : P v :=
    match v with
    | VNull => Hnull
    | VStr s => Hstr s
    | VBool b => Hbool b
    | VInt z => Hint z
    | VFloat f => Hfloat f
    | VList l =>
        Hlist l ((fix go (l : list value) : Forall P l :=
                    match l with
                    | [] => Forall_nil _
                    | x :: l' => Forall_cons x (value_ind' x) (go l')
                    end) l)
    | VDate s => Hdate s
    end.
End ValueInd.

Lemma value_to_json_list l :
  value_to_json (VList l) = 91 :: join [44; 32] (map value_to_json l) ++ [93].
Proof.
  cbn [value_to_json]. f_equal. f_equal.
  induction l as [|x r IH]; [reflexivity|]. destruct r as [|y r]; [reflexivity|].
  rewrite IH. reflexivity.
Qed.

Lemma LX_value : forall v,
  value_finite v = true -> value_dates_plain v = true ->
  LX (value_to_json v) (tokens_of (value_json v)).
Proof.
  induction v as [| s | b | z | f | l IH | s] using value_ind'; intros Hf Hd.
  - apply LXs_LX. lx_const.
  - apply LXs_LX. apply LXs_jstr.
  - destruct b; apply LXs_LX; lx_const.
  - apply LX_num. apply dec_Z_number.
  - destruct f as [x|n m z| |n]; try discriminate; apply LX_num; [apply float_str_number|].
    apply float_whole_number. exact Hf.
  - rewrite value_to_json_list. cbn [value_json]. rewrite tokens_of_arr'.
    apply LXs_LX.
    change (91 :: join [44; 32] (map value_to_json l) ++ [93])
      with ([91] ++ join [44; 32] (map value_to_json l) ++ [93]).
    change (TLBrack :: csv (map tokens_of (map value_json l)) ++ [TRBrack])
      with ([TLBrack] ++ csv (map tokens_of (map value_json l)) ++ [TRBrack]).
    apply LXs_app; [lx_const|].
    apply LX_LXs_app; [|exact (eq_refl : is_numchar 93 = false)|lx_const].
    cbn [value_finite value_dates_plain] in Hf, Hd.
    replace (map value_to_json l) with (map fst (map (fun v => (value_to_json v, tokens_of (value_json v))) l))
      by (rewrite map_map; reflexivity).
    replace (map tokens_of (map value_json l)) with (map snd (map (fun v => (value_to_json v, tokens_of (value_json v))) l))
      by (rewrite !map_map; reflexivity).
    apply LX_join; [exact LXs_comma_space|exact (eq_refl : is_numchar 44 = false)|].
    apply Forall_map. rewrite Forall_forall in *. intros v Hv. cbn [fst snd].
    apply IH; [exact Hv| |].
    + rewrite forallb_forall in Hf. apply Hf. exact Hv.
    + rewrite forallb_forall in Hd. apply Hd. exact Hv.
  - apply LXs_LX. cbn [value_to_json value_json tokens_of]. apply LXs_q. exact Hd.
Qed.

(* ====================================================================== *)
(* predicates                                                             *)
(* ====================================================================== *)

Lemma LXs_colon_space : LXs [58; 32] [TColon]. Proof. lx_const. Qed.

Lemma pred_json_not_iri v : value_is_iri v = false -> pred_json v = value_json v.
Proof. destruct v; try reflexivity. cbn. intros ->. reflexivity. Qed.

Lemma LX_pred p v c :
  value_finite v = true -> value_dates_plain v = true ->
  LX (output_predicate_datavalue p v c)
     (mem_tokens (uri_to_namespace (c_namespaces c) p, pred_json v)).
Proof.
  intros Hf Hd. unfold output_predicate_datavalue, mem_tokens. cbn [fst snd].
  set (P := uri_to_namespace (c_namespaces c) p).
  change (TStr P :: TColon :: tokens_of (pred_json v)) with ([TStr P] ++ TColon :: tokens_of (pred_json v)).
  destruct (value_is_iri v) eqn:E.
  - destruct v as [| s | | | | |]; try discriminate. cbn [value_is_iri] in E.
    cbn [pred_json display_str]. rewrite E. apply LXs_LX.
    apply LXs_app; [apply LXs_jstr|].
    change (TColon :: tokens_of (JObj [([105; 100], JStr s)]))
      with ([TColon; TLBrace; TStr [105; 100]; TColon] ++ [TStr s] ++ [TRBrace]).
    apply LXs_app; [lx_const|]. apply LXs_app; [apply LXs_q; apply is_iri_plain; exact E|lx_const].
  - rewrite (pred_json_not_iri _ E).
    apply LXs_LX_app; [apply LXs_jstr|].
    change (TColon :: tokens_of (value_json v)) with ([TColon] ++ tokens_of (value_json v)).
    apply LXs_LX_app; [exact LXs_colon_space|]. apply LX_value; assumption.
Qed.

(* ====================================================================== *)
(* the loop over the data                                                 *)
(* ====================================================================== *)

Lemma str_eqb_eq : forall a b, str_eqb a b = true -> a = b.
Proof.
  induction a as [|x a IH]; intros [|y b] H; try discriminate; [reflexivity|].
  cbn [str_eqb] in H. apply andb_prop in H. destruct H as [H1 H2].
  apply N.eqb_eq in H1. subst y. f_equal. apply IH. exact H2.
Qed.

Definition pred_key (c : config) (d : datum) : str :=
  if in_anno_ns d then d_key d else into_iri (d_key d) (into_iri (d_set d) (c_set_iri c)).

(* what the loop appends for one data item *)
Definition opd (c : config) (d : datum) : str :=
  output_predicate_datavalue (pred_key c d) (d_val d) c.

Definition not_main (d : datum) : bool := negb (is_main d).

Definition dstate_of (c : config) (l : list datum) : dstate :=
  {| main_out := join [44] (map (opd c) (filter is_main l));
     body_out := join [44] (map (opd c) (filter not_main l));
     sup_type := has_anno_key [116; 121; 112; 101] (filter not_main l);
     sup_id := has_anno_key [105; 100] (filter not_main l);
     sup_generated := has_anno_key [103; 101; 110; 101; 114; 97; 116; 101; 100] l;
     sup_generator := has_anno_key [103; 101; 110; 101; 114; 97; 116; 111; 114] l;
     to_main := negb (is_nil (filter is_main l)) |}.

Lemma join_snoc sep : forall l x,
  join sep (l ++ [x]) = join sep l ++ (if is_nil l then [] else sep) ++ x.
Proof.
  induction l as [|y l IH]; intros x; [reflexivity|].
  destruct l as [|z l].
  - reflexivity.
  - change (join sep ((y :: z :: l) ++ [x])) with (y ++ sep ++ join sep ((z :: l) ++ [x])).
    rewrite IH. change (join sep (y :: z :: l)) with (y ++ sep ++ join sep (z :: l)).
    cbn [is_nil]. rewrite <- !app_assoc. reflexivity.
Qed.

Lemma opd_nonnil c d : is_nil (opd c d) = false.
Proof.
  unfold opd, output_predicate_datavalue, jstr. destruct (value_is_iri (d_val d)); reflexivity.
Qed.

Lemma join_is_nil sep : forall l : list str,
  Forall (fun x => is_nil x = false) l -> is_nil (join sep l) = is_nil l.
Proof.
  intros [|x l] H; [reflexivity|]. inversion H as [|? ? Hx _]; subst.
  destruct l; cbn [join is_nil]; [exact Hx|]. destruct x; [discriminate|reflexivity].
Qed.

Lemma body_out_is_nil c l : is_nil (join [44] (map (opd c) l)) = is_nil l.
Proof.
  rewrite join_is_nil; [destruct l; reflexivity|].
  apply Forall_map. apply Forall_forall. intros d _. apply opd_nonnil.
Qed.

Lemma has_anno_key_app k a b : has_anno_key k (a ++ b) = has_anno_key k a || has_anno_key k b.
Proof. apply existsb_app. Qed.

Lemma is_nil_app {X} (a b : list X) : is_nil (a ++ b) = is_nil a && is_nil b.
Proof. destruct a; reflexivity. Qed.

Lemma has_anno_key_one k d : has_anno_key k [d] = in_anno_ns d && str_eqb (d_key d) k.
Proof. unfold has_anno_key. cbn [existsb]. apply orb_false_r. Qed.

Lemma has_anno_key_nil k : has_anno_key k [] = false.
Proof. reflexivity. Qed.

Lemma sep_if (F : list datum) (f : datum -> str) :
  (if negb (is_nil F) then [44] else []) = (if is_nil (map f F) then [] else [44]).
Proof. destruct F; reflexivity. Qed.

Ltac step_fields EA :=
  unfold add_main, add_body;
  cbn [main_out body_out sup_type sup_id sup_generated sup_generator to_main];
  rewrite ?join_snoc, ?app_nil_r, ?has_anno_key_one, ?has_anno_key_nil, ?orb_false_r, ?body_out_is_nil, ?EA.

Lemma data_step_of c l d : data_step c (dstate_of c l) d = dstate_of c (l ++ [d]).
Proof.
  unfold dstate_of. rewrite !filter_app. cbn [filter].
  destruct (in_anno_ns d) eqn:EA.
  - assert (Hopd : output_predicate_datavalue (d_key d) (d_val d) c = opd c d)
      by (unfold opd, pred_key; rewrite EA; reflexivity).
    destruct (str_eqb (d_key d) [103; 101; 110; 101; 114; 97; 116; 101; 100]) eqn:E1.
    { assert (M : is_main d = true) by (unfold is_main, is_main_key; rewrite EA, E1; reflexivity).
      unfold not_main. rewrite M. cbn [negb]. rewrite !map_app, !has_anno_key_app. cbn [map].
      unfold data_step. rewrite EA, E1, Hopd. step_fields EA.
      pose proof (str_eqb_eq _ _ E1) as K. rewrite K. cbn [andb str_eqb N.eqb Pos.eqb].
      rewrite !orb_false_r, !orb_true_r. rewrite is_nil_app. cbn [is_nil]. rewrite andb_false_r.
      f_equal. rewrite (sep_if _ (opd c)). reflexivity. }
    destruct (str_eqb (d_key d) [103; 101; 110; 101; 114; 97; 116; 111; 114]) eqn:E2.
    { assert (M : is_main d = true) by (unfold is_main, is_main_key; rewrite EA, E1, E2; reflexivity).
      unfold not_main. rewrite M. cbn [negb]. rewrite !map_app, !has_anno_key_app. cbn [map].
      unfold data_step. rewrite EA, E1, E2, Hopd. step_fields EA.
      pose proof (str_eqb_eq _ _ E2) as K. rewrite K. cbn [andb str_eqb N.eqb Pos.eqb].
      rewrite !orb_false_r, !orb_true_r. rewrite is_nil_app. cbn [is_nil]. rewrite andb_false_r.
      f_equal. rewrite (sep_if _ (opd c)). reflexivity. }
    destruct (str_eqb (d_key d) [109; 111; 116; 105; 118; 97; 116; 105; 111; 110] ||
              str_eqb (d_key d) [99; 114; 101; 97; 116; 101; 100] ||
              str_eqb (d_key d) [99; 114; 101; 97; 116; 111; 114]) eqn:E3.
    { assert (M : is_main d = true).
      { unfold is_main, is_main_key. rewrite EA, E1, E2. cbn [orb andb]. exact E3. }
      unfold not_main. rewrite M. cbn [negb]. rewrite !map_app, !has_anno_key_app. cbn [map].
      unfold data_step. rewrite EA, E1, E2, E3, Hopd. step_fields EA.
      rewrite E1, E2. cbn [andb]. rewrite !orb_false_r. rewrite is_nil_app. cbn [is_nil]. rewrite andb_false_r.
      f_equal. rewrite (sep_if _ (opd c)). reflexivity. }
    { assert (M : is_main d = false).
      { unfold is_main, is_main_key. rewrite EA, E1, E2. cbn [orb andb]. exact E3. }
      unfold not_main. rewrite M. cbn [negb]. rewrite !map_app, !has_anno_key_app. cbn [map].
      unfold data_step. rewrite EA, E1, E2, E3, Hopd.
      unfold add_body. cbn [main_out body_out sup_type sup_id sup_generated sup_generator to_main].
      rewrite ?join_snoc, ?app_nil_r, ?has_anno_key_one, ?has_anno_key_nil, ?orb_false_r, ?body_out_is_nil, ?EA.
      rewrite E1, E2. cbn [andb]. rewrite !orb_false_r.
      f_equal. destruct (filter (fun d0 => negb (is_main d0)) l); reflexivity. }
  - assert (M : is_main d = false) by (unfold is_main; rewrite EA; reflexivity).
    assert (Hopd : output_predicate_datavalue (into_iri (d_key d) (into_iri (d_set d) (c_set_iri c))) (d_val d) c = opd c d)
      by (unfold opd, pred_key; rewrite EA; reflexivity).
    unfold not_main. rewrite M. cbn [negb]. rewrite !map_app, !has_anno_key_app. cbn [map].
    unfold data_step. rewrite EA, Hopd.
    unfold add_body. cbn [main_out body_out sup_type sup_id sup_generated sup_generator to_main].
    rewrite ?join_snoc, ?app_nil_r, ?has_anno_key_one, ?has_anno_key_nil, ?orb_false_r, ?body_out_is_nil, ?EA.
    cbn [andb]. rewrite !orb_false_r.
    f_equal. destruct (filter (fun d0 => negb (is_main d0)) l); reflexivity.
Qed.

Lemma fold_data c : forall l, fold_left (data_step c) l dstate0 = dstate_of c l.
Proof.
  induction l as [|d l IH] using rev_ind; [reflexivity|].
  rewrite fold_left_app. cbn [fold_left]. rewrite IH. apply data_step_of.
Qed.

(* ====================================================================== *)
(* fragments: a tactic for constant pieces, equality of token lists       *)
(* ====================================================================== *)

Lemma oapp_nil o : oapp [] o = o.
Proof. destruct o; reflexivity. Qed.

Lemma LXs_eq X a b : LXs X a -> a = b -> LXs X b.
Proof. intros H <-. exact H. Qed.

Lemma LX_eq X a b : LX X a -> a = b -> LX X b.
Proof. intros H <-. exact H. Qed.

(* a constant piece (ends outside any token); the token list may be an evar *)
Ltac lxc :=
  let rest := fresh "rest" in
  intros rest; cbn -[emit lex]; cbn -[emit];
  rewrite ?emit_oapp, ?oapp_oapp; cbn [app];
  first [reflexivity | symmetry; apply oapp_nil].

(* ====================================================================== *)
(* selectors                                                              *)
(* ====================================================================== *)

Section SelInd.
  Variable P : sel -> Prop.
  Hypothesis Htxt : forall r t, P (STxt r t).
  Hypothesis Hann : forall a o, P (SAnn a o).
  Hypothesis Hres : forall r, P (SRes r).
  Hypothesis Hset : forall d, P (SSet d).
  Hypothesis Hmulti : forall l, Forall P l -> P (SMulti l).
  Hypothesis Hcomp : forall l, Forall P l -> P (SComp l).
  Hypothesis Hdir : forall l, Forall P l -> P (SDir l).
  Hypothesis Hkey : P SKey.
  Hypothesis Hdata : P SData.
  Hypothesis Hrtxt : forall r b e, P (SRTxt r b e).
  Hypothesis Hrann : forall b e w, P (SRAnn b e w).

  Fixpoint sel_ind' (s : sel) : P s :=
    let go := fix go (l : list sel) : Forall P l :=
                match l with
                | [] => Forall_nil _
                | x :: l' => Forall_cons x (sel_ind' x) (go l')
                end in
    match s with
    | STxt r t => Htxt r t
    | SAnn a o => Hann a o
    | SRes r => Hres r
    | SSet d => Hset d
    | SMulti l => Hmulti l (go l)
    | SComp l => Hcomp l (go l)
    | SDir l => Hdir l (go l)
    | SKey => Hkey
    | SData => Hdata
    | SRTxt r b e => Hrtxt r b e
    | SRAnn b e w => Hrann b e w
    end.
End SelInd.

Definition tflag (c : config) (second has : bool) : bool :=
  is_some (c_template c) && negb second && has.

Section Selectors.
  Variable st : storev.
  Variable c : config.
  Hypothesis Hcfg : cfg_plain c = true.

  Lemma cfg_parts :
    plain (c_ann_iri c) = true /\ plain (c_set_iri c) = true /\ plain (c_res_iri c) = true
    /\ forallb plain (c_extra_context c) = true /\ oplain (c_generated c) = true
    /\ forallb (fun up => plain (fst up) && plain (snd up)) (c_namespaces c) = true
    /\ oplain (c_template c) = true.
  Proof.
    pose proof Hcfg as H. unfold cfg_plain in H.
    apply andb_prop in H. destruct H as [H H7]. apply andb_prop in H. destruct H as [H H6].
    apply andb_prop in H. destruct H as [H H5]. apply andb_prop in H. destruct H as [H H4].
    apply andb_prop in H. destruct H as [H H3]. apply andb_prop in H. destruct H as [H1 H2].
    repeat split; assumption.
  Qed.
  Lemma cfg_ann : plain (c_ann_iri c) = true. Proof. apply cfg_parts. Qed.
  Lemma cfg_set : plain (c_set_iri c) = true. Proof. apply cfg_parts. Qed.
  Lemma cfg_res : plain (c_res_iri c) = true. Proof. apply cfg_parts. Qed.
  Lemma cfg_tpl : oplain (c_template c) = true. Proof. apply cfg_parts. Qed.

  Lemma LXs_source iri b e :
    plain iri = true ->
    LXs (source_object iri b e)
        (tokens_of (JObj [([115; 111; 117; 114; 99; 101], JStr iri);
                          ([115; 101; 108; 101; 99; 116; 111; 114],
                           JObj [([116; 121; 112; 101], JStr [84; 101; 120; 116; 80; 111; 115; 105; 116; 105; 111; 110; 83; 101; 108; 101; 99; 116; 111; 114]);
                                 ([115; 116; 97; 114; 116], JNum (dec_nat b));
                                 ([101; 110; 100], JNum (dec_nat e))])])).
  Proof.
    intros Hi. unfold source_object. eapply LXs_eq.
    - eapply LXs_app; [lxc|]. eapply LXs_app; [apply LXs_q; exact Hi|].
      eapply LXs_app; [lxc|].
      eapply LX_LXs_app; [apply LX_num; apply dec_nat_number|exact eq_refl|].
      eapply LXs_app; [lxc|].
      eapply LX_LXs_app; [apply LX_num; apply dec_nat_number|exact eq_refl|]. lxc.
    - reflexivity.
  Qed.

  Lemma leaf_nested r t second j :
    leaf_json st c second r t = Some j ->
    exists text, out_text st c r t true second = Some (text, tflag c second true)
                 /\ is_nil text = false /\ LXs text (tokens_of j).
  Proof.
    unfold leaf_json, out_text, tflag. destruct (get_res st r) as [rv|]; [|discriminate].
    destruct (get_tsel rv t) as [[b e]|]; [|discriminate].
    assert (Hi : plain (into_iri (r_id rv) (c_res_iri c)) = true) by (apply into_iri_plain; apply cfg_res).
    destruct second.
    - pose proof cfg_tpl as Ht. destruct (c_template c) as [tpl|]; [|discriminate].
      intros E. injection E as <-. cbn [negb andb orb is_nil app]. rewrite !app_nil_r.
      eexists. split; [reflexivity|]. split; [reflexivity|].
      apply LXs_q. apply fill_template_plain; [exact Ht|exact Hi].
    - intros E. injection E as <-. cbn [negb andb orb]. rewrite andb_false_r. cbn [app].
      rewrite !andb_true_r. eexists. split; [reflexivity|]. split; [reflexivity|]. apply LXs_source. exact Hi.
  Qed.

  Lemma annref_ok a j :
    annref_json st c a = Some j ->
    exists text, out_annref st c a = Some text /\ is_nil text = false /\ LXs text (tokens_of j).
  Proof.
    unfold annref_json, out_annref. destruct (get_ann st a) as [av|]; [|discriminate].
    destruct (a_id av) as [i|]; intros E; injection E as <-; eexists; (split; [reflexivity|]); (split; [reflexivity|]).
    - eapply LXs_eq.
      + eapply LXs_app; [lxc|]. eapply LXs_app; [apply LXs_q; apply into_iri_plain; apply cfg_ann|lxc].
      + reflexivity.
    - eapply LXs_eq; [lxc|reflexivity].
  Qed.

  (* ---- lists of items ---- *)

  Lemma is_nil_false {X} (l : list X) : is_nil l = false -> l <> [].
  Proof. destruct l; [discriminate|discriminate]. Qed.

  (* the comma logic of the loops (push_item): a selector that contributes no item contributes
     no text and no separator; model results vs intended items, element by element *)
  Lemma join_items_rel {X} (f : X -> option (str * bool)) (g : X -> option (list json)) (h : X -> bool) second :
    forall l itss,
    (forall x its, In x l -> g x = Some its ->
       exists text, f x = Some (text, tflag c second (h x))
                    /\ is_nil text = is_nil its /\ LXs text (csv (map tokens_of its))) ->
    all_some (map g l) = Some itss ->
    exists text, join_items (map f l) = Some (text, tflag c second (existsb h l))
                 /\ is_nil text = is_nil (List.concat itss)
                 /\ LXs text (csv (map tokens_of (List.concat itss))).
  Proof.
    induction l as [|x l IH]; intros itss H E.
    - cbn in E. injection E as <-. exists []. split; [|split; [reflexivity|apply LXs_nil]].
      cbn. unfold tflag. rewrite andb_false_r. reflexivity.
    - cbn [map all_some] in E. destruct (g x) as [its|] eqn:Eg; [|discriminate].
      destruct (all_some (map g l)) as [itss'|] eqn:El; [|discriminate]. injection E as <-.
      destruct (H x its (or_introl eq_refl) Eg) as (tx & Hfx & Hnx & Hlx).
      destruct (IH itss' (fun y its' Hy => H y its' (or_intror Hy)) eq_refl) as (tl & Hfl & Hnl & Hll).
      cbn [map join_items]. rewrite Hfx, Hfl. cbn [List.concat].
      eexists. split; [|split].
      + f_equal. f_equal. cbn [existsb]. unfold tflag.
        destruct (is_some (c_template c)), second, (h x), (existsb h l); reflexivity.
      + rewrite is_nil_app, <- Hnx, <- Hnl. destruct (is_nil tx) eqn:E1; [reflexivity|].
        destruct (is_nil tl) eqn:E2; [rewrite E1; reflexivity|]. destruct tx; [discriminate|reflexivity].
      + destruct (is_nil tx) eqn:E1.
        * symmetry in Hnx. destruct its; [|discriminate]. exact Hll.
        * destruct (is_nil tl) eqn:E2.
          -- symmetry in Hnl. destruct (List.concat itss'); [|discriminate].
             rewrite app_nil_r. exact Hlx.
          -- rewrite map_app, csv_app_nonnil.
             ++ apply LXs_app; [exact Hlx|]. exact (LXs_app [44] tl [TComma] _ LXs_comma Hll).
             ++ symmetry in Hnx. destruct its; [discriminate|discriminate].
             ++ symmetry in Hnl. destruct (List.concat itss'); [discriminate|discriminate].
  Qed.

  Definition has_text (s : sel) : bool := negb (is_nil (sel_texts st s)).

  Lemma existsb_ext_in' {X} (f g : X -> bool) (l : list X) :
    (forall x, In x l -> f x = g x) -> existsb f l = existsb g l.
  Proof.
    induction l as [|x l IH]; intros H; [reflexivity|]. cbn [existsb].
    rewrite (H x (or_introl eq_refl)), IH; [reflexivity|]. intros y Hy. apply H. right. exact Hy.
  Qed.

  Lemma is_nil_flat_map {X Y} (f : X -> list Y) (l : list X) :
    negb (is_nil (flat_map f l)) = existsb (fun x => negb (is_nil (f x))) l.
  Proof.
    induction l as [|x l IH]; [reflexivity|]. cbn [flat_map existsb]. rewrite is_nil_app, negb_andb, IH. reflexivity.
  Qed.

  Lemma tflag_false second : tflag c second false = false.
  Proof. unfold tflag. apply andb_false_r. Qed.

  Lemma all_some_one {X} (g : X -> option json) : forall l js,
    all_some (map g l) = Some js ->
    all_some (map (fun x => match g x with Some j => Some [j] | None => None end) l)
    = Some (map (fun j => [j]) js).
  Proof.
    induction l as [|x l IH]; intros js E.
    - cbn in E. injection E as <-. reflexivity.
    - cbn [map all_some] in *. destruct (g x) as [j|]; [|discriminate].
      destruct (all_some (map g l)) as [js'|]; [|discriminate]. injection E as <-.
      rewrite (IH js' eq_refl). reflexivity.
  Qed.

  Lemma concat_singletons (js : list json) : List.concat (map (fun j => [j]) js) = js.
  Proof. induction js as [|j js IH]; [reflexivity|]. cbn. rewrite IH. reflexivity. Qed.

  Lemma ranged_no_text l :
    existsb (fun a => match ranged_ann_text st false a with Some (Some _) => true | _ => false end) l = false.
  Proof.
    induction l as [|a l IH]; [reflexivity|]. cbn [existsb]. rewrite IH.
    unfold ranged_ann_text. destruct (get_ann st a); reflexivity.
  Qed.

  (* the object of a complex selector, given its items *)
  Lemma complex_ok (ty : str) (l : list sel) second its :
    plain ty = true ->
    Forall (fun s => forall its,
                     items_json st c second s = Some its ->
                     exists text, output_selector st c true second s = Some (text, tflag c second (has_text s))
                                  /\ is_nil text = is_nil its /\ LXs text (csv (map tokens_of its))) l ->
    match all_some (map (items_json st c second) l) with
    | Some itss => Some [JObj [([116; 121; 112; 101], JStr ty); ([105; 116; 101; 109; 115], JArr (List.concat itss))]]
    | None => None
    end = Some its ->
    exists text,
      match join_items (map (output_selector st c true second) l) with
      | Some (items, n) =>
          Some ([123; 32; 34; 116; 121; 112; 101; 34; 58; 32] ++ q ty
                  ++ [44; 32; 34; 105; 116; 101; 109; 115; 34; 58; 32; 91] ++ items ++ [32; 93; 125], n)
      | None => None
      end = Some (text, tflag c second (existsb has_text l))
      /\ is_nil text = is_nil its /\ LXs text (csv (map tokens_of its)).
  Proof.
    intros Hty IH E.
    destruct (all_some (map (items_json st c second) l)) as [itss|] eqn:Ea; [|discriminate].
    injection E as <-.
    destruct (join_items_rel (output_selector st c true second) (items_json st c second) has_text second l itss)
      as (items & Hj & _ & Hl).
    { intros x its Hx Hg. rewrite Forall_forall in IH. apply (IH x Hx its). exact Hg. }
    { exact Ea. }
    rewrite Hj. eexists. split; [reflexivity|]. split; [reflexivity|].
    cbn [map csv]. eapply LXs_eq.
    - eapply LXs_app; [lxc|]. eapply LXs_app; [apply LXs_q; exact Hty|].
      eapply LXs_app; [lxc|]. eapply LXs_app; [exact Hl|lxc].
    - rewrite tokens_of_obj'. cbn [map csv]. unfold mem_tokens. cbn [fst snd]. rewrite tokens_of_arr'.
      cbn [app tokens_of]. rewrite <- !app_assoc. reflexivity.
  Qed.

  (* a selector below a complex selector: its text is the comma separated list of its items
     (none for a data key / data selector, which is skipped; several for a ranged selector) *)
  Lemma nested_sel : forall s second its,
    items_json st c second s = Some its ->
    exists text, output_selector st c true second s = Some (text, tflag c second (has_text s))
                 /\ is_nil text = is_nil its /\ LXs text (csv (map tokens_of its)).
  Proof.
    intros s second. induction s as [r t | a o | r | d | l IH | l IH | l IH | | | r b e | b e w] using sel_ind';
      intros its E.
    - (* TextSelector *)
      cbn [items_json] in E. destruct (leaf_json st c second r t) as [j|] eqn:El; [|discriminate].
      injection E as <-. destruct (leaf_nested r t second j El) as (text & H1 & H0 & H2).
      exists text. cbn [output_selector]. split; [exact H1|]. split; [exact H0|exact H2].
    - destruct o as [[r t]|].
      + cbn [items_json] in E. destruct (leaf_json st c second r t) as [j|] eqn:El; [|discriminate].
        injection E as <-. destruct (leaf_nested r t second j El) as (text & H1 & H0 & H2).
        exists text. cbn [output_selector]. split; [exact H1|]. split; [exact H0|exact H2].
      + cbn [items_json] in E. destruct (annref_json st c a) as [j|] eqn:El; [|discriminate].
        injection E as <-. destruct (annref_ok a j El) as (text & H1 & H0 & H2).
        exists text. cbn [output_selector]. rewrite H1. unfold has_text. cbn [sel_texts is_nil negb].
        rewrite tflag_false. split; [reflexivity|]. split; [exact H0|exact H2].
    - (* ResourceSelector *)
      cbn [items_json output_selector] in *. destruct (get_res st r) as [rv|]; [|discriminate].
      injection E as <-. unfold has_text. cbn [sel_texts is_nil negb]. rewrite tflag_false.
      eexists. split; [reflexivity|]. split; [reflexivity|].
      cbn [map csv]. eapply LXs_eq.
      + eapply LXs_app; [lxc|]. eapply LXs_app; [apply LXs_q; apply into_iri_plain; apply cfg_res|lxc].
      + reflexivity.
    - (* DataSetSelector *)
      cbn [items_json output_selector] in *. destruct (get_set st d) as [i|]; [|discriminate].
      injection E as <-. unfold has_text. cbn [sel_texts is_nil negb]. rewrite tflag_false.
      eexists. split; [reflexivity|]. split; [reflexivity|].
      cbn [map csv]. eapply LXs_eq.
      + eapply LXs_app; [lxc|]. eapply LXs_app; [apply LXs_q; apply into_iri_plain; apply cfg_res|lxc].
      + reflexivity.
    - (* Multi *)
      cbn [items_json] in E.
      unfold has_text. cbn [sel_texts]. rewrite is_nil_flat_map. cbn [output_selector].
      apply complex_ok; [reflexivity|exact IH|exact E].
    - cbn [items_json] in E.
      unfold has_text. cbn [sel_texts]. rewrite is_nil_flat_map. cbn [output_selector].
      apply complex_ok; [reflexivity|exact IH|exact E].
    - cbn [items_json] in E.
      unfold has_text. cbn [sel_texts]. rewrite is_nil_flat_map. cbn [output_selector].
      apply complex_ok; [reflexivity|exact IH|exact E].
    - (* DataKeySelector: skipped *)
      cbn in E. injection E as <-. exists []. unfold has_text. cbn [sel_texts is_nil negb output_selector].
      rewrite tflag_false. split; [reflexivity|]. split; [reflexivity|apply LXs_nil].
    - cbn in E. injection E as <-. exists []. unfold has_text. cbn [sel_texts is_nil negb output_selector].
      rewrite tflag_false. split; [reflexivity|]. split; [reflexivity|apply LXs_nil].
    - (* RangedTextSelector *)
      cbn [items_json output_selector] in *.
      pose proof (all_some_one (fun t => leaf_json st c second r t) _ _ E) as E1.
      assert (Hp : forall t its', In t (seq b (S e - b)) ->
                 match leaf_json st c second r t with Some j => Some [j] | None => None end = Some its' ->
                 exists text, out_text st c r t true second = Some (text, tflag c second true)
                              /\ is_nil text = is_nil its' /\ LXs text (csv (map tokens_of its'))).
      { intros t its' _ Hg. destruct (leaf_json st c second r t) as [j|] eqn:El; [|discriminate].
        injection Hg as <-. destruct (leaf_nested r t second j El) as (text & H1 & H0 & H2).
        exists text. split; [exact H1|]. split; [exact H0|exact H2]. }
      destruct (join_items_rel (fun t => out_text st c r t true second) _ (fun _ => true) second _ _ Hp E1)
        as (text & Hj & Hn & Hl).
      exists text. rewrite concat_singletons in Hl, Hn. split; [|split; [exact Hn|exact Hl]].
      rewrite Hj. f_equal. f_equal. f_equal. unfold has_text. cbn [sel_texts].
      destruct (seq b (S e - b)); reflexivity.
    - (* RangedAnnotationSelector *)
      cbn [items_json output_selector] in *.
      set (g := fun a => match ranged_ann_text st w a with
                         | Some (Some (r, t)) => leaf_json st c second r t
                         | Some None => annref_json st c a
                         | None => None
                         end) in E.
      pose proof (all_some_one g _ _ E) as E1.
      set (f := fun a => match get_ann st a with
                         | None => None
                         | Some av =>
                             match (if w then textselection_handle (a_target av) else None),
                                   resource_handle (a_target av) with
                             | Some t, Some r => out_text st c r t true second
                             | _, _ => match out_annref st c a with Some x => Some (x, false) | None => None end
                             end
                         end).
      set (h := fun a => match ranged_ann_text st w a with Some (Some _) => true | _ => false end).
      assert (Hp : forall a its', In a (seq b (S e - b)) ->
                 match g a with Some j => Some [j] | None => None end = Some its' ->
                 exists text, f a = Some (text, tflag c second (h a))
                              /\ is_nil text = is_nil its' /\ LXs text (csv (map tokens_of its'))).
      { intros a its' _ Hg. subst g f h. cbn beta in *. unfold ranged_ann_text in *.
        destruct (get_ann st a) as [av|]; [|discriminate].
        destruct w.
        - destruct (textselection_handle (a_target av)) as [t|], (resource_handle (a_target av)) as [r|].
          + destruct (leaf_json st c second r t) as [j|] eqn:El; [|discriminate].
            injection Hg as <-. destruct (leaf_nested r t second j El) as (text & H1 & H0 & H2).
            exists text. split; [exact H1|]. split; [exact H0|exact H2].
          + destruct (annref_json st c a) as [j|] eqn:El; [|discriminate].
            injection Hg as <-. destruct (annref_ok a j El) as (text & H1 & H0 & H2).
            exists text. rewrite H1, tflag_false. split; [reflexivity|]. split; [exact H0|exact H2].
          + destruct (annref_json st c a) as [j|] eqn:El; [|discriminate].
            injection Hg as <-. destruct (annref_ok a j El) as (text & H1 & H0 & H2).
            exists text. rewrite H1, tflag_false. split; [reflexivity|]. split; [exact H0|exact H2].
          + destruct (annref_json st c a) as [j|] eqn:El; [|discriminate].
            injection Hg as <-. destruct (annref_ok a j El) as (text & H1 & H0 & H2).
            exists text. rewrite H1, tflag_false. split; [reflexivity|]. split; [exact H0|exact H2].
        - destruct (annref_json st c a) as [j|] eqn:El; [|discriminate].
          injection Hg as <-. destruct (annref_ok a j El) as (text & H1 & H0 & H2).
          exists text. rewrite tflag_false.
          destruct (resource_handle (a_target av)); rewrite H1; (split; [reflexivity|]); (split; [exact H0|exact H2]). }
      destruct (join_items_rel f _ h second _ _ Hp E1) as (text & Hj & Hn & Hl). subst f h.
      exists text. rewrite concat_singletons in Hl, Hn. split; [|split; [exact Hn|exact Hl]].
      rewrite Hj. f_equal. f_equal. f_equal. unfold has_text.
      destruct w.
      + cbn [sel_texts]. rewrite is_nil_flat_map. apply existsb_ext_in'. intros a _.
        destruct (ranged_ann_text st true a) as [[rt|]|]; reflexivity.
      + cbn [sel_texts is_nil negb]. apply ranged_no_text.
  Qed.

  (* ---- the target member ---- *)

  Definition TARGET : str := [116; 97; 114; 103; 101; 116].

  Lemma leaf_top r t first :
    leaf_json st c false r t = Some first ->
    match c_template c with
    | Some _ =>
        exists second text,
          leaf_json st c true r t = Some second
          /\ out_text st c r t false false = Some (text, false)
          /\ LXs text (tokens_of (JArr [first; second]))
    | None =>
        exists text, out_text st c r t false false = Some (text, false) /\ LXs text (tokens_of first)
    end.
  Proof.
    unfold leaf_json, out_text. destruct (get_res st r) as [rv|]; [|discriminate].
    destruct (get_tsel rv t) as [[b e]|]; [|discriminate].
    assert (Hi : plain (into_iri (r_id rv) (c_res_iri c)) = true) by (apply into_iri_plain; apply cfg_res).
    intros E. injection E as <-. pose proof cfg_tpl as Ht.
    destruct (c_template c) as [tpl|]; cbn [is_some negb andb orb].
    - eexists. eexists. split; [reflexivity|]. split; [reflexivity|].
      cbn [is_nil app].
      match goal with |- LXs (91 :: (?X ++ 44 :: ?Y) ++ ?Z) _ =>
        change (91 :: (X ++ 44 :: Y) ++ Z) with ([91] ++ (X ++ [44] ++ Y) ++ Z) end.
      eapply LXs_eq.
      + eapply LXs_app; [lxc|]. eapply LXs_app; [|lxc]. eapply LXs_app; [apply LXs_source; exact Hi|].
        eapply LXs_app; [lxc|]. apply LXs_q; apply fill_template_plain; [exact Ht|exact Hi].
      + rewrite tokens_of_arr'. cbn [map csv app]. rewrite <- !app_assoc. reflexivity.
    - eexists. split; [reflexivity|]. cbn [app]. apply LXs_source. exact Hi.
  Qed.

  Lemma tflag_first has : tflag c false has = is_some (c_template c) && has.
  Proof. unfold tflag. rewrite andb_true_r. reflexivity. Qed.

  Lemma target_simple first text :
    LXs text (tokens_of first) ->
    LXs ([32; 34; 116; 97; 114; 103; 101; 116; 34; 58; 32] ++ text) (mem_tokens (TARGET, first)).
  Proof.
    intros H. unfold mem_tokens, TARGET. cbn [fst snd]. eapply LXs_eq.
    - eapply LXs_app; [lxc|exact H].
    - reflexivity.
  Qed.

  Lemma target_complex s first :
    is_complex s = true ->
    items_json st c false s = Some [first] ->
    forall tj,
    (if is_some (c_template c) && (is_text_leaf s || negb (is_nil (sel_texts st s)))
     then match items_json st c true s with Some [second] => Some (JArr [first; second]) | _ => None end
     else Some first) = Some tj ->
    exists text, target_text st c s = Some text /\ LXs text (mem_tokens (TARGET, tj)).
  Proof.
    intros Hc E1 tj E.
    assert (Hsame : forall second, output_selector st c false second s = output_selector st c true second s)
      by (intros second; destruct s; try discriminate; reflexivity).
    assert (Hleaf : is_text_leaf s = false) by (destruct s; try discriminate; reflexivity).
    rewrite Hleaf in E. cbn [orb] in E.
    destruct (nested_sel s false [first] E1) as (t1 & H1 & _ & L1).
    unfold target_text. rewrite Hsame, H1, tflag_first. fold (has_text s) in E.
    destruct (is_some (c_template c) && has_text s).
    - destruct (items_json st c true s) as [[|second [|]]|] eqn:E2; try discriminate.
      injection E as <-.
      destruct (nested_sel s true [second] E2) as (t2 & H2 & _ & L2).
      rewrite Hsame, H2. eexists. split; [reflexivity|].
      unfold mem_tokens, TARGET. cbn [fst snd map csv] in *. eapply LXs_eq.
      + eapply LXs_app; [lxc|]. eapply LXs_app; [exact L1|]. eapply LXs_app; [lxc|].
        eapply LXs_app; [exact L2|lxc].
      + rewrite tokens_of_arr'. cbn [map csv app]. rewrite <- !app_assoc. reflexivity.
    - injection E as <-. eexists. split; [reflexivity|]. apply target_simple. exact L1.
  Qed.

  Lemma target_ok s tj :
    target_json st c s = Some tj ->
    exists text, target_text st c s = Some text /\ LXs text (mem_tokens (TARGET, tj)).
  Proof.
    intros E.
    assert (Htext : forall r t,
              match leaf_json st c false r t with
              | Some j => Some [j] | None => None end
              = items_json st c false (STxt r t)) by reflexivity.
    destruct s as [r t | a [[r t]|] | r | d | l | l | l | | | r b e | b e w]; try discriminate.
    - (* TextSelector *)
      unfold target_json in E. cbn [items_json is_text_leaf orb] in E.
      destruct (leaf_json st c false r t) as [first|] eqn:E1; [|discriminate].
      pose proof (leaf_top r t first E1) as H. unfold target_text. cbn [output_selector].
      destruct (c_template c) as [tpl|]; cbn [is_some andb] in E.
      + destruct H as (second & text & E2 & Ho & L). rewrite E2 in E. injection E as <-.
        rewrite Ho. eexists. split; [reflexivity|]. apply target_simple. exact L.
      + destruct H as (text & Ho & L). injection E as <-. rewrite Ho.
        eexists. split; [reflexivity|]. apply target_simple. exact L.
    - (* AnnotationSelector with text *)
      unfold target_json in E. cbn [items_json is_text_leaf orb] in E.
      destruct (leaf_json st c false r t) as [first|] eqn:E1; [|discriminate].
      pose proof (leaf_top r t first E1) as H. unfold target_text. cbn [output_selector].
      destruct (c_template c) as [tpl|]; cbn [is_some andb] in E.
      + destruct H as (second & text & E2 & Ho & L). rewrite E2 in E. injection E as <-.
        rewrite Ho. eexists. split; [reflexivity|]. apply target_simple. exact L.
      + destruct H as (text & Ho & L). injection E as <-. rewrite Ho.
        eexists. split; [reflexivity|]. apply target_simple. exact L.
    - (* AnnotationSelector without text *)
      unfold target_json in E. cbn [items_json is_text_leaf sel_texts is_nil negb orb] in E.
      rewrite andb_false_r in E.
      destruct (annref_json st c a) as [first|] eqn:E1; [|discriminate]. injection E as <-.
      destruct (annref_ok a first E1) as (text & Ho & _ & L).
      unfold target_text. cbn [output_selector]. rewrite Ho.
      eexists. split; [reflexivity|]. apply target_simple. exact L.
    - (* ResourceSelector *)
      unfold target_json in E. cbn [is_text_leaf sel_texts is_nil negb orb] in E. rewrite andb_false_r in E.
      destruct (items_json st c false (SRes r)) as [[|first [|]]|] eqn:E1; try discriminate. injection E as <-.
      destruct (nested_sel (SRes r) false [first] E1) as (t1 & H1 & _ & L1).
      unfold target_text. change (output_selector st c false false (SRes r)) with (output_selector st c true false (SRes r)).
      rewrite H1. unfold has_text. cbn [sel_texts is_nil negb]. rewrite tflag_false.
      eexists. split; [reflexivity|]. apply target_simple. exact L1.
    - (* DataSetSelector *)
      unfold target_json in E. cbn [is_text_leaf sel_texts is_nil negb orb] in E. rewrite andb_false_r in E.
      destruct (items_json st c false (SSet d)) as [[|first [|]]|] eqn:E1; try discriminate. injection E as <-.
      destruct (nested_sel (SSet d) false [first] E1) as (t1 & H1 & _ & L1).
      unfold target_text. change (output_selector st c false false (SSet d)) with (output_selector st c true false (SSet d)).
      rewrite H1. unfold has_text. cbn [sel_texts is_nil negb]. rewrite tflag_false.
      eexists. split; [reflexivity|]. apply target_simple. exact L1.
    - unfold target_json in E.
      destruct (items_json st c false (SMulti l)) as [[|first [|]]|] eqn:E1; try discriminate.
      apply (target_complex (SMulti l) first eq_refl E1 tj E).
    - unfold target_json in E.
      destruct (items_json st c false (SComp l)) as [[|first [|]]|] eqn:E1; try discriminate.
      apply (target_complex (SComp l) first eq_refl E1 tj E).
    - unfold target_json in E.
      destruct (items_json st c false (SDir l)) as [[|first [|]]|] eqn:E1; try discriminate.
      apply (target_complex (SDir l) first eq_refl E1 tj E).
  Qed.

  (* ---- the @context ---- *)

  Lemma extra_ok : forall ex, forallb plain ex = true ->
    LXs (join [44; 32] (map q ex)) (csv (map (fun x => [TStr x]) ex)).
  Proof.
    intros ex H.
    replace (map q ex) with (map fst (map (fun x => (q x, [TStr x])) ex)) by (rewrite map_map; reflexivity).
    replace (map (fun x => [TStr x]) ex) with (map snd (map (fun x => (q x, [TStr x])) ex)) by (rewrite map_map; reflexivity).
    apply LXs_join; [exact LXs_comma_space|].
    apply Forall_map. apply Forall_forall. intros x Hx. cbn [fst snd]. apply LXs_q.
    rewrite forallb_forall in H. apply H. exact Hx.
  Qed.

  Definition ns_member (up : str * str) : list token := [TStr (snd up); TColon; TStr (fst up)].

  Lemma ns_tail_ok : forall ns,
    forallb (fun up => plain (fst up) && plain (snd up)) ns = true ->
    LXs (serialize_context_namespaces ns false) (flat_map (fun up => TComma :: ns_member up) ns).
  Proof.
    induction ns as [|[uri pre] ns IH]; intros H; [apply LXs_nil|].
    cbn [forallb fst snd] in H. apply andb_prop in H. destruct H as [H Hns].
    apply andb_prop in H. destruct H as [Hu Hp].
    cbn [serialize_context_namespaces flat_map]. unfold ns_member at 1. cbn [fst snd].
    eapply LXs_eq.
    - eapply LXs_app; [lxc|]. eapply LXs_app; [apply LXs_q; exact Hp|]. eapply LXs_app; [lxc|].
      eapply LXs_app; [apply LXs_q; exact Hu|apply IH; exact Hns].
    - reflexivity.
  Qed.

  Lemma ns_ok ns :
    forallb (fun up => plain (fst up) && plain (snd up)) ns = true ->
    LXs (serialize_context_namespaces ns true) (csv (map ns_member ns)).
  Proof.
    destruct ns as [|[uri pre] ns]; intros H; [apply LXs_nil|].
    cbn [forallb fst snd] in H. apply andb_prop in H. destruct H as [H Hns].
    apply andb_prop in H. destruct H as [Hu Hp].
    cbn [map]. rewrite csv_cons. cbn [serialize_context_namespaces]. unfold ns_member at 1. cbn [fst snd].
    eapply LXs_eq.
    - eapply LXs_app; [lxc|]. eapply LXs_app; [apply LXs_q; exact Hp|]. eapply LXs_app; [lxc|].
      eapply LXs_app; [apply LXs_q; exact Hu|apply ns_tail_ok; exact Hns].
    - rewrite flat_map_map. reflexivity.
  Qed.

  Lemma ns_json_tokens ns :
    tokens_of (JObj (map (fun up : str * str => (snd up, JStr (fst up))) ns))
    = TLBrace :: csv (map ns_member ns) ++ [TRBrace].
  Proof. rewrite tokens_of_obj', map_map. reflexivity. Qed.

  Lemma context_ok : LXs (serialize_context c) (tokens_of (context_json c)).
  Proof.
    destruct cfg_parts as (_ & _ & _ & Hex & _ & Hns & _).
    assert (HNS : tokens_of (namespaces_json c) = TLBrace :: csv (map ns_member (c_namespaces c)) ++ [TRBrace])
      by apply ns_json_tokens.
    unfold serialize_context, context_json, serialize_extra_context.
    destruct (c_extra_context c) as [|x ex] eqn:Eex; destruct (c_namespaces c) as [|up ns] eqn:Ens;
      cbn [is_nil negb].
    - apply LXs_q. reflexivity.
    - eapply LXs_eq.
      + eapply LXs_app; [lxc|]. eapply LXs_app; [apply LXs_q; reflexivity|]. eapply LXs_app; [lxc|].
        eapply LXs_app; [apply ns_ok; exact Hns|lxc].
      + rewrite tokens_of_arr'. cbn [map app csv]. rewrite HNS.
        cbn [app tokens_of]. rewrite <- !app_assoc. reflexivity.
    - eapply LXs_eq.
      + eapply LXs_app; [lxc|]. eapply LXs_app; [apply LXs_q; reflexivity|]. eapply LXs_app; [lxc|].
        eapply LXs_app; [apply (extra_ok (x :: ex)); exact Hex|lxc].
      + rewrite tokens_of_arr'. cbn [map]. rewrite !csv_cons. cbn [flat_map]. rewrite !flat_map_map.
        cbn [tokens_of app]. rewrite <- ?app_assoc. reflexivity.
    - eapply LXs_eq.
      + eapply LXs_app; [lxc|]. eapply LXs_app; [apply LXs_q; reflexivity|]. eapply LXs_app; [lxc|].
        eapply LXs_app; [apply (extra_ok (x :: ex)); exact Hex|]. eapply LXs_app; [lxc|].
        eapply LXs_app; [apply ns_ok; exact Hns|lxc].
      + set (NSL := csv (map ns_member (up :: ns))) in *.
        rewrite tokens_of_arr'. cbn [map]. rewrite !csv_cons. rewrite map_app. cbn [map flat_map].
        rewrite !flat_map_app. rewrite !flat_map_map. cbn [flat_map tokens_of app]. rewrite HNS.
        rewrite <- ?app_assoc. cbn [app]. rewrite !flat_map_map. rewrite app_nil_r. rewrite <- ?app_assoc.
        reflexivity.
  Qed.

  (* ---- the annotation object ---- *)

  (* members written with a trailing comma *)
  Definition trail (m : list (str * json)) : list token :=
    flat_map (fun kv => mem_tokens kv ++ [TComma]) m.

  Lemma trail_app a b : trail (a ++ b) = trail a ++ trail b.
  Proof. apply flat_map_app. Qed.

  Lemma tokens_of_obj_snoc pre kv :
    tokens_of (JObj (pre ++ [kv])) = TLBrace :: trail pre ++ mem_tokens kv ++ [TRBrace].
  Proof.
    rewrite tokens_of_obj', map_app. cbn [map]. rewrite csv_snoc, flat_map_map, <- app_assoc. reflexivity.
  Qed.

  Lemma csv_app_trail : forall (a b : list (str * json)), b <> [] ->
    csv (map mem_tokens (a ++ b)) = trail a ++ csv (map mem_tokens b).
  Proof.
    induction a as [|x a IH]; intros b Hb; [reflexivity|].
    cbn [app map]. destruct (a ++ b) as [|y r] eqn:E.
    - destruct a; [cbn in E; congruence|discriminate].
    - change (csv (mem_tokens x :: map mem_tokens (y :: r))) with (mem_tokens x ++ TComma :: csv (map mem_tokens (y :: r))).
      rewrite <- E, IH by exact Hb. unfold trail. cbn [flat_map]. rewrite <- !app_assoc. reflexivity.
  Qed.

  Lemma member_pred d :
    value_ok d = true -> LX (opd c d) (mem_tokens (member_of c d)).
  Proof.
    intros H. apply andb_prop in H. destruct H as [H1 H2]. apply LX_pred; assumption.
  Qed.

  (* predicates each followed by a comma *)
  Lemma mains_ok : forall ms, forallb value_ok ms = true ->
    LXs (flat_map (fun x => x ++ [44]) (map (opd c) ms)) (trail (map (member_of c) ms)).
  Proof.
    induction ms as [|d ms IH]; intros H; [apply LXs_nil|].
    cbn [forallb] in H. apply andb_prop in H. destruct H as [Hd Hms].
    cbn [map flat_map trail]. apply LXs_app; [|apply IH; exact Hms].
    apply LX_LXs_app; [apply member_pred; exact Hd|exact eq_refl|exact LXs_comma].
  Qed.

  Lemma join_trailing : forall l : list str,
    join [44] l ++ (if is_nil l then [] else [44]) = flat_map (fun x => x ++ [44]) l.
  Proof.
    induction l as [|x l IH]; [reflexivity|]. destruct l as [|y l].
    - cbn. rewrite app_nil_r. reflexivity.
    - change (join [44] (x :: y :: l)) with (x ++ [44] ++ join [44] (y :: l)).
      cbn [is_nil flat_map] in *. rewrite <- IH. rewrite <- !app_assoc. reflexivity.
  Qed.

  (* predicates separated by commas *)
  Lemma body_members_ok : forall bs, forallb value_ok bs = true ->
    LX (join [44] (map (opd c) bs)) (csv (map mem_tokens (map (member_of c) bs))).
  Proof.
    intros bs H.
    replace (map (opd c) bs) with (map fst (map (fun d => (opd c d, mem_tokens (member_of c d))) bs))
      by (rewrite map_map; reflexivity).
    replace (map mem_tokens (map (member_of c) bs))
      with (map snd (map (fun d => (opd c d, mem_tokens (member_of c d))) bs)) by (rewrite !map_map; reflexivity).
    apply LX_join; [exact LXs_comma|exact eq_refl|].
    apply Forall_map. apply Forall_forall. intros d Hd. cbn [fst snd]. apply member_pred.
    rewrite forallb_forall in H. apply H. exact Hd.
  Qed.

  Lemma forallb_filter {X} (f g : X -> bool) l : forallb f l = true -> forallb f (filter g l) = true.
  Proof.
    rewrite !forallb_forall. intros H x Hx. apply filter_In in Hx. apply H. apply Hx.
  Qed.

  Lemma LXs_app3 A B C D ta tb : LXs (A ++ B ++ C) ta -> LXs D tb -> LXs (A ++ B ++ C ++ D) (ta ++ tb).
  Proof.
    intros H1 H2. replace (A ++ B ++ C ++ D) with ((A ++ B ++ C) ++ D) by (rewrite <- !app_assoc; reflexivity).
    apply LXs_app; assumption.
  Qed.

  Theorem export_lex a av j :
    get_ann st a = Some av ->
    forallb value_ok (a_data av) = true ->
    export_ast st c a = Some j ->
    exists s, to_webannotation st c a = Some s /\ LXs s (tokens_of j).
  Proof.
    intros Ha Hv E. unfold export_ast in E. rewrite Ha in E.
    destruct (target_json st c (a_target av)) as [tj|] eqn:Et; [|discriminate].
    destruct (target_ok (a_target av) tj Et) as (ttext & Htt & Ltt).
    assert (Hacc : match a_target av with SKey | SData => False | _ => True end)
      by (destruct (a_target av); try exact I; discriminate).
    unfold to_webannotation. rewrite Ha, Htt.
    exists (head_text c av ++ ttext ++ [125]).
    split; [destruct (a_target av); try reflexivity; contradiction|].
    pose proof (f_equal (fun o => match o with Some x => x | None => JNull end) E) as Ej.
    cbv beta iota in Ej. subst j. clear E.
    destruct cfg_parts as (Hann & _ & _ & _ & Hgen & _ & _).
    rewrite tokens_of_obj_snoc. unfold pre_members. rewrite !trail_app.
    unfold head_text. rewrite fold_data. unfold dstate_of.
    cbn [main_out body_out sup_type sup_id sup_generated sup_generator to_main].
    fold not_main.
    set (mains := filter is_main (a_data av)).
    set (bodyd := filter not_main (a_data av)).
    assert (Hvm : forallb value_ok mains = true) by (apply forallb_filter; exact Hv).
    assert (Hvb : forallb value_ok bodyd = true) by (apply forallb_filter; exact Hv).
    rewrite body_out_is_nil.
    rewrite <- !app_assoc.
    match goal with |- LXs _ (TLBrace :: ?x) => change (TLBrace :: x) with ([TLBrace] ++ x) end.
    (* { "@context": ctx, *)
    rewrite (app_assoc [TLBrace]).
    apply LXs_app3.
    { eapply LXs_eq.
      - eapply LXs_app; [lxc|]. eapply LXs_app; [apply context_ok|lxc].
      - unfold trail, mem_tokens. cbn [flat_map fst snd app]. rewrite <- !app_assoc. reflexivity. }
    (* id *)
    apply LXs_app.
    { destruct (a_id av) as [i|]; [|apply LXs_nil]. eapply LXs_eq.
      - eapply LXs_app; [lxc|]. eapply LXs_app; [apply LXs_q; apply into_iri_plain; exact Hann|lxc].
      - reflexivity. }
    (* type *)
    apply LXs_app; [eapply LXs_eq; [lxc|reflexivity]|].
    (* main-level predicates *)
    rewrite (app_assoc (join [44] (map (opd c) mains))).
    apply LXs_app.
    { replace (if negb (is_nil mains) then [44] else []) with (if is_nil (map (opd c) mains) then [] else [44])
        by (destruct mains; reflexivity).
      rewrite join_trailing. apply mains_ok. exact Hvm. }
    (* generated *)
    apply LXs_app.
    { destruct (c_generated c) as [now|]; [|apply LXs_nil].
      destruct (has_anno_key _ (a_data av)); [apply LXs_nil|]. eapply LXs_eq.
      - eapply LXs_app; [lxc|]. eapply LXs_app; [apply LXs_q; exact Hgen|lxc].
      - reflexivity. }
    (* generator *)
    apply LXs_app.
    { destruct (c_generator c && negb (has_anno_key _ (a_data av))); [|apply LXs_nil].
      eapply LXs_eq; [unfold GENERATOR; lxc|reflexivity]. }
    (* body *)
    apply LXs_app.
    { destruct (is_nil bodyd) eqn:Eb; [apply LXs_nil|].
      assert (Hb : map (member_of c) bodyd <> []) by (destruct bodyd; [discriminate|discriminate]).
      unfold trail at 1. cbn [flat_map]. rewrite app_nil_r. unfold mem_tokens at 1. cbn [fst snd].
      rewrite tokens_of_obj'.
      match goal with |- LXs _ ((_ :: _ :: _ :: csv (map mem_tokens (?X ++ ?Y ++ ?Z)) ++ _) ++ _) =>
        rewrite (app_assoc X Y Z) end.
      rewrite (csv_app_trail _ _ Hb). rewrite trail_app.
      eapply LXs_eq.
      - eapply LXs_app; [lxc|].
        eapply LXs_app.
        { instantiate (1 := trail (if has_anno_key [116; 121; 112; 101] bodyd then []
                                    else [([116; 121; 112; 101], JStr [68; 97; 116; 97; 115; 101; 116])])).
          destruct (has_anno_key _ bodyd); [apply LXs_nil|]. eapply LXs_eq; [lxc|reflexivity]. }
        eapply LXs_app.
        { instantiate (1 := trail (if has_anno_key [105; 100] bodyd then []
                                    else match match a_id av with Some i => Some (into_iri i (c_ann_iri c)) | None => None end with
                                         | Some i => [([105; 100], JStr (i ++ [47; 98; 111; 100; 121]))]
                                         | None => []
                                         end)).
          destruct (has_anno_key _ bodyd); [apply LXs_nil|].
          destruct (a_id av) as [i|]; [|apply LXs_nil]. eapply LXs_eq.
          - eapply LXs_app; [lxc|]. eapply LXs_app; [|lxc].
            apply LXs_q. rewrite plain_app. rewrite into_iri_plain by exact Hann. reflexivity.
          - reflexivity. }
        eapply LX_LXs_app; [apply body_members_ok; exact Hvb|exact eq_refl|lxc].
      - cbn [app]. rewrite <- !app_assoc. reflexivity. }
    (* target and the closing brace *)
    apply LXs_app; [exact Ltt|lxc].
  Qed.
End Selectors.

(* ====================================================================== *)
(* the property on the model                                              *)
(* ====================================================================== *)

Theorem export_parses st c a av j :
  cfg_plain c = true ->
  get_ann st a = Some av ->
  forallb (value_ok) (a_data av) = true ->
  export_ast st c a = Some j ->
  exists s, to_webannotation st c a = Some s /\ parse_json s = Some j /\ is_object j = true.
Proof.
  intros Hc Ha Hv E.
  destruct (export_lex st c Hc a av j Ha Hv E) as (s & Hs & L).
  exists s. split; [exact Hs|]. split.
  - apply parse_json_of_lex. apply LX_lex. apply LXs_LX. exact L.
  - unfold export_ast in E. rewrite Ha in E. destruct (target_json st c (a_target av)); [|discriminate].
    injection E as <-. reflexivity.
Qed.

(* ====================================================================== *)
(* content: integers read back as themselves                              *)
(* ====================================================================== *)

Definition dstep (a c : N) : N := a * 10 + (c - 48).

Lemma digits_val_acc : forall d acc,
  fold_left dstep (uint_chars d) (N.pos acc) = N.pos (Pos.of_uint_acc d acc).
Proof.
  induction d; intros acc; cbn [uint_chars fold_left Pos.of_uint_acc]; [reflexivity|..];
    (etransitivity; [|apply IHd]); f_equal; unfold dstep; lia.
Qed.

Lemma digits_val_uint : forall d, fold_left dstep (uint_chars d) 0 = Pos.of_uint d.
Proof.
  induction d; cbn [uint_chars fold_left Pos.of_uint]; [reflexivity|exact IHd|..];
    (etransitivity; [|apply digits_val_acc]); reflexivity.
Qed.

Lemma digits_val_dec_N n : digits_val (dec_N n) = n.
Proof.
  unfold digits_val, dec_N. change (fun a c : N => a * 10 + (c - 48)) with dstep.
  rewrite digits_val_uint. apply (DecimalN.Unsigned.of_to n).
Qed.

Theorem num_int_dec_Z z : num_int (dec_Z z) = Some z.
Proof.
  unfold dec_Z. destruct (z <? 0)%Z eqn:E.
  - cbn [num_int]. change (45 =? 45) with true. cbv iota.
    rewrite dec_N_digits. destruct (int_shape_head _ (dec_N_shape (Z.abs_N z))) as (c & r & Hs & _).
    rewrite Hs at 1. cbn [is_nil negb andb]. rewrite digits_val_dec_N. f_equal.
    apply Z.ltb_lt in E. lia.
  - destruct (int_shape_head _ (dec_N_shape (Z.abs_N z))) as (c & r & Hs & Hc).
    unfold num_int. rewrite Hs at 1. rewrite (digit_not_minus _ Hc).
    rewrite dec_N_digits, digits_val_dec_N. f_equal. apply Z.ltb_ge in E. lia.
Qed.

(* ====================================================================== *)
(* the intended tree carries the annotation's text targets and data       *)
(* ====================================================================== *)

Section Fidelity.
  Variable st : storev.
  Variable c : config.

  Definition resolve (rt : nat * nat) : option (str * json * json) :=
    match get_res st (fst rt) with
    | Some rv =>
        match get_tsel rv (snd rt) with
        | Some (b, e) => Some (res_iri c rv, JNum (dec_nat b), JNum (dec_nat e))
        | None => None
        end
    | None => None
    end.

  Lemma abs_targets_resolve s : abs_targets st c s = all_some (map resolve (sel_texts st s)).
  Proof. reflexivity. Qed.

  Lemma all_some_app {X} : forall (a b : list (option X)) xa xb,
    all_some a = Some xa -> all_some b = Some xb -> all_some (a ++ b) = Some (xa ++ xb).
  Proof.
    induction a as [|o a IH]; intros b xa xb Ha Hb.
    - cbn in Ha. injection Ha as <-. exact Hb.
    - cbn [all_some app] in *. destruct o; [|discriminate]. destruct (all_some a) eqn:E; [|discriminate].
      injection Ha as <-. rewrite (IH b l xb eq_refl Hb). reflexivity.
  Qed.

  Lemma leaf_targets r t j :
    leaf_json st c false r t = Some j ->
    exists x, resolve (r, t) = Some x /\ targets j = [x].
  Proof.
    unfold leaf_json, resolve. cbn [fst snd]. destruct (get_res st r) as [rv|]; [|discriminate].
    destruct (get_tsel rv t) as [[b e]|]; [|discriminate]. intros E. injection E as <-.
    eexists. split; reflexivity.
  Qed.

  Lemma leaf_targets_second r t j : leaf_json st c true r t = Some j -> targets j = [].
  Proof.
    unfold leaf_json. destruct (get_res st r) as [rv|]; [|discriminate].
    destruct (get_tsel rv t) as [[b e]|]; [|discriminate].
    destruct (c_template c); [|discriminate]. intros E. injection E as <-. reflexivity.
  Qed.

  Lemma annref_targets a j : annref_json st c a = Some j -> targets j = [].
  Proof.
    unfold annref_json. destruct (get_ann st a) as [av|]; [|discriminate].
    destruct (a_id av); intros E; injection E as <-; reflexivity.
  Qed.

  Lemma flat_map_concat {X Y} (f : X -> list Y) (ll : list (list X)) :
    flat_map f (List.concat ll) = List.concat (map (flat_map f) ll).
  Proof.
    induction ll as [|l ll IH]; [reflexivity|]. cbn [List.concat map]. rewrite flat_map_app, IH. reflexivity.
  Qed.

  Lemma complex_targets : forall l itss,
    Forall (fun s => forall its, items_json st c false s = Some its ->
                     all_some (map resolve (sel_texts st s)) = Some (flat_map targets its)) l ->
    all_some (map (items_json st c false) l) = Some itss ->
    all_some (map resolve (flat_map (sel_texts st) l)) = Some (flat_map targets (List.concat itss)).
  Proof.
    induction l as [|s l IHl]; intros itss IH Ea.
    - cbn in Ea. injection Ea as <-. reflexivity.
    - inversion IH as [|? ? Hs Hl]; subst. cbn [map all_some] in Ea.
      destruct (items_json st c false s) as [its|] eqn:Es; [|discriminate].
      destruct (all_some (map (items_json st c false) l)) as [itss'|] eqn:El; [|discriminate].
      injection Ea as <-. cbn [flat_map List.concat]. rewrite map_app, flat_map_app.
      apply all_some_app; [apply Hs; reflexivity|apply IHl; [exact Hl|reflexivity]].
  Qed.

  Lemma complex_targets_second : forall l itss,
    Forall (fun s => forall its, items_json st c true s = Some its -> flat_map targets its = []) l ->
    all_some (map (items_json st c true) l) = Some itss ->
    flat_map targets (List.concat itss) = [].
  Proof.
    induction l as [|s l IHl]; intros itss IH Ea.
    - cbn in Ea. injection Ea as <-. reflexivity.
    - inversion IH as [|? ? Hs Hl]; subst. cbn [map all_some] in Ea.
      destruct (items_json st c true s) as [its|] eqn:Es; [|discriminate].
      destruct (all_some (map (items_json st c true) l)) as [itss'|] eqn:El; [|discriminate].
      injection Ea as <-. cbn [List.concat]. rewrite flat_map_app, (Hs its eq_refl), (IHl itss' Hl eq_refl). reflexivity.
  Qed.

  (* first form: the source objects are exactly the resolved text selections, in order *)
  Lemma items_targets : forall s its,
    items_json st c false s = Some its ->
    all_some (map resolve (sel_texts st s)) = Some (flat_map targets its).
  Proof.
    induction s as [r t | a o | r | d | l IH | l IH | l IH | | | r b e | b e w] using sel_ind'; intros its E.
    - cbn [items_json] in E. destruct (leaf_json st c false r t) as [j|] eqn:El; [|discriminate].
      injection E as <-. destruct (leaf_targets r t j El) as (x & Hx & Ht).
      cbn [sel_texts map all_some flat_map]. rewrite Hx, Ht. reflexivity.
    - destruct o as [[r t]|]; cbn [items_json] in E.
      + destruct (leaf_json st c false r t) as [j|] eqn:El; [|discriminate].
        injection E as <-. destruct (leaf_targets r t j El) as (x & Hx & Ht).
        cbn [sel_texts map all_some flat_map]. rewrite Hx, Ht. reflexivity.
      + destruct (annref_json st c a) as [j|] eqn:El; [|discriminate]. injection E as <-.
        cbn [sel_texts map all_some flat_map]. rewrite (annref_targets a j El). reflexivity.
    - cbn [items_json] in E. destruct (get_res st r); [|discriminate]. injection E as <-. reflexivity.
    - cbn [items_json] in E. destruct (get_set st d); [|discriminate]. injection E as <-. reflexivity.
    - cbn [items_json] in E.
      destruct (all_some (map (items_json st c false) l)) as [itss|] eqn:Ea; [|discriminate]. injection E as <-.
      cbn [sel_texts]. cbn. rewrite ?app_nil_r. apply complex_targets; assumption.
    - cbn [items_json] in E.
      destruct (all_some (map (items_json st c false) l)) as [itss|] eqn:Ea; [|discriminate]. injection E as <-.
      cbn [sel_texts]. cbn. rewrite ?app_nil_r. apply complex_targets; assumption.
    - cbn [items_json] in E.
      destruct (all_some (map (items_json st c false) l)) as [itss|] eqn:Ea; [|discriminate]. injection E as <-.
      cbn [sel_texts]. cbn. rewrite ?app_nil_r. apply complex_targets; assumption.
    - cbn in E. injection E as <-. reflexivity.
    - cbn in E. injection E as <-. reflexivity.
    - cbn [items_json sel_texts] in *. revert its E. induction (seq b (S e - b)) as [|t l IHl]; intros its E.
      + cbn in E. injection E as <-. reflexivity.
      + cbn [map all_some] in E. destruct (leaf_json st c false r t) as [j|] eqn:El; [|discriminate].
        destruct (all_some (map (fun t0 => leaf_json st c false r t0) l)) as [js|] eqn:Ea; [|discriminate].
        injection E as <-. destruct (leaf_targets r t j El) as (x & Hx & Ht).
        cbn [map all_some flat_map]. rewrite Hx, (IHl js eq_refl), Ht. reflexivity.
    - cbn [items_json] in E. destruct w.
      + cbn [sel_texts]. revert its E. induction (seq b (S e - b)) as [|a l IHl]; intros its E.
        * cbn in E. injection E as <-. reflexivity.
        * cbn [map all_some] in E.
          destruct (ranged_ann_text st true a) as [[[r t]|]|] eqn:Er; try discriminate.
          -- destruct (leaf_json st c false r t) as [j|] eqn:El; [|discriminate].
             match type of E with match ?X with _ => _ end = _ => destruct X as [js|] eqn:Ea; [|discriminate] end.
             injection E as <-. destruct (leaf_targets r t j El) as (x & Hx & Ht).
             cbn [flat_map]. rewrite Er. cbn [app map all_some]. rewrite Hx.
             rewrite (IHl js eq_refl), Ht. reflexivity.
          -- destruct (annref_json st c a) as [j|] eqn:El; [|discriminate].
             match type of E with match ?X with _ => _ end = _ => destruct X as [js|] eqn:Ea; [|discriminate] end.
             injection E as <-. cbn [flat_map]. rewrite Er. cbn [app].
             rewrite (IHl js eq_refl), (annref_targets a j El). reflexivity.
      + cbn [sel_texts map all_some]. revert its E. induction (seq b (S e - b)) as [|a l IHl]; intros its E.
        * cbn in E. injection E as <-. reflexivity.
        * cbn [map all_some] in E. unfold ranged_ann_text in E at 1.
          destruct (get_ann st a) as [av|] eqn:Ea; [|discriminate].
          destruct (annref_json st c a) as [j|] eqn:El; [|discriminate].
          match type of E with match ?X with _ => _ end = _ => destruct X as [js|] eqn:Ea2; [|discriminate] end.
          injection E as <-. cbn [flat_map]. rewrite (annref_targets a j El). apply (IHl js eq_refl).
  Qed.

  (* second form: no source object at all *)
  Lemma items_targets_second : forall s its,
    items_json st c true s = Some its -> flat_map targets its = [].
  Proof.
    induction s as [r t | a o | r | d | l IH | l IH | l IH | | | r b e | b e w] using sel_ind'; intros its E.
    - cbn [items_json] in E. destruct (leaf_json st c true r t) as [j|] eqn:El; [|discriminate].
      injection E as <-. cbn [flat_map]. rewrite (leaf_targets_second r t j El). reflexivity.
    - destruct o as [[r t]|]; cbn [items_json] in E.
      + destruct (leaf_json st c true r t) as [j|] eqn:El; [|discriminate].
        injection E as <-. cbn [flat_map]. rewrite (leaf_targets_second r t j El). reflexivity.
      + destruct (annref_json st c a) as [j|] eqn:El; [|discriminate]. injection E as <-.
        cbn [flat_map]. rewrite (annref_targets a j El). reflexivity.
    - cbn [items_json] in E. destruct (get_res st r); [|discriminate]. injection E as <-. reflexivity.
    - cbn [items_json] in E. destruct (get_set st d); [|discriminate]. injection E as <-. reflexivity.
    - cbn [items_json] in E.
      destruct (all_some (map (items_json st c true) l)) as [itss|] eqn:Ea; [|discriminate]. injection E as <-.
      cbn. rewrite ?app_nil_r. apply (complex_targets_second l itss IH Ea).
    - cbn [items_json] in E.
      destruct (all_some (map (items_json st c true) l)) as [itss|] eqn:Ea; [|discriminate]. injection E as <-.
      cbn. rewrite ?app_nil_r. apply (complex_targets_second l itss IH Ea).
    - cbn [items_json] in E.
      destruct (all_some (map (items_json st c true) l)) as [itss|] eqn:Ea; [|discriminate]. injection E as <-.
      cbn. rewrite ?app_nil_r. apply (complex_targets_second l itss IH Ea).
    - cbn in E. injection E as <-. reflexivity.
    - cbn in E. injection E as <-. reflexivity.
    - cbn [items_json] in E. revert its E. induction (seq b (S e - b)) as [|t l IHl]; intros its E.
      + cbn in E. injection E as <-. reflexivity.
      + cbn [map all_some] in E. destruct (leaf_json st c true r t) as [j|] eqn:El; [|discriminate].
        destruct (all_some (map (fun t0 => leaf_json st c true r t0) l)) as [js|] eqn:Ea; [|discriminate].
        injection E as <-. cbn [flat_map]. rewrite (leaf_targets_second r t j El), (IHl js eq_refl). reflexivity.
    - cbn [items_json] in E. revert its E. induction (seq b (S e - b)) as [|a l IHl]; intros its E.
      + cbn in E. injection E as <-. reflexivity.
      + cbn [map all_some] in E.
        destruct (ranged_ann_text st w a) as [[[r t]|]|]; try discriminate.
        * destruct (leaf_json st c true r t) as [j|] eqn:El; [|discriminate].
          match type of E with match ?X with _ => _ end = _ => destruct X as [js|] eqn:Ea; [|discriminate] end.
          injection E as <-. cbn [flat_map]. rewrite (leaf_targets_second r t j El), (IHl js eq_refl). reflexivity.
        * destruct (annref_json st c a) as [j|] eqn:El; [|discriminate].
          match type of E with match ?X with _ => _ end = _ => destruct X as [js|] eqn:Ea; [|discriminate] end.
          injection E as <-. cbn [flat_map]. rewrite (annref_targets a j El), (IHl js eq_refl). reflexivity.
  Qed.

  Theorem targets_faithful s tj :
    target_json st c s = Some tj -> abs_targets st c s = Some (targets tj).
  Proof.
    intros E. rewrite abs_targets_resolve. unfold target_json in E.
    assert (G : forall first,
               items_json st c false s = Some [first] ->
               (if is_some (c_template c) && (is_text_leaf s || negb (is_nil (sel_texts st s)))
                then match items_json st c true s with Some [second] => Some (JArr [first; second]) | _ => None end
                else Some first) = Some tj ->
               all_some (map resolve (sel_texts st s)) = Some (targets tj)).
    { intros first E1 E2. pose proof (items_targets s [first] E1) as H1. cbn [flat_map] in H1. rewrite app_nil_r in H1.
      destruct (is_some (c_template c) && (is_text_leaf s || negb (is_nil (sel_texts st s)))).
      - destruct (items_json st c true s) as [[|second [|]]|] eqn:E3; try discriminate. injection E2 as <-.
        pose proof (items_targets_second s [second] E3) as H2. cbn [flat_map] in H2. rewrite app_nil_r in H2.
        cbn [targets flat_map]. rewrite H2, !app_nil_r. exact H1.
      - injection E2 as <-. exact H1. }
    destruct s; try discriminate;
      (destruct (items_json st c false _) as [[|first [|]]|] eqn:E1; try discriminate; apply (G first eq_refl E)).
  Qed.

  (* every data item is a member of the annotation object or of its body, under its predicate name *)
  Theorem data_faithful av d :
    In d (a_data av) ->
    (is_main d = true /\ In (member_of c d) (pre_members c av))
    \/ (is_main d = false /\ exists bm, In ([98; 111; 100; 121], JObj bm) (pre_members c av) /\ In (member_of c d) bm).
  Proof.
    intros Hd. unfold pre_members. destruct (is_main d) eqn:Em.
    - left. split; [reflexivity|]. rewrite !in_app_iff. right. right. right. left.
      apply in_map. apply filter_In. split; assumption.
    - right. split; [reflexivity|].
      set (bodyd := filter (fun d0 => negb (is_main d0)) (a_data av)).
      assert (Hb : In d bodyd) by (apply filter_In; split; [exact Hd|rewrite Em; reflexivity]).
      destruct (is_nil bodyd) eqn:En; [destruct bodyd; [contradiction|discriminate]|].
      eexists. split.
      + rewrite !in_app_iff. do 6 right. left. reflexivity.
      + rewrite !in_app_iff. right. right. apply in_map. exact Hb.
  Qed.
End Fidelity.

(* ====================================================================== *)
(* without duplicate names, a reader that keeps one member per name sees  *)
(* the same tree as one that groups them                                  *)
(* ====================================================================== *)

Lemma ins_member_map (f : json -> json) k v : forall acc,
  ins_member k (f v) (map (fun kvs => (fst kvs, map f (snd kvs))) acc)
  = map (fun kvs => (fst kvs, map f (snd kvs))) (ins_member k v acc).
Proof.
  induction acc as [|[k' vs] acc IH]; [reflexivity|].
  cbn [map ins_member fst snd]. destruct (str_eqb k k').
  - cbn [map fst snd]. rewrite map_app. reflexivity.
  - destruct (str_ltb k k'); cbn [map fst snd]; [reflexivity|]. rewrite IH. reflexivity.
Qed.

Lemma group_members_map (f : json -> json) m :
  group_members (map (fun kv => (fst kv, f (snd kv))) m)
  = map (fun kvs => (fst kvs, map f (snd kvs))) (group_members m).
Proof.
  unfold group_members.
  change (@nil (str * list json)) with (map (fun kvs : str * list json => (fst kvs, map f (snd kvs))) []) at 1.
  generalize (@nil (str * list json)) as acc.
  induction m as [|[k v] m IH]; intros acc; [reflexivity|].
  cbn [map fold_left fst snd]. rewrite ins_member_map. apply IH.
Qed.

Theorem norm_no_duplicates : forall j, has_dup_keys j = false -> norm false j = norm true j.
Proof.
  induction j as [| b | l | s | l IH | m IH] using json_ind'; intros H; try reflexivity.
  - cbn [norm]. f_equal. cbn [has_dup_keys] in H. apply map_ext_in. intros v Hv.
    rewrite Forall_forall in IH. apply IH; [exact Hv|].
    destruct (has_dup_keys v) eqn:E; [|reflexivity].
    assert (existsb has_dup_keys l = true) by (apply existsb_exists; exists v; split; assumption). congruence.
  - cbn [has_dup_keys] in H. apply orb_false_iff in H. destruct H as [H1 H2].
    cbn [norm]. f_equal.
    assert (Em : map (fun kv => (fst kv, norm false (snd kv))) m = map (fun kv => (fst kv, norm true (snd kv))) m).
    { apply map_ext_in. intros kv Hkv. f_equal. rewrite Forall_forall in IH. apply IH; [exact Hkv|].
      destruct (has_dup_keys (snd kv)) eqn:E; [|reflexivity].
      assert (existsb (fun kv0 => has_dup_keys (snd kv0)) m = true) by (apply existsb_exists; exists kv; split; assumption).
      congruence. }
    rewrite Em. rewrite (group_members_map (norm true) m).
    apply map_ext_in. intros kvs Hin. f_equal.
    apply in_map_iff in Hin. destruct Hin as (kvs0 & <- & Hin0). cbn [snd].
    assert (Hs : match snd kvs0 with [_] => false | _ => true end = false).
    { destruct (match snd kvs0 with [_] => false | _ => true end) eqn:E; [|reflexivity].
      assert (existsb (fun kvs => match snd kvs with [_] => false | _ => true end) (group_members m) = true)
        by (apply existsb_exists; exists kvs0; split; assumption).
      congruence. }
    destruct (snd kvs0) as [|v [|w r]]; try discriminate. reflexivity.
Qed.
