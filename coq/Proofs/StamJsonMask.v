(* C05, sub-stores: the store restricted to the documents up to rank k (the items of later
   documents taken out).  For an arranged store (natural order, every document closed under
   references) the restriction is well-formed and its observation is the observation of the
   store, restricted. *)
From Coq Require Import String Ascii.
From Coq Require Import List NArith ZArith Bool Arith Lia.
From Stam Require Import Base.Tac Model.Offset Model.Json Model.TempId Proofs.TempId
     Model.StamJson Spec.StamJsonSpec Proofs.StamJson Proofs.StamJsonLoad Proofs.StamJsonWhole Proofs.StamJsonSub.
Import ListNotations.

(** * masking a slot list *)
Definition mask_list {X} (kp : nat -> bool) (l : list (option X)) : list (option X) :=
  map (fun p => if kp (fst p) then snd p else None) (combine (seq 0 (length l)) l).

Lemma slot_mask_gen {X} (kp : nat -> bool) (l : list (option X)) : forall k h,
  slot (map (fun p => if kp (fst p) then snd p else None) (combine (seq k (length l)) l)) h
  = if kp (k + h) then slot l h else None.
Proof.
  unfold slot. induction l as [|x l IH]; intros k [|h]; cbn [length seq combine map nth].
  - destruct (kp _); reflexivity.
  - destruct (kp _); reflexivity.
  - rewrite Nat.add_0_r. reflexivity.
  - rewrite IH. replace (S k + h) with (k + S h) by lia. reflexivity.
Qed.

Lemma slot_mask {X} (kp : nat -> bool) (l : list (option X)) h :
  slot (mask_list kp l) h = if kp h then slot l h else None.
Proof. apply (slot_mask_gen kp l 0 h). Qed.

Lemma live_mask_gen {X} (kp : nat -> bool) (l : list (option X)) : forall k,
  live_from k (map (fun p => if kp (fst p) then snd p else None) (combine (seq k (length l)) l))
  = filter (fun p => kp (fst p)) (live_from k l).
Proof.
  induction l as [|[x|] l IH]; intros k; cbn [length seq combine map live_from filter fst snd]; [reflexivity| |].
  - destruct (kp k); cbn [live_from]; rewrite IH; reflexivity.
  - destruct (kp k); cbn [live_from]; apply IH.
Qed.

Lemma live_mask {X} (kp : nat -> bool) (l : list (option X)) :
  live (mask_list kp l) = filter (fun p => kp (fst p)) (live l).
Proof. apply (live_mask_gen kp l 0). Qed.

Lemma length_mask {X} (kp : nat -> bool) (l : list (option X)) : length (mask_list kp l) = length l.
Proof. unfold mask_list. rewrite map_length, combine_length, seq_length, Nat.min_id. reflexivity. Qed.

(** * the restricted store *)
Definition keep (n k : nat) (own : list (option nat)) (h : nat) : bool := rank n (owner_of own h) <=? k.

Definition mask (s : dstore) (ow : owners) (k : nat) : dstore :=
  let n := length (ow_subs ow) in
  mkdstore (st_id s) (mask_list (keep n k (ow_res ow)) (st_ress s)) (mask_list (keep n k (ow_set ow)) (st_sets s))
           (mask_list (keep n k (ow_ann ow)) (st_anns s)).

(** * sub-lists keep distinctness *)
Lemma NoDup_app_iff {A} (a b : list A) : NoDup (a ++ b) <-> NoDup a /\ NoDup b /\ (forall x, In x a -> ~ In x b).
Proof.
  induction a as [|x a IH]; cbn.
  - split; [intros H; repeat split; [constructor|exact H|intros y []]|intros (_ & H & _); exact H].
  - rewrite !NoDup_cons_iff, IH, in_app_iff. split.
    + intros (Hn & Ha & Hb & Hd). repeat split; try assumption; try tauto.
      intros y [->|Hy]; [tauto|apply Hd; exact Hy].
    + intros ((Hn & Ha) & Hb & Hd). repeat split; try assumption.
      * intros [H|H]; [tauto|]. apply (Hd x); [left; reflexivity|exact H].
      * intros y Hy. apply Hd. right. exact Hy.
Qed.

Lemma flat_map_filter_incl {A B} (f : A -> list B) (g : A -> bool) l : incl (flat_map f (filter g l)) (flat_map f l).
Proof.
  intros y Hy. apply in_flat_map in Hy. destruct Hy as (x & Hx & Hy). apply filter_In in Hx. destruct Hx as [Hx _].
  apply in_flat_map. exists x. split; assumption.
Qed.

Lemma NoDup_flat_map_filter {A B} (f : A -> list B) (g : A -> bool) l :
  NoDup (flat_map f l) -> NoDup (flat_map f (filter g l)).
Proof.
  induction l as [|x l IH]; cbn [flat_map filter]; intros H; [constructor|].
  apply NoDup_app_iff in H. destruct H as (Ha & Hb & Hd).
  destruct (g x); [|apply IH; exact Hb].
  cbn [flat_map]. apply NoDup_app_iff. repeat split; [exact Ha|apply IH; exact Hb|].
  intros y Hy Hin. apply (Hd y Hy). apply (flat_map_filter_incl f g l). exact Hin.
Qed.

Lemma flat_map_singleton {A B} (f : A -> B) l : flat_map (fun x => [f x]) l = map f l.
Proof. induction l as [|x l IH]; cbn; [reflexivity|]. rewrite IH. reflexivity. Qed.

Lemma NoDup_map_filter {A B} (f : A -> B) (g : A -> bool) l : NoDup (map f l) -> NoDup (map f (filter g l)).
Proof. rewrite <- !flat_map_singleton. apply NoDup_flat_map_filter. Qed.

Lemma NoDup_str_nodup l : NoDup l -> str_nodup l = true.
Proof.
  induction 1 as [|x l Hx HN IH]; cbn; [reflexivity|]. rewrite IH, andb_true_r. apply negb_true_iff.
  destruct (str_in x l) eqn:E; [|reflexivity]. apply str_in_In in E. contradiction.
Qed.

Lemma ids_ok_incl l l' : ids_ok l = true -> NoDup l' -> incl l' l -> ids_ok l' = true.
Proof.
  unfold ids_ok. intros H ND Hi. apply andb_prop in H. destruct H as [_ Hr].
  apply andb_true_intro. split; [apply NoDup_str_nodup; exact ND|].
  apply forallb_forall. intros x Hx. rewrite forallb_forall in Hr. apply Hr. apply Hi. exact Hx.
Qed.

Lemma ids_ok_flat_map_filter {A} (f : A -> list str) (g : A -> bool) l :
  ids_ok (flat_map f l) = true -> ids_ok (flat_map f (filter g l)) = true.
Proof.
  intros H. apply (ids_ok_incl _ _ H); [|apply flat_map_filter_incl].
  apply NoDup_flat_map_filter. apply NoDup_of_ids_ok. exact H.
Qed.

Lemma ids_ok_map_filter {A} (f : A -> str) (g : A -> bool) l :
  ids_ok (map f l) = true -> ids_ok (map f (filter g l)) = true.
Proof. rewrite <- !flat_map_singleton. apply ids_ok_flat_map_filter. Qed.

Lemma forallb_filter {A} (p g : A -> bool) l : forallb p l = true -> forallb p (filter g l) = true.
Proof.
  rewrite !forallb_forall. intros H x Hx. apply filter_In in Hx. apply H. apply Hx.
Qed.

Lemma omap_filter_some {X Y} (f : X -> option Y) (g : X -> bool) (l : list X) r :
  omap f l = Some r -> exists r', omap f (filter g l) = Some r'.
Proof.
  revert r. induction l as [|x l IH]; intros r H; cbn in *; [exists []; reflexivity|].
  destruct (f x) as [y|] eqn:E; [|discriminate]. destruct (omap f l) as [ys|]; [|discriminate].
  destruct (IH _ eq_refl) as [r' Hr']. destruct (g x); [|exists r'; exact Hr'].
  exists (y :: r'). cbn. rewrite E, Hr'. reflexivity.
Qed.

Section Mask.
  Variable s : dstore.
  Variable ow : owners.
  Variable k : nat.
  Let n := length (ow_subs ow).
  Let m := mask s ow k.

  Lemma mask_res h : keep n k (ow_res ow) h = true -> slot (st_ress m) h = slot (st_ress s) h.
  Proof. intros H. unfold m, mask. cbn [st_ress]. rewrite slot_mask. fold n. rewrite H. reflexivity. Qed.
  Lemma mask_set h : keep n k (ow_set ow) h = true -> slot (st_sets m) h = slot (st_sets s) h.
  Proof. intros H. unfold m, mask. cbn [st_sets]. rewrite slot_mask. fold n. rewrite H. reflexivity. Qed.
  Lemma mask_ann h : keep n k (ow_ann ow) h = true -> slot (st_anns m) h = slot (st_anns s) h.
  Proof. intros H. unfold m, mask. cbn [st_anns]. rewrite slot_mask. fold n. rewrite H. reflexivity. Qed.

  Lemma mask_ann_range a : keep n k (ow_ann ow) a = true -> ann_range m a = ann_range s a.
  Proof. intros H. unfold ann_range. rewrite (mask_ann _ H). reflexivity. Qed.

  Lemma keep_le own h r : rank n (owner_of own h) <=? r = true -> r <= k -> keep n k own h = true.
  Proof. unfold keep. intros H L. apply Nat.leb_le in H. apply Nat.leb_le. lia. Qed.

  (* a selector whose referenced items belong to documents up to rank r <= k *)
  Lemma mask_wf_leaf h r lf : r <= k -> leaf_closed ow n r lf = true -> wf_leaf s h lf = true -> wf_leaf m h lf = true.
  Proof.
    intros L Hc. destruct lf as [x b e md|a|a x b e md|x|d|d kk|d xx]; cbn [leaf_closed wf_leaf] in *.
    - rewrite (mask_res _ (keep_le _ _ _ Hc L)). exact (fun H => H).
    - unfold is_live. rewrite (mask_ann _ (keep_le _ _ _ Hc L)). exact (fun H => H).
    - apply andb_prop in Hc. destruct Hc as [Ha Hx].
      unfold is_live. rewrite (mask_res _ (keep_le _ _ _ Hx L)), (mask_ann_range _ (keep_le _ _ _ Ha L)). exact (fun H => H).
    - unfold is_live. rewrite (mask_res _ (keep_le _ _ _ Hc L)). exact (fun H => H).
    - unfold is_live. rewrite (mask_set _ (keep_le _ _ _ Hc L)). exact (fun H => H).
    - unfold key_live. rewrite (mask_set _ (keep_le _ _ _ Hc L)). exact (fun H => H).
    - unfold data_live. rewrite (mask_set _ (keep_le _ _ _ Hc L)). exact (fun H => H).
  Qed.

  Lemma mask_canon_leaf r lf : r <= k -> leaf_closed ow n r lf = true -> canon_leaf m lf = canon_leaf s lf.
  Proof.
    intros L Hc. destruct lf as [x b e md|a|a x b e md|x|d|d kk|d xx]; cbn [leaf_closed canon_leaf] in *.
    - rewrite (mask_res _ (keep_le _ _ _ Hc L)). reflexivity.
    - unfold ann_name. rewrite (mask_ann _ (keep_le _ _ _ Hc L)). reflexivity.
    - apply andb_prop in Hc. destruct Hc as [Ha Hx]. unfold ann_name, res_name.
      rewrite (mask_res _ (keep_le _ _ _ Hx L)), (mask_ann _ (keep_le _ _ _ Ha L)), (mask_ann_range _ (keep_le _ _ _ Ha L)). reflexivity.
    - unfold res_name. rewrite (mask_res _ (keep_le _ _ _ Hc L)). reflexivity.
    - unfold set_name. rewrite (mask_set _ (keep_le _ _ _ Hc L)). reflexivity.
    - unfold set_name, key_name. rewrite (mask_set _ (keep_le _ _ _ Hc L)). reflexivity.
    - unfold set_name, data_name. rewrite (mask_set _ (keep_le _ _ _ Hc L)). reflexivity.
  Qed.

  Lemma mask_canon_dataref r p : r <= k -> rank n (owner_of (ow_set ow) (fst p)) <=? r = true ->
    canon_dataref m p = canon_dataref s p.
  Proof.
    intros L Hc. unfold canon_dataref, data_name, set_name. rewrite (mask_set _ (keep_le _ _ _ Hc L)). reflexivity.
  Qed.

  Hypothesis Hcl : closed s ow = true.

  Lemma closed_ann h a : slot (st_anns s) h = Some a ->
    forallb (leaf_closed ow n (rank n (owner_of (ow_ann ow) h))) (ja_leaves a) = true
    /\ forallb (fun dx => rank n (owner_of (ow_set ow) (fst dx)) <=? rank n (owner_of (ow_ann ow) h)) (ja_data a) = true.
  Proof.
    intros H. unfold closed in Hcl. fold n in Hcl. rewrite forallb_forall in Hcl.
    specialize (Hcl (h, a)). cbn [fst snd] in Hcl. apply andb_prop. apply Hcl. apply live_In. exact H.
  Qed.

  Lemma mask_canon_ann h a : slot (st_anns s) h = Some a -> keep n k (ow_ann ow) h = true ->
    canon_ann m (h, a) = canon_ann s (h, a).
  Proof.
    intros H Hk. destruct (closed_ann _ _ H) as [Cl Cd]. unfold keep in Hk. apply Nat.leb_le in Hk.
    unfold canon_ann.
    assert (E1 : omap (canon_dataref m) (ja_data a) = omap (canon_dataref s) (ja_data a)).
    { apply omap_ext_in. intros p Hp. rewrite forallb_forall in Cd. eapply mask_canon_dataref; [exact Hk|apply Cd; exact Hp]. }
    assert (E2 : omap (canon_leaf m) (ja_leaves a) = omap (canon_leaf s) (ja_leaves a)).
    { apply omap_ext_in. intros lf Hp. rewrite forallb_forall in Cl. eapply mask_canon_leaf; [exact Hk|apply Cl; exact Hp]. }
    rewrite E1, E2. reflexivity.
  Qed.

  Lemma mask_wf_ann h a : slot (st_anns s) h = Some a -> keep n k (ow_ann ow) h = true ->
    wf_ann s h a = true -> wf_ann m h a = true.
  Proof.
    intros H Hk Hw. destruct (closed_ann _ _ H) as [Cl Cd]. unfold keep in Hk. apply Nat.leb_le in Hk.
    unfold wf_ann in *. apply andb_prop in Hw. destruct Hw as [Hw Hkind]. apply andb_prop in Hw. destruct Hw as [Hd Hl].
    rewrite Hkind, andb_true_r. apply andb_true_intro. split.
    - apply forallb_forall. intros p Hp. rewrite forallb_forall in Hd, Cd. specialize (Hd _ Hp). specialize (Cd _ Hp).
      unfold data_live in *. rewrite (mask_set _ (keep_le _ _ _ Cd Hk)). exact Hd.
    - apply forallb_forall. intros lf Hp. rewrite forallb_forall in Hl, Cl.
      eapply mask_wf_leaf; [exact Hk|apply Cl; exact Hp|apply Hl; exact Hp].
  Qed.
End Mask.

(** * the restricted store is well-formed *)
Lemma wf_dstore_intro s :
  ids_ok (map (fun p => jr_id (snd p)) (live (st_ress s))) = true ->
  ids_ok (map (fun p => js_id (snd p)) (live (st_sets s))) = true ->
  ids_ok (flat_map (fun p => opt_list (ja_id (snd p))) (live (st_anns s))) = true ->
  forallb (fun p => wf_set (snd p)) (live (st_sets s)) = true ->
  forallb (fun p => wf_ann s (fst p) (snd p)) (live (st_anns s)) = true ->
  str_nodup (file_names s) = true ->
  fits (length (st_anns s)) LIMIT32 = true -> fits (length (st_ress s)) LIMIT32 = true ->
  fits (length (st_sets s)) LIMIT16 = true ->
  wf_dstore s = true.
Proof. intros H1 H2 H3 H4 H5 H6 H7 H8 H9. unfold wf_dstore. rewrite H1, H2, H3, H4, H5, H6, H7, H8, H9. reflexivity. Qed.

Lemma file_names_live s :
  file_names s = flat_map (fun p => opt_list (jr_file (snd p))) (live (st_ress s))
                 ++ flat_map (fun p => opt_list (js_file (snd p))) (live (st_sets s)).
Proof.
  unfold file_names.
  change (flat_map (fun o => match o with Some r => opt_list (jr_file r) | None => [] end) (st_ress s))
    with (pids jr_file (st_ress s)).
  change (flat_map (fun o => match o with Some d => opt_list (js_file d) | None => [] end) (st_sets s))
    with (pids js_file (st_sets s)).
  rewrite (pids_live jr_file (st_ress s) 0), (pids_live js_file (st_sets s) 0). reflexivity.
Qed.

Theorem mask_wf s ow k : wf_dstore s = true -> closed s ow = true -> wf_dstore (mask s ow k) = true.
Proof.
  intros Hwf Hcl. destruct (wf_dstore_parts _ Hwf) as (Ir & Is & Ia & Wsets & Wanns & Hfiles & Fa & Fr & Fs).
  apply wf_dstore_intro; unfold mask; cbn [st_ress st_sets st_anns]; rewrite ?live_mask, ?length_mask; try assumption.
  - apply ids_ok_map_filter. exact Ir.
  - apply ids_ok_map_filter. exact Is.
  - apply ids_ok_flat_map_filter. exact Ia.
  - apply forallb_filter. exact Wsets.
  - apply forallb_forall. intros [h a] Hin. apply filter_In in Hin. destruct Hin as [Hin Hk]. cbn [fst snd] in *.
    rewrite forallb_forall in Wanns. specialize (Wanns _ Hin). cbn [fst snd] in Wanns.
    apply live_In in Hin. exact (mask_wf_ann s ow k Hcl h a Hin Hk Wanns).
  - apply NoDup_str_nodup. apply str_nodup_NoDup in Hfiles. rewrite file_names_live in *.
    cbn [st_ress st_sets]. rewrite !live_mask.
    apply NoDup_app_iff in Hfiles. destruct Hfiles as (Ha & Hb & Hd).
    apply NoDup_app_iff. repeat split.
    + apply NoDup_flat_map_filter. exact Ha.
    + apply NoDup_flat_map_filter. exact Hb.
    + intros x Hx Hy. apply (Hd x); [apply (flat_map_filter_incl _ _ _ _ Hx)|apply (flat_map_filter_incl _ _ _ _ Hy)].
Qed.

(** * its observation *)
Theorem mask_canon s ow k c : closed s ow = true -> canon s = Some c ->
  let n := length (ow_subs ow) in
  exists css cas,
    omap (fun p => canon_set (snd p)) (filter (fun p => keep n k (ow_set ow) (fst p)) (live (st_sets s))) = Some css
    /\ omap (canon_ann s) (filter (fun p => keep n k (ow_ann ow) (fst p)) (live (st_anns s))) = Some cas
    /\ canon (mask s ow k) =
       Some (mkcstore (st_id s)
               (map (fun p => canon_res (snd p)) (filter (fun p => keep n k (ow_res ow) (fst p)) (live (st_ress s))))
               css cas).
Proof.
  intros Hcl Hc n. unfold canon in Hc.
  destruct (omap (fun p => canon_set (snd p)) (live (st_sets s))) as [css0|] eqn:Es; [|discriminate].
  destruct (omap (canon_ann s) (live (st_anns s))) as [cas0|] eqn:Ea; [|discriminate].
  destruct (omap_filter_some _ (fun p => keep n k (ow_set ow) (fst p)) _ _ Es) as [css Hcss].
  destruct (omap_filter_some _ (fun p => keep n k (ow_ann ow) (fst p)) _ _ Ea) as [cas Hcas].
  exists css, cas. split; [exact Hcss|]. split; [exact Hcas|].
  unfold canon, mask. cbn [st_ress st_sets st_anns st_id]. rewrite !live_mask. fold n. rewrite Hcss.
  assert (E : omap (canon_ann (mask s ow k)) (filter (fun p => keep n k (ow_ann ow) (fst p)) (live (st_anns s)))
              = omap (canon_ann s) (filter (fun p => keep n k (ow_ann ow) (fst p)) (live (st_anns s)))).
  { apply omap_ext_in. intros [h a] Hin. apply filter_In in Hin. destruct Hin as [Hin Hk]. cbn [fst] in Hk.
    apply live_In in Hin. exact (mask_canon_ann s ow k Hcl h a Hin Hk). }
  unfold mask in E. fold n in E. rewrite E, Hcas. reflexivity.
Qed.
