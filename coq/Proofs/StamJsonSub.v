(* C05, sub-stores: when the items of every sub-store come before those of the later documents
   (the natural arrangement), the documents written - sub-stores in their order, then the root -
   hold every live item exactly once and, read one after the other, in the order of the store.
   (An item in no document was defect 22b6e0c.) *)
From Coq Require Import String Ascii.
From Coq Require Import List NArith ZArith Bool Arith Lia.
From Stam Require Import Base.Tac Model.Offset Model.Json Model.TempId Model.StamJson Spec.StamJsonSpec.
Import ListNotations.

Section Partition.
  Context {X : Type}.
  Variable rk : X -> nat.

  Definition cls (k : nat) (l : list X) : list X := filter (fun p => Nat.eqb (rk p) k) l.

  Lemma cls_nil_below k l : Forall (fun p => k < rk p) l -> cls k l = [].
  Proof.
    induction 1 as [|p l Hp HF IH]; cbn; [reflexivity|].
    assert (E : Nat.eqb (rk p) k = false) by (apply Nat.eqb_neq; lia). rewrite E. exact IH.
  Qed.

  Lemma nondecreasing_head x l : nondecreasing (map rk (x :: l)) = true -> Forall (fun p => rk x <= rk p) l.
  Proof.
    revert x. induction l as [|y l IH]; intros x H; [constructor|].
    cbn in H. apply andb_prop in H. destruct H as [H1 H2]. apply Nat.leb_le in H1.
    constructor; [exact H1|]. eapply Forall_impl; [|apply (IH y); exact H2]. cbn. intros p Hp. lia.
  Qed.

  Lemma nondecreasing_tail x l : nondecreasing (map rk (x :: l)) = true -> nondecreasing (map rk l) = true.
  Proof. destruct l as [|y l]; [reflexivity|]. cbn. intros H. apply andb_prop in H. apply H. Qed.

  (* the classes from k0 on, concatenated *)
  Lemma classes_from : forall l k0 m,
    nondecreasing (map rk l) = true -> Forall (fun p => k0 <= rk p /\ rk p < k0 + m) l ->
    concat (map (fun k => cls k l) (seq k0 m)) = l.
  Proof.
    induction l as [|x l IH]; intros k0 m Hs Hb.
    - clear. revert k0. induction m as [|m IHm]; intros k0; cbn; [reflexivity|apply IHm].
    - inversion Hb as [|? ? [Hx1 Hx2] Hb']; subst.
      pose proof (nondecreasing_head _ _ Hs) as Hge. pose proof (nondecreasing_tail _ _ Hs) as Hs'.
      (* skip the classes below the rank of x: they are empty *)
      assert (Hsplit : seq k0 m = seq k0 (rk x - k0) ++ seq (rk x) (m - (rk x - k0))).
      { replace m with ((rk x - k0) + (m - (rk x - k0))) at 1 by lia. rewrite seq_app. do 2 f_equal. lia. }
      rewrite Hsplit, map_app, concat_app.
      assert (Hlow : concat (map (fun k => cls k (x :: l)) (seq k0 (rk x - k0))) = []).
      { apply concat_nil_Forall. apply Forall_map. apply Forall_forall. intros k Hk. apply in_seq in Hk.
        apply cls_nil_below. constructor; [lia|]. eapply Forall_impl; [|exact Hge]. cbn. intros p Hp. lia. }
      rewrite Hlow. cbn [app].
      destruct (m - (rk x - k0)) as [|m'] eqn:Em; [lia|].
      cbn [seq map concat]. unfold cls at 1. cbn [filter]. rewrite Nat.eqb_refl. cbn [app]. f_equal.
      fold (cls (rk x) l).
      assert (Hrest : map (fun k => cls k (x :: l)) (seq (S (rk x)) m') = map (fun k => cls k l) (seq (S (rk x)) m')).
      { apply map_ext_in. intros k Hk. apply in_seq in Hk. unfold cls. cbn [filter].
        assert (E : Nat.eqb (rk x) k = false) by (apply Nat.eqb_neq; lia). rewrite E. reflexivity. }
      rewrite Hrest.
      change (cls (rk x) l ++ concat (map (fun k => cls k l) (seq (S (rk x)) m')))
        with (concat (map (fun k => cls k l) (seq (rk x) (S m')))).
      apply IH; [exact Hs'|].
      rewrite Forall_forall in *. intros p Hp. specialize (Hge p Hp). destruct (Hb' p Hp) as [B1 B2]. lia.
  Qed.
End Partition.

(* the documents of a store with sub-stores: sub-store 0 .. n-1, then the root *)
Theorem parts_in_order {X} (nsubs : nat) (own : list (option nat)) (l : list (option X)) :
  (forall h k, owner_of own h = Some k -> k < nsubs) ->
  natural_order nsubs own l = true ->
  concat (map (fun k => pick own (Some k) (live l)) (seq 0 nsubs)) ++ pick own None (live l) = live l.
Proof.
  intros Hown Hnat. unfold natural_order in Hnat.
  set (rk := fun p : nat * X => rank nsubs (owner_of own (fst p))) in *.
  assert (Hcls : forall k, k < nsubs -> pick own (Some k) (live l) = cls rk k (live l)).
  { intros k Hk. unfold pick, cls. apply filter_ext. intros p. unfold rk, rank.
    destruct (owner_of own (fst p)) as [j|] eqn:E; cbn [onat_eqb]; [reflexivity|].
    symmetry. apply Nat.eqb_neq. lia. }
  assert (Hroot : pick own None (live l) = cls rk nsubs (live l)).
  { unfold pick, cls. apply filter_ext. intros p. unfold rk, rank.
    destruct (owner_of own (fst p)) as [j|] eqn:E; cbn [onat_eqb]; [|symmetry; apply Nat.eqb_refl].
    symmetry. apply Nat.eqb_neq. specialize (Hown _ _ E). lia. }
  rewrite Hroot.
  assert (Hmap : map (fun k => pick own (Some k) (live l)) (seq 0 nsubs) = map (fun k => cls rk k (live l)) (seq 0 nsubs)).
  { apply map_ext_in. intros k Hk. apply in_seq in Hk. apply Hcls. lia. }
  rewrite Hmap.
  replace (concat (map (fun k => cls rk k (live l)) (seq 0 nsubs)) ++ cls rk nsubs (live l))
    with (concat (map (fun k => cls rk k (live l)) (seq 0 (S nsubs)))).
  - apply classes_from; [exact Hnat|]. apply Forall_forall. intros p _. unfold rk, rank.
    destruct (owner_of own (fst p)) as [j|] eqn:E; [specialize (Hown _ _ E); lia|lia].
  - rewrite seq_S, map_app, concat_app. cbn. rewrite app_nil_r. reflexivity.
Qed.
