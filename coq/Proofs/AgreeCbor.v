(* C11: agreement between the wire schema extracted from the current Rust source
   (Gen/CborSchema.v, rewritten by tools/translate_c11.py on every run) and the hypotheses of the
   generic theorems.  Each statement is re-checked by computation against what the code says NOW:
   - schema_wf: unique item names; per struct/variant unique field indices; per enum unique
     variant indices below 2^32; transparent structs have exactly one indexed field; every
     referenced item is defined; every Option wraps a type whose encoding cannot start with null;
     skipped fields are plain data without codec; every encode_with/decode_with pair is one of
     the pairs of Model.Cbor.codec_table (whose wire behaviour is what the proofs use);
   - erased_agree: the only state not stored (skip) or replaced by a constant on load is the
     allowed list of Spec.CborSpec (three `changed` flags, Config::serialize_mode);
   - root_wf: the root type is defined. *)
From Coq Require Import String.
From Coq Require Import List Bool.
Import ListNotations.
From Stam Require Import Model.Cbor Spec.CborSpec Proofs.Cbor Gen.CborSchema.

Theorem schema_wf : wf_schema extracted_schema = true.
Proof. vm_compute. reflexivity. Qed.

Theorem root_wf : ty_wf extracted_schema (TRef extracted_root) = true.
Proof. vm_compute. reflexivity. Qed.

Theorem root_is_store : extracted_root = i_ "AnnotationStore".
Proof. reflexivity. Qed.

Theorem erased_agree : only_allowed_erased extracted_schema = true.
Proof. vm_compute. reflexivity. Qed.

Theorem codecs_agree : codecs_known extracted_schema = true.
Proof. vm_compute. reflexivity. Qed.

(* the generic theorem at the extracted schema: loading what was saved yields the saved store
   value, up to the erased transient fields, whatever follows in the input *)
Theorem store_roundtrip : forall v rest,
  ht extracted_schema (TRef extracted_root) v = true ->
  dec extracted_schema (S (vdepth v)) (TRef extracted_root) (enc extracted_schema (TRef extracted_root) v ++ rest)
  = Some (erase extracted_schema (TRef extracted_root) v, rest).
Proof. intros. apply roundtrip_generic; [exact schema_wf | exact root_wf | assumption]. Qed.
