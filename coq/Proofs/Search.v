(* The related-text search returns exactly the relation: sound, complete, no duplicates. *)
From Coq Require Import Permutation.
From Stam Require Import Base.Tac Base.ListAux Model.Rel Model.Search Proofs.Rel.

Definition dflt := mkts None 0 0.

(* the resource: every known selection is well-formed, inside the text, and
   carries its own index as handle *)
Definition known_ok (K : list ts) (len : nat) : Prop :=
  forall h, h < length K ->
    let k := nth h K dflt in tb k <= te k /\ te k <= len /\ hid k = Some h.

Lemma at_pos_In f K p h : In h (at_pos f K p) <-> h < length K /\ f (nth h K dflt) = p.
Proof.
  unfold at_pos. rewrite filter_In, in_seq, Nat.eqb_eq. fold dflt. intuition lia.
Qed.

Lemma walk_fwd_In lo hi K h :
  In h (walk Fwd lo hi K) <-> h < length K /\ lo <= tb (nth h K dflt) < hi.
Proof.
  unfold walk. rewrite in_flat_map. split.
  - intros (p & Hp & Hin). apply in_seq in Hp. apply at_pos_In in Hin. destruct Hin as [H1 H2]. lia.
  - intros [H1 H2]. exists (tb (nth h K dflt)). split; [apply in_seq; lia|apply at_pos_In; tauto].
Qed.

Lemma walk_bwd_In lo hi K h :
  In h (walk Bwd lo hi K) <-> h < length K /\ lo <= te (nth h K dflt) < hi.
Proof.
  unfold walk. rewrite in_flat_map. split.
  - intros (p & Hp & Hin). apply in_rev, in_seq in Hp. apply at_pos_In in Hin. destruct Hin as [H1 H2]. lia.
  - intros [H1 H2]. exists (te (nth h K dflt)). split; [apply -> in_rev; apply in_seq; lia|apply at_pos_In; tauto].
Qed.

Lemma NoDup_flat_map {X Y} (f : X -> list Y) l :
  NoDup l -> (forall x, In x l -> NoDup (f x)) ->
  (forall x y z, In x l -> In y l -> x <> y -> In z (f x) -> ~ In z (f y)) ->
  NoDup (flat_map f l).
Proof.
  induction l as [|a l IH]; intros Hl Hf Hd; cbn [flat_map]; [constructor|].
  inversion Hl as [|? ? Ha Hl']; subst. apply NoDup_app'.
  - apply Hf. left; reflexivity.
  - apply IH; [exact Hl'| intros x Hx; apply Hf; right; exact Hx|].
    intros x y z Hx Hy. apply Hd; right; assumption.
  - intros z Hz Hin. apply in_flat_map in Hin. destruct Hin as (y & Hy & Hzy).
    apply (Hd a y z); [left; reflexivity|right; exact Hy| intros ->; contradiction|exact Hz|exact Hzy].
Qed.

Lemma NoDup_walk d lo hi K : NoDup (walk d lo hi K).
Proof.
  assert (Hat : forall f p, NoDup (at_pos f K p)) by (intros; apply NoDup_filter, seq_NoDup).
  assert (Hdis : forall f x y z, x <> y -> In z (at_pos f K x) -> ~ In z (at_pos f K y)).
  { intros f x y z Hxy H1 H2. apply at_pos_In in H1. apply at_pos_In in H2. lia. }
  destruct d; cbn [walk]; apply NoDup_flat_map; auto using seq_NoDup.
  - intros x y z _ _. apply Hdis.
  - apply NoDup_rev, seq_NoDup.
  - intros x y z _ _. apply Hdis.
Qed.

Section WithText.
  Variable ws : list bool.

  Lemma leftmost_from_le l : forall cur x, (x = cur \/ In x l) -> tb (leftmost_from cur l) <= tb x.
  Proof.
    induction l as [|y l IH]; intros cur x Hx; cbn [leftmost_from].
    - destruct Hx as [->|[]]. lia.
    - destruct (tb y <? tb cur) eqn:E.
      + destruct Hx as [->|[->|Hx]].
        * specialize (IH y y (or_introl eq_refl)). lia.
        * apply IH. left; reflexivity.
        * apply IH. right; exact Hx.
      + destruct Hx as [->|[->|Hx]].
        * apply IH. left; reflexivity.
        * specialize (IH cur cur (or_introl eq_refl)). lia.
        * apply IH. right; exact Hx.
  Qed.

  Lemma rightmost_from_ge l : forall cur x, (x = cur \/ In x l) -> te x <= te (rightmost_from cur l).
  Proof.
    induction l as [|y l IH]; intros cur x Hx; cbn [rightmost_from].
    - destruct Hx as [->|[]]. lia.
    - destruct (te cur <? te y) eqn:E.
      + destruct Hx as [->|[->|Hx]].
        * specialize (IH y y (or_introl eq_refl)). lia.
        * apply IH. left; reflexivity.
        * apply IH. right; exact Hx.
      + destruct Hx as [->|[->|Hx]].
        * apply IH. left; reflexivity.
        * specialize (IH cur cur (or_introl eq_refl)). lia.
        * apply IH. right; exact Hx.
  Qed.

  Lemma leftmost_le A Lm x : set_ok A -> leftmost A = Some Lm -> In x (items A) -> tb Lm <= tb x.
  Proof.
    intros [Hs _]. unfold leftmost. destruct (items A) as [|y l]; [discriminate|].
    destruct (sorted A).
    - intros H; inversion H; subst; clear H. intros [->|Hx]; [lia|].
      specialize (Hs eq_refl). inversion Hs as [|? ? _ Hall]; subst.
      rewrite Forall_forall in Hall. specialize (Hall _ Hx). unfold ts_le in Hall. lia.
    - intros H; inversion H; subst; clear H. intros Hx. apply leftmost_from_le.
      destruct Hx as [->|Hx]; [left; reflexivity|right; exact Hx].
  Qed.

  Lemma rightmost_ge A Rm x : rightmost A = Some Rm -> In x (items A) -> te x <= te Rm.
  Proof.
    unfold rightmost. destruct (items A) as [|y l]; [discriminate|].
    intros H; inversion H; subst; clear H. intros Hx. apply rightmost_from_ge.
    destruct Hx as [->|Hx]; [left; reflexivity|right; exact Hx].
  Qed.

  (* what a successful positive pair test says about the candidate (second argument) *)
  Definition pp_facts (o : op) (s c : ts) : Prop :=
    match orel o with
    | Equals | InSet | SameRange => tb s = tb c /\ te s = te c
    | Overlaps => (tb s <= tb c /\ tb c < te s) \/ (tb s < te c /\ te c <= te s)
                  \/ (tb c <= tb s /\ te s <= te c) \/ (tb s <= tb c /\ te c <= te s)
    | Embeds => tb s <= tb c /\ te c <= te s
    | Embedded => tb c <= tb s /\ te s <= te c
                  /\ match olim o with Some l => tb s - tb c <= l /\ te c - te s <= l | None => True end
    | Before => te s <= tb c /\ match olim o with Some l => tb c - te s <= l | None => True end
    | After => te c <= tb s /\ match olim o with Some l => tb s - te c <= l | None => True end
    | Precedes => te s <= tb c /\ tb c - te s <= (if ows o then WHITESPACE_LIMIT else 0)
    | Succeeds => te c <= tb s /\ tb s - te c <= (if ows o then WHITESPACE_LIMIT else 0)
    | SameBegin => tb s = tb c
    | SameEnd => te s = te c
    end.

  Lemma pos_pair_facts o s c : pos_pair ws o s c = true -> pp_facts o s c.
  Proof.
    unfold pos_pair, pp_facts, ts_eqb. destruct o as [rl al ng lm w]; cbn [orel olim ows].
    destruct rl; try (destruct lm as [lim|]); try lia.
    - (* Precedes *)
      destruct w; cbn [negb]; [|lia].
      destruct (te s <=? tb c) eqn:E1; [|discriminate].
      destruct (Nat.eqb (tb c - te s) 0) eqn:E2; [lia|].
      intros H. apply gap_ws_meaning in H. lia.
    - destruct w; cbn [negb]; [|lia].
      destruct (te s <=? tb c) eqn:E1; [|discriminate].
      destruct (Nat.eqb (tb c - te s) 0) eqn:E2; [lia|].
      intros H. apply gap_ws_meaning in H. lia.
    - (* Succeeds *)
      destruct w; cbn [negb]; [|lia].
      destruct (te c <=? tb s) eqn:E1; [|discriminate].
      destruct (Nat.eqb (tb s - te c) 0) eqn:E2; [lia|].
      intros H. apply gap_ws_meaning in H. lia.
    - destruct w; cbn [negb]; [|lia].
      destruct (te c <=? tb s) eqn:E1; [|discriminate].
      destruct (Nat.eqb (tb s - te c) 0) eqn:E2; [lia|].
      intros H. apply gap_ws_meaning in H. lia.
  Qed.

  Definition in_range (rg : nat * nat * dir) (c : ts) : Prop :=
    match rg with
    | (lo, hi, Fwd) => lo <= tb c < hi
    | (lo, hi, Bwd) => lo <= te c < hi
    end.

  (* which extreme members of the reference set the positive test constrains *)
  Lemma pos_set_ts_extremes o R c Lm Rm :
    leftmost R = Some Lm -> rightmost R = Some Rm ->
    pos_set_ts ws o R c = true ->
    match orel o, oall o with
    | SameRange, _ => tb Lm = tb c /\ te Rm = te c
    | (Precedes | Before | SameEnd), true => pp_facts o Rm c
    | (Succeeds | After | SameBegin), true => pp_facts o Lm c
    | _, _ => pp_facts o Lm c /\ pp_facts o Rm c
    end.
  Proof.
    intros EL ER. unfold pos_set_ts. rewrite EL, ER.
    pose proof (leftmost_In _ _ EL) as HinL. pose proof (rightmost_In _ _ ER) as HinR.
    assert (Hall : forallb (fun a => pos_pair ws o a c) (items R) = true ->
                   pp_facts o Lm c /\ pp_facts o Rm c).
    { intros H. rewrite forallb_forall in H. split; apply pos_pair_facts, H; assumption. }
    destruct (orel o) eqn:Er; destruct (oall o) eqn:Ea; intros Ht;
      try (apply Hall; exact Ht); try (apply pos_pair_facts; exact Ht); lia.
  Qed.

  (* every selection for which the (positive) test can hold lies in the searched range *)
  Lemma range_sound o R c len : set_ok R -> items R <> [] -> tb c <= te c -> te c <= len ->
    test_set_ts ws o R c = true -> in_range (search_range o R len) c.
  Proof.
    intros HR Hne Hc Hlen Ht. unfold test_set_ts in Ht.
    destruct (items R) as [|x0 xs] eqn:EI; [contradiction|]. cbn [is_nil] in Ht. rewrite <- EI in *.
    destruct (leftmost R) as [Lm|] eqn:EL; [|unfold leftmost in EL; rewrite EI in EL; destruct (sorted R); discriminate].
    destruct (rightmost R) as [Rm|] eqn:ER; [|unfold rightmost in ER; rewrite EI in ER; discriminate].
    pose proof (leftmost_In _ _ EL) as HinL. pose proof (rightmost_In _ _ ER) as HinR.
    pose proof (leftmost_le _ _ _ HR EL HinR) as HLR.
    pose proof (rightmost_ge _ _ _ ER HinL) as HRL.
    destruct HR as [_ Hwf]. rewrite Forall_forall in Hwf.
    pose proof (Hwf _ HinL) as HwL. pose proof (Hwf _ HinR) as HwR. unfold wf in HwL, HwR.
    unfold search_range, ref_begin, ref_end. rewrite EL, ER.
    destruct (oneg o) eqn:En; [cbn [in_range]; lia|].
    pose proof (pos_set_ts_extremes o R c Lm Rm EL ER Ht) as HF. clear Ht.
    unfold pp_facts in HF. unfold WHITESPACE_LIMIT in *.
    destruct (orel o) eqn:Er; destruct (oall o) eqn:Ea;
      try (destruct (olim o) as [lim|] eqn:El); try (destruct (ows o) eqn:Ew);
      cbn [in_range];
      try match goal with
          | |- context [tb Lm <=? ?x] => destruct (tb Lm <=? x) eqn:Eh; cbn [in_range]
          end;
      lia.
  Qed.

  Lemma keep_lt o R K h : keep ws o R K h = true -> test_set_ts ws o R (nth h K dflt) = true.
  Proof. unfold keep. fold dflt. intros H. apply andb_true_iff in H. tauto. Qed.

  Definition generic (o : op) : Prop :=
    match orel o, oall o, oneg o with Equals, false, false => False | _, _, _ => True end.

  Lemma search_generic o R K len : generic o ->
    search ws o R K len =
    (let '(lo, hi, d) := search_range o R len in
     let found := filter (keep ws o R K) (walk d lo hi K) in
     match d with Fwd => found | Bwd => rev found end).
  Proof.
    unfold generic, search. destruct (orel o); destruct (oall o); destruct (oneg o); tauto.
  Qed.

  Lemma search_In o R K len h : generic o ->
    (In h (search ws o R K len) <->
     keep ws o R K h = true /\ h < length K /\ in_range (search_range o R len) (nth h K dflt)).
  Proof.
    intros G. rewrite (search_generic _ _ _ _ G).
    destruct (search_range o R len) as [[lo hi] d]. cbn [in_range].
    destruct d; rewrite <- ?in_rev, filter_In, ?walk_fwd_In, ?walk_bwd_In; tauto.
  Qed.

  (** soundness: everything returned is a known selection in the relation, and not the reference *)
  Theorem search_sound o R K len h : generic o ->
    In h (search ws o R K len) -> In h (related ws o R K).
  Proof.
    intros G H. apply (search_In _ _ _ _ _ G) in H. unfold related.
    apply filter_In. split; [apply in_seq; lia|tauto].
  Qed.

  (** completeness: every known selection in the relation is returned *)
  Theorem search_complete o R K len h : generic o ->
    set_ok R -> items R <> [] -> known_ok K len ->
    In h (related ws o R K) -> In h (search ws o R K len).
  Proof.
    intros G HR Hne HK H. unfold related in H. apply filter_In in H. destruct H as [Hh Hk].
    apply in_seq in Hh. apply (search_In _ _ _ _ _ G). split; [exact Hk|]. split; [lia|].
    destruct (HK h ltac:(lia)) as (H1 & H2 & _).
    apply range_sound; try assumption. apply keep_lt. exact Hk.
  Qed.

  (** each once *)
  Theorem search_nodup o R K len : generic o -> NoDup (search ws o R K len).
  Proof.
    intros G. rewrite (search_generic _ _ _ _ G).
    destruct (search_range o R len) as [[lo hi] d].
    destruct d; [|apply NoDup_rev]; apply NoDup_filter, NoDup_walk.
  Qed.

  (** hence: the result is a permutation of the relation *)
  Theorem search_is_relation o R K len : generic o ->
    set_ok R -> items R <> [] -> known_ok K len ->
    Permutation (search ws o R K len) (related ws o R K).
  Proof.
    intros G HR Hne HK. apply NoDup_Permutation.
    - apply search_nodup; exact G.
    - apply NoDup_filter, seq_NoDup.
    - intros h. split; [apply search_sound; exact G|apply search_complete; assumption].
  Qed.

  (** the reference itself is never returned by the generic search *)
  Theorem search_not_reference o R K len h : generic o ->
    In h (search ws o R K len) -> has_handle R h = false.
  Proof.
    intros G H. apply (search_In _ _ _ _ _ G) in H. destruct H as [H _].
    unfold keep in H. apply andb_true_iff in H. destruct H as [_ H]. apply negb_true_iff in H. exact H.
  Qed.

  (** Equals (plain): the known selections with exactly the reference ranges *)
  Lemma known_Some K t h : known K t = Some h ->
    h < length K /\ tb (nth h K dflt) = tb t /\ te (nth h K dflt) = te t.
  Proof.
    unfold known. intros H. apply find_some in H. destruct H as [H1 H2].
    apply in_seq in H1. fold dflt in H2. apply andb_true_iff in H2. rewrite !Nat.eqb_eq in H2. lia.
  Qed.

  Theorem equals_shortcut_sound K refs h : In h (equals_shortcut K refs) ->
    h < length K /\ exists r, In r refs /\ tb (nth h K dflt) = tb r /\ te (nth h K dflt) = te r.
  Proof.
    induction refs as [|r refs IH]; cbn [equals_shortcut]; [intros []|].
    destruct (known K r) as [k|] eqn:E; [|intros []].
    intros [<-|H].
    - apply known_Some in E. split; [tauto|]. exists r. split; [left; reflexivity|tauto].
    - destruct (IH H) as (H1 & r' & H2 & H3). split; [exact H1|]. exists r'. split; [right; exact H2|exact H3].
  Qed.

  Theorem equals_single_complete K r h len : known_ok K len ->
    h < length K -> tb (nth h K dflt) = tb r -> te (nth h K dflt) = te r ->
    (forall h', h' < length K -> tb (nth h' K dflt) = tb r -> te (nth h' K dflt) = te r -> h' = h) ->
    equals_shortcut K [r] = [h].
  Proof.
    intros HK Hh Hb He Huniq. cbn [equals_shortcut].
    destruct (known K r) as [k|] eqn:E.
    - apply known_Some in E. destruct E as (E1 & E2 & E3). rewrite (Huniq k E1 E2 E3). reflexivity.
    - unfold known in E. exfalso.
      pose proof (find_none _ _ E h ltac:(apply in_seq; lia)) as Hn. cbv beta in Hn. fold dflt in Hn.
      rewrite Hb, He, !Nat.eqb_refl in Hn. discriminate.
  Qed.
End WithText.
