(* The related-text search returns exactly the relation: sound, complete, no duplicates. *)
From Stam Require Import Base.Tac Base.ListAux Model.Rel Model.Search Proofs.Rel.

Definition dflt := mkts None 0 0.

(* the resource: every known selection is well-formed, inside the text, and
   carries its own index as handle *)
Definition known_ok (K : list ts) (len : nat) : Prop :=
  forall h, h < length K ->
    let k := nth h K dflt in tb k <= te k /\ te k <= len /\ hid k = Some h.

Lemma at_pos_In f K p h : In h (at_pos f K p) <-> h < length K /\ f (nth h K dflt) = p.
Proof.
  unfold at_pos. rewrite filter_In, in_seq, Nat.eqb_eq. fold dflt. intuition lia.
Qed.

Lemma walk_fwd_In lo hi K h :
  In h (walk Fwd lo hi K) <-> h < length K /\ lo <= tb (nth h K dflt) < hi.
Proof.
  unfold walk. rewrite in_flat_map. split.
  - intros (p & Hp & Hin). apply in_seq in Hp. apply at_pos_In in Hin. destruct Hin as [H1 H2]. lia.
  - intros [H1 H2]. exists (tb (nth h K dflt)). split; [apply in_seq; lia|apply at_pos_In; tauto].
Qed.

Lemma walk_bwd_In lo hi K h :
  In h (walk Bwd lo hi K) <-> h < length K /\ lo <= te (nth h K dflt) < hi.
Proof.
  unfold walk. rewrite in_flat_map. split.
  - intros (p & Hp & Hin). apply in_rev, in_seq in Hp. apply at_pos_In in Hin. destruct Hin as [H1 H2]. lia.
  - intros [H1 H2]. exists (te (nth h K dflt)). split; [apply -> in_rev; apply in_seq; lia|apply at_pos_In; tauto].
Qed.

Lemma NoDup_flat_map {X Y} (f : X -> list Y) l :
  NoDup l -> (forall x, In x l -> NoDup (f x)) ->
  (forall x y z, In x l -> In y l -> x <> y -> In z (f x) -> ~ In z (f y)) ->
  NoDup (flat_map f l).
Proof.
  induction l as [|a l IH]; intros Hl Hf Hd; cbn [flat_map]; [constructor|].
  inversion Hl as [|? ? Ha Hl']; subst. apply NoDup_app'.
  - apply Hf. left; reflexivity.
  - apply IH; [exact Hl'| intros x Hx; apply Hf; right; exact Hx|].
    intros x y z Hx Hy. apply Hd; right; assumption.
  - intros z Hz Hin. apply in_flat_map in Hin. destruct Hin as (y & Hy & Hzy).
    apply (Hd a y z); [left; reflexivity|right; exact Hy| intros ->; contradiction|exact Hz|exact Hzy].
Qed.

Lemma NoDup_walk d lo hi K : NoDup (walk d lo hi K).
Proof.
  assert (Hat : forall f p, NoDup (at_pos f K p)) by (intros; apply NoDup_filter, seq_NoDup).
  assert (Hdis : forall f x y z, x <> y -> In z (at_pos f K x) -> ~ In z (at_pos f K y)).
  { intros f x y z Hxy H1 H2. apply at_pos_In in H1. apply at_pos_In in H2. lia. }
  destruct d; cbn [walk]; apply NoDup_flat_map; auto using seq_NoDup.
  - intros x y z _ _. apply Hdis.
  - apply NoDup_rev, seq_NoDup.
  - intros x y z _ _. apply Hdis.
Qed.

Section WithText.
  Variable ws : list bool.

  (* every selection for which the test can hold lies in the searched range *)
  Lemma range_sound o R c len : set_ok R -> items R <> [] -> tb c <= te c -> te c <= len ->
    test_set_ts ws o R c = true ->
    match search_range o R len with
    | (lo, hi, Fwd) => lo <= tb c < hi
    | (lo, hi, Bwd) => lo <= te c < hi
    end.
  Proof.
    intros HR Hne Hc Hlen Ht. unfold test_set_ts in Ht.
    destruct (items R) as [|x0 xs] eqn:EI; [contradiction|]. cbn [is_nil] in Ht. rewrite <- EI in *.
    destruct (leftmost R) as [Lm|] eqn:EL; [|unfold leftmost in EL; rewrite EI in EL; destruct (sorted R); discriminate].
    destruct (rightmost R) as [Rm|] eqn:ER; [|unfold rightmost in ER; rewrite EI in ER; discriminate].
    pose proof (leftmost_In _ _ EL) as HinL. pose proof (rightmost_In _ _ ER) as HinR.
    destruct HR as [_ Hwf]. rewrite Forall_forall in Hwf.
    pose proof (Hwf _ HinL) as HwL. pose proof (Hwf _ HinR) as HwR. unfold wf in HwL, HwR.
    unfold search_range, ref_begin, ref_end. rewrite EL, ER.
    destruct (oneg o) eqn:En; [lia|].
    unfold pos_set_ts in Ht. rewrite EL, ER in Ht.
    assert (Hall : forallb (fun a => pos_pair ws o a c) (items R) = true ->
                   pos_pair ws o Lm c = true /\ pos_pair ws o Rm c = true).
    { intros H. rewrite forallb_forall in H. split; apply H; assumption. }
    destruct o as [rl al ng lm w]. cbn [orel oall oneg olim ows] in *.
    destruct rl; destruct al;
      try (apply Hall in Ht; destruct Ht as [HL HM]);
      unfold pos_pair, ts_eqb in *; cbn [orel olim ows] in *;
      destruct lm as [lim|]; destruct w; cbn [negb] in *;
      repeat match goal with
             | |- context [if ?b then _ else _] => let E := fresh "E" in destruct b eqn:E
             end;
      unfold WHITESPACE_LIMIT in *;
      repeat match goal with
             | H : context [gap_ws _ _ _] |- _ =>
                 let G := fresh "G" in
                 destruct (gap_ws _ _ _) eqn:G in H; [apply gap_ws_meaning in G; unfold WHITESPACE_LIMIT in G|]
             end;
      try lia.
  Qed.
End WithText.
