(* LimitIter returns exactly the documented slice, for every list and every
   pair of (positive, zero or negative) bounds. *)
From Coq Require Import ZArith.
From Stam Require Import Base.Tac Base.ListAux Model.Limit.
Local Open Scope Z_scope.

Section Limit.
  Context {X : Type}.
  Variables bg en : Z.
  Notation go := (@go X bg en).
  Notation push := (@push X bg en).
  Notation at_end := (@at_end X bg en).

  Lemma firstn_all2' (l : list X) n : (length l <= n)%nat -> firstn n l = l.
  Proof. apply firstn_all2. Qed.

  (* begin >= 0, end >= 0: nothing is ever taken from the buffer *)
  Lemma go_pos (rest : list X) : forall c buf, 0 <= bg -> 0 <= en ->
      go (Z.of_nat c) buf rest =
      let e := if en =? 0 then Z.of_nat c + Z.of_nat (length rest) else en in
      firstn (Z.to_nat (e - Z.max bg (Z.of_nat c))) (skipn (Z.to_nat (bg - Z.of_nat c)) rest).
  Proof.
    induction rest as [|x rest IH]; intros c buf Hb He; cbv zeta.
    - cbn [go]. unfold at_end. rewrite skipn_nil, firstn_nil.
      destruct (0 <=? bg) eqn:E1; destruct (0 <=? en) eqn:E2; try lia. reflexivity.
    - cbn [go length].
      replace (Z.of_nat c + 1) with (Z.of_nat (S c)) by lia.
      destruct ((0 <=? bg) && (bg <=? Z.of_nat c)) eqn:E1.
      + replace (Z.to_nat (bg - Z.of_nat c)) with 0%nat by lia. cbn [skipn].
        destruct ((en =? 0) || (Z.of_nat c <? en)) eqn:E2.
        * rewrite IH by assumption. cbv zeta.
          replace (Z.to_nat (bg - Z.of_nat (S c))) with 0%nat by lia. cbn [skipn].
          destruct (en =? 0) eqn:E3.
          -- replace (Z.to_nat (Z.of_nat c + Z.of_nat (S (length rest)) - Z.max bg (Z.of_nat c)))
               with (S (Z.to_nat (Z.of_nat (S c) + Z.of_nat (length rest) - Z.max bg (Z.of_nat (S c))))) by lia.
             reflexivity.
          -- replace (Z.to_nat (en - Z.max bg (Z.of_nat c)))
               with (S (Z.to_nat (en - Z.max bg (Z.of_nat (S c))))) by lia.
             reflexivity.
        * destruct ((0 <? en) && (en <=? Z.of_nat c)) eqn:E3.
          -- destruct (en =? 0) eqn:E4; [lia|].
             replace (Z.to_nat (en - Z.max bg (Z.of_nat c))) with 0%nat by lia. reflexivity.
          -- lia.
      + rewrite IH by assumption. cbv zeta.
        replace (Z.to_nat (bg - Z.of_nat c)) with (S (Z.to_nat (bg - Z.of_nat (S c)))) by lia.
        cbn [skipn].
        replace (Z.max bg (Z.of_nat (S c))) with (Z.max bg (Z.of_nat c)) by lia.
        destruct (en =? 0); f_equal; lia.
  Qed.

  (* begin >= 0, end < 0: everything from begin on is buffered, the last |end| dropped *)
  Lemma go_pos_neg (rest : list X) : forall c buf, 0 <= bg -> en < 0 ->
      go (Z.of_nat c) buf rest =
      pop_back_n (Z.to_nat (- en)) (buf ++ skipn (Z.to_nat (bg - Z.of_nat c)) rest).
  Proof.
    induction rest as [|x rest IH]; intros c buf Hb He.
    - cbn [go]. unfold at_end. rewrite skipn_nil, app_nil_r.
      destruct (0 <=? bg) eqn:E1; destruct (0 <=? en) eqn:E2; destruct (bg <? 0) eqn:E3;
        destruct (en <? 0) eqn:E4; try lia. reflexivity.
    - cbn [go]. replace (Z.of_nat c + 1) with (Z.of_nat (S c)) by lia.
      destruct ((0 <=? bg) && (bg <=? Z.of_nat c)) eqn:E1.
      + destruct ((en =? 0) || (Z.of_nat c <? en)) eqn:E2; [lia|].
        destruct ((0 <? en) && (en <=? Z.of_nat c)) eqn:E3; [lia|].
        rewrite IH by assumption. unfold push.
        destruct (((bg <? 0) || (0 <=? bg) && (bg <=? Z.of_nat c)) && ((en <=? 0) || (Z.of_nat c <? en))) eqn:E4; [|lia].
        destruct ((en =? 0) && (bg <? 0)) eqn:E5; [lia|].
        replace (Z.to_nat (bg - Z.of_nat c)) with 0%nat by lia.
        replace (Z.to_nat (bg - Z.of_nat (S c))) with 0%nat by lia.
        cbn [skipn]. rewrite <- app_assoc. reflexivity.
      + rewrite IH by assumption. unfold push.
        destruct (((bg <? 0) || (0 <=? bg) && (bg <=? Z.of_nat c)) && ((en <=? 0) || (Z.of_nat c <? en))) eqn:E4; [lia|].
        replace (Z.to_nat (bg - Z.of_nat c)) with (S (Z.to_nat (bg - Z.of_nat (S c)))) by lia.
        reflexivity.
  Qed.

  Definition lastn (k : nat) (l : list X) : list X := skipn (length l - k) l.

  Lemma lastn_short k (l : list X) : (length l <= k)%nat -> lastn k l = l.
  Proof. intros H. unfold lastn. replace (length l - k)%nat with 0%nat by lia. reflexivity. Qed.

  Lemma lastn_length k (l : list X) : length (lastn k l) = Nat.min k (length l).
  Proof. unfold lastn. rewrite skipn_length. lia. Qed.

  Lemma lastn_lastn_app k (a b : list X) : lastn k (lastn k a ++ b) = lastn k (a ++ b).
  Proof.
    destruct (Nat.le_gt_cases (length a) k) as [H|H].
    - rewrite (lastn_short k a) by exact H. reflexivity.
    - unfold lastn at 1 3. rewrite !app_length, lastn_length.
      replace (Nat.min k (length a) + length b - k)%nat with (length b) by lia.
      replace (length a + length b - k)%nat with (length b + (length a - k))%nat by lia.
      rewrite <- skipn_skipn. f_equal. unfold lastn.
      rewrite skipn_app. replace (length a - k - length a)%nat with 0%nat by lia. reflexivity.
  Qed.

  Lemma push_neg_zero c buf x : bg < 0 -> en = 0 ->
      push c buf x = lastn (Z.to_nat (- bg)) (buf ++ [x]).
  Proof.
    intros Hb He. unfold push.
    destruct (((bg <? 0) || (0 <=? bg) && (bg <=? c)) && ((en <=? 0) || (c <? en))) eqn:E4; [|lia].
    destruct ((en =? 0) && (bg <? 0)) eqn:E5; [|lia].
    replace (Z.to_nat (Z.abs bg)) with (Z.to_nat (- bg)) by lia.
    destruct (Z.to_nat (- bg) <? length (buf ++ [x]))%nat eqn:E6.
    - reflexivity.
    - rewrite lastn_short by lia. reflexivity.
  Qed.

  (* begin < 0, end = 0: the buffer holds the last |begin| items seen *)
  Lemma go_neg_zero (rest : list X) : forall c buf, bg < 0 -> en = 0 ->
      (length buf <= Z.to_nat (- bg))%nat ->
      go (Z.of_nat c) buf rest = lastn (Z.to_nat (- bg)) (buf ++ rest).
  Proof.
    induction rest as [|x rest IH]; intros c buf Hb He Hl.
    - cbn [go]. unfold at_end. rewrite app_nil_r, lastn_short by exact Hl.
      destruct (0 <=? bg) eqn:E1; [lia|]. cbn [andb].
      destruct (en =? 0) eqn:E2; [|lia]. destruct (en <? 0) eqn:E3; [lia|].
      rewrite andb_false_r. reflexivity.
    - cbn [go]. replace (Z.of_nat c + 1) with (Z.of_nat (S c)) by lia.
      destruct ((0 <=? bg) && (bg <=? Z.of_nat c)) eqn:E1; [lia|].
      rewrite push_neg_zero by assumption.
      rewrite IH; try assumption.
      + rewrite lastn_lastn_app, <- app_assoc. reflexivity.
      + rewrite lastn_length. lia.
  Qed.

  Lemma push_neg_nonzero c buf x : bg < 0 -> en <> 0 ->
      push c buf x = if (en <? 0) || (c <? en) then buf ++ [x] else buf.
  Proof.
    intros Hb He. unfold push.
    destruct ((en =? 0) && (bg <? 0)) eqn:E5; [lia|].
    destruct ((en <? 0) || (c <? en)) eqn:E6;
      destruct (((bg <? 0) || (0 <=? bg) && (bg <=? c)) && ((en <=? 0) || (c <? en))) eqn:E4;
      try reflexivity; lia.
  Qed.

  (* begin < 0, end < 0: everything is buffered; at the end the first len+begin
     and the last |end| items are dropped *)
  Lemma go_neg_neg (rest : list X) : forall c buf, bg < 0 -> en < 0 ->
      go (Z.of_nat c) buf rest =
      pop_back_n (Z.to_nat (- en))
        (skipn (Z.to_nat (Z.of_nat c + Z.of_nat (length rest) + bg)) (buf ++ rest)).
  Proof.
    induction rest as [|x rest IH]; intros c buf Hb He.
    - cbn [go length]. unfold at_end, pop_front_n. rewrite app_nil_r.
      destruct (0 <=? bg) eqn:E1; [lia|]. cbn [andb].
      destruct (bg <? 0) eqn:E2; [|lia]. destruct (en =? 0) eqn:E3; [lia|].
      destruct (en <? 0) eqn:E4; [|lia]. cbn [negb andb].
      replace (Z.of_nat c + Z.of_nat 0 + bg) with (Z.of_nat c + bg) by lia. reflexivity.
    - cbn [go length]. replace (Z.of_nat c + 1) with (Z.of_nat (S c)) by lia.
      destruct ((0 <=? bg) && (bg <=? Z.of_nat c)) eqn:E1; [lia|].
      rewrite push_neg_nonzero by lia.
      destruct ((en <? 0) || (Z.of_nat c <? en)) eqn:E2; [|lia].
      rewrite IH by assumption. rewrite <- app_assoc. cbn [app].
      replace (Z.of_nat (S c) + Z.of_nat (length rest) + bg)
        with (Z.of_nat c + Z.of_nat (S (length rest)) + bg) by lia.
      reflexivity.
  Qed.

  (* begin < 0, end > 0: the items before end are buffered; at the end the
     first len+begin are dropped *)
  Lemma go_neg_pos (rest : list X) : forall c buf, bg < 0 -> 0 < en ->
      go (Z.of_nat c) buf rest =
      skipn (Z.to_nat (Z.of_nat c + Z.of_nat (length rest) + bg))
            (buf ++ firstn (Z.to_nat (en - Z.of_nat c)) rest).
  Proof.
    induction rest as [|x rest IH]; intros c buf Hb He.
    - cbn [go length]. unfold at_end, pop_front_n. rewrite firstn_nil, app_nil_r.
      destruct (0 <=? bg) eqn:E1; [lia|]. cbn [andb].
      destruct (bg <? 0) eqn:E2; [|lia]. destruct (en =? 0) eqn:E3; [lia|].
      destruct (en <? 0) eqn:E4; [lia|]. cbn [negb andb].
      replace (Z.of_nat c + Z.of_nat 0 + bg) with (Z.of_nat c + bg) by lia. reflexivity.
    - cbn [go length]. replace (Z.of_nat c + 1) with (Z.of_nat (S c)) by lia.
      destruct ((0 <=? bg) && (bg <=? Z.of_nat c)) eqn:E1; [lia|].
      rewrite push_neg_nonzero by lia.
      replace (Z.of_nat c + Z.of_nat (S (length rest)) + bg)
        with (Z.of_nat (S c) + Z.of_nat (length rest) + bg) by lia.
      rewrite IH by assumption.
      destruct ((en <? 0) || (Z.of_nat c <? en)) eqn:E2.
      + replace (Z.to_nat (en - Z.of_nat c)) with (S (Z.to_nat (en - Z.of_nat (S c)))) by lia.
        cbn [firstn]. rewrite <- app_assoc. reflexivity.
      + replace (Z.to_nat (en - Z.of_nat c)) with 0%nat by lia.
        replace (Z.to_nat (en - Z.of_nat (S c))) with 0%nat by lia. reflexivity.
  Qed.

  Lemma skipn_firstn_swap (l : list X) s e :
    skipn s (firstn e l) = firstn (e - s) (skipn s l).
  Proof.
    revert s e. induction l as [|x l IH]; intros s e.
    - rewrite firstn_nil, !skipn_nil, firstn_nil. reflexivity.
    - destruct e; [rewrite Nat.sub_0_l; cbn [firstn]; rewrite skipn_nil; reflexivity|].
      destruct s; [reflexivity|]. cbn [firstn skipn Nat.sub]. apply IH.
  Qed.

  Theorem limit_is_slice (l : list X) : limit bg en l = slice_spec bg en l.
  Proof.
    unfold limit, slice_spec. change (go 0 [] l) with (go (Z.of_nat 0) [] l).
    set (n := length l).
    destruct (Z.ltb_spec bg 0) as [Hb|Hb].
    - destruct (Z.eqb_spec en 0) as [He|He].
      + rewrite go_neg_zero by (try assumption; cbn; lia). cbn [app].
        unfold lastn. fold n.
        replace (Z.to_nat (Z.max 0 (Z.of_nat n + bg))) with (n - Z.to_nat (- bg))%nat by lia.
        rewrite firstn_all2; [reflexivity|]. rewrite skipn_length. fold n. lia.
      + destruct (Z.ltb_spec en 0) as [He'|He'].
        * rewrite go_neg_neg by assumption. cbn [app]. fold n. unfold pop_back_n.
          rewrite skipn_length. fold n.
          replace (Z.to_nat (Z.of_nat 0 + Z.of_nat n + bg)) with (Z.to_nat (Z.max 0 (Z.of_nat n + bg))) by lia.
          f_equal. lia.
        * rewrite go_neg_pos by lia. cbn [app]. fold n.
          replace (Z.to_nat (Z.of_nat 0 + Z.of_nat n + bg)) with (Z.to_nat (Z.max 0 (Z.of_nat n + bg))) by lia.
          rewrite skipn_firstn_swap. f_equal. lia.
    - destruct (Z.ltb_spec en 0) as [He|He].
      + rewrite go_pos_neg by lia. cbn [app]. unfold pop_back_n. rewrite skipn_length. fold n.
        destruct (Z.eqb_spec en 0); [lia|].
        replace (Z.to_nat (bg - Z.of_nat 0)) with (Z.to_nat bg) by lia. f_equal. lia.
      + rewrite go_pos by lia. cbv zeta. fold n.
        replace (Z.to_nat (bg - Z.of_nat 0)) with (Z.to_nat bg) by lia.
        destruct (en =? 0); f_equal; lia.
  Qed.
End Limit.
