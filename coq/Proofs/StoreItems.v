(* The adding operations only add items (items_grow), and a freshly resolved leaf selector
   names existing items. *)
From Stam Require Import Base.Tac Base.ListAux Model.Offset Model.Store Model.StoreObs Spec.StoreSpec
     Proofs.RelMap Proofs.StoreScan Proofs.StoreInv Proofs.StoreDataDef.

Lemma slot_lt {X} (l : list (option X)) h v : slot l h = Some v -> h < length l.
Proof. unfold slot. intros H. destruct (lt_dec h (length l)); [assumption|]. rewrite nth_overflow in H by lia. discriminate. Qed.

Lemma add_res_grow s id len : items_grow s (fst (add_res s id len)).
Proof.
  unfold add_res. destruct (id_get (ridx s) id) as [h|].
  - destruct (get_res s h) as [r|]; [destruct (r_len r =? len)|]; apply items_grow_refl.
  - cbn [fst]. split.
    + intros r rs H. exists rs. split; [|lia]. unfold get_res in *. cbn [set_ridx set_ress ress]. rewrite slot_app_new.
      destruct (r =? length (ress s)) eqn:E; [|exact H]. apply slot_lt in H. lia.
    + intros d ds H. exists ds. split; [exact H|split; tauto].
Qed.

Lemma add_set_items s id : items_grow s (fst (add_set s id)).
Proof.
  unfold add_set. destruct (id_get (sidx s) id) as [h|].
  - destruct (get_set s h) as [d|]; [destruct (dset_is_empty d)|]; apply items_grow_refl.
  - cbn [fst]. split.
    + intros r rs H. exists rs. split; [exact H|lia].
    + intros d ds H. exists ds. split; [|split; tauto]. unfold get_set in *. cbn [set_sidx set_sets sets]. rewrite slot_app_new.
      destruct (d =? length (sets s)) eqn:E; [|exact H]. apply slot_lt in H. lia.
Qed.

Lemma slot_app_keep {X} (l : list (option X)) v h : slot l h <> None -> slot (l ++ [v]) h <> None.
Proof.
  intros H. rewrite slot_app_new. destruct (h =? length l) eqn:E; [|exact H].
  exfalso. apply H. unfold slot. apply nth_overflow. lia.
Qed.

Lemma dset_insert_items d id key v :
  let d' := fst (dset_insert_data d id key v) in
  (forall k, slot (d_keys d) k <> None -> slot (d_keys d') k <> None)
  /\ (forall x, slot (d_data d) x <> None -> slot (d_data d') x <> None).
Proof.
  unfold dset_insert_data.
  destruct (match id with Some r => ref_data d r | None => None end) as [h|]; [cbn [fst]; split; tauto|].
  destruct key as [kr|]; [|cbn [fst]; split; tauto].
  destruct (ref_key d kr) as [k|].
  - cbn [negb]. destruct (match id with None => data_by_value d k v | Some _ => None end) as [h|]; cbn [fst]; [split; tauto|].
    cbn [d_keys d_data]. split; [tauto|]. intros x Hx. apply slot_app_keep. exact Hx.
  - destruct kr as [tok|h0]; [|cbn [fst]; split; tauto]. cbn [negb fst d_keys d_data].
    split; intros x Hx; apply slot_app_keep; exact Hx.
Qed.

Lemma store_insert_data_items s b : items_grow s (fst (store_insert_data s b)).
Proof.
  unfold store_insert_data.
  set (tok := match db_set b with ById tok => tok | ByHandle _ => DEFAULT_SET_TOKEN end).
  assert (Core : forall s1 h, items_grow s s1 ->
     items_grow s (fst (match get_set s1 h with
                        | None => (s1, None)
                        | Some d =>
                            match dset_insert_data d (db_id b) (db_key b) (db_val b) with
                            | (d', OOk x) => (set_sets s1 (set_slot (sets s1) h (Some d')), Some (h, x))
                            | (d', _) => (set_sets s1 (set_slot (sets s1) h (Some d')), None)
                            end
                        end))).
  { intros s1 h G. destruct (get_set s1 h) as [d|] eqn:Eg; [|exact G].
    pose proof (dset_insert_items d (db_id b) (db_key b) (db_val b)) as DI.
    destruct (dset_insert_data d (db_id b) (db_key b) (db_val b)) as [d' r]. cbn [fst] in DI. destruct DI as (DK & DX).
    assert (G' : items_grow s1 (set_sets s1 (set_slot (sets s1) h (Some d')))).
    { split; [intros r0 rs H; exists rs; split; [exact H|lia]|].
      intros d0 ds H. unfold get_set. cbn [set_sets sets]. rewrite slot_set_slot.
      destruct (d0 =? h) eqn:E; cbn [andb]; [|exists ds; split; [exact H|split; tauto]].
      assert (d0 = h) by lia. subst d0. rewrite Eg in H. inversion H; subst ds.
      destruct (h <? length (sets s1)) eqn:E2.
      - exists d'. split; [reflexivity|split; assumption].
      - exists d. split; [exact Eg|split; tauto]. }
    destruct r; cbn [fst]; eapply items_grow_trans; eassumption. }
  destruct (ref_set s (db_set b)) as [h|].
  - apply (Core s h (items_grow_refl s)).
  - pose proof (add_set_items s tok) as G. destruct (add_set s tok) as [s1 [h| |]]; cbn [fst] in G; try exact G.
    apply (Core s1 h G).
Qed.

Lemma insert_datas_items l : forall s, items_grow s (fst (insert_datas s l)).
Proof.
  induction l as [|b l IH]; intros s; cbn [insert_datas]; [apply items_grow_refl|].
  pose proof (store_insert_data_items s b) as G1. destruct (store_insert_data s b) as [s1 [dx|]]; cbn [fst] in G1; [|exact G1].
  specialize (IH s1). destruct (insert_datas s1 l) as [s2 [dxs|]]; cbn [fst] in *; eapply items_grow_trans; eassumption.
Qed.

(* find_sel finds an index inside the list *)
Lemma find_sel_lt l t : forall i h, find_sel l t i = Some h -> i <= h < i + length l.
Proof.
  induction l as [|u l IH]; intros i h; cbn [find_sel length]; [discriminate|].
  destruct (_ && _).
  - intros H; inversion H; subst. lia.
  - intros H. apply IH in H. lia.
Qed.

Lemma intern_sel_items s r rs rg : get_res s r = Some rs ->
  let '(s', t) := intern_sel s r rs rg in
  items_grow s s' /\ exists rs', get_res s' r = Some rs' /\ t < length (r_sels rs').
Proof.
  intros Hr. unfold intern_sel. destruct (find_sel (r_sels rs) rg 0) as [t|] eqn:E.
  - split; [apply items_grow_refl|]. exists rs. split; [exact Hr|]. apply find_sel_lt in E. lia.
  - pose proof (slot_lt _ _ _ Hr) as Hlt.
    assert (Hget : forall r0, get_res (set_ress s (set_slot (ress s) r (Some (mkres (r_id rs) (r_len rs) (r_sels rs ++ [rg]))))) r0
                   = if r0 =? r then Some (mkres (r_id rs) (r_len rs) (r_sels rs ++ [rg])) else get_res s r0).
    { intros r0. unfold get_res. cbn [set_ress ress]. rewrite slot_set_slot. destruct (r0 =? r) eqn:E0; cbn [andb]; [|reflexivity].
      destruct (r <? length (ress s)) eqn:E2; [reflexivity|lia]. }
    split.
    + split.
      * intros r0 rs0 H. rewrite Hget. destruct (r0 =? r) eqn:E0.
        -- assert (r0 = r) by lia. subst r0. rewrite Hr in H. inversion H; subst rs0. eexists. split; [reflexivity|].
           cbn [r_sels]. rewrite app_length. lia.
        -- exists rs0. split; [exact H|lia].
      * intros d ds H. exists ds. split; [exact H|split; tauto].
    + eexists. split; [rewrite Hget, Nat.eqb_refl; reflexivity|]. cbn [r_sels]. rewrite app_length. cbn [length]. lia.
Qed.

Lemma ref_res_live s r h : ref_res s r = Some h -> exists rs, get_res s h = Some rs.
Proof.
  unfold ref_res, resolve_ref, get_res. destruct r as [tok|h0].
  - destruct (id_get (ridx s) tok) as [h1|]; [|discriminate]. destruct (slot (ress s) h1) as [x|] eqn:E; [|discriminate].
    intros H; inversion H; subst. exists x. exact E.
  - destruct (slot (ress s) h0) as [x|] eqn:E; [|discriminate]. intros H; inversion H; subst. exists x. exact E.
Qed.
Lemma ref_set_live s r h : ref_set s r = Some h -> exists ds, get_set s h = Some ds.
Proof.
  unfold ref_set, resolve_ref, get_set. destruct r as [tok|h0].
  - destruct (id_get (sidx s) tok) as [h1|]; [|discriminate]. destruct (slot (sets s) h1) as [x|] eqn:E; [|discriminate].
    intros H; inversion H; subst. exists x. exact E.
  - destruct (slot (sets s) h0) as [x|] eqn:E; [|discriminate]. intros H; inversion H; subst. exists x. exact E.
Qed.
Lemma ref_key_live ds r k : ref_key ds r = Some k -> slot (d_keys ds) k <> None.
Proof.
  unfold ref_key, resolve_ref. destruct r as [tok|h0].
  - destruct (id_get (d_kidx ds) tok) as [h1|]; [|discriminate]. destruct (slot (d_keys ds) h1) eqn:E; [|discriminate].
    intros H; inversion H; subst. congruence.
  - destruct (slot (d_keys ds) h0) eqn:E; [|discriminate]. intros H; inversion H; subst. congruence.
Qed.
Lemma ref_data_live ds r x : ref_data ds r = Some x -> slot (d_data ds) x <> None.
Proof.
  unfold ref_data, resolve_ref. destruct r as [tok|h0].
  - destruct (id_get (d_xidx ds) tok) as [h1|]; [|discriminate]. destruct (slot (d_data ds) h1) eqn:E; [|discriminate].
    intros H; inversion H; subst. congruence.
  - destruct (slot (d_data ds) h0) eqn:E; [|discriminate]. intros H; inversion H; subst. congruence.
Qed.

Lemma resolve_simple_items s b :
  let '(s', r) := resolve_simple s b in
  items_grow s s' /\ (forall lf, r = Some lf -> item_ref_ok s' lf).
Proof.
  destruct b as [rr o|ar [o|]|rr|dr|dr kr|dr xr|k l]; cbn [resolve_simple];
    try (split; [apply items_grow_refl|intros lf H; discriminate]).
  - destruct (ref_res s rr) as [r|] eqn:Er; [|split; [apply items_grow_refl|intros lf H; discriminate]].
    destruct (get_res s r) as [rs|] eqn:Eg; [|split; [apply items_grow_refl|intros lf H; discriminate]].
    destruct (resource_ts (r_len rs) o) as [rg|]; [|split; [apply items_grow_refl|intros lf H; discriminate]].
    pose proof (intern_sel_items s r rs rg Eg) as I. destruct (intern_sel s r rs rg) as [s' t]. destruct I as (G & rs' & H1 & H2).
    split; [exact G|]. intros lf H; inversion H; subst. cbn [item_ref_ok]. exists rs'. tauto.
  - destruct (ref_ann s ar) as [a|]; [|split; [apply items_grow_refl|intros lf H; discriminate]].
    destruct (get_ann s a) as [an|]; [|split; [apply items_grow_refl|intros lf H; discriminate]].
    destruct (ann_textsel s an) as [[[r t] prg]|]; [|split; [apply items_grow_refl|intros lf H; inversion H; subst; exact I]].
    destruct (selection_ts prg o) as [rg|]; [|split; [apply items_grow_refl|intros lf H; discriminate]].
    destruct (get_res s r) as [rs|] eqn:Eg; [|split; [apply items_grow_refl|intros lf H; discriminate]].
    pose proof (intern_sel_items s r rs rg Eg) as I. destruct (intern_sel s r rs rg) as [s' t']. destruct I as (G & rs' & H1 & H2).
    split; [exact G|]. intros lf H; inversion H; subst. cbn [item_ref_ok]. exists rs'. tauto.
  - destruct (ref_ann s ar) as [a|]; (split; [apply items_grow_refl|intros lf H; inversion H; subst; exact I]).
  - destruct (ref_res s rr) as [r|] eqn:Er; (split; [apply items_grow_refl|intros lf H; inversion H; subst]).
    cbn [item_ref_ok]. destruct (ref_res_live s rr r Er) as (rs & Hrs). congruence.
  - destruct (ref_set s dr) as [d|] eqn:Ed; (split; [apply items_grow_refl|intros lf H; inversion H; subst]).
    cbn [item_ref_ok]. destruct (ref_set_live s dr d Ed) as (ds & Hds). congruence.
  - destruct (ref_set s dr) as [d|] eqn:Ed; [|split; [apply items_grow_refl|intros lf H; discriminate]].
    destruct (get_set s d) as [ds|] eqn:Eg; [|split; [apply items_grow_refl|intros lf H; discriminate]].
    destruct (ref_key ds kr) as [k|] eqn:Ek; (split; [apply items_grow_refl|intros lf H; inversion H; subst]).
    cbn [item_ref_ok]. exists ds. split; [exact Eg|apply (ref_key_live ds kr k Ek)].
  - destruct (ref_set s dr) as [d|] eqn:Ed; [|split; [apply items_grow_refl|intros lf H; discriminate]].
    destruct (get_set s d) as [ds|] eqn:Eg; [|split; [apply items_grow_refl|intros lf H; discriminate]].
    destruct (ref_data ds xr) as [x|] eqn:Ex; (split; [apply items_grow_refl|intros lf H; inversion H; subst]).
    cbn [item_ref_ok]. exists ds. split; [exact Eg|apply (ref_data_live ds xr x Ex)].
Qed.

Lemma resolve_subs_items l : forall s,
  let '(s', r) := resolve_subs s l in
  items_grow s s' /\ (forall lfs, r = Some lfs -> forall lf, In lf lfs -> item_ref_ok s' lf).
Proof.
  induction l as [|b l IH]; intros s; cbn [resolve_subs].
  - split; [apply items_grow_refl|]. intros lfs H; inversion H; subst. intros lf [].
  - pose proof (resolve_simple_items s b) as R1. destruct (resolve_simple s b) as [s1 [lf1|]]; destruct R1 as (G1 & L1);
      [|split; [exact G1|intros lfs H; discriminate]].
    specialize (IH s1). destruct (resolve_subs s1 l) as [s2 [lfs|]]; destruct IH as (G2 & L2);
      (split; [eapply items_grow_trans; eassumption|]); intros lfs' H; try discriminate.
    inversion H; subst lfs'. intros lf [<-|Hin].
    + apply (item_ref_ok_grow s1 s2 lf1 G2). apply (L1 lf1 eq_refl).
    + apply (L2 lfs eq_refl lf Hin).
Qed.

Lemma resolve_target_items s b :
  let '(s', r) := resolve_target s b in
  items_grow s s' /\ (forall k lfs, r = Some (k, lfs) -> forall lf, In lf lfs -> item_ref_ok s' lf).
Proof.
  destruct b; cbn [resolve_target];
    try (match goal with |- context [resolve_simple ?s0 ?b0] =>
           pose proof (resolve_simple_items s0 b0) as R; destruct (resolve_simple s0 b0) as [s' [lf|]]; destruct R as (G & L);
           (split; [exact G|]); intros k0 lfs H; inversion H; subst; intros lf0 [<-|[]]; apply (L lf eq_refl) end).
  pose proof (resolve_subs_items l s) as R. destruct (resolve_subs s l) as [s' [lfs|]]; destruct R as (G & L);
    (split; [exact G|]); intros k0 lfs0 H; inversion H; subst. exact (L lfs0 eq_refl).
Qed.
