(* C20: proofs about the interleaving model (Model/Conc.v).

   The invariant [on_path]: what thread i has emitted so far, followed by the static reading of
   what is left of its program under the mode it currently sees, is the static reading of its
   whole program; and everything it has written to stand-off files is member content.
     own_step            kept by every step of thread i itself (both designs)
     step_other_local    mode confined to the thread (sh = false): kept by every step of every
                         other thread, unconditionally
     step_other_shared   shared mode cell (sh = true): kept provided thread i is straight-line or
                         no other thread can write the cell
   Consequences
     independent_generic   sh = false: any programs, any number of threads, any schedule
     solo_generic          a thread running alone produces its static reading (both designs)
     alone_or_not          sh = false: result under any schedule = result alone
     sem_prog              the static reading of every entry point = Spec.spec_out
     scenario_independent  entry points, any store, any schedule: the property, unguarded
     run_coarse_is_run     the yield-site granularity of the harness is a special case
     shared_guarded, shared_readers_independent, shared_refuted_...
                           the design before fix 5f67dd0: guarded statement and the witnesses *)
From Coq Require Import List Arith Bool Lia.
Import ListNotations.
From Stam Require Import Model.Conc Spec.ConcSpec.

(* ---------- lists ---------- *)
Lemma nth_error_upd_eq : forall (X : Type) (l : list X) i x y,
  nth_error l i = Some y -> nth_error (upd i x l) i = Some x.
Proof.
  induction l as [|a l IH]; intros [|i] x y H; cbn in *; try discriminate; auto.
  eapply IH; eauto.
Qed.

Lemma nth_error_upd_neq : forall (X : Type) (l : list X) i j x,
  i <> j -> nth_error (upd i x l) j = nth_error l j.
Proof.
  induction l as [|a l IH]; intros [|i] [|j] x H; cbn; auto; try congruence.
Qed.

Lemma others_in : forall (X : Type) (l : list X) i j x,
  j <> i -> nth_error l j = Some x -> In x (others i l).
Proof.
  induction l as [|a l IH]; intros i j x Hn H.
  - destruct j; discriminate.
  - destruct i as [|i]; destruct j as [|j]; cbn in *.
    + congruence.
    + exact (nth_error_In _ _ H).
    + injection H as ->. now left.
    + right. apply (IH i j x); [congruence | exact H].
Qed.

(* ---------- flags only fall ---------- *)
Definition le_flags (a b : list bool) : Prop := forall i, flag i a = true -> flag i b = true.

Lemma le_flags_refl : forall a, le_flags a a.
Proof. intros a i H; exact H. Qed.

Lemma le_flags_trans : forall a b c, le_flags a b -> le_flags b c -> le_flags a c.
Proof. intros a b c H1 H2 i H; auto. Qed.

Lemma flag_clear_true : forall fl i j, flag j (clear i fl) = true -> flag j fl = true.
Proof.
  unfold flag. induction fl as [|b fl IH]; intros [|i] [|j] H; cbn in *; auto; try discriminate.
  eapply IH; eauto.
Qed.

Lemma le_flags_clear : forall fl i, le_flags (clear i fl) fl.
Proof. intros fl i j H. eapply flag_clear_true; eauto. Qed.

(* ---------- unfolding the nested fixpoints ---------- *)
Lemma sem_cmd_IfMode : forall m a n, sem_cmd m (IfMode a n) = sem m (branch m a n).
Proof.
  assert (E : forall l m,
    (fix sem_l (m : mode) (l : list cmd) {struct l} : option (list tok * mode) :=
       match l with
       | [] => Some ([], m)
       | c :: l' =>
           match sem_cmd m c with
           | Some (o1, m1) =>
               match sem_l m1 l' with
               | Some (o2, m2) => Some (o1 ++ o2, m2)
               | None => None
               end
           | None => None
           end
       end) m l = sem m l).
  { induction l as [|c l IH]; intros m; cbn [sem]; [reflexivity|].
    destruct (sem_cmd m c) as [[o1 m1]|]; [rewrite IH|]; reflexivity. }
  intros [] a n; cbn [sem_cmd branch]; apply E.
Qed.

Lemma sem_cmd_IfChanged : forall m i b,
  sem_cmd m (IfChanged i b) =
  match sem m b with
  | Some ([], m') => if mode_eqb m' m then Some ([], m) else None
  | _ => None
  end.
Proof.
  assert (E : forall l m,
    (fix sem_l (m : mode) (l : list cmd) {struct l} : option (list tok * mode) :=
       match l with
       | [] => Some ([], m)
       | c :: l' =>
           match sem_cmd m c with
           | Some (o1, m1) =>
               match sem_l m1 l' with
               | Some (o2, m2) => Some (o1 ++ o2, m2)
               | None => None
               end
           | None => None
           end
       end) m l = sem m l).
  { induction l as [|c l IH]; intros m; cbn [sem]; [reflexivity|].
    destruct (sem_cmd m c) as [[o1 m1]|]; [rewrite IH|]; reflexivity. }
  intros m i b; cbn [sem_cmd]; rewrite E; reflexivity.
Qed.

Lemma nw_cmd_IfMode : forall c0 a n, nw_cmd c0 (IfMode a n) = nw c0 a && nw c0 n.
Proof.
  intros c0.
  assert (E : forall l,
    (fix nw_l (l : list cmd) {struct l} : bool :=
       match l with [] => true | c :: l' => nw_cmd c0 c && nw_l l' end) l = nw c0 l).
  { induction l as [|c l IH]; cbn; [reflexivity|]. now rewrite IH. }
  intros a n; cbn [nw_cmd]; now rewrite !E.
Qed.

Lemma nw_cmd_IfChanged : forall c0 i b,
  nw_cmd c0 (IfChanged i b) = if flag i c0 then nw c0 b else true.
Proof.
  intros c0.
  assert (E : forall l,
    (fix nw_l (l : list cmd) {struct l} : bool :=
       match l with [] => true | c :: l' => nw_cmd c0 c && nw_l l' end) l = nw c0 l).
  { induction l as [|c l IH]; cbn; [reflexivity|]. now rewrite IH. }
  intros i b; cbn [nw_cmd]; now rewrite E.
Qed.

Lemma nw_app : forall c0 a b, nw c0 (a ++ b) = nw c0 a && nw c0 b.
Proof. intros; unfold nw; apply forallb_app. Qed.

Lemma nw_cons : forall c0 c k, nw c0 (c :: k) = nw_cmd c0 c && nw c0 k.
Proof. reflexivity. Qed.

(* ---------- the static reading composes ---------- *)
Lemma sem_app : forall a b m,
  sem m (a ++ b) =
  match sem m a with
  | Some (o1, m1) =>
      match sem m1 b with
      | Some (o2, m2) => Some (o1 ++ o2, m2)
      | None => None
      end
  | None => None
  end.
Proof.
  induction a as [|c a IH]; intros b m; cbn [app sem].
  - destruct (sem m b) as [[o2 m2]|]; reflexivity.
  - destruct (sem_cmd m c) as [[o1 m1]|]; [|reflexivity].
    rewrite IH. destruct (sem m1 a) as [[oa ma]|]; [|reflexivity].
    destruct (sem ma b) as [[o2 m2]|]; [|reflexivity].
    now rewrite app_assoc.
Qed.

Lemma mode_eqb_eq : forall a b, mode_eqb a b = true -> a = b.
Proof. intros [] []; cbn; congruence. Qed.

(* a straight-line program reads the same under every mode *)
Lemma sem_straight : forall l m o mm, straight l = true -> sem m l = Some (o, mm) ->
  forall m2, exists mm2, sem m2 l = Some (o, mm2).
Proof.
  induction l as [|c l IH]; intros m o mm S H m2; cbn [sem] in *.
  - injection H as <- <-. eauto.
  - cbn [straight forallb] in S. apply andb_true_iff in S as [Sc Sl].
    destruct c; cbn [straight_cmd] in Sc; try discriminate; cbn [sem_cmd] in *;
      (destruct (sem _ l) as [[o2 mx]|] eqn:E in H; [|discriminate]);
      injection H as <- <-;
      match type of E with sem ?mq l = _ =>
        first [ destruct (IH mq o2 mx Sl E m2) as [mm2 E2]; rewrite E2; eauto
              | rewrite E; eauto ] end.
Qed.

(* ---------- one step of thread i itself (both designs) ---------- *)
Lemma files_ok_snoc : forall t f x k md' ou de,
  files_ok t -> x = t_inline f -> files_ok (mkT k md' ou (fout t ++ [(f, x)]) de).
Proof.
  intros t f x k md' ou de H ->. unfold files_ok in *. cbn [fout].
  apply Forall_app. split; [exact H|]. constructor; [reflexivity|constructor].
Qed.

Ltac straight_tail :=
  cbn [straight forallb]; let S := fresh "S" in intros S; apply andb_true_iff in S; tauto.
Ltac no_straight := cbn [straight forallb straight_cmd andb]; discriminate.

Lemma own_step : forall sh m fl t o mm m1 fl1 t1,
  sem (cur_mode sh m t) (stk t) = Some (o, mm) -> dead t = false -> files_ok t ->
  step1 sh m fl t = (m1, fl1, t1) ->
  (exists o1 mm1, sem (cur_mode sh m1 t1) (stk t1) = Some (o1, mm1) /\ out t1 ++ o1 = out t ++ o)
  /\ dead t1 = false /\ files_ok t1
  /\ (straight (stk t) = true -> straight (stk t1) = true)
  /\ le_flags fl1 fl.
Proof.
  intros sh m fl t o mm m1 fl1 t1 Hs Hd Hf Hst. unfold step1 in Hst.
  destruct t as [s tm ou fo de]; cbn [stk tmd out fout dead] in *. subst de.
  assert (Hf0 : forall k' tm' ou', files_ok (mkT k' tm' ou' fo false)) by (intros; exact Hf).
  assert (Hcm : forall m' k' ou' fo', cur_mode sh m' (mkT k' tm ou' fo' false) = cur_mode sh m' (mkT s tm ou fo false))
    by (intros; destruct sh; reflexivity).
  destruct s as [|c k].
  - injection Hst as <- <- <-. cbn [stk out dead]. split; [eauto|]. repeat split; auto using le_flags_refl.
  - cbn [sem] in Hs.
    destruct c.
    + (* Yield *) injection Hst as <- <- <-. cbn [sem_cmd] in Hs. cbn [stk out dead].
      destruct (sem _ k) as [[o2 m2]|] eqn:E in Hs; [|discriminate]. injection Hs as <- <-.
      split; [exists o2, m2; rewrite Hcm; auto|].
      repeat split; auto using le_flags_refl. all: try straight_tail.
    + (* Emit *) injection Hst as <- <- <-. cbn [sem_cmd] in Hs. cbn [stk out dead].
      destruct (sem _ k) as [[o2 m2]|] eqn:E in Hs; [|discriminate]. injection Hs as <- <-.
      split; [exists o2, m2; rewrite Hcm; split; [exact E | now rewrite <- app_assoc]|].
      repeat split; auto using le_flags_refl. all: try straight_tail.
    + (* FEmit *) injection Hst as <- <- <-. cbn [sem_cmd] in Hs. cbn [stk out dead].
      destruct (Nat.eqb t (t_inline f)) eqn:Et; [|discriminate]. apply Nat.eqb_eq in Et.
      destruct (sem _ k) as [[o2 m2]|] eqn:E in Hs; [|discriminate]. injection Hs as <- <-.
      split; [exists o2, m2; rewrite Hcm; auto|].
      split; [reflexivity|]. split; [apply (files_ok_snoc (mkT (FEmit f t :: k) tm ou fo false)); auto|].
      split; [no_straight | apply le_flags_refl].
    + (* SetMode *) cbn [sem_cmd] in Hs.
      destruct (sem m0 k) as [[o2 m2]|] eqn:E in Hs; [|discriminate]. injection Hs as <- <-.
      destruct sh; injection Hst as <- <- <-; cbn [stk out dead cur_mode tmd];
        (split; [exists o2, m2; auto|]; repeat split; auto using le_flags_refl; try straight_tail).
    + (* IfMode *) injection Hst as <- <- <-. cbn [stk out dead].
      rewrite sem_cmd_IfMode in Hs.
      destruct (sem _ (branch _ a n)) as [[oa ma]|] eqn:Ea in Hs; [|discriminate].
      destruct (sem ma k) as [[o2 m2]|] eqn:E; [|discriminate]. injection Hs as <- <-.
      split; [exists (oa ++ o2), m2; rewrite Hcm; split; [rewrite sem_app, Ea, E; reflexivity | reflexivity]|].
      repeat split; auto using le_flags_refl. all: try no_straight.
    + (* IfChanged *) injection Hst as <- <- <-. cbn [stk out dead].
      rewrite sem_cmd_IfChanged in Hs.
      destruct (sem _ body) as [[[|x ob] mb]|] eqn:Eb in Hs; try discriminate.
      destruct (mode_eqb mb _) eqn:Em in Hs; [|discriminate]. apply mode_eqb_eq in Em. subst mb.
      destruct (sem _ k) as [[o2 m2]|] eqn:E in Hs; [|discriminate]. injection Hs as <- <-.
      split; [exists o2, m2; rewrite Hcm; split; [|reflexivity];
              destruct (flag i fl); [rewrite sem_app, Eb, E; reflexivity | exact E]|].
      repeat split; auto using le_flags_refl. all: try no_straight.
    + (* ClearChanged *) injection Hst as <- <- <-. cbn [sem_cmd] in Hs. cbn [stk out dead].
      destruct (sem _ k) as [[o2 m2]|] eqn:E in Hs; [|discriminate]. injection Hs as <- <-.
      split; [exists o2, m2; rewrite Hcm; auto|].
      repeat split; auto using le_flags_clear. all: try straight_tail.
    + (* EndCall *) injection Hst as <- <- <-. cbn [sem_cmd] in Hs. cbn [stk out dead].
      destruct (sem _ k) as [[o2 m2]|] eqn:E in Hs; [|discriminate]. injection Hs as <- <-.
      split; [exists o2, m2; rewrite Hcm; split; [exact E | now rewrite <- app_assoc]|].
      repeat split; auto using le_flags_refl. all: try straight_tail.
    + (* Fail *) cbn [sem_cmd] in Hs. discriminate.
    + (* Abort *) cbn [sem_cmd] in Hs. discriminate.
Qed.

(* ---------- shared cell: one step of a thread that cannot write it ---------- *)
Lemma nw_next_call : forall c0 k, nw c0 k = true -> nw c0 (next_call k) = true.
Proof.
  induction k as [|c k IH]; intros H; [reflexivity|].
  rewrite nw_cons in H. apply andb_true_iff in H as [Hc Hk].
  destruct c; cbn [next_call]; auto.
Qed.

Lemma nw_step1 : forall c0 m fl t m1 fl1 t1,
  le_flags fl c0 -> nw c0 (stk t) = true ->
  step1 true m fl t = (m1, fl1, t1) ->
  m1 = m /\ nw c0 (stk t1) = true.
Proof.
  intros c0 m fl t m1 fl1 t1 Hle Hn Hst. unfold step1 in Hst.
  destruct t as [s tm ou fo de]; cbn [stk tmd out fout dead cur_mode] in *.
  destruct s as [|c k].
  - injection Hst as <- <- <-. auto.
  - rewrite nw_cons in Hn. apply andb_true_iff in Hn as [Hc Hk].
    destruct c; injection Hst as <- <- <-; cbn [stk]; auto.
    + cbn in Hc. discriminate.
    + rewrite nw_cmd_IfMode in Hc. apply andb_true_iff in Hc as [Ha Hb].
      split; [reflexivity|]. rewrite nw_app, Hk. destruct m; cbn [branch]; rewrite ?Ha, ?Hb; reflexivity.
    + rewrite nw_cmd_IfChanged in Hc. split; [reflexivity|].
      destruct (flag i fl) eqn:F; [|exact Hk].
      rewrite (Hle i F) in Hc. now rewrite nw_app, Hc, Hk.
    + split; [reflexivity|]. apply nw_next_call; exact Hk.
Qed.

Lemma step1_flags : forall sh m fl t m1 fl1 t1, step1 sh m fl t = (m1, fl1, t1) -> le_flags fl1 fl.
Proof.
  intros sh m fl t m1 fl1 t1 H. unfold step1 in H.
  destruct (stk t) as [|c k]; [injection H as <- <- <-; apply le_flags_refl|].
  destruct c; try (injection H as <- <- <-; auto using le_flags_refl, le_flags_clear).
  destruct sh; injection H as <- <- <-; apply le_flags_refl.
Qed.

(* ---------- the invariant ---------- *)
Definition on_path (sh : bool) (i : nat) (total : list tok) (st : state) : Prop :=
  exists t o' m', nth_error (thr st) i = Some t
                  /\ sem (cur_mode sh (md st) t) (stk t) = Some (o', m')
                  /\ out t ++ o' = total /\ dead t = false /\ files_ok t.

Lemma step_own_inv : forall sh i total st,
  on_path sh i total st -> on_path sh i total (step sh i st).
Proof.
  intros sh i total st (t & o' & m' & Hn & Hs & Ho & Hd & Hf).
  unfold step. rewrite Hn.
  destruct (step1 sh (md st) (flags st) t) as [[m1 fl1] t1] eqn:E.
  destruct (own_step _ _ _ _ _ _ _ _ _ Hs Hd Hf E) as ((o1 & mm1 & Hs1 & Ho1) & Hd1 & Hf1 & _ & _).
  exists t1, o1, mm1. cbn [md thr]. repeat split; auto.
  - eapply nth_error_upd_eq; eauto.
  - congruence.
Qed.

(* mode confined to the thread: nobody else matters *)
Lemma step_other_local : forall i j total st,
  j <> i -> on_path false i total st -> on_path false i total (step false j st).
Proof.
  intros i j total st Hji (t & o' & m' & Hn & Hs & Ho & Hd & Hf).
  unfold step. destruct (nth_error (thr st) j) as [tj|] eqn:Hnj.
  2:{ exists t, o', m'. auto. }
  destruct (step1 false (md st) (flags st) tj) as [[m1 fl1] t1] eqn:E.
  exists t, o', m'. cbn [md thr cur_mode] in *. repeat split; auto.
  rewrite nth_error_upd_neq; auto.
Qed.

Lemma run_inv_local : forall i total sched st,
  on_path false i total st -> on_path false i total (run false sched st).
Proof.
  intros i total sched. induction sched as [|j sched IH]; intros st Hp; cbn [run fold_left]; [exact Hp|].
  apply IH. destruct (Nat.eq_dec j i) as [->|Hji].
  - apply step_own_inv; auto.
  - apply step_other_local; auto.
Qed.

Lemma run_solo_inv : forall sh i total n st,
  on_path sh i total st -> on_path sh i total (run sh (repeat i n) st).
Proof.
  intros sh i total n. induction n as [|n IH]; intros st Hp; cbn [repeat run fold_left]; [exact Hp|].
  apply IH. apply step_own_inv; auto.
Qed.

Lemma on_path_finished : forall sh i total st,
  on_path sh i total st ->
  exists t, nth_error (thr st) i = Some t /\ dead t = false /\ files_ok t
            /\ (finished t = true -> out t = total)
            /\ exists rest, out t ++ rest = total.
Proof.
  intros sh i total st (t & o' & m' & Hn & Hs & Ho & Hd & Hf). exists t. repeat split; auto.
  - unfold finished. destruct (stk t); [|discriminate]. intros _. cbn in Hs. injection Hs as <- <-.
    now rewrite app_nil_r in Ho.
  - eauto.
Qed.

Lemma on_path_start : forall sh i st t o m1,
  nth_error (thr st) i = Some t -> dead t = false -> out t = [] -> fout t = [] ->
  sem (cur_mode sh (md st) t) (stk t) = Some (o, m1) -> on_path sh i o st.
Proof.
  intros sh i st t o m1 Hn Hd Ho Hf Hs. exists t, o, m1. rewrite Ho. repeat split; auto.
  unfold files_ok. rewrite Hf. constructor.
Qed.

(* ---------- the generic theorems ---------- *)
(* mode confined to the thread: any programs, any number of threads, any schedule *)
Theorem independent_generic : forall i sched st t o m1,
  nth_error (thr st) i = Some t -> dead t = false -> out t = [] -> fout t = [] ->
  sem (tmd t) (stk t) = Some (o, m1) ->
  exists t', nth_error (thr (run false sched st)) i = Some t' /\ dead t' = false /\ files_ok t'
             /\ (finished t' = true -> out t' = o)
             /\ exists rest, out t' ++ rest = o.
Proof.
  intros i sched st t o m1 Hn Hd Ho Hf Hs.
  apply (on_path_finished false). apply run_inv_local. eapply on_path_start; eauto.
Qed.

Theorem solo_generic : forall sh i n st t o m1,
  nth_error (thr st) i = Some t -> dead t = false -> out t = [] -> fout t = [] ->
  sem (cur_mode sh (md st) t) (stk t) = Some (o, m1) ->
  exists t', nth_error (thr (run sh (repeat i n) st)) i = Some t' /\ dead t' = false /\ files_ok t'
             /\ (finished t' = true -> out t' = o)
             /\ exists rest, out t' ++ rest = o.
Proof.
  intros sh i n st t o m1 Hn Hd Ho Hf Hs.
  apply (on_path_finished sh). apply run_solo_inv. eapply on_path_start; eauto.
Qed.

(* the statement of the property on the model: whatever the other threads are and however the
   threads are scheduled, a thread finishes with exactly what it finishes with alone *)
Theorem alone_or_not : forall i st t o m1,
  nth_error (thr st) i = Some t -> dead t = false -> out t = [] -> fout t = [] ->
  sem (tmd t) (stk t) = Some (o, m1) ->
  forall sched n t1 t2,
    nth_error (thr (run false sched st)) i = Some t1 -> finished t1 = true ->
    nth_error (thr (run false (repeat i n) st)) i = Some t2 -> finished t2 = true ->
    out t1 = out t2 /\ dead t1 = false.
Proof.
  intros i st t o m1 Hn Hd Ho Hf Hs sched n t1 t2 H1 F1 H2 F2.
  destruct (independent_generic i sched st t o m1 Hn Hd Ho Hf Hs) as (t1' & E1 & D1 & _ & O1 & _).
  destruct (solo_generic false i n st t o m1 Hn Hd Ho Hf Hs) as (t2' & E2 & D2 & _ & O2 & _).
  rewrite H1 in E1. injection E1 as <-. rewrite H2 in E2. injection E2 as <-.
  split; [rewrite O1, O2; auto | exact D1].
Qed.

(* ---------- shared cell (the design before fix 5f67dd0) ---------- *)
Definition safe (c0 : list bool) (i : nat) (st : state) : Prop :=
  (exists t, nth_error (thr st) i = Some t /\ straight (stk t) = true)
  \/ (forall j tj, j <> i -> nth_error (thr st) j = Some tj -> nw c0 (stk tj) = true).

Lemma step_own_shared : forall c0 i total st,
  le_flags (flags st) c0 -> on_path true i total st -> safe c0 i st ->
  le_flags (flags (step true i st)) c0 /\ safe c0 i (step true i st).
Proof.
  intros c0 i total st Hle (t & o' & m' & Hn & Hs & Ho & Hd & Hf) Hsafe.
  unfold step. rewrite Hn.
  destruct (step1 true (md st) (flags st) t) as [[m1 fl1] t1] eqn:E.
  destruct (own_step _ _ _ _ _ _ _ _ _ Hs Hd Hf E) as (_ & _ & _ & Hst & Hfl).
  cbn [flags thr]. split; [eapply le_flags_trans; eauto|].
  destruct Hsafe as [(t0 & Hn0 & S0)|Hoth].
  - left. exists t1. split; [eapply nth_error_upd_eq; eauto|]. apply Hst. congruence.
  - right. intros j tj Hj Hnj. cbn [thr] in Hnj. rewrite nth_error_upd_neq in Hnj by congruence. eauto.
Qed.

Lemma step_other_shared : forall c0 i j total st,
  j <> i -> le_flags (flags st) c0 -> on_path true i total st -> safe c0 i st ->
  le_flags (flags (step true j st)) c0 /\ on_path true i total (step true j st) /\ safe c0 i (step true j st).
Proof.
  intros c0 i j total st Hji Hle (t & o' & m' & Hn & Hs & Ho & Hd & Hf) Hsafe.
  unfold step. destruct (nth_error (thr st) j) as [tj|] eqn:Hnj.
  2:{ split; [auto|]. split; [exists t, o', m'; auto | exact Hsafe]. }
  destruct (step1 true (md st) (flags st) tj) as [[m1 fl1] t1] eqn:E.
  cbn [flags md thr cur_mode] in *.
  assert (Hni : nth_error (upd j t1 (thr st)) i = Some t) by (rewrite nth_error_upd_neq; auto).
  split; [eapply le_flags_trans; [eapply step1_flags; eauto | auto]|].
  destruct Hsafe as [(t0 & Hn0 & S0)|Hoth].
  - assert (t0 = t) by congruence. subst t0.
    destruct (sem_straight _ _ _ _ S0 Hs m1) as (mm2 & Hs2).
    split.
    + exists t, o', mm2. auto.
    + left. exists t. auto.
  - destruct (nw_step1 c0 _ _ _ _ _ _ Hle (Hoth j tj Hji Hnj) E) as (-> & Hnw1).
    split.
    + exists t, o', m'. auto.
    + right. intros k tk Hk Hnk. cbn [thr] in Hnk.
      destruct (Nat.eq_dec k j) as [->|Hkj].
      * rewrite (nth_error_upd_eq _ _ _ _ _ Hnj) in Hnk. congruence.
      * rewrite nth_error_upd_neq in Hnk by congruence. eauto.
Qed.

Lemma run_inv_shared : forall c0 i total sched st,
  le_flags (flags st) c0 -> on_path true i total st -> safe c0 i st ->
  on_path true i total (run true sched st).
Proof.
  intros c0 i total sched. induction sched as [|j sched IH]; intros st Hle Hp Hs; cbn [run fold_left].
  - exact Hp.
  - destruct (Nat.eq_dec j i) as [->|Hji].
    + destruct (step_own_shared c0 i total st Hle Hp Hs) as (H1 & H3).
      apply IH; auto. apply step_own_inv; auto.
    + destruct (step_other_shared c0 i j total st Hji Hle Hp Hs) as (H1 & H2 & H3). apply IH; auto.
Qed.

Theorem shared_guarded : forall c0 i sched st t o m1,
  le_flags (flags st) c0 ->
  nth_error (thr st) i = Some t -> dead t = false -> out t = [] -> fout t = [] ->
  sem (md st) (stk t) = Some (o, m1) ->
  Shared_mode_race c0 (thr st) i = false ->
  exists t', nth_error (thr (run true sched st)) i = Some t' /\ dead t' = false /\ files_ok t'
             /\ (finished t' = true -> out t' = o)
             /\ exists rest, out t' ++ rest = o.
Proof.
  intros c0 i sched st t o m1 Hle Hn Hd Hout Hfo Hs Hk.
  apply (on_path_finished true). eapply run_inv_shared; eauto.
  - eapply on_path_start; eauto.
  - unfold Shared_mode_race in Hk. rewrite Hn in Hk.
    apply andb_false_iff in Hk as [Hk|Hk].
    + left. exists t. split; auto. now apply negb_false_iff in Hk.
    + right. intros j tj Hj Hnj. apply negb_false_iff in Hk.
      rewrite forallb_forall in Hk. apply Hk. eapply others_in; eauto.
Qed.

(* DESIGN: readers_independent.  With the shared cell: if no thread program can write the mode
   cell then, for every schedule, every thread that finishes holds what it holds when it
   finishes alone. *)
Theorem shared_readers_independent : forall c0 st,
  le_flags (flags st) c0 ->
  (forall j tj, nth_error (thr st) j = Some tj -> nw c0 (stk tj) = true) ->
  forall i t o m1, nth_error (thr st) i = Some t -> dead t = false -> out t = [] -> fout t = [] ->
  sem (md st) (stk t) = Some (o, m1) ->
  forall sched n t1 t2,
    nth_error (thr (run true sched st)) i = Some t1 -> finished t1 = true ->
    nth_error (thr (run true (repeat i n) st)) i = Some t2 -> finished t2 = true ->
    out t1 = out t2 /\ dead t1 = false.
Proof.
  intros c0 st Hle Hall i t o m1 Hn Hd Hout Hfo Hs sched n t1 t2 H1 F1 H2 F2.
  assert (Hk : Shared_mode_race c0 (thr st) i = false).
  { unfold Shared_mode_race. rewrite Hn. apply andb_false_iff. right.
    apply negb_false_iff. apply forallb_forall. intros x Hx.
    clear - Hall Hx. revert i Hx Hall. generalize (thr st) as l.
    induction l as [|a l IH]; intros [|i] Hx Hall; cbn in Hx; try contradiction.
    - destruct (In_nth_error _ _ Hx) as [j Hj]. apply (Hall (S j)). exact Hj.
    - destruct Hx as [<-|Hx]; [apply (Hall 0); reflexivity|].
      apply (IH i Hx). intros j tj Hj. apply (Hall (S j)). exact Hj. }
  destruct (shared_guarded c0 i sched st t o m1 Hle Hn Hd Hout Hfo Hs Hk) as (t1' & E1 & D1 & _ & O1 & _).
  destruct (solo_generic true i n st t o m1 Hn Hd Hout Hfo Hs) as (t2' & E2 & D2 & _ & O2 & _).
  rewrite H1 in E1. injection E1 as <-. rewrite H2 in E2. injection E2 as <-.
  split; [rewrite O1, O2; auto | exact D1].
Qed.

(* ---------- the entry points: static reading = specification ---------- *)
Definition sink_out (sink : option nat) (t : tok) : list tok :=
  match sink with None => [t] | Some _ => [] end.

Lemma sem_emit_string : forall m t, sem_cmd m (emit None t) = Some ([t], m).
Proof. reflexivity. Qed.

Lemma sem_emit_file_inline : forall m f, sem_cmd m (emit (Some f) (t_inline f)) = Some ([], m).
Proof. intros m f. cbn [emit sem_cmd]. now rewrite Nat.eqb_refl. Qed.

(* into the string: any form; into file i: only asked for member i itself *)
Definition sink_fits (sink : option nat) (i : nat) : Prop :=
  match sink with None => True | Some f => f = i end.

Lemma sem_member_noinc : forall fuel sink i k, sink_fits sink i ->
  sem NoInc (ser_member fuel sink i k) = Some (sink_out sink (t_inline i), NoInc).
Proof.
  intros fuel sink i k Hfit.
  assert (E : sem_cmd NoInc (emit sink (t_inline i)) = Some (sink_out sink (t_inline i), NoInc)).
  { destruct sink as [f|]; [cbn in Hfit; subst f; apply sem_emit_file_inline | reflexivity]. }
  destruct k; destruct fuel; cbn [ser_member sem]; rewrite ?sem_cmd_IfMode; cbn [branch sem];
    rewrite E; now rewrite !app_nil_r.
Qed.

Definition ok_kind (k : fkind) : bool := match k with JsonBroken | TxtBroken => false | _ => true end.

Lemma sem_member_allow : forall f i k, ok_kind k = true ->
  sem Allow (ser_member (S f) None i k) = Some ([member_form i k], Allow).
Proof.
  intros f i k Hk. destruct k; try discriminate; cbn [ser_member sem in_store member_form].
  - reflexivity.
  - rewrite sem_cmd_IfMode. cbn [branch sem]. rewrite sem_emit_string, sem_cmd_IfChanged.
    cbn [sem sem_cmd]. rewrite Nat.eqb_refl. cbn [app mode_eqb]. reflexivity.
  - rewrite sem_cmd_IfMode. cbn [branch sem]. rewrite sem_emit_string, sem_cmd_IfChanged.
    cbn [sem sem_cmd]. rewrite sem_app, (sem_member_noinc f (Some i) i Json eq_refl).
    cbn [sem sem_cmd sink_out app mode_eqb]. reflexivity.
  - reflexivity.
Qed.

Lemma sem_members_allow : forall f mem i, writable mem = true ->
  sem Allow (ser_members (S f) i mem) = Some (store_form i mem, Allow).
Proof.
  intros f mem. induction mem as [|k mem IH]; intros i W; cbn [ser_members store_form]; [reflexivity|].
  cbn [writable forallb] in W. apply andb_true_iff in W as [Wk Wm].
  destruct k; try discriminate;
    try (rewrite sem_app;
         first [rewrite (sem_member_allow f i NoFile eq_refl) | rewrite (sem_member_allow f i Txt eq_refl)
               | rewrite (sem_member_allow f i Json eq_refl)];
         rewrite (IH _ Wm); reflexivity).
  change (ser_members (S f) i (SubStore :: mem)) with ([Emit (t_include i); Yield; FEmit i (t_inline i)] ++ ser_members (S f) (S i) mem).
  rewrite sem_app.
  assert (E : sem Allow [Emit (t_include i); Yield; FEmit i (t_inline i)] = Some ([t_include i], Allow)).
  { cbn [sem sem_cmd]. rewrite Nat.eqb_refl. reflexivity. }
  rewrite E, (IH _ Wm). reflexivity.
Qed.

Lemma writable_kind_of : forall mem i, writable mem = true -> ok_kind (kind_of mem i) = true.
Proof.
  unfold kind_of. induction mem as [|k mem IH]; intros [|i] W; cbn [nth]; try reflexivity;
    cbn [writable forallb] in W; apply andb_true_iff in W as [Wk Wm]; auto.
Qed.

Theorem sem_prog : forall f mem o, writable mem = true -> plain_op o = true ->
  sem Allow (prog (S f) mem o) = Some (spec_out mem o, Allow).
Proof.
  intros f mem o W P. destruct o; try discriminate; cbn [prog spec_out sem sem_cmd].
  - reflexivity.
  - now rewrite (sem_members_allow _ _ _ W).
  - rewrite sem_app, (sem_member_noinc _ None _ _ I). cbn [sem sem_cmd sink_out app]. reflexivity.
  - now rewrite (sem_member_allow _ _ _ (writable_kind_of mem i W)).
  - rewrite sem_app, (sem_member_noinc _ None _ _ I). cbn [sem sem_cmd sink_out app]. reflexivity.
  - rewrite sem_app. cbn [sem sem_cmd]. rewrite sem_app, (sem_member_noinc _ None _ _ I).
    cbn [sem sem_cmd sink_out app]. rewrite sem_app, (sem_members_allow _ _ _ W).
    cbn [sem sem_cmd app]. rewrite ?app_nil_r. reflexivity.
  - rewrite sem_app, (sem_members_allow _ _ _ W). cbn [sem sem_cmd].
    rewrite sem_app, (sem_members_allow _ _ _ W). cbn [sem sem_cmd app]. rewrite ?app_nil_r. reflexivity.
  - reflexivity.
  - pose proof (writable_kind_of mem i W) as K. destruct (kind_of mem i); try discriminate;
      cbn [sem sem_cmd]; rewrite ?Nat.eqb_refl; reflexivity.
  - reflexivity.
  - reflexivity.
Qed.

Lemma init_thread_at : forall sc i o,
  nth_error (ops sc) i = Some o ->
  nth_error (thr (init sc)) i = Some (init_thread (prog model_fuel (members sc) o)).
Proof.
  intros sc i o H. unfold init. cbn [thr]. now rewrite nth_error_map, H.
Qed.

(* The property: every thread of every scenario obtains, under every schedule, what the
   specification says it obtains alone; what it writes to stand-off files is member content. *)
Theorem scenario_independent : forall sc sched i o,
  writable (members sc) = true ->
  nth_error (ops sc) i = Some o -> plain_op o = true ->
  exists t', nth_error (thr (run false sched (init sc))) i = Some t' /\ dead t' = false /\ files_ok t'
             /\ (finished t' = true -> out t' = spec_out (members sc) o)
             /\ exists rest, out t' ++ rest = spec_out (members sc) o.
Proof.
  intros sc sched i o W Ho P.
  eapply independent_generic with (m1 := Allow).
  - apply init_thread_at; eauto.
  - reflexivity.
  - reflexivity.
  - reflexivity.
  - cbn [init_thread stk tmd]. apply sem_prog; assumption.
Qed.

(* Alone, every entry point yields the specified result, whatever the changed flags are. *)
Theorem scenario_solo : forall sh sc n i o,
  writable (members sc) = true ->
  nth_error (ops sc) i = Some o -> plain_op o = true ->
  exists t', nth_error (thr (run sh (repeat i n) (init sc))) i = Some t' /\ dead t' = false
             /\ (finished t' = true -> out t' = spec_out (members sc) o).
Proof.
  intros sh sc n i o W Ho P.
  destruct (solo_generic sh i n (init sc) (init_thread (prog model_fuel (members sc) o))
              (spec_out (members sc) o) Allow) as (t' & H1 & H2 & _ & H3 & _); eauto.
  - apply init_thread_at; eauto.
  - destruct sh; cbn [init md init_thread stk tmd cur_mode]; apply sem_prog; assumption.
Qed.

(* the shared-cell design, outside the race class *)
Theorem shared_scenario_guarded : forall sc sched i o,
  writable (members sc) = true ->
  nth_error (ops sc) i = Some o -> plain_op o = true ->
  Shared_mode_race (changed0 sc) (thr (init sc)) i = false ->
  exists t', nth_error (thr (run true sched (init sc))) i = Some t' /\ dead t' = false /\ files_ok t'
             /\ (finished t' = true -> out t' = spec_out (members sc) o)
             /\ exists rest, out t' ++ rest = spec_out (members sc) o.
Proof.
  intros sc sched i o W Ho P Hk.
  eapply shared_guarded with (c0 := changed0 sc) (m1 := Allow); eauto.
  - apply le_flags_refl.
  - apply init_thread_at; eauto.
  - reflexivity.
  - reflexivity.
  - reflexivity.
  - cbn [init md init_thread stk]. apply sem_prog; assumption.
Qed.

(* ---------- the harness granularity is a special case ---------- *)
Lemma run_app : forall sh a b st, run sh (a ++ b) st = run sh b (run sh a st).
Proof. intros; unfold run; apply fold_left_app. Qed.

Lemma advance_is_run : forall sh n i st, exists k, advance sh n i st = run sh (repeat i k) st.
Proof.
  induction n as [|n IH]; intros i st; cbn [advance].
  - exists 0. reflexivity.
  - destruct (nth_error (thr st) i) as [t|]; [|exists 0; reflexivity].
    destruct (stk t) as [|c s]; [exists 0; reflexivity|].
    destruct (is_local c); [|exists 0; reflexivity].
    destruct (IH i (step sh i st)) as [k Hk]. exists (S k). rewrite Hk. reflexivity.
Qed.

Theorem run_coarse_is_run : forall sh cs st, exists fs, run_coarse sh cs st = run sh fs st.
Proof.
  induction cs as [|i cs IH]; intros st.
  - exists []. reflexivity.
  - cbn [run_coarse fold_left]. fold (run_coarse sh cs (cstep sh i st)).
    destruct (IH (cstep sh i st)) as [fs Hfs]. unfold cstep in *.
    destruct (advance_is_run sh (stack_len i (step sh i st)) i (step sh i st)) as [k Hk].
    exists ((i :: repeat i k) ++ fs). rewrite run_app. cbn [run fold_left].
    fold (run sh (repeat i k) (step sh i st)). rewrite <- Hk. exact Hfs.
Qed.

Corollary scenario_independent_coarse : forall sc cs i o t',
  writable (members sc) = true ->
  nth_error (ops sc) i = Some o -> plain_op o = true ->
  nth_error (thr (run_coarse false cs (init sc))) i = Some t' ->
  files_ok t' /\ dead t' = false /\ (finished t' = true -> out t' = spec_out (members sc) o).
Proof.
  intros sc cs i o t' W Ho P Hn.
  destruct (run_coarse_is_run false cs (init sc)) as [fs E]. rewrite E in Hn.
  destruct (scenario_independent sc fs i o W Ho P) as (t2 & H1 & H2 & H3 & H4 & _).
  rewrite Hn in H1. injection H1 as <-. auto.
Qed.

(* ---------- with the shared cell the property fails ---------- *)
Definition result (i : nat) (st : state) : option (bool * list tok) :=
  option_map (fun t => (finished t, out t)) (nth_error (thr st) i).

Definition file_writes (i : nat) (st : state) : list (nat * tok) :=
  match nth_error (thr st) i with Some t => fout t | None => [] end.

(* A: store.to_json_string() over a store whose only member is an unchanged stand-off dataset;
   B: ToJson::to_json_string(that dataset, store.config()).  B's SetMode NoInc lands between A's
   start and A's read of the mode: A writes the dataset inline instead of {"@include"}. *)
Definition witness_AB : scen := mkScen [Json] [false] [OpStore; OpMemberTrait 0].

Lemma shared_refuted_store_loses_include :
  result 0 (run_coarse true [0; 1; 1; 0] (init witness_AB)) = Some (true, [t_inline 0])
  /\ spec_out (members witness_AB) OpStore = [t_include 0]
  /\ Shared_mode_race (changed0 witness_AB) (thr (init witness_AB)) 0 = true.
Proof. vm_compute. repeat split. Qed.

(* the other direction: B asks for the content of the stand-off file; A (flushing the changed
   stand-off dataset inside a store serialisation) sets the mode back to Allow between B's
   SetMode NoInc and B's read: B receives {"@include"} *)
Definition witness_BA : scen := mkScen [Json] [true] [OpMemberTrait 0; OpStore].

Lemma shared_refuted_member_gets_include :
  result 0 (run_coarse true [1; 1; 1; 0; 0; 1; 1; 1; 1; 0; 0; 0] (init witness_BA)) = Some (true, [t_include 0])
  /\ spec_out (members witness_BA) (OpMemberTrait 0) = [t_inline 0].
Proof. vm_compute. repeat split. Qed.

(* two threads that both only serialise the store: the flush of a changed stand-off dataset by
   one of them switches the mode under the other, which then writes everything inline *)
Definition witness_SS : scen := mkScen [Json; Json] [true; false] [OpStore; OpStore].

Lemma shared_refuted_two_store_serialisations :
  result 1 (run_coarse true [0; 0; 0; 0; 1; 1; 1] (init witness_SS)) = Some (true, [t_inline 0; t_inline 1])
  /\ spec_out (members witness_SS) OpStore = [t_include 0; t_include 1].
Proof. vm_compute. repeat split. Qed.

(* and the stand-off file itself can receive {"@include": itself}: B's closing SetMode Allow
   lands between A's SetMode NoInc and A's serialisation into the file *)
Lemma shared_refuted_file_gets_include :
  In (0, t_include 0) (file_writes 1 (run_coarse true [1; 1; 1; 0; 0; 0; 1; 0; 1] (init witness_BA))).
Proof. vm_compute. auto. Qed.

Theorem shared_refuted_generic :
  exists sc cs i o t', nth_error (ops sc) i = Some o
    /\ nth_error (thr (run_coarse true cs (init sc))) i = Some t' /\ finished t' = true
    /\ out t' <> spec_out (members sc) o.
Proof.
  exists witness_AB, [0; 1; 1; 0], 0, OpStore.
  exists (mkT [] Allow [t_inline 0] [] false).
  split; [reflexivity|]. split; [vm_compute; reflexivity|]. split; [reflexivity|].
  vm_compute. discriminate.
Qed.

(* the same scenarios and schedules with the mode confined to the thread *)
Lemma local_witnesses_fine :
  result 0 (run_coarse false [0; 1; 1; 0; 0] (init witness_AB)) = Some (true, [t_include 0])
  /\ result 0 (run_coarse false [1; 1; 1; 0; 0; 1; 1; 1; 1; 0; 0; 0] (init witness_BA)) = Some (true, [t_inline 0])
  /\ result 1 (run_coarse false [0; 0; 0; 0; 0; 0; 0; 0; 1; 1; 1; 1; 1] (init witness_SS)) = Some (true, [t_include 0; t_include 1])
  /\ file_writes 1 (run_coarse false [1; 1; 1; 0; 0; 0; 1; 0; 1; 1; 1; 1] (init witness_BA)) = [(0, t_inline 0)].
Proof. vm_compute. repeat split. Qed.

(* ---------- the parallel adaptors: indexed consumers = sequential consumers ---------- *)
From Coq Require Import ZArith.

Lemma fold_weighted : forall a b l i acc,
  fold_left (fun acc p => (acc + (fst p + a) * (snd p + b))%Z)
            (combine (map Z.of_nat (seq i (length l))) l) acc
  = (acc + weighted a b (Z.of_nat i) l)%Z.
Proof.
  intros a b l. induction l as [|h r IH]; intros i acc; cbn [length seq map combine fold_left weighted].
  - lia.
  - rewrite IH. cbn [fst snd]. rewrite Nat2Z.inj_succ. unfold Z.succ. lia.
Qed.

Lemma find_first_indexed : forall l idx, length idx = length l ->
  match filter (fun p : Z * Z => wanted (snd p)) (combine idx l) with
  | p :: _ => snd p
  | [] => (-1)%Z
  end = match find wanted l with Some h => h | None => (-1)%Z end.
Proof.
  induction l as [|h r IH]; intros [|i idx] H; cbn in H; try discriminate; cbn [combine filter find snd].
  - reflexivity.
  - destruct (wanted h); [reflexivity|]. apply IH. lia.
Qed.

Theorem parallel_consumers_sequential : forall l, par_consumers l = seq_consumers l.
Proof.
  intros l. unfold par_consumers, seq_consumers, par_collect_ck, par_fold_ck, par_find_first,
    par_filter_ck, par_collect_ck, indexed, parallel.
  rewrite !fold_weighted. cbn [Z.of_nat Z.add].
  rewrite find_first_indexed by (now rewrite map_length, seq_length).
  reflexivity.
Qed.
