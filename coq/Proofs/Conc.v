(* C20: proofs about the interleaving model (Model/Conc.v).
   Main results
     own_step / other_step   the invariant "what thread i has emitted so far, followed by the
                             static reading of what is left of its program under the current
                             mode, is the static reading of its whole program" is kept by
                             every step of every thread, provided thread i is straight-line
                             or no other thread can write the mode cell
     guarded_generic         hence: any number of threads, any schedule
     solo_generic            a thread running alone produces its static reading
     readers_independent     nobody writes the mode cell -> every thread = its solo result
     sem_prog                the static reading of every entry point = Spec.spec_out
     scenario_guarded        entry points, outside Known_C20_mode_write
     run_coarse_is_run       the yield-site granularity of the harness is a special case
     refutations             inside the class the property fails (vm_compute witnesses) *)
From Coq Require Import List Arith Bool Lia.
Import ListNotations.
From Stam Require Import Model.Conc Spec.ConcSpec.

(* ---------- lists ---------- *)
Lemma nth_error_upd_eq : forall (X : Type) (l : list X) i x y,
  nth_error l i = Some y -> nth_error (upd i x l) i = Some x.
Proof.
  induction l as [|a l IH]; intros [|i] x y H; cbn in *; try discriminate; auto.
  eapply IH; eauto.
Qed.

Lemma nth_error_upd_neq : forall (X : Type) (l : list X) i j x,
  i <> j -> nth_error (upd i x l) j = nth_error l j.
Proof.
  induction l as [|a l IH]; intros [|i] [|j] x H; cbn; auto; try congruence.
Qed.

Lemma others_in : forall (X : Type) (l : list X) i j x,
  j <> i -> nth_error l j = Some x -> In x (others i l).
Proof.
  induction l as [|a l IH]; intros i j x Hn H.
  - destruct j; discriminate.
  - destruct i as [|i]; destruct j as [|j]; cbn in *.
    + congruence.
    + exact (nth_error_In _ _ H).
    + injection H as ->. now left.
    + right. apply (IH i j x); [congruence | exact H].
Qed.

(* ---------- flags only fall ---------- *)
Definition le_flags (a b : list bool) : Prop := forall i, flag i a = true -> flag i b = true.

Lemma le_flags_refl : forall a, le_flags a a.
Proof. intros a i H; exact H. Qed.

Lemma le_flags_trans : forall a b c, le_flags a b -> le_flags b c -> le_flags a c.
Proof. intros a b c H1 H2 i H; auto. Qed.

Lemma flag_clear_true : forall fl i j, flag j (clear i fl) = true -> flag j fl = true.
Proof.
  unfold flag. induction fl as [|b fl IH]; intros [|i] [|j] H; cbn in *; auto; try discriminate.
  eapply IH; eauto.
Qed.

Lemma le_flags_clear : forall fl i, le_flags (clear i fl) fl.
Proof. intros fl i j H. eapply flag_clear_true; eauto. Qed.

(* ---------- unfolding the nested fixpoints ---------- *)
Lemma sem_cmd_IfMode : forall m a n, sem_cmd m (IfMode a n) = sem m (branch m a n).
Proof.
  assert (E : forall l m,
    (fix sem_l (m : mode) (l : list cmd) {struct l} : option (list tok * mode) :=
       match l with
       | [] => Some ([], m)
       | c :: l' =>
           match sem_cmd m c with
           | Some (o1, m1) =>
               match sem_l m1 l' with
               | Some (o2, m2) => Some (o1 ++ o2, m2)
               | None => None
               end
           | None => None
           end
       end) m l = sem m l).
  { induction l as [|c l IH]; intros m; cbn [sem]; [reflexivity|].
    destruct (sem_cmd m c) as [[o1 m1]|]; [rewrite IH|]; reflexivity. }
  intros [] a n; cbn [sem_cmd branch]; apply E.
Qed.

Lemma sem_cmd_IfChanged : forall m i b,
  sem_cmd m (IfChanged i b) =
  match sem m b with
  | Some ([], m') => if mode_eqb m' m then Some ([], m) else None
  | _ => None
  end.
Proof.
  assert (E : forall l m,
    (fix sem_l (m : mode) (l : list cmd) {struct l} : option (list tok * mode) :=
       match l with
       | [] => Some ([], m)
       | c :: l' =>
           match sem_cmd m c with
           | Some (o1, m1) =>
               match sem_l m1 l' with
               | Some (o2, m2) => Some (o1 ++ o2, m2)
               | None => None
               end
           | None => None
           end
       end) m l = sem m l).
  { induction l as [|c l IH]; intros m; cbn [sem]; [reflexivity|].
    destruct (sem_cmd m c) as [[o1 m1]|]; [rewrite IH|]; reflexivity. }
  intros m i b; cbn [sem_cmd]; rewrite E; reflexivity.
Qed.

Lemma nw_cmd_IfMode : forall c0 a n, nw_cmd c0 (IfMode a n) = nw c0 a && nw c0 n.
Proof.
  intros c0.
  assert (E : forall l,
    (fix nw_l (l : list cmd) {struct l} : bool :=
       match l with [] => true | c :: l' => nw_cmd c0 c && nw_l l' end) l = nw c0 l).
  { induction l as [|c l IH]; cbn; [reflexivity|]. now rewrite IH. }
  intros a n; cbn [nw_cmd]; now rewrite !E.
Qed.

Lemma nw_cmd_IfChanged : forall c0 i b,
  nw_cmd c0 (IfChanged i b) = if flag i c0 then nw c0 b else true.
Proof.
  intros c0.
  assert (E : forall l,
    (fix nw_l (l : list cmd) {struct l} : bool :=
       match l with [] => true | c :: l' => nw_cmd c0 c && nw_l l' end) l = nw c0 l).
  { induction l as [|c l IH]; cbn; [reflexivity|]. now rewrite IH. }
  intros i b; cbn [nw_cmd]; now rewrite E.
Qed.

Lemma nw_app : forall c0 a b, nw c0 (a ++ b) = nw c0 a && nw c0 b.
Proof. intros; unfold nw; apply forallb_app. Qed.

Lemma nw_cons : forall c0 c k, nw c0 (c :: k) = nw_cmd c0 c && nw c0 k.
Proof. reflexivity. Qed.

(* ---------- the static reading composes ---------- *)
Lemma sem_app : forall a b m,
  sem m (a ++ b) =
  match sem m a with
  | Some (o1, m1) =>
      match sem m1 b with
      | Some (o2, m2) => Some (o1 ++ o2, m2)
      | None => None
      end
  | None => None
  end.
Proof.
  induction a as [|c a IH]; intros b m; cbn [app sem].
  - destruct (sem m b) as [[o2 m2]|]; reflexivity.
  - destruct (sem_cmd m c) as [[o1 m1]|]; [|reflexivity].
    rewrite IH. destruct (sem m1 a) as [[oa ma]|]; [|reflexivity].
    destruct (sem ma b) as [[o2 m2]|]; [|reflexivity].
    now rewrite app_assoc.
Qed.

Lemma mode_eqb_eq : forall a b, mode_eqb a b = true -> a = b.
Proof. intros [] []; cbn; congruence. Qed.

(* a straight-line program reads the same under every mode *)
Lemma sem_straight : forall l m o mm, straight l = true -> sem m l = Some (o, mm) ->
  forall m2, exists mm2, sem m2 l = Some (o, mm2).
Proof.
  induction l as [|c l IH]; intros m o mm S H m2; cbn [sem] in *.
  - injection H as <- <-. eauto.
  - cbn [straight forallb] in S. apply andb_true_iff in S as [Sc Sl].
    destruct c; cbn [straight_cmd] in Sc; try discriminate; cbn [sem_cmd] in *;
      (destruct (sem _ l) as [[o2 mx]|] eqn:E in H; [|discriminate]);
      injection H as <- <-;
      match type of E with sem ?mq l = _ =>
        first [ destruct (IH mq o2 mx Sl E m2) as [mm2 E2]; rewrite E2; eauto
              | rewrite E; eauto ] end.
Qed.

(* ---------- one step of thread i itself ---------- *)
Lemma own_step : forall m fl t o mm m1 fl1 t1,
  sem m (stk t) = Some (o, mm) -> dead t = false ->
  step1 m fl t = (m1, fl1, t1) ->
  (exists o1 mm1, sem m1 (stk t1) = Some (o1, mm1) /\ out t1 ++ o1 = out t ++ o)
  /\ dead t1 = false
  /\ (straight (stk t) = true -> straight (stk t1) = true)
  /\ le_flags fl1 fl.
Proof.
  intros m fl t o mm m1 fl1 t1 Hs Hd Hst. unfold step1 in Hst.
  destruct t as [s ou fo de]; cbn [stk out fout dead] in *. subst de.
  destruct s as [|c k].
  - injection Hst as <- <- <-. cbn [stk out dead]. repeat split; eauto using le_flags_refl.
  - cbn [sem] in Hs.
    destruct c; injection Hst as <- <- <-; cbn [stk out dead].
    + (* Yield *) cbn [sem_cmd] in Hs.
      destruct (sem m k) as [[o2 m2]|] eqn:E; [|discriminate]. injection Hs as <- <-.
      repeat split; eauto using le_flags_refl.
      all: try (cbn [straight forallb]; intros S; apply andb_true_iff in S; tauto).
    + (* Emit *) cbn [sem_cmd] in Hs.
      destruct (sem m k) as [[o2 m2]|] eqn:E; [|discriminate]. injection Hs as <- <-.
      repeat split; eauto using le_flags_refl.
      * exists o2, m2. split; [reflexivity|]. now rewrite <- app_assoc.
      all: try (cbn [straight forallb]; intros S; apply andb_true_iff in S; tauto).
    + (* FEmit *) cbn [sem_cmd] in Hs.
      destruct (sem m k) as [[o2 m2]|] eqn:E; [|discriminate]. injection Hs as <- <-.
      repeat split; eauto using le_flags_refl.
      all: try (cbn [straight forallb]; intros S; apply andb_true_iff in S; tauto).
    + (* SetMode *) cbn [sem_cmd] in Hs.
      destruct (sem m0 k) as [[o2 m2]|] eqn:E; [|discriminate]. injection Hs as <- <-.
      repeat split; eauto using le_flags_refl.
      all: try (cbn [straight forallb]; intros S; apply andb_true_iff in S; tauto).
    + (* IfMode *)
      rewrite sem_cmd_IfMode in Hs.
      destruct (sem m (branch m a n)) as [[oa ma]|] eqn:Ea; [|discriminate].
      destruct (sem ma k) as [[o2 m2]|] eqn:E; [|discriminate]. injection Hs as <- <-.
      repeat split; eauto using le_flags_refl.
      * exists (oa ++ o2), m2. rewrite sem_app, Ea, E. auto.
      * cbn [straight forallb straight_cmd andb]. discriminate.
    + (* IfChanged *)
      rewrite sem_cmd_IfChanged in Hs.
      destruct (sem m body) as [[[|x ob] mb]|] eqn:Eb; try discriminate.
      destruct (mode_eqb mb m) eqn:Em; [|discriminate]. apply mode_eqb_eq in Em. subst mb.
      destruct (sem m k) as [[o2 m2]|] eqn:E; [|discriminate]. injection Hs as <- <-.
      repeat split; eauto using le_flags_refl.
      * exists o2, m2. split; [|reflexivity].
        destruct (flag i fl); [rewrite sem_app, Eb, E; reflexivity | exact E].
      * cbn [straight forallb straight_cmd andb]. discriminate.
    + (* ClearChanged *) cbn [sem_cmd] in Hs.
      destruct (sem m k) as [[o2 m2]|] eqn:E; [|discriminate]. injection Hs as <- <-.
      repeat split; eauto using le_flags_clear.
      all: try (cbn [straight forallb]; intros S; apply andb_true_iff in S; tauto).
    + (* Abort *) cbn [sem_cmd] in Hs. discriminate.
Qed.

(* ---------- one step of a thread that cannot write the mode cell ---------- *)
Lemma nw_step1 : forall c0 m fl t m1 fl1 t1,
  le_flags fl c0 -> nw c0 (stk t) = true ->
  step1 m fl t = (m1, fl1, t1) ->
  m1 = m /\ nw c0 (stk t1) = true.
Proof.
  intros c0 m fl t m1 fl1 t1 Hle Hn Hst. unfold step1 in Hst.
  destruct t as [s ou fo de]; cbn [stk out fout dead] in *.
  destruct s as [|c k].
  - injection Hst as <- <- <-. auto.
  - rewrite nw_cons in Hn. apply andb_true_iff in Hn as [Hc Hk].
    destruct c; injection Hst as <- <- <-; cbn [stk]; auto.
    + cbn in Hc. discriminate.
    + rewrite nw_cmd_IfMode in Hc. apply andb_true_iff in Hc as [Ha Hb].
      split; [reflexivity|]. rewrite nw_app, Hk. destruct m; cbn [branch]; rewrite ?Ha, ?Hb; reflexivity.
    + rewrite nw_cmd_IfChanged in Hc. split; [reflexivity|].
      destruct (flag i fl) eqn:F; [|exact Hk].
      rewrite (Hle i F) in Hc. now rewrite nw_app, Hc, Hk.
Qed.

Lemma step1_flags : forall m fl t m1 fl1 t1, step1 m fl t = (m1, fl1, t1) -> le_flags fl1 fl.
Proof.
  intros m fl t m1 fl1 t1 H. unfold step1 in H.
  destruct (stk t) as [|c k]; [injection H as <- <- <-; apply le_flags_refl|].
  destruct c; injection H as <- <- <-; auto using le_flags_refl, le_flags_clear.
Qed.

(* ---------- the invariant ---------- *)
(* thread i is on its static path: emitted ++ reading of the rest = total *)
Definition on_path (i : nat) (total : list tok) (st : state) : Prop :=
  exists t o' m', nth_error (thr st) i = Some t /\ sem (md st) (stk t) = Some (o', m')
                  /\ out t ++ o' = total /\ dead t = false.

(* why nobody can push thread i off its static path *)
Definition safe (c0 : list bool) (i : nat) (st : state) : Prop :=
  (exists t, nth_error (thr st) i = Some t /\ straight (stk t) = true)
  \/ (forall j tj, j <> i -> nth_error (thr st) j = Some tj -> nw c0 (stk tj) = true).

Lemma step_own_inv : forall c0 i total st,
  le_flags (flags st) c0 -> on_path i total st ->
  le_flags (flags (step i st)) c0 /\ on_path i total (step i st)
  /\ (safe c0 i st -> safe c0 i (step i st)).
Proof.
  intros c0 i total st Hle (t & o' & m' & Hn & Hs & Ho & Hd).
  unfold step. rewrite Hn.
  destruct (step1 (md st) (flags st) t) as [[m1 fl1] t1] eqn:E.
  destruct (own_step _ _ _ _ _ _ _ _ Hs Hd E) as ((o1 & mm1 & Hs1 & Ho1) & Hd1 & Hst & Hfl).
  cbn [flags md thr]. split; [eapply le_flags_trans; eauto|]. split.
  - exists t1, o1, mm1. repeat split; auto.
    + eapply nth_error_upd_eq; eauto.
    + congruence.
  - intros [(t0 & Hn0 & S0)|Hoth].
    + left. exists t1. split; [eapply nth_error_upd_eq; eauto|]. apply Hst. congruence.
    + right. intros j tj Hj Hnj. cbn [thr] in Hnj. rewrite nth_error_upd_neq in Hnj by congruence. eauto.
Qed.

Lemma step_other_inv : forall c0 i j total st,
  j <> i -> le_flags (flags st) c0 -> on_path i total st -> safe c0 i st ->
  le_flags (flags (step j st)) c0 /\ on_path i total (step j st) /\ safe c0 i (step j st).
Proof.
  intros c0 i j total st Hji Hle (t & o' & m' & Hn & Hs & Ho & Hd) Hsafe.
  unfold step. destruct (nth_error (thr st) j) as [tj|] eqn:Hnj.
  2:{ split; [auto|]. split; [exists t, o', m'; auto | exact Hsafe]. }
  destruct (step1 (md st) (flags st) tj) as [[m1 fl1] t1] eqn:E.
  cbn [flags md thr].
  assert (Hni : nth_error (upd j t1 (thr st)) i = Some t) by (rewrite nth_error_upd_neq; auto).
  split; [eapply le_flags_trans; [eapply step1_flags; eauto | auto]|].
  destruct Hsafe as [(t0 & Hn0 & S0)|Hoth].
  - (* thread i is straight-line: the mode it runs under is irrelevant *)
    assert (t0 = t) by congruence. subst t0.
    destruct (sem_straight _ _ _ _ S0 Hs m1) as (mm2 & Hs2).
    split.
    + exists t, o', mm2. auto.
    + left. exists t. auto.
  - (* thread j cannot write the mode cell *)
    destruct (nw_step1 c0 _ _ _ _ _ _ Hle (Hoth j tj Hji Hnj) E) as (-> & Hnw1).
    split.
    + exists t, o', m'. auto.
    + right. intros k tk Hk Hnk. cbn [thr] in Hnk.
      destruct (Nat.eq_dec k j) as [->|Hkj].
      * rewrite (nth_error_upd_eq _ _ _ _ _ Hnj) in Hnk. congruence.
      * rewrite nth_error_upd_neq in Hnk by congruence. eauto.
Qed.

Lemma run_inv : forall c0 i total sched st,
  le_flags (flags st) c0 -> on_path i total st -> safe c0 i st ->
  on_path i total (run sched st).
Proof.
  intros c0 i total sched. induction sched as [|j sched IH]; intros st Hle Hp Hs; cbn [run fold_left].
  - exact Hp.
  - destruct (Nat.eq_dec j i) as [->|Hji].
    + destruct (step_own_inv c0 i total st Hle Hp) as (H1 & H2 & H3). apply IH; auto.
    + destruct (step_other_inv c0 i j total st Hji Hle Hp Hs) as (H1 & H2 & H3). apply IH; auto.
Qed.

Lemma run_solo_inv : forall i total n st,
  on_path i total st -> on_path i total (run (repeat i n) st).
Proof.
  intros i total n. induction n as [|n IH]; intros st Hp; cbn [repeat run fold_left]; [exact Hp|].
  destruct (step_own_inv (flags st) i total st (le_flags_refl _) Hp) as (_ & H2 & _). apply IH; auto.
Qed.

Lemma on_path_finished : forall i total st,
  on_path i total st ->
  exists t, nth_error (thr st) i = Some t /\ dead t = false /\ (finished t = true -> out t = total)
            /\ exists rest, out t ++ rest = total.
Proof.
  intros i total st (t & o' & m' & Hn & Hs & Ho & Hd). exists t. repeat split; auto.
  - unfold finished. destruct (stk t); [|discriminate]. intros _. cbn in Hs. injection Hs as <- <-.
    now rewrite app_nil_r in Ho.
  - eauto.
Qed.

(* ---------- the generic theorems: any programs, any number of threads, any schedule ---------- *)
Theorem guarded_generic : forall c0 i sched st t o m1,
  le_flags (flags st) c0 ->
  nth_error (thr st) i = Some t -> dead t = false -> out t = [] ->
  sem (md st) (stk t) = Some (o, m1) ->
  Known_C20_mode_write c0 (thr st) i = false ->
  exists t', nth_error (thr (run sched st)) i = Some t' /\ dead t' = false
             /\ (finished t' = true -> out t' = o)
             /\ exists rest, out t' ++ rest = o.
Proof.
  intros c0 i sched st t o m1 Hle Hn Hd Hout Hs Hk.
  apply on_path_finished. eapply run_inv; eauto.
  - exists t, o, m1. rewrite Hout. auto.
  - unfold Known_C20_mode_write in Hk. rewrite Hn in Hk.
    apply andb_false_iff in Hk as [Hk|Hk].
    + left. exists t. split; auto. now apply negb_false_iff in Hk.
    + right. intros j tj Hj Hnj. apply negb_false_iff in Hk.
      rewrite forallb_forall in Hk. apply Hk. eapply others_in; eauto.
Qed.

Theorem solo_generic : forall i n st t o m1,
  nth_error (thr st) i = Some t -> dead t = false -> out t = [] ->
  sem (md st) (stk t) = Some (o, m1) ->
  exists t', nth_error (thr (run (repeat i n) st)) i = Some t' /\ dead t' = false
             /\ (finished t' = true -> out t' = o)
             /\ exists rest, out t' ++ rest = o.
Proof.
  intros i n st t o m1 Hn Hd Hout Hs.
  apply on_path_finished. apply run_solo_inv.
  exists t, o, m1. rewrite Hout. auto.
Qed.

(* DESIGN: readers_independent.  If no thread program can write the mode cell then, for every
   schedule, every thread that finishes holds exactly what it holds when it finishes alone. *)
Theorem readers_independent : forall c0 st,
  le_flags (flags st) c0 ->
  (forall j tj, nth_error (thr st) j = Some tj -> nw c0 (stk tj) = true) ->
  forall i t o m1, nth_error (thr st) i = Some t -> dead t = false -> out t = [] ->
  sem (md st) (stk t) = Some (o, m1) ->
  forall sched n t1 t2,
    nth_error (thr (run sched st)) i = Some t1 -> finished t1 = true ->
    nth_error (thr (run (repeat i n) st)) i = Some t2 -> finished t2 = true ->
    out t1 = out t2 /\ dead t1 = false.
Proof.
  intros c0 st Hle Hall i t o m1 Hn Hd Hout Hs sched n t1 t2 H1 F1 H2 F2.
  assert (Hk : Known_C20_mode_write c0 (thr st) i = false).
  { unfold Known_C20_mode_write. rewrite Hn. apply andb_false_iff. right.
    apply negb_false_iff. apply forallb_forall. intros x Hx.
    clear - Hall Hx. revert i Hx Hall. generalize (thr st) as l.
    induction l as [|a l IH]; intros [|i] Hx Hall; cbn in Hx; try contradiction.
    - destruct (In_nth_error _ _ Hx) as [j Hj]. apply (Hall (S j)). exact Hj.
    - destruct Hx as [<-|Hx]; [apply (Hall 0); reflexivity|].
      apply (IH i Hx). intros j tj Hj. apply (Hall (S j)). exact Hj. }
  destruct (guarded_generic c0 i sched st t o m1 Hle Hn Hd Hout Hs Hk) as (t1' & E1 & D1 & O1 & _).
  destruct (solo_generic i n st t o m1 Hn Hd Hout Hs) as (t2' & E2 & D2 & O2 & _).
  rewrite H1 in E1. injection E1 as <-. rewrite H2 in E2. injection E2 as <-.
  split; [rewrite O1, O2; auto | exact D1].
Qed.

(* ---------- the entry points: static reading = specification ---------- *)
Definition sink_out (sink : option nat) (t : tok) : list tok :=
  match sink with None => [t] | Some _ => [] end.

Lemma sem_emit : forall m sink t, sem_cmd m (emit sink t) = Some (sink_out sink t, m).
Proof. intros m [f|] t; reflexivity. Qed.

Lemma sem_member_noinc : forall fuel sink i k,
  sem NoInc (ser_member fuel sink i k) = Some (sink_out sink (t_inline i), NoInc).
Proof.
  intros fuel sink i k.
  destruct k; destruct fuel; cbn [ser_member sem]; rewrite ?sem_cmd_IfMode; cbn [branch sem];
    rewrite sem_emit; now rewrite !app_nil_r.
Qed.

Lemma sem_member_allow : forall f sink i k,
  sem Allow (ser_member (S f) sink i k) = Some (sink_out sink (in_store i k), Allow).
Proof.
  intros f sink i k. destruct k; cbn [ser_member sem in_store].
  - rewrite sem_emit. now rewrite !app_nil_r.
  - rewrite sem_cmd_IfMode. cbn [branch sem]. rewrite sem_emit, sem_cmd_IfChanged.
    cbn [sem sem_cmd app mode_eqb]. now rewrite !app_nil_r.
  - rewrite sem_cmd_IfMode. cbn [branch sem]. rewrite sem_emit, sem_cmd_IfChanged.
    cbn [sem sem_cmd]. rewrite sem_app, sem_member_noinc. cbn [sem sem_cmd sink_out app mode_eqb].
    now rewrite !app_nil_r.
Qed.

Lemma sem_members_allow : forall f mem i,
  sem Allow (ser_members (S f) i mem) = Some (store_form i mem, Allow).
Proof.
  intros f mem. induction mem as [|k mem IH]; intros i; cbn [ser_members store_form]; [reflexivity|].
  rewrite sem_app, sem_member_allow, IH. reflexivity.
Qed.

Theorem sem_prog : forall f mem o,
  sem Allow (prog (S f) mem o) = Some (spec_out mem o, Allow).
Proof.
  intros f mem o. destruct o; cbn [prog spec_out sem sem_cmd].
  - reflexivity.
  - now rewrite sem_members_allow.
  - rewrite sem_app, sem_member_noinc. cbn [sem sem_cmd sink_out app]. reflexivity.
  - now rewrite sem_member_allow.
  - rewrite sem_app, sem_member_allow. cbn [sem sem_cmd sink_out app]. rewrite ?app_nil_r. reflexivity.
Qed.

Lemma init_thread_at : forall sc i o,
  nth_error (ops sc) i = Some o ->
  nth_error (thr (init sc)) i = Some (init_thread (prog model_fuel (members sc) o)).
Proof.
  intros sc i o H. unfold init. cbn [thr]. now rewrite nth_error_map, H.
Qed.

(* Outside the known class every thread of every scenario obtains, under every schedule,
   what the specification says it obtains alone. *)
Theorem scenario_guarded : forall sc sched i o,
  nth_error (ops sc) i = Some o ->
  Known_C20_mode_write (changed0 sc) (thr (init sc)) i = false ->
  exists t', nth_error (thr (run sched (init sc))) i = Some t' /\ dead t' = false
             /\ (finished t' = true -> out t' = spec_out (members sc) o)
             /\ exists rest, out t' ++ rest = spec_out (members sc) o.
Proof.
  intros sc sched i o Ho Hk.
  eapply guarded_generic with (c0 := changed0 sc) (m1 := Allow); eauto.
  - apply le_flags_refl.
  - apply init_thread_at; eauto.
  - reflexivity.
  - reflexivity.
  - cbn [init md init_thread stk]. apply sem_prog.
Qed.

(* Alone, every entry point yields the specified result, whatever the changed flags are. *)
Theorem scenario_solo : forall sc n i o,
  nth_error (ops sc) i = Some o ->
  exists t', nth_error (thr (run (repeat i n) (init sc))) i = Some t' /\ dead t' = false
             /\ (finished t' = true -> out t' = spec_out (members sc) o).
Proof.
  intros sc n i o Ho.
  destruct (solo_generic i n (init sc) (init_thread (prog model_fuel (members sc) o))
              (spec_out (members sc) o) Allow) as (t' & H1 & H2 & H3 & _); eauto.
  - apply init_thread_at; eauto.
  - cbn [init md init_thread stk]. apply sem_prog.
Qed.

(* ---------- the harness granularity is a special case ---------- *)
Lemma run_app : forall a b st, run (a ++ b) st = run b (run a st).
Proof. intros; unfold run; apply fold_left_app. Qed.

Lemma advance_is_run : forall n i st, exists k, advance n i st = run (repeat i k) st.
Proof.
  induction n as [|n IH]; intros i st; cbn [advance].
  - exists 0. reflexivity.
  - destruct (nth_error (thr st) i) as [t|]; [|exists 0; reflexivity].
    destruct (stk t) as [|c s]; [exists 0; reflexivity|].
    destruct (is_local c); [|exists 0; reflexivity].
    destruct (IH i (step i st)) as [k Hk]. exists (S k). rewrite Hk. reflexivity.
Qed.

Theorem run_coarse_is_run : forall cs st, exists fs, run_coarse cs st = run fs st.
Proof.
  induction cs as [|i cs IH]; intros st.
  - exists []. reflexivity.
  - cbn [run_coarse fold_left]. fold (run_coarse cs (cstep i st)).
    destruct (IH (cstep i st)) as [fs Hfs]. unfold cstep in *.
    destruct (advance_is_run (stack_len i (step i st)) i (step i st)) as [k Hk].
    exists ((i :: repeat i k) ++ fs). rewrite run_app. cbn [run fold_left].
    fold (run (repeat i k) (step i st)). rewrite <- Hk. exact Hfs.
Qed.

Corollary scenario_guarded_coarse : forall sc cs i o t',
  nth_error (ops sc) i = Some o ->
  Known_C20_mode_write (changed0 sc) (thr (init sc)) i = false ->
  nth_error (thr (run_coarse cs (init sc))) i = Some t' -> finished t' = true ->
  out t' = spec_out (members sc) o /\ dead t' = false.
Proof.
  intros sc cs i o t' Ho Hk Hn Hf.
  destruct (run_coarse_is_run cs (init sc)) as [fs E]. rewrite E in Hn.
  destruct (scenario_guarded sc fs i o Ho Hk) as (t2 & H1 & H2 & H3 & _).
  rewrite Hn in H1. injection H1 as <-. auto.
Qed.

(* ---------- inside the class the property fails ---------- *)
Definition result (i : nat) (st : state) : option (bool * list tok) :=
  option_map (fun t => (finished t, out t)) (nth_error (thr st) i).

Definition file_writes (i : nat) (st : state) : list (nat * tok) :=
  match nth_error (thr st) i with Some t => fout t | None => [] end.

(* A: store.to_json_string() over a store whose only member is an unchanged stand-off dataset;
   B: ToJson::to_json_string(that dataset, store.config()).  B's SetMode NoInc lands between A's
   start and A's read of the mode: A writes the dataset inline instead of {"@include"}. *)
Definition witness_AB : scen := mkScen [Json] [false] [OpStore; OpMemberTrait 0].

Lemma refuted_store_loses_include :
  result 0 (run_coarse [0; 1; 1; 0] (init witness_AB)) = Some (true, [t_inline 0])
  /\ spec_out (members witness_AB) OpStore = [t_include 0]
  /\ Known_C20_mode_write (changed0 witness_AB) (thr (init witness_AB)) 0 = true.
Proof. vm_compute. repeat split. Qed.

(* the other direction: B asks for the content of the stand-off file; A (flushing the changed
   stand-off dataset inside a store serialisation) sets the mode back to Allow between B's
   SetMode NoInc and B's read: B receives {"@include"} *)
Definition witness_BA : scen := mkScen [Json] [true] [OpMemberTrait 0; OpStore].

Lemma refuted_member_gets_include :
  result 0 (run_coarse [1; 1; 1; 0; 0; 1; 1; 1; 1; 0; 0; 0] (init witness_BA)) = Some (true, [t_include 0])
  /\ spec_out (members witness_BA) (OpMemberTrait 0) = [t_inline 0].
Proof. vm_compute. repeat split. Qed.

(* two threads that both only serialise the store: the flush of a changed stand-off dataset by
   one of them switches the mode under the other, which then writes everything inline *)
Definition witness_SS : scen := mkScen [Json; Json] [true; false] [OpStore; OpStore].

Lemma refuted_two_store_serialisations :
  result 1 (run_coarse [0; 0; 0; 0; 1; 1; 1] (init witness_SS)) = Some (true, [t_inline 0; t_inline 1])
  /\ spec_out (members witness_SS) OpStore = [t_include 0; t_include 1].
Proof. vm_compute. repeat split. Qed.

(* and the stand-off file itself can receive {"@include": itself}: B's closing SetMode Allow
   lands between A's SetMode NoInc and A's serialisation into the file *)
Lemma refuted_file_gets_include :
  In (0, t_include 0) (file_writes 1 (run_coarse [1; 1; 1; 0; 0; 0; 1; 0; 1] (init witness_BA))).
Proof. vm_compute. auto. Qed.

Theorem C20_refuted_generic :
  exists sc cs i o t', nth_error (ops sc) i = Some o
    /\ nth_error (thr (run_coarse cs (init sc))) i = Some t' /\ finished t' = true
    /\ out t' <> spec_out (members sc) o.
Proof.
  exists witness_AB, [0; 1; 1; 0], 0, OpStore.
  exists (mkT [] [t_inline 0] [] false).
  split; [reflexivity|]. split; [vm_compute; reflexivity|]. split; [reflexivity|].
  vm_compute. discriminate.
Qed.
