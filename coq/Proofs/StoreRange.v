(* Every text selection of every reachable store lies inside its resource: begin <= end <= length.
   (What resolving an offset accepts is inside what it is relative to - Proofs/Offset.v - and
   nothing else creates text selections.) *)
From Coq Require Import List Arith Bool Lia.
Import ListNotations.
From Stam Require Import Base.Tac Base.ListAux Model.Offset Model.Store
  Proofs.Offset Proofs.RelMap Proofs.StoreInv Proofs.StoreItems Proofs.StoreErr Proofs.StoreIds Proofs.StoreSel.

Definition in_res (rs : res) : Prop := forall rg, In rg (r_sels rs) -> fst rg <= snd rg /\ snd rg <= r_len rs.
Definition RangeInv (s : store) : Prop := AllRes in_res s.

Lemma intern_sel_range s r rs rg : get_res s r = Some rs -> RangeInv s ->
  fst rg <= snd rg /\ snd rg <= r_len rs -> RangeInv (fst (intern_sel s r rs rg)).
Proof.
  intros Hr HI Hrg. unfold intern_sel. destruct (find_sel (r_sels rs) rg 0) as [t|]; cbn [fst]; [exact HI|].
  pose proof (slot_lt _ _ _ Hr) as Hlt. intros r0 rs0. rewrite get_res_set by exact Hlt. destruct (r0 =? r) eqn:E0; [|apply HI].
  intros H. injection H as <-. intros x Hx. cbn [r_sels r_len] in *. apply in_app_or in Hx. destruct Hx as [Hx|[<-|[]]]; [apply (HI r rs Hr x Hx)|exact Hrg].
Qed.

Lemma ann_textsel_in s an r t prg : ann_textsel s an = Some (r, t, prg) ->
  exists rs, get_res s r = Some rs /\ In prg (r_sels rs).
Proof.
  unfold ann_textsel. destruct (a_kind an); [|discriminate]. destruct (a_leaves an) as [|lf [|lf2 l]]; try discriminate; destruct lf; try discriminate.
  - destruct (get_res s r0) as [rs|] eqn:E; [|discriminate]. destruct (nth_error (r_sels rs) t0) as [rg|] eqn:E2; [|discriminate].
    intros H. injection H as <- <- <-. exists rs. split; [exact E|apply (nth_error_In _ _ E2)].
  - destruct (get_res s r0) as [rs|] eqn:E; [|discriminate]. destruct (nth_error (r_sels rs) t0) as [rg|] eqn:E2; [|discriminate].
    intros H. injection H as <- <- <-. exists rs. split; [exact E|apply (nth_error_In _ _ E2)].
Qed.

Lemma resolve_simple_range s b : RangeInv s -> RangeInv (fst (resolve_simple s b)).
Proof.
  intros HI. destruct b as [rr o|ar [o|]|rr|dr|dr kr|dr xr|k l]; cbn [resolve_simple].
  - destruct (ref_res s rr) as [r|]; [|exact HI]. destruct (get_res s r) as [rs|] eqn:Eg; [|exact HI].
    destruct (resource_ts (r_len rs) o) as [rg|] eqn:Et; [|exact HI].
    pose proof (intern_sel_range s r rs rg Eg HI (resource_ts_range _ _ _ Et)) as X. destruct (intern_sel s r rs rg). exact X.
  - destruct (ref_ann s ar) as [a|]; [|exact HI]. destruct (get_ann s a) as [an|]; [|exact HI].
    destruct (ann_textsel s an) as [[[r pt] prg]|] eqn:Ea; [|exact HI].
    destruct (selection_ts prg o) as [rg|] eqn:Et; [|exact HI].
    destruct (get_res s r) as [rs|] eqn:Eg; [|exact HI].
    destruct (ann_textsel_in s an r pt prg Ea) as (rs' & Hr' & Hin). rewrite Eg in Hr'. injection Hr' as <-.
    destruct (HI r rs Eg prg Hin) as [P1 P2]. destruct (selection_ts_range prg o rg P1 Et) as (Q1 & Q2 & Q3).
    pose proof (intern_sel_range s r rs rg Eg HI ltac:(lia)) as X. destruct (intern_sel s r rs rg). exact X.
  - destruct (ref_ann s ar); exact HI.
  - destruct (ref_res s rr); exact HI.
  - destruct (ref_set s dr); exact HI.
  - destruct (ref_set s dr) as [d|]; [|exact HI]. destruct (get_set s d) as [ds|]; [|exact HI]. destruct (ref_key ds kr); exact HI.
  - destruct (ref_set s dr) as [d|]; [|exact HI]. destruct (get_set s d) as [ds|]; [|exact HI]. destruct (ref_data ds xr); exact HI.
  - exact HI.
Qed.

Lemma resolve_subs_range l : forall s, RangeInv s -> RangeInv (fst (resolve_subs s l)).
Proof.
  induction l as [|b l IH]; intros s HI; cbn [resolve_subs]; [exact HI|].
  pose proof (resolve_simple_range s b HI) as R1. destruct (resolve_simple s b) as [s1 [lf1|]]; cbn [fst] in R1; [|exact R1].
  specialize (IH s1 R1). destruct (resolve_subs s1 l) as [s2 [lfs|]]; exact IH.
Qed.

Lemma resolve_target_range s b : RangeInv s -> RangeInv (fst (resolve_target s b)).
Proof.
  intros HI.
  assert (Simple : forall b0, RangeInv (fst (match resolve_simple s b0 with (s', Some lf) => (s', Some (0, [lf])) | (s', None) => (s', None) end))).
  { intros b0. pose proof (resolve_simple_range s b0 HI) as R. destruct (resolve_simple s b0) as [s1 [lf|]]; exact R. }
  destruct b; cbn [resolve_target]; try apply Simple.
  pose proof (resolve_subs_range l s HI) as R. destruct (resolve_subs s l) as [s1 [lfs|]]; exact R.
Qed.

Lemma annotate_RangeInv s b : RangeInv s -> RangeInv (fst (annotate s b)).
Proof.
  intros HI. unfold annotate. destruct (ab_target b) as [tb|]; [|exact HI].
  pose proof (resolve_target_range s tb HI) as I1. destruct (resolve_target s tb) as [s1 [[k lfs]|]]; cbn [fst] in I1; [|exact I1].
  destruct (insert_datas_frame (ab_data b) s1) as (F & _).
  destruct (insert_datas s1 (ab_data b)) as [s2 [data|]]; cbn [fst] in F; [|apply (AllRes_same in_res s1); assumption].
  assert (I2 : RangeInv s2) by (apply (AllRes_same in_res s1); assumption).
  destruct (match ab_id b with Some tok => id_get (aidx s2) tok | None => None end) as [h'|].
  - destruct (get_ann s2 h'); [destruct (_ && _)|]; exact I2.
  - cbn [fst]. apply (AllRes_same in_res s2); [|exact I2]. rewrite index_ann_ress. destruct (ab_id b); reflexivity.
Qed.

Theorem reachable_RangeInv : forall ops, RangeInv (run ops).
Proof. apply reachable_AllRes; [intros id len rg []|exact annotate_RangeInv]. Qed.
