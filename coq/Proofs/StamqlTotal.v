(* Totality of the STAMQL parser model: for EVERY input string the parser
   returns Ok or Err - no panic site is reachable and the recursion budget
   (length of the input + 1) is never exhausted, because every loop iteration
   and every nesting level consumes input. *)
From Coq Require Import List ZArith NArith Bool Arith Lia.
Import ListNotations.
From Stam Require Import Model.StamqlLex Model.Stamql Proofs.StamqlLex.
Local Open Scope stamql_scope.

(* Ok with a post-condition, or Err; never Panic, never Fuel *)
Definition good {A} (P : A -> Prop) (o : outcome A) : Prop :=
  match o with Ok a => P a | Err => True | Panic => False | Fuel => False end.

Lemma good_bind {A B} (Q : A -> Prop) (P : B -> Prop) (o : outcome A) (f : A -> outcome B) :
  good Q o -> (forall a, Q a -> good P (f a)) -> good P (bind o f).
Proof. destruct o; cbn; auto; contradiction. Qed.

Lemma good_intro {A} (P : A -> Prop) (o : outcome A) :
  np o -> nf o -> (forall a, o = Ok a -> P a) -> good P o.
Proof. unfold np, nf; destruct o; cbn; intros; auto; congruence. Qed.

Lemma good_weaken {A} (P Q : A -> Prop) (o : outcome A) :
  good P o -> (forall a, P a -> Q a) -> good Q o.
Proof. destruct o; cbn; auto. Qed.

Lemma good_np {A} (P : A -> Prop) (o : outcome A) : good P o -> o <> Panic /\ o <> Fuel.
Proof. destruct o; cbn; intros; split; try discriminate; contradiction. Qed.

Lemma good_ok {A} (P : A -> Prop) (o : outcome A) a : good P o -> o = Ok a -> P a.
Proof. intros H ->. exact H. Qed.

Section Total.
  Variable dt : str -> option str.
  Variable re : str -> bool.

  Notation get_arg := (get_arg dt).

  (* ---------- get_arg with its post-condition ---------- *)
  Definition ga_post (s : str) (x : str * str * argtype) : Prop :=
    let '(a, r, t) := x in
    length r <= length s /\ exists q, t = get_arg_type dt a q.

  Lemma get_arg_loop_type : forall s quote escaped all_rev q_rev a r t,
    get_arg_loop dt quote escaped all_rev q_rev s = Ok (a, r, t) -> exists q, t = get_arg_type dt a q.
  Proof.
    induction s as [|c s IH]; intros quote escaped all_rev q_rev a r t H; cbn [get_arg_loop] in H; [discriminate|].
    destruct ((c =? c_dquote)%N && negb escaped).
    - destruct quote; [inversion H; subst; eauto | eapply IH; exact H].
    - destruct (negb quote && starts_with K__OR_ (c :: s)); [inversion H; subst; eauto|].
      destruct (negb quote && is_term c); [inversion H; subst; eauto | eapply IH; exact H].
  Qed.

  Lemma good_get_arg : forall s, good (ga_post s) (get_arg s).
  Proof.
    intros s. apply good_intro; auto with stamql.
    intros [[a r] t] H. cbn. split; [eapply get_arg_len; eauto | eapply get_arg_loop_type; exact H].
  Qed.

  (* ---------- keyword dispatch makes the fixed-width slice safe ---------- *)
  Lemma strip_after_split : forall kw qs,
    str_eqb (split_first qs) kw = true -> exists r, qs = kw ++ r /\ strip kw qs = Ok r.
  Proof.
    intros kw qs H. apply str_eqb_eq in H. subst kw. unfold strip.
    apply slice_after_prefix. apply split_first_starts.
  Qed.

  Lemma strip_after_prefix : forall kw qs,
    starts_with kw qs = true -> exists r, qs = kw ++ r /\ strip kw qs = Ok r.
  Proof. intros. unfold strip. apply slice_after_prefix; auto. Qed.

  (* ---------- data operators ---------- *)
  Lemma good_eq_base : forall v q, good (fun _ => True) (eq_base dt v (get_arg_type dt v q)).
  Proof.
    intros v q. destruct (get_arg_type dt v q) eqn:E; cbn; auto.
    - unfold int_value. destruct (parse_isize v); cbn; auto.
    - unfold float_value. destruct (is_f64 v); cbn; auto.
    - apply get_arg_type_bool in E. unfold bool_value.
      destruct E as [-> | ->]; cbn; auto.
    - apply get_arg_type_datetime in E as [d E]. unfold dt_value. rewrite E. cbn. auto.
  Qed.

  Lemma good_cmp_base : forall c v q, good (fun _ => True) (cmp_base dt c v (get_arg_type dt v q)).
  Proof.
    intros c v q. destruct (get_arg_type dt v q) eqn:E; cbn; auto.
    - unfold int_value. destruct (parse_isize v); cbn; auto.
    - unfold float_value. destruct (is_f64 v); cbn; auto.
    - apply get_arg_type_datetime in E as [d E]. unfold dt_value. rewrite E. cbn. auto.
  Qed.

  (* numeric / classification safety: whatever the operator and the value, an argument classified
     by get_arg_type never reaches an expect()/unreachable!() of parse_dataoperator *)
  Theorem good_parse_dataoperator : forall op v q,
    good (fun _ => True) (parse_dataoperator dt op v (get_arg_type dt v q)).
  Proof.
    intros op v q. unfold parse_dataoperator.
    destruct (str_eqb op K_EQ).
    { eapply good_bind; [apply good_eq_base | cbn; auto]. }
    destruct (str_eqb op K_NE).
    { assert (G : good (fun _ : dataop => True) (do b <- eq_base dt v (get_arg_type dt v q); Ok (Neg b)))
        by (eapply good_bind; [apply good_eq_base | cbn; auto]).
      destruct (get_arg_type dt v q); try exact G. cbn; auto. }
    destruct (str_eqb op K_GT); [eapply good_bind; [apply good_cmp_base | cbn; auto]|].
    destruct (str_eqb op K_GE); [eapply good_bind; [apply good_cmp_base | cbn; auto]|].
    destruct (str_eqb op K_LT); [eapply good_bind; [apply good_cmp_base | cbn; auto]|].
    destruct (str_eqb op K_LE); [eapply good_bind; [apply good_cmp_base | cbn; auto]|].
    cbn; auto.
  Qed.

  (* ---------- qualifiers, offsets ---------- *)
  Definition rem4_post {X Y} (s : str) (x : str * str * X * Y) : Prop :=
    let '(_, r, _, _) := x in length r <= length s.

  Lemma good_parse_qualifiers : forall arg qs, good (rem4_post qs) (parse_qualifiers dt arg qs).
  Proof.
    intros arg qs. unfold parse_qualifiers.
    destruct (str_eqb arg K_AS); [|cbn; auto].
    eapply good_bind; [apply good_get_arg|]. intros [[as_arg r1] t1] (L1 & _).
    destruct (str_eqb as_arg K_TARGET || str_eqb as_arg K_METADATA); [|cbn; auto].
    eapply good_bind; [apply good_get_arg|]. intros [[newarg r2] t2] (L2 & _).
    destruct (str_eqb newarg K_RECURSIVE).
    - eapply good_bind; [apply good_get_arg|]. intros [[a3 r3] t3] (L3 & _). cbn. lia.
    - cbn. lia.
  Qed.

  Lemma good_parse_text_qualifiers : forall arg qs, good (rem4_post qs) (parse_text_qualifiers dt arg qs).
  Proof.
    intros arg qs. unfold parse_text_qualifiers.
    destruct (str_eqb arg K_AS); [|cbn; auto].
    eapply good_bind; [apply good_get_arg|]. intros [[as_arg r1] t1] (L1 & _).
    destruct (str_eqb as_arg K_REGEXP || str_eqb as_arg K_REGEX).
    - eapply good_bind; [apply good_get_arg|]. intros [[a2 r2] t2] (L2 & _). cbn. lia.
    - destruct (str_eqb as_arg K_NOCASE); [|cbn; auto].
      eapply good_bind; [apply good_get_arg|]. intros [[a2 r2] t2] (L2 & _). cbn. lia.
  Qed.

  Definition rem2_post {X} (s : str) (x : X * str) : Prop := length (snd x) <= length s.

  Lemma good_cursor_arg : forall a, good (fun _ => True) (cursor_arg a).
  Proof. intros. unfold cursor_arg. destruct (cursor_of_str a); cbn; auto. Qed.

  Lemma good_parse_offset : forall qs, good (rem2_post qs) (parse_offset dt qs).
  Proof.
    intros qs. unfold parse_offset.
    destruct (negb (closed qs) && starts_with K_OFFSET qs) eqn:E; [|cbn; unfold rem2_post; cbn; lia].
    apply andb_true_iff in E as [_ E]. destruct (strip_after_prefix _ _ E) as [r [Hr ->]]. cbn [bind].
    assert (Lr : length r <= length qs) by (subst qs; rewrite app_length; lia).
    eapply good_bind; [apply good_get_arg|]. intros [[arg r1] t1] (L1 & _).
    pose proof (trim_start_len r).
    eapply good_bind with (Q := fun _ => True).
    { destruct (str_eqb arg K_WHOLE || str_eqb arg K_ALL); [cbn; auto | apply good_cursor_arg]. }
    intros b _. destruct (closed r1).
    - cbn; unfold rem2_post; cbn; lia.
    - eapply good_bind; [apply good_get_arg|]. intros [[arg2 r2] t2] (L2 & _).
      eapply good_bind; [apply good_cursor_arg|]. intros e _. cbn; unfold rem2_post; cbn; lia.
  Qed.

  Lemma good_var_name : forall arg, starts_with K_QMARK arg = true -> good (fun _ => True) (var_name arg).
  Proof.
    intros arg H. unfold var_name. change 1 with (blen K_QMARK).
    destruct (slice_after_prefix _ _ H) as [r [_ ->]]. cbn; auto.
  Qed.

  Lemma is_var_starts : forall arg, is_var arg = true -> starts_with K_QMARK arg = true.
  Proof. intros arg H. unfold is_var in H. apply andb_true_iff in H as [H _]. exact H. Qed.

  Lemma good_eat_semi : forall qs, good (fun r => length r <= length qs) (eat_semi qs).
  Proof.
    intros qs. unfold eat_semi. destruct (starts_with K_SEMI qs) eqn:E; [|cbn; auto].
    change 1 with (blen K_SEMI). destruct (slice_after_prefix _ _ E) as [r [-> ->]]. cbn.
    pose proof (trim_start_len r). lia.
  Qed.

  (* ---------- Constraint::parse, the arms other than [ ---------- *)
  Definition consumed (qs : str) {X} (x : X * str) : Prop := length (snd x) < length qs.

  Ltac use_strip qs H :=
    let r := fresh "r" in let Hr := fresh "Hr" in let Hs := fresh "Hs" in
    destruct (strip_after_split _ _ H) as [r [Hr Hs]]; rewrite Hs; cbn [bind];
    assert (length (trim_start r) < length qs) by
      (pose proof (trim_start_len r); rewrite Hr, app_length; cbn; lia).

  Ltac ga := eapply good_bind; [apply good_get_arg|]; intros [[? ?] ?] (? & ?).
  Ltac fin := unfold consumed, rem4_post, rem2_post in *; cbn [snd] in *; cbn; lia.

  Lemma good_parse_simple_constraint : forall qs,
    good (consumed qs) (parse_simple_constraint dt re (split_first qs) qs).
  Proof.
    intros qs. unfold parse_simple_constraint.
    destruct (str_eqb (split_first qs) K_ID) eqn:E1.
    { use_strip qs E1. ga. fin. }
    destruct (str_eqb (split_first qs) K_TEXT) eqn:E2.
    { use_strip qs E2. ga.
      eapply good_bind; [apply good_parse_text_qualifiers|].
      intros [[[arg rem] nocase] regex] L.
      destruct (is_var arg) eqn:V.
      - eapply good_bind; [apply good_var_name, is_var_starts, V|]. intros; fin.
      - destruct regex; [destruct (re arg)|]; fin. }
    destruct (str_eqb (split_first qs) K_ANNOTATION) eqn:E3.
    { use_strip qs E3. ga.
      eapply good_bind; [apply good_parse_qualifiers|].
      intros [[[arg rem] q] d] L.
      eapply good_bind; [apply good_parse_offset|].
      intros [off rem2] L2. unfold rem2_post in L2. cbn [snd] in *.
      destruct (is_var arg) eqn:V.
      - eapply good_bind; [apply good_var_name, is_var_starts, V|]. intros; fin.
      - fin. }
    destruct (str_eqb (split_first qs) K_RESOURCE) eqn:E4.
    { use_strip qs E4. ga.
      eapply good_bind; [apply good_parse_qualifiers|].
      intros [[[arg rem] q] d] L.
      eapply good_bind; [apply good_parse_offset|].
      intros [off rem2] L2. unfold rem2_post in L2. cbn [snd] in *.
      destruct (is_var arg) eqn:V.
      - eapply good_bind; [apply good_var_name, is_var_starts, V|]. intros; fin.
      - fin. }
    destruct (str_eqb (split_first qs) K_DATASET) eqn:E5.
    { use_strip qs E5. ga.
      eapply good_bind; [apply good_parse_qualifiers|].
      intros [[[arg rem] q] d] L.
      destruct (is_var arg) eqn:V.
      - eapply good_bind; [apply good_var_name, is_var_starts, V|]. intros; fin.
      - fin. }
    destruct (str_eqb (split_first qs) K_RELATION) eqn:E6.
    { use_strip qs E6. ga.
      match goal with |- context [negb (starts_with K_QMARK ?x)] => destruct (negb (starts_with K_QMARK x)) eqn:V end; [cbn; auto|].
      apply negb_false_iff in V. ga.
      match goal with |- context [relkind_of ?x] => destruct (relkind_of x) end; [|cbn; auto].
      eapply good_bind; [apply good_var_name, V|]. intros; fin. }
    destruct (str_eqb (split_first qs) K_DATA) eqn:E7.
    { use_strip qs E7. ga.
      eapply good_bind; [apply good_parse_qualifiers|].
      intros [[[arg rem] q] d] L.
      destruct (starts_with K_QMARK arg) eqn:V.
      - eapply good_bind; [apply good_var_name, V|]. intros; fin.
      - ga. match goal with |- context [closed ?x] => destruct (closed x) end; [fin|].
        ga. ga.
        match goal with H : exists q, _ = get_arg_type dt _ q |- good _ (bind (parse_dataoperator _ _ _ ?t) _) =>
          destruct H as [qq ->] end.
        eapply good_bind; [apply good_parse_dataoperator|]. intros; fin. }
    destruct (str_eqb (split_first qs) K_VALUE) eqn:E8.
    { use_strip qs E8. ga.
      eapply good_bind; [apply good_parse_qualifiers|].
      intros [[[opstr rem] q] d] L.
      ga.
      match goal with H : exists q, _ = get_arg_type dt _ q |- good _ (bind (parse_dataoperator _ _ _ ?t) _) =>
        destruct H as [qq ->] end.
      eapply good_bind; [apply good_parse_dataoperator|]. intros; fin. }
    destruct (str_eqb (split_first qs) K_KEY) eqn:E9.
    { use_strip qs E9. ga.
      eapply good_bind; [apply good_parse_qualifiers|].
      intros [[[arg rem] q] d] L.
      destruct (is_var arg) eqn:V; [|cbn; auto].
      eapply good_bind; [apply good_var_name, is_var_starts, V|]. intros; fin. }
    destruct (str_eqb (split_first qs) K_SUBSTORE) eqn:E10.
    { use_strip qs E10. ga.
      match goal with |- context [is_var ?x] => destruct (is_var x) eqn:V end.
      - eapply good_bind; [apply good_var_name, is_var_starts, V|]. intros; fin.
      - match goal with |- context [if ?c then _ else _] => destruct c end; fin. }
    destruct (str_eqb (split_first qs) K_LIMIT) eqn:E11.
    { use_strip qs E11. ga.
      eapply good_bind with (Q := fun _ => True).
      { unfold limit_value. match goal with |- context [parse_isize ?x] => destruct (parse_isize x) end; cbn; auto. }
      intros a' _. match goal with |- context [closed ?x] => destruct (closed x) end.
      - destruct (0 <=? a')%Z; fin.
      - ga. eapply good_bind with (Q := fun _ => True).
        { unfold limit_value. match goal with |- context [parse_isize ?x] => destruct (parse_isize x) end; cbn; auto. }
        intros; fin. }
    cbn; auto.
  Qed.

  (* ---------- Constraint::parse ---------- *)
  Definition consumed3 (qs : str) {X Y} (x : X * Y * str) : Prop :=
    let '(_, _, r) := x in length r < length qs.

  (* the union loop: every iteration consumes input *)
  Lemma good_union_loop : forall pc f,
    (forall q, length q < f -> good (consumed3 q) (pc q)) ->
    forall n subs q, length q <= n -> length q < f ->
    good (fun x : list constr * str => length (snd x) <= length q) (union_loop pc n subs q).
  Proof.
    intros pc f Hpc. induction n as [|n IHn]; intros subs q Hn Hq.
    - destruct q; [cbn; lia | cbn in Hn; lia].
    - destruct q as [|c q]; [cbn; lia|]. cbn [union_loop].
      eapply good_bind; [apply Hpc; exact Hq|].
      intros [[sub a0] rem0] Lc. cbv zeta. unfold consumed3 in Lc.
      pose proof (trim_start_len rem0) as Lt.
      destruct (starts_with K_OR_ (trim_start rem0)) eqn:EO.
      + change 3 with (blen K_OR_). destruct (slice_after_prefix _ _ EO) as [q' [Hq' ->]]. cbn [bind].
        assert (length q' + 3 = length (trim_start rem0)) by (rewrite Hq'; rewrite app_length; cbn; lia).
        eapply good_weaken; [apply IHn; lia|]. intros x Hx. cbn beta in Hx. lia.
      + destruct (starts_with K_RBRACKET (trim_start rem0)) eqn:ER.
        * change 1 with (blen K_RBRACKET). destruct (slice_after_prefix _ _ ER) as [q' [Hq' ->]]. cbn.
          assert (length q' + 1 = length (trim_start rem0)) by (rewrite Hq'; rewrite app_length; cbn; lia).
          cbn [length] in *. lia.
        * destruct (trim_start rem0) eqn:ET; cbn; auto. cbn [length] in *. lia.
  Qed.

  (* budget: one unit per nesting level of [ ]; each level consumes the bracket *)
  Theorem good_parse_constraint : forall fuel qs,
    length qs < fuel -> good (consumed3 qs) (parse_constraint dt re fuel qs).
  Proof.
    induction fuel as [|f IH]; intros qs Hf; [lia|].
    cbn [parse_constraint].
    pose proof (parse_attributes_total qs) as [Hnp Hnf].
    eapply good_bind.
    { apply good_intro with (P := fun x : list str * str => length (snd x) <= length qs /\ hd_nows (snd x));
        [exact Hnp | exact Hnf |]. intros [a r] Ha. exact (parse_attributes_res _ _ _ Ha). }
    intros [attributes qs1] [L1 Hh1]. cbn [snd] in *. cbv zeta.
    destruct (str_eqb (split_first qs1) K_LBRACKET) eqn:EB.
    - (* union *)
      change 1 with (blen K_LBRACKET).
      destruct (strip_after_split _ _ EB) as [r [Hr Hs]]. unfold strip in Hs. rewrite Hs. cbn [bind].
      assert (Lr : length (trim_start r) < length qs1).
      { pose proof (trim_start_len r). rewrite Hr, app_length. cbn. lia. }
      eapply good_bind; [apply (good_union_loop _ f IH); lia|].
      intros [subs rest] Lrest. cbn [snd] in Lrest.
      destruct subs; [cbn; auto|].
      eapply good_bind; [apply good_eat_semi|]. intros rest' L'. cbn beta in L'. cbn. lia.
    - eapply good_bind; [apply good_parse_simple_constraint|].
      intros [c rest] Lc. unfold consumed in Lc. cbn [snd] in *.
      eapply good_bind; [apply good_eat_semi|].
      intros rest' L'. cbn beta in L'. cbn. lia.
  Qed.

  (* ---------- Assignment::parse ---------- *)
  Lemma good_parse_name : forall s, good (rem2_post s) (parse_name s).
  Proof.
    intros s. destruct (parse_name_total s) as [H1 H2]. apply good_intro; auto.
    intros [n r] H. unfold rem2_post. cbn. eapply parse_name_len; eauto.
  Qed.

  Lemma good_parse_assignment : forall qs, good (consumed qs) (parse_assignment dt qs).
  Proof.
    intros qs. unfold parse_assignment.
    eapply good_bind with (Q := consumed qs).
    2:{ intros [a rest] L. eapply good_bind; [apply good_eat_semi|]. intros r' L'. cbn beta in L'. fin. }
    destruct (str_eqb (split_first qs) K_ID) eqn:E1.
    { use_strip qs E1. ga. fin. }
    destruct (str_eqb (split_first qs) K_DATA) eqn:E2.
    { use_strip qs E2. ga. ga.
      match goal with |- context [closed ?x] => destruct (closed x) end; [fin|].
      ga. match goal with |- good _ (match ?t with _ => _ end) => destruct t end; try fin.
      eapply good_bind with (Q := fun _ => True); [unfold int_value;
        match goal with |- context [parse_isize ?x] => destruct (parse_isize x) end; cbn; auto|].
      intros; fin. }
    destruct (str_eqb (split_first qs) K_TARGET) eqn:E3.
    { use_strip qs E3. eapply good_bind; [apply good_parse_name|].
      intros [[n|] rem] L; [|cbn; auto].
      eapply good_bind; [apply good_parse_offset|]. intros [off rem2] L2. fin. }
    destruct (str_eqb (split_first qs) K_COMPOSITE) eqn:E4; [use_strip qs E4; fin|].
    destruct (str_eqb (split_first qs) K_MULTI) eqn:E5; [use_strip qs E5; fin|].
    destruct (str_eqb (split_first qs) K_DIRECTIONAL) eqn:E6; [use_strip qs E6; fin|].
    cbn; auto.
  Qed.

  (* ---------- the loops of the query level ---------- *)
  Definition le3 (qs : str) {X Y} (x : X * Y * str) : Prop := let '(_, _, r) := x in length r <= length qs.

  Lemma good_constraints_loop : forall F n cs cas qs,
    length qs <= n -> length qs < F -> good (le3 qs) (constraints_loop dt re F n cs cas qs).
  Proof.
    induction n as [|n IH]; intros cs cas qs Hn HF.
    - destruct qs; [cbn; lia | cbn in Hn; lia].
    - destruct qs as [|c qs]; [cbn; lia|]. cbn [constraints_loop].
      destruct (stop_char (c :: qs) true); [cbn; lia|].
      eapply good_bind; [apply good_parse_constraint; exact HF|].
      intros [[c0 ca] rem] L. unfold consumed3 in L.
      eapply good_weaken; [apply IH; cbn [length] in *; lia|].
      intros [[? ?] r] Hr. unfold le3 in *. lia.
  Qed.

  Lemma good_assignments_loop : forall n acc qs,
    length qs <= n -> good (fun x : list assign * str => length (snd x) <= length qs) (assignments_loop dt n acc qs).
  Proof.
    induction n as [|n IH]; intros acc qs Hn.
    - destruct qs; [cbn; lia | cbn in Hn; lia].
    - destruct qs as [|c qs]; [cbn; lia|]. cbn [assignments_loop].
      destruct (stop_char (c :: qs) false); [cbn; lia|].
      eapply good_bind; [apply good_parse_assignment|].
      intros [a rem] L. unfold consumed in L. cbn [snd] in L.
      eapply good_weaken; [apply IH; cbn [length] in *; lia|].
      intros [? r] Hr. cbn [snd] in *. lia.
  Qed.

  Lemma good_parse_qualifier : forall qs, good (rem2_post qs) (parse_qualifier qs).
  Proof.
    intros qs. unfold parse_qualifier. destruct (str_eqb (split_first qs) K_OPTIONAL) eqn:E.
    - use_strip qs E. fin.
    - fin.
  Qed.

  Lemma good_where_clause : forall kw b qs, good (fun r => length r <= length qs) (where_clause kw b qs).
  Proof.
    intros kw b qs. unfold where_clause. destruct (str_eqb (split_first qs) kw) eqn:E.
    - destruct (strip_after_split _ _ E) as [r [Hr ->]]. cbn.
      pose proof (trim_start_len r). rewrite Hr, app_length. lia.
    - repeat match goal with |- context [if ?c then _ else _] => destruct c end; cbn; auto.
  Qed.

  (* a string whose first character is one byte wide *)
  Definition head1 (q : str) : Prop := exists c r, q = c :: r /\ clen c = 1.

  Lemma head1_slice : forall q, head1 q -> exists r, q = hd 0%N q :: r /\ slice_from 1 q = Ok r.
  Proof.
    intros q (c & r & -> & Hc). exists r. split; auto. unfold slice_from. cbn [drop_bytes].
    rewrite Hc. cbn. destruct r; reflexivity.
  Qed.

  Lemma first_is_head1 : forall c q, clen c = 1 -> hd_nows q -> first_is c (first_nonspace q) = true -> head1 q.
  Proof.
    intros c q Hc Hq H. rewrite first_nonspace_fix in H by exact Hq.
    destruct q as [|x r]; cbn in H; [discriminate|]. apply N.eqb_eq in H. subst x. exists c, r. auto.
  Qed.

  Definition le2 (qs : str) {X} (x : X * str) : Prop := length (snd x) <= length qs.

  (* the sub-query loop: every iteration consumes the "{" or "|" it starts with *)
  Lemma good_sub_loop : forall ps f,
    (forall q a, starts_with K_SELECT q = true -> length q < f -> good (le2 q) (ps q a)) ->
    forall n subs q, length q <= n -> length q <= f -> head1 q -> good (le2 q) (sub_loop ps n subs q).
  Proof.
    intros ps f Hps. induction n as [|n IH]; intros subs q Hn Hf Hq.
    - destruct Hq as (c & r & -> & _). cbn in Hn. lia.
    - cbn [sub_loop]. destruct (head1_slice q Hq) as [r [Hr ->]]. cbn [bind].
      assert (Lr : length r < length q) by (rewrite Hr; cbn; lia).
      pose proof (trim_start_len r) as Lt.
      pose proof (parse_attributes_total (trim_start r)) as [Hnp Hnf].
      eapply good_bind.
      { apply good_intro with (P := fun x : list str * str => length (snd x) <= length (trim_start r) /\ hd_nows (snd x));
          [exact Hnp | exact Hnf |]. intros [a r0] Ha. exact (parse_attributes_res _ _ _ Ha). }
      intros [attrs q1] [L1 H1]. cbn [snd] in *.
      eapply good_bind with (Q := fun x : list query * str => length (snd x) <= length q1 /\ hd_nows (snd x)).
      { destruct (starts_with K_SELECT q1) eqn:ES.
        - eapply good_bind; [apply Hps; [exact ES | lia]|].
          intros [sub rem] L. unfold le2 in L. cbn [snd] in *. cbn.
          pose proof (trim_start_len rem). split; [lia | apply trim_start_hd].
        - cbn. auto. }
      intros [subs' q2] [L2 H2]. cbn [snd] in *.
      destruct (first_is c_rbrace (first_nonspace q2)) eqn:EC.
      + destruct (head1_slice q2 (first_is_head1 c_rbrace _ eq_refl H2 EC)) as [r' [Hr' ->]]. cbn.
        unfold le2. cbn [snd]. pose proof (trim_start_len r'). rewrite Hr' in L2. cbn [length] in L2. lia.
      + destruct (first_is c_pipe (first_nonspace q2)) eqn:EP; [|cbn; auto].
        eapply good_weaken; [apply IH; [lia | lia | exact (first_is_head1 c_pipe _ eq_refl H2 EP)]|].
        intros [? ?]. unfold le2. cbn [snd]. lia.
  Qed.

  Lemma good_subqueries_with : forall ps F qs,
    (forall q a, starts_with K_SELECT q = true -> length q < length qs -> good (le2 q) (ps q a)) ->
    length qs <= F -> good (le2 qs) (subqueries_with ps F qs).
  Proof.
    intros ps F qs Hps HF. unfold subqueries_with.
    destruct (first_is c_lbrace (first_nonspace qs)) eqn:E; [|unfold le2; cbn; lia].
    pose proof (trim_start_len qs).
    eapply good_weaken; [eapply good_sub_loop with (f := length qs); [exact Hps | lia | lia |]|].
    - apply (first_is_head1 c_lbrace); [reflexivity | apply trim_start_hd|].
      unfold first_nonspace in *. rewrite trim_start_idem. exact E.
    - intros [? ?]. unfold le2. cbn [snd]. lia.
  Qed.

  Lemma select_resulttype_kw : forall w rt kw, select_resulttype w = Some (rt, kw) ->
    exists kw', w = kw' /\ length kw' = length kw /\ ascii kw' /\ ascii kw.
  Proof.
    intros w rt kw H. unfold select_resulttype in H.
    repeat match type of H with
           | (if ?a || ?b then _ else _) = _ =>
               let Ea := fresh "E" in let Eb := fresh "E" in
               destruct a eqn:Ea; [apply str_eqb_eq in Ea | destruct b eqn:Eb; [apply str_eqb_eq in Eb|]]; cbn [orb] in H
           end; try discriminate; inversion H; subst; eexists; (split; [reflexivity|]);
      (split; [reflexivity|]); split; repeat constructor.
  Qed.

  (* strip of a keyword when the dispatch matched the keyword or its lower-case spelling *)
  Lemma strip_same_width : forall kw kw' qs,
    split_first qs = kw' -> length kw' = length kw -> ascii kw' -> ascii kw ->
    exists r, qs = kw' ++ r /\ strip kw qs = Ok r.
  Proof.
    intros kw kw' qs H L A' A. unfold strip. rewrite (blen_ascii kw A), <- L, <- (blen_ascii kw' A').
    apply slice_after_prefix. rewrite <- H. apply split_first_starts.
  Qed.

  (* ---------- parse_select ---------- *)
  Theorem good_parse_select : forall F fuel qs0 attrs,
    starts_with K_SELECT qs0 = true -> length qs0 < fuel -> length qs0 < F ->
    good (le2 qs0) (parse_select dt re F fuel qs0 attrs).
  Proof.
    intros F. induction fuel as [|f IH]; intros qs0 attrs HS Hf HF; [lia|].
    cbn [parse_select].
    destruct (strip_after_prefix _ _ HS) as [r0 [Hr0 ->]]. cbn [bind].
    assert (L0 : length (trim_start r0) + 6 <= length qs0).
    { pose proof (trim_start_len r0). rewrite Hr0, app_length. cbn. lia. }
    eapply good_bind; [apply good_parse_qualifier|].
    intros [optional qs1] L1. unfold rem2_post in L1. cbn [snd] in L1.
    destruct (select_resulttype (split_first qs1)) as [[rt kw]|] eqn:ER; [|cbn; auto].
    destruct (select_resulttype_kw _ _ _ ER) as (kw' & Hw & Hl & A' & A).
    destruct (strip_same_width kw kw' qs1 Hw Hl A' A) as [r2 [Hr2 ->]]. cbn [bind].
    assert (L2 : length (trim_start r2) <= length qs1).
    { pose proof (trim_start_len r2). rewrite Hr2, app_length. lia. }
    eapply good_bind; [apply good_parse_name|].
    intros [name qs3] L3. unfold rem2_post in L3. cbn [snd] in L3.
    eapply good_bind; [apply good_where_clause|]. intros qs4 L4. cbn beta in L4.
    eapply good_bind; [apply good_constraints_loop; lia|].
    intros [[cs cas] qs5] L5. unfold le3 in L5.
    eapply good_bind.
    { apply good_subqueries_with with (qs := qs5); [|lia].
      intros q a Hq Lq. apply IH; auto; lia. }
    intros [subs qs6] L6. unfold le2 in *. cbn [snd] in *.
    assert (length qs6 <= length qs0) by lia.
    cbn. exact H.
  Qed.

  (* ---------- ADD, DELETE, the entry points ---------- *)
  Lemma good_parse_subqueries : forall F qs, length qs < F -> good (le2 qs) (parse_subqueries dt re F F qs).
  Proof.
    intros F qs HF. unfold parse_subqueries. apply good_subqueries_with; [|lia].
    intros q a Hq Lq. apply good_parse_select; auto; lia.
  Qed.

  Lemma add_resulttype_kw : forall w, add_resulttype w = true ->
    exists kw', w = kw' /\ length kw' = length K_ANNOTATION /\ ascii kw'.
  Proof.
    intros w H. unfold add_resulttype in H. apply orb_true_iff in H as [H | H]; apply str_eqb_eq in H; subst;
      eexists; (split; [reflexivity|]); (split; [reflexivity|]); repeat constructor.
  Qed.

  Lemma ascii_ANNOTATION : ascii K_ANNOTATION. Proof. repeat constructor. Qed.

  Lemma good_parse_add : forall F qs attrs,
    str_eqb (split_first qs) K_ADD = true -> length qs < F -> good (le2 qs) (parse_add dt re F qs attrs).
  Proof.
    intros F qs attrs E HF. unfold parse_add.
    destruct (strip_after_split _ _ E) as [r0 [Hr0 ->]]. cbn [bind]. cbv zeta.
    assert (L0 : length (trim_start r0) < length qs).
    { pose proof (trim_start_len r0). rewrite Hr0, app_length. cbn. lia. }
    destruct (add_resulttype (split_first (trim_start r0))) eqn:ER; [|cbn; auto].
    destruct (add_resulttype_kw _ ER) as (kw' & Hw & Hl & A').
    destruct (strip_same_width K_ANNOTATION kw' _ Hw Hl A' ascii_ANNOTATION) as [r2 [Hr2 ->]]. cbn [bind].
    assert (L2 : length (trim_start r2) <= length (trim_start r0)).
    { pose proof (trim_start_len r2). rewrite Hr2, app_length. lia. }
    eapply good_bind; [apply good_parse_name|].
    intros [name qs3] L3. unfold rem2_post in L3. cbn [snd] in L3.
    eapply good_bind; [apply good_where_clause|]. intros qs4 L4. cbn beta in L4.
    eapply good_bind; [apply good_assignments_loop; lia|].
    intros [asg qs5] L5. cbn [snd] in L5.
    eapply good_bind; [apply good_parse_subqueries; lia|].
    intros [subs qs6] L6. unfold le2 in *. cbn [snd] in *. cbn. lia.
  Qed.

  Lemma good_parse_delete : forall F qs attrs,
    str_eqb (split_first qs) K_DELETE = true -> length qs < F -> good (le2 qs) (parse_delete dt re F qs attrs).
  Proof.
    intros F qs attrs E HF. unfold parse_delete.
    destruct (strip_after_split _ _ E) as [r0 [Hr0 ->]]. cbn [bind]. cbv zeta.
    assert (L0 : length (trim_start r0) < length qs).
    { pose proof (trim_start_len r0). rewrite Hr0, app_length. cbn. lia. }
    destruct (add_resulttype (split_first (trim_start r0))) eqn:ER; [|cbn; auto].
    destruct (add_resulttype_kw _ ER) as (kw' & Hw & Hl & A').
    destruct (strip_same_width K_ANNOTATION kw' _ Hw Hl A' ascii_ANNOTATION) as [r2 [Hr2 ->]]. cbn [bind].
    assert (L2 : length (trim_start r2) <= length (trim_start r0)).
    { pose proof (trim_start_len r2). rewrite Hr2, app_length. lia. }
    eapply good_bind; [apply good_parse_name|].
    intros [name qs3] L3. unfold rem2_post in L3. cbn [snd] in L3.
    eapply good_bind; [apply good_parse_subqueries; lia|].
    intros [subs qs6] L6. unfold le2 in *. cbn [snd] in *. cbn. lia.
  Qed.

  Lemma good_parse_with_attributes : forall F qs attrs,
    length qs < F -> good (le2 qs) (parse_with_attributes dt re F qs attrs).
  Proof.
    intros F qs attrs HF. unfold parse_with_attributes. cbv zeta.
    pose proof (trim_len qs) as Lt.
    destruct (str_eqb (split_first (trim qs)) K_SELECT) eqn:E1.
    { eapply good_weaken; [apply good_parse_select; [|lia|lia]|].
      - apply str_eqb_eq in E1. rewrite <- E1. apply split_first_starts.
      - intros [? ?]. unfold le2. cbn [snd]. lia. }
    destruct (str_eqb (split_first (trim qs)) K_ADD) eqn:E2.
    { eapply good_weaken; [apply good_parse_add; [exact E2 | lia]|].
      intros [? ?]. unfold le2. cbn [snd]. lia. }
    destruct (str_eqb (split_first (trim qs)) K_DELETE) eqn:E3.
    { eapply good_weaken; [apply good_parse_delete; [exact E3 | lia]|].
      intros [? ?]. unfold le2. cbn [snd]. lia. }
    cbn; auto.
  Qed.

  (* Query::parse with the budget the model uses: length of the input + 1 *)
  Theorem good_parse_query : forall s, good (le2 s) (parse_query dt re s).
  Proof.
    intros s. unfold parse_query, parse_query_fuel.
    pose proof (trim_len s) as Lt.
    pose proof (parse_attributes_total (trim s)) as [Hnp Hnf].
    eapply good_bind.
    { apply good_intro with (P := fun x : list str * str => length (snd x) <= length (trim s) /\ hd_nows (snd x));
        [exact Hnp | exact Hnf |]. intros [a r] Ha. exact (parse_attributes_res _ _ _ Ha). }
    intros [attributes qs] [L _]. cbn [snd] in L.
    eapply good_weaken; [apply good_parse_with_attributes; lia|].
    intros [? ?]. unfold le2. cbn [snd]. lia.
  Qed.

  Theorem parse_query_total : forall s, parse_query dt re s <> Panic /\ parse_query dt re s <> Fuel.
  Proof. intros s. exact (good_np _ _ (good_parse_query s)). Qed.

  Theorem query_try_from_total : forall s, query_try_from dt re s <> Panic /\ query_try_from dt re s <> Fuel.
  Proof.
    intros s. unfold query_try_from. pose proof (good_parse_query s) as G.
    destruct (parse_query dt re s) as [[q r]| | |]; cbn in *; try contradiction.
    - destruct (trim r); split; discriminate.
    - split; discriminate.
  Qed.

  (* the remainder handed back is never longer than the input *)
  Theorem parse_query_remainder : forall s q r, parse_query dt re s = Ok (q, r) -> length r <= length s.
  Proof. intros s q r H. pose proof (good_parse_query s) as G. rewrite H in G. exact G. Qed.
End Total.
