(* C05, sub-stores: the round trip of an arranged store with one level of sub-stores. *)
From Coq Require Import String Ascii.
From Coq Require Import List NArith ZArith Bool Arith Lia.
From Stam Require Import Base.Tac Model.Offset Model.Json Model.TempId Proofs.TempId
     Model.StamJson Spec.StamJsonSpec Proofs.StamJson Proofs.StamJsonLoad Proofs.StamJsonWhole Proofs.StamJsonSave
     Proofs.StamJsonSub Proofs.StamJsonSubLoad Proofs.StamJsonMask.
Import ListNotations.

(** * rank classes of a sorted list *)
Section Classes.
  Context {X : Type}.
  Variable rk : X -> nat.

  Lemma nondecreasing_cons x l :
    nondecreasing (map rk (x :: l)) = true <-> Forall (fun p => rk x <= rk p) l /\ nondecreasing (map rk l) = true.
  Proof.
    split.
    - intros H. split; [apply (nondecreasing_head rk); exact H|apply (nondecreasing_tail rk x); exact H].
    - intros [HF HN]. destruct l as [|y l]; [reflexivity|]. cbn [map nondecreasing] in *.
      inversion HF; subst. apply andb_true_intro. split; [apply Nat.leb_le; assumption|exact HN].
  Qed.

  Lemma nondecreasing_filter (g : X -> bool) l : nondecreasing (map rk l) = true -> nondecreasing (map rk (filter g l)) = true.
  Proof.
    induction l as [|x l IH]; intros H; [reflexivity|].
    apply nondecreasing_cons in H. destruct H as [HF HN]. cbn [filter]. destruct (g x); [|apply IH; exact HN].
    apply nondecreasing_cons. split; [|apply IH; exact HN].
    rewrite Forall_forall in *. intros p Hp. apply filter_In in Hp. apply HF. apply Hp.
  Qed.

  Lemma cls_filter_le k j l : j <= k -> cls rk j (filter (fun p => rk p <=? k) l) = cls rk j l.
  Proof.
    intros L. unfold cls. induction l as [|x l IH]; cbn [filter]; [reflexivity|].
    destruct (rk x <=? k) eqn:E; cbn [filter]; [rewrite IH; reflexivity|].
    apply Nat.leb_gt in E. assert (E2 : Nat.eqb (rk x) j = false) by (apply Nat.eqb_neq; lia). rewrite E2. exact IH.
  Qed.

  Theorem classes_upto k l : nondecreasing (map rk l) = true ->
    filter (fun p => rk p <=? k) l = concat (map (fun j => cls rk j l) (seq 0 (S k))).
  Proof.
    intros H. set (l' := filter (fun p => rk p <=? k) l).
    assert (E : concat (map (fun j => cls rk j l') (seq 0 (S k))) = l').
    { apply classes_from; [apply nondecreasing_filter; exact H|]. apply Forall_forall. intros p Hp.
      apply filter_In in Hp. destruct Hp as [_ Hp]. apply Nat.leb_le in Hp. lia. }
    rewrite <- E. f_equal. apply map_ext_in. intros j Hj. apply in_seq in Hj. unfold l'. apply cls_filter_le. lia.
  Qed.
End Classes.

(** * lists of lists *)
Lemma omap_concat {X Y} (f : X -> option Y) : forall ls rs,
  Forall2 (fun l r => omap f l = Some r) ls rs -> omap f (concat ls) = Some (concat rs).
Proof.
  induction 1 as [|l r ls rs H HF IH]; cbn; [reflexivity|]. rewrite omap_app, H, IH. reflexivity.
Qed.

Lemma filter_true {A} (g : A -> bool) l : (forall x, In x l -> g x = true) -> filter g l = l.
Proof.
  induction l as [|x l IH]; intros H; cbn; [reflexivity|]. rewrite (H x (or_introl eq_refl)). f_equal.
  apply IH. intros y Hy. apply H. right. exact Hy.
Qed.

(** * the documents *)
Section Docs.
  Variable s : dstore.
  Variable ow : owners.
  Let n := length (ow_subs ow).

  (* document j: sub-store j for j < n, the root for j = n *)
  Definition orank (j : nat) : option nat := if j <? n then Some j else None.
  Definition idr (j : nat) : option str := if j <? n then fst (nth j (ow_subs ow) (None, [])) else st_id s.
  Definition cpart (j : nat) : option cstore := canon_part s ow (orank j) (idr j).

  Definition owners_lt (own : list (option nat)) : Prop := forall h k, owner_of own h = Some k -> k < n.
  Hypothesis Or : owners_lt (ow_res ow).
  Hypothesis Os : owners_lt (ow_set ow).
  Hypothesis Oa : owners_lt (ow_ann ow).

  Definition rkof {X} (own : list (option nat)) (p : nat * X) : nat := rank n (owner_of own (fst p)).

  Lemma pick_cls {X} own (L : list (nat * X)) j : owners_lt own -> j <= n -> pick own (orank j) L = cls (rkof own) j L.
  Proof.
    intros Ho Hj. unfold pick, cls, orank, rkof. apply filter_ext. intros p. unfold rank.
    destruct (j <? n) eqn:E.
    - apply Nat.ltb_lt in E. destruct (owner_of own (fst p)) as [q|] eqn:Eq; cbn [onat_eqb]; [reflexivity|].
      symmetry. apply Nat.eqb_neq. lia.
    - apply Nat.ltb_ge in E. assert (j = n) by lia. subst j.
      destruct (owner_of own (fst p)) as [q|] eqn:Eq; cbn [onat_eqb]; [|symmetry; apply Nat.eqb_refl].
      symmetry. apply Nat.eqb_neq. specialize (Ho _ _ Eq). lia.
  Qed.

  Lemma keep_rk {X} own (p : nat * X) k : keep n k own (fst p) = (rkof own p <=? k).
  Proof. reflexivity. Qed.

  (* the kept items are the items of the documents 0..k, in order *)
  Lemma kept_is_docs {X} own (l : list (option X)) k : owners_lt own -> natural_order n own l = true -> k <= n ->
    filter (fun p => keep n k own (fst p)) (live l) = concat (map (fun j => pick own (orank j) (live l)) (seq 0 (S k))).
  Proof.
    intros Ho Hn Hk. unfold natural_order in Hn.
    rewrite (filter_ext _ (fun p => rkof own p <=? k)) by (intros p; apply keep_rk).
    rewrite (classes_upto (rkof own) k (live l) Hn). f_equal. apply map_ext_in. intros j Hj. apply in_seq in Hj.
    symmetry. apply pick_cls; [exact Ho|lia].
  Qed.

  Lemma kept_all {X} own (l : list (option X)) : owners_lt own ->
    filter (fun p => keep n n own (fst p)) (live l) = live l.
  Proof.
    intros Ho. apply filter_true. intros p _. unfold keep, rank. apply Nat.leb_le.
    destruct (owner_of own (fst p)) as [q|] eqn:E; [specialize (Ho _ _ E); lia|lia].
  Qed.
End Docs.

Lemma omap_firstn {X Y} (f : X -> option Y) m : forall l r, omap f l = Some r -> omap f (firstn m l) = Some (firstn m r).
Proof.
  induction m as [|m IH]; intros l r H; [reflexivity|].
  destruct l as [|x l]; cbn in H; [injection H as <-; reflexivity|].
  destruct (f x) as [y|] eqn:E; [|discriminate]. destruct (omap f l) as [ys|] eqn:E2; [|discriminate]. injection H as <-.
  cbn. rewrite E, (IH _ _ E2). reflexivity.
Qed.

Lemma firstn_seq m k0 len : m <= len -> firstn m (seq k0 len) = seq k0 m.
Proof.
  revert k0 len. induction m as [|m IH]; intros k0 len L; [reflexivity|].
  destruct len as [|len]; [lia|]. cbn. f_equal. apply IH. lia.
Qed.

Lemma firstn_map {A B} (f : A -> B) m : forall l, firstn m (map f l) = map f (firstn m l).
Proof. induction m as [|m IH]; intros [|x l]; cbn; try reflexivity. rewrite IH. reflexivity. Qed.

Lemma cpart_fields s ow j c : cpart s ow j = Some c ->
  c_ress c = map (fun p => canon_res (snd p)) (pick (ow_res ow) (orank ow j) (live (st_ress s)))
  /\ omap (fun p => canon_set (snd p)) (pick (ow_set ow) (orank ow j) (live (st_sets s))) = Some (c_sets c)
  /\ omap (canon_ann s) (pick (ow_ann ow) (orank ow j) (live (st_anns s))) = Some (c_anns c)
  /\ c_id c = idr s ow j.
Proof.
  unfold cpart, canon_part.
  destruct (omap (fun p => canon_set (snd p)) (pick (ow_set ow) (orank ow j) (live (st_sets s)))) as [ss|]; [|discriminate].
  destruct (omap (canon_ann s) (pick (ow_ann ow) (orank ow j) (live (st_anns s)))) as [aa|]; [|discriminate].
  intros H. injection H as <-. repeat split.
Qed.

Section Prefix.
  Variable s : dstore.
  Variable ow : owners.
  Let n := length (ow_subs ow).
  Hypothesis Or : owners_lt ow (ow_res ow).
  Hypothesis Os : owners_lt ow (ow_set ow).
  Hypothesis Oa : owners_lt ow (ow_ann ow).
  Hypothesis Hwf : wf_dstore s = true.
  Hypothesis Harr : arranged s ow = true.
  Variable c : cstore.
  Hypothesis Hc : canon s = Some c.
  Variable parts : list cstore.
  Hypothesis Hparts : omap (cpart s ow) (seq 0 (S n)) = Some parts.
  Variable fs : files.
  Hypothesis Hfs : forall f x, In (f, x) (side_files c) -> file_get fs f = Some x.

  Lemma arranged_parts : natural s ow = true /\ closed s ow = true.
  Proof. unfold arranged in Harr. apply andb_prop in Harr. exact Harr. Qed.

  Lemma natural_parts :
    natural_order n (ow_res ow) (st_ress s) = true /\ natural_order n (ow_set ow) (st_sets s) = true
    /\ natural_order n (ow_ann ow) (st_anns s) = true.
  Proof.
    destruct arranged_parts as [H _]. unfold natural in H. fold n in H.
    apply andb_prop in H. destruct H as [H H3]. apply andb_prop in H. destruct H as [H1 H2]. repeat split; assumption.
  Qed.

  (* the stand-off files of a restricted store are among those of the store *)
  Lemma side_files_mask k ck : canon (mask s ow k) = Some ck -> incl (side_files ck) (side_files c).
  Proof.
    intros Hk. destruct arranged_parts as [_ Hcl].
    destruct (mask_canon s ow k c Hcl Hc) as (css & cas & Hcss & Hcas & Hcm). fold n in Hcss, Hcas, Hcm.
    rewrite Hk in Hcm. injection Hcm as ->.
    unfold canon in Hc.
    destruct (omap (fun p => canon_set (snd p)) (live (st_sets s))) as [css0|] eqn:Es; [|discriminate].
    destruct (omap (canon_ann s) (live (st_anns s))) as [cas0|] eqn:Ea; [|discriminate]. injection Hc as <-.
    unfold side_files. cbn [c_ress c_sets]. intros x Hx. apply in_app_or in Hx. apply in_or_app. destruct Hx as [Hx|Hx].
    - left. apply in_flat_map in Hx. destruct Hx as (cr & Hcr & Hx). apply in_flat_map. exists cr. split; [|exact Hx].
      apply in_map_iff in Hcr. destruct Hcr as (p & <- & Hp). apply filter_In in Hp. apply in_map_iff. exists p. split; [reflexivity|apply Hp].
    - right. apply in_flat_map in Hx. destruct Hx as (cs & Hcs & Hx). apply in_flat_map. exists cs. split; [|exact Hx].
      (* cs is the observation of a kept dataset, which is a dataset of the store *)
      apply omap_Forall2 in Hcss. apply omap_Forall2 in Es.
      assert (Hex : exists p, In p (filter (fun p => keep n k (ow_set ow) (fst p)) (live (st_sets s))) /\ canon_set (snd p) = Some cs).
      { clear -Hcss Hcs. induction Hcss as [|p y l r Hp HF IH]; [destruct Hcs|].
        destruct Hcs as [->|Hcs]; [exists p; split; [left; reflexivity|exact Hp]|].
        destruct (IH Hcs) as (q & Hq & Hqc). exists q. split; [right; exact Hq|exact Hqc]. }
      destruct Hex as (p & Hp & Hpc). apply filter_In in Hp. destruct Hp as [Hp _].
      clear -Es Hp Hpc. induction Es as [|q y l r Hq HF IH]; [destruct Hp|].
      destruct Hp as [->|Hp]; [left; congruence|right; apply IH; exact Hp].
  Qed.

  (* the merged load of the documents 0..k is the load of the restricted store's document *)
  Lemma docs_prefix_lists k : k <= n ->
    forall ck, canon (mask s ow k) = Some ck ->
    concat (map b_ress (firstn (S k) (map main_doc parts))) = b_ress (main_doc ck)
    /\ concat (map b_sets (firstn (S k) (map main_doc parts))) = b_sets (main_doc ck)
    /\ concat (map b_anns (firstn (S k) (map main_doc parts))) = b_anns (main_doc ck).
  Proof.
    intros Hk ck Hck. destruct arranged_parts as [_ Hcl]. destruct natural_parts as (Nr & Ns & Na).
    destruct (mask_canon s ow k c Hcl Hc) as (css & cas & Hcss & Hcas & Hcm). fold n in Hcss, Hcas, Hcm.
    rewrite Hck in Hcm. injection Hcm as ->.
    rewrite firstn_map.
    assert (Hpk : omap (cpart s ow) (seq 0 (S k)) = Some (firstn (S k) parts)).
    { rewrite <- (firstn_seq (S k) 0 (S n)) by lia. apply omap_firstn. exact Hparts. }
    apply omap_Forall2 in Hpk.
    unfold main_doc. cbn [b_ress b_sets b_anns c_ress c_sets c_anns]. unfold n in *.
    rewrite (kept_is_docs ow (ow_res ow) (st_ress s) k Or Nr Hk) .
    rewrite (kept_is_docs ow (ow_set ow) (st_sets s) k Os Ns Hk) in Hcss.
    rewrite (kept_is_docs ow (ow_ann ow) (st_anns s) k Oa Na Hk) in Hcas.
    revert Hcss Hcas. generalize css cas. clear css cas Hck.
    induction Hpk as [|j cj js cjs Hj HF IH]; intros css cas Hcss Hcas; cbn [map concat] in *.
    - injection Hcss as <-. injection Hcas as <-. repeat split.
    - destruct (cpart_fields _ _ _ _ Hj) as (E1 & E2 & E3 & _).
      rewrite omap_app in Hcss. rewrite omap_app in Hcas. rewrite E2 in Hcss. rewrite E3 in Hcas.
      destruct (omap (fun p => canon_set (snd p)) (concat (map (fun j0 => pick (ow_set ow) (orank ow j0) (live (st_sets s))) js))) as [css'|] eqn:Ec1; [|discriminate].
      destruct (omap (canon_ann s) (concat (map (fun j0 => pick (ow_ann ow) (orank ow j0) (live (st_anns s))) js))) as [cas'|] eqn:Ec2; [|discriminate].
      injection Hcss as <-. injection Hcas as <-.
      destruct (IH css' cas' eq_refl eq_refl) as (I1 & I2 & I3).
      rewrite I1, I2, I3. rewrite E1. rewrite !map_app. repeat split.
  Qed.

  Theorem mload_prefix k : k <= n ->
    exists s', mload fs (st_id s) (firstn (S k) (map main_doc parts)) = Some s' /\ canon s' = canon (mask s ow k).
  Proof.
    intros Hk. destruct arranged_parts as [_ Hcl].
    pose proof (mask_wf s ow k Hwf Hcl) as Hwk.
    destruct (wf_canon _ Hwk) as [ck Hck].
    destruct (docs_prefix_lists k Hk ck Hck) as (L1 & L2 & L3).
    destruct (build_main_doc (mask s ow k) ck fs Hwk Hck) as (s' & Hb & Hs').
    - intros f x Hin. apply Hfs. apply (side_files_mask k ck Hck). exact Hin.
    - exists s'. split; [|rewrite Hs', Hck; reflexivity].
      unfold mload. rewrite L1, L2, L3. unfold build in Hb.
      assert (Eid : b_id (main_doc ck) = st_id s).
      { destruct (mask_canon s ow k c Hcl Hc) as (css & cas & _ & _ & Hcm). rewrite Hck in Hcm. injection Hcm as ->. reflexivity. }
      rewrite Eid in Hb. exact Hb.
  Qed.
End Prefix.

(** * the identifier of the store plays no role while loading *)
Definition reid (i : option str) (st : dstore) : dstore := mkdstore i (st_ress st) (st_sets st) (st_anns st).

Lemma load_ann_reid i pre st b : load_ann pre (reid i st) b = option_map (reid i) (load_ann pre st b).
Proof.
  unfold load_ann. cbn [reid st_anns].
  destruct (gap_fill pre (st_anns st) (ba_id b)) as [[a1 i1]|]; [|reflexivity].
  change (set_anns (reid i st) a1) with (reid i (set_anns st a1)).
  assert (E1 : omap (resolve_leaf (reid i (set_anns st a1))) (ba_leaves b) = omap (resolve_leaf (set_anns st a1)) (ba_leaves b)).
  { apply omap_ext_in. intros l _. destruct l as [r o|a [o|]|r|d|d k|d x]; reflexivity. }
  assert (E2 : omap (resolve_dataref (reid i (set_anns st a1))) (ba_data b) = omap (resolve_dataref (set_anns st a1)) (ba_data b)).
  { apply omap_ext_in. intros p _. reflexivity. }
  rewrite E1, E2. destruct (omap _ (ba_leaves b)); [|reflexivity]. destruct (omap _ (ba_data b)); [|reflexivity].
  destruct (id_free ja_id a1 i1); reflexivity.
Qed.

Lemma load_anns_reid i pre : forall l st, load_anns pre (reid i st) l = option_map (reid i) (load_anns pre st l).
Proof.
  induction l as [|b l IH]; intros st; cbn [load_anns]; [reflexivity|].
  rewrite load_ann_reid. destruct (load_ann pre st b) as [s1|]; cbn [option_map]; [apply IH|reflexivity].
Qed.

Lemma build_into_reid fs i b st : build_into fs b (reid i st) = option_map (reid i) (build_into fs b st).
Proof.
  unfold build_into. cbn [reid st_ress st_sets st_anns st_id].
  destruct (load_ress fs (st_ress st) (b_ress b)) as [rs|]; [|reflexivity].
  destruct (load_sets fs (st_sets st) (b_sets b)) as [ss|]; [|reflexivity].
  change (mkdstore i rs ss (st_anns st)) with (reid i (mkdstore (st_id st) rs ss (st_anns st))).
  apply load_anns_reid.
Qed.

Lemma load_docs_reid fs i : forall ds st, load_docs fs ds (reid i st) = option_map (reid i) (load_docs fs ds st).
Proof.
  induction ds as [|b ds IH]; intros st; cbn [load_docs]; [reflexivity|].
  rewrite build_into_reid. destruct (build_into fs b st) as [s1|]; cbn [option_map]; [apply IH|reflexivity].
Qed.

Lemma canon_reid i st : st_id st = i -> canon (reid i st) = canon st.
Proof. intros <-. destruct st. reflexivity. Qed.

(** * loading the included documents is loading them one after the other *)
Lemma load_subs_fst fs : forall (fds : list (str * bstore)) k st ow0,
  (forall f b, In (f, b) fds -> file_get fs f = Some (FJson (json_of_bstore b)) /\ bstore_ok b /\ b_include b = []) ->
  option_map fst (load_subs fs k (map fst fds) st ow0) = load_docs fs (map snd fds) st.
Proof.
  induction fds as [|[f b] fds IH]; intros k st ow0 H; cbn [map fst snd load_subs load_docs]; [reflexivity|].
  destruct (H f b (or_introl eq_refl)) as (Hf & Hok & Hinc).
  rewrite Hf, (parse_json_of_bstore _ Hok), Hinc.
  destruct (build_into fs b st) as [s1|]; [|reflexivity].
  apply IH. intros f' b' Hin. apply H. right. exact Hin.
Qed.

(** * every document is a well-formed document *)
Lemma anns_docs_ok s (L : list (nat * dann)) cas :
  wf_dstore s = true -> incl L (live (st_anns s)) -> omap (canon_ann s) L = Some cas ->
  Forall bann_ok (map bann_of cas).
Proof.
  intros Hwf Hi Hc. destruct (wf_dstore_parts _ Hwf) as (_ & _ & _ & _ & H2 & _). rewrite forallb_forall in H2.
  apply omap_Forall2 in Hc. apply Forall_forall. intros b Hb. apply in_map_iff in Hb. destruct Hb as (ca & <- & Hin).
  assert (Hex : exists p, In p L /\ canon_ann s p = Some ca).
  { clear -Hc Hin. induction Hc as [|p y l r Hp HF IH]; [destruct Hin|].
    destruct Hin as [->|Hin]; [exists p; split; [left; reflexivity|exact Hp]|].
    destruct (IH Hin) as (q & Hq & Hqc). exists q. split; [right; exact Hq|exact Hqc]. }
  destruct Hex as ([h an] & Hin2 & Hcan). specialize (H2 _ (Hi _ Hin2)). cbn [fst snd] in H2.
  unfold canon_ann in Hcan. destruct (omap (canon_dataref s) (ja_data an)); [|discriminate].
  destruct (omap (canon_leaf s) (ja_leaves an)) as [cls|] eqn:El; [|discriminate]. injection Hcan as <-.
  unfold bann_ok, bann_of. cbn [ba_kind ba_leaves ca_kind ca_leaves]. eapply target_ok_of_wf; eauto.
Qed.

Lemma part_doc_ok s ow j cj : wf_dstore s = true -> cpart s ow j = Some cj -> bstore_ok (main_doc cj).
Proof.
  intros Hwf Hj. destruct (cpart_fields _ _ _ _ Hj) as (_ & _ & E3 & _).
  unfold bstore_ok, main_doc. cbn [b_ress b_sets b_anns]. repeat split.
  - apply Forall_forall. intros b Hb. apply in_map_iff in Hb. destruct Hb as (cr & <- & _).
    unfold bres_ok, bres_of. destruct (cr_file cr); reflexivity.
  - apply Forall_forall. intros b Hb. apply in_map_iff in Hb. destruct Hb as (cs & <- & _).
    unfold bset_ok, bset_of. destruct (cs_file cs); cbn; [split; reflexivity|exact I].
  - eapply anns_docs_ok; [exact Hwf| |exact E3]. intros p Hp. unfold pick in Hp. apply filter_In in Hp. apply Hp.
Qed.

Lemma cpart_total s ow c j : canon s = Some c -> exists cj, cpart s ow j = Some cj.
Proof.
  intros Hc. unfold canon in Hc.
  destruct (omap (fun p => canon_set (snd p)) (live (st_sets s))) as [css0|] eqn:Es; [|discriminate].
  destruct (omap (canon_ann s) (live (st_anns s))) as [cas0|] eqn:Ea; [|discriminate].
  unfold cpart, canon_part, pick.
  destruct (omap_filter_some _ (fun p => onat_eqb (owner_of (ow_set ow) (fst p)) (orank ow j)) _ _ Es) as [css ->].
  destruct (omap_filter_some _ (fun p => onat_eqb (owner_of (ow_ann ow) (fst p)) (orank ow j)) _ _ Ea) as [cas ->].
  eauto.
Qed.

(** * the files *)
Definition doc_file (fb : str * bstore) : str * fcontent := (fst fb, FJson (json_of_bstore (snd fb))).

Lemma sub_docs_gen s ow : forall (tl : list (option str * str)) k0 (cs : list cstore),
  length cs = length tl ->
  (forall i, i < length tl -> canon_part s ow (Some (k0 + i)) (fst (nth i tl (None, []))) = Some (nth i cs (mkcstore None [] [] []))) ->
  omap (fun p => match canon_part s ow (Some (fst p)) (fst (snd p)) with
                 | Some c => Some (snd (snd p), FJson (json_of_bstore (main_doc c)))
                 | None => None
                 end) (combine (seq k0 (length tl)) tl)
  = Some (map doc_file (combine (map snd tl) (map main_doc cs))).
Proof.
  induction tl as [|[i0 f0] tl IH]; intros k0 cs Hl H; destruct cs as [|c0 cs]; try discriminate; [reflexivity|].
  cbn [length seq combine omap map fst snd]. pose proof (H 0 (Nat.lt_0_succ _)) as H0. rewrite Nat.add_0_r in H0. cbn in H0.
  rewrite H0. rewrite (IH (S k0) cs).
  - reflexivity.
  - cbn in Hl. lia.
  - intros i Hi. specialize (H (S i)). cbn [length nth] in H. replace (k0 + S i) with (S k0 + i) in H by lia. apply H. lia.
Qed.

Lemma Forall2_nth {A B} (R : A -> B -> Prop) l r da db : Forall2 R l r -> forall i, i < length l -> R (nth i l da) (nth i r db).
Proof.
  induction 1 as [|x y l r H HF IH]; intros i Hi; cbn in *; [lia|]. destruct i; [exact H|]. apply IH. lia.
Qed.

Lemma Forall2_length {A B} (R : A -> B -> Prop) l r : Forall2 R l r -> length l = length r.
Proof. induction 1; cbn; congruence. Qed.

Lemma nth_firstn_lt {A} (l : list A) m i d : i < m -> nth i (firstn m l) d = nth i l d.
Proof.
  revert l i. induction m as [|m IH]; intros l i Hi; [lia|]. destruct l as [|x l]; [destruct i; reflexivity|].
  destruct i; [reflexivity|]. cbn. apply IH. lia.
Qed.

(** * the theorem *)
Theorem sub_roundtrip s ow :
  owners_lt ow (ow_res ow) -> owners_lt ow (ow_set ow) -> owners_lt ow (ow_ann ow) ->
  wf_dstore s = true -> arranged s ow = true ->
  NoDup (map snd (ow_subs ow) ++ file_names s) ->
  exists d s' ow', encode_o s ow = Some d /\ decode_o d = Some (s', ow') /\ same_model s s'.
Proof.
  intros Or Os Oa Hwf Harr NDall.
  set (n := length (ow_subs ow)).
  destruct (wf_canon _ Hwf) as [c Hc].
  destruct (omap_total (cpart s ow) (seq 0 (S n))) as [parts Hparts].
  { intros j _. apply (cpart_total s ow c j Hc). }
  pose proof (omap_Forall2 _ _ _ Hparts) as HF.
  assert (Hlen : length parts = S n) by (rewrite <- (Forall2_length _ _ _ HF), seq_length; reflexivity).
  set (dc := mkcstore None [] [] []).
  assert (Hnth : forall j, j <= n -> cpart s ow j = Some (nth j parts dc)).
  { intros j Hj. pose proof (Forall2_nth _ _ _ 0 dc HF j) as H. rewrite seq_length in H. specialize (H ltac:(lia)).
    rewrite seq_nth in H by lia. exact H. }
  set (croot := nth n parts dc).
  set (fds := combine (map snd (ow_subs ow)) (map main_doc (firstn n parts))).
  set (fs := map doc_file fds ++ side_files c).
  (* what is written *)
  assert (Henc : encode_o s ow = Some (json_of_bstore (with_include (map snd (ow_subs ow)) (main_doc croot)), fs)).
  { unfold encode_o. rewrite Hc.
    assert (E1 : canon_part s ow None (st_id s) = Some croot).
    { pose proof (Hnth n (le_n _)) as H. unfold cpart, orank, idr in H. fold n in H. rewrite Nat.ltb_irrefl in H. exact H. }
    rewrite E1. unfold sub_docs.
    rewrite (sub_docs_gen s ow (ow_subs ow) 0 (firstn n parts)).
    - reflexivity.
    - rewrite firstn_length, Hlen. fold n. lia.
    - intros i Hi. fold n in Hi. rewrite nth_firstn_lt by exact Hi. cbn [Nat.add].
      pose proof (Hnth i ltac:(lia)) as H. unfold cpart, orank, idr in H. fold n in H.
      apply Nat.ltb_lt in Hi. rewrite Hi in H. exact H. }
  (* the files are found *)
  assert (Hfst : map fst fs = map snd (ow_subs ow) ++ file_names s).
  { unfold fs. rewrite map_app. rewrite (side_file_names _ _ Hc). f_equal.
    unfold fds. rewrite map_map. cbn [doc_file fst].
    assert (L : length (map snd (ow_subs ow)) = length (map main_doc (firstn n parts))).
    { rewrite !map_length, firstn_length, Hlen. fold n. lia. }
    clear -L. revert L. generalize (map main_doc (firstn n parts)). induction (map snd (ow_subs ow)) as [|f l IH]; intros [|b bs] L; cbn in *; try discriminate; [reflexivity|].
    f_equal. apply IH. lia. }
  assert (NDfs : NoDup (map fst fs)) by (rewrite Hfst; exact NDall).
  assert (Hside : forall f x, In (f, x) (side_files c) -> file_get fs f = Some x).
  { intros f x Hin. apply file_get_first; [exact NDfs|]. unfold fs. apply in_or_app. right. exact Hin. }
  assert (Hdocs : forall f b, In (f, b) fds -> file_get fs f = Some (FJson (json_of_bstore b)) /\ bstore_ok b /\ b_include b = []).
  { intros f b Hin. split; [|split].
    - apply file_get_first; [exact NDfs|]. unfold fs. apply in_or_app. left.
      apply in_map_iff. exists (f, b). split; [reflexivity|exact Hin].
    - unfold fds in Hin. apply in_combine_r in Hin. apply in_map_iff in Hin. destruct Hin as (cj & <- & Hcj).
      apply In_nth with (d := dc) in Hcj. destruct Hcj as (i & Hi & Hn). rewrite firstn_length, Hlen in Hi.
      rewrite nth_firstn_lt in Hn by lia. eapply (part_doc_ok s ow i); [exact Hwf|]. rewrite <- Hn. apply Hnth. lia.
    - unfold fds in Hin. apply in_combine_r in Hin. apply in_map_iff in Hin. destruct Hin as (cj & <- & _). reflexivity. }
  (* all documents, one after the other *)
  set (docs := map main_doc parts).
  assert (Hall : load_docs fs docs (mkdstore (st_id s) [] [] []) = mload fs (st_id s) docs).
  { apply docs_one_by_one. intros k Hk. unfold docs in Hk. rewrite map_length, Hlen in Hk.
    destruct k as [|k]; [exists (mkdstore (st_id s) [] [] []); reflexivity|].
    destruct (mload_prefix s ow Or Os Oa Hwf Harr c Hc parts Hparts fs Hside k ltac:(fold n; lia)) as (s1 & H1 & _).
    exists s1. exact H1. }
  destruct (mload_prefix s ow Or Os Oa Hwf Harr c Hc parts Hparts fs Hside n (le_n _)) as (sN & HN & HcN).
  fold n in HN. rewrite <- Hlen in HN. unfold docs in Hall. rewrite firstn_all2 in HN by (rewrite map_length; lia).
  rewrite HN in Hall.
  (* the documents split into the included ones and the root's *)
  assert (Hsplit : map main_doc parts = map snd fds ++ [main_doc croot]).
  { assert (E : parts = firstn n parts ++ [croot]).
    { rewrite <- (firstn_skipn n parts) at 1. f_equal.
      assert (Hs : length (skipn n parts) = 1) by (rewrite skipn_length, Hlen; fold n; lia).
      destruct (skipn n parts) as [|x [|y l]] eqn:Es; try discriminate. f_equal.
      unfold croot. rewrite <- (firstn_skipn n parts) at 1. rewrite app_nth2; rewrite firstn_length, Hlen; fold n; [|lia].
      replace (n - Nat.min n (S n)) with 0 by lia. rewrite Es. reflexivity. }
    rewrite E at 1. rewrite map_app. cbn [map]. f_equal. unfold fds.
    assert (L : length (map snd (ow_subs ow)) = length (map main_doc (firstn n parts))).
    { rewrite !map_length, firstn_length, Hlen. fold n. lia. }
    clear -L. revert L. generalize (map main_doc (firstn n parts)). induction (map snd (ow_subs ow)) as [|f l IH]; intros [|b bs] L; cbn in *; try discriminate; [reflexivity|].
    f_equal. apply IH. lia. }
  rewrite Hsplit, load_docs_app in Hall.
  change (mkdstore (st_id s) [] [] []) with (reid (st_id s) (mkdstore None [] [] [])) in Hall.
  rewrite load_docs_reid in Hall.
  pose proof (load_subs_fst fs fds 0 (mkdstore None [] [] []) no_owners Hdocs) as Hsubs.
  destruct (load_docs fs (map snd fds) (mkdstore None [] [] [])) as [s1|] eqn:E1; [|discriminate].
  destruct (load_subs fs 0 (map fst fds) (mkdstore None [] [] []) no_owners) as [[s1' ow1]|] eqn:E2; [|discriminate].
  cbn [option_map fst] in Hsubs. injection Hsubs as ->. cbn [option_map load_docs] in Hall.
  destruct (build_into fs (main_doc croot) (reid (st_id s) s1)) as [s2|] eqn:E3; [|discriminate]. injection Hall as ->.
  (* the loader of the root document *)
  assert (Hincs : map fst fds = map snd (ow_subs ow)).
  { unfold fds. assert (L : length (map snd (ow_subs ow)) = length (map main_doc (firstn n parts))).
    { rewrite !map_length, firstn_length, Hlen. fold n. lia. }
    clear -L. revert L. generalize (map main_doc (firstn n parts)). induction (map snd (ow_subs ow)) as [|f l IH]; intros [|b bs] L; cbn in *; try discriminate; [reflexivity|].
    f_equal. apply IH. lia. }
  assert (Hrootid : c_id croot = st_id s).
  { destruct (cpart_fields _ _ _ _ (Hnth n (le_n _))) as (_ & _ & _ & E). fold croot in E. rewrite E. unfold idr. fold n.
    rewrite Nat.ltb_irrefl. reflexivity. }
  exists (json_of_bstore (with_include (map snd (ow_subs ow)) (main_doc croot)), fs), sN, (own_new ow1 sN None).
  split; [exact Henc|]. split.
  - unfold decode_o. cbn [fst snd].
    assert (Hok : bstore_ok (with_include (map snd (ow_subs ow)) (main_doc croot))).
    { apply (part_doc_ok s ow n croot Hwf). apply Hnth. lia. }
    rewrite (parse_json_of_bstore _ Hok). cbn [b_include with_include]. rewrite <- Hincs, E2.
    change (build_into fs (with_include (map fst fds) (main_doc croot))) with (build_into fs (main_doc croot)).
    cbn [b_id with_include main_doc]. rewrite Hrootid.
    change (mkdstore (st_id s) (st_ress s1) (st_sets s1) (st_anns s1)) with (reid (st_id s) s1). rewrite E3. reflexivity.
  - exists c. split; [exact Hc|]. rewrite HcN.
    (* the store restricted to all documents is the store *)
    pose proof (proj2 (andb_prop _ _ Harr)) as Hcl.
    destruct (mask_canon s ow n c Hcl Hc) as (css & cas & Hcss & Hcas & Hcm). unfold n in Hcss, Hcas, Hcm.
    rewrite (kept_all ow (ow_set ow) (st_sets s) Os) in Hcss. rewrite (kept_all ow (ow_ann ow) (st_anns s) Oa) in Hcas.
    rewrite (kept_all ow (ow_res ow) (st_ress s) Or) in Hcm. unfold n. rewrite Hcm.
    unfold canon in Hc. rewrite Hcss, Hcas in Hc. exact Hc.
Qed.
