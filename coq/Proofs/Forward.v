(* The recursive walk over a target terminates: targets are older than the annotations that name
   them (wf_targets), so the nesting depth below annotation h is at most h and the walk of
   Model/Forward.v does not depend on its fuel once the fuel exceeds the handle. *)
From Coq Require Import List Arith Bool Lia.
Import ListNotations.
From Stam Require Import Base.Tac Model.Offset Model.Store Model.StoreObs Model.Forward
     Proofs.StoreRemove Proofs.StoreData.

Lemma flat_map_ext_in {A B} (f g : A -> list B) l : (forall x, In x l -> f x = g x) -> flat_map f l = flat_map g l.
Proof.
  induction l as [|x l IH]; intros H; cbn [flat_map]; [reflexivity|].
  rewrite (H x (or_introl eq_refl)), IH; [reflexivity|]. intros y Hy. apply H. right. exact Hy.
Qed.

Lemma rec_leaves_saturated s : wf_targets s -> forall f bound l,
  Forall (leaf_lt bound) l -> bound <= f -> rec_leaves (S f) s l = rec_leaves f s l.
Proof.
  intros Hwf. induction f as [|f IH]; intros bound l Hl Hb.
  - assert (bound = 0) by lia. subst bound. cbn [rec_leaves].
    induction l as [|lf l IHl]; [reflexivity|]. inversion Hl as [|? ? H1 H2]; subst.
    cbn [flat_map]. rewrite (IHl H2). destruct lf; cbn [leaf_lt] in H1; try reflexivity; lia.
  - cbn [rec_leaves]. apply flat_map_ext_in. intros lf Hin. f_equal.
    rewrite Forall_forall in Hl. specialize (Hl lf Hin).
    destruct lf as [r t m|x|x r t m|r|d|d k|d y]; try reflexivity; cbn [leaf_lt] in Hl.
    + destruct (get_ann s x) as [an|] eqn:E; [|reflexivity]. apply (IH x); [apply (Hwf x an E)|lia].
    + destruct (get_ann s x) as [an|] eqn:E; [|reflexivity]. apply (IH x); [apply (Hwf x an E)|lia].
Qed.

(* more fuel changes nothing *)
Lemma rec_leaves_fuel s : wf_targets s -> forall k f bound l,
  Forall (leaf_lt bound) l -> bound <= f -> rec_leaves (f + k) s l = rec_leaves f s l.
Proof.
  intros Hwf. induction k as [|k IH]; intros f bound l Hl Hb; [rewrite Nat.add_0_r; reflexivity|].
  replace (f + S k) with (S (f + k)) by lia.
  rewrite (rec_leaves_saturated s Hwf (f + k) bound l Hl) by lia. apply (IH f bound l Hl Hb).
Qed.

(* in every reachable store: the walk below a live annotation is complete with the fuel the model
   gives it (the number of annotation slots), whatever larger fuel one takes *)
Theorem forward_walk_terminates : forall ops h a k,
  get_ann (run ops) h = Some a ->
  rec_leaves (length (anns (run ops)) + k) (run ops) (a_leaves a) = all_leaves (run ops) a.
Proof.
  intros ops h a k Ha. destruct (reachable_Good ops) as (_ & Hwf & _). unfold all_leaves.
  apply (rec_leaves_fuel (run ops) Hwf k (length (anns (run ops))) h (a_leaves a) (Hwf h a Ha)).
  apply Nat.lt_le_incl. apply (get_ann_lt _ _ _ Ha).
Qed.

(** * the walk computes the closure under "targets" *)
From Coq Require Import Sorting.Sorted.
From Stam Require Import Proofs.StoreScan.

Definition leaves_of (s : store) (x : nat) : list leaf :=
  match get_ann s x with Some an => a_leaves an | None => [] end.
Definition step_anns (s : store) (xs : list nat) : list nat := flat_map (fun x => ann_of (leaves_of s x)) xs.

Lemma reach_anns_unfold f s l : reach_anns (S f) s l = l ++ reach_anns f s (step_anns s l).
Proof.
  cbn [reach_anns]. f_equal. f_equal. unfold step_anns. apply flat_map_ext_in. intros x _.
  unfold leaves_of. destruct (get_ann s x); reflexivity.
Qed.

Lemma In_ann_of x l : In x (ann_of l) <-> exists lf, In lf l /\ (match lf with LAnn y | LAnnText y _ _ _ => y = x | _ => False end).
Proof.
  unfold ann_of. rewrite in_flat_map. split.
  - intros (lf & Hl & Hx). exists lf. split; [exact Hl|]. destruct lf; cbn in Hx; try contradiction; destruct Hx as [->|[]]; reflexivity.
  - intros (lf & Hl & Hx). exists lf. split; [exact Hl|]. destruct lf; try contradiction; subst; left; reflexivity.
Qed.

Lemma flat_map_flat_map {A B C} (f : B -> list C) (g : A -> list B) l :
  flat_map f (flat_map g l) = flat_map (fun x => flat_map f (g x)) l.
Proof. induction l as [|x l IH]; cbn [flat_map]; [reflexivity|]. rewrite flat_map_app, IH. reflexivity. Qed.

Lemma reach_In_flat {A} s : forall f (g : A -> list nat) xs y,
  In y (reach_anns f s (flat_map g xs)) <-> exists x, In x xs /\ In y (reach_anns f s (g x)).
Proof.
  induction f as [|f IH]; intros g xs y.
  - cbn [reach_anns]. apply in_flat_map.
  - rewrite reach_anns_unfold, in_app_iff. unfold step_anns at 1. rewrite flat_map_flat_map.
    change (flat_map (fun x => flat_map (fun x0 => ann_of (leaves_of s x0)) (g x)) xs) with (flat_map (fun x => step_anns s (g x)) xs).
    rewrite (IH (fun x => step_anns s (g x)) xs y), in_flat_map. split.
    + intros [(x & Hx & Hy)|(x & Hx & Hy)]; exists x; (split; [exact Hx|]); rewrite reach_anns_unfold, in_app_iff; [left|right]; exact Hy.
    + intros (x & Hx & Hy). rewrite reach_anns_unfold, in_app_iff in Hy. destruct Hy as [Hy|Hy]; [left|right]; exists x; tauto.
Qed.

Lemma reach_In_app s f xs ys y : In y (reach_anns f s (xs ++ ys)) <-> In y (reach_anns f s xs) \/ In y (reach_anns f s ys).
Proof.
  pose proof (reach_In_flat s f (fun b : bool => if b then xs else ys) [true; false] y) as H.
  cbn [flat_map] in H. rewrite app_nil_r in H. rewrite H. split.
  - intros (b & Hb & Hy). destruct b; [left|right]; exact Hy.
  - intros [Hy|Hy]; [exists true|exists false]; cbn; tauto.
Qed.

Lemma walk_is_closure s : wf_targets s -> forall f bound l z,
  Forall (leaf_lt bound) l -> bound <= f ->
  (In z (rec_leaves f s l) <-> In z (l ++ flat_map (leaves_of s) (reach_anns f s (ann_of l)))).
Proof.
  intros Hwf. induction f as [|f IH]; intros bound l z Hl Hb.
  - assert (bound = 0) by lia. subst bound. cbn [rec_leaves reach_anns].
    assert (E : ann_of l = []).
    { destruct (ann_of l) as [|x r] eqn:E; [reflexivity|exfalso].
      assert (Hx : In x (ann_of l)) by (rewrite E; left; reflexivity). apply In_ann_of in Hx. destruct Hx as (lf & Hin & Hm).
      rewrite Forall_forall in Hl. specialize (Hl lf Hin). destruct lf; cbn [leaf_lt] in Hl; try contradiction; lia. }
    rewrite E. cbn [flat_map]. rewrite app_nil_r. tauto.
  - cbn [rec_leaves]. rewrite in_flat_map, in_app_iff, in_flat_map.
    assert (Sub : forall x, In x (ann_of l) ->
              (In z (rec_leaves f s (leaves_of s x)) <-> In z (leaves_of s x ++ flat_map (leaves_of s) (reach_anns f s (ann_of (leaves_of s x)))))).
    { intros x Hx. apply In_ann_of in Hx. destruct Hx as (lf & Hin & Hm). rewrite Forall_forall in Hl. specialize (Hl lf Hin).
      assert (Hlt : x < bound) by (destruct lf; try contradiction; subst; exact Hl).
      apply (IH x); [|lia]. unfold leaves_of. destruct (get_ann s x) as [an|] eqn:E; [apply (Hwf x an E)|constructor]. }
    split.
    + intros (lf & Hin & [<-|Hz]); [left; exact Hin|]. right.
      assert (Hx : exists x, In x (ann_of l) /\ In z (rec_leaves f s (leaves_of s x))).
      { destruct lf; try contradiction; (eexists; split; [apply In_ann_of; eexists; split; [exact Hin|reflexivity]|]); unfold leaves_of;
          (destruct (get_ann s _); [exact Hz|contradiction]). }
      destruct Hx as (x & Hx & Hz'). apply (Sub x Hx) in Hz'. apply in_app_iff in Hz'.
      rewrite reach_anns_unfold. destruct Hz' as [Hz'|Hz'].
      * exists x. split; [apply in_app_iff; left; exact Hx|exact Hz'].
      * apply in_flat_map in Hz'. destruct Hz' as (y & Hy & Hzy). exists y. split; [|exact Hzy].
        apply in_app_iff. right. unfold step_anns. apply (reach_In_flat s f (fun x => ann_of (leaves_of s x)) (ann_of l) y). exists x. tauto.
    + intros [Hin|(y & Hy & Hzy)]; [exists z; split; [exact Hin|left; reflexivity]|].
      rewrite reach_anns_unfold, in_app_iff in Hy.
      assert (Hx : exists x, In x (ann_of l) /\ In z (rec_leaves f s (leaves_of s x))).
      { destruct Hy as [Hy|Hy].
        - exists y. split; [exact Hy|]. apply (Sub y Hy). apply in_app_iff. left. exact Hzy.
        - unfold step_anns in Hy. apply (reach_In_flat s f (fun x => ann_of (leaves_of s x)) (ann_of l) y) in Hy. destruct Hy as (x & Hx & Hy).
          exists x. split; [exact Hx|]. apply (Sub x Hx). apply in_app_iff. right. apply in_flat_map. exists y. tauto. }
      destruct Hx as (x & Hx & Hz). apply In_ann_of in Hx. destruct Hx as (lf & Hin & Hm). exists lf. split; [exact Hin|]. right.
      destruct lf; try contradiction; subst; unfold leaves_of in Hz; (destruct (get_ann s _); [exact Hz|destruct f; contradiction]).
Qed.

Lemma sort_dedup_ext l l' : (forall x, In x l <-> In x l') -> sort_dedup l = sort_dedup l'.
Proof.
  intros H. apply sorted_ext; [apply sort_dedup_sorted|apply sort_dedup_sorted|]. intros x. rewrite !sort_dedup_In. apply H.
Qed.

(* in every reachable store the walk of the code and the closure name the same resources *)
Theorem forward_resources_are_the_closure : forall ops h a, get_ann (run ops) h = Some a ->
  fw_resources (run ops) a = sp_resources (run ops) a /\ fw_resources_meta (run ops) a = sp_resources_meta (run ops) a.
Proof.
  intros ops h a Ha. destruct (reachable_Good ops) as (_ & Hwf & _).
  assert (Hmem : forall z, In z (all_leaves (run ops) a) <-> In z (spec_leaves (run ops) a)).
  { intros z. unfold all_leaves, spec_leaves.
    apply (walk_is_closure (run ops) Hwf (length (anns (run ops))) h (a_leaves a) z (Hwf h a Ha)).
    apply Nat.lt_le_incl. apply (get_ann_lt _ _ _ Ha). }
  unfold fw_resources, sp_resources, fw_resources_meta, sp_resources_meta.
  split; f_equal; apply sort_dedup_ext; intros x; rewrite !in_flat_map; split; intros (lf & Hl & Hx); exists lf; (split; [apply Hmem; exact Hl|exact Hx]).
Qed.
