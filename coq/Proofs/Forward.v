(* The recursive walk over a target terminates: targets are older than the annotations that name
   them (wf_targets), so the nesting depth below annotation h is at most h and the walk of
   Model/Forward.v does not depend on its fuel once the fuel exceeds the handle. *)
From Coq Require Import List Arith Bool Lia.
Import ListNotations.
From Stam Require Import Base.Tac Model.Offset Model.Store Model.StoreObs Model.Forward
     Proofs.StoreRemove Proofs.StoreData.

Lemma flat_map_ext_in {A B} (f g : A -> list B) l : (forall x, In x l -> f x = g x) -> flat_map f l = flat_map g l.
Proof.
  induction l as [|x l IH]; intros H; cbn [flat_map]; [reflexivity|].
  rewrite (H x (or_introl eq_refl)), IH; [reflexivity|]. intros y Hy. apply H. right. exact Hy.
Qed.

Lemma rec_leaves_saturated s : wf_targets s -> forall f bound l,
  Forall (leaf_lt bound) l -> bound <= f -> rec_leaves (S f) s l = rec_leaves f s l.
Proof.
  intros Hwf. induction f as [|f IH]; intros bound l Hl Hb.
  - assert (bound = 0) by lia. subst bound. cbn [rec_leaves].
    induction l as [|lf l IHl]; [reflexivity|]. inversion Hl as [|? ? H1 H2]; subst.
    cbn [flat_map]. rewrite (IHl H2). destruct lf; cbn [leaf_lt] in H1; try reflexivity; lia.
  - cbn [rec_leaves]. apply flat_map_ext_in. intros lf Hin. f_equal.
    rewrite Forall_forall in Hl. specialize (Hl lf Hin).
    destruct lf as [r t m|x|x r t m|r|d|d k|d y]; try reflexivity; cbn [leaf_lt] in Hl.
    + destruct (get_ann s x) as [an|] eqn:E; [|reflexivity]. apply (IH x); [apply (Hwf x an E)|lia].
    + destruct (get_ann s x) as [an|] eqn:E; [|reflexivity]. apply (IH x); [apply (Hwf x an E)|lia].
Qed.

(* more fuel changes nothing *)
Lemma rec_leaves_fuel s : wf_targets s -> forall k f bound l,
  Forall (leaf_lt bound) l -> bound <= f -> rec_leaves (f + k) s l = rec_leaves f s l.
Proof.
  intros Hwf. induction k as [|k IH]; intros f bound l Hl Hb; [rewrite Nat.add_0_r; reflexivity|].
  replace (f + S k) with (S (f + k)) by lia.
  rewrite (rec_leaves_saturated s Hwf (f + k) bound l Hl) by lia. apply (IH f bound l Hl Hb).
Qed.

(* in every reachable store: the walk below a live annotation is complete with the fuel the model
   gives it (the number of annotation slots), whatever larger fuel one takes *)
Theorem forward_walk_terminates : forall ops h a k,
  get_ann (run ops) h = Some a ->
  rec_leaves (length (anns (run ops)) + k) (run ops) (a_leaves a) = all_leaves (run ops) a.
Proof.
  intros ops h a k Ha. destruct (reachable_Good ops) as (_ & Hwf & _). unfold all_leaves.
  apply (rec_leaves_fuel (run ops) Hwf k (length (anns (run ops))) h (a_leaves a) (Hwf h a Ha)).
  apply Nat.lt_le_incl. apply (get_ann_lt _ _ _ Ha).
Qed.
