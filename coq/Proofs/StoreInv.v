(* The index invariant of the store: every reverse index, read through get, is the scan of
   the live annotations by the corresponding "refers to" clause.  It holds initially and is
   preserved by every adding operation; from it all index-based lookups equal their
   scan-based specification. *)
From Coq Require Import Sorting.Sorted.
From Stam Require Import Base.Tac Base.ListAux Model.Offset Model.Store Model.StoreObs Spec.StoreSpec
     Proofs.RelMap Proofs.StoreScan.

(* [ex d x = true] exempts the row (d, x) of dataset_data_annotation_map: remove_data() repairs
   that row only at its very end *)
Record InvE (ex : nat -> nat -> bool) (s : store) : Prop := mkInv {
  I_trm : forall r t, tget (trm s) r t = s_ts_anns s r t;
  I_aam : forall a, rget (aam s) a = s_ann_anns s a;
  I_ramm : forall r, rget (ramm s) r = s_res_meta s r;
  I_samm : forall d, rget (samm s) d = s_set_meta s d;
  I_kamm : forall d k, tget (kamm s) d k = s_key_meta s d k;
  I_damm : forall d x, tget (damm s) d x = s_data_meta s d x;
  I_ddam : forall d x, ex d x = false -> tget (ddam s) d x = s_data_anns s d x
}.
Definition noex (d x : nat) : bool := false.
Notation Inv := (InvE noex).

Lemma scan_empty P : scan empty_store P = [].
Proof. reflexivity. Qed.

Theorem Inv_init ex : InvE ex empty_store.
Proof.
  constructor; intros; unfold s_ts_anns, s_ann_anns, s_res_meta, s_set_meta, s_key_meta, s_data_meta, s_data_anns;
    rewrite scan_empty; cbn; try apply tget_nil; apply rget_nil.
Qed.

(** * The part of the store the annotation indices live in *)
Definition same_core (s s' : store) : Prop :=
  anns s' = anns s /\ aidx s' = aidx s /\ ddam s' = ddam s /\ trm s' = trm s /\ kamm s' = kamm s
  /\ damm s' = damm s /\ ramm s' = ramm s /\ samm s' = samm s /\ aam s' = aam s.

Lemma same_core_refl s : same_core s s.
Proof. repeat split. Qed.

Lemma same_core_trans s1 s2 s3 : same_core s1 s2 -> same_core s2 s3 -> same_core s1 s3.
Proof.
  unfold same_core. intros (A1&A2&A3&A4&A5&A6&A7&A8&A9) (B1&B2&B3&B4&B5&B6&B7&B8&B9).
  repeat split; congruence.
Qed.

Lemma Inv_same_core ex s s' : same_core s s' -> InvE ex s -> InvE ex s'.
Proof.
  intros (A1&A2&A3&A4&A5&A6&A7&A8&A9) [H1 H2 H3 H4 H5 H6 H7].
  constructor; intros;
    unfold s_ts_anns, s_ann_anns, s_res_meta, s_set_meta, s_key_meta, s_data_meta, s_data_anns in *;
    rewrite scan_scanl in *; rewrite ?A1, ?A3, ?A4, ?A5, ?A6, ?A7, ?A8, ?A9;
    first [apply H1|apply H2|apply H3|apply H4|apply H5|apply H6|apply H7; assumption].
Qed.

Ltac core := repeat split; reflexivity.

Lemma add_res_core s id len : same_core s (fst (add_res s id len)).
Proof.
  unfold add_res. destruct (id_get (ridx s) id) as [h|].
  - destruct (get_res s h) as [r|]; [destruct (r_len r =? len)|]; apply same_core_refl.
  - core.
Qed.

Lemma add_set_core s id : same_core s (fst (add_set s id)).
Proof.
  unfold add_set. destruct (id_get (sidx s) id) as [h|].
  - destruct (get_set s h) as [d|]; [destruct (dset_is_empty d)|]; apply same_core_refl.
  - core.
Qed.

Lemma store_insert_data_core s b : same_core s (fst (store_insert_data s b)).
Proof.
  unfold store_insert_data.
  destruct (ref_set s (db_set b)) as [h|].
  - destruct (get_set s h) as [d|]; [|apply same_core_refl].
    destruct (dset_insert_data d (db_id b) (db_key b) (db_val b)) as [d' [x| |]]; core.
  - pose proof (add_set_core s (match db_set b with ById tok => tok | ByHandle _ => DEFAULT_SET_TOKEN end)) as Hc.
    destruct (add_set s _) as [s' [h| |]]; cbn [fst] in Hc; try exact Hc.
    destruct (get_set s' h) as [d|]; [|exact Hc].
    destruct (dset_insert_data d (db_id b) (db_key b) (db_val b)) as [d' [x| |]]; cbn [fst];
      (eapply same_core_trans; [exact Hc|core]).
Qed.

Lemma insert_datas_core l : forall s, same_core s (fst (insert_datas s l)).
Proof.
  induction l as [|b l IH]; intros s; cbn [insert_datas]; [apply same_core_refl|].
  pose proof (store_insert_data_core s b) as H1.
  destruct (store_insert_data s b) as [s1 [dx|]]; cbn [fst] in *; [|exact H1].
  specialize (IH s1). destruct (insert_datas s1 l) as [s2 [dxs|]]; cbn [fst] in *;
    eapply same_core_trans; eassumption.
Qed.

Lemma intern_sel_core s r rs rg : same_core s (fst (intern_sel s r rs rg)).
Proof. unfold intern_sel. destruct (find_sel (r_sels rs) rg 0); core. Qed.

Lemma resolve_simple_core s b : same_core s (fst (resolve_simple s b)).
Proof.
  destruct b as [rr o|ar [o|]|rr|dr|dr kr|dr xr|k l]; cbn [resolve_simple]; try apply same_core_refl.
  - destruct (ref_res s rr) as [r|]; [|apply same_core_refl].
    destruct (get_res s r) as [rs|]; [|apply same_core_refl].
    destruct (resource_ts (r_len rs) o) as [rg|]; [|apply same_core_refl].
    pose proof (intern_sel_core s r rs rg) as H. destruct (intern_sel s r rs rg); exact H.
  - destruct (ref_ann s ar) as [a|]; [|apply same_core_refl].
    destruct (get_ann s a) as [an|]; [|apply same_core_refl].
    destruct (ann_textsel s an) as [[[r t] prg]|]; [|apply same_core_refl].
    destruct (selection_ts prg o) as [rg|]; [|apply same_core_refl].
    destruct (get_res s r) as [rs|]; [|apply same_core_refl].
    pose proof (intern_sel_core s r rs rg) as H. destruct (intern_sel s r rs rg); exact H.
  - destruct (ref_ann s ar); apply same_core_refl.
  - destruct (ref_res s rr); apply same_core_refl.
  - destruct (ref_set s dr); apply same_core_refl.
  - destruct (ref_set s dr) as [d|]; [|apply same_core_refl].
    destruct (get_set s d) as [ds|]; [|apply same_core_refl]. destruct (ref_key ds kr); apply same_core_refl.
  - destruct (ref_set s dr) as [d|]; [|apply same_core_refl].
    destruct (get_set s d) as [ds|]; [|apply same_core_refl]. destruct (ref_data ds xr); apply same_core_refl.
Qed.

Lemma resolve_subs_core l : forall s, same_core s (fst (resolve_subs s l)).
Proof.
  induction l as [|b l IH]; intros s; cbn [resolve_subs]; [apply same_core_refl|].
  pose proof (resolve_simple_core s b) as H1.
  destruct (resolve_simple s b) as [s1 [lf|]]; cbn [fst] in *; [|exact H1].
  specialize (IH s1). destruct (resolve_subs s1 l) as [s2 [lfs|]]; cbn [fst] in *;
    eapply same_core_trans; eassumption.
Qed.

Lemma resolve_target_core s b : same_core s (fst (resolve_target s b)).
Proof.
  destruct b; cbn [resolve_target];
    try (match goal with |- context [resolve_simple ?s ?b] =>
           pose proof (resolve_simple_core s b) as H; destruct (resolve_simple s b) as [s' [lf|]]; exact H end).
  pose proof (resolve_subs_core l s) as H. destruct (resolve_subs s l) as [s' [lfs|]]; exact H.
Qed.

(** * Indexing a new annotation *)

(* a fold that pushes h into one row for every element selected by [sel] *)
Lemma fold_push {X} (h : nat) (step : store -> X -> store) (V : store -> list nat) (sel : X -> bool) :
  (forall s x, V (step s x) = if sel x then push_new (V s) h else V s) ->
  forall l s, Forall (fun z => z < h) (V s) ->
  V (fold_left step l s) = if existsb sel l then V s ++ [h] else V s.
Proof.
  intros Hstep l.
  assert (G : forall l s row0 (b : bool), Forall (fun z => z < h) row0 ->
              V s = (if b then row0 ++ [h] else row0) ->
              V (fold_left step l s) = if b || existsb sel l then row0 ++ [h] else row0).
  { clear l. induction l as [|x l IH]; intros s row0 b Hf Hs; cbn [fold_left existsb].
    - rewrite orb_false_r. exact Hs.
    - rewrite orb_assoc. apply IH; [exact Hf|].
      rewrite Hstep, Hs. destruct (sel x); destruct b; cbn [orb]; try reflexivity.
      + apply push_new_again.
      + apply push_new_fresh. exact Hf. }
  intros s Hf. apply (G l s (V s) false Hf eq_refl).
Qed.

Section IndexLeaf.
  Variable h : nat.

  Lemma eqb_pair_swap a b c d : (a =? b) && (c =? d) = (b =? a) && (d =? c).
  Proof. rewrite (Nat.eqb_sym a b), (Nat.eqb_sym c d). reflexivity. Qed.

  Ltac tstep :=
    intros s lf; destruct lf; cbn [index_leaf trm aam ramm samm kamm damm ddam set_trm set_aam set_ramm set_samm set_kamm set_damm
                                   on_ts on_ann on_res_meta on_set on_key on_data];
    rewrite ?tget_tins, ?rget_rins; try reflexivity.

  Lemma step_trm r t : forall s lf,
    tget (trm (index_leaf h s lf)) r t = if on_ts r t lf then push_new (tget (trm s) r t) h else tget (trm s) r t.
  Proof.
    tstep; rewrite eqb_pair_swap;
      match goal with |- context [(?a =? r) && (?b =? t)] =>
        destruct (a =? r) eqn:E1; destruct (b =? t) eqn:E2; cbn [andb]; try reflexivity;
        assert (a = r) by lia; assert (b = t) by lia; subst; reflexivity end.
  Qed.

  Lemma step_aam a : forall s lf,
    rget (aam (index_leaf h s lf)) a = if on_ann a lf then push_new (rget (aam s) a) h else rget (aam s) a.
  Proof.
    tstep; rewrite (Nat.eqb_sym a);
      match goal with |- context [?x =? a] =>
        destruct (x =? a) eqn:E1; try reflexivity; assert (x = a) by lia; subst; reflexivity end.
  Qed.

  Lemma step_ramm r : forall s lf,
    rget (ramm (index_leaf h s lf)) r = if on_res_meta r lf then push_new (rget (ramm s) r) h else rget (ramm s) r.
  Proof.
    tstep; rewrite (Nat.eqb_sym r);
      match goal with |- context [?x =? r] =>
        destruct (x =? r) eqn:E1; try reflexivity; assert (x = r) by lia; subst; reflexivity end.
  Qed.

  Lemma step_samm d : forall s lf,
    rget (samm (index_leaf h s lf)) d = if on_set d lf then push_new (rget (samm s) d) h else rget (samm s) d.
  Proof.
    tstep; rewrite (Nat.eqb_sym d);
      match goal with |- context [?x =? d] =>
        destruct (x =? d) eqn:E1; try reflexivity; assert (x = d) by lia; subst; reflexivity end.
  Qed.

  Lemma step_kamm d k : forall s lf,
    tget (kamm (index_leaf h s lf)) d k = if on_key d k lf then push_new (tget (kamm s) d k) h else tget (kamm s) d k.
  Proof.
    tstep; rewrite eqb_pair_swap;
      match goal with |- context [(?a =? d) && (?b =? k)] =>
        destruct (a =? d) eqn:E1; destruct (b =? k) eqn:E2; cbn [andb]; try reflexivity;
        assert (a = d) by lia; assert (b = k) by lia; subst; reflexivity end.
  Qed.

  Lemma step_damm d x : forall s lf,
    tget (damm (index_leaf h s lf)) d x = if on_data d x lf then push_new (tget (damm s) d x) h else tget (damm s) d x.
  Proof.
    tstep; rewrite eqb_pair_swap;
      match goal with |- context [(?a =? d) && (?b =? x)] =>
        destruct (a =? d) eqn:E1; destruct (b =? x) eqn:E2; cbn [andb]; try reflexivity;
        assert (a = d) by lia; assert (b = x) by lia; subst; reflexivity end.
  Qed.

  Lemma step_ddam_leaf : forall s lf, ddam (index_leaf h s lf) = ddam s.
  Proof. intros s lf; destruct lf; reflexivity. Qed.

  Lemma step_anns_leaf : forall s lf, anns (index_leaf h s lf) = anns s.
  Proof. intros s lf; destruct lf; reflexivity. Qed.
End IndexLeaf.

Lemma fold_leaves_anns h ls : forall s, anns (fold_left (index_leaf h) ls s) = anns s.
Proof. induction ls as [|lf ls IH]; intros s; cbn [fold_left]; [reflexivity|]. rewrite IH. apply step_anns_leaf. Qed.

Lemma fold_leaves_ddam h ls : forall s, ddam (fold_left (index_leaf h) ls s) = ddam s.
Proof. induction ls as [|lf ls IH]; intros s; cbn [fold_left]; [reflexivity|]. rewrite IH. apply step_ddam_leaf. Qed.

Definition index_datum (h : nat) (s : store) (dx : nat * nat) : store :=
  set_ddam s (tins (ddam s) (fst dx) (snd dx) h).

Lemma index_ann_unfold s h a :
  index_ann s h a = fold_left (index_leaf h) (a_leaves a) (fold_left (index_datum h) (a_data a) s).
Proof. reflexivity. Qed.

Lemma fold_data_frame h l : forall s,
  let s' := fold_left (index_datum h) l s in
  anns s' = anns s /\ trm s' = trm s /\ aam s' = aam s /\ ramm s' = ramm s /\ samm s' = samm s
  /\ kamm s' = kamm s /\ damm s' = damm s.
Proof.
  induction l as [|dx l IH]; intros s; cbn [fold_left]; [repeat split|].
  specialize (IH (index_datum h s dx)). cbv zeta in *. exact IH.
Qed.

Lemma step_ddam h d x : forall s dx,
  tget (ddam (index_datum h s dx)) d x =
  if (fst dx =? d) && (snd dx =? x) then push_new (tget (ddam s) d x) h else tget (ddam s) d x.
Proof.
  intros s [d' x']. unfold index_datum. cbn [ddam set_ddam fst snd]. rewrite tget_tins, eqb_pair_swap.
  destruct (d' =? d) eqn:E1; destruct (x' =? x) eqn:E2; cbn [andb]; try reflexivity.
  assert (d' = d) by lia. assert (x' = x) by lia. subst. reflexivity.
Qed.

Lemma scanl_fresh l P : Forall (fun z => z < length l) (scanl l P).
Proof. rewrite Forall_forall. intros z Hz. apply scanl_lt in Hz. exact Hz. Qed.

(* the new annotation [a] sits in the last slot, the maps still describe the store without it *)
Lemma index_ann_Inv ex s0 s1 a :
  InvE ex s0 -> anns s1 = anns s0 ++ [Some a] ->
  ddam s1 = ddam s0 -> trm s1 = trm s0 -> kamm s1 = kamm s0 -> damm s1 = damm s0 ->
  ramm s1 = ramm s0 -> samm s1 = samm s0 -> aam s1 = aam s0 ->
  InvE ex (index_ann s1 (length (anns s0)) a).
Proof.
  intros [H1 H2 H3 H4 H5 H6 H7] Ha E1 E2 E3 E4 E5 E6 E7.
  set (h := length (anns s0)).
  rewrite index_ann_unfold.
  set (sd := fold_left (index_datum h) (a_data a) s1).
  destruct (fold_data_frame h (a_data a) s1) as (F0 & F1 & F2 & F3 & F4 & F5 & F6). fold sd in F0, F1, F2, F3, F4, F5, F6.
  assert (Hanns : anns (fold_left (index_leaf h) (a_leaves a) sd) = anns s0 ++ [Some a]).
  { rewrite fold_leaves_anns, F0. exact Ha. }
  unfold s_ts_anns, s_ann_anns, s_res_meta, s_set_meta, s_key_meta, s_data_meta, s_data_anns in *.
  constructor; intros;
    unfold s_ts_anns, s_ann_anns, s_res_meta, s_set_meta, s_key_meta, s_data_meta, s_data_anns;
    rewrite scan_scanl, Hanns, scanl_app_new; fold h.
  - rewrite (fold_push h (index_leaf h) (fun s => tget (trm s) r t) (on_ts r t) (step_trm h r t)).
    + rewrite F1, E2, H1, scan_scanl. unfold has_leaf. destruct (existsb _ _); [reflexivity|rewrite app_nil_r; reflexivity].
    + rewrite F1, E2, H1, scan_scanl. apply scanl_fresh.
  - rewrite (fold_push h (index_leaf h) (fun s => rget (aam s) a0) (on_ann a0) (step_aam h a0)).
    + rewrite F2, E7, H2, scan_scanl. unfold has_leaf. destruct (existsb _ _); [reflexivity|rewrite app_nil_r; reflexivity].
    + rewrite F2, E7, H2, scan_scanl. apply scanl_fresh.
  - rewrite (fold_push h (index_leaf h) (fun s => rget (ramm s) r) (on_res_meta r) (step_ramm h r)).
    + rewrite F3, E5, H3, scan_scanl. unfold has_leaf. destruct (existsb _ _); [reflexivity|rewrite app_nil_r; reflexivity].
    + rewrite F3, E5, H3, scan_scanl. apply scanl_fresh.
  - rewrite (fold_push h (index_leaf h) (fun s => rget (samm s) d) (on_set d) (step_samm h d)).
    + rewrite F4, E6, H4, scan_scanl. unfold has_leaf. destruct (existsb _ _); [reflexivity|rewrite app_nil_r; reflexivity].
    + rewrite F4, E6, H4, scan_scanl. apply scanl_fresh.
  - rewrite (fold_push h (index_leaf h) (fun s => tget (kamm s) d k) (on_key d k) (step_kamm h d k)).
    + rewrite F5, E3, H5, scan_scanl. unfold has_leaf. destruct (existsb _ _); [reflexivity|rewrite app_nil_r; reflexivity].
    + rewrite F5, E3, H5, scan_scanl. apply scanl_fresh.
  - rewrite (fold_push h (index_leaf h) (fun s => tget (damm s) d x) (on_data d x) (step_damm h d x)).
    + rewrite F6, E4, H6, scan_scanl. unfold has_leaf. destruct (existsb _ _); [reflexivity|rewrite app_nil_r; reflexivity].
    + rewrite F6, E4, H6, scan_scanl. apply scanl_fresh.
  - rewrite fold_leaves_ddam. unfold sd.
    rewrite (fold_push h (index_datum h) (fun s => tget (ddam s) d x)
               (fun dx => (fst dx =? d) && (snd dx =? x)) (step_ddam h d x)).
    + rewrite E1, H7, scan_scanl by assumption. unfold uses_data. destruct (existsb _ _); [reflexivity|rewrite app_nil_r; reflexivity].
    + rewrite E1, H7, scan_scanl by assumption. apply scanl_fresh.
Qed.

Theorem annotate_Inv ex s b : InvE ex s -> InvE ex (fst (annotate s b)).
Proof.
  intros HI. unfold annotate.
  destruct (ab_target b) as [tb|]; [|exact HI].
  pose proof (resolve_target_core s tb) as C1.
  destruct (resolve_target s tb) as [s1 [[kind leaves]|]]; cbn [fst] in C1; [|exact (Inv_same_core _ _ _ C1 HI)].
  pose proof (insert_datas_core (ab_data b) s1) as C2.
  destruct (insert_datas s1 (ab_data b)) as [s2 [data|]]; cbn [fst] in C2;
    pose proof (same_core_trans _ _ _ C1 C2) as C3; [|exact (Inv_same_core _ _ _ C3 HI)].
  pose proof (Inv_same_core _ _ _ C3 HI) as HI2.
  destruct (match ab_id b with Some tok => id_get (aidx s2) tok | None => None end) as [h'|].
  - destruct (get_ann s2 h') as [exi|]; [|exact HI2].
    destruct (_ && _); exact HI2.
  - cbn [fst].
    set (a := mkann (ab_id b) data kind leaves).
    match goal with |- InvE _ (index_ann ?s4 _ _) =>
      apply (index_ann_Inv ex s2 s4 a HI2); destruct (ab_id b); reflexivity end.
Qed.

Theorem step_add_Inv ex s o : InvE ex s ->
  match o with AddRes _ _ | AddSet _ | InsData _ | Annotate _ => InvE ex (fst (step s o)) | _ => True end.
Proof.
  intros HI. destruct o; cbn [step]; try exact I.
  - exact (Inv_same_core _ _ _ (add_res_core s id len) HI).
  - exact (Inv_same_core _ _ _ (add_set_core s id) HI).
  - pose proof (store_insert_data_core s b) as C. destruct (store_insert_data s b) as [s' [[d x]|]];
      exact (Inv_same_core _ _ _ C HI).
  - apply annotate_Inv. exact HI.
Qed.

(** * Under the invariant every index-based lookup equals its scan-based specification *)
Section Lookups.
  Variable s : store.
  Hypothesis HI : InvE noex s.

  Lemma ts_anns_eq r t : m_ts_anns s r t = s_ts_anns s r t.
  Proof. unfold m_ts_anns. rewrite (I_trm noex s HI). apply flt_scan. Qed.
  Lemma ann_anns_eq a : m_ann_anns s a = s_ann_anns s a.
  Proof. unfold m_ann_anns. rewrite (I_aam noex s HI). apply flt_scan. Qed.
  Lemma res_meta_eq r : m_res_meta s r = s_res_meta s r.
  Proof. unfold m_res_meta. rewrite (I_ramm noex s HI). apply flt_scan. Qed.
  Lemma set_meta_eq d : m_set_meta s d = s_set_meta s d.
  Proof. unfold m_set_meta. rewrite (I_samm noex s HI). apply flt_scan. Qed.
  Lemma key_meta_eq d k : m_key_meta s d k = s_key_meta s d k.
  Proof. unfold m_key_meta. rewrite (I_kamm noex s HI). apply flt_scan. Qed.
  Lemma data_meta_eq d x : m_data_meta s d x = s_data_meta s d x.
  Proof. unfold m_data_meta. rewrite (I_damm noex s HI). apply flt_scan. Qed.
  Lemma data_anns_eq d x : m_data_anns s d x = s_data_anns s d x.
  Proof. unfold m_data_anns. rewrite (I_ddam noex s HI) by reflexivity. apply flt_scan. Qed.

  (* resource.annotations(): all annotations on any text of the resource, sorted, each once *)
  Lemma In_concat_rows (m : rmap) h : In h (concat m) <-> exists t, In h (rget m t).
  Proof.
    rewrite in_concat. split.
    - intros (row & Hr & Hh). apply (In_nth _ _ []) in Hr. destruct Hr as (t & _ & Ht).
      exists t. unfold rget. rewrite Ht. exact Hh.
    - intros (t & Ht). unfold rget in Ht. exists (nth t m []). split; [|exact Ht].
      destruct (lt_dec t (length m)) as [Hl|Hl]; [apply nth_In; exact Hl|].
      rewrite nth_overflow in Ht by lia. destruct Ht.
  Qed.

  Lemma res_text_eq r : m_res_text s r = s_res_text s r.
  Proof.
    unfold m_res_text, s_res_text.
    assert (Hmem : forall h, In h (sort_dedup (concat (nth r (trm s) []))) <-> In h (scan s (has_leaf (on_res_text r)))).
    { intros h. rewrite sort_dedup_In, In_concat_rows. split.
      - intros (t & Ht). change (rget (nth r (trm s) []) t) with (tget (trm s) r t) in Ht.
        rewrite (I_trm noex s HI) in Ht. unfold s_ts_anns in Ht. rewrite scan_scanl in *.
        apply scanl_In in Ht. destruct Ht as (a & Ha & HP). apply scanl_In. exists a. split; [exact Ha|].
        unfold has_leaf in *. apply existsb_exists in HP. destruct HP as (lf & Hlf & Hon).
        apply existsb_exists. exists lf. split; [exact Hlf|].
        destruct lf; cbn [on_ts on_res_text] in *; try discriminate; lia.
      - intros Hh. rewrite scan_scanl in Hh. apply scanl_In in Hh. destruct Hh as (a & Ha & HP).
        unfold has_leaf in HP. apply existsb_exists in HP. destruct HP as (lf & Hlf & Hon).
        assert (Ht : exists t, on_ts r t lf = true).
        { destruct lf; cbn [on_res_text on_ts] in *; try discriminate;
            match goal with |- exists t, (_ && (?x =? t)) = true => exists x; rewrite Hon, Nat.eqb_refl; reflexivity end. }
        destruct Ht as (t & Ht). exists t. change (rget (nth r (trm s) []) t) with (tget (trm s) r t).
        rewrite (I_trm noex s HI). unfold s_ts_anns. rewrite scan_scanl. apply scanl_In. exists a. split; [exact Ha|].
        unfold has_leaf. apply existsb_exists. exists lf. tauto. }
    assert (Heq : sort_dedup (concat (nth r (trm s) [])) = scan s (has_leaf (on_res_text r))).
    { apply sorted_ext; [apply sort_dedup_sorted|rewrite scan_scanl; apply scanl_sorted|exact Hmem]. }
    rewrite Heq. apply flt_scan.
  Qed.
End Lookups.
