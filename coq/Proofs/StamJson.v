(* C05, part 1: the document codecs.  Every builder structure written as a JSON tree is read
   back as itself: numbers, values of all seven types (nested lists), cursors, offsets,
   selectors of all nine kinds, annotations, keys, data, datasets, resources, the store. *)
From Coq Require Import String Ascii.
From Coq Require Import List NArith ZArith Bool Arith Lia.
From Stam Require Import Base.Tac Model.Offset Model.Json Model.TempId Proofs.TempId Model.StamJson.
Import ListNotations.

(** * strings *)
Lemma str_eqb_refl s : str_eqb s s = true.
Proof. induction s as [|c s IH]; cbn; [reflexivity|]. rewrite N.eqb_refl. exact IH. Qed.

Lemma str_eqb_eq a : forall b, str_eqb a b = true -> a = b.
Proof.
  induction a as [|x a IH]; intros [|y b] H; cbn in H; try discriminate; [reflexivity|].
  apply andb_prop in H. destruct H as [H1 H2]. apply N.eqb_eq in H1. subst. f_equal. apply IH. exact H2.
Qed.

Lemma str_eqb_neq a b : a <> b -> str_eqb a b = false.
Proof. intros H. destruct (str_eqb a b) eqn:E; [|reflexivity]. apply str_eqb_eq in E. contradiction. Qed.

(** * numbers *)
Lemma digits_nonnil n : digits n <> [].
Proof. destruct (digits_head n) as (c & l & E & _). rewrite E. discriminate. Qed.

Lemma lit_n_digits n : lit_n (digits n) = Some n.
Proof.
  unfold lit_n. destruct (digits n) eqn:E; [exfalso; eapply digits_nonnil; eauto|].
  rewrite <- E. apply parse_digits_digits.
Qed.

Lemma lit_nat_lit n : lit_nat (nat_lit n) = Some n.
Proof. unfold lit_nat, nat_lit. rewrite lit_n_digits. cbn. f_equal. apply Nnat.Nat2N.id. Qed.

Lemma digits_not_minus n : exists c l, digits n = c :: l /\ N.eqb c 45 = false.
Proof.
  destruct (digits_head n) as (c & l & E & H). exists c, l. split; [exact E|].
  apply N.eqb_neq. intros ->. revert H. apply N.lt_nge. reflexivity.
Qed.

Lemma lit_z_lit z : lit_z (z_lit z) = Some z.
Proof.
  unfold z_lit. destruct (z <? 0)%Z eqn:E.
  - cbn [lit_z]. rewrite N.eqb_refl. rewrite lit_n_digits. cbn. f_equal.
    apply Z.ltb_lt in E. rewrite N2Z.inj_abs_N. lia.
  - destruct (digits_not_minus (Z.abs_N z)) as (c & l & E1 & E2).
    unfold lit_z. rewrite E1, E2. rewrite <- E1. rewrite lit_n_digits. cbn. f_equal.
    apply Z.ltb_ge in E. rewrite N2Z.inj_abs_N. lia.
Qed.

(* floats on the grid *)
Lemma dig_48 d : (d < 10)%N -> dig (48 + d) = Some d.
Proof.
  intros H. unfold dig. rewrite is_digit_48 by exact H. f_equal. lia.
Qed.

Lemma lit_frac_lit fp : (fp < 1000)%N -> lit_frac (frac_lit fp) = Some fp.
Proof.
  intros H. unfold frac_lit.
  assert (H1 : (fp / 100 < 10)%N) by (apply N.div_lt_upper_bound; lia).
  assert (H2 : ((fp / 10) mod 10 < 10)%N) by (apply N.mod_lt; lia).
  assert (H3 : (fp mod 10 < 10)%N) by (apply N.mod_lt; lia).
  assert (D : fp = (fp / 100 * 100 + (fp / 10) mod 10 * 10 + fp mod 10)%N).
  { pose proof (N.div_mod fp 10). pose proof (N.div_mod (fp / 10) 10).
    assert ((fp / 10 / 10)%N = (fp / 100)%N) by (rewrite N.div_div by lia; reflexivity). lia. }
  destruct (N.eqb (fp mod 10) 0) eqn:E3; [destruct (N.eqb ((fp / 10) mod 10) 0) eqn:E2|]; cbn [lit_frac];
    rewrite ?dig_48 by assumption; f_equal;
    try apply N.eqb_eq in E3; try apply N.eqb_eq in E2; lia.
Qed.

Lemma split_at_dot_digits : forall l r, forallb is_digit l = true ->
  split_at_dot (l ++ 46%N :: r) = Some (l, r).
Proof.
  induction l as [|c l IH]; intros r H; cbn [app split_at_dot].
  - reflexivity.
  - cbn in H. apply andb_prop in H. destruct H as [Hc Hl].
    assert (N.eqb c 46 = false).
    { apply N.eqb_neq. intros ->. discriminate. }
    rewrite H. rewrite IH by exact Hl. reflexivity.
Qed.

Lemma parse_digits_all : forall s acc n, parse_digits acc s = Some n -> forallb is_digit s = true.
Proof.
  induction s as [|c s IH]; intros acc n H; cbn in *; [reflexivity|].
  destruct (is_digit c); [|discriminate]. cbn. eapply IH. exact H.
Qed.

Lemma digits_all n : forallb is_digit (digits n) = true.
Proof. eapply parse_digits_all. apply parse_digits_digits. Qed.

Lemma lit_ufix_lit a : lit_ufix (digits (a / 1000) ++ 46%N :: frac_lit (a mod 1000)) = Some a.
Proof.
  unfold lit_ufix. rewrite split_at_dot_digits by apply digits_all.
  rewrite lit_n_digits. rewrite lit_frac_lit by (apply N.mod_lt; lia).
  f_equal. pose proof (N.div_mod a 1000). lia.
Qed.

Lemma lit_fix_lit z : lit_fix (fix_lit z) = Some z.
Proof.
  unfold fix_lit. destruct (z <? 0)%Z eqn:E.
  - cbn [app lit_fix]. rewrite N.eqb_refl. rewrite lit_ufix_lit. cbn. f_equal.
    apply Z.ltb_lt in E. rewrite N2Z.inj_abs_N. lia.
  - cbn [app]. destruct (digits_not_minus (Z.abs_N z / 1000)) as (c & l & E1 & E2).
    set (F := frac_lit (Z.abs_N z mod 1000)).
    assert (EE : digits (Z.abs_N z / 1000) ++ 46%N :: F = c :: (l ++ 46%N :: F)) by (rewrite E1; reflexivity).
    unfold lit_fix. rewrite EE, E2. rewrite <- EE. unfold F.
    rewrite lit_ufix_lit. cbn. f_equal. apply Z.ltb_ge in E. rewrite N2Z.inj_abs_N. lia.
Qed.

(** * values *)
Section jval_ind.
  Variable P : jval -> Prop.
  Hypothesis Hnull : P XNull.
  Hypothesis Hbool : forall b, P (XBool b).
  Hypothesis Hint : forall z, P (XInt z).
  Hypothesis Hfix : forall z, P (XFix z).
  Hypothesis Hstr : forall s, P (XStr s).
  Hypothesis Hlist : forall l, Forall P l -> P (XList l).
  Hypothesis Hdate : forall s, P (XDate s).
  Fixpoint jval_ind' (v : jval) : P v :=
    match v with
    | XNull => Hnull | XBool b => Hbool b | XInt z => Hint z | XFix z => Hfix z | XStr s => Hstr s
    | XList l => Hlist l ((fix go (l : list jval) : Forall P l :=
                             match l with [] => Forall_nil P | x :: r => Forall_cons x (jval_ind' x) (go r) end) l)
    | XDate s => Hdate s
    end.
End jval_ind.

Theorem parse_json_of_val : forall v, parse_val (json_of_val v) = Some v.
Proof.
  induction v using jval_ind'; try reflexivity.
  - cbn. rewrite lit_z_lit. reflexivity.
  - cbn. rewrite lit_fix_lit. reflexivity.
  - cbn. induction H as [|x l Hx Hl IH]; [reflexivity|].
    cbn [map]. rewrite Hx.
    match type of IH with option_map _ ?g = _ => destruct g eqn:E end; [|discriminate].
    cbn in IH. injection IH as ->. reflexivity.
Qed.

(** * cursors, offsets, selectors *)
Local Arguments lit_nat : simpl never.
Local Arguments nat_lit : simpl never.
Local Arguments lit_z : simpl never.
Local Arguments z_lit : simpl never.
Local Arguments parse_offset : simpl never.
Local Arguments json_of_offset : simpl never.
Lemma parse_json_of_cursor c : parse_cursor (json_of_cursor c) = Some c.
Proof. destruct c; cbn; [rewrite lit_nat_lit|rewrite lit_z_lit]; reflexivity. Qed.

Lemma parse_json_of_offset o : parse_offset (json_of_offset o) = Some o.
Proof.
  destruct o as [cb ce]. unfold json_of_offset, parse_offset. cbn [o_begin o_end].
  change (member K_begin _) with (Some (json_of_cursor cb)).
  change (member K_end _) with (Some (json_of_cursor ce)).
  cbv iota beta. rewrite !parse_json_of_cursor. reflexivity.
Qed.

Lemma parse_json_of_bleaf l : parse_bleaf (json_of_bleaf l) = Some l.
Proof.
  destruct l as [r o|a [o|]|r|d|d k|d x]; cbn; rewrite ?parse_json_of_offset; reflexivity.
Qed.

Lemma parse_list_map {X} (f : json -> option X) (g : X -> json) :
  (forall x, f (g x) = Some x) -> forall l, parse_list f (map g l) = Some l.
Proof. intros H l. induction l as [|x l IH]; cbn; [reflexivity|]. rewrite H, IH. reflexivity. Qed.

(* a target: a single selector (kind 0) or one of the three complex kinds *)
Definition target_ok (k : nat) (ls : list bleaf) : Prop :=
  match k with 0 => exists l, ls = [l] | 1 | 2 | 3 => True | _ => False end.

Lemma kind_of_leaf_type l m t : json_of_bleaf l = JObj m -> mem_str K_type m = Some t -> kind_of_name t = None.
Proof.
  destruct l as [r o|a [o|]|r|d|d k|d x]; cbn; intros E H; injection E as <-; cbn in H; injection H as <-; reflexivity.
Qed.

Lemma parse_json_of_target k ls : target_ok k ls -> parse_target (json_of_target k ls) = Some (k, ls).
Proof.
  intros H. destruct k as [|[|[|[|k]]]]; cbn in H; try contradiction.
  - destruct H as [l ->]. cbn [json_of_target].
    pose proof (parse_json_of_bleaf l) as P.
    destruct l as [r o|a [o|]|r|d|d k|d x]; cbn in *; rewrite ?parse_json_of_offset in *; reflexivity.
  - cbn. rewrite (parse_list_map _ _ parse_json_of_bleaf). reflexivity.
  - cbn. rewrite (parse_list_map _ _ parse_json_of_bleaf). reflexivity.
  - cbn. rewrite (parse_list_map _ _ parse_json_of_bleaf). reflexivity.
Qed.

(** * annotations, data, datasets, resources, the store *)
Lemma parse_json_of_dataref p : parse_dataref (json_of_dataref p) = Some p.
Proof. destruct p. reflexivity. Qed.

Lemma member_skip k k' v m : str_eqb k k' = false -> member k ((k', v) :: m) = member k m.
Proof. intros H. cbn. rewrite H. reflexivity. Qed.

Definition bann_ok (a : bann) : Prop := target_ok (ba_kind a) (ba_leaves a).

Lemma parse_json_of_bann a : bann_ok a -> parse_bann (json_of_bann a) = Some a.
Proof.
  destruct a as [id ds k ls]. unfold bann_ok. cbn [ba_kind ba_leaves]. intros H.
  unfold json_of_bann, parse_bann. cbn [ba_id ba_data ba_kind ba_leaves].
  destruct id as [i|]; cbn [ojstr app].
  - change (member K_target _) with (Some (json_of_target k ls)).
    change (member K_data _) with (Some (JArr (map json_of_dataref ds))).
    change (mem_str K_id _) with (Some i).
    cbv iota beta. rewrite (parse_json_of_target _ _ H). cbn. rewrite (parse_list_map _ _ parse_json_of_dataref). reflexivity.
  - change (member K_target _) with (Some (json_of_target k ls)).
    change (member K_data _) with (Some (JArr (map json_of_dataref ds))).
    change (mem_str K_id _) with (@None str).
    cbv iota beta. rewrite (parse_json_of_target _ _ H). cbn. rewrite (parse_list_map _ _ parse_json_of_dataref). reflexivity.
Qed.

Lemma parse_json_of_key k : parse_key (json_of_key k) = Some k.
Proof. reflexivity. Qed.

Lemma parse_json_of_bdata d : parse_bdata (json_of_bdata d) = Some d.
Proof.
  destruct d as [[i|] [k|] v]; unfold json_of_bdata, parse_bdata; cbn [bx_id bx_key bx_val ojstr app].
  - change (member K_value _) with (Some (json_of_val v)). cbv iota beta. rewrite parse_json_of_val. reflexivity.
  - change (member K_value _) with (Some (json_of_val v)). cbv iota beta. rewrite parse_json_of_val. reflexivity.
  - change (member K_value _) with (Some (json_of_val v)). cbv iota beta. rewrite parse_json_of_val. reflexivity.
  - change (member K_value _) with (Some (json_of_val v)). cbv iota beta. rewrite parse_json_of_val. reflexivity.
Qed.

(* a dataset document either points to a file or carries keys and data *)
Definition bset_ok (s : bset) : Prop :=
  match bs_include s with Some _ => bs_keys s = [] /\ bs_data s = [] | None => True end.

Lemma parse_json_of_bset s : bset_ok s -> parse_bset (json_of_bset s) = Some s.
Proof.
  destruct s as [id inc ks ds]. unfold bset_ok. cbn [bs_include bs_keys bs_data]. intros H.
  unfold json_of_bset, parse_bset. cbn [bs_id bs_include bs_keys bs_data].
  destruct inc as [f|].
  - destruct H as [-> ->]. destruct id as [i|]; reflexivity.
  - destruct id as [i|]; cbn [ojstr app].
    + change (mem_str K_type _) with (Some T_AnnotationDataSet).
      change (member K_keys _) with (Some (JArr (map json_of_key ks))).
      change (member K_data _) with (Some (JArr (map json_of_bdata ds))).
      cbn. rewrite (parse_list_map _ _ parse_json_of_key), (parse_list_map _ _ parse_json_of_bdata). reflexivity.
    + change (mem_str K_type _) with (Some T_AnnotationDataSet).
      change (member K_keys _) with (Some (JArr (map json_of_key ks))).
      change (member K_data _) with (Some (JArr (map json_of_bdata ds))).
      cbn. rewrite (parse_list_map _ _ parse_json_of_key), (parse_list_map _ _ parse_json_of_bdata). reflexivity.
Qed.

(* a resource document either points to a file or carries the text *)
Definition bres_ok (r : bres) : Prop :=
  match br_include r with Some _ => br_text r = None | None => True end.

Lemma parse_json_of_bres r : bres_ok r -> parse_bres (json_of_bres r) = Some r.
Proof.
  destruct r as [[i|] [t|] [f|]]; unfold bres_ok; cbn; intros H; try discriminate; reflexivity.
Qed.

Lemma parse_list_map_ok {X} (f : json -> option X) (g : X -> json) (ok : X -> Prop) :
  (forall x, ok x -> f (g x) = Some x) -> forall l, Forall ok l -> parse_list f (map g l) = Some l.
Proof.
  intros H l F. induction F as [|x l Hx Hl IH]; cbn; [reflexivity|]. rewrite (H _ Hx), IH. reflexivity.
Qed.

Definition bstore_ok (s : bstore) : Prop :=
  Forall bres_ok (b_ress s) /\ Forall bset_ok (b_sets s) /\ Forall bann_ok (b_anns s).

Lemma parse_list_jstr l : parse_list parse_jstr (map JStr l) = Some l.
Proof. induction l as [|x l IH]; cbn; [reflexivity|]. rewrite IH. reflexivity. Qed.

Theorem parse_json_of_bstore s : bstore_ok s -> parse_bstore (json_of_bstore s) = Some s.
Proof.
  destruct s as [id inc rs ss aa]. unfold bstore_ok. cbn [b_ress b_sets b_anns]. intros (Hr & Hs & Ha).
  unfold json_of_bstore, parse_bstore. cbn [b_id b_include b_ress b_sets b_anns].
  destruct id as [i|]; destruct inc as [|f [|g inc]]; cbn [ojstr app json_of_includes];
    change (mem_str K_type _) with (Some T_AnnotationStore);
    change (member K_resources _) with (Some (JArr (map json_of_bres rs)));
    change (member K_annotationsets _) with (Some (JArr (map json_of_bset ss)));
    change (member K_annotations _) with (Some (JArr (map json_of_bann aa)));
    unfold parse_includes;
    try change (member K_include _) with (@None json);
    try change (member K_include _) with (Some (JStr f));
    try change (member K_include _) with (Some (JArr (map JStr (f :: g :: inc))));
    try change (mem_str K_id _) with (Some i);
    try change (mem_str K_id _) with (@None str);
    cbv iota beta; rewrite ?parse_list_jstr;
    cbn [negb str_eqb]; change (str_eqb T_AnnotationStore T_AnnotationStore) with true; cbn [negb parse_arr];
    rewrite (parse_list_map_ok _ _ _ parse_json_of_bres _ Hr), (parse_list_map_ok _ _ _ parse_json_of_bset _ Hs),
      (parse_list_map_ok _ _ _ parse_json_of_bann _ Ha); reflexivity.
Qed.
