(* find_text_regex as a whole: with the regex crate's matches on the plain slice as oracle input
   (on character boundaries, per expression in order and non-overlapping, groups inside the whole
   match) the model returns exactly regex_spec. *)
From Coq Require Import NArith Permutation.
From Stam Require Import Base.Tac Base.ListAux Model.Offset Model.Utf8 Proofs.Utf8 Model.TextOps Spec.TextOpsSpec
  Proofs.TextOps Proofs.TextOpsMerge.

(** * the oracle's well-formedness *)
Definition sub_group_ok (hay : text) (g0 : nat * nat) (g : rgroup) : Prop :=
  match g with
  | None => True
  | Some g => (exists qs qe, on_boundaries hay g qs qe) /\ fst g0 <= fst g /\ snd g <= snd g0
  end.
Definition match_ok (hay : text) (m : rmatch) : Prop :=
  exists g rest ps pe, m = Some g :: rest /\ on_boundaries hay g ps pe /\ Forall (sub_group_ok hay g) rest.
Definition g0key_b (m : rmatch) : nat := fst (g0 m).
Definition g0key_e (m : rmatch) : nat := snd (g0 m).
Definition oracle_ok (hay : text) (es : list rexpr) : Prop :=
  Forall (fun e => okstream g0key_b g0key_e (snd e) /\ Forall (match_ok hay) (snd e)) es.

(** * Match::begin / Match::end are the bounds of the whole match *)
Lemma mbegin_go_min : forall rest a, (forall g, In (Some g) rest -> a <= fst g) -> mbegin_go (Some a) rest = Some a.
Proof.
  induction rest as [|[[s e]|] rest IH]; intros a H; [reflexivity| |].
  - cbn [mbegin_go]. pose proof (H (s, e) (or_introl eq_refl)). cbn in H0.
    replace (s <? a) with false by lia. apply IH. intros; apply H; right; assumption.
  - cbn [mbegin_go]. apply IH. intros; apply H; right; assumption.
Qed.
Lemma mend_go_max : forall rest a, (forall g, In (Some g) rest -> snd g <= a) -> mend_go (Some a) rest = Some a.
Proof.
  induction rest as [|[[s e]|] rest IH]; intros a H; [reflexivity| |].
  - cbn [mend_go]. pose proof (H (s, e) (or_introl eq_refl)). cbn in H0.
    replace (a <? e) with false by lia. apply IH. intros; apply H; right; assumption.
  - cbn [mend_go]. apply IH. intros; apply H; right; assumption.
Qed.

Lemma match_ok_keys hay m : match_ok hay m -> mbegin m = g0key_b m /\ mend m = g0key_e m.
Proof.
  intros (g & rest & ps & pe & -> & _ & F). rewrite Forall_forall in F. destruct g as [s e].
  unfold mbegin, mend, g0key_b, g0key_e. cbn [mbegin_go mend_go g0 fst snd].
  rewrite mbegin_go_min, mend_go_max; [split; reflexivity| |].
  - intros g Hg. apply (F _ Hg).
  - intros g Hg. apply (F _ Hg).
Qed.

(** * the spec's merge only looks at the keys *)
Section KeyExt.
  Context {X : Type}.
  Variables kb ke kb' ke' : X -> nat.

  Lemma insert_ext x : forall l, kb (snd x) = kb' (snd x) -> (forall y, In y l -> kb (snd y) = kb' (snd y)) ->
    insert_by kb x l = insert_by kb' x l.
  Proof.
    induction l as [|y l IH]; intros Hx H; [reflexivity|]. cbn. rewrite Hx, (H y) by (left; reflexivity).
    destruct (kb' (snd x) <=? kb' (snd y)); [reflexivity|]. f_equal. apply IH; [exact Hx|]. intros; apply H; right; assumption.
  Qed.

  Lemma sort_cons (k : X -> nat) x l : sort_by k (x :: l) = insert_by k x (sort_by k l).
  Proof. reflexivity. Qed.

  Lemma sort_ext : forall l, (forall y, In y l -> kb (snd y) = kb' (snd y)) -> sort_by kb l = sort_by kb' l.
  Proof.
    induction l as [|x l IH]; intros H; [reflexivity|]. rewrite !sort_cons. rewrite IH by (intros; apply H; right; assumption).
    apply insert_ext; [apply H; left; reflexivity|]. intros y Hy. apply H. right.
    apply (Permutation_in _ (sort_perm kb' l)). exact Hy.
  Qed.

  Lemma greedy_ext : forall l c, (forall y, In y l -> kb (snd y) = kb' (snd y) /\ ke (snd y) = ke' (snd y)) ->
    greedy kb ke c l = greedy kb' ke' c l.
  Proof.
    induction l as [|x l IH]; intros c H; [reflexivity|]. cbn. destruct (H x (or_introl eq_refl)) as [-> ->].
    destruct (c <=? kb' (snd x)); [f_equal|]; apply IH; intros; apply H; right; assumption.
  Qed.

  Lemma merge_spec_ext allow (ss : list (list X)) :
    (forall y, In y (tag_from 0 ss) -> kb (snd y) = kb' (snd y) /\ ke (snd y) = ke' (snd y)) ->
    merge_spec kb ke allow ss = merge_spec kb' ke' allow ss.
  Proof.
    intros H. unfold merge_spec. rewrite (sort_ext (tag_from 0 ss)) by (intros; apply H; assumption).
    destruct allow; [reflexivity|]. apply greedy_ext. intros y Hy. apply H.
    apply (Permutation_in _ (sort_perm kb' _)). exact Hy.
  Qed.

  (* and not at the tags *)
  Definition retag (r : nat -> nat) (x : nat * X) : nat * X := (r (fst x), snd x).
  Lemma insert_retag r x : forall l, insert_by kb (retag r x) (map (retag r) l) = map (retag r) (insert_by kb x l).
  Proof.
    induction l as [|y l IH]; [reflexivity|]. cbn. destruct (kb (snd x) <=? kb (snd y)); [reflexivity|].
    cbn. f_equal. exact IH.
  Qed.
  Lemma sort_retag r : forall l, sort_by kb (map (retag r) l) = map (retag r) (sort_by kb l).
  Proof. induction l as [|x l IH]; [reflexivity|]. cbn [map]. rewrite !sort_cons, IH. apply insert_retag. Qed.
  Lemma greedy_retag r : forall l c, greedy kb ke c (map (retag r) l) = map (retag r) (greedy kb ke c l).
  Proof.
    induction l as [|x l IH]; intros c; [reflexivity|]. cbn. destruct (c <=? kb (snd x)); [cbn; f_equal|]; apply IH.
  Qed.

  Lemma greedy_In : forall l c x, In x (greedy kb ke c l) -> In x l.
  Proof.
    induction l as [|y l IH]; intros c x H; [contradiction|]. cbn in H. destruct (c <=? kb (snd y)).
    - destruct H as [<-|H]; [left; reflexivity|right; apply (IH _ _ H)].
    - right. apply (IH _ _ H).
  Qed.

  Lemma merge_spec_In allow (ss : list (list X)) x : In x (merge_spec kb ke allow ss) -> In x (tag_from 0 ss).
  Proof.
    unfold merge_spec. intros H. destruct allow.
    - apply (Permutation_in _ (sort_perm kb _)). exact H.
    - apply greedy_In in H. apply (Permutation_in _ (sort_perm kb _)). exact H.
  Qed.
End KeyExt.
(** * one match to its result *)
Lemma group_sel_ok hay sb g ps pe : on_boundaries hay g ps pe -> group_sel hay sb g = Some (sb + ps, sb + pe).
Proof.
  intros (H1 & H2 & ->). unfold group_sel. cbn [fst snd]. rewrite !char_index_bytepos by lia. reflexivity.
Qed.

Section M2R.
  Variables (t : text) (sb se : nat).
  Hypothesis H1 : sb <= se.
  Hypothesis H2 : se <= length t.
  Let hay := sub t sb se.

  Lemma conv_group_ok g ps pe : on_boundaries hay g ps pe -> conv_group t (bytepos t sb) g = OOk (sb + ps, sb + pe).
  Proof. intros H. apply (regex_offsets t sb se g ps pe H1 H2 H). Qed.

  Lemma conv_caps_spec g0 : forall rest i, Forall (sub_group_ok hay g0) rest ->
    exists l, collect (conv_caps t (bytepos t sb) i rest) = (l, Done)
      /\ map fst l = map fst (caps_from i rest)
      /\ all_some (map (fun c => group_sel hay sb (snd c)) (caps_from i rest)) = Some (map snd l).
  Proof.
    induction rest as [|g rest IH]; intros i F; [exists []; repeat split|].
    inversion F as [|? ? Hg F']; subst. destruct (IH (S i) F') as (l & E1 & E2 & E3).
    destruct g as [g|].
    - destruct Hg as ((qs & qe & Hb) & _). cbn [conv_caps caps_from map collect].
      rewrite (conv_group_ok g qs qe Hb). cbn [collect]. rewrite E1.
      exists ((i, (sb + qs, sb + qe)) :: l). cbn [map fst snd all_some]. rewrite E2, E3, (group_sel_ok hay sb g qs qe Hb).
      repeat split.
    - cbn [conv_caps caps_from]. exists l. repeat split; assumption.
  Qed.

  Lemma m2r_spec caps eidx m : match_ok hay m ->
    exists r, match_to_result t (bytepos t sb) caps eidx m = OOk r /\ result_spec hay sb caps eidx m = Some r.
  Proof.
    intros (g & rest & ps & pe & -> & Hb & F). unfold match_to_result, result_spec. destruct caps.
    - cbn [tl]. destruct (conv_caps_spec g rest 1 F) as (l & E1 & E2 & E3). rewrite E1, E3. cbn [option_map].
      rewrite E2. eauto.
    - cbn [g0]. rewrite (conv_group_ok g ps pe Hb), (group_sel_ok hay sb g ps pe Hb). cbn. eauto.
  Qed.
End M2R.

(** * the pre-selection of expressions *)
Definition streams (sel : list (nat * rexpr)) : list (list rmatch) := map (fun e => snd (snd e)) sel.
Definition dflt_sel : nat * rexpr := (0, (false, [])).

Lemma select_entry : forall es k pre i x, nth_error (select_from k pre es) i = Some x ->
  k <= fst x /\ nth_error es (fst x - k) = Some (snd x).
Proof.
  induction es as [|e es IH]; intros k pre i x H; [destruct i; discriminate|]. cbn [select_from] in H.
  destruct (pre && is_nil (snd e)).
  - destruct (IH _ _ _ _ H) as [A B]. split; [lia|]. replace (fst x - k) with (S (fst x - S k)) by lia. exact B.
  - destruct i as [|i].
    + injection H as <-. cbn. rewrite Nat.sub_diag. split; [lia|reflexivity].
    + cbn in H. destruct (IH _ _ _ _ H) as [A B]. split; [lia|]. replace (fst x - k) with (S (fst x - S k)) by lia. exact B.
Qed.

Lemma select_tags : forall es k pre p,
  map (retag (fun j => fst (nth (j - p) (select_from k pre es) dflt_sel))) (tag_from p (streams (select_from k pre es)))
  = tag_from k (map snd es).
Proof.
  induction es as [|e es IH]; intros k pre p; [reflexivity|]. cbn [select_from map tag_from].
  destruct (pre && is_nil (snd e)) eqn:E.
  - apply andb_true_iff in E. destruct E as [_ E]. destruct (snd e); [|discriminate]. cbn [map app]. apply IH.
  - cbn [streams map tag_from snd]. rewrite map_app, map_map. f_equal.
    + apply map_ext. intros m. unfold retag. cbn [fst snd]. rewrite Nat.sub_diag. reflexivity.
    + rewrite <- (IH (S k) pre (S p)). apply map_ext_in. intros [j m] Hj. apply tag_from_ge in Hj. cbn [fst] in Hj.
      unfold retag. cbn [fst snd]. f_equal. replace (j - p) with (S (j - S p)) by lia. reflexivity.
Qed.

Lemma select_total sel p : total_matches sel = length (tag_from p (streams sel)).
Proof.
  revert p. induction sel as [|e sel IH]; intros p; [reflexivity|]. cbn. rewrite app_length, map_length. f_equal. apply IH.
Qed.

Lemma select_Forall (P : rexpr -> Prop) : forall es k pre, Forall P es -> Forall (fun x => P (snd x)) (select_from k pre es).
Proof.
  induction es as [|e es IH]; intros k pre F; [constructor|]. inversion F; subst. cbn [select_from].
  destruct (pre && is_nil (snd e)); [apply IH; assumption|]. constructor; [assumption|apply IH; assumption].
Qed.

(** * collect / all_some *)
Lemma collect_all_some {A B} (F : A -> out B) (G : A -> option B) : forall l,
  (forall x, In x l -> exists y, F x = OOk y /\ G x = Some y) ->
  exists r, collect (map F l) = (r, Done) /\ all_some (map G l) = Some r.
Proof.
  induction l as [|x l IH]; intros H; [exists []; split; reflexivity|].
  destruct (H x (or_introl eq_refl)) as (y & E1 & E2).
  destruct (IH (fun z Hz => H z (or_intror Hz))) as (r & R1 & R2).
  exists (y :: r). cbn [map collect all_some]. rewrite E1, E2, R1, R2. split; reflexivity.
Qed.

(** * the whole operation *)
Theorem find_text_regex_spec t es allow sb se : sb <= se -> se <= length t ->
  oracle_ok (sub t sb se) es ->
  exists l, regex_spec (sub t sb se) sb es allow = Some l
            /\ find_text_regex t es allow sb se = (l, Done).
Proof.
  intros H1 H2 Hor. unfold find_text_regex, regex_spec. rewrite sel_text_ok by assumption.
  set (hay := sub t sb se) in *. set (pre := 2 <? length es).
  set (sel := select_from 0 pre es).
  assert (Hsel : Forall (fun x => okstream g0key_b g0key_e (snd (snd x)) /\ Forall (match_ok hay) (snd (snd x))) sel)
    by (apply (select_Forall (fun e => okstream g0key_b g0key_e (snd e) /\ Forall (match_ok hay) (snd e))); exact Hor).
  (* every tagged match of the selected streams is well-formed *)
  assert (Hm : forall x, In x (tag_from 0 (streams sel)) ->
               match_ok hay (snd x) /\ exists e, nth_error sel (fst x) = Some e /\ In (snd x) (snd (snd e))).
  { intros x Hx. apply In_tag in Hx. destruct Hx as (_ & s & Hn & Hs). rewrite Nat.sub_0_r in Hn.
    unfold streams in Hn. rewrite nth_error_map in Hn. unfold rexpr in *. destruct (nth_error sel (fst x)) as [e|] eqn:Ee; [|cbn in Hn; discriminate].
    cbn in Hn. injection Hn as <-. rewrite Forall_forall in Hsel. destruct (Hsel e (nth_error_In _ _ Ee)) as [_ Fm].
    rewrite Forall_forall in Fm. split; [apply Fm; exact Hs|eauto]. }
  (* the model's merge is the spec's merge on the selected streams, in the model's keys *)
  assert (Hok : Forall (okstream mbegin mend) (streams sel)).
  { unfold streams. apply Forall_map. rewrite Forall_forall in Hsel |- *. intros e He. destruct (Hsel e He) as [Ok Fm].
    rewrite Forall_forall in Fm. clear -Ok Fm. induction (snd (snd e)) as [|m s IH]; [exact I|].
    destruct Ok as (O1 & O2 & O3). cbn [okstream]. destruct (match_ok_keys hay m (Fm m (or_introl eq_refl))) as [-> ->].
    split; [exact O1|]. split; [|apply IH; [exact O3|intros; apply Fm; right; assumption]].
    intros y Hy. destruct (match_ok_keys hay y (Fm y (or_intror Hy))) as [-> _]. apply O2. exact Hy. }
  fold (streams sel). rewrite (merge_spec_eq mbegin mend) by (try assumption; rewrite (select_total sel 0); lia).
  rewrite (merge_spec_ext mbegin mend g0key_b g0key_e)
    by (intros y Hy; apply (match_ok_keys hay); apply Hm; exact Hy).
  (* the spec's merge on all streams is the retagged one on the selected streams *)
  set (r := fun j => fst (nth (j - 0) sel dflt_sel)).
  assert (Hre : merge_spec g0key_b g0key_e allow (map snd es)
                = map (retag r) (merge_spec g0key_b g0key_e allow (streams sel))).
  { unfold merge_spec. rewrite <- (select_tags es 0 pre 0). fold sel. fold r. rewrite sort_retag.
    destruct allow; [reflexivity|]. apply greedy_retag. }
  change (fun m : smatch => fst (g0 m)) with g0key_b. change (fun m : smatch => snd (g0 m)) with g0key_e.
  unfold smatch, sgroup, rexpr, rmatch, rgroup in *. rewrite Hre, map_map.
  destruct (collect_all_some
              (fun im : nat * rmatch => match nth_error sel (fst im) with
                          | Some (eidx, (caps, _)) => match_to_result t (bytepos t sb) caps eidx (snd im)
                          | None => OPanic
                          end)
              (fun im => result_spec hay sb (fst (nth (fst (retag r im)) es (false, []))) (fst (retag r im)) (snd (retag r im)))
              (merge_spec g0key_b g0key_e allow (streams sel))) as (l & L1 & L2).
  - intros x Hx. apply merge_spec_In in Hx. destruct (Hm x Hx) as (Mok & e & Ee & _). unfold rmatch, rgroup in *.
    rewrite Ee. destruct e as [eidx [caps ms]]. destruct (select_entry es 0 pre _ _ Ee) as [_ Hes]. cbn [fst snd] in Hes.
    rewrite Nat.sub_0_r in Hes. unfold retag, r. cbn [fst snd]. rewrite Nat.sub_0_r.
    rewrite (nth_error_nth sel (fst x) dflt_sel Ee). cbn [fst].
    rewrite (nth_error_nth es eidx (false, []) Hes). cbn [fst].
    apply (m2r_spec t sb se H1 H2). exact Mok.
  - exists l. split; [exact L2|exact L1].
Qed.

(** * what merge_spec means *)
Section MergeMeaning.
  Context {X : Type}.
  Variables kb ke : X -> nat.

  (* with overlaps allowed: all matches, ordered by begin, ties by expression *)
  Theorem merge_spec_allow_meaning (ss : list (list X)) : Forall (incr kb) ss ->
    Permutation (merge_spec kb ke true ss) (tag_from 0 ss)
    /\ StronglySorted (klt kb) (merge_spec kb ke true ss).
  Proof.
    intros H. unfold merge_spec. split; [apply sort_perm|]. apply sort_sorted. apply tag_from_sorted. exact H.
  Qed.

  (* without: a sub-list of that in which every result begins at or after the end of every
     earlier one *)
  Fixpoint separated (c : nat) (l : list (nat * X)) : Prop :=
    match l with
    | [] => True
    | x :: l' => c <= kb (snd x) /\ separated (Nat.max c (ke (snd x))) l'
    end.
  Lemma greedy_separated : forall l c, separated c (greedy kb ke c l).
  Proof.
    induction l as [|x l IH]; intros c; [exact I|]. cbn. destruct (c <=? kb (snd x)) eqn:E; [|apply IH].
    cbn. split; [lia|apply IH].
  Qed.
  (* a dropped match begins before the end of an earlier result *)
  Lemma greedy_dropped : forall l c x, In x l -> ~ In x (greedy kb ke c l) ->
    kb (snd x) < c \/ exists y, In y (greedy kb ke c l) /\ kb (snd x) < ke (snd y).
  Proof.
    induction l as [|a l IH]; intros c x Hx Hn; [contradiction|]. cbn in Hn |- *.
    destruct (c <=? kb (snd a)) eqn:E.
    - destruct Hx as [->|Hx]; [exfalso; apply Hn; left; reflexivity|].
      destruct (IH (Nat.max c (ke (snd a))) x Hx (fun H => Hn (or_intror H))) as [H|(y & Hy & H)].
      + destruct (Nat.lt_ge_cases (kb (snd x)) c); [left; assumption|]. right. exists a. split; [left; reflexivity|lia].
      + right. exists y. split; [right; exact Hy|exact H].
    - destruct Hx as [->|Hx]; [left; lia|]. apply (IH c x Hx Hn).
  Qed.

  Theorem merge_spec_nooverlap_meaning (ss : list (list X)) :
    separated 0 (merge_spec kb ke false ss)
    /\ (forall x, In x (merge_spec kb ke false ss) -> In x (tag_from 0 ss))
    /\ (forall x, In x (tag_from 0 ss) -> ~ In x (merge_spec kb ke false ss) ->
        exists y, In y (merge_spec kb ke false ss) /\ kb (snd x) < ke (snd y)).
  Proof.
    unfold merge_spec. split; [apply greedy_separated|]. split.
    - intros x H. apply greedy_In in H. apply (Permutation_in _ (sort_perm kb _)). exact H.
    - intros x Hx Hn. apply (Permutation_in _ (Permutation_sym (sort_perm kb _))) in Hx.
      destruct (greedy_dropped _ 0 x Hx Hn) as [H|H]; [lia|exact H].
  Qed.
End MergeMeaning.
