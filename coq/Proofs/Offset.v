(* Offsets: accepted exactly when they denote 0 <= begin <= end <= len; reports
   are well-formed and re-resolve to the same range in every mode. *)
From Coq Require Import ZArith.
From Stam Require Import Base.Tac Model.Offset Spec.OffsetSpec.

Ltac unf := unfold spec_accept_rel, findtext_sel_ts in *; unfold resource_ts, selection_ts, beginaligned, spec_accept,
            denotes, report_resource, spec_report, relative_offset, relative_begin, relative_end,
            relative_begin_endaligned, relative_end_endaligned, cursor_wf, mode_of in *.

Ltac crush :=
  repeat match goal with
         | |- context [match ?c with CB _ => _ | CE _ => _ end] => destruct c
         | |- context [if ?c then _ else _] => let E := fresh "E" in destruct c eqn:E
         end;
  cbn [o_begin o_end fst snd] in *; try reflexivity; try (exfalso; lia); try (repeat f_equal; lia).

Lemma resource_accept_iff len o :
  resource_ts len o = match spec_accept len o with Some t => Ok t | None => Err end.
Proof.
  destruct o as [cb ce]. unf. cbn [o_begin o_end]. destruct cb as [nb|zb], ce as [ne|ze]; crush.
Qed.

Lemma selection_accept_iff p o : fst p <= snd p ->
  selection_ts p o = match spec_accept_rel p o with Some t => Ok t | None => Err end.
Proof.
  intros Hp. destruct o as [cb ce]. unf. cbn [o_begin o_end].
  destruct cb as [nb|zb], ce as [ne|ze]; crush.
Qed.

Lemma findtext_sel_accept_iff len p o : fst p <= snd p -> snd p <= len ->
  findtext_sel_ts len p o = match spec_accept_rel p o with Some t => Ok t | None => Err end.
Proof.
  intros Hp Hl. destruct o as [cb ce]. unf. cbn [o_begin o_end].
  destruct cb as [nb|zb], ce as [ne|ze]; crush.
Qed.

(* accepted selections are well-formed and inside what they are relative to *)
Lemma resource_ts_range len o t : resource_ts len o = Ok t -> fst t <= snd t /\ snd t <= len.
Proof.
  destruct o as [cb ce]. unf. cbn [o_begin o_end]. destruct cb, ce; crush;
    intros H; inversion H; subst; cbn [fst snd]; lia.
Qed.

Lemma selection_ts_range p o t : fst p <= snd p -> selection_ts p o = Ok t ->
  fst p <= fst t /\ fst t <= snd t /\ snd t <= snd p.
Proof.
  intros Hp. destruct o as [cb ce]. unf. cbn [o_begin o_end]. destruct cb, ce; crush;
    intros H; inversion H; subst; cbn [fst snd]; lia.
Qed.

(* any nesting depth: every accepted level lies inside its parent, hence inside the text *)
Lemma chain_inside os : forall p len, fst p <= snd p -> snd p <= len ->
  Forall (fun r => match r with Ok t => fst t <= snd t /\ snd t <= len | Err => True end)
         (resolve_chain p os).
Proof.
  induction os as [|o os IH]; intros p len Hp Hl; cbn [resolve_chain]; [constructor|].
  destruct (selection_ts p o) as [t|] eqn:E; [|repeat constructor].
  apply selection_ts_range in E; [|exact Hp]. constructor; [lia|]. apply IH; lia.
Qed.

(* reporting on a resource *)
Lemma report_resource_spec len b e m : b <= e -> e <= len ->
  report_resource len (b, e) m = spec_report len b e m
  /\ cursor_wf (o_begin (spec_report len b e m)) = true
  /\ cursor_wf (o_end (spec_report len b e m)) = true
  /\ mode_of (spec_report len b e m) = m
  /\ resource_ts len (spec_report len b e m) = Ok (b, e).
Proof.
  intros H1 H2. unf. destruct m; cbn [o_begin o_end]; repeat split; crush.
Qed.

(* reporting relative to a parent selection *)
Lemma relative_offset_spec pb pe b e m : pb <= b -> b <= e -> e <= pe ->
  let off := spec_report (pe - pb) (b - pb) (e - pb) m in
  relative_offset (b, e) (pb, pe) m = Some off
  /\ cursor_wf (o_begin off) = true /\ cursor_wf (o_end off) = true
  /\ mode_of off = m
  /\ selection_ts (pb, pe) off = Ok (b, e).
Proof.
  intros H1 H2 H3. cbv zeta. unf. cbn [fst snd].
  destruct m; cbn [o_begin o_end]; repeat split; crush.
Qed.
