(* C05, part 5: the stores of the property.  The document view of every store reachable by the
   operations of the store model (Model/Store.v: add_resource, add_dataset, insert_data, annotate
   with all selector kinds, the five removals) is well-formed in the sense of the round-trip theorem.
   The invariants of histories are those proved for C01 / C02 / C03 / C10 (Proofs/StoreData.v,
   StoreIds.v, StoreSets.v), C04 (StoreRange.v), C18 (ValidateNest.v) and C15 (CsvReach.v). *)
From Coq Require Import String Ascii.
From Coq Require Import List NArith ZArith Bool Arith Lia.
From Stam Require Import Base.Tac Model.Offset Model.Store Model.Compress Model.Json Model.TempId Proofs.TempId
     Spec.CsvSpec
     Proofs.StoreRemove Proofs.StoreDataDef Proofs.StoreIds Proofs.StoreSets Proofs.StoreSel Proofs.StoreRange
     Proofs.ValidateProtect Proofs.ValidateNest Proofs.CsvReach
     Model.StamJson Model.StamJsonView Spec.StamJsonSpec Proofs.StamJson Proofs.StamJsonLoad Proofs.StamJsonWhole.
Import ListNotations.

(** * identifiers *)
Lemma digits_inj a b : digits a = digits b -> a = b.
Proof.
  intros H. pose proof (parse_digits_digits a) as Ha. rewrite H, parse_digits_digits in Ha. injection Ha as ->. reflexivity.
Qed.

Lemma id_str_inj k a b : id_str k a = id_str k b -> a = b.
Proof. unfold id_str. intros H. injection H as H. apply digits_inj in H. apply Nnat.Nat2N.inj. exact H. Qed.

Lemma id_str_unreserved k t : reserved (id_str k t) = false.
Proof. destruct k; reflexivity. Qed.

Lemma set_id_str_unreserved t : reserved (set_id_str t) = false.
Proof. unfold set_id_str. destruct (Nat.eqb t DEFAULT_SET_TOKEN); reflexivity. Qed.

Lemma set_id_str_inj a b : set_id_str a = set_id_str b -> a = b.
Proof.
  unfold set_id_str. destruct (Nat.eqb a DEFAULT_SET_TOKEN) eqn:Ea, (Nat.eqb b DEFAULT_SET_TOKEN) eqn:Eb.
  - intros _. apply Nat.eqb_eq in Ea, Eb. congruence.
  - intros H. discriminate.
  - intros H. discriminate.
  - apply id_str_inj.
Qed.

Lemma some_inj {A} (a b : A) : Some a = Some b -> a = b.
Proof. congruence. Qed.

(** * slots of the view *)
Lemma st_slot_eq {X} (l : list (option X)) h : StamJson.slot l h = Store.slot l h.
Proof. reflexivity. Qed.

Lemma slot_map_opt {X Y} (g : X -> Y) (l : list (option X)) h :
  StamJson.slot (map (option_map g) l) h = option_map g (Store.slot l h).
Proof.
  unfold StamJson.slot, Store.slot. revert h. induction l as [|x l IH]; intros [|h]; cbn; try reflexivity. apply IH.
Qed.

Lemma slot_map_indexed {X Y} (F : nat -> X -> Y) (l : list (option X)) : forall k h,
  StamJson.slot (map (fun p => match snd p with Some x => Some (F (fst p) x) | None => None end)
                     (combine (seq k (length l)) l)) h
  = option_map (F (k + h)) (Store.slot l h).
Proof.
  unfold StamJson.slot, Store.slot. induction l as [|x l IH]; intros k [|h]; cbn [length seq combine map nth]; try reflexivity.
  - rewrite Nat.add_0_r. destruct x; reflexivity.
  - rewrite IH. f_equal. f_equal. lia.
Qed.

Definition view_res (rm h : nat) (rs : res) : dres :=
  mkdres (id_str KRes (r_id rs)) (text_of_len (r_len rs)) (res_file_rule rm h (id_str KRes (r_id rs)) (r_len rs)).
Definition view_data (it : adata) : ddata :=
  mkddata (option_map (id_str KData) (x_id it)) (x_key it) (jval_of_value (x_val it)).
Definition view_set (sm h : nat) (ds : Store.dset) : StamJson.dset :=
  mkdset (set_id_str (d_id ds)) (map (option_map (id_str KKey)) (d_keys ds))
         (map (option_map view_data) (d_data ds)) (set_file_rule sm h (set_id_str (d_id ds)) (dset_is_empty ds)).
Definition view_ann (s : store) (a : ann) : dann :=
  mkdann (option_map (id_str KAnn) (a_id a)) (a_data a) (a_kind a) (map (view_leaf s) (a_leaves a)).

Lemma slot_view_res s rm sm h : StamJson.slot (st_ress (view s rm sm)) h = option_map (view_res rm h) (get_res s h).
Proof. exact (slot_map_indexed (view_res rm) (ress s) 0 h). Qed.
Lemma slot_view_set s rm sm h : StamJson.slot (st_sets (view s rm sm)) h = option_map (view_set sm h) (get_set s h).
Proof. exact (slot_map_indexed (view_set sm) (sets s) 0 h). Qed.
Lemma slot_view_ann s rm sm h : StamJson.slot (st_anns (view s rm sm)) h = option_map (view_ann s) (get_ann s h).
Proof. exact (slot_map_opt (view_ann s) (anns s) h). Qed.

Lemma text_of_len_length n : length (text_of_len n) = n.
Proof. unfold text_of_len. rewrite map_length, seq_length. reflexivity. Qed.

(** * from the exact id maps to unique identifiers *)
Lemma exact_unique {X} (idof : X -> option nat) l m : exact idof l m ->
  forall h h' x y tok, Store.slot l h = Some x -> Store.slot l h' = Some y -> idof x = Some tok -> idof y = Some tok -> h = h'.
Proof.
  intros E h h' x y tok Hx Hy Ix Iy.
  assert (A : id_get m tok = Some h) by (apply E; eauto).
  assert (B : id_get m tok = Some h') by (apply E; eauto).
  congruence.
Qed.

(* the reverse of ids_ok_IdsOk *)
Lemma NoDup_str_nodup l : NoDup l -> str_nodup l = true.
Proof.
  induction 1 as [|x l Hx HN IH]; cbn; [reflexivity|]. rewrite IH, andb_true_r. apply negb_true_iff.
  destruct (str_in x l) eqn:E; [|reflexivity]. apply str_in_In in E. contradiction.
Qed.

Lemma IdsOk_ids_ok {X} (pid : X -> option str) (l : list (option X)) : IdsOk pid l -> ids_ok (pids pid l) = true.
Proof.
  intros H. unfold ids_ok. apply andb_true_intro. split.
  - apply NoDup_str_nodup. apply IdsOk_NoDup_pids. exact H.
  - apply forallb_forall. intros i Hi. apply pids_In in Hi. destruct Hi as (h & x & Hx & Hp).
    destruct H as [HR _]. rewrite (HR _ _ _ Hx Hp). reflexivity.
Qed.

Section View.
  Variable s : store.
  Variables rm sm : nat.
  Hypothesis HW : W s.
  Let v := view s rm sm.

  Lemma view_ress_ids : IdsOk res_pid (st_ress v).
  Proof.
    destruct (W_ids _ HW) as [_ Er _]. split.
    - intros h x i Hx Hp. unfold v in Hx. rewrite slot_view_res in Hx. destruct (get_res s h) as [rs|]; [|discriminate].
      injection Hx as <-. injection Hp as <-. apply id_str_unreserved.
    - intros h h' x y i Hx Hy Px Py. unfold v in Hx, Hy. rewrite slot_view_res in Hx, Hy.
      destruct (get_res s h) as [rs|] eqn:E1; [|discriminate]. destruct (get_res s h') as [rs'|] eqn:E2; [|discriminate].
      injection Hx as <-. injection Hy as <-. injection Px as <-. apply some_inj in Py. apply id_str_inj in Py.
      eapply (exact_unique rid _ _ Er); [exact E1|exact E2|reflexivity|unfold rid; rewrite Py; reflexivity].
  Qed.

  Lemma view_sets_ids : IdsOk set_pid (st_sets v).
  Proof.
    destruct (W_ids _ HW) as [_ _ Es]. split.
    - intros h x i Hx Hp. unfold v in Hx. rewrite slot_view_set in Hx. destruct (get_set s h) as [ds|]; [|discriminate].
      injection Hx as <-. injection Hp as <-. apply set_id_str_unreserved.
    - intros h h' x y i Hx Hy Px Py. unfold v in Hx, Hy. rewrite slot_view_set in Hx, Hy.
      destruct (get_set s h) as [ds|] eqn:E1; [|discriminate]. destruct (get_set s h') as [ds'|] eqn:E2; [|discriminate].
      injection Hx as <-. injection Hy as <-. injection Px as <-. apply some_inj in Py. apply set_id_str_inj in Py.
      eapply (exact_unique did _ _ Es); [exact E1|exact E2|reflexivity|unfold did; rewrite Py; reflexivity].
  Qed.

  Lemma view_anns_ids : IdsOk ja_id (st_anns v).
  Proof.
    destruct (W_ids _ HW) as [Ea _ _]. split.
    - intros h x i Hx Hp. unfold v in Hx. rewrite slot_view_ann in Hx. destruct (get_ann s h) as [a|]; [|discriminate].
      injection Hx as <-. cbn [view_ann ja_id] in Hp. destruct (a_id a); [|discriminate]. injection Hp as <-. apply id_str_unreserved.
    - intros h h' x y i Hx Hy Px Py. unfold v in Hx, Hy. rewrite slot_view_ann in Hx, Hy.
      destruct (get_ann s h) as [a|] eqn:E1; [|discriminate]. destruct (get_ann s h') as [a'|] eqn:E2; [|discriminate].
      injection Hx as <-. injection Hy as <-. cbn [view_ann ja_id] in Px, Py.
      destruct (a_id a) as [t|] eqn:Ia; [|discriminate]. destruct (a_id a') as [t'|] eqn:Ia'; [|discriminate].
      injection Px as <-. apply some_inj in Py. apply id_str_inj in Py. subst t'.
      eapply (exact_unique a_id _ _ Ea); [exact E1|exact E2|exact Ia|exact Ia'].
  Qed.
End View.

(** * datasets *)
Lemma wf_set_intro (ds : StamJson.dset) :
  IdsOk key_pid (js_keys ds) -> IdsOk jx_id (js_data ds) ->
  (forall x it, StamJson.slot (js_data ds) x = Some it -> is_live (js_keys ds) (jx_key it) = true) ->
  fits (length (js_keys ds)) LIMIT16 = true -> fits (length (js_data ds)) LIMIT32 = true ->
  wf_set ds = true.
Proof.
  intros Hk Hx Hl F1 F2. unfold wf_set. rewrite F1, F2, !andb_true_r.
  apply andb_true_intro. split; [apply andb_true_intro; split|].
  - assert (E : flat_map opt_list (js_keys ds) = pids key_pid (js_keys ds)).
    { unfold pids. apply flat_map_ext. intros [k|]; reflexivity. }
    rewrite E. apply IdsOk_ids_ok. exact Hk.
  - apply (IdsOk_ids_ok jx_id). exact Hx.
  - apply forallb_forall. intros [it|] Hin; [|reflexivity].
    apply In_nth with (d := None) in Hin. destruct Hin as (x & _ & Hn). eapply Hl. exact Hn.
Qed.

Lemma view_set_wf sm h (ds : Store.dset) : DsInv ds ->
  fits (length (d_keys ds)) LIMIT16 = true -> fits (length (d_data ds)) LIMIT32 = true ->
  wf_set (view_set sm h ds) = true.
Proof.
  intros [_ Dk Dkidx Dxidx _] F1 F2. apply wf_set_intro; cbn [view_set js_keys js_data].
  - split.
    + intros k x i Hx Hp. rewrite slot_map_opt in Hx. destruct (Store.slot (d_keys ds) k); [|discriminate].
      injection Hx as <-. injection Hp as <-. apply id_str_unreserved.
    + intros k k' x y i Hx Hy Px Py. rewrite slot_map_opt in Hx, Hy.
      destruct (Store.slot (d_keys ds) k) as [t|] eqn:E1; [|discriminate].
      destruct (Store.slot (d_keys ds) k') as [t'|] eqn:E2; [|discriminate].
      injection Hx as <-. injection Hy as <-. injection Px as <-. apply some_inj in Py. apply id_str_inj in Py. subst t'.
      apply Dkidx in E1. apply Dkidx in E2. congruence.
  - split.
    + intros x it i Hx Hp. rewrite slot_map_opt in Hx. destruct (Store.slot (d_data ds) x) as [a|]; [|discriminate].
      injection Hx as <-. cbn [view_data jx_id] in Hp. destruct (x_id a); [|discriminate]. injection Hp as <-. apply id_str_unreserved.
    + intros x x' it it' i Hx Hy Px Py. rewrite slot_map_opt in Hx, Hy.
      destruct (Store.slot (d_data ds) x) as [a|] eqn:E1; [|discriminate].
      destruct (Store.slot (d_data ds) x') as [a'|] eqn:E2; [|discriminate].
      injection Hx as <-. injection Hy as <-. cbn [view_data jx_id] in Px, Py.
      destruct (x_id a) as [t|] eqn:Ia; [|discriminate]. destruct (x_id a') as [t'|] eqn:Ia'; [|discriminate].
      injection Px as <-. apply some_inj in Py. apply id_str_inj in Py. subst t'.
      assert (A : id_get (d_xidx ds) t = Some x) by (apply Dxidx; eauto).
      assert (B : id_get (d_xidx ds) t = Some x') by (apply Dxidx; eauto). congruence.
  - intros x it Hx. rewrite slot_map_opt in Hx. destruct (Store.slot (d_data ds) x) as [a|] eqn:E1; [|discriminate].
    injection Hx as <-. cbn [view_data jx_key]. specialize (Dk _ _ E1). unfold StoreSets.key_live in Dk.
    unfold is_live. rewrite slot_map_opt. destruct (Store.slot (d_keys ds) (x_key a)); [reflexivity|contradiction].
  - rewrite map_length. exact F1.
  - rewrite map_length. exact F2.
Qed.

(** * annotations *)
Section ViewAnn.
  Variable s : store.
  Variables rm sm : nat.
  Hypothesis HW : W s.
  Hypothesis HR : RangeInv s.
  Hypothesis HN : NestInv s.
  Hypothesis HS : ShapeInv s.
  Let v := view s rm sm.

  Lemma view_is_live_res r : get_res s r <> None -> is_live (st_ress v) r = true.
  Proof. intros H. unfold is_live, v. rewrite slot_view_res. destruct (get_res s r); [reflexivity|contradiction]. Qed.
  Lemma view_is_live_set d : get_set s d <> None -> is_live (st_sets v) d = true.
  Proof. intros H. unfold is_live, v. rewrite slot_view_set. destruct (get_set s d); [reflexivity|contradiction]. Qed.
  Lemma view_is_live_ann a : get_ann s a <> None -> is_live (st_anns v) a = true.
  Proof. intros H. unfold is_live, v. rewrite slot_view_ann. destruct (get_ann s a); [reflexivity|contradiction]. Qed.

  Lemma sel_range_nth r t rs rg : get_res s r = Some rs -> nth_error (r_sels rs) t = Some rg -> sel_range s r t = rg.
  Proof. intros Hr Hn. unfold sel_range. rewrite Hr. apply nth_error_nth. exact Hn. Qed.

  (* the single text selection of an annotation, in the view *)
  Lemma view_ann_range p pa r pt prg :
    get_ann s p = Some pa -> ann_textsel s pa = Some (r, pt, prg) ->
    ann_range v p = Some (r, fst prg, snd prg).
  Proof.
    intros Hp Ht. unfold ann_range, v. rewrite slot_view_ann, Hp. cbn [option_map view_ann ja_kind ja_leaves].
    unfold ann_textsel in Ht. destruct (a_kind pa); [|discriminate].
    destruct (a_leaves pa) as [|lf [|lf2 l]]; try discriminate; destruct lf; try discriminate.
    - destruct (get_res s r0) as [rs|] eqn:Er; [|discriminate].
      destruct (nth_error (r_sels rs) t) as [rg|] eqn:En; [|discriminate]. injection Ht as <- <- <-.
      cbn [map view_leaf]. rewrite (sel_range_nth _ _ _ _ Er En). destruct rg. reflexivity.
    - destruct (get_res s r0) as [rs|] eqn:Er; [|discriminate].
      destruct (nth_error (r_sels rs) t) as [rg|] eqn:En; [|discriminate]. injection Ht as <- <- <-.
      cbn [map view_leaf]. rewrite (sel_range_nth _ _ _ _ Er En). destruct rg. reflexivity.
  Qed.

  Lemma view_leaf_wf h a lf : get_ann s h = Some a -> In lf (a_leaves a) -> wf_leaf v h (view_leaf s lf) = true.
  Proof.
    intros Ha Hin.
    pose proof (W_items _ HW h a Ha lf Hin) as Hitem.
    pose proof (W_refs _ HW h a Ha lf Hin) as Href.
    pose proof (W_wf _ HW h a Ha) as Hlt. rewrite Forall_forall in Hlt. specialize (Hlt lf Hin).
    pose proof (HN h a Ha) as Hnest. rewrite Forall_forall in Hnest. specialize (Hnest lf Hin).
    destruct lf as [r t m|a0|a0 r t m|r|d|d k|d x]; cbn [item_ref_ok leaf_lt nest_leaf] in *.
    - destruct Hitem as (rs & Hr & Hl). cbn [view_leaf].
      destruct (nth_error (r_sels rs) t) as [rg|] eqn:En; [|apply nth_error_None in En; lia].
      rewrite (sel_range_nth _ _ _ _ Hr En). destruct rg as [b e]. cbn [wf_leaf]. unfold v. rewrite slot_view_res, Hr.
      cbn [option_map view_res jr_text]. rewrite text_of_len_length.
      destruct (HR r rs Hr (b, e) (nth_error_In _ _ En)) as [H1 H2]. cbn [fst snd] in *.
      apply andb_true_intro. split; apply Nat.leb_le; assumption.
    - cbn [view_leaf wf_leaf]. apply andb_true_intro. split; [apply Nat.ltb_lt; exact Hlt|apply view_is_live_ann; exact Href].
    - destruct Hitem as (rs & Hr & Hl).
      destruct Hnest as (pa & pt & prg & rg & Hp & Hts & Hrg & C1 & C2 & C3).
      cbn [view_leaf]. unfold range_of in Hrg. rewrite Hr in Hrg. rewrite (sel_range_nth _ _ _ _ Hr Hrg).
      destruct rg as [b e]. cbn [wf_leaf]. rewrite (view_ann_range _ _ _ _ _ Hp Hts). cbn [fst snd] in *.
      rewrite Nat.eqb_refl. cbn [andb].
      assert (L : is_live (st_ress v) r = true) by (apply view_is_live_res; rewrite Hr; discriminate).
      rewrite L. apply Nat.ltb_lt in Hlt. rewrite Hlt. cbn [andb].
      apply andb_true_intro. split; [apply andb_true_intro; split|]; apply Nat.leb_le; assumption.
    - cbn [view_leaf wf_leaf]. apply view_is_live_res. exact Hitem.
    - cbn [view_leaf wf_leaf]. apply view_is_live_set. exact Hitem.
    - destruct Hitem as (ds & Hd & Hk). cbn [view_leaf wf_leaf]. unfold Spec.StamJsonSpec.key_live, v.
      rewrite slot_view_set, Hd. cbn [option_map view_set js_keys]. unfold is_live. rewrite slot_map_opt.
      destruct (Store.slot (d_keys ds) k); [reflexivity|contradiction].
    - destruct Hitem as (ds & Hd & Hx). cbn [view_leaf wf_leaf]. unfold data_live, v.
      rewrite slot_view_set, Hd. cbn [option_map view_set js_data]. unfold is_live. rewrite slot_map_opt.
      destruct (Store.slot (d_data ds) x); [reflexivity|contradiction].
  Qed.

  Lemma view_ann_wf h a : get_ann s h = Some a -> wf_ann v h (view_ann s a) = true.
  Proof.
    intros Ha. unfold wf_ann. cbn [view_ann ja_data ja_leaves ja_kind].
    apply andb_true_intro. split; [apply andb_true_intro; split|].
    - apply forallb_forall. intros [d x] Hin. cbn [fst snd].
      destruct (W_data _ HW h a Ha (d, x) Hin) as (ds & it & Hd & Hx). cbn [fst snd] in *.
      unfold data_live, v. rewrite slot_view_set, Hd. cbn [option_map view_set js_data]. unfold is_live.
      rewrite slot_map_opt, Hx. reflexivity.
    - apply forallb_forall. intros lf' Hin. apply in_map_iff in Hin. destruct Hin as (lf & <- & Hin).
      eapply view_leaf_wf; eauto.
    - pose proof (HS h a Ha) as Hsh. unfold shape_b in Hsh. apply andb_prop in Hsh. destruct Hsh as [K1 K2].
      apply Nat.leb_le in K1. destruct (a_kind a) as [|[|[|[|k]]]]; try reflexivity; try lia.
      cbn in K2. apply Nat.eqb_eq in K2. destruct (a_leaves a) as [|lf [|lf2 l]]; try discriminate. reflexivity.
  Qed.
End ViewAnn.

(** * the whole view *)
Definition sizes_fit (s : store) : Prop :=
  fits (length (anns s)) LIMIT32 = true /\ fits (length (ress s)) LIMIT32 = true /\ fits (length (sets s)) LIMIT16 = true
  /\ forall d ds, get_set s d = Some ds ->
       fits (length (d_keys ds)) LIMIT16 = true /\ fits (length (d_data ds)) LIMIT32 = true.

Lemma view_lengths s rm sm :
  length (st_anns (view s rm sm)) = length (anns s) /\ length (st_ress (view s rm sm)) = length (ress s)
  /\ length (st_sets (view s rm sm)) = length (sets s).
Proof.
  unfold view. cbn [st_anns st_ress st_sets]. rewrite !map_length, !combine_length, !seq_length, !Nat.min_id. repeat split.
Qed.

Theorem view_wf s rm sm :
  W s -> RangeInv s -> NestInv s -> ShapeInv s -> sizes_fit s ->
  str_nodup (file_names (view s rm sm)) = true ->
  wf_dstore (view s rm sm) = true.
Proof.
  intros HW HR HN HS (Fa & Fr & Fs & Fd) Hfiles.
  destruct (view_lengths s rm sm) as (La & Lr & Ls).
  unfold wf_dstore. rewrite Hfiles, La, Lr, Ls, Fa, Fr, Fs, !andb_true_r.
  apply andb_true_intro. split; [apply andb_true_intro; split; [apply andb_true_intro; split; [apply andb_true_intro; split|]|]|].
  - rewrite <- res_pids_live. apply IdsOk_ids_ok. apply view_ress_ids. exact HW.
  - rewrite <- set_pids_live. apply IdsOk_ids_ok. apply view_sets_ids. exact HW.
  - unfold live. rewrite <- (pids_live ja_id (st_anns (view s rm sm)) 0). apply IdsOk_ids_ok. apply view_anns_ids. exact HW.
  - apply forallb_forall. intros [h ds'] Hin. apply live_In in Hin. rewrite slot_view_set in Hin.
    destruct (get_set s h) as [ds|] eqn:Ed; [|discriminate]. injection Hin as <-. cbn [snd].
    destruct (Fd _ _ Ed) as [F1 F2]. apply view_set_wf; [apply (W_sets _ HW h ds Ed)|exact F1|exact F2].
  - apply forallb_forall. intros [h a'] Hin. apply live_In in Hin. rewrite slot_view_ann in Hin.
    destruct (get_ann s h) as [a|] eqn:Ea; [|discriminate]. injection Hin as <-. cbn [fst snd].
    apply view_ann_wf; assumption.
Qed.

(* inline stores: no stand-off files at all *)
Lemma pids_all_none {X} (pid : X -> option str) (l : list (option X)) :
  (forall h x, StamJson.slot l h = Some x -> pid x = None) -> pids pid l = [].
Proof.
  intros H. destruct (pids pid l) as [|i r] eqn:E; [reflexivity|].
  assert (Hin : In i (pids pid l)) by (rewrite E; left; reflexivity).
  apply pids_In in Hin. destruct Hin as (h & x & Hx & Hp). rewrite (H _ _ Hx) in Hp. discriminate.
Qed.

Lemma view_inline_files s : file_names (view s 0 0) = [].
Proof.
  unfold file_names.
  change (flat_map (fun o => match o with Some r => opt_list (jr_file r) | None => [] end) (st_ress (view s 0 0)))
    with (pids jr_file (st_ress (view s 0 0))).
  change (flat_map (fun o => match o with Some d => opt_list (js_file d) | None => [] end) (st_sets (view s 0 0)))
    with (pids js_file (st_sets (view s 0 0))).
  rewrite (pids_all_none jr_file), (pids_all_none js_file); [reflexivity| |].
  - intros h x Hx. rewrite slot_view_set in Hx. destruct (get_set s h); [|discriminate]. injection Hx as <-.
    cbn [view_set js_file]. unfold set_file_rule. destruct (dset_is_empty _); reflexivity.
  - intros h x Hx. rewrite slot_view_res in Hx. destruct (get_res s h); [|discriminate]. injection Hx as <-.
    cbn [view_res jr_file]. unfold res_file_rule. destruct (Nat.eqb _ 0); reflexivity.
Qed.

(* every history of the store model *)
Theorem reachable_wf ops rm sm :
  Forall op_ok ops -> Forall kind_ok ops -> sizes_fit (run ops) ->
  str_nodup (file_names (view (run ops) rm sm)) = true ->
  wf_dstore (view (run ops) rm sm) = true.
Proof.
  intros Hok Hk Hfit Hfiles. destruct (reachable_W2 ops Hok) as [HW _ HR HN].
  apply view_wf; try assumption. apply reachable_ShapeInv. exact Hk.
Qed.

Theorem reachable_roundtrip ops :
  Forall op_ok ops -> Forall kind_ok ops -> sizes_fit (run ops) -> roundtrip_ok (view (run ops) 0 0).
Proof.
  intros Hok Hk Hfit. apply roundtrip. apply reachable_wf; try assumption. rewrite view_inline_files. reflexivity.
Qed.

Theorem reachable_roundtrip_standoff ops rm sm :
  Forall op_ok ops -> Forall kind_ok ops -> sizes_fit (run ops) ->
  str_nodup (file_names (view (run ops) rm sm)) = true -> roundtrip_ok (view (run ops) rm sm).
Proof. intros Hok Hk Hfit Hf. apply roundtrip. apply reachable_wf; assumption. Qed.
