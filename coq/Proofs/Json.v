(* JSON: the recogniser reads back what the printer writes.
   - unescape_escape: string escaping is invertible for EVERY string
   - lexing lemmas in compositional form (LXs / LX) so that a concrete serialiser that
     interleaves its own whitespace can be verified piece by piece
   - parse_tokens_of, parse_render *)
From Coq Require Import NArith ZArith Lia.
From Stam Require Import Base.Tac Model.Json.
Local Open Scope N_scope.

(* ---------- induction principle for the nested type ---------- *)

Section JsonInd.
  Variable P : json -> Prop.
  Hypothesis Hnull : P JNull.
  Hypothesis Hbool : forall b, P (JBool b).
  Hypothesis Hnum : forall l, P (JNum l).
  Hypothesis Hstr : forall s, P (JStr s).
  Hypothesis Harr : forall l, Forall P l -> P (JArr l).
  Hypothesis Hobj : forall m, Forall (fun kv => P (snd kv)) m -> P (JObj m).

  Fixpoint json_ind' (j : json) : P j :=
    match j with
    | JNull => Hnull
    | JBool b => Hbool b
    | JNum l => Hnum l
    | JStr s => Hstr s
    | JArr l =>
        Harr l ((fix go (l : list json) : Forall P l :=
                   match l with
                   | [] => Forall_nil _
                   | v :: l' => Forall_cons v (json_ind' v) (go l')
                   end) l)
    | JObj m =>
        Hobj m ((fix go (m : list (str * json)) : Forall (fun kv => P (snd kv)) m :=
                   match m with
                   | [] => Forall_nil _
                   | kv :: m' => Forall_cons kv (json_ind' (snd kv)) (go m')
                   end) m)
    end.
End JsonInd.

(* ---------- strings ---------- *)

Lemma small_cases (c : N) : c < 32 -> In c (map N.of_nat (seq 0 32)).
Proof.
  intros H. replace c with (N.of_nat (N.to_nat c)) by apply N2Nat.id.
  apply in_map. apply in_seq. lia.
Qed.

Lemma unescape_escape_char c rest :
  unescape (escape_char c ++ rest) = ocons c (unescape rest).
Proof.
  unfold escape_char.
  destruct (c =? 34) eqn:E1; [apply N.eqb_eq in E1; subst; reflexivity|].
  destruct (c =? 92) eqn:E2; [apply N.eqb_eq in E2; subst; reflexivity|].
  destruct (c =? 8) eqn:E3; [apply N.eqb_eq in E3; subst; reflexivity|].
  destruct (c =? 9) eqn:E4; [apply N.eqb_eq in E4; subst; reflexivity|].
  destruct (c =? 10) eqn:E5; [apply N.eqb_eq in E5; subst; reflexivity|].
  destruct (c =? 12) eqn:E6; [apply N.eqb_eq in E6; subst; reflexivity|].
  destruct (c =? 13) eqn:E7; [apply N.eqb_eq in E7; subst; reflexivity|].
  destruct (c <? 32) eqn:E8.
  - apply N.ltb_lt in E8. apply small_cases in E8. cbn in E8.
    repeat (destruct E8 as [<-|E8]; [first [discriminate | reflexivity]|]). contradiction.
  - cbn [app unescape]. rewrite E2, E8, E1. reflexivity.
Qed.

(* escaping is invertible on every string: quotes, backslashes, control characters, anything *)
Theorem unescape_escape : forall s, unescape (escape s) = Some s.
Proof.
  induction s as [|c s IH]; [reflexivity|].
  unfold escape in *. cbn [flat_map]. rewrite unescape_escape_char, IH. reflexivity.
Qed.

(* ---------- lexer ---------- *)

Definition delim_start (rest : str) : Prop :=
  match rest with [] => True | c :: _ => is_numchar c = false end.

Definition dhead (Y : str) : Prop :=
  match Y with [] => False | c :: _ => is_numchar c = false end.

Definition oapp (ts : list token) (o : option (list token)) : option (list token) :=
  match o with Some l => Some (ts ++ l) | None => None end.

(* X lexes to ts whatever follows *)
Definition LXs (X : str) (ts : list token) : Prop :=
  forall rest, lex LStart (X ++ rest) = oapp ts (lex LStart rest).
(* X lexes to ts provided a number at its end is delimited by what follows *)
Definition LX (X : str) (ts : list token) : Prop :=
  forall rest, delim_start rest -> lex LStart (X ++ rest) = oapp ts (lex LStart rest).

Lemma oapp_oapp a b o : oapp a (oapp b o) = oapp (a ++ b) o.
Proof. destruct o; cbn; [rewrite app_assoc|]; reflexivity. Qed.

Lemma emit_oapp t o : emit t o = oapp [t] o.
Proof. destruct o; reflexivity. Qed.

Lemma LXs_LX X ts : LXs X ts -> LX X ts.
Proof. intros H rest _. apply H. Qed.

Lemma LXs_nil : LXs [] [].
Proof. intros rest. cbn. destruct (lex LStart rest); reflexivity. Qed.

Lemma LXs_app X Y a b : LXs X a -> LXs Y b -> LXs (X ++ Y) (a ++ b).
Proof. intros HX HY rest. rewrite <- app_assoc, HX, HY. apply oapp_oapp. Qed.

Lemma LXs_LX_app X Y a b : LXs X a -> LX Y b -> LX (X ++ Y) (a ++ b).
Proof. intros HX HY rest Hr. rewrite <- app_assoc, HX, HY by exact Hr. apply oapp_oapp. Qed.

Lemma dhead_delim Y rest : dhead Y -> delim_start (Y ++ rest).
Proof. destruct Y; cbn; [contradiction|trivial]. Qed.

Lemma LX_LXs_app X Y a b : LX X a -> dhead Y -> LXs Y b -> LXs (X ++ Y) (a ++ b).
Proof.
  intros HX HD HY rest. rewrite <- app_assoc, HX by (apply dhead_delim; exact HD).
  rewrite HY. apply oapp_oapp.
Qed.

Lemma LX_LX_app X Y a b : LX X a -> dhead Y -> LX Y b -> LX (X ++ Y) (a ++ b).
Proof.
  intros HX HD HY rest Hr. rewrite <- app_assoc, HX by (apply dhead_delim; exact HD).
  rewrite HY by exact Hr. apply oapp_oapp.
Qed.

(* whitespace *)
Lemma LXs_ws : forall w, forallb is_ws w = true -> LXs w [].
Proof.
  induction w as [|c w IH]; intros H; [apply LXs_nil|].
  cbn [forallb] in H. apply andb_prop in H. destruct H as [Hc Hw].
  intros rest. cbn [app lex]. rewrite Hc. apply IH. exact Hw.
Qed.

(* constant tokens *)
Lemma LXs_const t :
  match t with TStr _ | TNum _ => False | _ => True end -> LXs (print_token t) [t].
Proof.
  intros H rest. destruct t; try contradiction; cbn; destruct (lex LStart rest); reflexivity.
Qed.

(* strings *)
Lemma lex_str_char c acc tail :
  lex (LStr acc false) (escape_char c ++ tail) = lex (LStr (rev (escape_char c) ++ acc) false) tail.
Proof.
  unfold escape_char.
  destruct (c =? 34) eqn:E1; [reflexivity|].
  destruct (c =? 92) eqn:E2; [reflexivity|].
  destruct (c =? 8) eqn:E3; [reflexivity|].
  destruct (c =? 9) eqn:E4; [reflexivity|].
  destruct (c =? 10) eqn:E5; [reflexivity|].
  destruct (c =? 12) eqn:E6; [reflexivity|].
  destruct (c =? 13) eqn:E7; [reflexivity|].
  destruct (c <? 32) eqn:E8.
  - apply N.ltb_lt in E8. apply small_cases in E8. cbn in E8.
    repeat (destruct E8 as [<-|E8]; [first [discriminate | reflexivity]|]). contradiction.
  - cbn [app lex rev]. rewrite E2, E1. reflexivity.
Qed.

Lemma lex_str_body : forall s acc rest,
  lex (LStr acc false) (escape s ++ 34 :: rest) =
  match unescape (rev acc ++ escape s) with
  | Some x => emit (TStr x) (lex LStart rest)
  | None => None
  end.
Proof.
  induction s as [|c s IH]; intros acc rest.
  - cbn [escape flat_map app]. rewrite app_nil_r. reflexivity.
  - unfold escape in *. cbn [flat_map]. rewrite <- app_assoc, lex_str_char, IH.
    rewrite rev_app_distr, rev_involutive, <- app_assoc. reflexivity.
Qed.

Lemma LXs_str s : LXs (print_token (TStr s)) [TStr s].
Proof.
  intros rest. cbn [print_token]. cbn [app]. rewrite <- app_assoc. cbn [app].
  change (lex LStart (34 :: escape s ++ 34 :: rest)) with (lex (LStr [] false) (escape s ++ 34 :: rest)).
  rewrite lex_str_body. cbn [rev app]. rewrite unescape_escape. apply emit_oapp.
Qed.

(* numbers *)
Lemma digit_numchar c : is_digit c = true -> is_numchar c = true.
Proof. intros H. unfold is_numchar. rewrite H. reflexivity. Qed.

Lemma numchars_skip : forall s,
  forallb is_numchar (skip_digits s) = true -> forallb is_numchar s = true.
Proof.
  induction s as [|c s IH]; intros H; [reflexivity|].
  cbn [skip_digits] in H. destruct (is_digit c) eqn:E.
  - cbn [forallb]. rewrite (digit_numchar _ E). cbn. apply IH. exact H.
  - exact H.
Qed.

Lemma is_nil_true {X} (l : list X) : is_nil l = true -> l = [].
Proof. destruct l; [reflexivity|discriminate]. Qed.

Lemma num_exp_chars s : num_exp s = true -> forallb is_numchar s = true.
Proof.
  unfold num_exp. intros H.
  assert (G : forall s1, match s1 with c :: r => is_digit c && is_nil (skip_digits r) | [] => false end = true ->
                         forallb is_numchar s1 = true).
  { intros [|c r] G; [discriminate|]. apply andb_prop in G. destruct G as [G1 G2].
    cbn [forallb]. rewrite (digit_numchar _ G1). cbn. apply numchars_skip.
    rewrite (is_nil_true _ G2). reflexivity. }
  destruct s as [|c r]; [discriminate|].
  destruct ((c =? 43) || (c =? 45)) eqn:E.
  - cbn [forallb]. rewrite (G _ H), andb_true_r. unfold is_numchar.
    apply orb_prop in E. destruct E as [E|E]; rewrite E; rewrite ?orb_true_r; reflexivity.
  - apply G. exact H.
Qed.

Lemma num_after_int_chars s : num_after_int s = true -> forallb is_numchar s = true.
Proof.
  unfold num_after_int. destruct s as [|c r]; [reflexivity|].
  destruct (c =? 46) eqn:E1.
  - destruct r as [|d r']; [discriminate|]. intros H. apply andb_prop in H. destruct H as [Hd H].
    cbn [forallb]. unfold is_numchar at 1. rewrite E1, (digit_numchar _ Hd). rewrite ?orb_true_r. cbn [andb].
    apply numchars_skip. destruct (skip_digits r') as [|e r3]; [reflexivity|].
    apply andb_prop in H. destruct H as [He H]. cbn [forallb]. rewrite (num_exp_chars _ H), andb_true_r.
    unfold is_numchar. apply orb_prop in He. destruct He as [He|He]; rewrite He; rewrite ?orb_true_r; reflexivity.
  - destruct ((c =? 101) || (c =? 69)) eqn:E2; [|discriminate].
    intros H. cbn [forallb]. rewrite (num_exp_chars _ H), andb_true_r.
    unfold is_numchar. apply orb_prop in E2. destruct E2 as [He|He]; rewrite He; rewrite ?orb_true_r; reflexivity.
Qed.

Lemma num_unsigned_chars s : num_unsigned s = true ->
  forallb is_numchar s = true /\ exists c r, s = c :: r /\ is_digit c = true.
Proof.
  unfold num_unsigned. destruct s as [|c r]; [discriminate|].
  destruct (c =? 48) eqn:E1.
  - intros H. apply N.eqb_eq in E1. subst c. split; [|exists 48, r; split; reflexivity].
    cbn [forallb]. rewrite (num_after_int_chars _ H). reflexivity.
  - destruct (is_digit c) eqn:E2; [|discriminate]. intros H. split; [|exists c, r; split; [reflexivity|exact E2]].
    cbn [forallb]. rewrite (digit_numchar _ E2). cbn. apply numchars_skip. apply num_after_int_chars. exact H.
Qed.

Lemma is_json_number_chars s : is_json_number s = true ->
  forallb is_numchar s = true /\ exists c r, s = c :: r /\ (c = 45 \/ is_digit c = true).
Proof.
  unfold is_json_number. destruct s as [|c r]; [discriminate|].
  destruct (c =? 45) eqn:E.
  - apply N.eqb_eq in E. subst c. intros H. apply num_unsigned_chars in H. destruct H as [H _].
    split; [cbn [forallb]; rewrite H; reflexivity|]. exists 45, r. split; [reflexivity|left; reflexivity].
  - intros H. apply num_unsigned_chars in H. destruct H as [H (c' & r' & Hs & Hd)].
    split; [exact H|]. exists c', r'. split; [exact Hs|right; exact Hd].
Qed.

Lemma lex_num_run : forall l acc rest,
  forallb is_numchar l = true -> lex (LNum acc) (l ++ rest) = lex (LNum (rev l ++ acc)) rest.
Proof.
  induction l as [|c l IH]; intros acc rest H; [reflexivity|].
  cbn [forallb] in H. apply andb_prop in H. destruct H as [Hc Hl].
  cbn [app lex]. rewrite Hc. rewrite IH by exact Hl. cbn [rev]. rewrite <- app_assoc. reflexivity.
Qed.

Lemma digit_cases c : is_digit c = true -> In c [48; 49; 50; 51; 52; 53; 54; 55; 56; 57].
Proof.
  unfold is_digit. intros H. apply andb_prop in H. destruct H as [H1 H2].
  apply N.leb_le in H1. apply N.leb_le in H2.
  replace c with (N.of_nat (N.to_nat c)) by apply N2Nat.id.
  change [48; 49; 50; 51; 52; 53; 54; 55; 56; 57] with (map N.of_nat (seq 48 10)).
  apply in_map. apply in_seq. lia.
Qed.

Lemma lex_num_first c r :
  c = 45 \/ is_digit c = true -> lex LStart (c :: r) = lex (LNum [c]) r.
Proof.
  intros [->|H]; [reflexivity|]. apply digit_cases in H. cbn in H.
  repeat (destruct H as [<-|H]; [reflexivity|]). contradiction.
Qed.

Lemma LX_num lit : is_json_number lit = true -> LX lit [TNum lit].
Proof.
  intros Hn rest Hr. destruct (is_json_number_chars _ Hn) as [Hc (c & r & -> & Hd)].
  cbn [app]. rewrite (lex_num_first _ _ Hd).
  cbn [forallb] in Hc. apply andb_prop in Hc. destruct Hc as [_ Hc].
  rewrite lex_num_run by exact Hc.
  assert (E : rev (rev r ++ [c]) = c :: r) by (rewrite rev_app_distr, rev_involutive; reflexivity).
  destruct rest as [|d rest'].
  - cbn [lex]. rewrite E, Hn. reflexivity.
  - cbn [delim_start] in Hr. cbn [lex]. rewrite Hr, E, Hn. rewrite emit_oapp. reflexivity.
Qed.

(* ---------- tokens of a tree, lexed ---------- *)

Lemma tokens_of_arr v l :
  tokens_of (JArr (v :: l)) =
  TLBrack :: tokens_of v ++ flat_map (fun v => TComma :: tokens_of v) l ++ [TRBrack].
Proof. reflexivity. Qed.

Lemma tokens_of_obj k v m :
  tokens_of (JObj ((k, v) :: m)) =
  TLBrace :: TStr k :: TColon :: tokens_of v
    ++ flat_map (fun kv => TComma :: TStr (fst kv) :: TColon :: tokens_of (snd kv)) m ++ [TRBrace].
Proof. reflexivity. Qed.

Lemma print_tokens_app a b : print_tokens (a ++ b) = print_tokens a ++ print_tokens b.
Proof. apply flat_map_app. Qed.

Lemma LXs_one X t : LXs X [t] -> forall Y ts, LX Y ts -> LX (X ++ Y) (t :: ts).
Proof. intros H Y ts HY. apply (LXs_LX_app X Y [t] ts H HY). Qed.

Lemma dhead_const t ts :
  match t with TNum _ => False | _ => True end -> dhead (print_tokens (t :: ts)).
Proof. destruct t; cbn; try contradiction; trivial. Qed.

(* the compact rendering of a well-formed tree lexes to its tokens *)
Lemma LX_render : forall j, wf_json j = true -> LX (render j) (tokens_of j).
Proof.
  induction j as [| b | l | s | l IH | m IH] using json_ind'; intros Hw.
  - apply LXs_LX. apply (LXs_const TNull). exact I.
  - destruct b; apply LXs_LX; [apply (LXs_const TTrue)|apply (LXs_const TFalse)]; exact I.
  - unfold render. cbn [tokens_of print_tokens flat_map]. rewrite app_nil_r. apply LX_num. exact Hw.
  - unfold render. cbn [tokens_of print_tokens flat_map]. rewrite app_nil_r. apply LXs_LX. apply LXs_str.
  - destruct l as [|v l].
    + apply LXs_LX. apply (LXs_app [91] [93] [TLBrack] [TRBrack]); [apply (LXs_const TLBrack)|apply (LXs_const TRBrack)]; exact I.
    + apply LXs_LX. unfold render. rewrite tokens_of_arr.
      change (TLBrack :: tokens_of v ++ flat_map (fun v0 => TComma :: tokens_of v0) l ++ [TRBrack])
        with ([TLBrack] ++ tokens_of v ++ flat_map (fun v0 => TComma :: tokens_of v0) l ++ [TRBrack]).
      rewrite !print_tokens_app.
      cbn [wf_json forallb] in Hw. apply andb_prop in Hw. destruct Hw as [Hv Hl].
      inversion IH as [|? ? IHv IHl]; subst.
      apply LXs_app; [apply (LXs_const TLBrack); exact I|].
      (* value, then the tail which starts with , or ] *)
      assert (T : LXs (print_tokens (flat_map (fun v0 => TComma :: tokens_of v0) l) ++ print_tokens [TRBrack])
                      (flat_map (fun v0 => TComma :: tokens_of v0) l ++ [TRBrack])
                  /\ dhead (print_tokens (flat_map (fun v0 => TComma :: tokens_of v0) l) ++ print_tokens [TRBrack])).
      { clear Hv IHv v IH. induction l as [|w l IHl'].
        - split; [apply (LXs_const TRBrack); exact I|cbn; reflexivity].
        - cbn [forallb] in Hl. apply andb_prop in Hl. destruct Hl as [Hw Hl].
          inversion IHl as [|? ? IHw IHl2]; subst.
          destruct (IHl' Hl IHl2) as [T1 T2].
          split; [|cbn; reflexivity].
          cbn [flat_map].
          change ((TComma :: tokens_of w) ++ flat_map (fun v0 => TComma :: tokens_of v0) l)
            with ([TComma] ++ tokens_of w ++ flat_map (fun v0 => TComma :: tokens_of v0) l).
          rewrite !print_tokens_app, <- !app_assoc.
          apply LXs_app; [apply (LXs_const TComma); exact I|].
          apply LX_LXs_app; [apply IHw; exact Hw|exact T2|exact T1]. }
      destruct T as [T1 T2].
      apply LX_LXs_app; [apply IHv; exact Hv|exact T2|exact T1].
  - destruct m as [|[k v] m].
    + apply LXs_LX. apply (LXs_app [123] [125] [TLBrace] [TRBrace]); [apply (LXs_const TLBrace)|apply (LXs_const TRBrace)]; exact I.
    + apply LXs_LX. unfold render. rewrite tokens_of_obj.
      set (F := fun kv : str * json => TComma :: TStr (fst kv) :: TColon :: tokens_of (snd kv)).
      change (TLBrace :: TStr k :: TColon :: tokens_of v ++ flat_map F m ++ [TRBrace])
        with ([TLBrace] ++ [TStr k] ++ [TColon] ++ tokens_of v ++ flat_map F m ++ [TRBrace]).
      rewrite !print_tokens_app.
      cbn [wf_json forallb snd] in Hw. apply andb_prop in Hw. destruct Hw as [Hv Hl].
      inversion IH as [|? ? IHv IHl]; subst. cbn [snd] in IHv.
      apply LXs_app; [apply (LXs_const TLBrace); exact I|].
      apply LXs_app; [cbn [print_tokens flat_map]; rewrite app_nil_r; apply LXs_str|].
      apply LXs_app; [apply (LXs_const TColon); exact I|].
      assert (T : LXs (print_tokens (flat_map F m) ++ print_tokens [TRBrace]) (flat_map F m ++ [TRBrace])
                  /\ dhead (print_tokens (flat_map F m) ++ print_tokens [TRBrace])).
      { clear Hv IHv v IH k. induction m as [|[k w] m IHm'].
        - split; [apply (LXs_const TRBrace); exact I|cbn; reflexivity].
        - cbn [forallb snd] in Hl. apply andb_prop in Hl. destruct Hl as [Hw Hl].
          inversion IHl as [|? ? IHw IHl2]; subst. cbn [snd] in IHw.
          destruct (IHm' Hl IHl2) as [T1 T2].
          split; [|cbn; reflexivity].
          cbn [flat_map]. unfold F at 1 3. cbn [fst snd].
          change ((TComma :: TStr k :: TColon :: tokens_of w) ++ flat_map F m)
            with ([TComma] ++ [TStr k] ++ [TColon] ++ tokens_of w ++ flat_map F m).
          rewrite !print_tokens_app, <- !app_assoc.
          apply LXs_app; [apply (LXs_const TComma); exact I|].
          apply LXs_app; [cbn [print_tokens flat_map]; rewrite app_nil_r; apply LXs_str|].
          apply LXs_app; [apply (LXs_const TColon); exact I|].
          apply LX_LXs_app; [apply IHw; exact Hw|exact T2|exact T1]. }
      destruct T as [T1 T2].
      apply LX_LXs_app; [apply IHv; exact Hv|exact T2|exact T1].
Qed.

(* ---------- parser ---------- *)
Local Close Scope N_scope.
Local Open Scope nat_scope.

Lemma tokens_of_head : forall v, exists t r,
  tokens_of v = t :: r /\ t <> TRBrack /\ t <> TRBrace /\ t <> TComma /\ t <> TColon.
Proof.
  intros v. destruct v as [| [|] | l | s | [|v l] | [|[k v] m]]; cbn [tokens_of];
    eexists; eexists; (split; [reflexivity|repeat split; discriminate]).
Qed.

Definition elems_tokens (l : list json) : list token := flat_map (fun v => TComma :: tokens_of v) l.
Definition members_tokens (m : list (str * json)) : list token :=
  flat_map (fun kv => TComma :: TStr (fst kv) :: TColon :: tokens_of (snd kv)) m.

Definition tsize (l : list json) : nat := length (elems_tokens l).
Definition msize (m : list (str * json)) : nat := length (members_tokens m).

Lemma parse_value_step f v rest :
  parse (S f) PValue (tokens_of v ++ rest) =
  match v with
  | JNull => Some (JNull, rest)
  | JBool b => Some (JBool b, rest)
  | JNum l => Some (JNum l, rest)
  | JStr s => Some (JStr s, rest)
  | JArr [] => Some (JArr [], rest)
  | JArr (w :: l) =>
      match parse f PValue (tokens_of w ++ elems_tokens l ++ [TRBrack] ++ rest) with
      | Some (x, r1) => parse f (PElems [x]) r1
      | None => None
      end
  | JObj [] => Some (JObj [], rest)
  | JObj ((k, w) :: m) =>
      match parse f PValue (tokens_of w ++ members_tokens m ++ [TRBrace] ++ rest) with
      | Some (x, r1) => parse f (PMembers [(k, x)]) r1
      | None => None
      end
  end.
Proof.
  destruct v as [| [|] | l | s | [|w l] | [|[k w] m]]; try reflexivity.
  - rewrite tokens_of_arr. cbn [app]. rewrite <- !app_assoc.
    destruct (tokens_of_head w) as (t & r & E & H1 & _). rewrite E.
    cbn [app parse]. destruct t; try reflexivity. congruence.
  - rewrite tokens_of_obj. cbn [app]. rewrite <- !app_assoc. reflexivity.
Qed.

Lemma parse_elems_loop :
  forall l, Forall (fun v => forall f rest, length (tokens_of v) <= f -> parse f PValue (tokens_of v ++ rest) = Some (v, rest)) l ->
  forall f acc rest, tsize l + 1 <= f ->
  parse f (PElems acc) (elems_tokens l ++ [TRBrack] ++ rest) = Some (JArr (rev acc ++ l), rest).
Proof.
  induction l as [|v l IHl]; intros HF f acc rest Hf.
  - destruct f; [cbn in Hf; lia|]. cbn. rewrite app_nil_r. reflexivity.
  - inversion HF as [|? ? Hv HF']; subst.
    unfold tsize, elems_tokens in Hf. cbn [flat_map] in Hf. rewrite app_length in Hf. cbn [length] in Hf.
    destruct f; [lia|].
    unfold elems_tokens. cbn [flat_map]. cbn [app]. rewrite <- app_assoc.
    cbn [parse]. rewrite Hv by lia.
    change (flat_map (fun v0 => TComma :: tokens_of v0) l ++ TRBrack :: rest) with (elems_tokens l ++ [TRBrack] ++ rest).
    rewrite IHl; [|exact HF'|unfold tsize, elems_tokens; lia].
    cbn [rev]. rewrite <- app_assoc. reflexivity.
Qed.

Lemma parse_members_loop :
  forall m, Forall (fun kv => forall f rest, length (tokens_of (snd kv)) <= f -> parse f PValue (tokens_of (snd kv) ++ rest) = Some (snd kv, rest)) m ->
  forall f acc rest, msize m + 1 <= f ->
  parse f (PMembers acc) (members_tokens m ++ [TRBrace] ++ rest) = Some (JObj (rev acc ++ m), rest).
Proof.
  induction m as [|[k v] m IHm]; intros HF f acc rest Hf.
  - destruct f; [cbn in Hf; lia|]. cbn. rewrite app_nil_r. reflexivity.
  - inversion HF as [|? ? Hv HF']; subst. cbn [snd] in Hv.
    unfold msize, members_tokens in Hf. cbn [flat_map fst snd] in Hf. rewrite app_length in Hf. cbn [length] in Hf.
    destruct f; [lia|].
    unfold members_tokens. cbn [flat_map fst snd]. cbn [app]. rewrite <- app_assoc.
    cbn [parse]. rewrite Hv by lia.
    change (flat_map (fun kv => TComma :: TStr (fst kv) :: TColon :: tokens_of (snd kv)) m ++ TRBrace :: rest) with (members_tokens m ++ [TRBrace] ++ rest).
    rewrite IHm; [|exact HF'|unfold msize, members_tokens; lia].
    cbn [rev]. rewrite <- app_assoc. reflexivity.
Qed.

Lemma tokens_of_pos j : 1 <= length (tokens_of j).
Proof. destruct (tokens_of_head j) as (t & r & E & _). rewrite E. cbn. lia. Qed.

Lemma parse_tokens_of_gen : forall j f rest,
  length (tokens_of j) <= f -> parse f PValue (tokens_of j ++ rest) = Some (j, rest).
Proof.
  induction j as [| b | l | s | l IH | m IH] using json_ind'; intros f rest Hf;
    (destruct f; [match type of Hf with length (tokens_of ?x) <= _ => pose proof (tokens_of_pos x) end; lia|]);
    rewrite parse_value_step; try reflexivity.
  - destruct l as [|w l]; [reflexivity|].
    inversion IH as [|? ? IHw IHl]; subst.
    rewrite tokens_of_arr in Hf. cbn [length] in Hf. rewrite !app_length in Hf. cbn [length] in Hf.
    fold (elems_tokens l) in Hf.
    rewrite IHw by lia.
    rewrite parse_elems_loop; [reflexivity|exact IHl|unfold tsize; lia].
  - destruct m as [|[k w] m]; [reflexivity|].
    inversion IH as [|? ? IHw IHm]; subst. cbn [snd] in IHw.
    rewrite tokens_of_obj in Hf. cbn [length] in Hf. rewrite !app_length in Hf. cbn [length] in Hf.
    fold (members_tokens m) in Hf.
    rewrite IHw by lia.
    rewrite parse_members_loop; [reflexivity|exact IHm|unfold msize; lia].
Qed.

Theorem parse_tokens_of : forall j, parse_tokens (tokens_of j) = Some j.
Proof.
  intros j. unfold parse_tokens.
  rewrite <- (app_nil_r (tokens_of j)) at 2. rewrite parse_tokens_of_gen; [reflexivity|lia].
Qed.

(* a text that lexes to the tokens of a tree parses to that tree *)
Lemma parse_json_of_lex s j : lex LStart s = Some (tokens_of j) -> parse_json s = Some j.
Proof. intros H. unfold parse_json. rewrite H. apply parse_tokens_of. Qed.

Lemma LX_lex X ts : LX X ts -> lex LStart X = Some ts.
Proof.
  intros H. specialize (H [] I). rewrite app_nil_r in H. rewrite H. cbn. rewrite app_nil_r. reflexivity.
Qed.

(* the recogniser reads back the printer's output *)
Theorem parse_render : forall j, wf_json j = true -> parse_json (render j) = Some j.
Proof.
  intros j H. apply parse_json_of_lex. apply LX_lex. apply LX_render. exact H.
Qed.
