(* C05, sub-stores: loading the documents one after the other (sub-stores first, then the root)
   gives the same store as loading their concatenation as one document, whenever the latter
   succeeds for every prefix of the documents.  Ingredients: the loaders distribute over
   concatenation, a load that succeeds still succeeds with the same result when more resources
   and datasets are present, and with a larger pre_length. *)
From Coq Require Import String Ascii.
From Coq Require Import List NArith ZArith Bool Arith Lia.
From Stam Require Import Base.Tac Model.Offset Model.Json Model.TempId Proofs.TempId
     Model.StamJson Spec.StamJsonSpec Proofs.StamJson Proofs.StamJsonLoad.
Import ListNotations.

(** * the loaders distribute over concatenation *)
Lemma load_ress_app fs : forall l1 acc l2,
  load_ress fs acc (l1 ++ l2) = match load_ress fs acc l1 with Some a => load_ress fs a l2 | None => None end.
Proof.
  induction l1 as [|b l1 IH]; intros acc l2; cbn [app load_ress]; [reflexivity|].
  destruct (build_res fs b) as [r|]; [|reflexivity]. destruct (id_free res_pid acc (Some (jr_id r))); [apply IH|reflexivity].
Qed.

Lemma load_ress_extends fs : forall l acc r, load_ress fs acc l = Some r -> exists x, r = acc ++ x.
Proof.
  induction l as [|b l IH]; intros acc r H; cbn [load_ress] in H.
  - injection H as <-. exists []. rewrite app_nil_r. reflexivity.
  - destruct (build_res fs b) as [x|]; [|discriminate]. destruct (id_free res_pid acc (Some (jr_id x))); [|discriminate].
    destruct (IH _ _ H) as [y ->]. exists (Some x :: y). rewrite <- app_assoc. reflexivity.
Qed.

Lemma load_sets_app fs : forall l1 acc l2,
  load_sets fs acc (l1 ++ l2) = match load_sets fs acc l1 with Some a => load_sets fs a l2 | None => None end.
Proof.
  induction l1 as [|b l1 IH]; intros acc l2; cbn [app load_sets]; [reflexivity|].
  destruct (build_set fs b) as [d|]; [|reflexivity]. destruct (id_free set_pid acc (Some (js_id d))); [apply IH|reflexivity].
Qed.

Lemma load_sets_extends fs : forall l acc r, load_sets fs acc l = Some r -> exists x, r = acc ++ x.
Proof.
  induction l as [|b l IH]; intros acc r H; cbn [load_sets] in H.
  - injection H as <-. exists []. rewrite app_nil_r. reflexivity.
  - destruct (build_set fs b) as [x|]; [|discriminate]. destruct (id_free set_pid acc (Some (js_id x))); [|discriminate].
    destruct (IH _ _ H) as [y ->]. exists (Some x :: y). rewrite <- app_assoc. reflexivity.
Qed.

Lemma load_anns_app pre : forall l1 s l2,
  load_anns pre s (l1 ++ l2) = match load_anns pre s l1 with Some s1 => load_anns pre s1 l2 | None => None end.
Proof.
  induction l1 as [|b l1 IH]; intros s l2; cbn [app load_anns]; [reflexivity|].
  destruct (load_ann pre s b); [apply IH|reflexivity].
Qed.

(** * annotations do not touch resources and datasets *)
Lemma load_ann_static pre s b s1 : load_ann pre s b = Some s1 ->
  st_id s1 = st_id s /\ st_ress s1 = st_ress s /\ st_sets s1 = st_sets s.
Proof.
  unfold load_ann. destruct (gap_fill pre (st_anns s) (ba_id b)) as [[a1 i1]|]; [|discriminate].
  destruct (omap _ (ba_leaves b)); [|discriminate]. destruct (omap _ (ba_data b)); [|discriminate].
  destruct (id_free ja_id a1 i1); [|discriminate]. intros H. injection H as <-. repeat split.
Qed.

Lemma load_anns_static pre : forall l s s1, load_anns pre s l = Some s1 ->
  st_id s1 = st_id s /\ st_ress s1 = st_ress s /\ st_sets s1 = st_sets s.
Proof.
  induction l as [|b l IH]; intros s s1 H; cbn [load_anns] in H.
  - injection H as <-. repeat split.
  - destruct (load_ann pre s b) as [s0|] eqn:E; [|discriminate]. destruct (load_ann_static _ _ _ _ E) as (A & B & C).
    destruct (IH _ _ H) as (A' & B' & C'). rewrite A', B', C'. repeat split; assumption.
Qed.

(** * more resources and datasets do not change a load that succeeds *)
Definition ext (rs2 : list (option dres)) (ss2 : list (option dset)) (s : dstore) : dstore :=
  mkdstore (st_id s) (st_ress s ++ rs2) (st_sets s ++ ss2) (st_anns s).

Lemma ann_range_ext rs2 ss2 s a : ann_range (ext rs2 ss2 s) a = ann_range s a.
Proof. reflexivity. Qed.

Lemma resolve_leaf_ext rs2 ss2 s l lf : resolve_leaf s l = Some lf -> resolve_leaf (ext rs2 ss2 s) l = Some lf.
Proof.
  destruct l as [r o|a [o|]|r|d|d k|d x]; cbn [resolve_leaf ext st_ress st_sets st_anns].
  - destruct (lookup KRes res_pid (st_ress s) r) as [rh|] eqn:E; [|discriminate].
    rewrite (lookup_app_some _ _ _ _ _ _ E).
    destruct (slot (st_ress s) rh) as [rs|] eqn:Es; [|discriminate]. rewrite (slot_app_some _ _ _ _ Es). exact (fun H => H).
  - destruct (lookup KAnn ja_id (st_anns s) a) as [ah|]; [|discriminate]. rewrite ann_range_ext. exact (fun H => H).
  - exact (fun H => H).
  - destruct (lookup KRes res_pid (st_ress s) r) as [rh|] eqn:E; [|discriminate].
    rewrite (lookup_app_some _ _ _ _ _ _ E). exact (fun H => H).
  - destruct (lookup KSet set_pid (st_sets s) d) as [dh|] eqn:E; [|discriminate].
    rewrite (lookup_app_some _ _ _ _ _ _ E). exact (fun H => H).
  - destruct (lookup KSet set_pid (st_sets s) d) as [dh|] eqn:E; [|discriminate].
    rewrite (lookup_app_some _ _ _ _ _ _ E).
    destruct (slot (st_sets s) dh) as [ds|] eqn:Es; [|discriminate]. rewrite (slot_app_some _ _ _ _ Es). exact (fun H => H).
  - destruct (lookup KSet set_pid (st_sets s) d) as [dh|] eqn:E; [|discriminate].
    rewrite (lookup_app_some _ _ _ _ _ _ E).
    destruct (slot (st_sets s) dh) as [ds|] eqn:Es; [|discriminate]. rewrite (slot_app_some _ _ _ _ Es). exact (fun H => H).
Qed.

Lemma resolve_dataref_ext rs2 ss2 s p q : resolve_dataref s p = Some q -> resolve_dataref (ext rs2 ss2 s) p = Some q.
Proof.
  unfold resolve_dataref. cbn [ext st_sets].
  destruct (lookup KSet set_pid (st_sets s) (snd p)) as [dh|] eqn:E; [|discriminate].
  rewrite (lookup_app_some _ _ _ _ _ _ E).
  destruct (slot (st_sets s) dh) as [ds|] eqn:Es; [|discriminate]. rewrite (slot_app_some _ _ _ _ Es). exact (fun H => H).
Qed.

Lemma omap_mono {X Y} (f g : X -> option Y) (l : list X) r :
  (forall x y, f x = Some y -> g x = Some y) -> omap f l = Some r -> omap g l = Some r.
Proof.
  intros H. revert r. induction l as [|x l IH]; intros r Hr; cbn in *; [exact Hr|].
  destruct (f x) as [y|] eqn:E; [|discriminate]. destruct (omap f l) as [ys|]; [|discriminate].
  rewrite (H _ _ E), (IH _ eq_refl). exact Hr.
Qed.

Lemma load_ann_ext rs2 ss2 pre s b s1 : load_ann pre s b = Some s1 -> load_ann pre (ext rs2 ss2 s) b = Some (ext rs2 ss2 s1).
Proof.
  unfold load_ann. cbn [ext st_anns].
  destruct (gap_fill pre (st_anns s) (ba_id b)) as [[a1 i1]|]; [|discriminate].
  change (set_anns (ext rs2 ss2 s) a1) with (ext rs2 ss2 (set_anns s a1)).
  destruct (omap (resolve_leaf (set_anns s a1)) (ba_leaves b)) as [ls|] eqn:El; [|discriminate].
  destruct (omap (resolve_dataref (set_anns s a1)) (ba_data b)) as [ds|] eqn:Ed; [|discriminate].
  rewrite (omap_mono _ (resolve_leaf (ext rs2 ss2 (set_anns s a1))) _ _ (resolve_leaf_ext rs2 ss2 _) El).
  rewrite (omap_mono _ (resolve_dataref (ext rs2 ss2 (set_anns s a1))) _ _ (resolve_dataref_ext rs2 ss2 _) Ed).
  destruct (id_free ja_id a1 i1); [|discriminate]. intros H. injection H as <-. reflexivity.
Qed.

Lemma load_anns_ext rs2 ss2 pre : forall l s s1, load_anns pre s l = Some s1 ->
  load_anns pre (ext rs2 ss2 s) l = Some (ext rs2 ss2 s1).
Proof.
  induction l as [|b l IH]; intros s s1 H; cbn [load_anns] in *.
  - injection H as <-. reflexivity.
  - destruct (load_ann pre s b) as [s0|] eqn:E; [|discriminate]. rewrite (load_ann_ext _ _ _ _ _ _ E). apply IH. exact H.
Qed.

(** * a larger pre_length only makes the gap-filling check weaker *)
Lemma gap_fill_pre {X} pre pre' (l : list (option X)) id r : pre <= pre' -> gap_fill pre l id = Some r -> gap_fill pre' l id = Some r.
Proof.
  intros L. unfold gap_fill. destruct id as [i|]; [|exact (fun H => H)].
  destruct (any_temp i) as [n|]; [|exact (fun H => H)].
  destruct (N.to_nat n + pre <? length l) eqn:E; [discriminate|].
  apply Nat.ltb_ge in E. assert (E' : (N.to_nat n + pre' <? length l) = false) by (apply Nat.ltb_ge; lia).
  rewrite E'. exact (fun H => H).
Qed.

Lemma load_ann_pre pre pre' s b s1 : pre <= pre' -> load_ann pre s b = Some s1 -> load_ann pre' s b = Some s1.
Proof.
  intros L. unfold load_ann. destruct (gap_fill pre (st_anns s) (ba_id b)) as [r|] eqn:E; [|discriminate].
  rewrite (gap_fill_pre _ _ _ _ _ L E). exact (fun H => H).
Qed.

Lemma load_anns_pre pre pre' : pre <= pre' -> forall l s s1, load_anns pre s l = Some s1 -> load_anns pre' s l = Some s1.
Proof.
  intros L. induction l as [|b l IH]; intros s s1 H; cbn [load_anns] in *; [exact H|].
  destruct (load_ann pre s b) as [s0|] eqn:E; [|discriminate]. rewrite (load_ann_pre _ _ _ _ _ L E). apply IH. exact H.
Qed.

(** * documents one after the other = their concatenation as one document *)
Fixpoint load_docs (fs : files) (ds : list bstore) (s : dstore) : option dstore :=
  match ds with
  | [] => Some s
  | b :: ds' => match build_into fs b s with Some s1 => load_docs fs ds' s1 | None => None end
  end.

Definition mload (fs : files) (id : option str) (ds : list bstore) : option dstore :=
  match load_ress fs [] (concat (map b_ress ds)), load_sets fs [] (concat (map b_sets ds)) with
  | Some rs, Some ss => load_anns 0 (mkdstore id rs ss []) (concat (map b_anns ds))
  | _, _ => None
  end.

Lemma load_docs_app fs : forall l1 s l2,
  load_docs fs (l1 ++ l2) s = match load_docs fs l1 s with Some s1 => load_docs fs l2 s1 | None => None end.
Proof.
  induction l1 as [|b l1 IH]; intros s l2; cbn [app load_docs]; [reflexivity|].
  destruct (build_into fs b s); [apply IH|reflexivity].
Qed.

Lemma concat_map_snoc {X Y} (f : X -> list Y) l b : concat (map f (l ++ [b])) = concat (map f l) ++ f b.
Proof. rewrite map_app, concat_app. cbn. rewrite app_nil_r. reflexivity. Qed.

Theorem docs_one_by_one fs id : forall ds,
  (forall k, k <= length ds -> exists r, mload fs id (firstn k ds) = Some r) ->
  load_docs fs ds (mkdstore id [] [] []) = mload fs id ds.
Proof.
  induction ds as [|b l IH] using rev_ind; intros Hall.
  - reflexivity.
  - assert (Hl : forall k, k <= length l -> exists r, mload fs id (firstn k l) = Some r).
    { intros k Hk. destruct (Hall k) as [r Hr]; [rewrite app_length; lia|]. exists r.
      rewrite firstn_app in Hr. replace (k - length l) with 0 in Hr by lia. cbn in Hr. rewrite app_nil_r in Hr. exact Hr. }
    specialize (IH Hl).
    destruct (Hl (length l) (le_n _)) as [s0 Hs0]. rewrite firstn_all in Hs0.
    destruct (Hall (length (l ++ [b])) (le_n _)) as [r Hr]. rewrite firstn_all in Hr.
    rewrite load_docs_app, IH, Hs0. cbn [load_docs].
    (* unfold the two merged loads *)
    unfold mload in Hs0, Hr |- *. rewrite !concat_map_snoc in *.
    rewrite load_ress_app, load_sets_app in *.
    destruct (load_ress fs [] (concat (map b_ress l))) as [rs0|] eqn:Er0; [|discriminate].
    destruct (load_sets fs [] (concat (map b_sets l))) as [ss0|] eqn:Es0; [|discriminate].
    destruct (load_anns_static _ _ _ _ Hs0) as (I0 & R0 & S0). cbn [st_id st_ress st_sets] in I0, R0, S0.
    unfold build_into. rewrite R0, S0.
    destruct (load_ress fs rs0 (b_ress b)) as [rs|] eqn:Er; [|discriminate].
    destruct (load_sets fs ss0 (b_sets b)) as [ss|] eqn:Es; [|discriminate].
    destruct (load_ress_extends _ _ _ _ Er) as [x Hx]. destruct (load_sets_extends _ _ _ _ Es) as [y Hy].
    pose proof (load_anns_ext x y _ _ _ _ Hs0) as Hext. unfold ext in Hext. cbn [st_id st_ress st_sets st_anns] in Hext.
    rewrite <- Hx, <- Hy in Hext. rewrite R0, S0, I0 in Hext. rewrite <- Hx, <- Hy in Hext.
    rewrite load_anns_app in Hr |- *. rewrite Hext in Hr |- *. rewrite I0.
    rewrite (load_anns_pre 0 (length (st_anns s0)) (Nat.le_0_l _) _ _ _ Hr). exact (eq_sym Hr).
Qed.
