(* The arm tables of TextSelectionSet::test and TextSelectionSet::test_set that
   tools/translate_relsets.py reads from the source on every run (Gen/RelSetTables.v), interpreted
   over the tables of the member tests, denote Model/Rel.test_set_ts and test_set_set. *)
From Coq Require Import List Arith Bool Lia.
Import ListNotations.
From Stam Require Import Base.Tac Model.Rel Model.RelArms Gen.RelPairTable Gen.RelTsSetTable Gen.RelSetTables
     Proofs.AgreeRelPair Proofs.AgreeRelSet.

Lemma all_opt_some f g l : (forall x, f x = Some (g x)) -> all_opt f l = Some (forallb g l).
Proof.
  intros H. induction l as [|x l IH]; [reflexivity|]. cbn [all_opt forallb]. rewrite H.
  destruct (g x); [exact IH|reflexivity].
Qed.

Lemma leftmost_some A : items A <> [] -> exists a, leftmost A = Some a.
Proof. unfold leftmost. destruct (items A) as [|x l]; [congruence|]. intros _. destruct (sorted A); eexists; reflexivity. Qed.
Lemma rightmost_some A : items A <> [] -> exists a, rightmost A = Some a.
Proof. unfold rightmost. destruct (items A) as [|x l]; [congruence|]. intros _. eexists; reflexivity. Qed.

Theorem set_ts_arms_agree ws o A r :
  interp_set_ts pair_arms set_ts_arms ws o A r = Some (test_set_ts ws o A r).
Proof.
  unfold interp_set_ts, interp_g, test_set_ts.
  destruct (items A) as [|x l] eqn:EA; [reflexivity|]. cbv [is_nil' is_nil].
  assert (NE : items A <> []) by (rewrite EA; discriminate).
  destruct (leftmost_some A NE) as (la & Hl). destruct (rightmost_some A NE) as (ra & Hr).
  destruct o as [rel all neg lim w].
  destruct rel, all, neg.
  all: cbv [find_garm set_ts_arms existsb ga_pats ga_body pat_matches rel_eqb flag_matches p_rel p_all p_neg p_lim
            orel oall oneg olim ows Bool.eqb andb orb toggle negb run_gstmt].
  all: rewrite ?EA, ?Hl, ?Hr.
  all: try rewrite (all_opt_some _ _ _ (fun a => pair_arms_agree ws _ a r)).
  all: try rewrite pair_arms_agree.
  all: cbv [pos_set_ts orel oall oneg option_map negb].
  all: rewrite ?EA, ?Hl, ?Hr.
  all: try reflexivity.
  all: unfold same_range_ts; rewrite Hl, Hr; cbv [option_map opt_nat_eqb]; reflexivity.
Qed.

Theorem set_set_arms_agree ws o A B :
  interp_set_set pair_arms ts_set_arms set_set_arms ws o A B = Some (test_set_set ws o A B).
Proof.
  unfold interp_set_set, interp_g, test_set_set.
  destruct (items A) as [|x l] eqn:EA; [reflexivity|]. cbv [is_nil' is_nil].
  assert (NE : items A <> []) by (rewrite EA; discriminate).
  destruct (leftmost_some A NE) as (la & Hl). destruct (rightmost_some A NE) as (ra & Hr).
  destruct o as [rel all neg lim w].
  destruct rel, all, neg.
  all: cbv [find_garm set_set_arms existsb ga_pats ga_body pat_matches rel_eqb flag_matches p_rel p_all p_neg p_lim
            orel oall oneg olim ows Bool.eqb andb orb toggle negb run_gstmt].
  all: rewrite ?EA, ?Hl, ?Hr.
  all: try rewrite (all_opt_some _ _ _ (fun a => ts_set_arms_agree ws _ a B)).
  all: try rewrite ts_set_arms_agree.
  all: cbv [pos_set_set orel oall oneg option_map negb].
  all: rewrite ?EA, ?Hl, ?Hr.
  all: try reflexivity.
  all: try (destruct (length (x :: l) =? length (items B)); reflexivity).
  all: unfold same_range_set; rewrite Hl, Hr; unfold leftmost, rightmost;
       destruct (items B) as [|y m]; [reflexivity|]; destruct (sorted B); cbv [is_nil' negb option_map opt_nat_eqb andb]; reflexivity.
Qed.
