(* C02, exactness of remove_data (strict and non-strict) on resolved handles: exactly the
   dependency closure of the specification goes (strict: every annotation using the data item;
   non-strict: those left without data; in both modes the annotations that target the data item;
   and everything that reaches one of them), and every survivor keeps everything but that data. *)
From Stam Require Import Base.Tac Base.ListAux Model.Offset Model.Store Model.StoreObs Spec.StoreSpec
     Proofs.RelMap Proofs.StoreScan Proofs.StoreInv Proofs.StoreDataDef Proofs.StoreRemove Proofs.StoreRemove2
     Proofs.StoreRemove3 Proofs.StoreExact.

Definition droot (d x : nat) (strict : bool) (a : ann) : bool :=
  (if strict then uses_data d x a else only_data d x a) || has_leaf (on_data d x) a.

Lemma deps_data_unfold s d x strict : deps_data s d x strict = closure s (scan s (droot d x strict)).
Proof. reflexivity. Qed.

(* reaching through "targets" edges only looks at targets, which never change *)
Lemma reach_later s0 s D y : later s0 s -> reach s D y -> reach s0 D y.
Proof.
  intros (_ & L) H. induction H as [y Hy|y z a Ha Hl _ IH]; [apply reach_base; exact Hy|].
  destruct (L y a Ha) as (a0 & Ha0 & El & _).
  apply (reach_step s0 D y z a0 Ha0); [|exact IH]. unfold has_leaf in *. rewrite <- El. exact Hl.
Qed.

Lemma dead_of_reach_later s s' D :
  later s s' -> ann_refs_ok s' ->
  (forall r, In r D -> get_ann s' r = None) ->
  forall x, reach s D x -> get_ann s' x = None.
Proof.
  intros (_ & L) Hrf Hroots x Hr. induction Hr as [x Hx|x y a Ha Hl _ IH]; [apply Hroots; exact Hx|].
  destruct (get_ann s' x) as [a'|] eqn:E; [|reflexivity]. exfalso.
  destruct (L x a' E) as (a0 & Ha0 & El & _). rewrite Ha in Ha0. injection Ha0 as <-.
  unfold has_leaf in Hl. rewrite <- El in Hl. apply existsb_exists in Hl. destruct Hl as (lf & Hlf & Hon).
  pose proof (Hrf x a' E lf Hlf) as H0.
  destruct lf; cbn [on_ann] in Hon; try discriminate; apply Nat.eqb_eq in Hon; subst; apply H0; exact IH.
Qed.

Lemma strip_nil_forallb (P : nat * nat -> bool) l : filter (fun p => negb (P p)) l = [] -> forallb P l = true.
Proof.
  induction l as [|p l IH]; cbn [filter forallb]; [reflexivity|]. destruct (P p); cbn [negb andb]; [exact IH|discriminate].
Qed.

Lemma strip_id (P : nat * nat -> bool) l : existsb P l = false -> filter (fun p => negb (P p)) l = l.
Proof.
  induction l as [|p l IH]; cbn [filter existsb]; [reflexivity|]. destruct (P p); cbn [negb orb]; [discriminate|].
  intros H. rewrite (IH H). reflexivity.
Qed.

Lemma ann_remove_data_id a d x : uses_data d x a = false -> ann_remove_data a d x = a.
Proof. intros H. unfold ann_remove_data. unfold uses_data in H. rewrite (strip_id _ _ H). destruct a; reflexivity. Qed.

(* the store in which annotation a has lost the data item *)
Lemma strip_store_SI ex d x s0 s a an :
  StepInv (exd ex d x) s0 s -> get_ann s a = Some an ->
  let s' := set_anns s (set_slot (anns s) a (Some (ann_remove_data an d x))) in
  StepInv (exd ex d x) s0 s' /\ later s s'
  /\ (forall y, get_ann s' y = if y =? a then Some (ann_remove_data an d x) else get_ann s y).
Proof.
  intros SI E. pose proof SI as [HI Hwf Hl Hs Hf Hrf]. cbv zeta.
  set (an' := ann_remove_data an d x).
  set (s' := set_anns s (set_slot (anns s) a (Some an'))).
  assert (Hget : forall y, get_ann s' y = if y =? a then Some an' else get_ann s y).
  { intros y. unfold get_ann, s'. cbn [set_anns anns]. rewrite slot_set_slot.
    destruct (y =? a) eqn:Ey; cbn [andb]; [|reflexivity].
    pose proof (get_ann_lt s a an E). destruct (a <? length (anns s)) eqn:E2; [reflexivity|lia]. }
  assert (Hl' : later s s').
  { split; [unfold s'; cbn [set_anns anns]; apply length_set_slot|].
    intros y a' Hy. rewrite Hget in Hy. destruct (y =? a) eqn:Ey.
    - assert (y = a) by lia. subst y. inversion Hy; subst a'. exists an. split; [exact E|].
      split; [reflexivity|]. unfold an', ann_remove_data. cbn [a_data]. intros p Hp. apply filter_In in Hp. tauto.
    - exists a'. split; [exact Hy|]. split; [reflexivity|apply incl_refl]. }
  split; [|split; [exact Hl'|exact Hget]].
  constructor.
  - apply strip_data_Inv; assumption.
  - apply (later_wf s s' Hl' Hwf).
  - eapply later_trans; eassumption.
  - eapply shrinks_trans; [exact Hs|apply shrinks_same; reflexivity].
  - eapply frame4_trans; [exact Hf|repeat split].
  - intros Hr y a' Hy lf Hlf. destruct Hl' as (_ & B). destruct (B y a' Hy) as (a0 & Ha0 & El & _).
    rewrite El in Hlf. pose proof (Hrf Hr y a0 Ha0 lf Hlf) as H0.
    destruct lf; try exact I; rewrite Hget;
      (match goal with |- (if ?t =? a then _ else _) <> None => destruct (t =? a); [discriminate|exact H0] end).
Qed.

(** * what the loop over the users of the data item has done so far *)
Record Track (d x : nat) (strict : bool) (s0 : store) (done : nat -> Prop) (s : store) : Prop := mkT {
  T_only : forall y, get_ann s0 y <> None -> get_ann s y = None -> reach s0 (scan s0 (droot d x strict)) y;
  T_surv : forall y a', get_ann s y = Some a' -> exists a, get_ann s0 y = Some a /\
             ((~ done y /\ a' = a)
              \/ (done y /\ strict = false /\ a' = ann_remove_data a d x /\ a_data a' <> []));
  T_gone : strict = true -> forall y, done y -> get_ann s y = None
}.

Lemma Track_init d x strict s : Track d x strict s (fun _ => False) s.
Proof.
  constructor.
  - intros y H1 H2. contradiction.
  - intros y a' H. exists a'. split; [exact H|left; split; [tauto|reflexivity]].
  - intros _ y [].
Qed.

Lemma root_user d x strict s0 a a0 : get_ann s0 a = Some a0 -> uses_data d x a0 = true ->
  (strict = true \/ forallb (fun dx => Nat.eqb (fst dx) d && Nat.eqb (snd dx) x) (a_data a0) = true) ->
  In a (scan s0 (droot d x strict)).
Proof.
  intros Ha Hu Hs. apply scan_member. exists a0. split; [exact Ha|]. unfold droot, only_data. apply orb_true_iff. left.
  destruct strict; [exact Hu|]. destruct Hs as [Hs|Hs]; [discriminate|]. rewrite Hu, Hs. reflexivity.
Qed.

Lemma strip_step_Track ex d x strict s0 (done : nat -> Prop) s a :
  StepInv (exd ex d x) s0 s -> Track d x strict s0 done s -> ~ done a ->
  (forall a0, get_ann s0 a = Some a0 -> uses_data d x a0 = true) ->
  Track d x strict s0 (fun y => y = a \/ done y) (strip_step d x strict s a).
Proof.
  intros SI [Tonly Tsurv Tgone] Hnd Huse. pose proof SI as [HI Hwf Hl Hs Hf Hrf]. unfold strip_step. destruct strict.
  - (* strict: the user goes, with everything that reaches it *)
    pose proof (remove_ann_Post (exd ex d x) (fuel_of s) s a HI Hwf (fuel_ok s a)) as R.
    pose proof (remove_ann_only (exd ex d x) (fuel_of s) s a HI Hwf (fuel_ok s a)) as RO.
    destruct (remove_ann (fuel_of s) s a) as [s' r]. destruct R as (P & Hlive & Hdead). cbn [fst] in *.
    assert (Ha' : get_ann s' a = None).
    { destruct (get_ann s a) as [an|] eqn:E; [apply (Hlive an eq_refl)|]. rewrite (Hdead eq_refl). exact E. }
    constructor.
    + intros y Hy0 Hy. destruct (live_dec s y) as [Hd|Hlv]; [apply Tonly; assumption|].
      pose proof (RO y Hlv Hy) as Hr. apply (reach_later s0 s [a] y Hl) in Hr.
      apply (reach_trans s0 [a] _ y); [|exact Hr]. intros c [<-|[]]. apply reach_base.
      destruct (get_ann s a) as [an|] eqn:E.
      * destruct (Tsurv a an E) as (a0 & Ha0 & _). apply (root_user d x true s0 a a0 Ha0 (Huse a0 Ha0)). left. reflexivity.
      * rewrite (Hdead eq_refl) in Hy. contradiction.
    + intros y a' Hy. pose proof (P_sub _ _ _ _ P y a' Hy) as Hy1. destruct (Tsurv y a' Hy1) as (a0 & Ha0 & [[Hn He]|(Hd & Hst & _)]); [|discriminate].
      exists a0. split; [exact Ha0|]. left. split; [|exact He]. intros [->|Hd]; [congruence|contradiction].
    + intros _ y [->|Hd]; [exact Ha'|]. apply (Post_dead _ _ _ _ P). apply Tgone; [reflexivity|exact Hd].
  - destruct (get_ann s a) as [an|] eqn:E.
    2:{ constructor.
        - exact Tonly.
        - intros y a' Hy. destruct (Tsurv y a' Hy) as (a0 & Ha0 & [[Hn He]|(Hd & Hst & He & Hne)]); exists a0; (split; [exact Ha0|]).
          + left. split; [|exact He]. intros [->|Hd]; [congruence|contradiction].
          + right. repeat split; try assumption. right. exact Hd.
        - discriminate. }
    destruct (Tsurv a an E) as (a0 & Ha0 & [[_ ->]|(Hd & _)]); [|contradiction].
    destruct (strip_store_SI ex d x s0 s a a0 SI E) as (SI' & Hl' & Hget). cbv zeta in SI', Hl', Hget.
    set (an' := ann_remove_data a0 d x) in *.
    set (s' := set_anns s (set_slot (anns s) a (Some an'))) in *.
    assert (Surv' : forall y a', y <> a -> get_ann s y = Some a' -> exists a1, get_ann s0 y = Some a1 /\
             ((~ (y = a \/ done y) /\ a' = a1) \/ ((y = a \/ done y) /\ false = false /\ a' = ann_remove_data a1 d x /\ a_data a' <> []))).
    { intros y a' Hne Hy. destruct (Tsurv y a' Hy) as (a1 & Ha1 & [[Hn He]|(Hd & Hst & He & Hnn)]); exists a1; (split; [exact Ha1|]).
      - left. split; [|exact He]. intros [->|Hd]; [congruence|contradiction].
      - right. repeat split; try assumption. right. exact Hd. }
    destruct (a_data an') as [|p l] eqn:Ed.
    + destruct (a_data a0) as [|q m] eqn:Ed0.
      * (* no data at all: cannot be a user *)
        pose proof (Huse a0 Ha0) as U. unfold uses_data in U. rewrite Ed0 in U. discriminate.
      * (* left without data: goes, with everything that reaches it *)
        pose proof SI' as [HI' Hwf' Hl0' _ _ _].
        pose proof (remove_ann_Post (exd ex d x) (fuel_of s') s' a HI' Hwf' (fuel_ok s' a)) as R.
        pose proof (remove_ann_only (exd ex d x) (fuel_of s') s' a HI' Hwf' (fuel_ok s' a)) as RO.
        destruct (remove_ann (fuel_of s') s' a) as [s'' r]. destruct R as (P & Hlive & Hdead). cbn [fst] in *.
        assert (Ha' : get_ann s' a = Some an') by (rewrite Hget, Nat.eqb_refl; reflexivity).
        destruct (Hlive an' Ha') as (Ha'' & _).
        constructor.
        -- intros y Hy0 Hy. destruct (live_dec s' y) as [Hdd|Hlv].
           ++ apply Tonly; [exact Hy0|]. rewrite Hget in Hdd. destruct (y =? a); [discriminate|exact Hdd].
           ++ pose proof (RO y Hlv Hy) as Hr. apply (reach_later s0 s' [a] y Hl0') in Hr.
              apply (reach_trans s0 [a] _ y); [|exact Hr]. intros c [<-|[]]. apply reach_base.
              apply (root_user d x false s0 a a0 Ha0 (Huse a0 Ha0)). right.
              apply strip_nil_forallb. unfold an', ann_remove_data in Ed. cbn [a_data] in Ed. rewrite Ed0 in Ed. rewrite Ed0. exact Ed.
        -- intros y a' Hy. pose proof (P_sub _ _ _ _ P y a' Hy) as Hy1.
           assert (Hne : y <> a) by (intros ->; congruence).
           rewrite Hget in Hy1. destruct (y =? a) eqn:Ey; [lia|]. apply (Surv' y a' Hne Hy1).
        -- discriminate.
    + (* keeps other data *)
      constructor.
      * intros y Hy0 Hy. apply Tonly; [exact Hy0|]. rewrite Hget in Hy. destruct (y =? a); [discriminate|exact Hy].
      * intros y a' Hy. rewrite Hget in Hy. destruct (y =? a) eqn:Ey.
        -- assert (y = a) by lia. subst y. injection Hy as <-. exists a0. split; [exact Ha0|]. right.
           split; [left; reflexivity|]. split; [reflexivity|]. split; [reflexivity|]. rewrite Ed. discriminate.
        -- apply (Surv' y a'); [lia|exact Hy].
      * discriminate.
Qed.

Lemma Track_ext d x strict s0 (done done' : nat -> Prop) s :
  (forall y, done y <-> done' y) -> Track d x strict s0 done s -> Track d x strict s0 done' s.
Proof.
  intros He [A B C]. constructor.
  - exact A.
  - intros y a' Hy. destruct (B y a' Hy) as (a0 & Ha0 & [[Hn E]|(Hd & R)]); exists a0; (split; [exact Ha0|]).
    + left. split; [rewrite <- He; exact Hn|exact E].
    + right. split; [apply He; exact Hd|exact R].
  - intros Hs y Hd. apply C; [exact Hs|apply He; exact Hd].
Qed.

Lemma strip_fold_Track ex d x strict : forall us s0 (done : nat -> Prop) s,
  NoDup us -> (forall a, In a us -> ~ done a) ->
  (forall a, In a us -> forall a0, get_ann s0 a = Some a0 -> uses_data d x a0 = true) ->
  StepInv (exd ex d x) s0 s -> Track d x strict s0 done s ->
  Track d x strict s0 (fun y => In y us \/ done y) (fold_left (strip_step d x strict) us s).
Proof.
  induction us as [|a us IH]; intros s0 done s Hnd Hfresh Huse SI T; cbn [fold_left].
  - apply (Track_ext d x strict s0 done); [intros y; split; [tauto|intros [[]|H]; exact H]|exact T].
  - inversion Hnd as [|? ? Hna Hnd']; subst.
    destruct (strip_step_SI ex d x strict s0 s a SI) as (SI1 & _).
    pose proof (strip_step_Track ex d x strict s0 done s a SI T (Hfresh a (or_introl eq_refl)) (Huse a (or_introl eq_refl))) as T1.
    assert (Hfresh' : forall b, In b us -> ~ (b = a \/ done b)).
    { intros b Hb [->|Hd]; [exact (Hna Hb)|]. apply (Hfresh b (or_intror Hb) Hd). }
    pose proof (IH s0 _ _ Hnd' Hfresh' (fun b Hb => Huse b (or_intror Hb)) SI1 T1) as T2.
    refine (Track_ext d x strict s0 _ _ _ _ T2). intros y. cbn [In]. split; [intros [H|[->|H]]|intros [[<-|H]|H]]; auto.
Qed.

(** * remove_data on resolved handles is exact *)
Theorem remove_data_h_exact s d x strict :
  Inv s -> wf_targets s -> ann_refs_ok s ->
  let s' := fst (remove_data_h s d x strict) in
  (forall y, get_ann s y <> None -> (get_ann s' y = None <-> In y (deps_data s d x strict)))
  /\ (forall y a', get_ann s' y = Some a' -> exists a, get_ann s y = Some a /\ a' = ann_remove_data a d x
         /\ (uses_data d x a = true -> a_data a' <> [])).
Proof.
  intros HI Hwf Hrf. rewrite remove_data_h_unfold. cbv zeta.
  set (users := tget (ddam s) d x).
  assert (Husers : forall y, In y users <-> exists a, get_ann s y = Some a /\ uses_data d x a = true).
  { intros y. unfold users. rewrite (I_ddam noex s HI d x eq_refl). apply scan_member. }
  assert (Hnd : NoDup users).
  { unfold users. rewrite (I_ddam noex s HI d x eq_refl). unfold s_data_anns. rewrite scan_scanl. apply scanl_NoDup. }
  pose proof (mkSI (exd noex d x) s s (InvE_weaken noex d x s HI) Hwf (later_refl s) (shrinks_refl s) (frame4_refl s) (fun H => H)) as SI0.
  destruct (strip_fold_SI noex d x strict users s s SI0) as (SI1 & _ & _). cbv zeta in SI1.
  assert (Huse : forall a, In a users -> forall a0, get_ann s a = Some a0 -> uses_data d x a0 = true).
  { intros a Ha a0 Ha0. apply Husers in Ha. destruct Ha as (a1 & H1 & H2). rewrite Ha0 in H1. injection H1 as ->. exact H2. }
  pose proof (strip_fold_Track noex d x strict users s (fun _ => False) s Hnd (fun a _ H => H) Huse
               SI0 (Track_init d x strict s)) as T1.
  set (s1 := fold_left (strip_step d x strict) users s) in *.
  pose proof SI1 as [HI1 Hwf1 L1 _ _ Rf1].
  destruct (remove_anns_Post (exd noex d x) (tget (damm s1) d x) s1 HI1 Hwf1) as (P2 & D2).
  pose proof (remove_anns_only (exd noex d x) (tget (damm s1) d x) s1 HI1 Hwf1) as O2.
  set (s2 := remove_anns s1 (tget (damm s1) d x)) in *.
  assert (L2 : later s s2) by (eapply later_trans; [exact L1|apply (Post_later _ _ _ _ P2)]).
  assert (Hrf2 : ann_refs_ok s2) by (apply (P_closed _ _ _ _ P2), Rf1, Hrf).
  (* the rest of the operation does not touch annotations *)
  assert (Hfin : forall y, get_ann (fst (match get_set (set_damm s2 (tclear2 (damm s2) d x)) d with
            | None => (set_damm s2 (tclear2 (damm s2) d x), OErr)
            | Some ds =>
                match slot (d_data ds) x with
                | None => (set_damm s2 (tclear2 (damm s2) d x), OErr)
                | Some it =>
                    (fold_left (fun s a => set_ddam s (trem (ddam s) d x a)) users
                       (set_sets (set_damm s2 (tclear2 (damm s2) d x))
                          (set_slot (sets (set_damm s2 (tclear2 (damm s2) d x))) d
                             (Some (mkset (d_id ds) (d_keys ds) (set_slot (d_data ds) x None) (d_kidx ds)
                                      (match x_id it with Some tok => id_del (d_xidx ds) tok | None => d_xidx ds end)
                                      (rrem (d_k2x ds) (x_key it) x))))), OOk x)
                end
            end)) y = get_ann s2 y).
  { intros y. destruct (get_set _ d) as [ds|]; [|reflexivity]. destruct (slot (d_data ds) x) as [it|]; [|reflexivity].
    cbn [fst]. unfold get_ann.
    match goal with |- slot (anns (fold_left ?f users ?s4)) y = _ => destruct (fold_trem_frame d x users s4) as (F & _) end.
    cbv zeta in F. rewrite F. reflexivity. }
  destruct T1 as [Tonly Tsurv Tgone].
  split.
  - intros y Hy. rewrite Hfin, deps_data_unfold, (closure_live s _ y Hwf Hy). split.
    + (* only dependants go *)
      intros Hd. destruct (live_dec s1 y) as [Hd1|Hl1]; [apply Tonly; assumption|].
      pose proof (O2 y Hl1 Hd) as Hr. apply (reach_later s s1 _ y L1) in Hr.
      apply (reach_trans s (tget (damm s1) d x) _ y); [|exact Hr].
      intros c Hc. apply reach_base. rewrite (I_damm _ s1 HI1) in Hc. apply scan_member in Hc. destruct Hc as (a1 & Ha1 & Hlf).
      destruct L1 as (_ & L1). destruct (L1 c a1 Ha1) as (a0 & Ha0 & El & _).
      apply scan_member. exists a0. split; [exact Ha0|]. unfold droot. apply orb_true_iff. right.
      unfold has_leaf in *. rewrite <- El. exact Hlf.
    + (* every dependant goes *)
      apply (dead_of_reach_later s s2 _ L2 Hrf2).
      intros r Hr. apply scan_member in Hr. destruct Hr as (a0 & Ha0 & Hroot).
      destruct (get_ann s2 r) as [a2|] eqn:E2; [exfalso|reflexivity].
      pose proof (P_sub _ _ _ _ P2 r a2 E2) as E1.
      unfold droot in Hroot. apply orb_true_iff in Hroot. destruct Hroot as [Hu|Hm].
      * assert (Hin : In r users).
        { apply Husers. exists a0. split; [exact Ha0|]. destruct strict; [exact Hu|]. unfold only_data in Hu. apply andb_prop in Hu. tauto. }
        destruct strict.
        -- rewrite (Tgone eq_refl r (or_introl Hin)) in E1. discriminate.
        -- destruct (Tsurv r a2 E1) as (a0' & Ha0' & [[Hn _]|(_ & _ & He & Hne)]); [apply Hn; left; exact Hin|].
           rewrite Ha0 in Ha0'. injection Ha0' as <-. apply Hne. rewrite He. unfold ann_remove_data. cbn [a_data].
           unfold only_data in Hu. apply andb_prop in Hu. destruct Hu as [_ Hall].
           induction (a_data a0) as [|p l IHl]; [reflexivity|]. cbn [forallb] in Hall. apply andb_prop in Hall. destruct Hall as [Hp Hall].
           cbn [filter]. rewrite Hp. cbn [negb]. apply IHl. exact Hall.
      * (* targets the data item: still indexed in s1, hence removed by the second loop *)
        assert (Hin : In r (tget (damm s1) d x)).
        { rewrite (I_damm _ s1 HI1). apply scan_member. exists a2. split; [exact E1|].
          destruct L1 as (_ & L1). destruct (L1 r a2 E1) as (a0' & Ha0' & El & _). rewrite Ha0 in Ha0'. injection Ha0' as <-.
          unfold has_leaf in *. rewrite El. exact Hm. }
        rewrite (D2 r Hin) in E2. discriminate.
  - (* survivors keep everything but the data item *)
    intros y a' Hy. rewrite Hfin in Hy. pose proof (P_sub _ _ _ _ P2 y a' Hy) as Hy1.
    destruct (Tsurv y a' Hy1) as (a0 & Ha0 & [[Hn ->]|(_ & _ & He & Hne)]); exists a0; (split; [exact Ha0|]); [|split; [exact He|intros _; exact Hne]].
    assert (U : uses_data d x a0 = false).
    { destruct (uses_data d x a0) eqn:U; [|reflexivity]. exfalso. apply Hn. left. apply Husers. exists a0. tauto. }
    split; [symmetry; apply ann_remove_data_id; exact U|]. rewrite U. discriminate.
Qed.
