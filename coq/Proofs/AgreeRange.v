(* The arm table of FindTextSelectionsIter::init_textseliters that tools/translate_range.py reads
   from the source on every run (Gen/RangeTable.v) denotes Model/Search.search_range: for every
   operator and modifier combination, every reference set and every text length, the slice of the
   position index and the direction the code chooses are those of the model - the function of which
   C06_range_covers proves that it contains every candidate for which the test can hold. *)
From Coq Require Import List Arith Bool Lia.
Import ListNotations.
From Stam Require Import Base.Tac Model.Rel Model.RelArms Model.Search Model.RangeArms Gen.RangeTable.

Theorem range_arms_agree o R len :
  interp_range range_arms o (ref_begin R) (ref_end R) len = Some (search_range o R len).
Proof.
  destruct o as [rel all neg lim w]. unfold interp_range, search_range.
  destruct neg; [reflexivity|].
  destruct rel, lim as [lim|], w; try reflexivity.
  (* arms whose bounds are written differently (1 + x for x + 1, ...) *)
  all: cbn; repeat match goal with |- context [?a <=? ?b] => destruct (a <=? b) end; repeat f_equal; lia.
Qed.
