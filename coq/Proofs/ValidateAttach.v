(* Text validation, part 3: one round of the second loop of protect_text (a validation data item is
   inserted into the validation dataset, attached to the annotation, and the annotation entered
   into dataset_data_annotation_map at its place) preserves every invariant of the store. *)
From Coq Require Import NArith.
From Stam Require Import Base.Tac Base.ListAux Model.Offset Model.Utf8 Model.Store Model.StoreObs Spec.StoreSpec
     Model.TempId Model.DataValue Spec.DataSpec
     Proofs.RelMap Proofs.StoreScan Proofs.StoreInv Proofs.StoreDataDef Proofs.StoreItems Proofs.StoreRemove
     Proofs.StoreSets Proofs.StoreIds Proofs.StoreData
     Model.Validate Proofs.ValidateSet.

(** * the sorted insertion into a row of dataset_data_annotation_map *)

Lemma rget_rupd_any (g : list nat -> list nat) : forall r y y',
  rget (rupd r y g) y' = if (y' =? y) && (y <? length r) then g (rget r y) else rget r y'.
Proof.
  unfold rget. induction r as [|row r IH]; intros y y'.
  - cbn [rupd length]. rewrite andb_false_r. reflexivity.
  - destruct y as [|y]; destruct y' as [|y']; cbn [rupd nth Nat.eqb length]; try reflexivity.
    rewrite IH. change (S y <? S (length r)) with (y <? length r). reflexivity.
Qed.

Lemma rget_overflow (r : rmap) y : length r <= y -> rget r y = [].
Proof. intros H. unfold rget. apply nth_overflow. exact H. Qed.

Lemma tget_tins_sorted m x y z x' y' :
  tget (tins_sorted m x y z) x' y' =
  if (x' =? x) && (y' =? y) then ins_sorted z (tget m x y) else tget m x' y'.
Proof.
  unfold tins_sorted. destruct ((x <? length m) && (y <? length (nth x m []))) eqn:E.
  - unfold tget. rewrite (nth_tupd m (fun r => rupd r y (ins_sorted z))) by reflexivity.
    destruct (x' =? x) eqn:Ex; cbn [andb]; [|reflexivity].
    assert (x' = x) by lia. subst x'. rewrite rget_rupd_any.
    destruct (y' =? y) eqn:Ey; cbn [andb]; [|reflexivity].
    assert (Hy : (y <? length (nth x m [])) = true) by lia. rewrite Hy. reflexivity.
  - rewrite tget_tins. destruct ((x' =? x) && (y' =? y)) eqn:E2; [|reflexivity].
    assert (Hnil : tget m x y = []).
    { unfold tget. destruct (x <? length m) eqn:Ex.
      - apply rget_overflow. cbn [andb] in E. lia.
      - rewrite (nth_overflow m) by lia. apply rget_nil. }
    rewrite Hnil. reflexivity.
Qed.

(** * the store after one round *)

Definition attach (s : store) (sh : nat) (ds' : dset) (h : nat) (a : ann) (x : nat) : store :=
  let s1 := set_sets s (set_slot (sets s) sh (Some ds')) in
  let s2 := set_anns s1 (set_slot (anns s1) h (Some (ann_add_data a (sh, x)))) in
  set_ddam s2 (tins_sorted (ddam s2) sh x h).

Lemma protect_add_attach ktok sh s h v ds a :
  get_set s sh = Some ds -> DsInv ds -> get_ann s h = Some a ->
  exists ds' x k, StrIns ds ds' ktok v x k
                  /\ protect_add ktok sh (s, true) (h, v) = (attach s sh ds' h a x, true).
Proof.
  intros Hs HI Ha. destruct (insert_str ds ktok v HI) as (ds' & x & k & E & SI).
  exists ds', x, k. split; [exact SI|].
  unfold protect_add. cbn [negb fst snd]. rewrite Hs, E.
  change (get_ann (set_sets s (set_slot (sets s) sh (Some ds'))) h) with (get_ann s h). rewrite Ha. reflexivity.
Qed.

Section Attach.
Variables (s : store) (sh : nat) (ds ds' : dset) (h : nat) (a : ann) (x k ktok : nat) (v : text).
Hypothesis Hs : get_set s sh = Some ds.
Hypothesis Ha : get_ann s h = Some a.
Hypothesis SI : StrIns ds ds' ktok v x k.
Let s' := attach s sh ds' h a x.
Let a' := ann_add_data a (sh, x).

Lemma attach_get_ann y : get_ann s' y = if y =? h then Some a' else get_ann s y.
Proof.
  unfold s', attach, get_ann. cbn [anns set_ddam set_anns set_sets]. rewrite slot_set_slot.
  destruct (y =? h) eqn:E; cbn [andb]; [|reflexivity].
  assert (y = h) by lia. subst y. pose proof (slot_lt _ _ _ Ha) as L.
  assert (Hl : (h <? length (anns s)) = true) by lia. rewrite Hl. reflexivity.
Qed.

Lemma attach_get_set d : get_set s' d = if d =? sh then Some ds' else get_set s d.
Proof.
  unfold s', attach, get_set. cbn [sets set_ddam set_anns set_sets]. rewrite slot_set_slot.
  destruct (d =? sh) eqn:E; cbn [andb]; [|reflexivity].
  assert (d = sh) by lia. subst d. pose proof (slot_lt _ _ _ Hs) as L.
  assert (Hl : (sh <? length (sets s)) = true) by lia. rewrite Hl. reflexivity.
Qed.

Lemma attach_ress : ress s' = ress s. Proof. reflexivity. Qed.
Lemma attach_len : length (anns s') = length (anns s).
Proof. unfold s', attach. cbn [anns set_ddam set_anns set_sets]. apply length_set_slot. Qed.

Lemma attach_scan_leaves P : scan s' (has_leaf P) = scan s (has_leaf P).
Proof.
  rewrite !scan_scanl. unfold s', attach. cbn [anns set_ddam set_anns set_sets].
  apply (scanl_set_same (anns s) h a); [exact Ha|reflexivity].
Qed.

Lemma attach_scan_data_In d x0 y :
  In y (scan s' (uses_data d x0)) <-> (y = h /\ d = sh /\ x0 = x) \/ In y (scan s (uses_data d x0)).
Proof.
  rewrite !scan_scanl, !scanl_In.
  change (slot (anns s') y) with (get_ann s' y). change (slot (anns s) y) with (get_ann s y).
  rewrite attach_get_ann. destruct (y =? h) eqn:E.
  - assert (y = h) by lia. subst y. rewrite Ha.
    assert (U : uses_data d x0 a' = uses_data d x0 a || ((sh =? d) && (x =? x0))).
    { unfold uses_data, a', ann_add_data. cbn [a_data]. rewrite existsb_app. cbn [existsb fst snd]. rewrite orb_false_r. reflexivity. }
    split.
    + intros (a0 & E0 & HP). inversion E0; subst a0. rewrite U in HP. apply orb_prop in HP. destruct HP as [HP|HP].
      * right. exists a. auto.
      * left. repeat split; lia.
    + intros [(_ & -> & ->)|(a0 & E0 & HP)]; exists a'; (split; [reflexivity|]); rewrite U.
      * rewrite !Nat.eqb_refl. apply orb_true_r.
      * inversion E0; subst a0. rewrite HP. reflexivity.
  - split.
    + intros H0. right. exact H0.
    + intros [(-> & _)|H0]; [rewrite Nat.eqb_refl in E; discriminate|exact H0].
Qed.

Theorem attach_Inv : Inv s -> Inv s'.
Proof.
  intros [H1 H2 H3 H4 H5 H6 H7].
  constructor; intros;
    unfold s_ts_anns, s_ann_anns, s_res_meta, s_set_meta, s_key_meta, s_data_meta;
    try (rewrite attach_scan_leaves; first [apply H1|apply H2|apply H3|apply H4|apply H5|apply H6]).
  assert (Ed : ddam s' = tins_sorted (ddam s) sh x h) by reflexivity.
  rewrite Ed, tget_tins_sorted. unfold s_data_anns.
  destruct ((d =? sh) && (x0 =? x)) eqn:E.
  - assert (d = sh) by lia. assert (x0 = x) by lia. subst d x0.
    apply sorted_ext.
    + apply ins_sorted_sorted. rewrite (H7 sh x eq_refl). unfold s_data_anns. rewrite scan_scanl. apply scanl_sorted.
    + rewrite scan_scanl. apply scanl_sorted.
    + intros y. rewrite ins_sorted_In, attach_scan_data_In, (H7 sh x eq_refl). unfold s_data_anns. intuition.
  - rewrite (H7 d x0 eq_refl). unfold s_data_anns.
    apply sorted_ext; [rewrite scan_scanl; apply scanl_sorted|rewrite scan_scanl; apply scanl_sorted|].
    intros y. rewrite attach_scan_data_In. split; [auto|]. intros [(_ & -> & ->)|H0]; [|exact H0].
    rewrite !Nat.eqb_refl in E. discriminate.
Qed.

Theorem attach_SetsInv : SetsInv s -> SetsInv s'.
Proof.
  intros H d d0 Hd. rewrite attach_get_set in Hd. destruct (d =? sh).
  - inversion Hd; subst d0. exact (SI_inv _ _ _ _ _ _ SI).
  - exact (H d d0 Hd).
Qed.

Theorem attach_IdInv : IdInv s -> IdInv s'.
Proof.
  intros [A R S]. constructor; unfold s', attach; cbn [anns sets ress aidx sidx ridx set_ddam set_anns set_sets].
  - apply (exact_replace a_id (anns s) (aidx s) h a); [exact A|exact Ha|reflexivity].
  - exact R.
  - apply (exact_replace did (sets s) (sidx s) sh ds); [exact S|exact Hs|].
    unfold did. rewrite (SI_id _ _ _ _ _ _ SI). reflexivity.
Qed.

Lemma attach_data_exists dx : data_exists s dx -> data_exists s' dx.
Proof.
  intros (d0 & it & H1 & H2). unfold data_exists. rewrite attach_get_set.
  destruct (fst dx =? sh) eqn:E.
  - assert (fst dx = sh) by lia. rewrite H in H1. rewrite Hs in H1. inversion H1; subst d0.
    exists ds', it. split; [reflexivity|]. apply (SI_data _ _ _ _ _ _ SI). exact H2.
  - exists d0, it. split; assumption.
Qed.

Theorem attach_data_ok : data_ok s -> data_ok s'.
Proof.
  intros H y a0 Hy dx Hdx. rewrite attach_get_ann in Hy. destruct (y =? h) eqn:E.
  - inversion Hy; subst a0. unfold a', ann_add_data in Hdx. cbn [a_data] in Hdx. apply in_app_or in Hdx.
    destruct Hdx as [Hdx|[<-|[]]].
    + apply attach_data_exists. apply (H h a Ha dx Hdx).
    + destruct (SI_item _ _ _ _ _ _ SI) as (it & Hit & _). exists ds', it. cbn [fst snd].
      rewrite attach_get_set, Nat.eqb_refl. split; [reflexivity|exact Hit].
  - apply attach_data_exists. apply (H y a0 Hy dx Hdx).
Qed.

Theorem attach_wf_targets : wf_targets s -> wf_targets s'.
Proof.
  intros H y a0 Hy. rewrite attach_get_ann in Hy. destruct (y =? h) eqn:E.
  - inversion Hy; subst a0. assert (y = h) by lia. subst y. exact (H h a Ha).
  - exact (H y a0 Hy).
Qed.

Theorem attach_ann_refs_ok : ann_refs_ok s -> ann_refs_ok s'.
Proof.
  intros H y a0 Hy lf Hlf.
  assert (G : exists a1, get_ann s y = Some a1 /\ In lf (a_leaves a1)).
  { rewrite attach_get_ann in Hy. destruct (y =? h) eqn:E.
    - inversion Hy; subst a0. assert (y = h) by lia. subst y. exists a. split; [exact Ha|exact Hlf].
    - exists a0. split; assumption. }
  destruct G as (a1 & H1 & H2). pose proof (H y a1 H1 lf H2) as G.
  destruct lf; try exact I; rewrite attach_get_ann; destruct (_ =? h); try discriminate; exact G.
Qed.

Theorem attach_item_refs_ok : item_refs_ok s -> item_refs_ok s'.
Proof.
  intros H y a0 Hy lf Hlf.
  assert (G : exists a1, get_ann s y = Some a1 /\ In lf (a_leaves a1)).
  { rewrite attach_get_ann in Hy. destruct (y =? h) eqn:E.
    - inversion Hy; subst a0. assert (y = h) by lia. subst y. exists a. split; [exact Ha|exact Hlf].
    - exists a0. split; assumption. }
  destruct G as (a1 & H1 & H2). pose proof (H y a1 H1 lf H2) as G.
  destruct lf; cbn [item_ref_ok] in *; try exact G; try exact I.
  - rewrite attach_get_set. destruct (d =? sh); [discriminate|exact G].
  - destruct G as (d0 & G1 & G2). rewrite attach_get_set. destruct (d =? sh) eqn:E.
    + assert (d = sh) by lia. subst d. rewrite Hs in G1. inversion G1; subst d0. exists ds'. split; [reflexivity|].
      destruct (slot (d_keys ds) k0) as [t|] eqn:Ek; [|destruct (G2 eq_refl)].
      rewrite (SI_keys _ _ _ _ _ _ SI k0 t Ek). discriminate.
    + exists d0. split; assumption.
  - destruct G as (d0 & G1 & G2). rewrite attach_get_set. destruct (d =? sh) eqn:E.
    + assert (d = sh) by lia. subst d. rewrite Hs in G1. inversion G1; subst d0. exists ds'. split; [reflexivity|].
      destruct (slot (d_data ds) x0) as [it|] eqn:Ek; [|destruct (G2 eq_refl)].
      rewrite (SI_data _ _ _ _ _ _ SI x0 it Ek). discriminate.
    + exists d0. split; assumption.
Qed.

End Attach.
