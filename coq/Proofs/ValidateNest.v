(* Text validation, part 7: a selection relative to an annotation lies inside the (single) text
   selection of that annotation, in every reachable store (with protect_text among the
   operations).  With the range invariant (Proofs/StoreRange.v) this gives the whole-store version
   of "the same offsets against resources of unchanged length resolve to the same selections". *)
From Coq Require Import NArith.
From Stam Require Import Base.Tac Base.ListAux Model.Offset Spec.OffsetSpec Proofs.Offset Model.Utf8 Model.Store
     Model.StoreObs Spec.StoreSpec Model.Compress
     Proofs.RelMap Proofs.StoreScan Proofs.StoreInv Proofs.StoreDataDef Proofs.StoreItems Proofs.StoreRemove
     Proofs.StoreRemove3 Proofs.StoreSets Proofs.StoreIds Proofs.StoreData Proofs.StoreErr Proofs.StoreStable Proofs.StoreSel Proofs.StoreRange
     Model.Validate Spec.ValidateSpec Proofs.ValidateJoin Proofs.ValidateSet Proofs.ValidateAttach Proofs.ValidateView
     Proofs.ValidateProtect Proofs.ValidateReload.

Definition nest_leaf (s : store) (lf : leaf) : Prop :=
  match lf with
  | LAnnText p r t _ =>
      exists pa pt prg rg, get_ann s p = Some pa /\ ann_textsel s pa = Some (r, pt, prg)
                           /\ range_of s r t = Some rg
                           /\ fst prg <= fst rg /\ fst rg <= snd rg /\ snd rg <= snd prg
  | _ => True
  end.

Definition NestInv (s : store) : Prop :=
  forall y a, get_ann s y = Some a -> Forall (nest_leaf s) (a_leaves a).

(* the selections of a resource that stays are only appended to *)
Definition res_keep (s s' : store) : Prop :=
  forall r rs rs', get_res s r = Some rs -> get_res s' r = Some rs' -> exists suf, r_sels rs' = r_sels rs ++ suf.

Lemma res_keep_same s s' : ress s' = ress s -> res_keep s s'.
Proof.
  intros E r rs rs' H H'. unfold get_res in *. rewrite E in H'. rewrite H in H'. injection H' as <-.
  exists []. rewrite app_nil_r. reflexivity.
Qed.

Lemma res_keep_sel_ext s s' : sel_ext s s' -> res_keep s s'.
Proof.
  intros (_ & X) r rs rs' H H'. destruct (X r rs H) as (suf & E). rewrite E in H'. injection H' as <-.
  exists suf. reflexivity.
Qed.

Lemma res_keep_trans_same s s1 s' : res_keep s s1 -> ress s' = ress s1 -> res_keep s s'.
Proof. intros K E r rs rs' H H'. apply (K r rs rs' H). unfold get_res in *. rewrite <- E. exact H'. Qed.

Lemma range_of_keep s s' r t rg rs' : res_keep s s' -> get_res s' r = Some rs' ->
  range_of s r t = Some rg -> range_of s' r t = Some rg.
Proof.
  intros K H' H. unfold range_of in *. destruct (get_res s r) as [rs|] eqn:E; [|discriminate].
  destruct (K r rs rs' E H') as (suf & Es). rewrite H', Es. rewrite nth_error_app1; [exact H|].
  apply nth_error_Some. congruence.
Qed.

(* ann_textsel reads the kind, the leaves and one selection *)
Lemma ann_textsel_range s pa r pt prg : ann_textsel s pa = Some (r, pt, prg) -> range_of s r pt = Some prg.
Proof.
  unfold ann_textsel, range_of. destruct (a_kind pa); [|discriminate].
  destruct (a_leaves pa) as [|lf [|lf2 l]]; try discriminate; destruct lf; try discriminate;
    (destruct (get_res s r0) as [rs|] eqn:E; [|discriminate]); (destruct (nth_error (r_sels rs) t) as [rg|] eqn:E2; [|discriminate]);
    intros H; injection H as <- <- <-; rewrite E; exact E2.
Qed.

Lemma ann_textsel_keep s s' pa pa' r pt prg rs' :
  a_kind pa' = a_kind pa -> a_leaves pa' = a_leaves pa ->
  res_keep s s' -> get_res s' r = Some rs' ->
  ann_textsel s pa = Some (r, pt, prg) -> ann_textsel s' pa' = Some (r, pt, prg).
Proof.
  intros Ek El K H' H. pose proof (ann_textsel_range s pa r pt prg H) as Hr.
  pose proof (range_of_keep s s' r pt prg rs' K H' Hr) as Hr'.
  unfold ann_textsel in *. rewrite Ek, El. destruct (a_kind pa); [|discriminate].
  destruct (a_leaves pa) as [|lf [|lf2 l]]; try discriminate; destruct lf; try discriminate;
    (destruct (get_res s r0) as [rs|] eqn:E; [|discriminate]); (destruct (nth_error (r_sels rs) t) as [rg|] eqn:E2; [|discriminate]);
    injection H as -> -> ->; unfold range_of in Hr'; rewrite H' in *; rewrite Hr'; reflexivity.
Qed.

(** * preservation in general *)

Lemma nest_preserved s s' :
  NestInv s -> stable s s' -> res_keep s s' -> ann_refs_ok s' -> item_refs_ok s' ->
  (forall y a', length (anns s) <= y -> get_ann s' y = Some a' -> Forall (nest_leaf s') (a_leaves a')) ->
  NestInv s'.
Proof.
  intros HN (_ & HS) HK HR HI Hnew y a' Hy.
  destruct (le_lt_dec (length (anns s)) y) as [Hge|Hlt]; [apply (Hnew y a' Hge Hy)|].
  destruct (HS y a' Hlt Hy) as (a & Ha & (_ & _ & El & _)).
  pose proof (HN y a Ha) as F. rewrite <- El in F. rewrite Forall_forall in *. intros lf Hin. specialize (F lf Hin).
  destruct lf; try exact I. cbn [nest_leaf] in *.
  destruct F as (pa & pt & prg & rg & Hp & Ht & Hrg & B1 & B2 & B3).
  pose proof (HR y a' Hy _ Hin) as Hlive. cbn in Hlive.
  destruct (get_ann s' a0) as [pa'|] eqn:Hp'; [|destruct (Hlive eq_refl)].
  destruct (HS a0 pa' (get_ann_lt _ _ _ Hp) Hp') as (pa0 & Hp0 & (_ & Ek & Elp & _)).
  rewrite Hp in Hp0. injection Hp0 as <-.
  destruct (HI y a' Hy _ Hin) as (rs' & Hr' & _).
  exists pa', pt, prg, rg. split; [reflexivity|]. split; [eapply ann_textsel_keep; eassumption|].
  split; [eapply range_of_keep; eassumption|]. auto.
Qed.

(** * the steps *)

Lemma step_res_keep s o : SelInv s -> res_keep s (fst (step s o)).
Proof.
  intros HSel. destruct o; cbn [step].
  - unfold add_res. destruct (id_get (ridx s) id) as [h|]; [destruct (get_res s h) as [r|]; [destruct (r_len r =? len)|]; apply res_keep_same; reflexivity|].
    cbn [fst]. intros r rs rs' H H'. unfold get_res in *. cbn [set_ridx set_ress ress] in H'. rewrite slot_app_new in H'.
    destruct (r =? length (ress s)) eqn:E; [apply slot_lt in H; lia|]. rewrite H in H'. injection H' as <-.
    exists []. rewrite app_nil_r. reflexivity.
  - apply res_keep_same. apply add_set_frame.
  - destruct (store_insert_data_frame s b) as (F & _). destruct (store_insert_data s b) as [s' [[d x]|]]; apply res_keep_same; exact F.
  - unfold annotate. destruct (ab_target b) as [tb|]; [|apply res_keep_same; reflexivity].
    pose proof (resolve_target_sel s tb HSel) as R. destruct (resolve_target s tb) as [s1 [[k lfs]|]]; destruct R as (X & _ & _);
      [|apply res_keep_sel_ext; exact X].
    destruct (insert_datas_frame (ab_data b) s1) as (F & _).
    destruct (insert_datas s1 (ab_data b)) as [s2 [data|]]; cbn [fst] in F;
      [|apply (res_keep_trans_same s s1); [apply res_keep_sel_ext; exact X|exact F]].
    destruct (match ab_id b with Some tok => id_get (aidx s2) tok | None => None end) as [h'|].
    + destruct (get_ann s2 h'); [destruct (_ && _)|]; apply (res_keep_trans_same s s1); try (apply res_keep_sel_ext; exact X); exact F.
    + cbn [fst]. apply (res_keep_trans_same s s1); [apply res_keep_sel_ext; exact X|].
      rewrite index_ann_ress. destruct (ab_id b); cbn [set_aidx set_anns ress]; exact F.
  - apply res_keep_same. unfold rm_annotation. destruct (ref_ann s r) as [h|]; [|reflexivity]. apply remove_ann_frame.
  - unfold rm_data. destruct (to_handle (sidx s) d) as [d0|]; [|apply res_keep_same; reflexivity].
    destruct (get_set s d0) as [ds|]; [|apply res_keep_same; reflexivity].
    destruct (to_handle (d_xidx ds) x) as [x0|]; [|apply res_keep_same; reflexivity]. apply res_keep_same. apply remove_data_h_sets.
  - unfold rm_key. destruct (to_handle (sidx s) d) as [d0|]; [|apply res_keep_same; reflexivity].
    destruct (get_set s d0) as [ds|]; [|apply res_keep_same; reflexivity].
    destruct (to_handle (d_kidx ds) k) as [k0|]; [|apply res_keep_same; reflexivity].
    assert (F : forall xs s0, ress (fold_left (fun s x => fst (remove_data_h s d0 x strict)) xs s0) = ress s0).
    { induction xs as [|x xs IH]; intros s0; cbn [fold_left]; [reflexivity|]. rewrite IH. apply remove_data_h_sets. }
    pose proof (F (rget (d_k2x ds) k0) s) as F1. set (s1 := fold_left _ (rget (d_k2x ds) k0) s) in *.
    destruct (get_set s1 d0) as [ds1|]; [|apply res_keep_same; exact F1].
    destruct (slot (d_keys ds1) k0) as [tok|]; [|apply res_keep_same; exact F1]. cbn [fst].
    apply res_keep_same.
    match goal with |- ress (set_kamm (remove_anns ?s2 ?l) _) = _ =>
      destruct (remove_anns_frame l s2) as (_&F2&_); cbn [set_kamm ress]; rewrite F2; exact F1 end.
  - unfold rm_resource. destruct (ref_res s r) as [h|]; [|apply res_keep_same; reflexivity].
    destruct (remove_anns_frame (rget (ramm s) h) s) as (_&A1&_).
    set (s1 := remove_anns s (rget (ramm s) h)) in *.
    destruct (remove_anns_frame (sort_dedup (concat (nth h (trm s1) []))) s1) as (_&A2&_).
    set (s2 := remove_anns s1 _) in *.
    set (s3 := set_trm _ _).
    assert (E3 : ress s3 = ress s) by (unfold s3; cbn [set_trm set_ramm ress]; congruence).
    destruct (get_res s3 h) as [rs|]; cbn [fst]; [|apply res_keep_same; exact E3].
    intros r0 rs0 rs0' H H'. unfold get_res in H'. cbn [set_ress set_ridx ress] in H'. rewrite E3, slot_set_slot in H'.
    destruct ((r0 =? h) && (h <? length (ress s))); [discriminate|]. unfold get_res in H. rewrite H in H'. injection H' as <-.
    exists []. rewrite app_nil_r. reflexivity.
  - apply res_keep_same. unfold rm_dataset. destruct (ref_set s r) as [h|]; [|reflexivity].
    set (users := filter _ (live_handles (anns s))).
    destruct (remove_anns_frame users s) as (_&A1&_). set (s1 := remove_anns s users) in *.
    destruct (remove_anns_frame (rget (samm s1) h) s1) as (_&A2&_). set (s2 := remove_anns s1 (rget (samm s1) h)) in *.
    set (s3 := set_samm s2 (rclear (samm s2) h)).
    set (metas := sort_dedup _).
    destruct (remove_anns_frame metas s3) as (_&A4&_). set (s4 := remove_anns s3 metas) in *.
    set (s5 := set_ddam _ _).
    assert (E5 : ress s5 = ress s) by (unfold s5; cbn [set_ddam set_damm set_kamm ress]; rewrite A4; unfold s3; cbn [set_samm ress]; congruence).
    destruct (get_set s5 h); cbn [fst set_sets set_sidx ress]; exact E5.
  - apply res_keep_same. unfold store_add_key. destruct (ref_set s d) as [h|]; [|reflexivity].
    destruct (get_set s h) as [ds|]; [|reflexivity]. destruct (dset_add_key ds tok) as [d' r]. reflexivity.
Qed.

(** * a new annotation *)

Lemma nest_leaf_mono s s' lf :
  (forall p pa, get_ann s p = Some pa -> get_ann s' p = Some pa) ->
  (forall r rs, get_res s r = Some rs -> exists rs', get_res s' r = Some rs') ->
  res_keep s s' -> nest_leaf s lf -> nest_leaf s' lf.
Proof.
  intros HA HE HK H. destruct lf; try exact I. cbn [nest_leaf] in *.
  destruct H as (pa & pt & prg & rg & Hp & Ht & Hrg & B).
  assert (G : exists rs', get_res s' r = Some rs').
  { unfold range_of in Hrg. destruct (get_res s r) as [rs|] eqn:E; [|discriminate]. apply (HE r rs E). }
  destruct G as (rs' & Hr').
  exists pa, pt, prg, rg. split; [apply HA; exact Hp|]. split; [eapply ann_textsel_keep; try eassumption; reflexivity|].
  split; [eapply range_of_keep; eassumption|exact B].
Qed.

Lemma nest_leaf_ext s s' lf : sel_ext s s' -> nest_leaf s lf -> nest_leaf s' lf.
Proof.
  intros X. apply nest_leaf_mono.
  - intros p pa H. unfold get_ann in *. destruct X as (E & _). rewrite E. exact H.
  - intros r rs H. destruct X as (_ & X). destruct (X r rs H) as (suf & E). eexists. exact E.
  - apply res_keep_sel_ext. exact X.
Qed.

Lemma resolve_simple_nest s b : SelInv s -> RangeInv s ->
  let '(s', r) := resolve_simple s b in forall lf, r = Some lf -> nest_leaf s' lf.
Proof.
  intros HI HR.
  destruct b as [rr o|ar [o|]|rr|dr|dr kr|dr xr|k l]; cbn [resolve_simple].
  - destruct (ref_res s rr) as [r|]; [|discriminate]. destruct (get_res s r) as [rs|]; [|discriminate].
    destruct (resource_ts (r_len rs) o) as [rg|]; [|discriminate].
    destruct (intern_sel s r rs rg) as [s' t]. intros lf H. injection H as <-. exact I.
  - destruct (ref_ann s ar) as [a|]; [|discriminate].
    destruct (get_ann s a) as [an|] eqn:Ea; [|discriminate].
    destruct (ann_textsel s an) as [[[r pt] prg]|] eqn:Et; [|intros lf H; injection H as <-; exact I].
    destruct (selection_ts prg o) as [rg|] eqn:Es; [|discriminate].
    destruct (get_res s r) as [rs|] eqn:Eg; [|discriminate].
    pose proof (intern_sel_ext s r rs rg Eg HI) as X. destruct (intern_sel s r rs rg) as [s' t]. destruct X as (X1 & X2 & X3).
    intros lf H. injection H as <-. cbn [nest_leaf].
    destruct (ann_textsel_in s an r pt prg Et) as (rs0 & Hr0 & Hin). rewrite Eg in Hr0. injection Hr0 as <-.
    destruct (HR r rs Eg prg Hin) as [P1 _]. destruct (selection_ts_range prg o rg P1 Es) as (Q1 & Q2 & Q3).
    destruct X1 as (XA & XR). destruct (XR r rs Eg) as (suf & Er').
    exists an, pt, prg, rg. split; [unfold get_ann in *; rewrite XA; exact Ea|].
    split; [|split; [exact X3|auto]].
    eapply (ann_textsel_keep s s' an an); [reflexivity|reflexivity|apply res_keep_sel_ext; split; assumption|exact Er'|exact Et].
  - destruct (ref_ann s ar) as [a|]; intros lf H; [injection H as <-; exact I|discriminate].
  - destruct (ref_res s rr) as [r|]; intros lf H; [injection H as <-; exact I|discriminate].
  - destruct (ref_set s dr) as [d|]; intros lf H; [injection H as <-; exact I|discriminate].
  - destruct (ref_set s dr) as [d|]; [|discriminate]. destruct (get_set s d) as [ds|]; [|discriminate].
    destruct (ref_key ds kr) as [k|]; intros lf H; [injection H as <-; exact I|discriminate].
  - destruct (ref_set s dr) as [d|]; [|discriminate]. destruct (get_set s d) as [ds|]; [|discriminate].
    destruct (ref_data ds xr) as [x|]; intros lf H; [injection H as <-; exact I|discriminate].
  - discriminate.
Qed.

Lemma resolve_subs_nest l : forall s, SelInv s -> RangeInv s ->
  let '(s', r) := resolve_subs s l in forall lfs, r = Some lfs -> Forall (nest_leaf s') lfs.
Proof.
  induction l as [|b l IH]; intros s HI HR; cbn [resolve_subs].
  - intros lfs H. injection H as <-. constructor.
  - pose proof (resolve_simple_nest s b HI HR) as N1. pose proof (resolve_simple_sel s b HI) as S1.
    pose proof (resolve_simple_range s b HR) as R1.
    destruct (resolve_simple s b) as [s1 [lf1|]]; [|discriminate]. destruct S1 as (_ & I1 & _). cbn [fst] in R1.
    specialize (IH s1 I1 R1). pose proof (resolve_subs_sel l s1 I1) as S2.
    destruct (resolve_subs s1 l) as [s2 [lfs|]]; [|discriminate]. destruct S2 as (X2 & _ & _).
    intros lfs' H. injection H as <-. constructor; [|apply (IH lfs eq_refl)].
    apply (nest_leaf_ext s1 s2 lf1 X2). apply (N1 lf1 eq_refl).
Qed.

Lemma resolve_target_nest s b : SelInv s -> RangeInv s ->
  let '(s', r) := resolve_target s b in forall k lfs, r = Some (k, lfs) -> Forall (nest_leaf s') lfs.
Proof.
  intros HI HR.
  assert (Simple : forall b0,
    let '(s', r) := match resolve_simple s b0 with (s', Some lf) => (s', Some (0, [lf])) | (s', None) => (s', None) end in
    forall k lfs, r = Some (k, lfs) -> Forall (nest_leaf s') lfs).
  { intros b0. pose proof (resolve_simple_nest s b0 HI HR) as R. destruct (resolve_simple s b0) as [s1 [lf|]]; [|discriminate].
    intros k lfs H. injection H as <- <-. constructor; [apply (R lf eq_refl)|constructor]. }
  destruct b; cbn [resolve_target]; try apply Simple.
  pose proof (resolve_subs_nest l s HI HR) as R. destruct (resolve_subs s l) as [s1 [lfs|]]; [|discriminate].
  intros k lfs' H. injection H as <- <-. apply (R lfs eq_refl).
Qed.

Lemma annotate_new_nest s b : SelInv s -> RangeInv s ->
  forall y a', length (anns s) <= y -> get_ann (fst (annotate s b)) y = Some a' ->
  Forall (nest_leaf (fst (annotate s b))) (a_leaves a').
Proof.
  intros HI HR y a' Hge Hy.
  assert (Old : forall s0, anns s0 = anns s -> get_ann s0 y = Some a' -> False).
  { intros s0 E H. apply get_ann_lt in H. rewrite E in H. lia. }
  unfold annotate in *. destruct (ab_target b) as [tb|]; [|destruct (Old s eq_refl Hy)].
  pose proof (resolve_target_nest s tb HI HR) as N. pose proof (resolve_target_core s tb) as C1.
  destruct (resolve_target s tb) as [s1 [[k lfs]|]]; cbn [fst] in *; [|destruct C1 as (E & _); destruct (Old s1 E Hy)].
  specialize (N k lfs eq_refl).
  pose proof (insert_datas_core (ab_data b) s1) as C2. destruct (insert_datas_frame (ab_data b) s1) as (F & _).
  destruct (insert_datas s1 (ab_data b)) as [s2 [data|]]; cbn [fst] in *;
    [|destruct (same_core_trans _ _ _ C1 C2) as (E & _); destruct (Old s2 E Hy)].
  destruct (same_core_trans _ _ _ C1 C2) as (Ea & _). destruct C2 as (Ea2 & _).
  destruct (match ab_id b with Some tok => id_get (aidx s2) tok | None => None end) as [h'|].
  - destruct (get_ann s2 h'); [destruct (_ && _)|]; destruct (Old s2 Ea Hy).
  - cbn [fst] in *.
    match type of Hy with get_ann (index_ann ?s4 ?h0 ?a0) y = _ =>
      destruct (index_ann_ids s4 h0 a0) as (IA & IR & _);
      assert (E4 : anns s4 = anns s2 ++ [Some a0]) by (destruct (ab_id b); reflexivity);
      assert (R4 : ress s4 = ress s2) by (destruct (ab_id b); reflexivity);
      set (sf := index_ann s4 h0 a0) in * end.
    assert (Eanns : anns sf = anns s2 ++ [Some (mkann (ab_id b) data k lfs)]) by congruence.
    assert (Eress : ress sf = ress s1) by congruence.
    unfold get_ann in Hy. rewrite Eanns, slot_app_new in Hy.
    destruct (y =? length (anns s2)) eqn:Ey; [|apply slot_lt in Hy; rewrite Ea in Hy; lia].
    injection Hy as <-. cbn [a_leaves].
    rewrite Forall_forall in *. intros lf Hin. apply (nest_leaf_mono s1 sf lf); [| | |apply (N lf Hin)].
    + intros p pa H. unfold get_ann in *. rewrite Eanns. rewrite Ea2, slot_app_new.
      destruct (p =? length (anns s1)) eqn:E; [apply slot_lt in H; lia|exact H].
    + intros r rs H. exists rs. unfold get_res in *. rewrite Eress. exact H.
    + apply res_keep_same. exact Eress.
Qed.


(** * operations other than annotate keep the number of annotation slots (the proofs follow
      Proofs/StoreStable.v step by step) *)
Definition samelen (s s' : store) : Prop := length (anns s') = length (anns s).
Lemma samelen_refl s : samelen s s. Proof. reflexivity. Qed.
Lemma samelen_trans s1 s2 s3 : samelen s1 s2 -> samelen s2 s3 -> samelen s1 s3.
Proof. unfold samelen. congruence. Qed.
Lemma samelen_same s s' : anns s' = anns s -> samelen s s'.
Proof. unfold samelen. congruence. Qed.
Lemma samelen_set_none s h : samelen s (set_anns s (set_slot (anns s) h None)).
Proof. unfold samelen. cbn [set_anns anns]. apply length_set_slot. Qed.

Lemma remove_ann_samelen : forall fuel s h, samelen s (fst (remove_ann fuel s h)).
Proof.
  induction fuel as [|fuel IH]; intros s h; cbn [remove_ann]; [apply samelen_refl|].
  destruct (get_ann s h) as [a0|]; [|apply samelen_refl].
  assert (F : forall L s0, samelen s0 (fold_left (fun s c => fst (remove_ann fuel s c)) L s0)).
  { induction L as [|c L IHL]; intros s0; cbn [fold_left]; [apply samelen_refl|]. eapply samelen_trans; [apply IH|apply IHL]. }
  pose proof (F (rget (aam s) h) s) as S1.
  set (s1 := fold_left (fun s c => fst (remove_ann fuel s c)) (rget (aam s) h) s) in *.
  set (s2 := set_aam s1 (rclear (aam s1) h)).
  destruct (get_ann s2 h) as [a|]; cbn [fst]; [|eapply samelen_trans; [exact S1|apply samelen_same; reflexivity]].
  eapply samelen_trans; [exact S1|].
  destruct (ufold_data_frame h (a_data a) s2) as (F0&_).
  destruct (ufold_leaves_frame h (a_leaves a) (fold_left (unindex_datum h) (a_data a) s2)) as (_&G1&_).
  assert (E3 : anns (unindex_ann s2 h a) = anns s1) by (rewrite unindex_ann_unfold, G1, F0; reflexivity).
  assert (S3 : samelen s1 (unindex_ann s2 h a)) by (apply samelen_same; exact E3).
  eapply samelen_trans; [exact S3|].
  destruct (a_id a) as [tok|].
  - set (s3 := set_aidx (unindex_ann s2 h a) (id_del (aidx (unindex_ann s2 h a)) tok)).
    eapply samelen_trans; [apply (samelen_same (unindex_ann s2 h a) s3); reflexivity|]. apply (samelen_set_none s3 h).
  - apply samelen_set_none.
Qed.

Lemma remove_anns_samelen l : forall s, samelen s (remove_anns s l).
Proof.
  unfold remove_anns. induction l as [|c l IH]; intros s; cbn [fold_left]; [apply samelen_refl|].
  eapply samelen_trans; [apply remove_ann_samelen|apply IH].
Qed.

Lemma strip_step_samelen d x strict s a : samelen s (strip_step d x strict s a).
Proof.
  unfold strip_step. destruct strict; [apply remove_ann_samelen|].
  destruct (get_ann s a) as [an|] eqn:E; [|apply samelen_refl].
  assert (S1 : samelen s (set_anns s (set_slot (anns s) a (Some (ann_remove_data an d x))))) by (unfold samelen; cbn [set_anns anns]; apply length_set_slot).
  destruct (a_data (ann_remove_data an d x)); [destruct (a_data an)|]; try exact S1.
  eapply samelen_trans; [exact S1|apply remove_ann_samelen].
Qed.

Lemma remove_data_h_samelen s d x strict : samelen s (fst (remove_data_h s d x strict)).
Proof.
  rewrite remove_data_h_unfold. cbv zeta.
  set (users := tget (ddam s) d x).
  assert (F : forall us s0, samelen s0 (fold_left (strip_step d x strict) us s0)).
  { induction us as [|a us IH]; intros s0; cbn [fold_left]; [apply samelen_refl|]. eapply samelen_trans; [apply strip_step_samelen|apply IH]. }
  pose proof (F users s) as S1. set (s1 := fold_left (strip_step d x strict) users s) in *.
  pose proof (remove_anns_samelen (tget (damm s1) d x) s1) as S2. set (s2 := remove_anns s1 (tget (damm s1) d x)) in *.
  set (s3 := set_damm s2 (tclear2 (damm s2) d x)).
  assert (S3 : samelen s s3) by (eapply samelen_trans; [exact S1|eapply samelen_trans; [exact S2|apply samelen_same; reflexivity]]).
  destruct (get_set s3 d) as [ds|]; cbn [fst]; [|exact S3]. destruct (slot (d_data ds) x) as [it|]; cbn [fst]; [|exact S3].
  eapply samelen_trans; [exact S3|]. apply samelen_same.
  match goal with |- anns (fold_left ?f users ?s4) = _ =>
    assert (F4 : forall us s0, anns (fold_left f us s0) = anns s0)
      by (induction us as [|a us IH]; intros s0; cbn [fold_left]; [reflexivity|]; rewrite IH; reflexivity);
    rewrite F4 end.
  reflexivity.
Qed.

Theorem step_samelen s o : (forall b, o <> Annotate b) -> samelen s (fst (step s o)).
Proof.
  intros Hna. destruct o; cbn [step].
  - apply samelen_same. apply (add_res_core s id len).
  - apply samelen_same. apply (add_set_core s id).
  - pose proof (store_insert_data_core s b) as C. destruct (store_insert_data s b) as [s' [[d x]|]]; apply samelen_same; apply C.
  - destruct (Hna b eq_refl).
  - unfold rm_annotation. destruct (ref_ann s r); [apply remove_ann_samelen|apply samelen_refl].
  - unfold rm_data. destruct (to_handle (sidx s) d) as [d0|]; [|apply samelen_refl]. destruct (get_set s d0) as [ds|]; [|apply samelen_refl].
    destruct (to_handle (d_xidx ds) x) as [x0|]; [apply remove_data_h_samelen|apply samelen_refl].
  - unfold rm_key. destruct (to_handle (sidx s) d) as [d0|]; [|apply samelen_refl]. destruct (get_set s d0) as [ds|]; [|apply samelen_refl].
    destruct (to_handle (d_kidx ds) k) as [k0|]; [|apply samelen_refl].
    assert (F : forall xs s0, samelen s0 (fold_left (fun s x => fst (remove_data_h s d0 x strict)) xs s0)).
    { induction xs as [|x xs IH]; intros s0; cbn [fold_left]; [apply samelen_refl|]. eapply samelen_trans; [apply remove_data_h_samelen|apply IH]. }
    pose proof (F (rget (d_k2x ds) k0) s) as S1. set (s1 := fold_left _ (rget (d_k2x ds) k0) s) in *.
    destruct (get_set s1 d0) as [ds1|]; [|exact S1]. destruct (slot (d_keys ds1) k0) as [tok|]; [|exact S1]. cbn [fst].
    eapply samelen_trans; [exact S1|].
    match goal with |- samelen s1 (set_kamm (remove_anns ?s2 ?l) _) =>
      eapply samelen_trans; [apply (samelen_same s1 s2); reflexivity|]; eapply samelen_trans; [apply (remove_anns_samelen l s2)|apply samelen_same; reflexivity] end.
  - unfold rm_resource. destruct (ref_res s r) as [h|]; [|apply samelen_refl].
    pose proof (remove_anns_samelen (rget (ramm s) h) s) as S1. set (s1 := remove_anns s (rget (ramm s) h)) in *.
    pose proof (remove_anns_samelen (sort_dedup (concat (nth h (trm s1) []))) s1) as S2. set (s2 := remove_anns s1 _) in *.
    eapply samelen_trans; [exact S1|]. eapply samelen_trans; [exact S2|]. apply samelen_same.
    destruct (get_res _ h); reflexivity.
  - unfold rm_dataset. destruct (ref_set s r) as [h|]; [|apply samelen_refl].
    set (users := filter _ (live_handles (anns s))).
    pose proof (remove_anns_samelen users s) as S1. set (s1 := remove_anns s users) in *.
    pose proof (remove_anns_samelen (rget (samm s1) h) s1) as S2. set (s2 := remove_anns s1 (rget (samm s1) h)) in *.
    set (s3 := set_samm s2 (rclear (samm s2) h)). set (metas := sort_dedup _).
    pose proof (remove_anns_samelen metas s3) as S4. set (s4 := remove_anns s3 metas) in *.
    eapply samelen_trans; [exact S1|]. eapply samelen_trans; [exact S2|].
    eapply samelen_trans; [apply (samelen_same s2 s3); reflexivity|]. eapply samelen_trans; [exact S4|].
    apply samelen_same. destruct (get_set _ h); reflexivity.
  - apply samelen_same. apply (store_add_key_core s d tok).
Qed.


(** * every step, protect_text included *)

Theorem step_NestInv s o : op_ok o -> W s -> SelInv s -> RangeInv s -> NestInv s -> NestInv (fst (step s o)).
Proof.
  intros Ho HW HSel HR HN. pose proof (step_W s o Ho HW) as HW'.
  apply (nest_preserved s); [exact HN|apply step_stable|apply step_res_keep; exact HSel|apply (W_refs _ HW')|apply (W_items _ HW')|].
  intros y a' Hge Hy.
  assert (Other : (forall b, o <> Annotate b) -> False).
  { intros Hna. pose proof (step_samelen s o Hna) as L. unfold samelen in L. apply get_ann_lt in Hy. lia. }
  destruct o; try (exfalso; apply Other; intros b0; discriminate).
  cbn [step] in *. apply (annotate_new_nest s b HSel HR y a' Hge Hy).
Qed.

Lemma protect_NestInv H txts s m : W s -> NestInv s -> NestInv (fst (protect H txts s m)).
Proof.
  intros HW HN. destruct (protect_spec H txts s m HW) as (s' & -> & (_ & Er & _ & HA)). cbn [fst].
  assert (K : res_keep s s') by (apply res_keep_same; exact Er).
  intros y a1 Hy. pose proof (HA y) as Ay. destruct (get_ann s y) as [a0|] eqn:E0; [|congruence].
  destruct Ay as (a1' & G1 & El & _). rewrite Hy in G1. injection G1 as <-.
  pose proof (HN y a0 E0) as F. rewrite El. rewrite Forall_forall in *. intros lf Hin. specialize (F lf Hin).
  destruct lf; try exact I. cbn [nest_leaf] in *. destruct F as (pa & pt & prg & rg & Hp & Ht & Hrg & B).
  pose proof (HA a) as Ap. rewrite Hp in Ap. destruct Ap as (pa' & Gp & Elp & Ekp & _).
  assert (G : exists rs', get_res s' r = Some rs').
  { unfold range_of in Hrg. destruct (get_res s r) as [rs|] eqn:E; [|discriminate]. exists rs. unfold get_res in *. rewrite Er. exact E. }
  destruct G as (rs' & Hr').
  exists pa', pt, prg, rg. split; [exact Gp|]. split; [eapply ann_textsel_keep; eassumption|].
  split; [eapply range_of_keep; eassumption|exact B].
Qed.

(* everything that holds of a store built by the store operations and protect_text *)
Record W2 (s : store) : Prop := mkW2 {
  W2_W : W s; W2_sel : SelInv s; W2_range : RangeInv s; W2_nest : NestInv s
}.

Lemma protect_ress H txts s m : W s -> ress (fst (protect H txts s m)) = ress s.
Proof. intros HW. destruct (protect_spec H txts s m HW) as (s' & -> & (_ & Er & _)). exact Er. Qed.

Theorem reach_W2 s : reach s -> W2 s.
Proof.
  induction 1 as [|s o Ho _ IH|H txts s m _ IH].
  - constructor.
    + apply (reachable_W []). constructor.
    + apply (reachable_SelInv []).
    + apply (reachable_RangeInv []).
    + intros y a Hy. unfold get_ann, slot in Hy. cbn in Hy. destruct y; discriminate.
  - destruct IH as [HW HS HR HN]. constructor.
    + apply step_W; assumption.
    + apply step_SelInv; assumption.
    + apply (step_AllRes in_res); [intros id len rg []|exact annotate_RangeInv|exact HR].
    + apply step_NestInv; assumption.
  - destruct IH as [HW HS HR HN]. pose proof (protect_ress H txts s m HW) as Er. constructor.
    + apply protect_W; assumption.
    + apply (SelInv_same s); assumption.
    + apply (AllRes_same in_res s); assumption.
    + apply protect_NestInv; assumption.
Qed.

Theorem reachable_W2 ops : Forall op_ok ops -> W2 (run ops).
Proof.
  intros Hok. apply reach_W2. unfold run.
  assert (G : forall l s0, Forall op_ok l -> reach s0 -> reach (fold_left (fun s o => fst (step s o)) l s0)).
  { induction l as [|o l IH]; intros s0 Hf Hr; cbn [fold_left]; [exact Hr|]. inversion Hf; subst. apply IH; [assumption|]. apply reach_step; assumption. }
  apply G; [exact Hok|constructor].
Qed.

(** * The same offsets against resources of unchanged length: the whole store *)

Definition live_ranges (s : store) (hs : list nat) : list (list (nat * (nat * nat))) :=
  omap (fun h => option_map (ann_ranges s) (get_ann s h)) hs.

Section Same.
Variables (s : store) (lens : nat -> nat).
Hypothesis HR : RangeInv s.
Hypothesis HN : NestInv s.
Hypothesis Hwf : wf_targets s.
Hypothesis Hlens : forall r rs, get_res s r = Some rs -> lens r = r_len rs.

(* [singles] knows the selection of every older annotation that has a single one *)
Definition Sing (n : nat) (singles : list (nat * (nat * (nat * nat)))) : Prop :=
  forall p pa r pt prg, p < n -> get_ann s p = Some pa -> ann_textsel s pa = Some (r, pt, prg) ->
                        alookup p singles = Some (r, prg).

Lemma reresolve_leaf_same n singles y a lf :
  Sing n singles -> get_ann s y = Some a -> In lf (a_leaves a) -> y <= n ->
  reresolve_leaf s lens singles lf = Some (match leaf_tsel lf with Some rt => tsel_range s rt | None => None end).
Proof.
  intros HS Hy Hin Hle. destruct lf; try reflexivity; cbn [leaf_tsel]; unfold tsel_range; cbn [fst snd].
  - cbn [reresolve_leaf]. destruct (get_res s r) as [rs|] eqn:Er; [|reflexivity].
    destruct (nth_error (r_sels rs) t) as [[b e]|] eqn:Et; [|reflexivity].
    destruct (HR r rs Er (b, e) (nth_error_In _ _ Et)) as [B1 B2]. cbn [fst snd] in *.
    pose proof (reresolve_text_same s lens singles r t m rs b e Er Et B1 B2 (Hlens r rs Er)) as E.
    cbn [reresolve_leaf] in E. rewrite Er, Et in E. exact E.
  - pose proof (HN y a Hy) as F. rewrite Forall_forall in F. specialize (F _ Hin). cbn [nest_leaf] in F.
    destruct F as (pa & pt & [pb pe] & [b e] & Hp & Ht & Hrg & B1 & B2 & B3). cbn [fst snd] in *.
    unfold range_of in Hrg. destruct (get_res s r) as [rs|] eqn:Er; [|discriminate]. rewrite Hrg.
    pose proof (Hwf y a Hy) as L. rewrite Forall_forall in L. specialize (L _ Hin). cbn [leaf_lt] in L.
    pose proof (HS a0 pa r pt (pb, pe) ltac:(lia) Hp Ht) as Hl.
    pose proof (reresolve_relative_same s lens singles a0 r t m rs pa r pt pb pe b e Er Hp Hrg Ht Hl B1 B2 B3) as E.
    exact E.
Qed.

Lemma reresolve_leaves_same n singles y a : Sing n singles -> get_ann s y = Some a -> y <= n ->
  forall l, incl l (a_leaves a) -> reresolve_leaves s lens singles l = Some (omap (tsel_range s) (omap leaf_tsel l)).
Proof.
  intros HS Hy Hle. induction l as [|lf l IH]; intros Hincl; cbn [reresolve_leaves omap]; [reflexivity|].
  rewrite (reresolve_leaf_same n singles y a lf HS Hy (Hincl lf (or_introl eq_refl)) Hle).
  rewrite IH by (intros x Hx; apply Hincl; right; exact Hx).
  destruct (leaf_tsel lf) as [rt|]; cbn [omap]; [|reflexivity]. destruct (tsel_range s rt); reflexivity.
Qed.

Lemma reresolve_from_same : forall k n singles, Sing n singles ->
  reresolve_from s lens (seq n k) singles = Some (live_ranges s (seq n k)).
Proof.
  induction k as [|k IH]; intros n singles HS; cbn [seq reresolve_from live_ranges omap]; [reflexivity|].
  destruct (get_ann s n) as [a|] eqn:Hn; cbn [option_map].
  - rewrite (reresolve_leaves_same n singles n a HS Hn (le_n n) (a_leaves a) (incl_refl _)).
    set (l := omap (tsel_range s) (omap leaf_tsel (a_leaves a))).
    set (singles' := match a_kind a, a_leaves a, l with
                     | 0, [LText _ _ _], [x] | 0, [LAnnText _ _ _ _], [x] => (n, x) :: singles
                     | _, _, _ => singles end).
    assert (HS' : Sing (S n) singles').
    { intros p pa r pt prg Hlt Hp Ht. destruct (Nat.eq_dec p n) as [->|Hne].
      - rewrite Hn in Hp. injection Hp as <-. unfold singles', l. unfold ann_textsel in Ht.
        destruct (a_kind a); [|discriminate]. destruct (a_leaves a) as [|lf [|lf2 l2]]; try discriminate; destruct lf; try discriminate;
          (destruct (get_res s r0) as [rs|] eqn:Er; [|discriminate]); (destruct (nth_error (r_sels rs) t) as [rg|] eqn:Et; [|discriminate]);
          injection Ht as -> -> ->; cbn [omap leaf_tsel]; unfold tsel_range; cbn [fst snd]; rewrite Er, Et; cbn [alookup]; rewrite Nat.eqb_refl; reflexivity.
      - assert (Hlt' : p < n) by lia. pose proof (HS p pa r pt prg Hlt' Hp Ht) as E.
        clearbody l. unfold singles'. destruct (a_kind a) as [|k0]; [|exact E].
        destruct (a_leaves a) as [|lf [|lf2 l2]]; try exact E; destruct lf; try exact E;
          destruct l as [|x [|x2 l3]]; try exact E; cbn [alookup]; (destruct (n =? p) eqn:En; [lia|exact E]). }
    rewrite (IH (S n) singles' HS'). unfold ann_ranges. fold l. reflexivity.
  - apply IH. intros p pa r pt prg Hlt Hp Ht. destruct (Nat.eq_dec p n) as [->|Hne]; [congruence|]. apply (HS p pa r pt prg); [lia|assumption|assumption].
Qed.

Theorem reresolve_same : reresolve s lens = Some (live_ranges s (seq 0 (length (anns s)))).
Proof. unfold reresolve. apply reresolve_from_same. intros p pa r pt prg Hlt. lia. Qed.

End Same.

(** * Validation after loading against texts of the same lengths *)

Definition live_anns (s : store) : list ann := omap (get_ann s) (seq 0 (length (anns s))).

(* the texts have the lengths the store knows *)
Definition texts_fit (s : store) (txts : list text) : Prop :=
  forall r rs, get_res s r = Some rs -> length (nth r txts ([] : text)) = r_len rs.

(* the verdicts of the live annotations of the store loaded against [txts'] (None: refused) *)
Definition reload_verdicts (H : text -> text) (s : store) (txts' : list text) : option (list (option bool)) :=
  match reresolve s (fun r => length (nth r txts' ([] : text))) with
  | None => None
  | Some ll => Some (map (fun al => validate_on H s (fst al) (map (piece txts') (snd al))) (combine (live_anns s) ll))
  end.

Theorem reload_same_lengths H s txts' : W2 s -> texts_fit s txts' ->
  reload_verdicts H s txts' = Some (map (validate_ann H txts' s) (live_anns s)).
Proof.
  intros [HW _ HR HN] Hfit. unfold reload_verdicts.
  rewrite (reresolve_same s _ HR HN (W_wf s HW) Hfit). f_equal. unfold live_anns, live_ranges.
  induction (seq 0 (length (anns s))) as [|h hs IH]; cbn [omap]; [reflexivity|].
  destruct (get_ann s h) as [a|]; cbn [option_map combine map]; [|exact IH]. rewrite IH. reflexivity.
Qed.

Lemma texts_fit_lengths s (txts txts' : list text) :
  map (@length N) txts = map (@length N) txts' -> texts_fit s txts -> texts_fit s txts'.
Proof. intros E Hf r rs Hr. rewrite <- (Hf r rs Hr). symmetry. apply nth_len_eq. exact E. Qed.

(* the protected store, loaded against texts of the same lengths, is never refused and gives
   exactly the verdicts of which protect_detects speaks *)
Theorem protect_reload_same_lengths H txts txts' s m : reach s -> texts_fit s txts ->
  map (@length N) txts = map (@length N) txts' ->
  let s' := fst (protect H txts s m) in
  reload_verdicts H s' txts' = Some (map (validate_ann H txts' s') (live_anns s')).
Proof.
  intros Hr Hf El s'. apply reload_same_lengths.
  - apply reach_W2. apply reach_protect. exact Hr.
  - apply (texts_fit_lengths s' txts txts' El). intros r rs Hg. apply (Hf r rs).
    unfold get_res in *. unfold s' in Hg. rewrite (protect_ress H txts s m (W2_W s (reach_W2 s Hr))) in Hg. exact Hg.
Qed.
