(* Lemmas about the STAM CSV model (Model/Csv.v) and its specification (Spec/CsvSpec.v). *)
From Coq Require Import List NArith ZArith Bool Arith Lia.
Import ListNotations.
From Stam Require Import Base.Tac Base.Sx Model.Offset Model.Store Model.Loader Model.Csv Spec.CsvSpec
  Proofs.Loader.
From Stam Require Spec.OffsetSpec Proofs.Offset.

(** * join and split on ';' *)

Lemma split_semi_app x : forall cur rest, has_semi x = false ->
  split_semi (x ++ 59%N :: rest) cur = (rev cur ++ x) :: split_semi rest [].
Proof.
  induction x as [|c x IH]; intros cur rest H.
  - cbn [app split_semi]. change (59 =? 59)%N with true. cbn iota. rewrite app_nil_r. reflexivity.
  - cbn [has_semi existsb] in H. apply orb_false_elim in H. destruct H as [Hc Hx].
    cbn [app split_semi]. rewrite Hc. rewrite IH by exact Hx. cbn [rev]. rewrite <- app_assoc. reflexivity.
Qed.

Theorem split_join l : (forall x, In x l -> has_semi x = false) -> l <> [] -> split (join_semi l) = l.
Proof.
  induction l as [|x l IH]; intros H Hne; [contradiction|].
  destruct l as [|y l].
  - cbn [join_semi]. apply split_nosemi. apply H. left. reflexivity.
  - change (join_semi (x :: y :: l)) with (x ++ 59%N :: join_semi (y :: l)).
    unfold split. rewrite split_semi_app by (apply H; left; reflexivity).
    cbn [rev app]. f_equal. apply IH; [|discriminate].
    intros z Hz. apply H. right. exact Hz.
Qed.

(* the push loops of the writer produce the documented join *)
Lemma push_all_join own l : own ++ push_all l = column_spec own l.
Proof.
  unfold column_spec. revert own. induction l as [|x l IH]; intro own.
  - cbn. apply app_nil_r.
  - change (push_all (x :: l)) with ((59%N :: x) ++ push_all l).
    change (join_semi (own :: x :: l)) with (own ++ 59%N :: join_semi (x :: l)).
    rewrite <- IH. reflexivity.
Qed.

Lemma join_semi_length_split own l : (forall x, In x (own :: l) -> has_semi x = false) ->
  split (own ++ push_all l) = own :: l.
Proof. intro H. rewrite push_all_join. apply split_join; [exact H|discriminate]. Qed.

(** * The decoder: the data columns and the target columns are read independently *)

Definition norm (r : csvrow) : csvrow :=
  {| c_id := c_id r; c_data := [120%N]; c_set := [121%N]; c_kind := c_kind r; c_res := c_res r;
     c_ann := c_ann r; c_dset := c_dset r; c_begin := c_begin r; c_end := c_end r; c_key := c_key r;
     c_tdata := c_tdata r |}.

(* the (set, data) pairs of a row: sets by position, the last one for the positions beyond *)
Definition data_of (r : csvrow) : list (str * str) :=
  if is_empty (c_data r) then []
  else map (fun p => (match get_or_last (split (c_set r)) (fst p) with Some s => s | None => [] end, snd p))
           (enumerate_from 0 (split (c_data r))).

Definition with_pairs (b : Loader.abuild) (d : list (str * str)) : Loader.abuild :=
  {| Loader.ab_id := Loader.ab_id b; Loader.ab_data := d; Loader.ab_target := Loader.ab_target b |}.

Lemma csv_row_indep r1 r2 :
  c_id r1 = c_id r2 -> c_kind r1 = c_kind r2 -> c_res r1 = c_res r2 -> c_ann r1 = c_ann r2 ->
  c_dset r1 = c_dset r2 -> c_begin r1 = c_begin r2 -> c_end r1 = c_end r2 -> c_key r1 = c_key r2 ->
  c_tdata r1 = c_tdata r2 ->
  csv_row false r1 = bind (csv_row false r2) (fun b => Ok (with_pairs b (data_of r1))).
Proof.
  intros E1 E2 E3 E4 E5 E6 E7 E8 E9.
  unfold csv_row, data_of. cbn [andb]. rewrite <- E1, <- E2, <- E3, <- E4, <- E5, <- E6, <- E7, <- E8, <- E9.
  destruct (kinds_of (split (c_kind r1))) as [kinds| | | |]; cbn [bind]; try reflexivity.
  destruct kinds as [|k0 krest]; cbn [bind]; try reflexivity.
  match goal with |- bind ?T _ = _ => destruct T end; reflexivity.
Qed.

Lemma csv_row_now_norm r :
  csv_row_now r = bind (csv_row false (norm r)) (fun b => Ok (with_pairs b (data_of r))).
Proof. unfold csv_row_now. apply csv_row_indep; reflexivity. Qed.

(** * The data columns *)

Lemma join_semi_snoc p x : p <> [] -> join_semi (p ++ [x]) = join_semi p ++ 59%N :: x.
Proof.
  induction p as [|y p IH]; intro H; [contradiction|].
  destruct p as [|z p]; [reflexivity|].
  change (join_semi ((y :: z :: p) ++ [x])) with (y ++ 59%N :: join_semi ((z :: p) ++ [x])).
  rewrite IH by discriminate.
  change (join_semi (y :: z :: p)) with (y ++ 59%N :: join_semi (z :: p)).
  rewrite <- app_assoc. reflexivity.
Qed.

Definition pairs_wf (ds : list (str * str)) : Prop :=
  forall p, In p ds -> has_semi (fst p) = false /\ has_semi (snd p) = false /\ snd p <> [].

Lemma join_semi_nonempty l : l <> [] -> (forall x, In x l -> x <> []) -> join_semi l <> [].
Proof.
  destruct l as [|x l]; intros H Hx; [contradiction|].
  assert (x <> []) as Hne by (apply Hx; left; reflexivity).
  destruct l as [|y l]; [exact Hne|].
  change (join_semi (x :: y :: l)) with (x ++ 59%N :: join_semi (y :: l)).
  destruct x; [contradiction|discriminate].
Qed.

Lemma data_columns_fold l : forall p, (forall q, In q (p ++ l) -> snd q <> []) ->
  fold_left (fun acc q => let '(dcol, scol) := acc in
                          if is_empty dcol then (dcol ++ snd q, scol ++ fst q)
                          else (dcol ++ 59%N :: snd q, scol ++ 59%N :: fst q)) l
            (join_semi (map snd p), join_semi (map fst p))
  = (join_semi (map snd (p ++ l)), join_semi (map fst (p ++ l))).
Proof.
  induction l as [|q l IH]; intros p Hne.
  - rewrite app_nil_r. reflexivity.
  - cbn [fold_left].
    assert (forall q', In q' ((p ++ [q]) ++ l) -> snd q' <> []) as Hne'.
    { intros q' Hq'. apply Hne. rewrite <- app_assoc in Hq'. exact Hq'. }
    destruct p as [|p0 p].
    + cbn [map join_semi is_empty app]. apply (IH [q]). exact Hne'.
    + assert (is_empty (join_semi (map snd (p0 :: p))) = false) as E.
      { assert (join_semi (map snd (p0 :: p)) <> []) as H.
        { apply join_semi_nonempty; [discriminate|].
          intros x Hx. apply in_map_iff in Hx. destruct Hx as (q' & <- & Hq'). apply Hne.
          apply in_or_app. left. exact Hq'. }
        destruct (join_semi (map snd (p0 :: p))); [contradiction|reflexivity]. }
      rewrite E.
      rewrite <- !join_semi_snoc by discriminate.
      change [snd q] with (map snd [q]). change [fst q] with (map fst [q]). rewrite <- !map_app.
      rewrite IH by exact Hne'.
      rewrite <- app_assoc. reflexivity.
Qed.

(* the two data columns are the joins of the data ids and of the set ids *)
Lemma data_columns_join ds : (forall q, In q ds -> snd q <> []) ->
  data_columns ds = (join_semi (map snd ds), join_semi (map fst ds)).
Proof.
  intro H. destruct ds as [|[s1 d1] ds]; [reflexivity|].
  destruct ds as [|q2 ds]; [reflexivity|].
  unfold data_columns. apply (data_columns_fold _ []). exact H.
Qed.

Lemma get_or_last_nth {A} (l : list A) i x : nth_error l i = Some x -> get_or_last l i = Some x.
Proof.
  intro H. unfold get_or_last.
  destruct (last_opt_some l) as [la E]; [destruct l; [destruct i; discriminate|discriminate]|].
  rewrite E, H. reflexivity.
Qed.

Lemma data_pairs_back (ds : list (str * str)) : forall pre : list str,
  map (fun p => (match get_or_last (pre ++ map fst ds) (fst p) with Some s => s | None => [] end, snd p))
      (enumerate_from (length pre) (map snd ds)) = ds.
Proof.
  induction ds as [|[s d] ds IH]; intro pre; [reflexivity|].
  cbn [map enumerate_from fst snd]. f_equal.
  - rewrite (get_or_last_nth _ _ s); [reflexivity|].
    rewrite nth_error_app2 by lia. rewrite Nat.sub_diag. reflexivity.
  - specialize (IH (pre ++ [s])). rewrite <- app_assoc in IH. cbn [app] in IH.
    rewrite app_length in IH. cbn [length] in IH. rewrite Nat.add_1_r in IH. exact IH.
Qed.

(* the decoder reads the pairs back *)
Lemma data_of_columns r ds : pairs_wf ds ->
  c_data r = fst (data_columns ds) -> c_set r = snd (data_columns ds) -> data_of r = ds.
Proof.
  intros Hwf Hd Hs. rewrite data_columns_join in Hd, Hs by (intros q Hq; apply Hwf; exact Hq).
  cbn [fst snd] in Hd, Hs. unfold data_of. rewrite Hd, Hs.
  destruct ds as [|q ds]; [reflexivity|].
  assert (join_semi (map snd (q :: ds)) <> []) as Hne.
  { apply join_semi_nonempty; [discriminate|]. intros x Hx. apply in_map_iff in Hx.
    destruct Hx as (q' & <- & Hq'). apply Hwf. exact Hq'. }
  assert (is_empty (join_semi (map snd (q :: ds))) = false) as E
    by (destruct (join_semi (map snd (q :: ds))); [contradiction|reflexivity]).
  match goal with |- (if ?c then _ else _) = _ => replace c with false by (symmetry; exact E) end.
  rewrite !split_join.
  - apply (data_pairs_back (q :: ds) []).
  - intros x Hx. apply in_map_iff in Hx. destruct Hx as (q' & <- & Hq'). apply Hwf. exact Hq'.
  - discriminate.
  - intros x Hx. apply in_map_iff in Hx. destruct Hx as (q' & <- & Hq'). apply Hwf. exact Hq'.
  - discriminate.
Qed.

(** * The target columns *)

Lemma kind_str_eq k : kind_str k = str_of_kind k.
Proof. destruct k; reflexivity. Qed.

Lemma kind_str_nosemi k : has_semi (kind_str k) = false.
Proof. destruct k; reflexivity. Qed.

(* every kind the writer emits is accepted by the reader *)
Lemma kind_str_roundtrip k : kind_of_str (kind_str k) = Ok k.
Proof. rewrite kind_str_eq. apply kind_roundtrip. Qed.

Lemma kinds_of_map l : kinds_of (map kind_str l) = Ok l.
Proof.
  induction l as [|k l IH]; [reflexivity|].
  cbn [map kinds_of]. rewrite kind_str_roundtrip. cbn [bind]. rewrite IH. reflexivity.
Qed.

(* the columns of one simple selector *)
Definition member_of (b : Loader.sbuild) : member :=
  match b with
  | BText r cb ce => {| m_kind := KText; m_res := r; m_ann := []; m_dset := []; m_begin := str_of_cursor cb;
                        m_end := str_of_cursor ce; m_key := []; m_tdata := [] |}
  | BAnn a None => {| m_kind := KAnnotation; m_res := []; m_ann := a; m_dset := []; m_begin := []; m_end := [];
                      m_key := []; m_tdata := [] |}
  | BAnn a (Some (cb, ce)) => {| m_kind := KAnnotation; m_res := []; m_ann := a; m_dset := [];
                                 m_begin := str_of_cursor cb; m_end := str_of_cursor ce; m_key := []; m_tdata := [] |}
  | BRes r => {| m_kind := KResource; m_res := r; m_ann := []; m_dset := []; m_begin := []; m_end := [];
                 m_key := []; m_tdata := [] |}
  | BSet s => {| m_kind := KDataSet; m_res := []; m_ann := []; m_dset := s; m_begin := []; m_end := [];
                 m_key := []; m_tdata := [] |}
  | BKey s k => {| m_kind := KDataKey; m_res := []; m_ann := []; m_dset := s; m_begin := []; m_end := [];
                   m_key := k; m_tdata := [] |}
  | BDat s d => {| m_kind := KData; m_res := []; m_ann := []; m_dset := s; m_begin := []; m_end := [];
                   m_key := []; m_tdata := d |}
  | BComplex _ _ => {| m_kind := KMulti; m_res := []; m_ann := []; m_dset := []; m_begin := []; m_end := [];
                       m_key := []; m_tdata := [] |}
  end.

(* a sub-selector of a complex selector must name its item (the reader refuses an empty slot) *)
Definition sub_wf (b : Loader.sbuild) : Prop :=
  simple_wf b /\
  match b with
  | BText r _ _ | BRes r => r <> []
  | BAnn a _ => a <> []
  | BSet s | BKey s _ | BDat s _ => s <> []
  | BComplex _ _ => False
  end.

Lemma member_of_nosemi b : simple_wf b ->
  has_semi (m_res (member_of b)) = false /\ has_semi (m_ann (member_of b)) = false /\
  has_semi (m_dset (member_of b)) = false /\ has_semi (m_begin (member_of b)) = false /\
  has_semi (m_end (member_of b)) = false /\ has_semi (m_key (member_of b)) = false /\
  has_semi (m_tdata (member_of b)) = false.
Proof.
  destruct b as [r cb ce|a [[cb ce]|]|r|s|s k|s d|k l]; cbn [simple_wf member_of m_res m_ann m_dset m_begin m_end m_key m_tdata];
    unfold nosemi; intro H; repeat split; try reflexivity; try apply str_of_cursor_nosemi; tauto.
Qed.

Lemma nth_error_cons_map {A B} (f : A -> B) (x : B) (l : list A) j a :
  nth_error l j = Some a -> nth_error (x :: map f l) (S j) = Some (f a).
Proof. intro H. cbn [nth_error]. apply map_nth_error. exact H. Qed.

Section Complex.
  Variable ck : skind.
  Variable bs : list Loader.sbuild.
  Let ms := map member_of bs.
  Let kinds := ck :: map m_kind ms.
  Let col (f : member -> str) : list str := [] :: map f ms.

  Lemma csv_sub_at j b : nth_error bs j = Some b -> sub_wf b ->
    csv_sub false kinds (col m_res) (col m_dset) (col m_ann) (col m_key) (col m_tdata) (col m_begin) (col m_end) (S j)
    = Ok b.
  Proof.
    intros Hj [Hwf Hne].
    assert (forall f, nth_error (col f) (S j) = Some (f (member_of b))) as Hcol.
    { intro f. unfold col, ms. rewrite map_map.
      apply (nth_error_cons_map (fun x => f (member_of x))). exact Hj. }
    assert (get_or_last kinds (S j) = Some (m_kind (member_of b))) as Hk.
    { apply get_or_last_nth. unfold kinds, ms. rewrite map_map.
      apply (nth_error_cons_map (fun x => m_kind (member_of x))). exact Hj. }
    unfold csv_sub. rewrite Hk.
    destruct b as [r cb ce|a [[cb ce]|]|r|s|s k|s d|k l]; cbn [sub_wf simple_wf] in *; try contradiction;
      cbn [member_of m_kind].
    - rewrite (get_or_last_nth _ _ _ (Hcol m_res)). cbn [member_of m_res].
      destruct r; [contradiction|]. cbn [is_empty].
      rewrite (Hcol m_begin), (Hcol m_end). cbn [member_of m_begin m_end].
      destruct Hwf as (_ & Hb & He). rewrite cursor_pair_roundtrip by assumption. reflexivity.
    - rewrite (get_or_last_nth _ _ _ (Hcol m_ann)). cbn [member_of m_ann].
      destruct a; [contradiction|]. cbn [is_empty].
      rewrite (Hcol m_begin), (Hcol m_end). cbn [member_of m_begin m_end].
      rewrite !str_of_cursor_nonempty. cbn [negb andb].
      destruct Hwf as (_ & Hb & He). rewrite cursor_pair_roundtrip by assumption. reflexivity.
    - rewrite (get_or_last_nth _ _ _ (Hcol m_ann)). cbn [member_of m_ann].
      destruct a; [contradiction|]. cbn [is_empty].
      rewrite (Hcol m_begin). cbn [member_of m_begin is_empty]. reflexivity.
    - rewrite (get_or_last_nth _ _ _ (Hcol m_res)). cbn [member_of m_res].
      destruct r; [contradiction|]. reflexivity.
    - rewrite (get_or_last_nth _ _ _ (Hcol m_dset)). cbn [member_of m_dset].
      destruct s; [contradiction|]. reflexivity.
    - rewrite (get_or_last_nth _ _ _ (Hcol m_dset)), (get_or_last_nth _ _ _ (Hcol m_key)). cbn [member_of m_dset m_key].
      destruct s; [contradiction|]. reflexivity.
    - rewrite (get_or_last_nth _ _ _ (Hcol m_dset)), (get_or_last_nth _ _ _ (Hcol m_tdata)). cbn [member_of m_dset m_tdata].
      destruct s; [contradiction|]. reflexivity.
  Qed.
End Complex.

Lemma csv_subs_seq kinds ress dsets anns keys tdatas begins ends (bs : list Loader.sbuild) : forall pre,
  (forall j b, nth_error bs j = Some b ->
     csv_sub false kinds ress dsets anns keys tdatas begins ends (S (pre + j)) = Ok b) ->
  csv_subs false kinds ress dsets anns keys tdatas begins ends (seq (S pre) (length bs)) = Ok bs.
Proof.
  induction bs as [|b bs IH]; intros pre H; [reflexivity|].
  cbn [length seq csv_subs].
  rewrite <- (Nat.add_0_r pre) at 1. rewrite (H 0 b eq_refl). cbn [bind].
  rewrite (IH (S pre)); [reflexivity|].
  intros j b' Hj. rewrite <- (H (S j) b' Hj). f_equal. lia.
Qed.

Lemma max_len_same (ls : list (list str)) n : (forall l, In l ls -> length l = n) -> max_len ls n = n.
Proof.
  unfold max_len. induction ls as [|l ls IH]; intro H; [reflexivity|].
  cbn [fold_left]. rewrite (H l (or_introl eq_refl)). rewrite Nat.ltb_irrefl.
  apply IH. intros l' Hl'. apply H. right. exact Hl'.
Qed.

Lemma push_all_opt l : l <> [] -> opt (push_all l) = Some (push_all l).
Proof. destruct l as [|x l]; [contradiction|reflexivity]. Qed.

Lemma split_push_all (f : member -> str) (ms : list member) :
  (forall m, In m ms -> has_semi (f m) = false) -> split (push_all (map f ms)) = [] :: map f ms.
Proof.
  intro H. apply (join_semi_length_split [] (map f ms)).
  intros x [<-|Hx]; [reflexivity|]. apply in_map_iff in Hx. destruct Hx as (m & <- & Hm). apply H. exact Hm.
Qed.

(* a complex selector with any number of sub-selectors of any mix of kinds is read back *)
Lemma complex_target_roundtrip idcol dc k bs r : k <> 0 -> Forall sub_wf bs ->
  assemble idcol dc k (map member_of bs) = Some r ->
  exists d, csv_row false (norm r)
            = Ok {| Loader.ab_id := opt idcol; Loader.ab_data := d;
                    Loader.ab_target := Some (BComplex (complex_kind k) bs) |}.
Proof.
  intros Hk Hwf Hr.
  destruct bs as [|b0 bs0].
  { (* a complex selector without members: the kind on its own *)
    destruct k as [|[|[|k']]]; [contradiction| | |]; cbn [assemble map] in Hr; injection Hr as <-; eexists; reflexivity. }
  assert (b0 :: bs0 <> []) as Hbs by discriminate. remember (b0 :: bs0) as bs eqn:Ebs0. clear Ebs0.
  assert (forall m, In m (map member_of bs) -> exists b, m = member_of b /\ simple_wf b) as Hms.
  { intros m Hm. apply in_map_iff in Hm. destruct Hm as (b & <- & Hb). exists b. split; [reflexivity|].
    rewrite Forall_forall in Hwf. apply Hwf. exact Hb. }
  assert (forall f, (forall b, simple_wf b -> has_semi (f (member_of b)) = false) ->
                    split (push_all (map f (map member_of bs))) = [] :: map f (map member_of bs)) as Hsplit.
  { intros f Hf. apply split_push_all. intros m Hm. destruct (Hms m Hm) as (b & -> & Hb). apply Hf. exact Hb. }
  destruct k as [|k']; [contradiction|]. cbn [assemble] in Hr.
  change (match k' with 0 => KMulti | 1 => KComposite | S (S _) => KDirectional end)
    with (complex_kind (S k')) in Hr.
  assert (kind_is_complex (complex_kind (S k')) = true) as Hc by (destruct k' as [|[|?]]; reflexivity).
  remember (complex_kind (S k')) as ck eqn:Eck. clear Eck.
  injection Hr as <-.
  unfold csv_row. cbn [norm c_id c_data c_set c_kind c_res c_ann c_dset c_begin c_end c_key c_tdata andb is_empty].
  (* the kinds *)
  rewrite <- map_map with (f := m_kind) (g := kind_str).
  rewrite (join_semi_length_split (kind_str ck) (map kind_str (map m_kind (map member_of bs)))).
  2:{ intros x [<-|Hx]; [apply kind_str_nosemi|]. apply in_map_iff in Hx. destruct Hx as (kk & <- & _). apply kind_str_nosemi. }
  change (kind_str ck :: map kind_str (map m_kind (map member_of bs)))
    with (map kind_str (ck :: map m_kind (map member_of bs))).
  rewrite kinds_of_map. cbn [bind].
  rewrite Hc. cbn [negb].
  (* the columns *)
  rewrite !push_all_opt by (destruct bs; [contradiction|discriminate]).
  cbn [split_opt].
  rewrite (Hsplit m_res), (Hsplit m_dset), (Hsplit m_ann), (Hsplit m_key), (Hsplit m_tdata), (Hsplit m_begin), (Hsplit m_end)
    by (intros b Hb; apply (member_of_nosemi b Hb)).
  rewrite max_len_same.
  2:{ intros l Hl. cbn [length]. rewrite !map_length.
      repeat (destruct Hl as [<-|Hl]; [cbn [length]; rewrite !map_length; reflexivity|]). destruct Hl. }
  cbn [length]. rewrite !map_length. rewrite Nat.sub_succ, Nat.sub_0_r.
  rewrite (csv_subs_seq _ _ _ _ _ _ _ _ bs 0).
  - cbn [bind]. eexists. reflexivity.
  - intros j b Hj. cbn [Nat.add]. apply csv_sub_at; [exact Hj|].
    rewrite Forall_forall in Hwf. apply Hwf. eapply nth_error_In. exact Hj.
Qed.

Lemma simple_target_roundtrip idcol dc b r : simple_wf b ->
  assemble idcol dc 0 [member_of b] = Some r ->
  exists d, csv_row false (norm r)
            = Ok {| Loader.ab_id := opt idcol; Loader.ab_data := d; Loader.ab_target := Some b |}.
Proof.
  intros Hwf Hr. cbn [assemble] in Hr. injection Hr as <-.
  assert (forall k, kind_str k = str_of_kind k) as Hk by apply kind_str_eq.
  eexists.
  replace (norm _) with (LoaderSpec.row_of_simple idcol [120%N] [121%N] b).
  - apply csv_simple_roundtrip; [discriminate|reflexivity|reflexivity|exact Hwf].
  - destruct b as [r cb ce|a [[cb ce]|]|r|s|s k|s d|k l]; cbn [simple_wf] in Hwf; try contradiction; reflexivity.
Qed.

Lemma assemble_cols idcol dc k ms r : assemble idcol dc k ms = Some r ->
  c_id r = idcol /\ c_data r = fst dc /\ c_set r = snd dc.
Proof.
  unfold assemble. destruct k as [|k'].
  - destruct ms as [|m [|m' ms]]; try discriminate. intro H. injection H as <-. repeat split.
  - intro H. injection H as <-. repeat split.
Qed.

Definition target_of (k : nat) (bs : list Loader.sbuild) : Loader.sbuild :=
  match k with
  | 0 => match bs with [b] => b | _ => BComplex KMulti bs end
  | _ => BComplex (complex_kind k) bs
  end.

Definition target_wf (k : nat) (bs : list Loader.sbuild) : Prop :=
  match k with
  | 0 => exists b, bs = [b] /\ simple_wf b
  | _ => Forall sub_wf bs
  end.

(* unpack (pack) at the level of one row: any id, any number of data references, a simple
   selector of any of the six kinds or a complex selector with any number of members of any mix
   of kinds, in any alignment *)
Theorem row_roundtrip idcol ds k bs r : pairs_wf ds -> target_wf k bs ->
  assemble idcol (data_columns ds) k (map member_of bs) = Some r ->
  csv_row_now r = Ok {| Loader.ab_id := opt idcol; Loader.ab_data := ds;
                        Loader.ab_target := Some (target_of k bs) |}.
Proof.
  intros Hds Hwf Hr. rewrite csv_row_now_norm.
  destruct (assemble_cols _ _ _ _ _ Hr) as (_ & Hd & Hs).
  rewrite (data_of_columns r ds Hds Hd Hs).
  destruct k as [|k'].
  - destruct Hwf as (b & -> & Hb). destruct (simple_target_roundtrip _ _ _ _ Hb Hr) as (d & ->). reflexivity.
  - destruct (complex_target_roundtrip _ _ (S k') _ _ (Nat.neq_succ_0 k') Hwf Hr) as (d & ->). reflexivity.
Qed.

(** * From the store to the row: what the writer packs is what the reader unpacks *)

(* the string-level selector a leaf is written as *)
Definition off_curs (o : option offset) : option (Loader.cursor * Loader.cursor) :=
  option_map (fun o => (lcur (o_begin o), lcur (o_end o))) o.

Definition leaf_build (s : store) (lf : leaf) : option Loader.sbuild :=
  match lf with
  | LText r t m =>
      match get_res s r with
      | Some rs =>
          match nth_error (r_sels rs) t with
          | Some rg => let o := report_resource (r_len rs) rg (mode_of_nat m) in
                       Some (BText (name_res (r_id rs)) (lcur (o_begin o)) (lcur (o_end o)))
          | None => None
          end
      | None => None
      end
  | LAnn a => match get_ann s a with Some an => Some (BAnn (ann_ident a an) None) | None => None end
  | LAnnText a r t m =>
      match get_ann s a, get_res s r with
      | Some an, Some rs =>
          match nth_error (r_sels rs) t with
          | Some rg =>
              Some (BAnn (ann_ident a an)
                         (off_curs (match ann_textsel s an with
                                    | Some (_, _, prg) => relative_offset rg prg (mode_of_nat m)
                                    | None => None
                                    end)))
          | None => None
          end
      | _, _ => None
      end
  | LRes r => match get_res s r with Some rs => Some (BRes (name_res (r_id rs))) | None => None end
  | LSet d => match get_set s d with Some ds => Some (BSet (name_set (d_id ds))) | None => None end
  | LKey d k =>
      match get_set s d with
      | Some ds => match slot (d_keys ds) k with
                   | Some kt => Some (BKey (name_set (d_id ds)) (name_key kt))
                   | None => None
                   end
      | None => None
      end
  | LData d x =>
      match get_set s d with
      | Some ds => match slot (d_data ds) x with
                   | Some it => Some (BDat (name_set (d_id ds)) (data_ident x it))
                   | None => None
                   end
      | None => None
      end
  end.

Lemma leaf_member_build s lf : leaf_member s lf = option_map member_of (leaf_build s lf).
Proof.
  destruct lf as [r t m|a|a r t m|r|d|d k|d x]; cbn [leaf_member leaf_build].
  - destruct (get_res s r) as [rs|]; [|reflexivity]. destruct (nth_error (r_sels rs) t); reflexivity.
  - destruct (get_ann s a); reflexivity.
  - destruct (get_ann s a) as [an|]; [|reflexivity]. destruct (get_res s r) as [rs|]; [|reflexivity].
    destruct (nth_error (r_sels rs) t) as [rg|]; [|reflexivity]. cbn [option_map]. f_equal.
    destruct (match ann_textsel s an with Some (_, _, prg) => relative_offset rg prg (mode_of_nat m) | None => None end)
      as [o|]; reflexivity.
  - destruct (get_res s r); reflexivity.
  - destruct (get_set s d); reflexivity.
  - destruct (get_set s d) as [ds|]; [|reflexivity]. destruct (slot (d_keys ds) k); reflexivity.
  - destruct (get_set s d) as [ds|]; [|reflexivity]. destruct (slot (d_data ds) x); reflexivity.
Qed.

Lemma map_opt_map {A B C} (f : A -> option B) (g : B -> C) l :
  map_opt (fun x => option_map g (f x)) l = option_map (map g) (map_opt f l).
Proof.
  induction l as [|x l IH]; [reflexivity|]. cbn [map_opt]. rewrite IH.
  destruct (f x); [|reflexivity]. destruct (map_opt f l); reflexivity.
Qed.

Lemma map_opt_ext {A B} (f g : A -> option B) l : (forall x, f x = g x) -> map_opt f l = map_opt g l.
Proof. intro H. induction l as [|x l IH]; [reflexivity|]. cbn [map_opt]. rewrite H, IH. reflexivity. Qed.

Lemma map_opt_In {A B} (f : A -> option B) l l' : map_opt f l = Some l' ->
  forall y, In y l' -> exists x, In x l /\ f x = Some y.
Proof.
  revert l'. induction l as [|x l IH]; intros l' H y Hy.
  - injection H as <-. destruct Hy.
  - cbn [map_opt] in H. destruct (f x) as [y0|] eqn:E; [|discriminate].
    destruct (map_opt f l) as [ys|]; [|discriminate]. injection H as <-.
    destruct Hy as [<-|Hy].
    + exists x. split; [left; reflexivity|exact E].
    + destruct (IH ys eq_refl y Hy) as (x' & Hx' & Ex'). exists x'. split; [right; exact Hx'|exact Ex'].
Qed.

(* names are free of ';' and not empty *)
Lemma nat_dec_nosemi n : has_semi (nat_dec n) = false.
Proof. apply dec_nosemi. Qed.

Lemma name_nosemi c n : (c =? 59)%N = false -> has_semi (c :: nat_dec n) = false.
Proof. intro H. cbn [has_semi existsb]. rewrite H. apply nat_dec_nosemi. Qed.

Lemma name_set_ok t : has_semi (name_set t) = false /\ name_set t <> [].
Proof.
  unfold name_set. destruct (Nat.eqb t DEFAULT_SET_TOKEN).
  - split; [reflexivity|discriminate].
  - split; [apply name_nosemi; reflexivity|discriminate].
Qed.

Lemma data_ident_ok x it : has_semi (data_ident x it) = false /\ data_ident x it <> [].
Proof.
  unfold data_ident, name_data, temp_name. destruct (x_id it).
  - split; [apply name_nosemi; reflexivity|discriminate].
  - split; [|discriminate]. cbn [has_semi existsb]. change (33 =? 59)%N with false. cbn [orb].
    apply name_nosemi. reflexivity.
Qed.

Lemma ann_ident_ok h a : has_semi (ann_ident h a) = false /\ ann_ident h a <> [].
Proof.
  unfold ann_ident, name_ann, temp_name. destruct (a_id a).
  - split; [apply name_nosemi; reflexivity|discriminate].
  - split; [|discriminate]. cbn [has_semi existsb]. change (33 =? 59)%N with false. cbn [orb].
    apply name_nosemi. reflexivity.
Qed.

Lemma data_names_wf s a ds : data_names s a = Some ds -> pairs_wf ds.
Proof.
  unfold data_names. intros H p Hp.
  destruct (map_opt_In _ _ _ H p Hp) as (dx & _ & E).
  destruct (get_set s (fst dx)) as [dst|]; [|discriminate].
  destruct (slot (d_data dst) (snd dx)) as [it|]; [|discriminate]. injection E as <-.
  cbn [fst snd]. destruct (name_set_ok (d_id dst)) as [H1 _]. destruct (data_ident_ok (snd dx) it) as [H2 H3].
  repeat split; assumption.
Qed.

(* the cursors the writer reports are within the range of the integer types *)
Lemma report_cursors_wf len b e m : b <= e -> e <= len -> fits len = true ->
  Proofs.Loader.cursor_wf (lcur (o_begin (report_resource len (b, e) m)))
  /\ Proofs.Loader.cursor_wf (lcur (o_end (report_resource len (b, e) m))).
Proof.
  intros H1 H2 H3. unfold fits in H3. apply N.leb_le in H3. unfold isize_max in H3.
  destruct m; cbn [report_resource o_begin o_end lcur Proofs.Loader.cursor_wf];
    unfold usize_max, isize_min_abs; split; lia.
Qed.

Lemma relative_cursors_wf pb pe b e m off len : pb <= b -> b <= e -> e <= pe -> pe <= len -> fits len = true ->
  relative_offset (b, e) (pb, pe) m = Some off ->
  Proofs.Loader.cursor_wf (lcur (o_begin off)) /\ Proofs.Loader.cursor_wf (lcur (o_end off)).
Proof.
  intros H1 H2 H3 H4 H5 H. unfold fits in H5. apply N.leb_le in H5. unfold isize_max in H5.
  unfold relative_offset, relative_begin, relative_end, relative_begin_endaligned, relative_end_endaligned in H.
  cbn [fst snd] in H.
  destruct m; repeat (match type of H with context [if ?c then _ else _] => destruct c end); try discriminate;
    injection H as <-; cbn [o_begin o_end lcur Proofs.Loader.cursor_wf]; unfold usize_max, isize_min_abs; split; lia.
Qed.

Lemma slot_lt {X} (l : list (option X)) h x : slot l h = Some x -> h < length l.
Proof.
  unfold slot. intro H. destruct (Nat.lt_ge_cases h (length l)) as [|Hge]; [assumption|].
  rewrite nth_overflow in H by exact Hge. discriminate.
Qed.

Lemma live_items_In {X} (l : list (option X)) h x : In (h, x) (live_items l) <-> slot l h = Some x.
Proof.
  unfold live_items. rewrite in_flat_map. split.
  - intros (h' & _ & H). destruct (slot l h') as [x'|] eqn:E; [|destruct H].
    destruct H as [H|[]]. injection H as <- <-. exact E.
  - intro H. exists h. split; [apply in_seq; split; [lia|apply (slot_lt _ _ _ H)]|].
    rewrite H. left. reflexivity.
Qed.

Lemma ann_textsel_sound s an r t prg : ann_textsel s an = Some (r, t, prg) ->
  exists rs, get_res s r = Some rs /\ nth_error (r_sels rs) t = Some prg.
Proof.
  unfold ann_textsel. destruct (a_kind an); [|discriminate].
  destruct (a_leaves an) as [|lf [|lf' l]]; try discriminate; [|destruct lf; discriminate].
  destruct lf as [r0 t0 m0|a0|a0 r0 t0 m0|r0|d0|d0 k0|d0 x0]; try discriminate.
  - destruct (get_res s r0) as [rs|] eqn:E; [|discriminate].
    destruct (nth_error (r_sels rs) t0) as [rg|] eqn:E2; [|discriminate].
    intro H. injection H as <- <- <-. exists rs. split; assumption.
  - destruct (get_res s r0) as [rs|] eqn:E; [|discriminate].
    destruct (nth_error (r_sels rs) t0) as [rg|] eqn:E2; [|discriminate].
    intro H. injection H as <- <- <-. exists rs. split; assumption.
Qed.

Lemma store_ok_res s r rs : store_ok s = true -> get_res s r = Some rs ->
  fits (r_len rs) = true /\ forall rg, In rg (r_sels rs) -> fst rg <= snd rg /\ snd rg <= r_len rs.
Proof.
  unfold store_ok. intros H Hr. apply andb_prop in H. destruct H as [H _].
  rewrite forallb_forall in H. specialize (H (r, rs)). cbn [snd] in H.
  assert (res_ok rs = true) as Hok by (apply H; apply live_items_In; exact Hr).
  unfold res_ok in Hok. apply andb_prop in Hok. destruct Hok as [Hf Hs]. split; [exact Hf|].
  intros rg Hrg. rewrite forallb_forall in Hs. specialize (Hs rg Hrg). unfold range_ok in Hs.
  apply andb_prop in Hs. destruct Hs as [H1 H2]. apply Nat.leb_le in H1, H2. split; assumption.
Qed.

(* every leaf of a live annotation of a well-formed store is written as a well-formed selector *)
Lemma leaf_build_wf s h a lf b : store_ok s = true -> get_ann s h = Some a -> In lf (a_leaves a) ->
  leaf_build s lf = Some b -> sub_wf b.
Proof.
  intros Hok Ha Hlf Hb.
  destruct lf as [r t m|a0|a0 r t m|r|d|d k|d x]; cbn [leaf_build] in Hb.
  - destruct (get_res s r) as [rs|] eqn:Er; [|discriminate].
    destruct (nth_error (r_sels rs) t) as [[b0 e0]|] eqn:Et; [|discriminate]. injection Hb as <-.
    destruct (store_ok_res s r rs Hok Er) as [Hf Hs].
    destruct (Hs (b0, e0) (nth_error_In _ _ Et)) as [H1 H2]. cbn [fst snd] in H1, H2.
    destruct (report_cursors_wf (r_len rs) b0 e0 (mode_of_nat m) H1 H2 Hf) as [Hc1 Hc2].
    split; [|discriminate]. cbn [simple_wf]. repeat split; try assumption. apply name_nosemi. reflexivity.
  - destruct (get_ann s a0) as [an|]; [|discriminate]. injection Hb as <-.
    destruct (ann_ident_ok a0 an) as [H1 H2]. split; [exact H1|exact H2].
  - destruct (get_ann s a0) as [an|] eqn:Ea; [|discriminate].
    destruct (get_res s r) as [rs|] eqn:Er; [|discriminate].
    destruct (nth_error (r_sels rs) t) as [[b0 e0]|] eqn:Et; [|discriminate]. injection Hb as <-.
    destruct (ann_ident_ok a0 an) as [H1 H2].
    (* the well-formedness of this leaf *)
    assert (leaf_ok s (LAnnText a0 r t m) = true) as Hl.
    { unfold store_ok in Hok. apply andb_prop in Hok. destruct Hok as [_ Hok].
      rewrite forallb_forall in Hok. specialize (Hok (h, a)). cbn [snd] in Hok.
      assert (forallb (leaf_ok s) (a_leaves a) = true) as Hall by (apply Hok; apply live_items_In; exact Ha).
      rewrite forallb_forall in Hall. apply Hall. exact Hlf. }
    cbn [leaf_ok] in Hl. rewrite Ea in Hl.
    destruct (ann_textsel s an) as [[[r' t'] [pb pe]]|] eqn:Ep; [|discriminate].
    unfold sel_range in Hl. rewrite Er in Hl. rewrite (nth_error_nth _ _ (0, 0) Et) in Hl. cbn [fst snd] in Hl.
    apply andb_prop in Hl. destruct Hl as [Hl H5]. apply andb_prop in Hl. destruct Hl as [H3 H4].
    apply Nat.eqb_eq in H3. subst r'. apply Nat.leb_le in H4, H5.
    destruct (ann_textsel_sound _ _ _ _ _ Ep) as (rs' & Er' & Et'). rewrite Er in Er'. injection Er' as <-.
    destruct (store_ok_res s r rs Hok Er) as [Hf Hs].
    destruct (Hs (b0, e0) (nth_error_In _ _ Et)) as [H6 H7]. cbn [fst snd] in H6, H7.
    destruct (Hs (pb, pe) (nth_error_In _ _ Et')) as [H8 H9]. cbn [fst snd] in H8, H9.
    destruct (relative_offset (b0, e0) (pb, pe) (mode_of_nat m)) as [off|] eqn:Eo; cbn [off_curs option_map].
    + destruct (relative_cursors_wf pb pe b0 e0 (mode_of_nat m) off (r_len rs) H4 H6 H5 H9 Hf Eo) as [Hc1 Hc2].
      split; [|exact H2]. cbn [simple_wf]. repeat split; assumption.
    + split; [exact H1|exact H2].
  - destruct (get_res s r) as [rs|]; [|discriminate]. injection Hb as <-.
    split; [apply name_nosemi; reflexivity|discriminate].
  - destruct (get_set s d) as [dst|]; [|discriminate]. injection Hb as <-.
    destruct (name_set_ok (d_id dst)) as [H1 H2]. split; [exact H1|exact H2].
  - destruct (get_set s d) as [dst|]; [|discriminate]. destruct (slot (d_keys dst) k) as [kt|]; [|discriminate].
    injection Hb as <-. destruct (name_set_ok (d_id dst)) as [H1 H2].
    split; [|exact H2]. cbn [simple_wf]. repeat split; [exact H1|apply name_nosemi; reflexivity|discriminate].
  - destruct (get_set s d) as [dst|]; [|discriminate]. destruct (slot (d_data dst) x) as [it|]; [|discriminate].
    injection Hb as <-. destruct (name_set_ok (d_id dst)) as [H1 H2]. destruct (data_ident_ok x it) as [H3 H4].
    split; [|exact H2]. cbn [simple_wf]. repeat split; assumption.
Qed.

Lemma map_opt_length {A B} (f : A -> option B) l l' : map_opt f l = Some l' -> length l' = length l.
Proof.
  revert l'. induction l as [|x l IH]; intros l' H.
  - injection H as <-. reflexivity.
  - cbn [map_opt] in H. destruct (f x); [|discriminate]. destruct (map_opt f l) as [ys|]; [|discriminate].
    injection H as <-. cbn [length]. f_equal. apply IH. reflexivity.
Qed.

(* unpack (pack s a) = Ok builder, for every live annotation of a well-formed store: the builder
   names exactly the annotation's id column, its data and, leaf by leaf, its target *)
Theorem pack_row_decodes s h a r : store_ok s = true -> get_ann s h = Some a ->
  pack_row s h a = Some r ->
  exists bs ds, map_opt (leaf_build s) (a_leaves a) = Some bs /\ data_names s a = Some ds /\
    csv_row_now r = Ok {| Loader.ab_id := opt (id_column h a); Loader.ab_data := ds;
                          Loader.ab_target := Some (target_of (a_kind a) bs) |}.
Proof.
  intros Hok Ha Hr. unfold pack_row in Hr.
  rewrite (map_opt_ext _ _ _ (leaf_member_build s)) in Hr. rewrite map_opt_map in Hr.
  destruct (map_opt (leaf_build s) (a_leaves a)) as [bs|] eqn:Ebs; [|discriminate]. cbn [option_map] in Hr.
  destruct (data_names s a) as [ds|] eqn:Eds; [|discriminate].
  exists bs, ds. split; [reflexivity|]. split; [reflexivity|].
  assert (forall b, In b bs -> sub_wf b) as Hwf.
  { intros b Hb. destruct (map_opt_In _ _ _ Ebs b Hb) as (lf & Hlf & E).
    apply (leaf_build_wf s h a lf b Hok Ha Hlf E). }
  apply row_roundtrip; [apply (data_names_wf s a); exact Eds| |exact Hr].
  destruct (a_kind a) as [|k'] eqn:Ek.
  - cbn [target_wf]. cbn [assemble] in Hr. destruct bs as [|b [|b' bs]]; try discriminate.
    exists b. split; [reflexivity|]. apply (Hwf b). left. reflexivity.
  - cbn [target_wf]. apply Forall_forall. exact Hwf.
Qed.

(** * Offsets: written in any of the four alignments, read back, resolved: the same range *)

Lemma ocur_lcur c : ocur (lcur c) = c.
Proof. destruct c as [n|z]; cbn [lcur ocur]; [rewrite Nat2N.id|]; reflexivity. Qed.

(* a TextSelector: the cursors the writer prints for the range [b,e) of a resource of len
   codepoints in mode m are parsed back, and resolve on a resource of that length to [b,e) *)
Theorem offset_text_roundtrip len b e m : b <= e -> e <= len -> fits len = true ->
  exists cb ce,
    cursor_pair (fst (off_strs (Some (report_resource len (b, e) m))))
                (snd (off_strs (Some (report_resource len (b, e) m)))) = Ok (cb, ce)
    /\ resource_ts len (mkoff (ocur cb) (ocur ce)) = Offset.Ok (b, e).
Proof.
  intros H1 H2 H3.
  destruct (report_cursors_wf len b e m H1 H2 H3) as [Hb He].
  exists (lcur (o_begin (report_resource len (b, e) m))), (lcur (o_end (report_resource len (b, e) m))).
  split.
  - cbn [off_strs fst snd]. apply cursor_pair_roundtrip; assumption.
  - rewrite !ocur_lcur.
    destruct (Proofs.Offset.report_resource_spec len b e m H1 H2) as (E & _ & _ & _ & R).
    rewrite E. destruct (OffsetSpec.spec_report len b e m) as [c1 c2]. exact R.
Qed.

(* an AnnotationSelector with offset: relative to the selection [pb,pe) of the target annotation *)
Theorem offset_relative_roundtrip pb pe b e m len : pb <= b -> b <= e -> e <= pe -> pe <= len -> fits len = true ->
  exists off cb ce,
    relative_offset (b, e) (pb, pe) m = Some off
    /\ cursor_pair (fst (off_strs (Some off))) (snd (off_strs (Some off))) = Ok (cb, ce)
    /\ selection_ts (pb, pe) (mkoff (ocur cb) (ocur ce)) = Offset.Ok (b, e).
Proof.
  intros H1 H2 H3 H4 H5.
  destruct (Proofs.Offset.relative_offset_spec pb pe b e m H1 H2 H3) as (E & _ & _ & _ & R). cbv zeta in E, R.
  destruct (relative_cursors_wf pb pe b e m _ len H1 H2 H3 H4 H5 E) as [Hb He].
  eexists _, _, _. split; [exact E|]. split.
  - cbn [off_strs fst snd]. apply cursor_pair_roundtrip; assumption.
  - rewrite !ocur_lcur. destruct (OffsetSpec.spec_report (pe - pb) (b - pb) (e - pb) m) as [c1 c2]. exact R.
Qed.

(** * Names: the identifiers the writer prints are read back as the same token / handle *)

Lemma str_eqb_refl s : str_eqb s s = true.
Proof. induction s as [|c s IH]; [reflexivity|]. cbn [str_eqb]. rewrite N.eqb_refl, IH. reflexivity. Qed.

Definition tok_fits (t : nat) : Prop := (N.of_nat t <= usize_max)%N.

Lemma parse_tok_name c t : tok_fits t -> parse_tok c (c :: nat_dec t) = Some t.
Proof.
  intro H. unfold parse_tok, nat_dec. rewrite N.eqb_refl.
  destruct (dec_head_digit (N.of_nat t)) as (c0 & r & E & _).
  destruct (dec (N.of_nat t)) as [|c1 r1] eqn:E1; [discriminate|]. rewrite <- E1.
  rewrite digits_val_spec by (unfold usize_max; lia).
  unfold dec at 1. rewrite dec_fuel_digits. cbn [andb]. rewrite dec_eval.
  destruct (N.leb_spec (N.of_nat t) usize_max) as [_|Hgt]; [|unfold tok_fits in H; lia].
  rewrite str_eqb_refl, Nat2N.id. reflexivity.
Qed.

Lemma temp_handle_plain letter c s : (c =? 33)%N = false -> temp_handle_of letter (c :: s) = None.
Proof. intro H. unfold temp_handle_of. destruct s; [reflexivity|]. rewrite H. reflexivity. Qed.

Lemma temp_handle_temp letter h : tok_fits h -> temp_handle_of letter (temp_name letter h) = Some h.
Proof.
  intro H. unfold temp_handle_of, temp_name, nat_dec. rewrite !N.eqb_refl. cbn [andb].
  rewrite parse_usize_dec by exact H. cbn [option_map]. rewrite Nat2N.id. reflexivity.
Qed.

(* an ordinary id is read as that id, a temporary id as the handle it names *)
Theorem ref_of_plain_name plain temp t : (plain =? 33)%N = false -> tok_fits t ->
  ref_of_name plain temp (plain :: nat_dec t) = Some (ById t).
Proof.
  intros Hp Ht. unfold ref_of_name. rewrite temp_handle_plain by exact Hp. rewrite parse_tok_name by exact Ht. reflexivity.
Qed.

Theorem ref_of_temp_name plain temp h : tok_fits h -> ref_of_name plain temp (temp_name temp h) = Some (ByHandle h).
Proof. intro H. unfold ref_of_name. rewrite temp_handle_temp by exact H. reflexivity. Qed.

Theorem set_ref_of_name_set t : tok_fits t -> set_ref_of_name (name_set t) = Some (ById t).
Proof.
  intro H. unfold set_ref_of_name, name_set. destruct (Nat.eqb_spec t DEFAULT_SET_TOKEN) as [->|Hne].
  - rewrite str_eqb_refl. reflexivity.
  - change (str_eqb (115%N :: nat_dec t) DEFAULT_SET_NAME) with false.
    rewrite temp_handle_plain by reflexivity. rewrite parse_tok_name by exact H. reflexivity.
Qed.

(* the public id an item is stored under after loading: its own, or - the known finding - the
   literal temporary id *)
Theorem own_tok_plain plain temp t : (plain =? 33)%N = false -> tok_fits t ->
  own_tok plain temp (plain :: nat_dec t) = Some t.
Proof.
  intros Hp Ht. unfold own_tok. rewrite temp_handle_plain by exact Hp. apply parse_tok_name. exact Ht.
Qed.
Theorem own_tok_temp plain temp h : tok_fits h -> own_tok plain temp (temp_name temp h) = Some (TEMP_BASE + h).
Proof. intro H. unfold own_tok. rewrite temp_handle_temp by exact H. reflexivity. Qed.

(** * Witnesses *)

(* the full property on a store with every selector kind, alignment and a removal *)
Definition demo_ops : list op :=
  [ AddRes 0 7; AddRes 1 0; AddSet 0; AddSet 1;
    Annotate (mkab (Some 0) (Some (Store.BText (ById 0) (mkoff (CB 1) (CE (-1)%Z))))
                   [mkdb (ById 0) (Some (ById 0)) (Some (ById 0)) (VInt 3)]);
    Annotate (mkab (Some 1) (Some (Store.BRes (ById 1))) []);
    Annotate (mkab (Some 2) (Some (Store.BAnn (ById 0) (Some (mkoff (CE (-3)%Z) (CE 0%Z)))))
                   [mkdb (ById 0) (Some (ById 1)) (Some (ById 1)) (VList [VInt 1; VStr [97%N]]);
                    mkdb (ById 1) (Some (ById 2)) (Some (ById 0)) (VFix (-1500)%Z)]);
    Annotate (mkab (Some 3) (Some (Store.BRes (ById 0))) []);
    RmAnn (ById 3);
    Annotate (mkab (Some 4) (Some (Store.BComplex 2
                 [Store.BText (ById 0) (mkoff (CB 0) (CB 1)); Store.BText (ById 0) (mkoff (CB 1) (CB 2));
                  Store.BAnn (ById 2) (Some (mkoff (CB 0) (CE (-1)%Z))); Store.BAnn (ById 1) None;
                  Store.BKey (ById 0) (ById 1); Store.BData (ById 1) (ById 2); Store.BSet (ById 1);
                  Store.BRes (ById 1)])) [mkdb (ById 0) (Some (ById 0)) None VNull]);
    Annotate (mkab (Some 5) (Some (Store.BComplex 3 [Store.BAnn (ById 4) None; Store.BAnn (ById 0) None])) []) ].

Lemma demo_roundtrip :
  known_class (run demo_ops) = 0 /\ hyps_ok (run demo_ops) = true
  /\ sx_of_loaded (roundtrip (run demo_ops)) = roundtrip_spec (run demo_ops)
  /\ length (live_items (anns (run demo_ops))) = 5.
Proof. vm_compute. repeat split. Qed.

(* items without public id: the loaded annotation carries the literal id "!A0" *)
Definition tempid_ops : list op :=
  [ AddRes 0 3; Annotate (mkab None (Some (Store.BRes (ById 0))) []) ].
(* ... and with a gap before it a reference to it no longer resolves: the load fails *)
Definition tempid_gap_ops : list op :=
  [ AddRes 0 3;
    Annotate (mkab (Some 0) (Some (Store.BRes (ById 0))) []);
    Annotate (mkab None (Some (Store.BRes (ById 0))) []);
    Annotate (mkab (Some 2) (Some (Store.BAnn (ByHandle 1) None)) []);
    RmAnn (ById 0) ].

Lemma Known_C15_tempid_witness :
  Known_C15_tempid (run tempid_ops) = true
  /\ sx_of_loaded (roundtrip (run tempid_ops)) <> roundtrip_spec (run tempid_ops)
  /\ Known_C15_tempid (run tempid_gap_ops) = true
  /\ roundtrip (run tempid_gap_ops) = LErr.
Proof. vm_compute. repeat split; discriminate. Qed.

(* a complex selector without members (annotate() accepts it): read back since 8591e12 *)
Definition empty_complex_ops : list op :=
  [ AddRes 0 3; Annotate (mkab (Some 0) (Some (Store.BComplex 1 [])) []);
    Annotate (mkab (Some 1) (Some (Store.BComplex 3 [])) []) ].

Lemma empty_complex_roundtrip :
  length (live_items (anns (run empty_complex_ops))) = 2
  /\ sx_of_loaded (roundtrip (run empty_complex_ops)) = roundtrip_spec (run empty_complex_ops).
Proof. vm_compute. split; reflexivity. Qed.
