(* Lemmas about the STAM CSV model (Model/Csv.v) and its specification (Spec/CsvSpec.v). *)
From Coq Require Import List NArith ZArith Bool Arith Lia.
Import ListNotations.
From Stam Require Import Base.Tac Base.Sx Model.Offset Model.Store Model.Loader Model.Csv Spec.CsvSpec
  Proofs.Loader.

(** * join and split on ';' *)

Lemma split_semi_app x : forall cur rest, has_semi x = false ->
  split_semi (x ++ 59%N :: rest) cur = (rev cur ++ x) :: split_semi rest [].
Proof.
  induction x as [|c x IH]; intros cur rest H.
  - cbn [app split_semi]. change (59 =? 59)%N with true. cbn iota. rewrite app_nil_r. reflexivity.
  - cbn [has_semi existsb] in H. apply orb_false_elim in H. destruct H as [Hc Hx].
    cbn [app split_semi]. rewrite Hc. rewrite IH by exact Hx. cbn [rev]. rewrite <- app_assoc. reflexivity.
Qed.

Theorem split_join l : (forall x, In x l -> has_semi x = false) -> l <> [] -> split (join_semi l) = l.
Proof.
  induction l as [|x l IH]; intros H Hne; [contradiction|].
  destruct l as [|y l].
  - cbn [join_semi]. apply split_nosemi. apply H. left. reflexivity.
  - change (join_semi (x :: y :: l)) with (x ++ 59%N :: join_semi (y :: l)).
    unfold split. rewrite split_semi_app by (apply H; left; reflexivity).
    cbn [rev app]. f_equal. apply IH; [|discriminate].
    intros z Hz. apply H. right. exact Hz.
Qed.

(* the push loops of the writer produce the documented join *)
Lemma push_all_join own l : own ++ push_all l = column_spec own l.
Proof.
  unfold column_spec. revert own. induction l as [|x l IH]; intro own.
  - cbn. apply app_nil_r.
  - change (push_all (x :: l)) with ((59%N :: x) ++ push_all l).
    change (join_semi (own :: x :: l)) with (own ++ 59%N :: join_semi (x :: l)).
    rewrite <- IH. reflexivity.
Qed.

Lemma join_semi_length_split own l : (forall x, In x (own :: l) -> has_semi x = false) ->
  split (own ++ push_all l) = own :: l.
Proof. intro H. rewrite push_all_join. apply split_join; [exact H|discriminate]. Qed.
