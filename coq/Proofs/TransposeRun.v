(* C16: the specification side of the correspondence run (Run/C16.v spec_fwd) accepts whatever the
   model answers, for every well-formed input: sub-case 0 can never show a model/specification
   divergence, and a difference between implementation and model is always reported. *)
From Coq Require Import ZArith NArith.
From Stam Require Import Base.Tac Base.Sx Model.Transpose Spec.TransposeSpec Proofs.Transpose Run.C16.

Lemma dec_enc_frag f : dec_frag (enc_frag f) = f.
Proof.
  destruct f as [r b e]. unfold dec_frag, enc_frag, sx_nth, sx_list, sx_nat, sx_Z, of_nat. cbn [nth fres fb fe].
  rewrite !Nat2Z.id. reflexivity.
Qed.

Lemma dec_enc_oside o : dec_oside (enc_oside o) = o.
Proof.
  destruct o as [fl fs]. unfold dec_oside, enc_oside. cbn [sx_list fst snd]. unfold sx_nat, sx_Z, of_nat.
  rewrite Nat2Z.id. f_equal. rewrite map_map. rewrite <- (map_id fs) at 2. apply map_ext. exact dec_enc_frag.
Qed.

Lemma dec_enc_osides O : map dec_oside (map enc_oside O) = O.
Proof. rewrite map_map. rewrite <- (map_id O) at 2. apply map_ext. exact dec_enc_oside. Qed.

Theorem run_forward_consistent T V r src cfg existing complex fuel :
  wf_input T complex V r src = true -> fuel_for src <= fuel ->
  let m := transpose fuel (lens_of T) complex V r src cfg existing in
  spec_fwd T V r src cfg true (show m) = show m.
Proof.
  intros Hwf Hfuel m.
  destruct (wf_input_facts _ _ _ _ _ Hwf) as (H1 & H2 & H3).
  destruct (transpose_total T V r src cfg existing complex fuel H1 H2 H3 Hfuel) as [E|(res & E)];
    unfold m; rewrite E; cbn [show spec_fwd enc_ok].
  - reflexivity.
  - rewrite dec_enc_osides. rewrite (transpose_sound _ _ _ _ _ _ _ _ _ H1 H2 H3 E). reflexivity.
Qed.

Lemma map_nth_seq {X} (l : list X) d : map (fun i => nth i l d) (seq 0 (length l)) = l.
Proof.
  induction l as [|x l IH]; cbn [length seq map]; [reflexivity|]. f_equal.
  rewrite <- seq_shift, map_map. exact IH.
Qed.

Lemma snd_flagged res : map snd (flagged res) = r_sides res.
Proof. unfold flagged. rewrite map_map. cbn [snd]. apply map_nth_seq. Qed.

Lemma combine_map_r {X Y} (g : X -> Y) l : combine l (map g l) = map (fun x => (x, g x)) l.
Proof. induction l as [|x l IH]; cbn [map combine]; [reflexivity|]. rewrite IH. reflexivity. Qed.

(* sub-cases 1 and 2: what the specification demands of the way back is what the model answers *)
Theorem run_back_consistent T V r src cfg existing complex fuel rs (auto : bool) :
  wf_input T complex V r src = true ->
  transpose fuel (lens_of T) complex V r src cfg existing = TOk rs ->
  let m := TOk rs in
  let cfgf := fun j : nat => if auto then None else Some j in
  spec_back T V r src cfg true auto (show m) (back_model (lens_of T) m cfgf) = back_model (lens_of T) m cfgf.
Proof.
  intros Hwf E m cfgf. destruct (wf_input_facts _ _ _ _ _ Hwf) as (H1 & H2 & H3).
  pose proof (transpose_sound _ _ _ _ _ _ _ _ _ H1 H2 H3 E) as Hc.
  pose proof (new_transposition_ok _ _ _ _ _ _ H1 Hc) as Hnew. unfold new_transposition_wf in Hnew.
  rewrite snd_flagged in Hnew.
  unfold m. cbn [show enc_ok spec_back back_model]. rewrite dec_enc_osides, snd_flagged, Hc. cbn [andb sx_list].
  rewrite combine_map_r, map_map. f_equal. apply map_ext_in. intros j Hj. cbn [fst snd].
  destruct (single_res (nth j (r_sides rs) []) && pairwise_apart (nth j (r_sides rs) [])
            && (negb auto || only_side_in_res (r_sides rs) j)) eqn:Econd; [|reflexivity].
  apply andb_true_iff in Econd. destruct Econd as [Econd Hauto]. apply andb_true_iff in Econd. destruct Econd as [Hsr Hap].
  assert (Hjl : j < length (r_sides rs)).
  { unfold targets_of in Hj. apply filter_In in Hj. destruct Hj as [Hj _]. apply in_seq in Hj.
    unfold flagged in Hj. rewrite map_length, seq_length in Hj. lia. }
  rewrite (transpose_back T (r_sides rs) j (cfgf j) _ Hnew Hjl Hsr Hap).
  - reflexivity.
  - unfold cfgf. destruct auto; [right; split; [reflexivity|exact Hauto]|left; reflexivity].
  - apply Nat.le_refl.
Qed.
