(* The iterator adaptors (Model/Adaptors.v): in every reachable store the answer computed from
   the reverse indices and the recursive walk is the documented one (the union of the per-item
   scans), it is chronological and duplicate-free, and it contains exactly what some item of the
   iterator answers. *)
From Coq Require Import List Arith Bool Lia Sorting.Sorted.
Import ListNotations.
From Stam Require Import Base.Tac Model.Offset Model.Store Model.StoreObs Model.Forward Model.Adaptors Spec.StoreSpec
     Proofs.StoreInv Proofs.StoreScan Proofs.StoreRemove Proofs.StoreData Proofs.Forward.

Lemma un_In f l y : In y (un f l) <-> exists it, In it l /\ In y (f it).
Proof. unfold un. rewrite sort_dedup_In, in_flat_map. tauto. Qed.

Lemma un_sorted f l : StronglySorted lt (un f l).
Proof. apply sort_dedup_sorted. Qed.

Lemma un_ext f g l : (forall it, In it l -> f it = g it) -> un f l = un g l.
Proof. intros H. unfold un. rewrite (flat_map_ext_in f g l H). reflexivity. Qed.

Lemma live_anns_get s even h a : In (h, a) (live_anns s even) -> get_ann s h = Some a.
Proof.
  unfold live_anns. rewrite in_flat_map. intros (h0 & _ & H). destruct (get_ann s h0) as [a0|] eqn:E; [|contradiction].
  destruct (even && negb (Nat.even h0)); [contradiction|]. destruct H as [H|[]]. injection H as <- <-. exact E.
Qed.

Lemma recs_get s l h a : In (h, a) (recs s l) -> get_ann s h = Some a.
Proof.
  unfold recs. rewrite in_flat_map. intros (h0 & _ & H). destruct (get_ann s h0) as [a0|] eqn:E; [|contradiction].
  destruct H as [H|[]]. injection H as <- <-. exact E.
Qed.

Section Reachable.
  Variable ops : list op.
  Let s := run ops.

  Theorem adaptors_index_is_scan : forall even,
    ad_annotations s true (live_anns s even) = ad_annotations s false (live_anns s even)
    /\ ad_resources s true (live_anns s even) = ad_resources s false (live_anns s even)
    /\ ad_resources_meta s true (live_anns s even) = ad_resources_meta s false (live_anns s even)
    /\ res_annotations s true = res_annotations s false
    /\ res_annotations_meta s true = res_annotations_meta s false.
  Proof.
    intros even. pose proof (proj1 (reachable_Good ops)) as HI. fold s in HI.
    split; [apply un_ext; intros [h a] _; apply (ann_anns_eq s HI)|].
    split; [apply un_ext; intros [h a] Hin; apply (proj1 (forward_resources_are_the_closure ops h a (live_anns_get s even h a Hin)))|].
    split; [apply un_ext; intros [h a] Hin; apply (proj2 (forward_resources_are_the_closure ops h a (live_anns_get s even h a Hin)))|].
    unfold res_annotations, res_annotations_meta. split; f_equal; apply flat_map_ext_in; intros r _;
      [apply (res_text_eq s HI)|apply (res_meta_eq s HI)].
  Qed.

  Theorem dataset_adaptors_index_is_scan : forall d ds,
    ds_data_annotations s true d ds = ds_data_annotations s false d ds
    /\ ds_data_annotations_meta s true d ds = ds_data_annotations_meta s false d ds
    /\ ds_keys_annotations_meta s true d ds = ds_keys_annotations_meta s false d ds.
  Proof.
    intros d ds. pose proof (proj1 (reachable_Good ops)) as HI. fold s in HI.
    unfold ds_data_annotations, ds_data_annotations_meta, ds_keys_annotations_meta, data_anns.
    repeat split; f_equal; apply flat_map_ext_in; intros x _;
      [apply (data_anns_eq s HI)|apply (data_meta_eq s HI)|apply (key_meta_eq s HI)].
  Qed.
End Reachable.
