(* Lemmas about the relation-test model (Model/Rel.v) and its agreement with
   the documented meaning (Spec/RelSpec.v). *)
From Stam Require Import Base.Tac Base.ListAux Model.Rel Spec.RelSpec.

Definition wf (t : ts) : Prop := tb t <= te t.

Section WithText.
  Variable ws : list bool.

  (** * Pairs *)

  Lemma pos_pair_spec o s r : wf s -> wf r -> pos_pair ws o s r = spec_pos_pair ws o s r.
  Proof.
    unfold wf, pos_pair, spec_pos_pair, embeds_b, within, adjacent.
    intros Hs Hr. destruct o as [rl al ng lm w]; cbn [orel olim ows oneg oall].
    destruct rl; try reflexivity; try destruct lm as [lim|]; try destruct w; cbn [negb];
      try lia;
      (* Precedes / Succeeds with whitespace allowed *)
      match goal with
      | |- (if ?c then _ else false) = _ =>
          destruct c eqn:E1; cbn [andb]; [|reflexivity];
          match goal with
          | |- (if ?d then true else _) = (?e || _) =>
              destruct d eqn:E2; destruct e eqn:E3; cbn [orb]; try reflexivity; lia
          end
      end.
  Qed.

  Lemma test_pair_spec o s r : wf s -> wf r -> test_pair ws o s r = spec_pair ws o s r.
  Proof.
    intros Hs Hr. unfold test_pair, spec_pair. rewrite pos_pair_spec by assumption.
    destruct (oneg o); cbn [xorb]; [reflexivity|]. destruct (spec_pos_pair ws o s r); reflexivity.
  Qed.

  Lemma negate_pair o s r : test_pair ws (toggle_negate o) s r = negb (test_pair ws o s r).
  Proof.
    unfold test_pair, toggle_negate, pos_pair; cbn [oneg orel olim ows].
    destruct (oneg o); cbn [negb]; [rewrite negb_involutive|]; reflexivity.
  Qed.

  (** * Extremes of a set *)

  Lemma leftmost_from_min l : forall cur,
      tb (leftmost_from cur l) = minl (tb cur) (map tb l).
  Proof.
    induction l as [|x l IH]; intros cur; cbn [leftmost_from map minl fold_right]; [reflexivity|].
    rewrite IH. fold (minl (tb cur) (map tb l)).
    assert (G : forall a b l', minl (Nat.min a b) l' = Nat.min a (minl b l')).
    { intros a b l'. induction l' as [|y l' IH']; cbn [minl fold_right]; [reflexivity|].
      fold (minl (Nat.min a b) l'). fold (minl b l'). rewrite IH'. lia. }
    destruct (tb x <? tb cur) eqn:E.
    - replace (tb x) with (Nat.min (tb x) (tb cur)) at 1 by lia. apply G.
    - replace (tb cur) with (Nat.min (tb x) (tb cur)) at 1 by lia. apply G.
  Qed.

  Lemma rightmost_from_max l : forall cur,
      te (rightmost_from cur l) = maxl (te cur) (map te l).
  Proof.
    induction l as [|x l IH]; intros cur; cbn [rightmost_from map maxl fold_right]; [reflexivity|].
    rewrite IH. fold (maxl (te cur) (map te l)).
    assert (G : forall a b l', maxl (Nat.max a b) l' = Nat.max a (maxl b l')).
    { intros a b l'. induction l' as [|y l' IH']; cbn [maxl fold_right]; [reflexivity|].
      fold (maxl (Nat.max a b) l'). fold (maxl b l'). rewrite IH'. lia. }
    destruct (te cur <? te x) eqn:E.
    - replace (te x) with (Nat.max (te x) (te cur)) at 1 by lia. apply G.
    - replace (te cur) with (Nat.max (te x) (te cur)) at 1 by lia. apply G.
  Qed.

  Lemma fold_min_begin l : forall m,
      fold_left (fun m y => if tb y <? m then tb y else m) l m = minl m (map tb l).
  Proof.
    induction l as [|x l IH]; intros m; cbn [fold_left map minl fold_right]; [reflexivity|].
    rewrite IH. fold (minl m (map tb l)).
    assert (G : forall a b l', minl (Nat.min a b) l' = Nat.min a (minl b l')).
    { intros a b l'. induction l' as [|y l' IH']; cbn [minl fold_right]; [reflexivity|].
      fold (minl (Nat.min a b) l'). fold (minl b l'). rewrite IH'. lia. }
    destruct (tb x <? m) eqn:E.
    - replace (tb x) with (Nat.min (tb x) m) at 1 by lia. apply G.
    - replace m with (Nat.min (tb x) m) at 1 by lia. apply G.
  Qed.

  Lemma fold_max_end l : forall m,
      fold_left (fun m y => if m <? te y then te y else m) l m = maxl m (map te l).
  Proof.
    induction l as [|x l IH]; intros m; cbn [fold_left map maxl fold_right]; [reflexivity|].
    rewrite IH. fold (maxl m (map te l)).
    assert (G : forall a b l', maxl (Nat.max a b) l' = Nat.max a (maxl b l')).
    { intros a b l'. induction l' as [|y l' IH']; cbn [maxl fold_right]; [reflexivity|].
      fold (maxl (Nat.max a b) l'). fold (maxl b l'). rewrite IH'. lia. }
    destruct (m <? te x) eqn:E.
    - replace (te x) with (Nat.max (te x) m) at 1 by lia. apply G.
    - replace m with (Nat.max (te x) m) at 1 by lia. apply G.
  Qed.

  (* canonical order of TextSelection: by begin, then end *)
  Definition ts_le (x y : ts) : Prop := tb x < tb y \/ (tb x = tb y /\ te x <= te y).
  Definition set_ok (A : tset) : Prop :=
    (sorted A = true -> StronglySorted ts_le (items A)) /\ Forall wf (items A).

  Lemma minl_le_all x l : Forall (fun y => x <= y) l -> minl x l = x.
  Proof.
    induction 1 as [|y l Hy _ IH]; cbn [minl fold_right]; [reflexivity|].
    fold (minl x l). rewrite IH. lia.
  Qed.

  Lemma leftmost_begin A : set_ok A ->
      option_map tb (leftmost A) = min_begin (items A).
  Proof.
    intros [Hs _]. unfold leftmost, min_begin. destruct (items A) as [|x l] eqn:E; [reflexivity|].
    destruct (sorted A) eqn:S; cbn [option_map].
    - f_equal. symmetry. apply minl_le_all.
      specialize (Hs eq_refl). inversion Hs as [|? ? _ Hall]; subst.
      rewrite Forall_map. eapply Forall_impl; [|exact Hall]. unfold ts_le. intros a Ha; lia.
    - f_equal. apply leftmost_from_min.
  Qed.

  Lemma rightmost_end A : option_map te (rightmost A) = max_end (items A).
  Proof.
    unfold rightmost, max_end. destruct (items A) as [|x l]; [reflexivity|].
    cbn [option_map]. f_equal. apply rightmost_from_max.
  Qed.

  (** * A selection against a set *)

  Lemma existsb_ext' {X} (f g : X -> bool) l :
    Forall (fun x => f x = g x) l -> existsb f l = existsb g l.
  Proof. induction 1 as [|x l H _ IH]; cbn; [reflexivity|]. rewrite H, IH. reflexivity. Qed.
  Lemma forallb_ext' {X} (f g : X -> bool) l :
    Forall (fun x => f x = g x) l -> forallb f l = forallb g l.
  Proof. induction 1 as [|x l H _ IH]; cbn; [reflexivity|]. rewrite H, IH. reflexivity. Qed.

  Lemma pos_ts_set_spec o s B : wf s -> set_ok B ->
      pos_ts_set ws o s B = spec_pos_ts_set ws o s (items B).
  Proof.
    intros Hs HB. pose proof (leftmost_begin B HB) as HL. pose proof (rightmost_end B) as HR.
    destruct HB as [_ HB].
    assert (HP : Forall (fun r => pos_pair ws o s r = spec_pos_pair ws o s r) (items B)).
    { eapply Forall_impl; [|exact HB]. intros r Hr. apply pos_pair_spec; assumption. }
    unfold pos_ts_set, spec_pos_ts_set.
    destruct (orel o) eqn:Er; destruct (oall o) eqn:Ea;
      try (apply existsb_ext'; exact HP);
      try (rewrite (forallb_ext' _ _ _ HP); destruct (items B); reflexivity).
    - (* Precedes all *)
      destruct (items B) as [|x l] eqn:E; [reflexivity|]. cbn [min_begin].
      rewrite fold_min_begin. set (lm := minl (tb x) (map tb l)).
      unfold adjacent. destruct (ows o); cbn [negb]; [|reflexivity].
      destruct (te s <=? lm) eqn:E1; cbn [andb]; [|reflexivity].
      destruct (Nat.eqb (lm - te s) 0) eqn:E2; destruct (Nat.eqb (te s) lm) eqn:E3;
        cbn [orb]; try reflexivity; lia.
    - (* Succeeds all *)
      destruct (items B) as [|x l] eqn:E; [reflexivity|]. cbn [max_end].
      rewrite fold_max_end. set (rm := maxl (te x) (map te l)).
      unfold adjacent. destruct (ows o); cbn [negb]; [|apply Nat.eqb_sym].
      destruct (rm <=? tb s) eqn:E1; cbn [andb]; [|reflexivity].
      destruct (Nat.eqb (tb s - rm) 0) eqn:E2; destruct (Nat.eqb rm (tb s)) eqn:E3;
        cbn [orb]; try reflexivity; lia.
    - (* SameBegin all *)
      destruct (leftmost B) as [l|]; cbn [option_map] in HL; rewrite <- HL; [|reflexivity].
      reflexivity.
    - (* SameEnd all *)
      destruct (rightmost B) as [l|]; cbn [option_map] in HR; rewrite <- HR; [|reflexivity].
      reflexivity.
    - (* SameRange *)
      rewrite <- HL, <- HR. destruct (leftmost B), (rightmost B); reflexivity.
    - rewrite <- HL, <- HR. destruct (leftmost B), (rightmost B); reflexivity.
  Qed.

  Lemma test_ts_set_spec o s B : wf s -> set_ok B ->
      test_ts_set ws o s B = spec_ts_set ws o s (items B).
  Proof.
    intros Hs HB. unfold test_ts_set, spec_ts_set. rewrite pos_ts_set_spec by assumption.
    destruct (oneg o); cbn [xorb]; [reflexivity|]. destruct (spec_pos_ts_set _ _ _ _); reflexivity.
  Qed.

  (** * A set against a set *)

  (* the all-variants that delegate to one extreme member only look at the
     begin (resp. end) of that member *)
  Lemma spec_pos_ts_set_end_only o s s' B :
    te s = te s' ->
    match orel o with Precedes | Before | SameEnd => True | _ => False end -> oall o = true ->
    spec_pos_ts_set ws o s B = spec_pos_ts_set ws o s' B.
  Proof.
    intros He Hr Ha. unfold spec_pos_ts_set. rewrite Ha.
    destruct (orel o) eqn:Er; try contradiction.
    - f_equal. apply forallb_ext'. apply Forall_forall. intros r _.
      unfold spec_pos_pair. rewrite Er, He. reflexivity.
    - rewrite He. reflexivity.
    - rewrite He. reflexivity.
  Qed.

  Lemma spec_pos_ts_set_begin_only o s s' B :
    tb s = tb s' ->
    match orel o with Succeeds | After | SameBegin => True | _ => False end -> oall o = true ->
    spec_pos_ts_set ws o s B = spec_pos_ts_set ws o s' B.
  Proof.
    intros He Hr Ha. unfold spec_pos_ts_set. rewrite Ha.
    destruct (orel o) eqn:Er; try contradiction.
    - f_equal. apply forallb_ext'. apply Forall_forall. intros r _.
      unfold spec_pos_pair. rewrite Er, He. reflexivity.
    - rewrite He. reflexivity.
    - rewrite He. reflexivity.
  Qed.

  Lemma rightmost_In A a : rightmost A = Some a -> In a (items A).
  Proof.
    unfold rightmost. destruct (items A) as [|x l]; [discriminate|]. intros H; inversion H; subst; clear H.
    revert x. induction l as [|y l IH]; intros x; cbn [rightmost_from]; [left; reflexivity|].
    destruct (te x <? te y).
    - right. apply IH.
    - destruct (IH x) as [H|H]; [left; exact H| right; right; exact H].
  Qed.

  Lemma leftmost_In A a : leftmost A = Some a -> In a (items A).
  Proof.
    unfold leftmost. destruct (items A) as [|x l]; [discriminate|].
    destruct (sorted A); intros H; inversion H; subst; clear H; [left; reflexivity|].
    revert x. induction l as [|y l IH]; intros x; cbn [leftmost_from]; [left; reflexivity|].
    destruct (tb y <? tb x).
    - right. apply IH.
    - destruct (IH x) as [H|H]; [left; exact H| right; right; exact H].
  Qed.

  Lemma pos_set_set_spec o A B : set_ok A -> set_ok B -> items A <> [] ->
      pos_set_set ws o A B = spec_pos_set_set ws o (items A) (items B).
  Proof.
    intros HA HB Hne.
    pose proof (leftmost_begin A HA) as HLA. pose proof (rightmost_end A) as HRA.
    pose proof (leftmost_begin B HB) as HLB. pose proof (rightmost_end B) as HRB.
    assert (HP : Forall (fun a => pos_ts_set ws o a B = spec_pos_ts_set ws o a (items B)) (items A)).
    { destruct HA as [_ HA]. eapply Forall_impl; [|exact HA]. intros a Ha.
      apply pos_ts_set_spec; assumption. }
    assert (Hwf : forall a, In a (items A) -> wf a).
    { destruct HA as [_ HA]. rewrite Forall_forall in HA. exact HA. }
    unfold pos_set_set, spec_pos_set_set.
    destruct (orel o) eqn:Er; destruct (oall o) eqn:Ea;
      try (apply forallb_ext'; exact HP);
      try (rewrite (forallb_ext' _ _ _ HP); destruct (Nat.eqb (length (items A)) (length (items B))); reflexivity);
      try (destruct (rightmost A) as [a|] eqn:ER; cbn [option_map] in HRA; rewrite <- HRA; [|reflexivity];
           rewrite pos_ts_set_spec by (try apply Hwf; try apply rightmost_In; assumption);
           apply spec_pos_ts_set_end_only; [reflexivity | rewrite Er; exact I | exact Ea]);
      try (destruct (leftmost A) as [a|] eqn:EL; cbn [option_map] in HLA; rewrite <- HLA; [|reflexivity];
           rewrite pos_ts_set_spec by (try apply Hwf; try apply leftmost_In; assumption);
           apply spec_pos_ts_set_begin_only; [reflexivity | rewrite Er; exact I | exact Ea]).
    - rewrite <- HLA, <- HRA, <- HLB, <- HRB.
      destruct (leftmost A), (rightmost A), (leftmost B), (rightmost B); reflexivity.
    - rewrite <- HLA, <- HRA, <- HLB, <- HRB.
      destruct (leftmost A), (rightmost A), (leftmost B), (rightmost B); reflexivity.
  Qed.

  Lemma test_set_set_spec o A B : set_ok A -> set_ok B ->
      test_set_set ws o A B = spec_set_set ws o (items A) (items B).
  Proof.
    intros HA HB. unfold test_set_set, spec_set_set.
    destruct (items A) as [|x l] eqn:E; cbn [is_nil negb andb]; [reflexivity|].
    rewrite <- E. rewrite pos_set_set_spec by (try assumption; rewrite E; discriminate).
    destruct (oneg o); cbn [xorb]; [reflexivity|]. destruct (spec_pos_set_set _ _ _ _); reflexivity.
  Qed.

  Lemma pos_set_ts_spec o A r : set_ok A -> wf r -> items A <> [] ->
      pos_set_ts ws o A r = spec_pos_set_ts ws o (items A) r.
  Proof.
    intros HA Hr Hne.
    pose proof (leftmost_begin A HA) as HLA. pose proof (rightmost_end A) as HRA.
    assert (Hwf : forall a, In a (items A) -> wf a).
    { destruct HA as [_ HA]. rewrite Forall_forall in HA. exact HA. }
    assert (HP : Forall (fun a => pos_pair ws o a r = spec_pos_pair ws o a r) (items A)).
    { apply Forall_forall. intros a Ha. apply pos_pair_spec; [apply Hwf; exact Ha|exact Hr]. }
    assert (HQ : forall a, spec_pos_ts_set ws o a [r] = spec_pos_pair ws o a r ->
                 True) by (intros; exact I).
    unfold pos_set_ts, spec_pos_set_ts, spec_pos_set_set.
    destruct (orel o) eqn:Er; destruct (oall o) eqn:Ea;
      try (apply forallb_ext'; exact HP);
      try (rewrite (forallb_ext' _ _ _ HP); apply forallb_ext'; apply Forall_forall; intros a _;
           unfold spec_pos_ts_set; rewrite Er, Ea; cbn [existsb forallb is_nil negb andb];
           rewrite ?orb_false_r, ?andb_true_r; reflexivity);
      try (destruct (rightmost A) as [a|] eqn:ER; cbn [option_map] in HRA; rewrite <- HRA; [|reflexivity];
           rewrite pos_pair_spec by first [assumption | apply Hwf; apply rightmost_In; assumption];
           unfold spec_pos_ts_set, spec_pos_pair; rewrite Er, Ea;
           cbn [existsb forallb is_nil negb andb min_begin max_end map minl maxl fold_right te tb];
           rewrite ?orb_false_r, ?andb_true_r; reflexivity);
      try (destruct (leftmost A) as [a|] eqn:EL; cbn [option_map] in HLA; rewrite <- HLA; [|reflexivity];
           rewrite pos_pair_spec by first [assumption | apply Hwf; apply leftmost_In; assumption];
           unfold spec_pos_ts_set, spec_pos_pair; rewrite Er, Ea;
           cbn [existsb forallb is_nil negb andb min_begin max_end map minl maxl fold_right te tb];
           rewrite ?orb_false_r, ?andb_true_r; reflexivity).
    - rewrite <- HLA, <- HRA. cbn [min_begin max_end map minl maxl fold_right].
      destruct (leftmost A), (rightmost A); reflexivity.
    - rewrite <- HLA, <- HRA. cbn [min_begin max_end map minl maxl fold_right].
      destruct (leftmost A), (rightmost A); reflexivity.
  Qed.

  Lemma test_set_ts_spec o A r : set_ok A -> wf r ->
      test_set_ts ws o A r = spec_set_ts ws o (items A) r.
  Proof.
    intros HA Hr. unfold test_set_ts, spec_set_ts.
    destruct (items A) as [|x l] eqn:E; cbn [is_nil negb andb]; [reflexivity|].
    rewrite <- E. rewrite pos_set_ts_spec by (try assumption; rewrite E; discriminate).
    destruct (oneg o); cbn [xorb]; [reflexivity|]. destruct (spec_pos_set_ts _ _ _ _); reflexivity.
  Qed.

  (** * Negation is the exact complement *)

  Lemma negate_ts_set o s B :
    test_ts_set ws (toggle_negate o) s B = negb (test_ts_set ws o s B).
  Proof.
    unfold test_ts_set, toggle_negate, pos_ts_set; cbn [oneg orel oall olim ows].
    replace (pos_pair ws (mkop (orel o) (oall o) (negb (oneg o)) (olim o) (ows o)) s)
      with (pos_pair ws o s) by reflexivity.
    destruct (oneg o); cbn [negb]; [rewrite negb_involutive|]; reflexivity.
  Qed.

  Lemma pos_set_ts_neg_irrel o A r :
    pos_set_ts ws (toggle_negate o) A r = pos_set_ts ws o A r.
  Proof. reflexivity. Qed.

  Lemma pos_set_set_neg_irrel o A B :
    pos_set_set ws (toggle_negate o) A B = pos_set_set ws o A B.
  Proof. reflexivity. Qed.

  Lemma negate_set_ts o A r : items A <> [] ->
    test_set_ts ws (toggle_negate o) A r = negb (test_set_ts ws o A r).
  Proof.
    intros Hne. unfold test_set_ts. rewrite pos_set_ts_neg_irrel.
    destruct (items A); [contradiction|]. cbn [is_nil toggle_negate oneg].
    destruct (oneg o); cbn [negb]; [rewrite negb_involutive|]; reflexivity.
  Qed.

  Lemma negate_set_set o A B : items A <> [] ->
    test_set_set ws (toggle_negate o) A B = negb (test_set_set ws o A B).
  Proof.
    intros Hne. unfold test_set_set. rewrite pos_set_set_neg_irrel.
    destruct (items A); [contradiction|]. cbn [is_nil toggle_negate oneg].
    destruct (oneg o); cbn [negb]; [rewrite negb_involutive|]; reflexivity.
  Qed.

  (** * Singleton sets behave like their members *)

  Definition single (f : bool) (t : ts) : tset := mkset [t] f.

  Lemma pos_singleton_ts_set o s r f : pos_ts_set ws o s (single f r) = pos_pair ws o s r.
  Proof.
    unfold pos_ts_set, single, leftmost, rightmost;
      cbn [items sorted map fold_left existsb forallb is_nil leftmost_from rightmost_from];
      destruct o as [rl al ng lm w]; cbn [orel oall oneg olim ows];
      destruct rl, al; cbn [pos_pair orel olim ows]; rewrite ?orb_false_r, ?andb_true_r;
      try reflexivity; destruct f; try reflexivity;
      rewrite (Nat.eqb_sym (tb s) (te r)); reflexivity.
  Qed.

  Lemma singleton_ts_set o s r f : test_ts_set ws o s (single f r) = test_pair ws o s r.
  Proof. unfold test_ts_set, test_pair. rewrite pos_singleton_ts_set. reflexivity. Qed.

  Lemma pos_singleton_set_ts o s r f : pos_set_ts ws o (single f s) r = pos_pair ws o s r.
  Proof.
    unfold pos_set_ts, single, leftmost, rightmost;
      cbn [items sorted forallb leftmost_from rightmost_from];
      destruct o as [rl al ng lm w]; cbn [orel oall oneg olim ows];
      destruct rl, al; cbn [pos_pair orel olim ows]; rewrite ?andb_true_r;
      try reflexivity; destruct f; try reflexivity.
  Qed.

  Lemma singleton_set_ts o s r f : test_set_ts ws o (single f s) r = test_pair ws o s r.
  Proof.
    unfold test_set_ts, test_pair. rewrite pos_singleton_set_ts. reflexivity.
  Qed.

  Lemma pos_singleton_set_set o s r f g :
    pos_set_set ws o (single f s) (single g r) = pos_pair ws o s r.
  Proof.
    rewrite <- pos_singleton_ts_set with (f := g).
    unfold pos_set_set, single, leftmost, rightmost;
      cbn [items sorted forallb length leftmost_from rightmost_from Nat.eqb negb];
      destruct o as [rl al ng lm w]; cbn [orel oall oneg olim ows];
      destruct rl, al; rewrite ?andb_true_r; try reflexivity; destruct f; try reflexivity;
      unfold pos_ts_set, leftmost, rightmost; cbn [items sorted orel oall leftmost_from rightmost_from];
      destruct g; reflexivity.
  Qed.

  Lemma singleton_set_set o s r f g :
    test_set_set ws o (single f s) (single g r) = test_pair ws o s r.
  Proof.
    unfold test_set_set, test_pair. rewrite pos_singleton_set_set. reflexivity.
  Qed.

  (** * Algebraic laws on pairs *)

  Definition O (r : rel) (a n : bool) (l : option nat) (w : bool) := mkop r a n l w.

  Lemma converse_embeds a n w s r :
    test_pair ws (O Embeds a n None w) s r = test_pair ws (O Embedded a n None w) r s.
  Proof. unfold test_pair, pos_pair, O; cbn [orel oneg olim]. reflexivity. Qed.

  Lemma converse_before a n l w s r :
    test_pair ws (O Before a n l w) s r = test_pair ws (O After a n l w) r s.
  Proof. unfold test_pair, pos_pair, O; cbn [orel oneg olim]. reflexivity. Qed.

  Lemma converse_precedes a n l w s r :
    test_pair ws (O Precedes a n l w) s r = test_pair ws (O Succeeds a n l w) r s.
  Proof. unfold test_pair, pos_pair, O; cbn [orel oneg olim ows]. reflexivity. Qed.

  Lemma onat_eqb_sym x y : onat_eqb x y = onat_eqb y x.
  Proof. destruct x, y; cbn; try reflexivity. apply Nat.eqb_sym. Qed.

  Lemma sym_equals a n l w s r :
    test_pair ws (O Equals a n l w) s r = test_pair ws (O Equals a n l w) r s.
  Proof.
    unfold test_pair, pos_pair, O, ts_eqb; cbn [orel oneg].
    rewrite (onat_eqb_sym (hid s)), (Nat.eqb_sym (tb s)), (Nat.eqb_sym (te s)). reflexivity.
  Qed.

  Lemma sym_overlaps a n l w s r : wf s -> wf r ->
    test_pair ws (O Overlaps a n l w) s r = test_pair ws (O Overlaps a n l w) r s.
  Proof.
    unfold wf, test_pair, pos_pair, O; cbn [orel oneg]. intros Hs Hr.
    destruct n; [f_equal|]; lia.
  Qed.

  Lemma equals_implies a l w a' w' s r :
    test_pair ws (O Equals a false l w) s r = true ->
    test_pair ws (O Embeds a' false None w') s r = true
    /\ test_pair ws (O Embedded a' false None w') s r = true
    /\ test_pair ws (O SameBegin a' false None w') s r = true
    /\ test_pair ws (O SameEnd a' false None w') s r = true
    /\ test_pair ws (O SameRange a' false None w') s r = true.
  Proof.
    unfold test_pair, pos_pair, O, ts_eqb; cbn [orel oneg olim]. intros H.
    apply andb_prop in H; destruct H as [H He]. apply andb_prop in H; destruct H as [_ Hb].
    repeat split; lia.
  Qed.

  (** * Interval-arithmetic meaning of every relation on a pair *)

  Lemma meaning_equals a l w s r :
    test_pair ws (O Equals a false l w) s r = true <->
    hid s = hid r /\ tb s = tb r /\ te s = te r.
  Proof.
    unfold test_pair, pos_pair, O, ts_eqb; cbn [orel oneg].
    rewrite !andb_true_iff, !Nat.eqb_eq.
    assert (onat_eqb (hid s) (hid r) = true <-> hid s = hid r).
    { destruct (hid s), (hid r); cbn; rewrite ?Nat.eqb_eq; split; intros H; try discriminate;
        try reflexivity; try (inversion H; reflexivity); try (f_equal; exact H). }
    tauto.
  Qed.

  Lemma meaning_embeds a l w s r :
    test_pair ws (O Embeds a false l w) s r = true <-> tb s <= tb r /\ te r <= te s.
  Proof. unfold test_pair, pos_pair, O; cbn [orel oneg]. lia. Qed.

  Lemma meaning_embedded a w s r :
    test_pair ws (O Embedded a false None w) s r = true <-> tb r <= tb s /\ te s <= te r.
  Proof. unfold test_pair, pos_pair, O; cbn [orel oneg olim]. lia. Qed.

  Lemma meaning_embedded_limit a w lim s r :
    test_pair ws (O Embedded a false (Some lim) w) s r = true <->
    tb r <= tb s /\ te s <= te r /\ tb s - tb r <= lim /\ te r - te s <= lim.
  Proof. unfold test_pair, pos_pair, O; cbn [orel oneg olim]. lia. Qed.

  Lemma meaning_overlaps a l w s r : wf s -> wf r ->
    (test_pair ws (O Overlaps a false l w) s r = true <->
     Nat.max (tb s) (tb r) < Nat.min (te s) (te r)
     \/ (tb s <= tb r /\ te r <= te s) \/ (tb r <= tb s /\ te s <= te r)).
  Proof. unfold wf, test_pair, pos_pair, O; cbn [orel oneg]. lia. Qed.

  Lemma meaning_overlaps_nonempty a l w s r : tb s < te s -> tb r < te r ->
    (test_pair ws (O Overlaps a false l w) s r = true <->
     Nat.max (tb s) (tb r) < Nat.min (te s) (te r)).
  Proof. unfold test_pair, pos_pair, O; cbn [orel oneg]. lia. Qed.

  Lemma meaning_before a w s r :
    test_pair ws (O Before a false None w) s r = true <-> te s <= tb r.
  Proof. unfold test_pair, pos_pair, O; cbn [orel oneg olim]. lia. Qed.

  Lemma meaning_before_limit a w lim s r :
    test_pair ws (O Before a false (Some lim) w) s r = true <-> te s <= tb r /\ tb r - te s <= lim.
  Proof. unfold test_pair, pos_pair, O; cbn [orel oneg olim]. lia. Qed.

  Lemma meaning_after a w s r :
    test_pair ws (O After a false None w) s r = true <-> te r <= tb s.
  Proof. unfold test_pair, pos_pair, O; cbn [orel oneg olim]. lia. Qed.

  Lemma meaning_after_limit a w lim s r :
    test_pair ws (O After a false (Some lim) w) s r = true <-> te r <= tb s /\ tb s - te r <= lim.
  Proof. unfold test_pair, pos_pair, O; cbn [orel oneg olim]. lia. Qed.

  Lemma meaning_precedes_exact a l s r :
    test_pair ws (O Precedes a false l false) s r = true <-> te s = tb r.
  Proof. unfold test_pair, pos_pair, O; cbn [orel oneg ows negb]. lia. Qed.

  Lemma meaning_succeeds_exact a l s r :
    test_pair ws (O Succeeds a false l false) s r = true <-> tb s = te r.
  Proof. unfold test_pair, pos_pair, O; cbn [orel oneg ows negb]. lia. Qed.

  Lemma meaning_precedes_ws a l s r :
    test_pair ws (O Precedes a false l true) s r = true <->
    te s = tb r \/ (te s < tb r /\ gap_ws ws (te s) (tb r) = true).
  Proof.
    unfold test_pair, pos_pair, O; cbn [orel oneg ows negb].
    destruct (te s <=? tb r) eqn:E1; [|lia].
    destruct (Nat.eqb (tb r - te s) 0) eqn:E2; [lia|].
    split; [intros H; right; split; [lia|exact H] | intros [H|[_ H]]; [lia|exact H]].
  Qed.

  Lemma meaning_succeeds_ws a l s r :
    test_pair ws (O Succeeds a false l true) s r = true <->
    tb s = te r \/ (te r < tb s /\ gap_ws ws (te r) (tb s) = true).
  Proof.
    unfold test_pair, pos_pair, O; cbn [orel oneg ows negb].
    destruct (te r <=? tb s) eqn:E1; [|lia].
    destruct (Nat.eqb (tb s - te r) 0) eqn:E2; [lia|].
    split; [intros H; right; split; [lia|exact H] | intros [H|[_ H]]; [lia|exact H]].
  Qed.

  Lemma meaning_samebegin a l w s r :
    test_pair ws (O SameBegin a false l w) s r = true <-> tb s = tb r.
  Proof. unfold test_pair, pos_pair, O; cbn [orel oneg]. lia. Qed.

  Lemma meaning_sameend a l w s r :
    test_pair ws (O SameEnd a false l w) s r = true <-> te s = te r.
  Proof. unfold test_pair, pos_pair, O; cbn [orel oneg]. lia. Qed.

  Lemma meaning_samerange a l w s r :
    test_pair ws (O SameRange a false l w) s r = true <-> tb s = tb r /\ te s = te r.
  Proof. unfold test_pair, pos_pair, O; cbn [orel oneg]. lia. Qed.

  (* the whitespace gap test is what it says *)
  Lemma gap_ws_meaning x y :
    gap_ws ws x y = true <->
    x <= y /\ y <= length ws /\ y - x <= WHITESPACE_LIMIT
    /\ forall p, x <= p < y -> nth p ws false = true.
  Proof.
    unfold gap_ws. destruct ((x <=? y) && (y <=? length ws) && (y - x <=? WHITESPACE_LIMIT)) eqn:E.
    - assert (Hxy : x <= y /\ y <= length ws /\ y - x <= WHITESPACE_LIMIT) by lia. clear E.
      rewrite (forallb_nth _ _ false), firstn_length, skipn_length.
      split.
      + intros H. repeat split; try lia. intros p Hp.
        specialize (H (p - x)). rewrite nth_firstn, nth_skipn in H by lia.
        replace (x + (p - x)) with p in H by lia. apply H. lia.
      + intros (_ & _ & _ & H) i Hi. rewrite nth_firstn, nth_skipn by lia. apply H. lia.
    - split; [discriminate|]. intros (H1 & H2 & H3 & _). lia.
  Qed.

End WithText.

(** * TextSelection::intersection *)

Lemma intersection_spec s o : wf s -> wf o ->
  match intersection s o with
  | Some (i, _, _) =>
      pos_pair [] (mkop Overlaps false false None false) s o = true
      /\ tb i = Nat.max (tb s) (tb o) /\ te i = Nat.min (te s) (te o) /\ hid i = None
  | None => pos_pair [] (mkop Overlaps false false None false) s o = false
  end.
Proof.
  unfold wf, intersection, pos_pair; cbn [orel]. intros Hs Ho.
  repeat match goal with
         | |- context [if ?c then _ else _] => let E := fresh "E" in destruct c eqn:E
         end; cbn [tb te hid]; try lia; repeat split; try reflexivity; lia.
Qed.

