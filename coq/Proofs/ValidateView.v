(* Text validation, part 4: how one round of protect_text changes what validation reads from an
   annotation (its checksum / text / delimiter references and its selected strings): only the
   reference under the inserted key of the one annotation, and only from "none" to the new value. *)
From Coq Require Import NArith.
From Stam Require Import Base.Tac Base.ListAux Model.Offset Model.Utf8 Model.Store Model.StoreObs Spec.StoreSpec
     Model.TempId Model.DataValue Spec.DataSpec
     Proofs.RelMap Proofs.StoreScan Proofs.StoreInv Proofs.StoreDataDef Proofs.StoreItems Proofs.StoreRemove
     Proofs.StoreSets Proofs.StoreIds Proofs.StoreData
     Model.Validate Proofs.ValidateSet Proofs.ValidateAttach.

Definition vstr_in (s : store) (data : list (nat * nat)) (kt : nat) : option text :=
  match vkey s kt with
  | Some dk => hd_error (omap (data_str s dk) data)
  | None => None
  end.
Lemma ann_vstr_in s a kt : ann_vstr s a kt = vstr_in s (a_data a) kt.
Proof. reflexivity. Qed.

Lemma omap_app {X Y} (f : X -> option Y) l1 l2 : omap f (l1 ++ l2) = omap f l1 ++ omap f l2.
Proof. induction l1 as [|x l1 IH]; cbn [omap app]; [reflexivity|]. destruct (f x); cbn [app]; rewrite IH; reflexivity. Qed.

Lemma omap_ext_in {X Y} (f g : X -> option Y) l : (forall x, In x l -> f x = g x) -> omap f l = omap g l.
Proof.
  induction l as [|x l IH]; intros E; cbn [omap]; [reflexivity|].
  rewrite (E x (or_introl eq_refl)), IH; [reflexivity|]. intros y Hy. apply E. right. exact Hy.
Qed.

Lemma omap_none {X Y} (f : X -> option Y) l : (forall x, In x l -> f x = None) -> omap f l = [].
Proof.
  induction l as [|x l IH]; intros E; cbn [omap]; [reflexivity|].
  rewrite (E x (or_introl eq_refl)). apply IH. intros y Hy. apply E. right. exact Hy.
Qed.

Lemma hd_error_app {X} (l1 l2 : list X) :
  hd_error (l1 ++ l2) = match hd_error l1 with Some y => Some y | None => hd_error l2 end.
Proof. destruct l1; reflexivity. Qed.

Lemma ref_set_vset s sh : ref_set s (ById VSET) = Some sh -> id_get (sidx s) VSET = Some sh /\ get_set s sh <> None.
Proof.
  unfold ref_set, resolve_ref, get_set. destruct (id_get (sidx s) VSET) as [h0|]; [|discriminate].
  destruct (slot (sets s) h0) eqn:E; [|discriminate]. intros H; inversion H; subst h0. split; [reflexivity|congruence].
Qed.

Section View.
Variables (s : store) (sh : nat) (ds ds' : dset) (h : nat) (a : ann) (x k ktok : nat) (v : text).
Hypothesis Hs : get_set s sh = Some ds.
Hypothesis Ha : get_ann s h = Some a.
Hypothesis SI : StrIns ds ds' ktok v x k.
Hypothesis Hv : ref_set s (ById VSET) = Some sh.
Hypothesis HI : DsInv ds.
Let s' := attach s sh ds' h a x.
Let a' := ann_add_data a (sh, x).

Lemma view_ref_set : ref_set s' (ById VSET) = Some sh.
Proof.
  destruct (ref_set_vset s sh Hv) as [E _]. unfold ref_set, resolve_ref.
  change (sidx s') with (sidx s). rewrite E.
  change (slot (sets s') sh) with (get_set s' sh). unfold s'. rewrite (attach_get_set s sh ds ds' h a x Hs), Nat.eqb_refl. reflexivity.
Qed.

Lemma vkey_old kt : vkey s kt = option_map (pair sh) (ref_key ds (ById kt)).
Proof. unfold vkey. rewrite Hv, Hs. destruct (ref_key ds (ById kt)); reflexivity. Qed.

Lemma vkey_new kt : vkey s' kt = option_map (pair sh) (ref_key ds' (ById kt)).
Proof.
  unfold vkey. rewrite view_ref_set. unfold s'. rewrite (attach_get_set s sh ds ds' h a x Hs), Nat.eqb_refl.
  destruct (ref_key ds' (ById kt)); reflexivity.
Qed.

Let HI' : DsInv ds' := SI_inv _ _ _ _ _ _ SI.

Lemma key_kept kt k0 : ref_key ds (ById kt) = Some k0 -> ref_key ds' (ById kt) = Some k0.
Proof.
  intros E. apply (ref_key_iff ds' kt k0 HI'). apply (SI_keys _ _ _ _ _ _ SI).
  apply (ref_key_iff ds kt k0 HI). exact E.
Qed.

Lemma key_other_none kt : kt <> ktok -> ref_key ds (ById kt) = None -> ref_key ds' (ById kt) = None.
Proof.
  intros Hne E. apply (ref_key_none_iff ds' kt HI'). intros k0 Hk.
  apply (SI_keys_back _ _ _ _ _ _ SI k0 kt Hk) in Hne.
  apply (proj1 (ref_key_none_iff ds kt HI) E k0). exact Hne.
Qed.

Lemma key_new : ref_key ds' (ById ktok) = Some k.
Proof. apply (ref_key_iff ds' ktok k HI'). exact (SI_key _ _ _ _ _ _ SI). Qed.

(* a data reference that existed reads the same *)
Lemma data_str_old dx kh : data_exists s dx -> data_str s' (sh, kh) dx = data_str s (sh, kh) dx.
Proof.
  intros (d0 & it & H1 & H2). unfold data_str. cbn [fst snd].
  destruct (fst dx =? sh) eqn:E; [|reflexivity].
  assert (fst dx = sh) by lia. unfold s'. rewrite (attach_get_set s sh ds ds' h a x Hs), E.
  rewrite H in H1. rewrite H, Hs. rewrite Hs in H1. inversion H1; subst d0.
  rewrite (SI_data _ _ _ _ _ _ SI _ _ H2), H2. reflexivity.
Qed.

(* ... and under a key that did not exist before it reads nothing *)
Lemma data_str_fresh dx : ref_key ds (ById ktok) = None -> data_exists s dx -> data_str s' (sh, k) dx = None.
Proof.
  intros En (d0 & it & H1 & H2). unfold data_str. cbn [fst snd].
  destruct (fst dx =? sh) eqn:E; [|reflexivity].
  assert (fst dx = sh) by lia. unfold s'. rewrite (attach_get_set s sh ds ds' h a x Hs), E.
  rewrite H in H1. rewrite Hs in H1. inversion H1; subst d0.
  rewrite (SI_data _ _ _ _ _ _ SI _ _ H2).
  pose proof (SI_fresh_key _ _ _ _ _ _ SI En _ _ H2) as Hne.
  destruct (x_key it =? k) eqn:Ek; [lia|reflexivity].
Qed.

(* the references read from a data list all of whose items existed *)
Lemma vstr_old data kt :
  (forall dx, In dx data -> data_exists s dx) -> vstr_in s' data kt = vstr_in s data kt.
Proof.
  intros Hex. unfold vstr_in. rewrite vkey_old, vkey_new.
  destruct (ref_key ds (ById kt)) as [k0|] eqn:E.
  - rewrite (key_kept kt k0 E). cbn [option_map]. f_equal. apply omap_ext_in. intros dx Hdx.
    apply data_str_old. apply Hex. exact Hdx.
  - cbn [option_map]. destruct (Nat.eq_dec kt ktok) as [->|Hne].
    + rewrite key_new. cbn [option_map]. rewrite omap_none; [reflexivity|].
      intros dx Hdx. apply data_str_fresh; [exact E|apply Hex; exact Hdx].
    + rewrite (key_other_none kt Hne E). reflexivity.
Qed.

Lemma data_str_new kh : data_str s' (sh, kh) (sh, x) = if k =? kh then Some v else None.
Proof.
  unfold data_str. cbn [fst snd]. rewrite Nat.eqb_refl.
  unfold s'. rewrite (attach_get_set s sh ds ds' h a x Hs), Nat.eqb_refl.
  destruct (SI_item _ _ _ _ _ _ SI) as (it & E1 & E2 & E3). rewrite E1, E2, E3. reflexivity.
Qed.

Hypothesis Hdata : forall dx, In dx (a_data a) -> data_exists s dx.

(* the annotation that received the item *)
Theorem view_self kt :
  ann_vstr s' a' kt =
  if kt =? ktok then match ann_vstr s a kt with Some t => Some t | None => Some v end
  else ann_vstr s a kt.
Proof.
  rewrite !ann_vstr_in. unfold a', ann_add_data. cbn [a_data].
  pose proof (vstr_old (a_data a) kt Hdata) as Hold. unfold vstr_in in *. rewrite vkey_new in *.
  destruct (ref_key ds' (ById kt)) as [kh|] eqn:Ek; cbn [option_map] in *.
  - rewrite omap_app, hd_error_app, Hold. cbn [omap]. rewrite data_str_new.
    destruct (kt =? ktok) eqn:E.
    + assert (kt = ktok) by lia. subst kt. rewrite key_new in Ek. inversion Ek; subst kh. rewrite Nat.eqb_refl. reflexivity.
    + assert (Hne : (k =? kh) = false).
      { destruct (k =? kh) eqn:E2; [|reflexivity]. assert (k = kh) by lia. subst kh.
        apply (ref_key_iff ds' kt k HI') in Ek. rewrite (SI_key _ _ _ _ _ _ SI) in Ek. inversion Ek. lia. }
      rewrite Hne. cbn [hd_error]. destruct (match vkey s kt with Some dk => _ | None => None end); reflexivity.
  - destruct (kt =? ktok) eqn:E.
    + assert (kt = ktok) by lia. subst kt. rewrite key_new in Ek. discriminate.
    + exact Hold.
Qed.

End View.
