(* Temporary identifiers: printing then resolving gives the handle back, a temporary id
   belongs to exactly one kind, compaction (reindex) maps every live handle to its rank. *)
From Coq Require Import NArith.
From Stam Require Import Base.Tac Base.ListAux Model.Offset Model.Store Model.TempId Model.Reindex Proofs.RelMap.
Local Open Scope N_scope.

Lemma parse_digits_app l1 : forall acc l2,
  parse_digits acc (l1 ++ l2) = match parse_digits acc l1 with Some a => parse_digits a l2 | None => None end.
Proof.
  induction l1 as [|c l1 IH]; intros acc l2; cbn [app parse_digits]; [reflexivity|].
  destruct (is_digit c); [apply IH|reflexivity].
Qed.

Lemma is_digit_48 d : d < 10 -> is_digit (48 + d) = true.
Proof. intros H. unfold is_digit. apply andb_true_iff. split; apply N.leb_le; lia. Qed.

Lemma digits_f_parse : forall fuel n, n < 10 ^ N.of_nat fuel -> (fuel > 0)%nat ->
  parse_digits 0 (digits_f fuel n) = Some n.
Proof.
  induction fuel as [|fuel IH]; intros n Hn Hf; [lia|].
  cbn [digits_f]. destruct (n <? 10) eqn:E.
  - apply N.ltb_lt in E. cbn [parse_digits]. rewrite is_digit_48 by exact E. cbn [parse_digits]. f_equal. rewrite (N.add_comm 48), N.add_sub. reflexivity.
  - apply N.ltb_ge in E. rewrite parse_digits_app.
    assert (Hdiv : n / 10 < 10 ^ N.of_nat fuel).
    { apply N.div_lt_upper_bound; [lia|]. rewrite Nat2N.inj_succ, N.pow_succ_r' in Hn. exact Hn. }
    assert (Hfuel : (fuel > 0)%nat).
    { destruct fuel; [|lia]. change (N.of_nat 1) with 1 in Hn. rewrite N.pow_1_r in Hn. lia. }
    rewrite (IH (n / 10) Hdiv Hfuel). cbn [parse_digits].
    assert (Hm : n mod 10 < 10) by (apply N.mod_lt; lia).
    rewrite is_digit_48 by exact Hm. cbn [parse_digits]. f_equal.
    pose proof (N.div_mod n 10 ltac:(lia)) as Hd. rewrite (N.add_comm 48), N.add_sub, N.mul_comm. symmetry. exact Hd.
Qed.

Lemma log2_fuel n : n < 10 ^ N.of_nat (S (N.to_nat (N.log2 n))).
Proof.
  destruct n as [|p]; [cbn; lia|].
  pose proof (N.log2_spec (N.pos p) ltac:(lia)) as [_ H].
  rewrite Nat2N.inj_succ, N2Nat.id.
  eapply N.lt_le_trans; [exact H|]. apply N.pow_le_mono_l. lia.
Qed.

Theorem parse_digits_digits n : parse_digits 0 (digits n) = Some n.
Proof. unfold digits. apply digits_f_parse; [apply log2_fuel|lia]. Qed.

Lemma digits_f_head fuel n : (fuel > 0)%nat -> exists c l, digits_f fuel n = c :: l /\ 48 <= c.
Proof.
  revert n. induction fuel as [|fuel IH]; intros n Hf; [lia|]. cbn [digits_f].
  destruct (n <? 10); [exists (48 + n), []; split; [reflexivity|apply N.le_add_r]|].
  destruct fuel as [|fuel'].
  - cbn [digits_f app]. exists (48 + n mod 10), []. split; [reflexivity|apply N.le_add_r].
  - destruct (IH (n / 10) ltac:(lia)) as (c & l & E & Hc). rewrite E. exists c, (l ++ [48 + n mod 10]). split; [reflexivity|exact Hc].
Qed.

Lemma digits_head n : exists c l, digits n = c :: l /\ 48 <= c.
Proof. unfold digits. apply digits_f_head. lia. Qed.

(* printing a handle as a temporary id and resolving it gives the handle back *)
Theorem temp_roundtrip k h : h < width k -> temp_resolve k (temp_id k h) = Some h.
Proof.
  intros Hw. unfold temp_resolve, temp_id. rewrite !N.eqb_refl. cbn [andb]. unfold parse_usize.
  destruct (digits_head h) as (c & l & E & Hc). rewrite E.
  assert (Hne : (match c :: l with 43 :: r => r | _ => c :: l end) = c :: l).
  { destruct c as [|p]; [lia|]. repeat (destruct p as [p|p|]; try reflexivity); lia. }
  rewrite Hne, <- E, parse_digits_digits.
  assert (Hb : h <? 18446744073709551616 = true) by (apply N.ltb_lt; destruct k; cbn [width] in Hw; lia).
  rewrite Hb. apply N.ltb_lt in Hw. rewrite Hw. reflexivity.
Qed.

(* what resolves is below the handle width and is the number written after "!<Letter>" *)
Theorem temp_resolve_sound k s n : temp_resolve k s = Some n ->
  n < width k /\ exists rest, s = 33 :: letter k :: rest /\ parse_usize rest = Some n.
Proof.
  unfold temp_resolve. destruct s as [|c0 s']; [discriminate|]. destruct s' as [|l rest]; [discriminate|].
  destruct (N.eqb_spec c0 33) as [E0|]; [|discriminate]. destruct (N.eqb_spec l (letter k)) as [E1|]; [|discriminate].
  cbn [andb]. subst c0 l.
  destruct (parse_usize rest) as [m|] eqn:Ep; [|discriminate].
  destruct (m <? width k) eqn:Ew; [|discriminate]. intros H; inversion H; subst m.
  split; [apply N.ltb_lt; exact Ew|]. exists rest. split; [reflexivity|exact Ep].
Qed.

(* a temporary id resolves for one kind only *)
Theorem temp_kind_unique k k' s n n' :
  temp_resolve k s = Some n -> temp_resolve k' s = Some n' -> k = k'.
Proof.
  intros H1 H2. apply temp_resolve_sound in H1. apply temp_resolve_sound in H2.
  destruct H1 as (_ & r1 & E1 & _). destruct H2 as (_ & r2 & E2 & _). rewrite E1 in E2. inversion E2 as [[El Er]].
  destruct k, k'; cbn [letter] in El; try reflexivity; discriminate.
Qed.
Local Close Scope N_scope.

(** * compaction *)

(* number of live slots before h *)
Fixpoint rank {X} (l : list (option X)) (h : nat) : nat :=
  match l, h with
  | _, 0 => 0
  | [], _ => 0
  | Some _ :: l', S h' => S (rank l' h')
  | None :: l', S h' => rank l' h'
  end.

(* the sum of the gap sizes registered at or before h, as reindex_handle subtracts them *)
Lemma reindex_handle_le g : forall h, reindex_handle g h <= h.
Proof.
  induction g as [|[gh d] g IH]; intros h; cbn [reindex_handle]; [lia|].
  destruct (gh <=? h); [specialize (IH h); lia|lia].
Qed.

Fixpoint dead_before {X} (l : list (option X)) (h : nat) : nat :=
  match h, l with
  | 0, _ => 0
  | S h', None :: l' => S (dead_before l' h')
  | S h', Some _ :: l' => dead_before l' h'
  | S _, [] => 0
  end.

Lemma gaps_from_ge {X} (l : list (option X)) : forall b g gh d, In (gh, d) (gaps_from l b g) -> b <= gh.
Proof.
  induction l as [|[x|] l IH]; intros b g gh d; cbn [gaps_from]; [intros []| |].
  - destruct (g =? 0); [intros H; apply IH in H; lia|].
    intros [H|H]; [inversion H; lia|apply IH in H; lia].
  - intros H. apply IH in H. lia.
Qed.

Lemma reindex_handle_small g h : (forall gh d, In (gh, d) g -> h < gh) -> reindex_handle g h = h.
Proof.
  destruct g as [|[gh d] g]; intros H; cbn [reindex_handle]; [reflexivity|].
  specialize (H gh d (or_introl eq_refl)). destruct (gh <=? h) eqn:E; [lia|reflexivity].
Qed.

Lemma dead_before_le {X} (l : list (option X)) : forall h, dead_before l h <= h.
Proof. induction l as [|[x|] l IH]; intros [|h]; cbn [dead_before]; try lia; specialize (IH h); lia. Qed.

Lemma reindex_gaps_from {X} (l : list (option X)) : forall b g h it,
  b <= h -> g <= b -> slot l (h - b) = Some it ->
  reindex_handle (gaps_from l b g) h = h - g - dead_before l (h - b).
Proof.
  induction l as [|[x|] l IH]; intros b g h it Hb Hg Hs.
  - unfold slot in Hs. destruct (h - b); discriminate.
  - cbn [gaps_from]. destruct (h - b) as [|n] eqn:En.
    + assert (h = b) by lia. subst h. cbn [dead_before].
      destruct (g =? 0) eqn:Eg.
      * rewrite reindex_handle_small; [lia|]. intros gh d H. apply gaps_from_ge in H. lia.
      * cbn [reindex_handle]. rewrite Nat.leb_refl. rewrite reindex_handle_small; [lia|].
        intros gh d H. apply gaps_from_ge in H. lia.
    + assert (Hs' : slot l (h - S b) = Some it) by (replace (h - S b) with n by lia; exact Hs).
      cbn [dead_before]. replace n with (h - S b) by lia.
      destruct (g =? 0) eqn:Eg.
      * rewrite (IH (S b) 0 h it ltac:(lia) ltac:(lia) Hs'). lia.
      * cbn [reindex_handle]. destruct (b <=? h) eqn:Eb; [|lia].
        rewrite (IH (S b) 0 h it ltac:(lia) ltac:(lia) Hs'). lia.
  - cbn [gaps_from]. destruct (h - b) as [|n] eqn:En; [unfold slot in Hs; cbn in Hs; discriminate|].
    assert (Hs' : slot l (h - S b) = Some it) by (replace (h - S b) with n by lia; exact Hs).
    cbn [dead_before]. replace n with (h - S b) by lia.
    rewrite (IH (S b) (S g) h it ltac:(lia) ltac:(lia) Hs'). lia.
Qed.

(* Handle::reindex maps a live handle to the number of live items before it *)
Theorem reindex_handle_rank {X} (l : list (option X)) h it :
  slot l h = Some it -> reindex_handle (gaps l) h = h - dead_before l h.
Proof.
  intros Hs. unfold gaps. rewrite (reindex_gaps_from l 0 0 h it); [rewrite !Nat.sub_0_r; reflexivity|lia|lia|].
  rewrite Nat.sub_0_r. exact Hs.
Qed.

Lemma slot_compact {X} (l : list (option X)) : forall h it,
  slot l h = Some it -> slot (compact l) (h - dead_before l h) = Some it.
Proof.
  induction l as [|[x|] l IH]; intros h it Hs.
  - unfold slot in Hs. destruct h; discriminate.
  - destruct h as [|h]; cbn [compact filter dead_before]; [exact Hs|].
    pose proof (dead_before_le l h). replace (S h - dead_before l h) with (S (h - dead_before l h)) by lia.
    apply (IH h it). exact Hs.
  - destruct h as [|h]; [discriminate|]. cbn [compact filter dead_before].
    replace (S h - S (dead_before l h)) with (h - dead_before l h) by lia. apply (IH h it). exact Hs.
Qed.

Lemma gaps_nil_no_dead {X} (l : list (option X)) : forall b g h it,
  gaps_from l b g = [] -> slot l h = Some it -> g = 0 /\ dead_before l h = 0.
Proof.
  induction l as [|[x|] l IH]; intros b g h it Hg Hs.
  - unfold slot in Hs. destruct h; discriminate.
  - cbn [gaps_from] in Hg. destruct (g =? 0) eqn:Eg; [|discriminate]. split; [lia|].
    destruct h as [|h]; [reflexivity|]. cbn [dead_before]. apply (IH (S b) 0 h it Hg Hs).
  - cbn [gaps_from] in Hg. destruct h as [|h]; [discriminate|].
    destruct (IH (S b) (S g) h it Hg Hs) as [H _]. discriminate.
Qed.

Lemma id_get_map f m tok : id_get (map (fun p => (fst p, f (snd p))) m) tok = option_map f (id_get m tok).
Proof.
  induction m as [|[k h] m IH]; cbn [map id_get fst snd option_map]; [reflexivity|].
  destruct (k =? tok); [reflexivity|exact IH].
Qed.

(* compaction never redirects an identifier: an id that resolved to an item still resolves,
   to the same item at its new handle *)
Theorem reindex_keeps_ids {X} (l : list (option X)) (m : idmap) tok h it :
  id_get m tok = Some h -> slot l h = Some it ->
  exists h', id_get (reindex_idmap (gaps l) m) tok = Some h' /\ slot (reindex_store l) h' = Some it.
Proof.
  intros Hm Hs. unfold reindex_idmap. rewrite id_get_map, Hm. cbn [option_map].
  exists (reindex_handle (gaps l) h). split; [reflexivity|].
  rewrite (reindex_handle_rank l h it Hs). unfold reindex_store.
  destruct (gaps l) eqn:Eg.
  - destruct (gaps_nil_no_dead l 0 0 h it Eg Hs) as (_ & Hd). rewrite Hd, Nat.sub_0_r. exact Hs.
  - apply slot_compact. exact Hs.
Qed.
