(* expand (compress l) = l : the range compression of subselectors loses nothing. *)
From Coq Require Import List Arith Bool Lia.
Import ListNotations.
From Stam Require Import Base.Tac Model.Offset Model.Store Model.Compress.

(* the one fact about the store the round trip needs: a selector that "covers the whole target"
   carries the target's own resource and text selection *)
Definition Pown (wh : leaf -> bool) (own : nat -> option (nat * nat)) (lf : leaf) : Prop :=
  match lf with
  | LAnnText a r t m => wh lf = true -> own a = Some (r, t)
  | _ => True
  end.

Definition cwf (c : csel) : Prop :=
  match c with CLeaf _ => True | CRText _ b e => b <= e | CRAnn b e _ => b <= e end.

Lemma span_snoc b e : b <= S e -> span b (S e) = span b e ++ [S e].
Proof.
  intros H. unfold span. replace (S (S e) - b) with (S (S e - b)) by lia.
  rewrite seq_S. f_equal. f_equal. lia.
Qed.

Lemma span_two b : span b (S b) = [b; S b].
Proof. unfold span. replace (S (S b) - b) with 2 by lia. reflexivity. Qed.

Lemma expand_app own l1 l2 : expand own (l1 ++ l2) = expand own l1 ++ expand own l2.
Proof. unfold expand. apply flat_map_app. Qed.

Lemma expand_snoc own l c : expand own (l ++ [c]) = expand own l ++ expand1 own c.
Proof. rewrite expand_app. unfold expand at 2. cbn [flat_map]. rewrite app_nil_r. reflexivity. Qed.

Lemma merge_expand wh own last x c :
  cwf last -> Forall (Pown wh own) (expand1 own last) -> Pown wh own x ->
  merge wh last x = Some c -> cwf c /\ expand1 own c = expand1 own last ++ [x].
Proof.
  intros Hwf Hlast Hx Hm.
  destruct last as [lf|r b e|b e wt].
  - destruct lf as [r t m|a|a r t m|r|d|d k|d y]; destruct x as [r2 t2 m2|a2|a2 r2 t2 m2|r2|d2|d2 k2|d2 y2];
      cbn [merge] in Hm; try discriminate.
    + destruct (Nat.eqb m 0) eqn:E1; cbn [andb] in Hm; [|discriminate].
      destruct (Nat.eqb m2 0) eqn:E2; cbn [andb] in Hm; [|discriminate].
      destruct (Nat.eqb r r2) eqn:E3; cbn [andb] in Hm; [|discriminate].
      destruct (Nat.eqb t2 (t + 1)) eqn:E4; [|discriminate].
      apply Nat.eqb_eq in E1, E2, E3, E4. subst. injection Hm as <-.
      rewrite Nat.add_1_r. split; [cbn [cwf]; lia|]. cbn [expand1]. rewrite span_two. reflexivity.
    + destruct (Nat.eqb a2 (a + 1)) eqn:E; [|discriminate]. apply Nat.eqb_eq in E. subst. injection Hm as <-.
      rewrite Nat.add_1_r. split; [cbn [cwf]; lia|]. cbn [expand1]. rewrite span_two. reflexivity.
    + destruct (Nat.eqb m 1) eqn:E1; cbn [andb] in Hm; [|discriminate].
      destruct (Nat.eqb m2 1) eqn:E2; cbn [andb] in Hm; [|discriminate].
      destruct (Nat.eqb a2 (a + 1)) eqn:E3; cbn [andb] in Hm; [|discriminate].
      destruct (wh (LAnnText a r t m)) eqn:E4; cbn [andb] in Hm; [|discriminate].
      destruct (wh (LAnnText a2 r2 t2 m2)) eqn:E5; [|discriminate].
      apply Nat.eqb_eq in E1, E2, E3. subst. injection Hm as <-.
      cbn [expand1] in Hlast. inversion Hlast as [|? ? H1 _]; subst. cbn [Pown] in H1, Hx.
      specialize (H1 E4). specialize (Hx E5).
      rewrite Nat.add_1_r in *. split; [cbn [cwf]; lia|]. cbn [expand1]. rewrite span_two. cbn [map].
      rewrite H1, Hx. reflexivity.
  - destruct x as [r2 t2 m2|a2|a2 r2 t2 m2|r2|d2|d2 k2|d2 y2]; cbn [merge] in Hm; try discriminate.
    destruct (Nat.eqb m2 0) eqn:E2; cbn [andb] in Hm; [|discriminate].
    destruct (Nat.eqb r r2) eqn:E3; cbn [andb] in Hm; [|discriminate].
    destruct (Nat.eqb t2 (e + 1)) eqn:E4; [|discriminate].
    apply Nat.eqb_eq in E2, E3, E4. subst. injection Hm as <-. cbn [cwf] in Hwf.
    rewrite Nat.add_1_r. split; [cbn [cwf]; lia|]. cbn [expand1]. rewrite span_snoc by lia. rewrite map_app. reflexivity.
  - destruct wt; destruct x as [r2 t2 m2|a2|a2 r2 t2 m2|r2|d2|d2 k2|d2 y2]; cbn [merge] in Hm; try discriminate.
    + destruct (Nat.eqb m2 1) eqn:E2; cbn [andb] in Hm; [|discriminate].
      destruct (Nat.eqb a2 (e + 1)) eqn:E3; cbn [andb] in Hm; [|discriminate].
      destruct (wh (LAnnText a2 r2 t2 m2)) eqn:E5; [|discriminate].
      apply Nat.eqb_eq in E2, E3. subst. injection Hm as <-. cbn [cwf] in Hwf. cbn [Pown] in Hx. specialize (Hx E5).
      rewrite Nat.add_1_r in *. split; [cbn [cwf]; lia|]. cbn [expand1]. rewrite span_snoc by lia. rewrite map_app. cbn [map].
      rewrite Hx. reflexivity.
    + destruct (Nat.eqb a2 (e + 1)) eqn:E3; [|discriminate].
      apply Nat.eqb_eq in E3. subst. injection Hm as <-. cbn [cwf] in Hwf.
      rewrite Nat.add_1_r. split; [cbn [cwf]; lia|]. cbn [expand1]. rewrite span_snoc by lia. rewrite map_app. reflexivity.
Qed.

Lemma compress_acc_expand wh own : forall l acc,
  Forall cwf acc -> Forall (Pown wh own) (expand own (rev acc)) -> Forall (Pown wh own) l ->
  expand own (compress_acc wh acc l) = expand own (rev acc) ++ l.
Proof.
  induction l as [|x l IH]; intros acc Hwf Hacc Hl; cbn [compress_acc].
  - rewrite app_nil_r. reflexivity.
  - inversion Hl as [|? ? Hx Hl']; subst.
    destruct acc as [|last acc'].
    + rewrite IH; [reflexivity|constructor; [exact I|constructor]| |exact Hl'].
      cbn. constructor; [exact Hx|constructor].
    + cbn [rev] in Hacc. rewrite expand_snoc in Hacc. apply Forall_app in Hacc. destruct Hacc as [Ha1 Hlast].
      inversion Hwf as [|? ? Hw1 Hw2]; subst.
      destruct (merge wh last x) as [c|] eqn:Em.
      * destruct (merge_expand wh own last x c Hw1 Hlast Hx Em) as [Hc He].
        rewrite IH; [| constructor; assumption | | exact Hl'].
        -- cbn [rev]. rewrite !expand_snoc, He, <- !app_assoc. reflexivity.
        -- cbn [rev]. rewrite expand_snoc, He. apply Forall_app. split; [exact Ha1|].
           apply Forall_app. split; [exact Hlast|constructor; [exact Hx|constructor]].
      * rewrite IH; [| constructor; [exact I|exact Hwf] | | exact Hl'].
        -- cbn [rev]. rewrite !expand_snoc. cbn [expand1]. rewrite <- !app_assoc. reflexivity.
        -- cbn [rev]. rewrite !expand_snoc. apply Forall_app. split; [apply Forall_app; split; [exact Ha1|exact Hlast]|].
           cbn [expand1]. constructor; [exact Hx|constructor].
Qed.

(* every reader sees the list of subselectors the annotation was built with *)
Theorem expand_compress wh own l : Forall (Pown wh own) l -> expand own (compress wh l) = l.
Proof.
  intros H. unfold compress.
  destruct l as [|x [|y l']]; [reflexivity|reflexivity|].
  rewrite compress_acc_expand; [reflexivity|constructor|constructor|exact H].
Qed.

(* compression really happens: two adjacent text selections become one stored selector *)
Example compress_merges :
  compress (fun _ => false) [LText 0 3 0; LText 0 4 0; LText 0 5 0; LText 1 6 0; LAnn 2; LAnn 3]
  = [CRText 0 3 5; CLeaf (LText 1 6 0); CRAnn 2 3 false].
Proof. reflexivity. Qed.
