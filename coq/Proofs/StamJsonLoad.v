(* C05, part 2: the loader applied to the documents of a well-formed store rebuilds a store with
   the same canonical observation.  This file: slot lists, names, id resolution, gap filling. *)
From Coq Require Import String Ascii.
From Coq Require Import List NArith ZArith Bool Arith Lia.
From Stam Require Import Base.Tac Model.Offset Model.Json Model.TempId Proofs.TempId
     Model.StamJson Spec.StamJsonSpec Proofs.StamJson.
Import ListNotations.

(** * slot lists *)
Lemma slot_app_l {X} (l l2 : list (option X)) h : h < length l -> slot (l ++ l2) h = slot l h.
Proof. intros H. unfold slot. apply app_nth1. exact H. Qed.

Lemma slot_app_r {X} (l l2 : list (option X)) i : slot (l ++ l2) (length l + i) = slot l2 i.
Proof. unfold slot. rewrite app_nth2 by lia. f_equal. lia. Qed.

Lemma slot_ge {X} (l : list (option X)) h : length l <= h -> slot l h = None.
Proof. intros H. unfold slot. apply nth_overflow. exact H. Qed.

Lemma slot_lt {X} (l : list (option X)) h x : slot l h = Some x -> h < length l.
Proof.
  intros H. destruct (Nat.lt_ge_cases h (length l)) as [L|L]; [exact L|].
  rewrite slot_ge in H by exact L. discriminate.
Qed.

Lemma slot_repeat_none {X} n i : slot (repeat (@None X) n) i = None.
Proof.
  unfold slot. revert i. induction n as [|n IH]; intros [|i]; cbn; try reflexivity. apply IH.
Qed.

Lemma slot_app_some {X} (l l2 : list (option X)) h x : slot l h = Some x -> slot (l ++ l2) h = Some x.
Proof. intros H. rewrite slot_app_l; [exact H|]. eapply slot_lt. exact H. Qed.

Lemma slot_cons {X} (o : option X) l h : slot (o :: l) (S h) = slot l h.
Proof. reflexivity. Qed.

Lemma live_from_app {X} (l l2 : list (option X)) : forall h,
  live_from h (l ++ l2) = live_from h l ++ live_from (h + length l) l2.
Proof.
  induction l as [|[x|] l IH]; intros h; cbn [app live_from length].
  - rewrite Nat.add_0_r. reflexivity.
  - rewrite IH. cbn. do 3 f_equal. lia.
  - rewrite IH. do 2 f_equal. lia.
Qed.

Lemma live_from_repeat_none {X} n : forall h, live_from h (repeat (@None X) n) = [].
Proof. induction n as [|n IH]; intros h; cbn; [reflexivity|apply IH]. Qed.

Lemma live_from_In {X} (l : list (option X)) : forall h x v,
  In (x, v) (live_from h l) <-> h <= x /\ slot l (x - h) = Some v.
Proof.
  induction l as [|[y|] l IH]; intros h x v; cbn [live_from].
  - split; [intros []|]. intros [_ H]. unfold slot in H. destruct (x - h); discriminate.
  - cbn [In]. rewrite IH. split.
    + intros [E|[L S']].
      * injection E as <- <-. split; [lia|]. rewrite Nat.sub_diag. reflexivity.
      * split; [lia|]. replace (x - h) with (S (x - S h)) by lia. exact S'.
    + intros [L S']. destruct (Nat.eq_dec x h) as [->|N].
      * left. rewrite Nat.sub_diag in S'. cbn in S'. injection S' as ->. reflexivity.
      * right. split; [lia|]. replace (x - h) with (S (x - S h)) in S' by lia. exact S'.
  - rewrite IH. split.
    + intros [L S']. split; [lia|]. replace (x - h) with (S (x - S h)) by lia. exact S'.
    + intros [L S']. destruct (Nat.eq_dec x h) as [->|N].
      * rewrite Nat.sub_diag in S'. discriminate.
      * split; [lia|]. replace (x - h) with (S (x - S h)) in S' by lia. exact S'.
Qed.

Lemma live_In {X} (l : list (option X)) x v : In (x, v) (live l) <-> slot l x = Some v.
Proof. unfold live. rewrite live_from_In. rewrite Nat.sub_0_r. split; [intros [_ H]; exact H|intros H; split; [lia|exact H]]. Qed.

(** * omap *)
Lemma omap_app {X Y} (f : X -> option Y) (a b : list X) :
  omap f (a ++ b) = match omap f a, omap f b with Some x, Some y => Some (x ++ y) | _, _ => None end.
Proof.
  induction a as [|x a IH]; cbn [app omap].
  - destruct (omap f b); reflexivity.
  - rewrite IH. destruct (f x); [|reflexivity]. destruct (omap f a); [|reflexivity].
    destruct (omap f b); reflexivity.
Qed.

Lemma omap_ext_in {X Y} (f g : X -> option Y) (l : list X) :
  (forall x, In x l -> f x = g x) -> omap f l = omap g l.
Proof.
  induction l as [|x l IH]; intros H; cbn; [reflexivity|].
  rewrite (H x) by (left; reflexivity). rewrite IH; [reflexivity|]. intros y Hy. apply H. right. exact Hy.
Qed.

Lemma omap_map {X Y Z} (f : Y -> option Z) (g : X -> Y) (l : list X) : omap f (map g l) = omap (fun x => f (g x)) l.
Proof. induction l as [|x l IH]; cbn; [reflexivity|]. rewrite IH. reflexivity. Qed.

Lemma omap_some_map {X Y} (f : X -> Y) (l : list X) : omap (fun x => Some (f x)) l = Some (map f l).
Proof. induction l as [|x l IH]; cbn; [reflexivity|]. rewrite IH. reflexivity. Qed.

Lemma omap_In {X Y} (f : X -> option Y) (l : list X) r x : omap f l = Some r -> In x l -> exists y, f x = Some y /\ In y r.
Proof.
  revert r. induction l as [|a l IH]; intros r H Hin; [destruct Hin|].
  cbn in H. destruct (f a) as [b|] eqn:Ea; [|discriminate]. destruct (omap f l) as [bs|] eqn:El; [|discriminate].
  injection H as <-. destruct Hin as [->|Hin].
  - exists b. split; [exact Ea|left; reflexivity].
  - destruct (IH _ eq_refl Hin) as (y & Hy & Hiny). exists y. split; [exact Hy|right; exact Hiny].
Qed.

(** * names *)
Lemma reserved_any_temp id : reserved id = false -> any_temp id = None.
Proof.
  unfold reserved, any_temp. destruct id as [|c [|l rest]]; intros H; try reflexivity. rewrite H. reflexivity.
Qed.

Lemma reserved_temp_resolve k id : reserved id = false -> temp_resolve k id = None.
Proof.
  unfold reserved, temp_resolve. destruct id as [|c [|l rest]]; intros H; try reflexivity. rewrite H. reflexivity.
Qed.

Definition USIZE : N := 18446744073709551616.

Lemma parse_usize_digits n : (n < USIZE)%N -> parse_usize (digits n) = Some n.
Proof.
  intros H. unfold parse_usize. destruct (digits_head n) as (c & l & E & Hc). rewrite E.
  assert (Hne : (match c :: l with 43%N :: r => r | _ => c :: l end) = c :: l).
  { destruct c as [|p]; [lia|]. repeat (destruct p as [p|p|]; try reflexivity); lia. }
  rewrite Hne, <- E, parse_digits_digits.
  apply N.ltb_lt in H. unfold USIZE in H. rewrite H. reflexivity.
Qed.

Lemma any_temp_temp_id k n : (n < USIZE)%N -> any_temp (temp_id k n) = Some n.
Proof.
  intros H. unfold any_temp, temp_id. rewrite N.eqb_refl.
  assert (L : (N.leb 65 (letter k) && N.leb (letter k) 90) = true) by (destruct k; reflexivity).
  rewrite L. cbn [andb]. apply parse_usize_digits. exact H.
Qed.

Lemma width_usize k n : (n < width k)%N -> (n < USIZE)%N.
Proof. unfold USIZE. destruct k; cbn [width]; lia. Qed.

(** * id resolution *)
Section Lookup.
  Context {X : Type} (pid : X -> option str).

  Lemma find_id_app (l l2 : list (option X)) id : forall h,
    find_id pid (l ++ l2) id h =
    match find_id pid l id h with Some r => Some r | None => find_id pid l2 id (h + length l) end.
  Proof.
    induction l as [|[x|] l IH]; intros h; cbn [app find_id length].
    - rewrite Nat.add_0_r. reflexivity.
    - destruct (pid x) as [i|]; [destruct (str_eqb i id); [reflexivity|]|]; rewrite IH;
        destruct (find_id pid l id (S h)); try reflexivity; f_equal; lia.
    - rewrite IH. destruct (find_id pid l id (S h)); try reflexivity. f_equal. lia.
  Qed.

  Lemma find_id_repeat_none n id : forall h, find_id pid (repeat None n) id h = None.
  Proof. induction n as [|n IH]; intros h; cbn; [reflexivity|apply IH]. Qed.

  Lemma find_id_some (l : list (option X)) id : forall h0 h,
    find_id pid l id h0 = Some h -> h0 <= h /\ exists x, slot l (h - h0) = Some x /\ pid x = Some id.
  Proof.
    induction l as [|[x|] l IH]; intros h0 h H; cbn [find_id] in H; [discriminate| |].
    - destruct (pid x) as [i|] eqn:Ep.
      + destruct (str_eqb i id) eqn:Ei.
        * injection H as <-. split; [lia|]. exists x. rewrite Nat.sub_diag. split; [reflexivity|].
          apply str_eqb_eq in Ei. subst. exact Ep.
        * destruct (IH _ _ H) as (L & y & Hs & Hp). split; [lia|]. exists y. split; [|exact Hp].
          replace (h - h0) with (S (h - S h0)) by lia. exact Hs.
      + destruct (IH _ _ H) as (L & y & Hs & Hp). split; [lia|]. exists y. split; [|exact Hp].
        replace (h - h0) with (S (h - S h0)) by lia. exact Hs.
    - destruct (IH _ _ H) as (L & y & Hs & Hp). split; [lia|]. exists y. split; [|exact Hp].
      replace (h - h0) with (S (h - S h0)) by lia. exact Hs.
  Qed.

  Lemma find_id_none (l : list (option X)) id : forall h0,
    (forall h x, slot l h = Some x -> pid x <> Some id) -> find_id pid l id h0 = None.
  Proof.
    induction l as [|[x|] l IH]; intros h0 H; cbn [find_id]; [reflexivity| |].
    - destruct (pid x) as [i|] eqn:Ep.
      + destruct (str_eqb i id) eqn:Ei.
        * exfalso. apply str_eqb_eq in Ei. subst. apply (H 0 x); [reflexivity|exact Ep].
        * apply IH. intros h y Hy. apply (H (S h)). exact Hy.
      + apply IH. intros h y Hy. apply (H (S h)). exact Hy.
    - apply IH. intros h y Hy. apply (H (S h)). exact Hy.
  Qed.

  (* with unique ids the item that carries the id is the one found *)
  Lemma find_id_unique (l : list (option X)) id : forall h0 h x,
    slot l h = Some x -> pid x = Some id ->
    (forall h' y, slot l h' = Some y -> pid y = Some id -> h' = h) ->
    find_id pid l id h0 = Some (h0 + h).
  Proof.
    induction l as [|[y|] l IH]; intros h0 h x Hs Hp U.
    - unfold slot in Hs. destruct h; discriminate.
    - cbn [find_id]. destruct h as [|h].
      + cbn in Hs. injection Hs as ->. rewrite Hp. rewrite str_eqb_refl. f_equal. lia.
      + destruct (pid y) as [i|] eqn:Ey.
        * destruct (str_eqb i id) eqn:Ei.
          -- apply str_eqb_eq in Ei. subst. specialize (U 0 y eq_refl Ey). discriminate.
          -- rewrite (IH (S h0) h x Hs Hp); [f_equal; lia|].
             intros h' z Hz Hpz. specialize (U (S h') z Hz Hpz). lia.
        * rewrite (IH (S h0) h x Hs Hp); [f_equal; lia|].
          intros h' z Hz Hpz. specialize (U (S h') z Hz Hpz). lia.
    - cbn [find_id]. destruct h as [|h]; [discriminate|].
      rewrite (IH (S h0) h x Hs Hp); [f_equal; lia|].
      intros h' z Hz Hpz. specialize (U (S h') z Hz Hpz). lia.
  Qed.

  Variable k : kind.

  Lemma lookup_app_some (l l2 : list (option X)) id h : lookup k pid l id = Some h -> lookup k pid (l ++ l2) id = Some h.
  Proof.
    unfold lookup. destruct (temp_resolve k id) as [n|].
    - destruct (slot l (N.to_nat n)) eqn:E; [|discriminate]. intros H. rewrite (slot_app_some _ _ _ _ E). exact H.
    - intros H. rewrite find_id_app, H. reflexivity.
  Qed.

  Lemma lookup_some_slot (l : list (option X)) id h : lookup k pid l id = Some h -> exists x, slot l h = Some x.
  Proof.
    unfold lookup. destruct (temp_resolve k id) as [n|].
    - destruct (slot l (N.to_nat n)) eqn:E; [|discriminate]. intros H. injection H as <-. eauto.
    - intros H. apply find_id_some in H. destruct H as (_ & x & Hx & _). rewrite Nat.sub_0_r in Hx. eauto.
  Qed.

  Lemma lookup_temp (l : list (option X)) h x : (N.of_nat h < width k)%N -> slot l h = Some x ->
    lookup k pid l (temp_id k (N.of_nat h)) = Some h.
  Proof.
    intros W S. unfold lookup. rewrite temp_roundtrip by exact W. rewrite Nnat.Nat2N.id, S. reflexivity.
  Qed.

  Lemma lookup_public (l : list (option X)) id : reserved id = false -> lookup k pid l id = find_id pid l id 0.
  Proof. intros R. unfold lookup. rewrite reserved_temp_resolve by exact R. reflexivity. Qed.
End Lookup.

(** * gap filling *)
Lemma gap_fill_public {X} (l : list (option X)) pre id : reserved id = false ->
  gap_fill pre l (Some id) = Some (l, Some id).
Proof. intros R. unfold gap_fill. rewrite reserved_any_temp by exact R. reflexivity. Qed.

Lemma gap_fill_temp {X} (l : list (option X)) k h : (N.of_nat h < USIZE)%N -> length l <= h ->
  gap_fill 0 l (Some (temp_id k (N.of_nat h))) = Some (l ++ repeat None (h - length l), None).
Proof.
  intros U L. unfold gap_fill. rewrite any_temp_temp_id by exact U. rewrite Nnat.Nat2N.id.
  rewrite Nat.add_0_r. destruct (h <? length l) eqn:E1; [apply Nat.ltb_lt in E1; lia|].
  destruct (length l <? h) eqn:E2; [reflexivity|].
  apply Nat.ltb_ge in E2. replace (h - length l) with 0 by lia. cbn. rewrite app_nil_r. reflexivity.
Qed.

Lemma pad_length {X} (l : list (option X)) h : length l <= h -> length (l ++ repeat None (h - length l)) = h.
Proof. intros L. rewrite app_length, repeat_length. lia. Qed.

(** * unique, unreserved identifiers *)
Lemma str_in_In x l : str_in x l = true <-> In x l.
Proof.
  induction l as [|y l IH]; cbn; [split; [discriminate|intros []]|].
  rewrite orb_true_iff, IH. split.
  - intros [E|H]; [left; apply str_eqb_eq; exact E|right; exact H].
  - intros [->|H]; [left; apply str_eqb_refl|right; exact H].
Qed.

Lemma str_nodup_NoDup l : str_nodup l = true -> NoDup l.
Proof.
  induction l as [|x l IH]; cbn; intros H; [constructor|].
  apply andb_prop in H. destruct H as [H1 H2]. constructor; [|apply IH; exact H2].
  intros Hin. apply str_in_In in Hin. rewrite Hin in H1. discriminate.
Qed.

Definition pids {X} (pid : X -> option str) (l : list (option X)) : list str :=
  flat_map (fun o => match o with Some x => opt_list (pid x) | None => [] end) l.

Definition IdsOk {X} (pid : X -> option str) (l : list (option X)) : Prop :=
  (forall h x i, slot l h = Some x -> pid x = Some i -> reserved i = false)
  /\ (forall h h' x y i, slot l h = Some x -> slot l h' = Some y -> pid x = Some i -> pid y = Some i -> h = h').

Lemma pids_In {X} (pid : X -> option str) (l : list (option X)) i :
  In i (pids pid l) <-> exists h x, slot l h = Some x /\ pid x = Some i.
Proof.
  induction l as [|[y|] l IH]; cbn [pids flat_map].
  - split; [intros []|]. intros (h & x & H & _). unfold slot in H. destruct h; discriminate.
  - rewrite in_app_iff. fold (pids pid l). rewrite IH. split.
    + intros [H|(h & x & H1 & H2)].
      * destruct (pid y) as [j|] eqn:E; [|destruct H]. destruct H as [->|[]]. exists 0, y. split; [reflexivity|exact E].
      * exists (S h), x. split; assumption.
    + intros ([|h] & x & H1 & H2).
      * cbn in H1. injection H1 as ->. left. rewrite H2. left. reflexivity.
      * right. exists h, x. split; assumption.
  - fold (pids pid l). rewrite IH. split.
    + intros (h & x & H1 & H2). exists (S h), x. split; assumption.
    + intros ([|h] & x & H1 & H2); [discriminate|]. exists h, x. split; assumption.
Qed.

Lemma ids_ok_IdsOk {X} (pid : X -> option str) (l : list (option X)) : ids_ok (pids pid l) = true -> IdsOk pid l.
Proof.
  unfold ids_ok. intros H. apply andb_prop in H. destruct H as [Hn Hr]. split.
  - intros h x i Hs Hp. rewrite forallb_forall in Hr.
    assert (In i (pids pid l)) by (apply pids_In; eauto). apply Hr in H. apply negb_true_iff in H. exact H.
  - clear Hr. revert Hn. induction l as [|[z|] l IH]; intros Hn h h' x y i Hx Hy Px Py.
    + unfold slot in Hx. destruct h; discriminate.
    + cbn [pids flat_map] in Hn. fold (pids pid l) in Hn.
      assert (Htail : str_nodup (pids pid l) = true).
      { destruct (pid z); cbn in Hn; [apply andb_prop in Hn; apply Hn|exact Hn]. }
      destruct h as [|h], h' as [|h']; [reflexivity| | |f_equal; eapply IH; eauto].
      * exfalso. cbn in Hx. injection Hx as ->. rewrite Px in Hn. cbn in Hn. apply andb_prop in Hn. destruct Hn as [Hn _].
        assert (In i (pids pid l)) by (apply pids_In; eauto). apply str_in_In in H. rewrite H in Hn. discriminate.
      * exfalso. cbn in Hy. injection Hy as ->. rewrite Py in Hn. cbn in Hn. apply andb_prop in Hn. destruct Hn as [Hn _].
        assert (In i (pids pid l)) by (apply pids_In; eauto). apply str_in_In in H. rewrite H in Hn. discriminate.
    + cbn [pids flat_map] in Hn. fold (pids pid l) in Hn.
      destruct h as [|h], h' as [|h']; try discriminate. f_equal. eapply IH; eauto.
Qed.

Lemma pids_live {X} (pid : X -> option str) (l : list (option X)) : forall h,
  pids pid l = flat_map (fun p => opt_list (pid (snd p))) (live_from h l).
Proof.
  induction l as [|[x|] l IH]; intros h; cbn [pids flat_map live_from]; [reflexivity| |].
  - fold (pids pid l). rewrite (IH (S h)). reflexivity.
  - fold (pids pid l). apply IH.
Qed.

(** * rebuilding the data of a set *)
Definition dname (x : nat) (it : ddata) : str := name_of KData (jx_id it) x.
Definition cdat (keys : list (option str)) (p : nat * ddata) : option cdata :=
  match slot keys (jx_key (snd p)) with
  | Some kn => Some (mkcdata (dname (fst p) (snd p)) kn (jx_val (snd p)))
  | None => None
  end.
Lemma canon_data_cdat ds p : canon_data ds p = cdat (js_keys ds) p.
Proof. destruct p. reflexivity. Qed.

Definition KeyRel (keys keys' : list (option str)) : Prop :=
  forall k kn, slot keys k = Some kn -> exists k', lookup KKey key_pid keys' kn = Some k' /\ slot keys' k' = Some kn.

Record DataInv (keys keys' : list (option str)) (old new : list (option ddata)) : Prop := {
  di_len : length new <= length old;
  di_sim : forall x it, slot old x = Some it ->
           exists x' it', lookup KData jx_id new (dname x it) = Some x' /\ slot new x' = Some it'
                          /\ dname x' it' = dname x it /\ jx_val it' = jx_val it
                          /\ slot keys' (jx_key it') = slot keys (jx_key it);
  di_ids : forall x' it' i, slot new x' = Some it' -> jx_id it' = Some i ->
           exists x it, slot old x = Some it /\ jx_id it = Some i;
  di_canon : omap (cdat keys') (live new) = omap (cdat keys) (live old)
}.

Lemma live_app_one {X} (l : list (option X)) y : live (l ++ [Some y]) = live l ++ [(length l, y)].
Proof. unfold live. rewrite live_from_app. reflexivity. Qed.
Lemma live_app_none {X} (l : list (option X)) n : live (l ++ repeat None n) = live l.
Proof. unfold live. rewrite live_from_app, live_from_repeat_none. apply app_nil_r. Qed.

Lemma DataInv_none keys keys' old new : DataInv keys keys' old new -> DataInv keys keys' (old ++ [None]) new.
Proof.
  intros [L S I C]. split.
  - rewrite app_length. cbn. lia.
  - intros x it H. apply S. destruct (Nat.lt_ge_cases x (length old)) as [Lx|Lx].
    + rewrite slot_app_l in H by exact Lx. exact H.
    + exfalso. replace x with (length old + (x - length old)) in H by lia. rewrite slot_app_r in H.
      unfold slot in H. destruct (x - length old) as [|[|n]]; discriminate.
  - intros x' it' i H1 H2. destruct (I _ _ _ H1 H2) as (x & it & Hx & Hi). exists x, it. split; [|exact Hi].
    apply slot_app_some. exact Hx.
  - rewrite C. unfold live. rewrite live_from_app. cbn. rewrite app_nil_r. reflexivity.
Qed.

Lemma slot_pad_r {X} (l l2 : list (option X)) n i : slot (l ++ repeat None n ++ l2) (length l + n + i) = slot l2 i.
Proof.
  rewrite <- Nat.add_assoc, slot_app_r.
  replace (n + i) with (length (repeat (@None X) n) + i) by (rewrite repeat_length; reflexivity).
  apply slot_app_r.
Qed.
Lemma slot_pad_mid {X} (l l2 : list (option X)) n y : length l <= y -> y < length l + n ->
  slot (l ++ repeat None n ++ l2) y = None.
Proof.
  intros A B. replace y with (length l + (y - length l)) by lia. rewrite slot_app_r.
  rewrite slot_app_l by (rewrite repeat_length; lia). apply slot_repeat_none.
Qed.

Lemma DataInv_step keys keys' old new it k' n :
  DataInv keys keys' old new ->
  slot keys' k' = slot keys (jx_key it) ->
  length new + n <= length old ->
  (jx_id it = None -> length new + n = length old) ->
  (forall p, jx_id it = Some p -> reserved p = false /\ forall x it2, slot old x = Some it2 -> jx_id it2 <> Some p) ->
  (N.of_nat (length old) < width KData)%N ->
  DataInv keys keys' (old ++ [Some it]) (new ++ repeat None n ++ [Some (mkddata (jx_id it) k' (jx_val it))]).
Proof.
  intros [L S I C] HK Hn Ht Hf W.
  set (it' := mkddata (jx_id it) k' (jx_val it)).
  set (x' := length new + n).
  assert (Hslot : slot (new ++ repeat None n ++ [Some it']) x' = Some it').
  { unfold x'. replace (length new + n) with (length new + n + 0) by lia. rewrite slot_pad_r. reflexivity. }
  assert (Hname : dname x' it' = dname (length old) it).
  { unfold dname, it'. cbn [jx_id]. destruct (jx_id it) eqn:E; [reflexivity|]. cbn. unfold x'. rewrite (Ht eq_refl). reflexivity. }
  split.
  - rewrite !app_length, repeat_length. cbn. lia.
  - intros x it0 H. destruct (Nat.lt_ge_cases x (length old)) as [Lx|Lx].
    + rewrite slot_app_l in H by exact Lx. destruct (S _ _ H) as (y & it1 & A & B & Cc & D & E).
      exists y, it1. repeat split; try assumption.
      * apply lookup_app_some. exact A.
      * apply slot_app_some. exact B.
    + replace x with (length old + (x - length old)) in H by lia. rewrite slot_app_r in H.
      destruct (x - length old) as [|m] eqn:Em; [|unfold slot in H; destruct m; discriminate].
      cbn in H. injection H as <-. assert (x = length old) by lia. subst x.
      exists x', it'. repeat split; try assumption; try reflexivity.
      rewrite <- Hname.
      destruct (jx_id it) as [p|] eqn:Ep.
      * assert (Ename : dname x' it' = p) by reflexivity. rewrite Ename.
        destruct (Hf p eq_refl) as [R F]. rewrite lookup_public by exact R.
        rewrite find_id_app.
        rewrite (find_id_none jx_id new p 0).
        -- rewrite find_id_app, find_id_repeat_none. cbn [find_id]. unfold it'. cbn [jx_id]. rewrite str_eqb_refl.
           f_equal. rewrite repeat_length. unfold x'. lia.
        -- intros h y Hy Hp. destruct (I _ _ _ Hy Hp) as (x0 & it2 & Hx0 & Hi2). eapply F; eauto.
      * assert (Ename : dname x' it' = temp_id KData (N.of_nat x')) by reflexivity. rewrite Ename.
        apply lookup_temp with (x := it').
        -- unfold x'. rewrite (Ht eq_refl). exact W.
        -- exact Hslot.
  - intros y it1 i H1 H2. destruct (Nat.lt_ge_cases y (length new)) as [Ly|Ly].
    + rewrite slot_app_l in H1 by exact Ly. destruct (I _ _ _ H1 H2) as (x & it2 & Hx & Hi). exists x, it2.
      split; [apply slot_app_some; exact Hx|exact Hi].
    + destruct (Nat.lt_ge_cases y (length new + n)) as [Lm|Lm].
      * rewrite slot_pad_mid in H1 by assumption. discriminate.
      * replace y with (length new + n + (y - length new - n)) in H1 by lia. rewrite slot_pad_r in H1.
        destruct (y - length new - n) as [|m]; [|unfold slot in H1; destruct m; discriminate].
        cbn in H1. injection H1 as <-. exists (length old), it. split; [|exact H2].
        replace (length old) with (length old + 0) at 1 by lia. rewrite slot_app_r. reflexivity.
  - rewrite app_assoc. rewrite !live_app_one, live_app_none. rewrite !omap_app, C.
    rewrite app_length, repeat_length. fold x'. cbn [omap].
    assert (E : cdat keys' (x', it') = cdat keys (length old, it)).
    { unfold cdat. cbn [fst snd]. unfold it' at 1. cbn [jx_key]. rewrite HK.
      destruct (slot keys (jx_key it)); [|reflexivity]. rewrite Hname. reflexivity. }
    rewrite E. reflexivity.
Qed.

Lemma load_data_ok keys keys' (KR : KeyRel keys keys') all :
  IdsOk jx_id all -> (N.of_nat (length all) <= width KData)%N ->
  forall todo old new cds,
    all = old ++ todo ->
    DataInv keys keys' old new ->
    omap (cdat keys) (live_from (length old) todo) = Some cds ->
    exists new', load_data 0 keys' new (map bdata_of cds) = Some (keys', new') /\ DataInv keys keys' all new'.
Proof.
  intros [HR HU] W. induction todo as [|[it|] todo IH]; intros old new cds Eall Inv Hc.
  - cbn in Hc. injection Hc as <-. exists new. split; [reflexivity|]. rewrite Eall, app_nil_r. exact Inv.
  - cbn [live_from omap] in Hc.
    unfold cdat at 1 in Hc. cbn [fst snd] in Hc. destruct (slot keys (jx_key it)) as [kn|] eqn:Ek; [|discriminate].
    destruct (omap (cdat keys) (live_from (S (length old)) todo)) as [cds'|] eqn:Et; [|discriminate].
    injection Hc as <-.
    destruct (KR _ _ Ek) as (k' & Lk & Sk).
    assert (Hit : slot all (length old) = Some it).
    { rewrite Eall. replace (length old) with (length old + 0) at 1 by lia. rewrite slot_app_r. reflexivity. }
    assert (Hlen : length old < length all) by (eapply slot_lt; exact Hit).
    assert (W' : (N.of_nat (length old) < width KData)%N) by lia.
    assert (Hfresh : forall p, jx_id it = Some p -> reserved p = false /\
                     forall x it2, slot old x = Some it2 -> jx_id it2 <> Some p).
    { intros p Ep. split; [eapply HR; eauto|]. intros x it2 Hx Hp.
      assert (x = length old).
      { eapply HU; [| exact Hit | exact Hp | exact Ep]. rewrite Eall. apply slot_app_some. exact Hx. }
      apply slot_lt in Hx. lia. }
    cbn [map load_data]. cbn [bdata_of bx_id bx_key bx_val cx_name cx_key cx_val].
    destruct (jx_id it) as [p|] eqn:Ep.
    + (* a public identifier *)
      assert (En : dname (length old) it = p) by (unfold dname; rewrite Ep; reflexivity).
      rewrite En. destruct (Hfresh p eq_refl) as [R F].
      rewrite gap_fill_public by exact R.
      assert (Hnone : find_id jx_id new p 0 = None).
      { apply find_id_none. intros h y Hy Hp. destruct (di_ids _ _ _ _ Inv _ _ _ Hy Hp) as (x0 & it2 & Hx0 & Hi2).
        eapply F; eauto. }
      unfold insert_data. rewrite lookup_public by exact R. rewrite Hnone, Lk. cbn [id_free]. rewrite Hnone.
      pose proof (DataInv_step keys keys' old new it k' 0 Inv) as St.
      rewrite Ep in St. cbn [repeat app] in St.
      destruct (IH (old ++ [Some it]) (new ++ [Some (mkddata (Some p) k' (jx_val it))]) cds') as (new' & Hl & Hi).
      * rewrite Eall, <- app_assoc. reflexivity.
      * apply St; try assumption; try (rewrite Sk, Ek; reflexivity).
        -- pose proof (di_len _ _ _ _ Inv). lia.
        -- discriminate.
      * rewrite app_length. cbn [length]. rewrite Nat.add_1_r. exact Et.
      * exists new'. split; [exact Hl|exact Hi].
    + (* a temporary identifier: the item goes to its old handle *)
      assert (En : dname (length old) it = temp_id KData (N.of_nat (length old))) by (unfold dname; rewrite Ep; reflexivity).
      rewrite En. pose proof (di_len _ _ _ _ Inv) as Ln.
      rewrite gap_fill_temp; [|eapply width_usize; exact W'|exact Ln].
      unfold insert_data. rewrite Lk. cbn [id_free].
      pose proof (DataInv_step keys keys' old new it k' (length old - length new) Inv) as St.
      rewrite Ep in St.
      destruct (IH (old ++ [Some it]) (new ++ repeat None (length old - length new) ++ [Some (mkddata None k' (jx_val it))]) cds')
        as (new' & Hl & Hi).
      * rewrite Eall, <- app_assoc. reflexivity.
      * apply St; try assumption; try (rewrite Sk, Ek; reflexivity); try lia; try discriminate.
      * rewrite app_length. cbn [length]. rewrite Nat.add_1_r. exact Et.
      * exists new'. split; [|exact Hi]. rewrite <- app_assoc. exact Hl.
  - cbn [live_from] in Hc.
    destruct (IH (old ++ [None]) new cds) as (new' & Hl & Hi).
    + rewrite Eall, <- app_assoc. reflexivity.
    + apply DataInv_none. exact Inv.
    + rewrite app_length. cbn [length]. rewrite Nat.add_1_r. exact Hc.
    + exists new'. split; [exact Hl|exact Hi].
Qed.

Lemma DataInv_nil keys keys' : DataInv keys keys' [] [].
Proof.
  split; try reflexivity.
  - intros x it H. unfold slot in H. destruct x; discriminate.
  - intros x it i H. unfold slot in H. destruct x; discriminate.
Qed.

(** * keys *)
Lemma find_id_present {X} (pid : X -> option str) (l : list (option X)) id : forall h0 h x,
  slot l h = Some x -> pid x = Some id -> exists h', find_id pid l id h0 = Some h'.
Proof.
  induction l as [|[y|] l IH]; intros h0 h x Hs Hp.
  - unfold slot in Hs. destruct h; discriminate.
  - cbn [find_id]. destruct h as [|h].
    + cbn in Hs. injection Hs as ->. rewrite Hp, str_eqb_refl. eauto.
    + destruct (pid y) as [i|]; [destruct (str_eqb i id); [eauto|]|]; eapply IH; eauto.
  - cbn [find_id]. destruct h as [|h]; [discriminate|]. eapply IH; eauto.
Qed.

Lemma live_from_map_some {X} (l : list X) : forall h, map snd (live_from h (map Some l)) = l.
Proof. induction l as [|x l IH]; intros h; cbn; [reflexivity|]. rewrite IH. reflexivity. Qed.

Lemma slot_map_some {X} (l : list X) h x : slot (map Some l) h = Some x <-> nth_error l h = Some x.
Proof.
  revert h. induction l as [|y l IH]; intros [|h]; cbn; try (split; discriminate).
  - split; intros H; injection H as ->; reflexivity.
  - apply IH.
Qed.

Lemma pids_key_map_some l : pids key_pid (map Some l) = l.
Proof. induction l as [|x l IH]; cbn; [reflexivity|]. f_equal. exact IH. Qed.

Lemma insert_keys_ok : forall l acc,
  NoDup (pids key_pid acc ++ l) -> insert_keys acc l = Some (acc ++ map Some l).
Proof.
  induction l as [|k l IH]; intros acc ND; cbn [insert_keys map].
  - rewrite app_nil_r. reflexivity.
  - assert (Hnone : find_id key_pid acc k 0 = None).
    { apply find_id_none. intros h x Hx Hp. unfold key_pid in Hp. injection Hp as ->.
      apply NoDup_remove_2 in ND. apply ND. apply in_or_app. left. apply pids_In. exists h, k. split; [exact Hx|reflexivity]. }
    cbn [id_free]. rewrite Hnone. rewrite IH.
    + rewrite <- app_assoc. reflexivity.
    + unfold pids. rewrite flat_map_app. cbn. rewrite <- app_assoc. exact ND.
Qed.

Lemma keys_pids_live keys : pids key_pid keys = map snd (live keys).
Proof.
  unfold live. generalize 0. induction keys as [|[k|] keys IH]; intros h; cbn; [reflexivity| |].
  - f_equal. apply IH.
  - apply IH.
Qed.

Lemma KeyRel_rebuilt keys : IdsOk key_pid keys -> KeyRel keys (map Some (map snd (live keys))).
Proof.
  intros [HR HU] k kn Hk.
  assert (R : reserved kn = false) by (eapply HR; [exact Hk|reflexivity]).
  assert (Hin : In kn (map snd (live keys))).
  { apply in_map_iff. exists (k, kn). split; [reflexivity|]. apply live_In. exact Hk. }
  apply In_nth_error in Hin. destruct Hin as [i Hi].
  assert (Hs : slot (map Some (map snd (live keys))) i = Some kn) by (apply slot_map_some; exact Hi).
  destruct (find_id_present key_pid _ kn 0 i kn Hs eq_refl) as [k' Hk'].
  exists k'. split; [rewrite lookup_public by exact R; exact Hk'|].
  apply find_id_some in Hk'. destruct Hk' as (_ & y & Hy & Hp). rewrite Nat.sub_0_r in Hy.
  unfold key_pid in Hp. injection Hp as ->. exact Hy.
Qed.

Lemma IdsOk_NoDup_pids {X} (pid : X -> option str) (l : list (option X)) : IdsOk pid l -> NoDup (pids pid l).
Proof.
  intros [_ HU]. induction l as [|[x|] l IH].
  - constructor.
  - change (pids pid (Some x :: l)) with (opt_list (pid x) ++ pids pid l).
    assert (Htail : NoDup (pids pid l)).
    { apply IH. intros h h' a b i Ha Hb Pa Pb. specialize (HU (S h) (S h') a b i Ha Hb Pa Pb). lia. }
    destruct (pid x) as [i|] eqn:Ei; cbn [opt_list app]; [|exact Htail].
    constructor; [|exact Htail]. intros Hin. apply pids_In in Hin. destruct Hin as (h & y & Hy & Py).
    specialize (HU 0 (S h) x y i eq_refl Hy Ei Py). discriminate.
  - change (pids pid (None :: l)) with (pids pid l).
    apply IH. intros h h' a b i Ha Hb Pa Pb. specialize (HU (S h) (S h') a b i Ha Hb Pa Pb). lia.
Qed.

(** * datasets *)
Record SetRel (ds ds' : dset) : Prop := {
  sr_id : js_id ds' = js_id ds;
  sr_keys : KeyRel (js_keys ds) (js_keys ds');
  sr_data : forall x it, slot (js_data ds) x = Some it ->
            exists x' it', lookup KData jx_id (js_data ds') (dname x it) = Some x'
                           /\ slot (js_data ds') x' = Some it' /\ dname x' it' = dname x it
}.

Lemma width_KData : width KData = LIMIT32.
Proof. reflexivity. Qed.
Lemma width_KAnn : width KAnn = LIMIT32.
Proof. reflexivity. Qed.

Lemma wf_set_ids ds : wf_set ds = true ->
  IdsOk key_pid (js_keys ds) /\ IdsOk jx_id (js_data ds) /\ (N.of_nat (length (js_data ds)) <= width KData)%N.
Proof.
  unfold wf_set. intros H.
  apply andb_prop in H. destruct H as [H H5]. apply andb_prop in H. destruct H as [H H4].
  apply andb_prop in H. destruct H as [H H3]. apply andb_prop in H. destruct H as [H1 H2].
  split; [|split].
  - apply ids_ok_IdsOk.
    assert (E : pids key_pid (js_keys ds) = flat_map opt_list (js_keys ds)).
    { unfold pids. apply flat_map_ext. intros [k|]; reflexivity. }
    rewrite E. exact H1.
  - apply ids_ok_IdsOk. exact H2.
  - rewrite width_KData. unfold fits in H5. apply N.leb_le in H5. exact H5.
Qed.

Lemma build_set_ok fs ds cs :
  wf_set ds = true -> canon_set ds = Some cs ->
  (forall f, cs_file cs = Some f -> file_get fs f = Some (FJson (json_of_bset (bset_inline cs)))) ->
  exists ds', build_set fs (bset_of cs) = Some ds' /\ SetRel ds ds' /\ canon_set ds' = Some cs.
Proof.
  intros Hwf Hc Hf. destruct (wf_set_ids _ Hwf) as (IK & IX & WX).
  unfold canon_set in Hc.
  destruct (omap (canon_data ds) (live (js_data ds))) as [cds|] eqn:Ed; [|discriminate]. injection Hc as <-.
  set (ks := map snd (live (js_keys ds))).
  set (keys' := map Some ks).
  assert (KR : KeyRel (js_keys ds) keys') by (apply KeyRel_rebuilt; exact IK).
  assert (Hkeys : insert_keys [] ks = Some keys').
  { rewrite insert_keys_ok; [reflexivity|]. cbn [pids flat_map app]. unfold ks. rewrite <- keys_pids_live.
    apply IdsOk_NoDup_pids. exact IK. }
  assert (Ed' : omap (cdat (js_keys ds)) (live_from (length (@nil (option ddata))) (js_data ds)) = Some cds).
  { rewrite <- Ed. apply omap_ext_in. intros p _. symmetry. apply canon_data_cdat. }
  destruct (load_data_ok (js_keys ds) keys' KR (js_data ds) IX WX (js_data ds) [] [] cds eq_refl (DataInv_nil _ _) Ed')
    as (new' & Hl & Inv).
  assert (Hcanon : forall f, canon_set (mkdset (js_id ds) keys' new' f) = Some (mkcset (js_id ds) ks cds f)).
  { intros f. unfold canon_set. cbn [js_data js_keys js_id js_file].
    assert (E1 : omap (canon_data (mkdset (js_id ds) keys' new' f)) (live new') = Some cds).
    { transitivity (omap (cdat keys') (live new')).
      - apply omap_ext_in. intros p _. apply canon_data_cdat.
      - rewrite (di_canon _ _ _ _ Inv). exact Ed'. }
    rewrite E1. unfold keys', live. rewrite live_from_map_some. reflexivity. }
  assert (Hrel : forall f, SetRel ds (mkdset (js_id ds) keys' new' f)).
  { intros f. split; cbn [js_id js_keys js_data]; [reflexivity|exact KR|].
    intros x it Hx. destruct (di_sim _ _ _ _ Inv _ _ Hx) as (x' & it' & A & B & C & _). eauto. }
  unfold bset_of. cbn [cs_file cs_id cs_keys cs_data].
  destruct (js_file ds) as [f|] eqn:Efile.
  - specialize (Hf f eq_refl). cbn [cs_file cs_id cs_keys cs_data] in Hf.
    unfold build_set. cbn [bs_include bs_id bs_keys bs_data]. rewrite Hf.
    rewrite parse_json_of_bset by exact I. unfold bset_inline. cbn [bs_keys bs_data bs_id cs_keys cs_data cs_id].
    fold ks. rewrite Hkeys, Hl.
    exists (mkdset (js_id ds) keys' new' (Some f)).
    split; [|split; [apply Hrel|apply Hcanon]].
    unfold id_unless_file. destruct (str_eqb (js_id ds) f); cbn [insert_keys load_data]; reflexivity.
  - unfold build_set, bset_inline. cbn [bs_include bs_id bs_keys bs_data cs_keys cs_data cs_id].
    fold ks. rewrite Hkeys. cbn [length]. rewrite Hl.
    exists (mkdset (js_id ds) keys' new' None). split; [reflexivity|split; [apply Hrel|apply Hcanon]].
Qed.

(** * compacted lists: resources and datasets *)
Lemma Forall2_nth_l {A B} (R : A -> B -> Prop) l1 l2 : Forall2 R l1 l2 ->
  forall n a, nth_error l1 n = Some a -> exists b, nth_error l2 n = Some b /\ R a b.
Proof.
  induction 1 as [|x y l1 l2 Hxy HF IH]; intros [|n] a Hn; cbn in *; try discriminate.
  - injection Hn as <-. eauto.
  - apply IH. exact Hn.
Qed.
Lemma Forall2_nth_r {A B} (R : A -> B -> Prop) l1 l2 : Forall2 R l1 l2 ->
  forall n b, nth_error l2 n = Some b -> exists a, nth_error l1 n = Some a /\ R a b.
Proof.
  induction 1 as [|x y l1 l2 Hxy HF IH]; intros [|n] b Hn; cbn in *; try discriminate.
  - injection Hn as <-. eauto.
  - apply IH. exact Hn.
Qed.

Lemma compact_lookup {X Y} (pidx : X -> option str) (pidy : Y -> option str) (k : kind)
      (l : list (option X)) (ys : list Y) (R : X -> Y -> Prop) :
  IdsOk pidx l ->
  Forall2 (fun p y => R (snd p) y /\ pidy y = pidx (snd p)) (live l) ys ->
  forall h x i, slot l h = Some x -> pidx x = Some i ->
  exists h' y, lookup k pidy (map Some ys) i = Some h' /\ slot (map Some ys) h' = Some y /\ R x y.
Proof.
  intros [HR HU] F h x i Hx Hi.
  assert (Rv : reserved i = false) by (eapply HR; eauto).
  assert (Hin : In (h, x) (live l)) by (apply live_In; exact Hx).
  apply In_nth_error in Hin. destruct Hin as [n Hn].
  destruct (Forall2_nth_l _ _ _ F _ _ Hn) as (y & Hy & Ry & Py). cbn [snd] in *.
  assert (Hs : slot (map Some ys) n = Some y) by (apply slot_map_some; exact Hy).
  destruct (find_id_present pidy _ i 0 n y Hs) as [h' Hh']; [rewrite Py; exact Hi|].
  pose proof Hh' as Hf. apply find_id_some in Hf. destruct Hf as (_ & y2 & Hy2 & Py2). rewrite Nat.sub_0_r in Hy2.
  exists h', y2. split; [rewrite lookup_public by exact Rv; exact Hh'|]. split; [exact Hy2|].
  apply slot_map_some in Hy2. destruct (Forall2_nth_r _ _ _ F _ _ Hy2) as ([h2 x2] & Hn2 & R2 & P2). cbn [snd] in *.
  apply nth_error_In in Hn2. apply live_In in Hn2.
  assert (h2 = h). { eapply HU; [exact Hn2|exact Hx| |exact Hi]. rewrite <- P2. exact Py2. }
  subst h2. rewrite Hx in Hn2. injection Hn2 as <-. exact R2.
Qed.

Lemma id_free_fresh {X} (pid : X -> option str) (acc : list (option X)) i :
  ~ In i (pids pid acc) -> id_free pid acc (Some i) = true.
Proof.
  intros H. cbn. rewrite find_id_none; [reflexivity|]. intros h x Hx Hp. apply H. apply pids_In. eauto.
Qed.

(* resources *)
Definition dres_of (c : cres) : dres := mkdres (cr_id c) (cr_text c) (cr_file c).
Definition res_content (c : cres) (f : str) : fcontent :=
  if ends_with f EXT_json then FJson (json_of_bres (mkbres (Some (cr_id c)) (Some (cr_text c)) None)) else FText (cr_text c).

Lemma build_res_ok fs c :
  (forall f, cr_file c = Some f -> file_get fs f = Some (res_content c f)) ->
  build_res fs (bres_of c) = Some (dres_of c).
Proof.
  intros Hf. unfold bres_of, dres_of. destruct (cr_file c) as [f|] eqn:E.
  - specialize (Hf f eq_refl). unfold build_res. cbn [br_text br_include br_id]. rewrite Hf. unfold res_content.
    destruct (ends_with f EXT_json) eqn:Ee.
    + rewrite parse_json_of_bres by exact I. cbn [br_text br_id]. reflexivity.
    + unfold id_unless_file. destruct (str_eqb (cr_id c) f) eqn:Es; [|reflexivity].
      apply str_eqb_eq in Es. rewrite Es. reflexivity.
  - reflexivity.
Qed.

Lemma load_ress_ok fs : forall crs acc,
  (forall c f, In c crs -> cr_file c = Some f -> file_get fs f = Some (res_content c f)) ->
  NoDup (pids res_pid acc ++ map cr_id crs) ->
  load_ress fs acc (map bres_of crs) = Some (acc ++ map (fun c => Some (dres_of c)) crs).
Proof.
  induction crs as [|c crs IH]; intros acc Hf ND; cbn [map load_ress].
  - rewrite app_nil_r. reflexivity.
  - rewrite build_res_ok by (intros f; apply Hf; left; reflexivity).
    rewrite id_free_fresh.
    + rewrite IH.
      * rewrite <- app_assoc. reflexivity.
      * intros c' f Hin. apply Hf. right. exact Hin.
      * unfold pids. rewrite flat_map_app. cbn. rewrite <- app_assoc. exact ND.
    + cbn [map] in ND. apply NoDup_remove_2 in ND. intros Hin. apply ND. apply in_or_app. left. exact Hin.
Qed.

Lemma load_sets_ok fs : forall (pairs : list (dset * cset)) acc,
  (forall ds cs, In (ds, cs) pairs -> wf_set ds = true /\ canon_set ds = Some cs /\
     forall f, cs_file cs = Some f -> file_get fs f = Some (FJson (json_of_bset (bset_inline cs)))) ->
  NoDup (pids set_pid acc ++ map (fun p => js_id (fst p)) pairs) ->
  exists dss, load_sets fs acc (map (fun p => bset_of (snd p)) pairs) = Some (acc ++ map Some dss)
              /\ Forall2 (fun p ds' => SetRel (fst p) ds' /\ canon_set ds' = Some (snd p)) pairs dss.
Proof.
  induction pairs as [|[ds cs] pairs IH]; intros acc Hp ND; cbn [map load_sets].
  - exists []. split; [cbn; rewrite app_nil_r; reflexivity|constructor].
  - destruct (Hp ds cs (or_introl eq_refl)) as (Hwf & Hc & Hf).
    destruct (build_set_ok fs ds cs Hwf Hc Hf) as (ds' & Hb & Hrel & Hcan). cbn [snd]. rewrite Hb.
    rewrite id_free_fresh.
    + destruct (IH (acc ++ [Some ds'])) as (dss & Hl & HF).
      * intros d c Hin. apply Hp. right. exact Hin.
      * unfold pids. rewrite flat_map_app. cbn. rewrite <- app_assoc. cbn [map fst] in ND.
        rewrite (sr_id _ _ Hrel). exact ND.
      * exists (ds' :: dss). split; [rewrite Hl, <- app_assoc; reflexivity|].
        constructor; [split; assumption|exact HF].
    + cbn [map fst] in ND. apply NoDup_remove_2 in ND. rewrite (sr_id _ _ Hrel). intros Hin. apply ND.
      apply in_or_app. left. exact Hin.
Qed.
