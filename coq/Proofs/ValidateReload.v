(* Text validation, part 6: loading against resources of unchanged length resolves every
   selector to the selection it had (the offsets written are the offsets read). *)
From Stam Require Import Base.Tac Base.ListAux Model.Offset Spec.OffsetSpec Proofs.Offset Model.Utf8 Model.Store Model.Validate.

Lemma reresolve_text_same s lens singles r t m rs b e :
  get_res s r = Some rs -> nth_error (r_sels rs) t = Some (b, e) ->
  b <= e -> e <= r_len rs -> lens r = r_len rs ->
  reresolve_leaf s lens singles (LText r t m) = Some (Some (r, (b, e))).
Proof.
  intros Hr Ht H1 H2 Hl. cbn [reresolve_leaf]. rewrite Hr, Ht, Hl.
  destruct (report_resource_spec (r_len rs) b e (omode_of_nat m) H1 H2) as (E1 & _ & _ & _ & E2).
  rewrite E1, E2. reflexivity.
Qed.

Lemma reresolve_relative_same s lens singles p r t m rs pa pr pt pb pe b e :
  get_res s r = Some rs -> get_ann s p = Some pa -> nth_error (r_sels rs) t = Some (b, e) ->
  ann_textsel s pa = Some (pr, pt, (pb, pe)) ->
  alookup p singles = Some (pr, (pb, pe)) ->
  pb <= b -> b <= e -> e <= pe ->
  reresolve_leaf s lens singles (LAnnText p r t m) = Some (Some (r, (b, e))).
Proof.
  intros Hr Hp Ht Hs Hl H1 H2 H3. cbn [reresolve_leaf]. rewrite Hr, Hp, Ht, Hs, Hl.
  destruct (relative_offset_spec pb pe b e (omode_of_nat m) H1 H2 H3) as (E1 & _ & _ & _ & E2). cbv zeta in *.
  rewrite E1, E2. reflexivity.
Qed.

(* a text selector on a resource that grew or shrank: the selection moves with the alignment of
   its cursors, or the store is refused *)
Lemma reresolve_text_moved s lens singles r t m rs b e :
  get_res s r = Some rs -> nth_error (r_sels rs) t = Some (b, e) ->
  reresolve_leaf s lens singles (LText r t m) =
  match resource_ts (lens r) (report_resource (r_len rs) (b, e) (omode_of_nat m)) with
  | Ok rg => Some (Some (r, rg))
  | Err => None
  end.
Proof. intros Hr Ht. cbn [reresolve_leaf]. rewrite Hr, Ht. reflexivity. Qed.
