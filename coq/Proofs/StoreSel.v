(* Text selections are interned: one handle per range and resource, in every reachable store.
   With that, a stored (range-compressed) complex target is read back as it was built:
   compressed in the store of its creation, expanded in any later store. *)
From Coq Require Import List Arith Bool Lia.
Import ListNotations.
From Stam Require Import Base.Tac Base.ListAux Model.Offset Model.Store Model.Compress
  Proofs.RelMap Proofs.StoreInv Proofs.StoreRemove Proofs.StoreRemove2 Proofs.StoreRemove3
  Proofs.StoreDataDef Proofs.StoreItems Proofs.StoreData Proofs.StoreSets Proofs.StoreErr Proofs.StoreIds
  Proofs.StoreStable Proofs.Compress.

(* a property of every live resource *)
Definition AllRes (PR : res -> Prop) (s : store) : Prop := forall r rs, get_res s r = Some rs -> PR rs.

Lemma AllRes_same (PR : res -> Prop) s s' : ress s' = ress s -> AllRes PR s -> AllRes PR s'.
Proof. intros E H r rs Hr. apply (H r rs). unfold get_res in *. rewrite <- E. exact Hr. Qed.

Definition SelInv (s : store) : Prop := AllRes (fun rs => NoDup (r_sels rs)) s.

Lemma SelInv_same s s' : ress s' = ress s -> SelInv s -> SelInv s'.
Proof. apply AllRes_same. Qed.

Lemma NoDup_snoc {A} (l : list A) x : NoDup l -> ~ In x l -> NoDup (l ++ [x]).
Proof.
  induction l as [|y l IH]; intros Hnd Hx; cbn [app]; [constructor; [intros []|constructor]|].
  inversion Hnd as [|? ? Hy Hl]; subst. constructor.
  - rewrite in_app_iff. intros [H|[<-|[]]]; [exact (Hy H)|apply Hx; left; reflexivity].
  - apply IH; [exact Hl|intros H; apply Hx; right; exact H].
Qed.

Lemma find_sel_none l rg : forall i, find_sel l rg i = None -> ~ In rg l.
Proof.
  induction l as [|u l IH]; intros i H; cbn [find_sel] in H; [intros []|].
  destruct (Nat.eqb (fst u) (fst rg) && Nat.eqb (snd u) (snd rg)) eqn:E; [discriminate|].
  intros [->|Hin]; [rewrite !Nat.eqb_refl in E; discriminate|exact (IH _ H Hin)].
Qed.

Lemma find_sel_nth l rg : forall i t, find_sel l rg i = Some t -> nth_error l (t - i) = Some rg /\ i <= t.
Proof.
  induction l as [|u l IH]; intros i t H; cbn [find_sel] in H; [discriminate|].
  destruct (Nat.eqb (fst u) (fst rg) && Nat.eqb (snd u) (snd rg)) eqn:E.
  - injection H as <-. rewrite Nat.sub_diag. apply andb_prop in E. destruct E as [E1 E2]. apply Nat.eqb_eq in E1, E2.
    destruct u, rg. cbn in *. subst. split; [reflexivity|lia].
  - destruct (IH _ _ H) as [H1 H2]. split; [|lia]. replace (t - i) with (S (t - S i)) by lia. exact H1.
Qed.

(* the store after some text selections were interned: annotations untouched, selections appended *)
Definition sel_ext (s s' : store) : Prop :=
  anns s' = anns s
  /\ forall r rs, get_res s r = Some rs -> exists suf, get_res s' r = Some (mkres (r_id rs) (r_len rs) (r_sels rs ++ suf)).

Lemma sel_ext_refl s : sel_ext s s.
Proof. split; [reflexivity|]. intros r rs H. exists []. rewrite app_nil_r. destruct rs; exact H. Qed.

Lemma sel_ext_trans s1 s2 s3 : sel_ext s1 s2 -> sel_ext s2 s3 -> sel_ext s1 s3.
Proof.
  intros (A1 & A2) (B1 & B2). split; [congruence|]. intros r rs H.
  destruct (A2 r rs H) as (suf & H2). destruct (B2 r _ H2) as (suf' & H3). cbn [r_id r_len r_sels] in H3.
  exists (suf ++ suf'). rewrite app_assoc. exact H3.
Qed.

Lemma get_res_set s r v r0 : r < length (ress s) ->
  get_res (set_ress s (set_slot (ress s) r v)) r0 = if r0 =? r then v else get_res s r0.
Proof.
  intros Hlt. unfold get_res. cbn [set_ress ress]. rewrite slot_set_slot. destruct (r0 =? r); cbn [andb]; [|reflexivity].
  destruct (r <? length (ress s)) eqn:E; [reflexivity|lia].
Qed.

Lemma intern_sel_ext s r rs rg : get_res s r = Some rs -> SelInv s ->
  let '(s', t) := intern_sel s r rs rg in
  sel_ext s s' /\ SelInv s' /\ range_of s' r t = Some rg.
Proof.
  intros Hr HI. unfold intern_sel. destruct (find_sel (r_sels rs) rg 0) as [t|] eqn:E.
  - split; [apply sel_ext_refl|]. split; [exact HI|]. unfold range_of. rewrite Hr.
    destruct (find_sel_nth _ _ _ _ E) as [H _]. rewrite Nat.sub_0_r in H. exact H.
  - pose proof (slot_lt _ _ _ Hr) as Hlt. split; [|split].
    + split; [reflexivity|]. intros r0 rs0 H. rewrite get_res_set by exact Hlt. destruct (r0 =? r) eqn:E0.
      * assert (r0 = r) by lia. subst r0. rewrite Hr in H. injection H as <-. exists [rg]. reflexivity.
      * exists []. rewrite app_nil_r. destruct rs0; exact H.
    + intros r0 rs0. rewrite get_res_set by exact Hlt. destruct (r0 =? r) eqn:E0.
      * intros H. injection H as <-. cbn [r_sels]. apply NoDup_snoc; [exact (HI r rs Hr)|exact (find_sel_none _ _ _ E)].
      * apply HI.
    + unfold range_of. rewrite get_res_set by exact Hlt. rewrite Nat.eqb_refl. cbn [r_sels].
      rewrite nth_error_app2 by lia. rewrite Nat.sub_diag. reflexivity.
Qed.

(* an annotation selector with offset names the resource of its target's own text selection *)
Definition Pstore (s : store) (lf : leaf) : Prop :=
  match lf with
  | LAnnText a r t m => (exists pt, own_text s a = Some (r, pt)) /\ range_of s r t <> None
  | _ => True
  end.

Lemma own_text_anns s s' a : anns s' = anns s -> own_text s' a = own_text s a.
Proof. intros E. unfold own_text, get_ann. rewrite E. reflexivity. Qed.

Lemma range_of_ext s s' r t rg : sel_ext s s' -> range_of s r t = Some rg -> range_of s' r t = Some rg.
Proof.
  intros (_ & A) H. unfold range_of in *. destruct (get_res s r) as [rs|] eqn:E; [|discriminate].
  destruct (A r rs E) as (suf & H2). rewrite H2. cbn [r_sels]. rewrite nth_error_app1; [exact H|].
  apply nth_error_Some. congruence.
Qed.

Lemma Pstore_ext s s' lf : sel_ext s s' -> Pstore s lf -> Pstore s' lf.
Proof.
  intros X H. destruct lf; cbn [Pstore] in *; try exact I. destruct H as ((pt & H1) & H2). split.
  - exists pt. rewrite (own_text_anns s s'); [exact H1|apply X].
  - destruct (range_of s r t) as [rg|] eqn:E; [|congruence]. rewrite (range_of_ext s s' r t rg X E). discriminate.
Qed.

Lemma ann_textsel_own s a an r t prg : get_ann s a = Some an -> ann_textsel s an = Some (r, t, prg) -> own_text s a = Some (r, t).
Proof.
  intros Ha H. unfold own_text. rewrite Ha. unfold ann_textsel in H.
  destruct (a_kind an) as [|k]; [|discriminate].
  destruct (a_leaves an) as [|lf [|lf2 l]]; try discriminate.
  - destruct lf; try discriminate.
    + destruct (get_res s r0) as [rs|]; [|discriminate]. destruct (nth_error (r_sels rs) t0); [|discriminate]. injection H as <- <- _. reflexivity.
    + destruct (get_res s r0) as [rs|]; [|discriminate]. destruct (nth_error (r_sels rs) t0); [|discriminate]. injection H as <- <- _. reflexivity.
  - destruct lf; discriminate.
Qed.

Lemma resolve_simple_sel s b : SelInv s ->
  let '(s', r) := resolve_simple s b in
  sel_ext s s' /\ SelInv s' /\ (forall lf, r = Some lf -> Pstore s' lf).
Proof.
  intros HI.
  assert (Triv : forall o : option leaf, (forall lf, o = Some lf -> Pstore s lf) -> sel_ext s s /\ SelInv s /\ (forall lf, o = Some lf -> Pstore s lf))
    by (intros o Ho; split; [apply sel_ext_refl|split; [exact HI|exact Ho]]).
  destruct b as [rr o|ar [o|]|rr|dr|dr kr|dr xr|k l]; cbn [resolve_simple].
  - destruct (ref_res s rr) as [r|]; [|apply Triv; discriminate].
    destruct (get_res s r) as [rs|] eqn:Eg; [|apply Triv; discriminate].
    destruct (resource_ts (r_len rs) o) as [rg|]; [|apply Triv; discriminate].
    pose proof (intern_sel_ext s r rs rg Eg HI) as X. destruct (intern_sel s r rs rg) as [s' t]. destruct X as (X1 & X2 & X3).
    split; [exact X1|split; [exact X2|]]. intros lf H. injection H as <-. exact I.
  - destruct (ref_ann s ar) as [a|]; [|apply Triv; discriminate].
    destruct (get_ann s a) as [an|] eqn:Ea; [|apply Triv; discriminate].
    destruct (ann_textsel s an) as [[[r pt] prg]|] eqn:Et; [|apply Triv; intros lf H; injection H as <-; exact I].
    destruct (selection_ts prg o) as [rg|]; [|apply Triv; discriminate].
    destruct (get_res s r) as [rs|] eqn:Eg; [|apply Triv; discriminate].
    pose proof (intern_sel_ext s r rs rg Eg HI) as X. destruct (intern_sel s r rs rg) as [s' t]. destruct X as (X1 & X2 & X3).
    split; [exact X1|split; [exact X2|]]. intros lf H. injection H as <-. cbn [Pstore]. split.
    + exists pt. rewrite (own_text_anns s s'); [|apply X1]. exact (ann_textsel_own s a an r pt prg Ea Et).
    + rewrite X3. discriminate.
  - destruct (ref_ann s ar) as [a|]; apply Triv; intros lf H; [injection H as <-; exact I|discriminate].
  - destruct (ref_res s rr) as [r|]; apply Triv; intros lf H; [injection H as <-; exact I|discriminate].
  - destruct (ref_set s dr) as [d|]; apply Triv; intros lf H; [injection H as <-; exact I|discriminate].
  - destruct (ref_set s dr) as [d|]; [|apply Triv; discriminate]. destruct (get_set s d) as [ds|]; [|apply Triv; discriminate].
    destruct (ref_key ds kr) as [k|]; apply Triv; intros lf H; [injection H as <-; exact I|discriminate].
  - destruct (ref_set s dr) as [d|]; [|apply Triv; discriminate]. destruct (get_set s d) as [ds|]; [|apply Triv; discriminate].
    destruct (ref_data ds xr) as [x|]; apply Triv; intros lf H; [injection H as <-; exact I|discriminate].
  - apply Triv; discriminate.
Qed.

Lemma resolve_subs_sel l : forall s, SelInv s ->
  let '(s', r) := resolve_subs s l in
  sel_ext s s' /\ SelInv s' /\ (forall lfs, r = Some lfs -> Forall (Pstore s') lfs).
Proof.
  induction l as [|b l IH]; intros s HI; cbn [resolve_subs].
  - split; [apply sel_ext_refl|split; [exact HI|]]. intros lfs H. injection H as <-. constructor.
  - pose proof (resolve_simple_sel s b HI) as R1. destruct (resolve_simple s b) as [s1 [lf1|]]; destruct R1 as (X1 & I1 & P1);
      [|split; [exact X1|split; [exact I1|discriminate]]].
    specialize (IH s1 I1). destruct (resolve_subs s1 l) as [s2 [lfs|]]; destruct IH as (X2 & I2 & P2);
      (split; [eapply sel_ext_trans; eassumption|split; [exact I2|]]); [|discriminate].
    intros lfs' H. injection H as <-. constructor; [|apply (P2 lfs eq_refl)].
    apply (Pstore_ext s1 s2 lf1 X2). apply (P1 lf1 eq_refl).
Qed.

Lemma resolve_target_sel s b : SelInv s ->
  let '(s', r) := resolve_target s b in
  sel_ext s s' /\ SelInv s' /\ (forall k lfs, r = Some (k, lfs) -> Forall (Pstore s') lfs).
Proof.
  intros HI.
  assert (Simple : forall b0, (forall k l, b0 <> BComplex k l) ->
    let '(s', r) := match resolve_simple s b0 with (s', Some lf) => (s', Some (0, [lf])) | (s', None) => (s', None) end in
    sel_ext s s' /\ SelInv s' /\ (forall k lfs, r = Some (k, lfs) -> Forall (Pstore s') lfs)).
  { intros b0 _. pose proof (resolve_simple_sel s b0 HI) as R. destruct (resolve_simple s b0) as [s1 [lf|]]; destruct R as (X & I1 & P);
      (split; [exact X|split; [exact I1|]]); intros k lfs H; [|discriminate]. injection H as <- <-. constructor; [apply (P lf eq_refl)|constructor]. }
  destruct b; cbn [resolve_target]; try (apply Simple; intros; discriminate).
  pose proof (resolve_subs_sel l s HI) as R. destruct (resolve_subs s l) as [s1 [lfs|]]; destruct R as (X & I1 & P);
    (split; [exact X|split; [exact I1|]]); intros k lfs' H; [|discriminate]. injection H as <- <-. apply (P lfs eq_refl).
Qed.

(** * interning is an invariant of every history *)

Lemma index_ann_ress s h a : ress (index_ann s h a) = ress s.
Proof. apply (index_ann_ids s h a). Qed.

Lemma annotate_SelInv s b : SelInv s -> SelInv (fst (annotate s b)).
Proof.
  intros HI. unfold annotate. destruct (ab_target b) as [tb|]; [|exact HI].
  pose proof (resolve_target_sel s tb HI) as R. destruct (resolve_target s tb) as [s1 [[k lfs]|]]; destruct R as (_ & I1 & _); [|exact I1].
  destruct (insert_datas_frame (ab_data b) s1) as (F & _).
  destruct (insert_datas s1 (ab_data b)) as [s2 [data|]]; cbn [fst] in F; [|apply (SelInv_same s1); assumption].
  assert (I2 : SelInv s2) by (apply (SelInv_same s1); assumption).
  destruct (match ab_id b with Some tok => id_get (aidx s2) tok | None => None end) as [h'|].
  - destruct (get_ann s2 h'); [destruct (_ && _)|]; exact I2.
  - cbn [fst]. apply (SelInv_same s2); [|exact I2]. rewrite index_ann_ress. destruct (ab_id b); reflexivity.
Qed.

Theorem step_AllRes (PR : res -> Prop) : (forall id len, PR (mkres id len [])) ->
  (forall s b, AllRes PR s -> AllRes PR (fst (annotate s b))) ->
  forall s o, AllRes PR s -> AllRes PR (fst (step s o)).
Proof.
  intros Hnew Hann s o H. destruct o; cbn [step].
  - unfold add_res. destruct (id_get (ridx s) id) as [h|]; [destruct (get_res s h) as [r|]; [destruct (r_len r =? len)|]; exact H|].
    cbn [fst]. intros r rs. unfold get_res. cbn [set_ridx set_ress ress]. rewrite slot_app_new.
    destruct (r =? length (ress s)); [intros E; injection E as <-; apply Hnew|apply H].
  - apply (AllRes_same PR s); [apply add_set_frame|exact H].
  - destruct (store_insert_data_frame s b) as (F & _). destruct (store_insert_data s b) as [s' [[d x]|]]; apply (AllRes_same PR s); assumption.
  - apply Hann. exact H.
  - apply (AllRes_same PR s); [|exact H]. unfold rm_annotation. destruct (ref_ann s r) as [h|]; [|reflexivity]. apply remove_ann_frame.
  - unfold rm_data. destruct (to_handle (sidx s) d) as [d0|]; [|exact H]. destruct (get_set s d0) as [ds|]; [|exact H].
    destruct (to_handle (d_xidx ds) x) as [x0|]; [|exact H]. apply (AllRes_same PR s); [apply remove_data_h_sets|exact H].
  - unfold rm_key. destruct (to_handle (sidx s) d) as [d0|]; [|exact H]. destruct (get_set s d0) as [ds|]; [|exact H].
    destruct (to_handle (d_kidx ds) k) as [k0|]; [|exact H].
    assert (F : forall xs s0, ress (fold_left (fun s x => fst (remove_data_h s d0 x strict)) xs s0) = ress s0).
    { induction xs as [|x xs IH]; intros s0; cbn [fold_left]; [reflexivity|]. rewrite IH. apply remove_data_h_sets. }
    pose proof (F (rget (d_k2x ds) k0) s) as F1. set (s1 := fold_left _ (rget (d_k2x ds) k0) s) in *.
    assert (I1 : AllRes PR s1) by (apply (AllRes_same PR s); assumption).
    destruct (get_set s1 d0) as [ds1|]; [|exact I1]. destruct (slot (d_keys ds1) k0) as [tok|]; [|exact I1]. cbn [fst].
    match goal with |- AllRes PR (set_kamm (remove_anns ?s2 ?l) _) =>
      destruct (remove_anns_frame l s2) as (_&F2&_); apply (AllRes_same PR s1); [cbn [set_kamm ress]; rewrite F2; reflexivity|exact I1] end.
  - unfold rm_resource. destruct (ref_res s r) as [h|]; [|exact H].
    destruct (remove_anns_frame (rget (ramm s) h) s) as (_&A1&_).
    set (s1 := remove_anns s (rget (ramm s) h)) in *.
    destruct (remove_anns_frame (sort_dedup (concat (nth h (trm s1) []))) s1) as (_&A2&_).
    set (s2 := remove_anns s1 _) in *.
    set (s3 := set_trm _ _).
    assert (E3 : ress s3 = ress s) by (unfold s3; cbn [set_trm set_ramm ress]; congruence).
    destruct (get_res s3 h) as [rs|]; cbn [fst]; [|apply (AllRes_same PR s); assumption].
    intros r0 rs0 Hr. unfold get_res in Hr. cbn [set_ress set_ridx ress] in Hr. rewrite E3, slot_set_slot in Hr.
    destruct ((r0 =? h) && (h <? length (ress s))); [discriminate|apply (H r0 rs0 Hr)].
  - apply (AllRes_same PR s); [|exact H]. unfold rm_dataset. destruct (ref_set s r) as [h|]; [|reflexivity].
    set (users := filter _ (live_handles (anns s))).
    destruct (remove_anns_frame users s) as (_&A1&_). set (s1 := remove_anns s users) in *.
    destruct (remove_anns_frame (rget (samm s1) h) s1) as (_&A2&_). set (s2 := remove_anns s1 (rget (samm s1) h)) in *.
    set (s3 := set_samm s2 (rclear (samm s2) h)).
    set (metas := sort_dedup _).
    destruct (remove_anns_frame metas s3) as (_&A4&_). set (s4 := remove_anns s3 metas) in *.
    set (s5 := set_ddam _ _).
    assert (E5 : ress s5 = ress s) by (unfold s5; cbn [set_ddam set_damm set_kamm ress]; rewrite A4; unfold s3; cbn [set_samm ress]; congruence).
    destruct (get_set s5 h); cbn [fst set_sets set_sidx ress]; exact E5.
  - apply (AllRes_same PR s); [|exact H]. unfold store_add_key. destruct (ref_set s d) as [h|]; [|reflexivity].
    destruct (get_set s h) as [ds|]; [|reflexivity]. destruct (dset_add_key ds tok) as [d' r]. reflexivity.
Qed.

Theorem step_SelInv s o : SelInv s -> SelInv (fst (step s o)).
Proof. apply step_AllRes; [intros; constructor|exact annotate_SelInv]. Qed.

Theorem reachable_AllRes (PR : res -> Prop) : (forall id len, PR (mkres id len [])) ->
  (forall s b, AllRes PR s -> AllRes PR (fst (annotate s b))) -> forall ops, AllRes PR (run ops).
Proof.
  intros Hnew Hann. unfold run. intros ops.
  assert (G : forall ops s, AllRes PR s -> AllRes PR (fold_left (fun s o => fst (step s o)) ops s)).
  { induction ops0 as [|o ops0 IH]; intros s Gs; cbn [fold_left]; [exact Gs|]. apply IH. apply step_AllRes; assumption. }
  apply G. intros r rs Hr. unfold get_res, slot in Hr. cbn in Hr. destruct r; discriminate.
Qed.

Theorem reachable_SelInv : forall ops, SelInv (run ops).
Proof.
  unfold run. intros ops.
  assert (G : forall ops s, SelInv s -> SelInv (fold_left (fun s o => fst (step s o)) ops s)).
  { induction ops0 as [|o ops0 IH]; intros s Gs; cbn [fold_left]; [exact Gs|]. apply IH. apply step_SelInv. exact Gs. }
  apply G. intros r rs Hr. unfold get_res, slot in Hr. cbn in Hr. destruct r; discriminate.
Qed.

(** * a selector that covers the whole target carries the target's own text selection *)

Lemma whole_own s lf : SelInv s -> Pstore s lf -> Pown (whole s) (own_text s) lf.
Proof.
  intros HI H. destruct lf; cbn [Pown]; try exact I. intros Hw. destruct H as ((pt & Ho) & _).
  cbn [whole] in Hw. rewrite Ho in Hw. unfold range_of in Hw.
  destruct (get_res s r) as [rs|] eqn:Er; [|discriminate].
  destruct (nth_error (r_sels rs) t) as [[b e]|] eqn:E1; [|discriminate].
  destruct (nth_error (r_sels rs) pt) as [[pb pe]|] eqn:E2; [|discriminate].
  apply andb_prop in Hw. destruct Hw as [H1 H2]. apply Nat.eqb_eq in H1, H2. subst pb pe.
  rewrite Ho. f_equal. f_equal.
  pose proof (HI r rs Er) as Hnd. rewrite NoDup_nth_error in Hnd. symmetry. apply Hnd; [|congruence].
  apply nth_error_Some. congruence.
Qed.

(** * the round trip through the stored form, across any continuation of the history *)

Theorem compressed_target_roundtrip : forall ops b ops' tb s1 k l h a',
  ab_target b = Some tb -> resolve_target (run ops) tb = (s1, Some (k, l)) ->
  snd (annotate (run ops) b) = OOk h -> h = length (anns (run ops)) ->
  let s_now := run (ops ++ Annotate b :: ops') in
  get_ann s_now h = Some a' ->
  a_kind a' = k /\ a_leaves a' = l /\ seen s1 s_now l = l.
Proof.
  intros ops b ops' tb s1 k l h a' Htb Hres Hout Hh s_now Hnow.
  set (s := run ops) in *.
  (* the annotation created by this step *)
  assert (Hstep : run (ops ++ [Annotate b]) = fst (annotate s b)).
  { unfold run. rewrite fold_left_app. reflexivity. }
  assert (Hcreated : exists a, get_ann (run (ops ++ [Annotate b])) h = Some a /\ a_kind a = k /\ a_leaves a = l
                               /\ length (anns (run (ops ++ [Annotate b]))) = S h).
  { rewrite Hstep. unfold annotate in *. rewrite Htb, Hres in *.
    pose proof (resolve_target_core s tb) as C1. rewrite Hres in C1. cbn [fst] in C1.
    pose proof (insert_datas_core (ab_data b) s1) as C2.
    destruct (insert_datas s1 (ab_data b)) as [s2 [data|]]; cbn [fst snd] in *; [|discriminate].
    pose proof (same_core_trans _ _ _ C1 C2) as C3. destruct C3 as (Ca & _).
    destruct (match ab_id b with Some tok => id_get (aidx s2) tok | None => None end) as [h'|].
    - destruct (get_ann s2 h') as [exi|] eqn:Ee; [|discriminate].
      destruct (_ && _); cbn [snd] in Hout; [|discriminate]. injection Hout as ->.
      apply get_ann_lt in Ee. rewrite Ca in Ee. lia.
    - cbn [fst snd] in *.
      assert (Hanns : forall s4 h0 a0, anns (index_ann s4 h0 a0) = anns s4) by (intros; apply (index_ann_ids s4 h0 a0)).
      match goal with |- exists a, get_ann (index_ann ?s4 ?h0 ?a0) h = _ /\ _ =>
        assert (E : anns (index_ann s4 h0 a0) = anns s ++ [Some a0])
          by (rewrite Hanns; destruct (ab_id b); cbn [set_aidx set_anns anns]; rewrite Ca; reflexivity);
        exists a0 end.
      unfold get_ann. rewrite E, slot_app_new, Hh, Nat.eqb_refl, app_length. cbn [length a_kind a_leaves]. repeat split; lia. }
  destruct Hcreated as (a & Ha & Hk & Hl & Hlen).
  (* it never changes afterwards *)
  assert (Hsplit : s_now = run ((ops ++ [Annotate b]) ++ ops')) by (unfold s_now; rewrite <- app_assoc; reflexivity).
  rewrite Hsplit in Hnow.
  destruct (targets_never_change (ops ++ [Annotate b]) ops' h a' ltac:(lia) Hnow) as (a0 & Ha0 & Hsame).
  rewrite Ha in Ha0. injection Ha0 as <-. destruct Hsame as (_ & Sk & Sl & _).
  split; [congruence|]. split; [congruence|].
  (* what the compression relied on still holds for the reader *)
  unfold seen. apply expand_compress.
  pose proof (resolve_target_sel s tb (reachable_SelInv ops)) as R. rewrite Hres in R. destruct R as (X & I1 & P).
  specialize (P k l eq_refl).
  pose proof (reachable_Good ((ops ++ [Annotate b]) ++ ops')) as (_ & _ & _ & Hrefs & _).
  rewrite Forall_forall in *. intros lf Hin. specialize (P lf Hin).
  pose proof (whole_own s1 lf I1 P) as W. destruct lf; cbn [Pown] in *; try exact I.
  intros Hw. rewrite <- (W Hw).
  (* the target annotation a0 is alive now, hence unchanged since before this step *)
  assert (Hlive : get_ann (run ((ops ++ [Annotate b]) ++ ops')) a0 <> None).
  { apply (Hrefs h a' Hnow (LAnnText a0 r t m)). rewrite Sl, Hl. exact Hin. }
  rewrite <- Hsplit in *.
  destruct (get_ann s_now a0) as [an|] eqn:Ean; [|congruence].
  assert (Hlt : a0 < length (anns s)).
  { specialize (W Hw). unfold own_text in W. destruct (get_ann s1 a0) as [x|] eqn:E; [|discriminate].
    apply get_ann_lt in E. destruct X as (Xa & _). rewrite Xa in E. exact E. }
  assert (Hsplit2 : s_now = run (ops ++ (Annotate b :: ops'))) by reflexivity.
  rewrite Hsplit2 in Ean.
  destruct (targets_never_change ops (Annotate b :: ops') a0 an Hlt Ean) as (an0 & Han0 & (_ & Tk & Tl & _)).
  rewrite <- Hsplit2 in Ean.
  unfold own_text. rewrite Ean. destruct X as (Xa & _). unfold get_ann at 1. rewrite Xa. change (slot (anns s) a0) with (get_ann (run ops) a0). rewrite Han0.
  rewrite Tk, Tl. reflexivity.
Qed.
