(* Text validation, part 5: protect_text as a whole.  It keeps every invariant of the store
   (reverse indices, dataset invariants, id maps, references), and afterwards every annotation
   carries exactly the references the mode asks for, computed from its selected strings. *)
From Coq Require Import NArith.
From Stam Require Import Base.Tac Base.ListAux Model.Offset Model.Utf8 Model.Store Model.StoreObs Spec.StoreSpec
     Model.TempId Model.DataValue Spec.DataSpec
     Proofs.RelMap Proofs.StoreScan Proofs.StoreInv Proofs.StoreDataDef Proofs.StoreItems Proofs.StoreRemove
     Proofs.StoreSets Proofs.StoreIds Proofs.StoreData
     Model.Validate Spec.ValidateSpec Proofs.ValidateJoin Proofs.ValidateSet Proofs.ValidateAttach Proofs.ValidateView.

(** * all invariants of a reachable store *)
Record W (s : store) : Prop := mkW {
  W_inv : Inv s;
  W_sets : SetsInv s;
  W_ids : IdInv s;
  W_data : data_ok s;
  W_wf : wf_targets s;
  W_refs : ann_refs_ok s;
  W_items : item_refs_ok s
}.

Theorem reachable_W ops : Forall op_ok ops -> W (run ops).
Proof.
  intros Hok. destruct (reachable_Good ops) as (H1 & H2 & H3 & H4 & H5).
  constructor; auto using reachable_SetsInv, reachable_IdInv.
Qed.

Fixpoint assoc (y : nat) (q : list (nat * text)) : option text :=
  match q with
  | [] => None
  | hv :: q' => if y =? fst hv then Some (snd hv) else assoc y q'
  end.

Definition keep (old new : option text) : option text :=
  match old with Some t => Some t | None => new end.

(* the store [sn] after the rounds for the queue [q] under the key [ktok], started from [s] *)
Record Rounds (ktok sh : nat) (q : list (nat * text)) (s sn : store) : Prop := mkRounds {
  R_W : W sn;
  R_vset : ref_set sn (ById VSET) = Some sh;
  R_ress : ress sn = ress s;
  R_len : length (anns sn) = length (anns s);
  R_anns : forall y,
      match get_ann s y with
      | None => get_ann sn y = None
      | Some a0 =>
          exists a1, get_ann sn y = Some a1 /\ a_leaves a1 = a_leaves a0 /\ a_kind a1 = a_kind a0
                     /\ forall kt, ann_vstr sn a1 kt =
                                   if kt =? ktok then keep (ann_vstr s a0 kt) (assoc y q) else ann_vstr s a0 kt
      end
}.

Lemma rounds ktok sh : forall q s,
  W s -> ref_set s (ById VSET) = Some sh ->
  (forall hv, In hv q -> get_ann s (fst hv) <> None) ->
  exists sn, fold_left (protect_add ktok sh) q (s, true) = (sn, true) /\ Rounds ktok sh q s sn.
Proof.
  induction q as [|[h v] q IH]; intros s HW Hv Hlive.
  - exists s. split; [reflexivity|]. constructor; auto.
    intros y. destruct (get_ann s y) as [a0|]; [|reflexivity].
    exists a0. repeat split. intros kt. cbn [assoc]. unfold keep. destruct (kt =? ktok); [|reflexivity].
    destruct (ann_vstr s a0 kt); reflexivity.
  - destruct (ref_set_vset s sh Hv) as [_ Hset]. destruct (get_set s sh) as [ds|] eqn:Hs; [|destruct (Hset eq_refl)].
    pose proof (W_sets s HW sh ds Hs) as HI.
    destruct (get_ann s h) as [a|] eqn:Ha; [|destruct (Hlive (h, v) (or_introl eq_refl) Ha)].
    destruct (protect_add_attach ktok sh s h v ds a Hs HI Ha) as (ds' & x & k & SI & E).
    set (s1 := attach s sh ds' h a x) in *.
    assert (HW1 : W s1).
    { destruct HW. constructor.
      - apply attach_Inv; assumption.
      - eapply attach_SetsInv; eassumption.
      - eapply attach_IdInv; eassumption.
      - eapply attach_data_ok; eassumption.
      - apply attach_wf_targets; assumption.
      - apply attach_ann_refs_ok; assumption.
      - eapply attach_item_refs_ok; eassumption. }
    assert (Hv1 : ref_set s1 (ById VSET) = Some sh) by (eapply view_ref_set; eassumption).
    assert (Hlive1 : forall hv, In hv q -> get_ann s1 (fst hv) <> None).
    { intros hv Hin. unfold s1. rewrite (attach_get_ann s sh ds' h a x Ha). destruct (fst hv =? h); [discriminate|].
      apply Hlive. right. exact Hin. }
    destruct (IH s1 HW1 Hv1 Hlive1) as (sn & En & [RW Rv Rr Rl Ra]).
    exists sn. split; [cbn [fold_left]; rewrite E; exact En|].
    constructor; auto.
    + rewrite Rl. apply attach_len.
    + intros y. specialize (Ra y). unfold s1 in Ra. rewrite (attach_get_ann s sh ds' h a x Ha) in Ra.
      destruct (y =? h) eqn:Ey.
      * assert (y = h) by lia. subst y. rewrite Ha. destruct Ra as (a1 & G1 & G2 & G3 & G4).
        exists a1. repeat split; auto. intros kt. rewrite G4.
        rewrite (view_self s sh ds ds' h a x k ktok v Hs SI Hv HI (fun dx Hdx => W_data s HW h a Ha dx Hdx) kt).
        cbn [assoc fst snd]. rewrite Nat.eqb_refl. unfold keep. destruct (kt =? ktok); [|reflexivity].
        destruct (ann_vstr s a kt); reflexivity.
      * destruct (get_ann s y) as [a0|] eqn:Hy; [|exact Ra].
        destruct Ra as (a1 & G1 & G2 & G3 & G4). exists a1. repeat split; auto. intros kt. rewrite G4.
        cbn [assoc fst]. rewrite Ey. rewrite !ann_vstr_in.
        rewrite (vstr_old s sh ds ds' h a x k ktok v Hs SI Hv HI (a_data a0) kt (fun dx Hdx => W_data s HW y a0 Hy dx Hdx)).
        reflexivity.
Qed.

(** * the validation dataset is found or created *)

Lemma add_set_W s id : W s -> W (fst (add_set s id)).
Proof.
  intros [H1 H2 H3 H4 H5 H6 H7].
  pose proof (add_set_core s id) as (C1 & _).
  constructor.
  - apply (Inv_same_core noex s); [apply add_set_core|exact H1].
  - apply add_set_SetsInv. exact H2.
  - apply add_set_IdInv. exact H3.
  - apply (data_ok_grow s); [exact C1|apply add_set_grow|exact H4].
  - intros x a Ha. unfold get_ann in Ha. rewrite C1 in Ha. exact (H5 x a Ha).
  - intros y a Ha lf Hlf. unfold get_ann in *. rewrite C1 in *. exact (H6 y a Ha lf Hlf).
  - apply (item_refs_grow s); [exact C1|apply add_set_items|exact H7].
Qed.

Lemma add_vset s : W s -> ref_set s (ById VSET) = None ->
  exists s1 sh, add_set s VSET = (s1, OOk sh) /\ W s1 /\ ref_set s1 (ById VSET) = Some sh
                /\ anns s1 = anns s /\ ress s1 = ress s
                /\ forall a kt, ann_vstr s1 a kt = None /\ ann_vstr s a kt = None.
Proof.
  intros HW Hn. pose proof (add_set_W s VSET HW) as HW1. unfold add_set in *.
  destruct (id_get (sidx s) VSET) as [h0|] eqn:E.
  - exfalso. pose proof (proj1 (Id_s s (W_ids s HW) VSET h0) E) as (it & Hs & _).
    unfold ref_set, resolve_ref in Hn. rewrite E, Hs in Hn. discriminate.
  - cbn [fst] in HW1. eexists _, (length (sets s)). split; [reflexivity|]. split; [exact HW1|].
    assert (Hr : ref_set (set_sidx (set_sets s (sets s ++ [Some (mkset VSET [] [] [] [] [])])) (id_put (sidx s) VSET (length (sets s)))) (ById VSET)
                 = Some (length (sets s))).
    { unfold ref_set, resolve_ref. cbn [sidx sets set_sidx set_sets]. rewrite id_get_put, Nat.eqb_refl, slot_app_new, Nat.eqb_refl. reflexivity. }
    split; [exact Hr|]. split; [reflexivity|]. split; [reflexivity|].
    intros a kt. unfold ann_vstr, vkey. rewrite Hr, Hn. unfold get_set. cbn [sets set_sidx set_sets].
    rewrite slot_app_new, Nat.eqb_refl. split; reflexivity.
Qed.

(** * the queues *)

Section Protect.
Variable H : text -> text.
Variables (txts : list text) (s : store) (m : nat).

(* what the mode asks to add to an annotation: (checksum, text) *)
Definition want (a0 : ann) : option text * option text :=
  let flags := mode_flags m (ranges_len (ann_ranges s a0)) in
  let j := text_join (odflt (ann_vstr s a0 KDEL)) (ann_pieces txts s a0) in
  (if fst flags && is_none (ann_vstr s a0 KCHK) then text_checksum H j else None,
   if snd flags && is_none (ann_vstr s a0 KTXT) then (if is_nil j then None else Some j) else None).

Definition add_to (q : list (nat * text)) (h : nat) (o : option text) : list (nat * text) :=
  match o with Some c => q ++ [(h, c)] | None => q end.

Lemma queue_one_eq q h :
  queue_one H txts s m q h =
  match get_ann s h with
  | None => q
  | Some a0 => (add_to (fst q) h (fst (want a0)), add_to (snd q) h (snd (want a0)))
  end.
Proof.
  unfold queue_one, want. destruct (get_ann s h) as [a0|]; [|reflexivity].
  destruct (mode_flags m (ranges_len (ann_ranges s a0))) as [dc dt]. cbn [fst snd].
  f_equal.
  - destruct (dc && is_none (ann_vstr s a0 KCHK)); [|reflexivity].
    destruct (text_checksum H _); reflexivity.
  - destruct (dt && is_none (ann_vstr s a0 KTXT)); [|reflexivity].
    destruct (is_nil _); reflexivity.
Qed.

Lemma assoc_add_to y q h o :
  assoc y (add_to q h o) = keep (assoc y q) (if y =? h then o else None).
Proof.
  unfold add_to. destruct o as [c|].
  - induction q as [|hv q IH]; cbn [app assoc fst snd keep].
    + destruct (y =? h); reflexivity.
    + destruct (y =? fst hv); [reflexivity|exact IH].
  - unfold keep. destruct (assoc y q); [reflexivity|]. destruct (y =? h); reflexivity.
Qed.

Lemma In_add_to hv q h o : In hv (add_to q h o) -> In hv q \/ (fst hv = h /\ o <> None).
Proof.
  unfold add_to. destruct o as [c|]; [|auto]. intros Hin. apply in_app_or in Hin.
  destruct Hin as [Hin|[<-|[]]]; [auto|]. right. split; [reflexivity|discriminate].
Qed.

Definition wanted (sel : option text * option text -> option text) (y : nat) : option text :=
  match get_ann s y with Some a0 => sel (want a0) | None => None end.

Lemma queues_assoc : forall l q,
  let q' := fold_left (queue_one H txts s m) l q in
  (forall y, assoc y (fst q') = keep (assoc y (fst q)) (if existsb (Nat.eqb y) l then wanted fst y else None))
  /\ (forall y, assoc y (snd q') = keep (assoc y (snd q)) (if existsb (Nat.eqb y) l then wanted snd y else None))
  /\ (forall hv, In hv (fst q') -> In hv (fst q) \/ get_ann s (fst hv) <> None)
  /\ (forall hv, In hv (snd q') -> In hv (snd q) \/ get_ann s (fst hv) <> None).
Proof.
  induction l as [|h l IH]; intros q; cbn [fold_left existsb].
  - repeat split; intros; try (unfold keep; destruct (assoc _ _); reflexivity); auto.
  - cbv zeta in *. specialize (IH (queue_one H txts s m q h)). destruct IH as (A & B & C & D).
    rewrite queue_one_eq in *. unfold wanted in *.
    destruct (get_ann s h) as [a0|] eqn:Eh.
    + cbn [fst snd] in *. repeat split.
      * intros y. rewrite A, assoc_add_to. unfold keep. destruct (assoc y (fst q)); [reflexivity|].
        destruct (y =? h) eqn:E; cbn [orb].
        -- assert (y = h) by lia. subst y. rewrite Eh. destruct (fst (want a0)); [reflexivity|].
           destruct (existsb (Nat.eqb h) l); reflexivity.
        -- reflexivity.
      * intros y. rewrite B, assoc_add_to. unfold keep. destruct (assoc y (snd q)); [reflexivity|].
        destruct (y =? h) eqn:E; cbn [orb].
        -- assert (y = h) by lia. subst y. rewrite Eh. destruct (snd (want a0)); [reflexivity|].
           destruct (existsb (Nat.eqb h) l); reflexivity.
        -- reflexivity.
      * intros hv Hin. destruct (C hv Hin) as [Hq|Hq]; [|auto]. apply In_add_to in Hq.
        destruct Hq as [Hq|[-> _]]; [auto|]. right. congruence.
      * intros hv Hin. destruct (D hv Hin) as [Hq|Hq]; [|auto]. apply In_add_to in Hq.
        destruct Hq as [Hq|[-> _]]; [auto|]. right. congruence.
    + repeat split.
      * intros y. rewrite A. destruct (y =? h) eqn:E; cbn [orb]; [|reflexivity].
        assert (y = h) by lia. subst y. rewrite Eh. destruct (existsb (Nat.eqb h) l); reflexivity.
      * intros y. rewrite B. destruct (y =? h) eqn:E; cbn [orb]; [|reflexivity].
        assert (y = h) by lia. subst y. rewrite Eh. destruct (existsb (Nat.eqb h) l); reflexivity.
      * exact C.
      * exact D.
Qed.

Lemma existsb_seq y n : existsb (Nat.eqb y) (seq 0 n) = (y <? n).
Proof.
  destruct (existsb (Nat.eqb y) (seq 0 n)) eqn:E.
  - apply existsb_exists in E. destruct E as (z & Hz & Ez). apply in_seq in Hz. symmetry. apply Nat.ltb_lt. lia.
  - destruct (y <? n) eqn:E2; [|reflexivity]. exfalso.
    assert (C : existsb (Nat.eqb y) (seq 0 n) = true).
    { apply existsb_exists. exists y. split; [apply in_seq; lia|apply Nat.eqb_refl]. }
    congruence.
Qed.

Lemma protect_queues_spec :
  let q := protect_queues H txts s m in
  (forall y, assoc y (fst q) = wanted fst y) /\ (forall y, assoc y (snd q) = wanted snd y)
  /\ (forall hv, In hv (fst q) -> get_ann s (fst hv) <> None)
  /\ (forall hv, In hv (snd q) -> get_ann s (fst hv) <> None).
Proof.
  cbv zeta. unfold protect_queues.
  destruct (queues_assoc (seq 0 (length (anns s))) ([], [])) as (A & B & C & D). cbv zeta in *.
  repeat split.
  - intros y. rewrite A, existsb_seq. cbn [fst assoc keep]. unfold wanted.
    destruct (get_ann s y) as [a0|] eqn:E; [|destruct (y <? _); reflexivity].
    apply slot_lt in E. assert (L : (y <? length (anns s)) = true) by lia. rewrite L. reflexivity.
  - intros y. rewrite B, existsb_seq. cbn [snd assoc keep]. unfold wanted.
    destruct (get_ann s y) as [a0|] eqn:E; [|destruct (y <? _); reflexivity].
    apply slot_lt in E. assert (L : (y <? length (anns s)) = true) by lia. rewrite L. reflexivity.
  - intros hv Hin. destruct (C hv Hin) as [[]|G]; exact G.
  - intros hv Hin. destruct (D hv Hin) as [[]|G]; exact G.
Qed.

End Protect.

(** * protect_text *)

Section Main.
Variable H : text -> text.

(* what an annotation carries after protect_text, from what it carried before *)
Definition Protected (txts : list text) (m : nat) (s s' : store) : Prop :=
  W s' /\ ress s' = ress s /\ length (anns s') = length (anns s)
  /\ forall y,
      match get_ann s y with
      | None => get_ann s' y = None
      | Some a0 =>
          exists a1, get_ann s' y = Some a1 /\ a_leaves a1 = a_leaves a0 /\ a_kind a1 = a_kind a0
                     /\ ann_vstr s' a1 KDEL = ann_vstr s a0 KDEL
                     /\ ann_vstr s' a1 KCHK = keep (ann_vstr s a0 KCHK) (fst (want H txts s m a0))
                     /\ ann_vstr s' a1 KTXT = keep (ann_vstr s a0 KTXT) (snd (want H txts s m a0))
      end.

Theorem protect_spec txts s m : W s ->
  exists s', protect H txts s m = (s', OOk 0) /\ Protected txts m s s'.
Proof.
  intros HW. unfold protect.
  pose proof (protect_queues_spec H txts s m) as Q. cbv zeta in Q.
  destruct (protect_queues H txts s m) as [qc qt]. cbn [fst snd] in Q. destruct Q as (Qc & Qt & Lc & Lt).
  (* the dataset *)
  assert (G : exists s1 sh,
             (match ref_set s (ById VSET) with
              | Some h => (s, Some h)
              | None => match add_set s VSET with (s', OOk h) => (s', Some h) | (s', _) => (s', None) end
              end) = (s1, Some sh)
             /\ W s1 /\ ref_set s1 (ById VSET) = Some sh /\ anns s1 = anns s /\ ress s1 = ress s
             /\ forall a kt, ann_vstr s1 a kt = ann_vstr s a kt).
  { destruct (ref_set s (ById VSET)) as [sh|] eqn:E.
    - exists s, sh. split; [reflexivity|]. split; [exact HW|]. split; [exact E|]. split; [reflexivity|].
      split; reflexivity.
    - destruct (add_vset s HW E) as (s1 & sh & E1 & HW1 & Hr & Ea & Er & Hv).
      exists s1, sh. rewrite E1. split; [reflexivity|]. split; [exact HW1|]. split; [exact Hr|]. split; [exact Ea|].
      split; [exact Er|]. intros a kt. destruct (Hv a kt) as [-> ->]. reflexivity. }
  destruct G as (s1 & sh & -> & HW1 & Hr1 & Ea1 & Er1 & Hv1).
  assert (G1 : forall y, get_ann s1 y = get_ann s y) by (intros y; unfold get_ann; rewrite Ea1; reflexivity).
  destruct (rounds KCHK sh qc s1 HW1 Hr1) as (s2 & E2 & [W2 Hr2 Er2 El2 A2]).
  { intros hv Hin. rewrite G1. apply Lc. exact Hin. }
  rewrite E2.
  destruct (rounds KTXT sh qt s2 W2 Hr2) as (s3 & E3 & [W3 Hr3 Er3 El3 A3]).
  { intros hv Hin. specialize (A2 (fst hv)). rewrite G1 in A2. pose proof (Lt hv Hin) as L.
    destruct (get_ann s (fst hv)) as [a0|]; [|destruct (L eq_refl)].
    destruct A2 as (a1 & -> & _). discriminate. }
  rewrite E3. exists s3. split; [reflexivity|].
  split; [exact W3|]. split; [congruence|]. split; [rewrite El3, El2, Ea1; reflexivity|].
  intros y. specialize (A2 y). specialize (A3 y). rewrite G1 in A2.
  destruct (get_ann s y) as [a0|] eqn:Ey.
  - destruct A2 as (a1 & B1 & B2 & B3 & B4). rewrite B1 in A3. destruct A3 as (a2 & C1 & C2 & C3 & C4).
    exists a2. split; [exact C1|]. split; [congruence|]. split; [congruence|].
    rewrite !C4, !B4, !Hv1. cbn [Nat.eqb KDEL KCHK KTXT].
    specialize (Qc y). specialize (Qt y). unfold wanted in Qc, Qt. rewrite Ey in Qc, Qt. rewrite Qc, Qt.
    repeat split.
  - rewrite A2 in A3. exact A3.
Qed.

(** invariants: the reverse index written by hand, the dataset invariants, everything else *)
Corollary protect_W txts s m : W s -> W (fst (protect H txts s m)).
Proof. intros HW. destruct (protect_spec txts s m HW) as (s' & -> & P & _). exact P. Qed.

End Main.

(** * The property *)

Lemma ann_pieces_frame txts s s' a0 a1 :
  ress s' = ress s -> a_leaves a1 = a_leaves a0 -> a_kind a1 = a_kind a0 ->
  ann_pieces txts s' a1 = ann_pieces txts s a0.
Proof.
  intros Er El Ek. unfold ann_pieces, ann_ranges. rewrite El, Ek.
  assert (E : forall rt, tsel_range s' rt = tsel_range s rt) by (intros rt; unfold tsel_range, get_res; rewrite Er; reflexivity).
  rewrite (omap_ext_in (tsel_range s') (tsel_range s)); [reflexivity|]. intros rt _. apply E.
Qed.

Lemma selected_frame txts s s' a0 a1 :
  ress s' = ress s -> a_leaves a1 = a_leaves a0 -> selected txts s' a1 = selected txts s a0.
Proof.
  intros Er El. unfold selected. rewrite El. apply omap_ext_in. intros lf _.
  unfold sel_of_leaf, get_res. rewrite Er. reflexivity.
Qed.

Lemma mode_flags_some m n : fst (mode_flags m n) || snd (mode_flags m n) = true.
Proof. unfold mode_flags. destruct m as [|[|[|m]]]; try reflexivity; destruct (n <? 40); reflexivity. Qed.

Lemma texts_eqb_iff a b c d : (a = b <-> c = d) -> texts_eqb a b = texts_eqb c d.
Proof. intros E. apply eq_true_iff_eq. rewrite !texts_eqb_eq. exact E. Qed.

Section Property.
Variable H : text -> text.
Variables (txts : list text) (s s' : store) (m : nat).
Hypothesis HP : Protected H txts m s s'.

Variables (y : nat) (a0 : ann).
Hypothesis Hy : get_ann s y = Some a0.
(* the annotation did not carry validation information of its own *)
Hypothesis Hfresh : carries_info s a0 = false.

Lemma fresh_none : ann_vstr s a0 KCHK = None /\ ann_vstr s a0 KTXT = None.
Proof.
  unfold carries_info in Hfresh. destruct (ann_vstr s a0 KCHK); destruct (ann_vstr s a0 KTXT); try discriminate.
  split; reflexivity.
Qed.

(* the protected annotation: same selection, references computed from the selected strings *)
Lemma protected_refs :
  exists a1, get_ann s' y = Some a1
             /\ ann_pieces txts s' a1 = ann_pieces txts s a0
             /\ (forall t, selected t s' a1 = selected t s a0)
             /\ (forall t, ann_pieces t s' a1 = ann_pieces t s a0)
             /\ (selects_text txts s a0 = true ->
                 refs_from H s' a1 (ann_pieces txts s a0)
                 /\ (fst (mode_flags m (ranges_len (ann_ranges s a0))) = false -> ann_vstr s' a1 KCHK = None)
                 /\ (snd (mode_flags m (ranges_len (ann_ranges s a0))) = true -> ann_vstr s' a1 KTXT <> None))
             /\ (selects_text txts s a0 = false -> carries_info s' a1 = false).
Proof.
  destruct HP as (_ & Er & _ & HA). specialize (HA y). rewrite Hy in HA.
  destruct HA as (a1 & G1 & G2 & G3 & G4 & G5 & G6). destruct fresh_none as [N1 N2].
  exists a1. split; [exact G1|]. split; [apply ann_pieces_frame; assumption|].
  split; [intros t; apply selected_frame; assumption|]. split; [intros t; apply ann_pieces_frame; assumption|].
  rewrite N1 in G5. rewrite N2 in G6. unfold want in G5, G6. rewrite N1, N2 in *. cbn [is_none keep fst snd] in G5, G6.
  rewrite !andb_true_r in *.
  set (j := text_join (odflt (ann_vstr s a0 KDEL)) (ann_pieces txts s a0)) in *.
  pose proof (mode_flags_some m (ranges_len (ann_ranges s a0))) as Hf.
  destruct (mode_flags m (ranges_len (ann_ranges s a0))) as [dc dt]. cbn [fst snd] in *.
  assert (Nj : is_nil j = negb (selects_text txts s a0)) by (unfold j; rewrite join_nil, pieces_some_selected; reflexivity).
  split.
  - intros Hsel. rewrite Hsel in Nj. cbn [negb] in Nj. unfold text_checksum in G5. rewrite Nj in G5, G6.
    split; [|split].
    + unfold refs_from. rewrite G4. fold j. unfold carries_info. rewrite G5, G6. split; [|split].
      * destruct dc; destruct dt; try discriminate; reflexivity.
      * intros c E. destruct dc; inversion E. reflexivity.
      * intros t E. destruct dt; inversion E. reflexivity.
    + intros ->. exact G5.
    + intros ->. rewrite G6. discriminate.
  - intros Hsel. rewrite Hsel in Nj. cbn [negb] in Nj. unfold text_checksum in G5. rewrite Nj in G5, G6.
    unfold carries_info. rewrite G5, G6. destruct dc; destruct dt; reflexivity.
Qed.

(* C18, first half: after protecting, an annotation that selects text validates, one that
   selects none carries no information (missing); never invalid *)
Theorem protect_valid :
  exists a1, get_ann s' y = Some a1 /\ validate_ann H txts s' a1 = demand_protected txts s a0.
Proof.
  destruct protected_refs as (a1 & G1 & G2 & _ & _ & G3 & G4). exists a1. split; [exact G1|].
  rewrite validate_by_reference, G2. unfold demand_protected.
  destruct (selects_text txts s a0) eqn:Hsel.
  - destruct (G3 eq_refl) as (R & _). apply refs_valid; [exact R|]. rewrite pieces_some_selected. exact Hsel.
  - specialize (G4 eq_refl). unfold carries_info in G4. unfold by_reference.
    destruct (ann_vstr s' a1 KCHK); destruct (ann_vstr s' a1 KTXT); try discriminate. reflexivity.
Qed.

(* C18, second half: the protected store read against texts of the same lengths *)
Variable txts' : list text.
Hypothesis Hlen : map (@length N) txts = map (@length N) txts'.

Let d := odflt (ann_vstr s a0 KDEL).
Let j := text_join d (ann_pieces txts s a0).
Let j' := text_join d (ann_pieces txts' s a0).

Lemma detect_core a1 :
  get_ann s' y = Some a1 ->
  (selects_text txts s a0 = true -> by_reference H s' a1 (ann_pieces txts' s a0) = Some (texts_eqb (ann_pieces txts s a0) (ann_pieces txts' s a0))) ->
  (forall t, selected t s' a1 = selected t s a0) -> (forall t, ann_pieces t s' a1 = ann_pieces t s a0) ->
  (selects_text txts s a0 = false -> carries_info s' a1 = false) ->
  validate_ann H txts' s' a1 = demand_edited txts txts' s a0.
Proof.
  intros G1 Hd Gs Gp G4. rewrite validate_by_reference, Gp. unfold demand_edited.
  destruct (selects_text txts s a0) eqn:Hsel.
  - rewrite (Hd eq_refl). f_equal. apply texts_eqb_iff. apply pieces_eq_selected.
  - specialize (G4 eq_refl). unfold carries_info in G4. unfold by_reference.
    destruct (ann_vstr s' a1 KCHK); destruct (ann_vstr s' a1 KTXT); try discriminate. reflexivity.
Qed.

(* whenever a text reference was written (modes Text and Both; Auto below 40 characters):
   nothing is asked of the digest *)
Theorem protect_detects_text :
  snd (mode_flags m (ranges_len (ann_ranges s a0))) = true ->
  exists a1, get_ann s' y = Some a1 /\ validate_ann H txts' s' a1 = demand_edited txts txts' s a0.
Proof.
  intros Hm. destruct protected_refs as (a1 & G1 & G2 & Gs & Gp & G3 & G4). exists a1. split; [exact G1|].
  apply detect_core; auto. intros Hsel. destruct (G3 Hsel) as (R & _ & Rt).
  apply refs_detect_with_text; [exact R|exact (Rt Hm)|rewrite pieces_some_selected; exact Hsel|apply pieces_profile; exact Hlen].
Qed.

(* in general: the digest must not collide on the two joined strings compared *)
Theorem protect_detects :
  (H j = H j' -> j = j') ->
  exists a1, get_ann s' y = Some a1 /\ validate_ann H txts' s' a1 = demand_edited txts txts' s a0.
Proof.
  intros Hinj. destruct protected_refs as (a1 & G1 & G2 & Gs & Gp & G3 & G4). exists a1. split; [exact G1|].
  apply detect_core; auto. intros Hsel. destruct (G3 Hsel) as (R & _).
  destruct HP as (_ & _ & _ & HA). specialize (HA y). rewrite Hy in HA.
  destruct HA as (a1' & B1 & _ & _ & B4 & _). rewrite G1 in B1. inversion B1; subst a1'.
  apply refs_detect; [exact R|rewrite pieces_some_selected; exact Hsel|apply pieces_profile; exact Hlen|].
  cbv zeta. rewrite B4. exact Hinj.
Qed.

End Property.

(** * Reachability with protect_text among the operations *)

Lemma step_W s o : op_ok o -> W s -> W (fst (step s o)).
Proof.
  intros Ho [H1 H2 H3 H4 H5 H6 H7].
  destruct (step_Good s o (conj H1 (conj H5 (conj H4 (conj H6 H7))))) as (G1 & G2 & G3 & G4 & G5).
  constructor; auto using step_SetsInv, step_IdInv.
Qed.

Inductive reach : store -> Prop :=
| reach_init : reach empty_store
| reach_step s o : op_ok o -> reach s -> reach (fst (step s o))
| reach_protect H txts s m : reach s -> reach (fst (protect H txts s m)).

Theorem reach_W s : reach s -> W s.
Proof.
  induction 1 as [|s o Ho _ IH|H txts s m _ IH].
  - apply (reachable_W []). constructor.
  - apply step_W; assumption.
  - apply protect_W. exact IH.
Qed.

(** * The statements of C18 on stores *)

Section Statements.
Variable H : text -> text.

(* collision freedom of the digest on a finite set of strings *)
Definition H_inj_on (D : list text) : Prop := forall a b, In a D -> In b D -> H a = H b -> a = b.

Theorem protect_total txts s m : W s -> snd (protect H txts s m) = OOk 0.
Proof. intros HW. destruct (protect_spec H txts s m HW) as (s' & -> & _). reflexivity. Qed.

Theorem protect_valid_store txts s m : W s ->
  forall y a0, get_ann s y = Some a0 -> carries_info s a0 = false ->
  exists a1, get_ann (fst (protect H txts s m)) y = Some a1
             /\ validate_ann H txts (fst (protect H txts s m)) a1 = demand_protected txts s a0.
Proof.
  intros HW y a0 Hy Hf. destruct (protect_spec H txts s m HW) as (s' & E & P). rewrite E. cbn [fst].
  exact (protect_valid H txts s s' m P y a0 Hy Hf).
Qed.

(* nothing else appears or disappears *)
Theorem protect_same_slots txts s m : W s ->
  forall y, get_ann (fst (protect H txts s m)) y = None <-> get_ann s y = None.
Proof.
  intros HW y. destruct (protect_spec H txts s m HW) as (s' & E & (_ & _ & _ & HA)). rewrite E. cbn [fst].
  specialize (HA y). destruct (get_ann s y) as [a0|].
  - destruct HA as (a1 & -> & _). split; discriminate.
  - rewrite HA. tauto.
Qed.

Theorem protect_detects_store txts txts' s m : W s ->
  map (@length N) txts = map (@length N) txts' ->
  forall y a0, get_ann s y = Some a0 -> carries_info s a0 = false ->
  let d := odflt (ann_vstr s a0 KDEL) in
  H_inj_on [text_join d (ann_pieces txts s a0); text_join d (ann_pieces txts' s a0)] ->
  exists a1, get_ann (fst (protect H txts s m)) y = Some a1
             /\ validate_ann H txts' (fst (protect H txts s m)) a1 = demand_edited txts txts' s a0.
Proof.
  intros HW Hl y a0 Hy Hf d Hinj. destruct (protect_spec H txts s m HW) as (s' & E & P). rewrite E. cbn [fst].
  apply (protect_detects H txts s s' m P y a0 Hy Hf txts' Hl).
  apply Hinj; cbn [In]; auto.
Qed.

Theorem protect_detects_text_store txts txts' s m : W s ->
  map (@length N) txts = map (@length N) txts' ->
  forall y a0, get_ann s y = Some a0 -> carries_info s a0 = false ->
  snd (mode_flags m (ranges_len (ann_ranges s a0))) = true ->
  exists a1, get_ann (fst (protect H txts s m)) y = Some a1
             /\ validate_ann H txts' (fst (protect H txts s m)) a1 = demand_edited txts txts' s a0.
Proof.
  intros HW Hl y a0 Hy Hf Hm. destruct (protect_spec H txts s m HW) as (s' & E & P). rewrite E. cbn [fst].
  exact (protect_detects_text H txts s s' m P y a0 Hy Hf txts' Hl Hm).
Qed.

End Statements.

(* the demanded verdicts spelled out *)
Lemma demand_edited_invalid_iff txts txts' s a :
  demand_edited txts txts' s a = Some false <-> (selects_text txts s a = true /\ selected txts s a <> selected txts' s a).
Proof.
  unfold demand_edited. destruct (selects_text txts s a).
  - split.
    + intros E. split; [reflexivity|]. intros C. apply texts_eqb_eq in C. congruence.
    + intros [_ C]. f_equal. destruct (texts_eqb _ _) eqn:E; [|reflexivity]. apply texts_eqb_eq in E. contradiction.
  - split; [discriminate|]. intros [C _]. discriminate.
Qed.

Lemma text_mode_flags n : snd (mode_flags 1 n) = true /\ snd (mode_flags 2 n) = true.
Proof. split; reflexivity. Qed.
