(* The builder a row decodes to, resolved against the store it was written from, denotes the same
   items and the same absolute ranges as the annotation it was packed from.  Uses the exactness of
   the id maps (C03: IdInv, SetsInv hold for every reachable store) and the report/resolve
   theorems of C04 (Proofs/Offset.v). *)
From Coq Require Import List NArith ZArith Bool Arith Lia.
Import ListNotations.
From Stam Require Import Base.Tac Base.Sx Model.Offset Model.Store Model.Loader Model.Csv Spec.CsvSpec
  Proofs.Loader Proofs.StoreIds Proofs.StoreSets Proofs.Csv.
From Stam Require Spec.OffsetSpec Proofs.Offset.

(** * find_sel finds a selection with that range *)

Lemma find_sel_some l rg : In rg l -> forall i, exists t', find_sel l rg i = Some (i + t') /\ nth_error l t' = Some rg.
Proof.
  induction l as [|u l IH]; intros Hin i; [destruct Hin|].
  cbn [find_sel].
  destruct (Nat.eqb (fst u) (fst rg) && Nat.eqb (snd u) (snd rg)) eqn:E.
  - exists 0. rewrite Nat.add_0_r. split; [reflexivity|].
    apply andb_prop in E. destruct E as [E1 E2]. apply Nat.eqb_eq in E1, E2.
    destruct u, rg. cbn [fst snd] in *. subst. reflexivity.
  - destruct Hin as [->|Hin].
    + rewrite !Nat.eqb_refl in E. discriminate.
    + destruct (IH Hin (S i)) as (t' & Hf & Hn). exists (S t'). rewrite Nat.add_succ_r. split; assumption.
Qed.

Lemma intern_sel_known s r rs rg : In rg (r_sels rs) ->
  exists t', intern_sel s r rs rg = (s, t') /\ nth_error (r_sels rs) t' = Some rg.
Proof.
  intro Hin. destruct (find_sel_some _ _ Hin 0) as (t' & Hf & Hn). exists t'. unfold intern_sel. rewrite Hf.
  split; [reflexivity|exact Hn].
Qed.

(** * references *)

Definition ids_fit (s : store) : Prop :=
  (forall h a, get_ann s h = Some a -> tok_fits h /\ forall t, a_id a = Some t -> tok_fits t)
  /\ (forall r rs, get_res s r = Some rs -> tok_fits (r_id rs))
  /\ (forall d ds, get_set s d = Some ds ->
        tok_fits (d_id ds) /\ (forall k kt, slot (d_keys ds) k = Some kt -> tok_fits kt)
        /\ (forall x it, slot (d_data ds) x = Some it -> tok_fits x /\ forall t, x_id it = Some t -> tok_fits t)).

Lemma exact_get {X} (idof : X -> option nat) l m h it tok :
  exact idof l m -> slot l h = Some it -> idof it = Some tok -> resolve_ref l m (ById tok) = Some h.
Proof.
  intros E Hs Hi. unfold resolve_ref.
  assert (id_get m tok = Some h) as G by (apply E; exists it; split; assumption).
  rewrite G, Hs. reflexivity.
Qed.

Lemma handle_get {X} (l : list (option X)) m h it : slot l h = Some it -> resolve_ref l m (ByHandle h) = Some h.
Proof. intro Hs. unfold resolve_ref. rewrite Hs. reflexivity. Qed.

Lemma ann_ref_ok s a0 an : IdInv s -> get_ann s a0 = Some an -> tok_fits a0 -> (forall t, a_id an = Some t -> tok_fits t) ->
  exists ar, ref_of_name 97%N LETTER_A (ann_ident a0 an) = Some ar /\ ref_ann s ar = Some a0.
Proof.
  intros Hid Ha Hf1 Hf2. unfold ann_ident. destruct (a_id an) as [t|] eqn:Et.
  - exists (ById t). split; [apply ref_of_plain_name; [reflexivity|apply Hf2; reflexivity]|].
    apply (exact_get a_id _ _ a0 an t (Id_a s Hid) Ha Et).
  - exists (ByHandle a0). split; [apply ref_of_temp_name; exact Hf1|]. apply (handle_get (anns s) (aidx s) a0 an Ha).
Qed.

Lemma res_ref_ok s r rs : IdInv s -> get_res s r = Some rs -> tok_fits (r_id rs) ->
  ref_of_name 114%N 82%N (name_res (r_id rs)) = Some (ById (r_id rs)) /\ ref_res s (ById (r_id rs)) = Some r.
Proof.
  intros Hid Hr Hf. split; [apply ref_of_plain_name; [reflexivity|exact Hf]|].
  apply (exact_get rid _ _ r rs (r_id rs) (Id_r s Hid) Hr eq_refl).
Qed.

Lemma set_ref_ok s d ds : IdInv s -> get_set s d = Some ds -> tok_fits (d_id ds) ->
  set_ref_of_name (name_set (d_id ds)) = Some (ById (d_id ds)) /\ ref_set s (ById (d_id ds)) = Some d.
Proof.
  intros Hid Hd Hf. split; [apply set_ref_of_name_set; exact Hf|].
  apply (exact_get did _ _ d ds (d_id ds) (Id_s s Hid) Hd eq_refl).
Qed.

Lemma key_ref_ok ds k kt : DsInv ds -> slot (d_keys ds) k = Some kt -> tok_fits kt ->
  ref_of_name 107%N 75%N (name_key kt) = Some (ById kt) /\ ref_key ds (ById kt) = Some k.
Proof.
  intros Hinv Hk Hf. split; [apply ref_of_plain_name; [reflexivity|exact Hf]|].
  unfold ref_key, resolve_ref. assert (id_get (d_kidx ds) kt = Some k) as G by (apply (D_kidx ds Hinv); exact Hk).
  rewrite G, Hk. reflexivity.
Qed.

Lemma data_ref_ok ds x it : DsInv ds -> slot (d_data ds) x = Some it -> tok_fits x -> (forall t, x_id it = Some t -> tok_fits t) ->
  exists xr, ref_of_name 100%N LETTER_D (data_ident x it) = Some xr /\ ref_data ds xr = Some x.
Proof.
  intros Hinv Hx Hf1 Hf2. unfold data_ident. destruct (x_id it) as [t|] eqn:Et.
  - exists (ById t). split; [apply ref_of_plain_name; [reflexivity|apply Hf2; reflexivity]|].
    unfold ref_data, resolve_ref.
    assert (id_get (d_xidx ds) t = Some x) as G by (apply (D_xidx ds Hinv); exists it; split; assumption).
    rewrite G, Hx. reflexivity.
  - exists (ByHandle x). split; [apply ref_of_temp_name; exact Hf1|]. apply (handle_get (d_data ds) (d_xidx ds) x it Hx).
Qed.

(** * one leaf *)

Lemma sel_range_nth s r rs t rg : get_res s r = Some rs -> nth_error (r_sels rs) t = Some rg -> sel_range s r t = rg.
Proof. intros Hr Ht. unfold sel_range. rewrite Hr. apply nth_error_nth. exact Ht. Qed.

Lemma leaf_reresolve s h a lf b : IdInv s -> SetsInv s -> store_ok s = true -> ids_fit s ->
  get_ann s h = Some a -> In lf (a_leaves a) -> leaf_build s lf = Some b ->
  exists sb lf', simple_of_loader b = Some sb /\ resolve_simple s sb = (s, Some lf') /\ leaf_desc s lf' = leaf_desc s lf.
Proof.
  intros Hid Hsets Hok (Fa & Fr & Fs) Ha Hlf Hb.
  destruct lf as [r t m|a0|a0 r t m|r|d|d k|d x]; cbn [leaf_build] in Hb.
  - (* text *)
    destruct (get_res s r) as [rs|] eqn:Er; [|discriminate].
    destruct (nth_error (r_sels rs) t) as [[b0 e0]|] eqn:Et; [|discriminate].
    remember (report_resource (r_len rs) (b0, e0) (mode_of_nat m)) as o eqn:Eo. cbv zeta in Hb. injection Hb as <-.
    destruct (store_ok_res s r rs Hok Er) as [Hf Hs].
    destruct (Hs (b0, e0) (nth_error_In _ _ Et)) as [H1 H2]. cbn [fst snd] in H1, H2.
    destruct (res_ref_ok s r rs Hid Er (Fr r rs Er)) as [N1 N2].
    destruct (Proofs.Offset.report_resource_spec (r_len rs) b0 e0 (mode_of_nat m) H1 H2) as (E & _ & _ & _ & R).
    destruct (intern_sel_known s r rs (b0, e0) (nth_error_In _ _ Et)) as (t' & Hi & Ht').
    eexists _, (LText r t' _). cbn [simple_of_loader]. rewrite N1. cbn [option_map]. split; [reflexivity|].
    cbn [resolve_simple]. rewrite N2, Er. rewrite !ocur_lcur.
    replace (mkoff (o_begin o) (o_end o)) with o by (destruct o; reflexivity).
    rewrite Eo, E, R, Hi. split; [reflexivity|].
    cbn [leaf_desc]. rewrite (sel_range_nth s r rs t' _ Er Ht'), (sel_range_nth s r rs t _ Er Et). reflexivity.
  - (* annotation *)
    destruct (get_ann s a0) as [an|] eqn:Ea; [|discriminate]. injection Hb as <-.
    destruct (Fa a0 an Ea) as [Ff1 Ff2].
    destruct (ann_ref_ok s a0 an Hid Ea Ff1 Ff2) as (ar & N1 & N2).
    eexists _, (LAnn a0). cbn [simple_of_loader]. rewrite N1. cbn [option_map]. split; [reflexivity|].
    cbn [resolve_simple]. rewrite N2. split; reflexivity.
  - (* annotation with a relative offset *)
    destruct (get_ann s a0) as [an|] eqn:Ea; [|discriminate].
    destruct (get_res s r) as [rs|] eqn:Er; [|discriminate].
    destruct (nth_error (r_sels rs) t) as [[b0 e0]|] eqn:Et; [|discriminate]. injection Hb as <-.
    destruct (Fa a0 an Ea) as [Ff1 Ff2].
    destruct (ann_ref_ok s a0 an Hid Ea Ff1 Ff2) as (ar & N1 & N2).
    assert (leaf_ok s (LAnnText a0 r t m) = true) as Hl.
    { unfold store_ok in Hok. apply andb_prop in Hok. destruct Hok as [_ Hok].
      rewrite forallb_forall in Hok. specialize (Hok (h, a)). cbn [snd] in Hok.
      assert (forallb (leaf_ok s) (a_leaves a) = true) as Hall by (apply Hok; apply live_items_In; exact Ha).
      rewrite forallb_forall in Hall. apply Hall. exact Hlf. }
    cbn [leaf_ok] in Hl. rewrite Ea in Hl.
    destruct (ann_textsel s an) as [[[r' t0] [pb pe]]|] eqn:Ep; [|discriminate].
    rewrite (sel_range_nth s r rs t _ Er Et) in Hl. cbn [fst snd] in Hl.
    apply andb_prop in Hl. destruct Hl as [Hl H5]. apply andb_prop in Hl. destruct Hl as [H3 H4].
    apply Nat.eqb_eq in H3. subst r'. apply Nat.leb_le in H4, H5.
    destruct (store_ok_res s r rs Hok Er) as [Hf Hs].
    destruct (Hs (b0, e0) (nth_error_In _ _ Et)) as [H6 H7]. cbn [fst snd] in H6, H7.
    destruct (Proofs.Offset.relative_offset_spec pb pe b0 e0 (mode_of_nat m) H4 H6 H5) as (E & _ & _ & _ & R).
    cbv zeta in E, R.
    destruct (intern_sel_known s r rs (b0, e0) (nth_error_In _ _ Et)) as (t' & Hi & Ht').
    eexists _, (LAnnText a0 r t' _). cbn [simple_of_loader]. rewrite N1, E. cbn [option_map off_curs fst snd]. split; [reflexivity|].
    cbn [resolve_simple]. rewrite N2, Ea, Ep. rewrite !ocur_lcur.
    match goal with |- context [selection_ts _ (mkoff (o_begin ?o) (o_end ?o))] =>
      replace (mkoff (o_begin o) (o_end o)) with o by (destruct o; reflexivity) end.
    rewrite R, Er, Hi. split; [reflexivity|].
    cbn [leaf_desc]. rewrite (sel_range_nth s r rs t' _ Er Ht'), (sel_range_nth s r rs t _ Er Et). reflexivity.
  - (* resource *)
    destruct (get_res s r) as [rs|] eqn:Er; [|discriminate]. injection Hb as <-.
    destruct (res_ref_ok s r rs Hid Er (Fr r rs Er)) as [N1 N2].
    eexists _, (LRes r). cbn [simple_of_loader]. rewrite N1. cbn [option_map]. split; [reflexivity|].
    cbn [resolve_simple]. rewrite N2. split; reflexivity.
  - (* data set *)
    destruct (get_set s d) as [ds|] eqn:Ed; [|discriminate]. injection Hb as <-.
    destruct (Fs d ds Ed) as (G1 & _ & _). destruct (set_ref_ok s d ds Hid Ed G1) as [N1 N2].
    eexists _, (LSet d). cbn [simple_of_loader]. rewrite N1. cbn [option_map]. split; [reflexivity|].
    cbn [resolve_simple]. rewrite N2. split; reflexivity.
  - (* key *)
    destruct (get_set s d) as [ds|] eqn:Ed; [|discriminate].
    destruct (slot (d_keys ds) k) as [kt|] eqn:Ek; [|discriminate]. injection Hb as <-.
    destruct (Fs d ds Ed) as (G1 & G2 & _). destruct (set_ref_ok s d ds Hid Ed G1) as [N1 N2].
    destruct (key_ref_ok ds k kt (Hsets d ds Ed) Ek (G2 k kt Ek)) as [N3 N4].
    eexists _, (LKey d k). cbn [simple_of_loader]. rewrite N1, N3. split; [reflexivity|].
    cbn [resolve_simple]. rewrite N2, Ed, N4. split; reflexivity.
  - (* data *)
    destruct (get_set s d) as [ds|] eqn:Ed; [|discriminate].
    destruct (slot (d_data ds) x) as [it|] eqn:Ex; [|discriminate]. injection Hb as <-.
    destruct (Fs d ds Ed) as (G1 & _ & G3). destruct (set_ref_ok s d ds Hid Ed G1) as [N1 N2].
    destruct (G3 x it Ex) as [G4 G5].
    destruct (data_ref_ok ds x it (Hsets d ds Ed) Ex G4 G5) as (xr & N3 & N4).
    eexists _, (LData d x). cbn [simple_of_loader]. rewrite N1, N3. split; [reflexivity|].
    cbn [resolve_simple]. rewrite N2, Ed, N4. split; reflexivity.
Qed.

(** * all leaves of a target *)

Lemma leaves_reresolve s h a : IdInv s -> SetsInv s -> store_ok s = true -> ids_fit s -> get_ann s h = Some a ->
  forall lfs bs, (forall lf, In lf lfs -> In lf (a_leaves a)) -> map_opt (leaf_build s) lfs = Some bs ->
  exists sbs lfs', map_opt simple_of_loader bs = Some sbs /\ resolve_subs s sbs = (s, Some lfs')
                   /\ map (leaf_desc s) lfs' = map (leaf_desc s) lfs.
Proof.
  intros Hid Hsets Hok Hfit Ha. induction lfs as [|lf lfs IH]; intros bs Hsub Hb.
  - injection Hb as <-. exists [], []. repeat split.
  - cbn [map_opt] in Hb. destruct (leaf_build s lf) as [b|] eqn:Eb; [|discriminate].
    destruct (map_opt (leaf_build s) lfs) as [bs'|] eqn:Ebs; [|discriminate]. injection Hb as <-.
    destruct (leaf_reresolve s h a lf b Hid Hsets Hok Hfit Ha (Hsub lf (or_introl eq_refl)) Eb) as (sb & lf' & S1 & S2 & S3).
    destruct (IH bs' (fun l Hl => Hsub l (or_intror Hl)) eq_refl) as (sbs & lfs' & T1 & T2 & T3).
    exists (sb :: sbs), (lf' :: lfs'). cbn [map_opt]. rewrite S1, T1. split; [reflexivity|].
    cbn [resolve_subs]. rewrite S2, T2. split; [reflexivity|]. cbn [map]. rewrite S3, T3. reflexivity.
Qed.

Lemma simple_of_loader_not_complex b sb : simple_of_loader b = Some sb -> forall k l, sb <> Store.BComplex k l.
Proof.
  intros H k l ->. destruct b as [r cb ce|a0 o|r|d|d k0|d x|k0 l0]; cbn [simple_of_loader] in H; try discriminate.
  - destruct (ref_of_name 114%N 82%N r); discriminate.
  - destruct (ref_of_name 97%N LETTER_A a0); discriminate.
  - destruct (ref_of_name 114%N 82%N r); discriminate.
  - destruct (set_ref_of_name d); discriminate.
  - destruct (set_ref_of_name d); [|discriminate]. destruct (ref_of_name 107%N 75%N k0); discriminate.
  - destruct (set_ref_of_name d); [|discriminate]. destruct (ref_of_name 100%N LETTER_D x); discriminate.
Qed.

Lemma leaf_build_not_complex s lf b : leaf_build s lf = Some b -> forall k l, b <> BComplex k l.
Proof.
  intros H k l ->. destruct lf as [r t m|a0|a0 r t m|r|d|d k0|d x]; cbn [leaf_build] in H.
  - destruct (get_res s r) as [rs|]; [|discriminate]. destruct (nth_error (r_sels rs) t); discriminate.
  - destruct (get_ann s a0); discriminate.
  - destruct (get_ann s a0); [|discriminate]. destruct (get_res s r) as [rs|]; [|discriminate].
    destruct (nth_error (r_sels rs) t); discriminate.
  - destruct (get_res s r); discriminate.
  - destruct (get_set s d); discriminate.
  - destruct (get_set s d) as [ds|]; [|discriminate]. destruct (slot (d_keys ds) k0); discriminate.
  - destruct (get_set s d) as [ds|]; [|discriminate]. destruct (slot (d_data ds) x); discriminate.
Qed.

(* the selector kinds of the API: 0 simple, 1 Multi, 2 Composite, 3 Directional *)
Definition shape_ok (a : ann) : Prop :=
  a_kind a <= 3 /\ (a_kind a = 0 -> exists lf, a_leaves a = [lf]).

(* the target the row decodes to resolves, in the store it was written from, to the same kind,
   the same items and the same absolute ranges *)
Theorem target_reresolve s h a bs : IdInv s -> SetsInv s -> store_ok s = true -> ids_fit s ->
  get_ann s h = Some a -> shape_ok a -> map_opt (leaf_build s) (a_leaves a) = Some bs ->
  exists tb lfs', target_of_loader (target_of (a_kind a) bs) = Some tb
                  /\ resolve_target s tb = (s, Some (a_kind a, lfs'))
                  /\ map (leaf_desc s) lfs' = map (leaf_desc s) (a_leaves a).
Proof.
  intros Hid Hsets Hok Hfit Ha (Hk3 & Hk0) Hb.
  destruct (leaves_reresolve s h a Hid Hsets Hok Hfit Ha (a_leaves a) bs (fun _ H => H) Hb) as (sbs & lfs' & T1 & T2 & T3).
  destruct (a_kind a) as [|k'] eqn:Ek.
  - destruct (Hk0 eq_refl) as (lf & El). rewrite El in *. cbn [map_opt] in Hb.
    destruct (leaf_build s lf) as [b|] eqn:Eb; [|discriminate]. injection Hb as <-.
    cbn [map_opt] in T1. destruct (simple_of_loader b) as [sb|] eqn:Esb; [|discriminate]. injection T1 as <-.
    cbn [resolve_subs] in T2. destruct (resolve_simple s sb) as [s1 [lf1|]] eqn:Er; [|discriminate].
    injection T2 as -> <-.
    exists sb, [lf1]. cbn [target_of]. split.
    + destruct b; try exact Esb. exfalso. exact (leaf_build_not_complex s lf _ Eb _ _ eq_refl).
    + split; [|exact T3]. unfold resolve_target. rewrite Er.
      destruct sb; try reflexivity. exfalso. exact (simple_of_loader_not_complex b _ Esb _ _ eq_refl).
  - exists (Store.BComplex (S k') sbs), lfs'. cbn [target_of target_of_loader]. rewrite T1. cbn [option_map].
    assert (kind_nat (complex_kind (S k')) = S k') as Ekk by (destruct k' as [|[|[|?]]]; try reflexivity; lia).
    rewrite Ekk. split; [reflexivity|]. cbn [resolve_target]. rewrite T2. split; [reflexivity|exact T3].
Qed.

(* the data references of the row name the data of the annotation *)
Lemma data_reresolve s a ds : IdInv s -> SetsInv s -> ids_fit s -> data_names s a = Some ds ->
  Forall2 (fun dx sd => exists sr dst xr,
             set_ref_of_name (fst sd) = Some sr /\ ref_set s sr = Some (fst dx) /\ get_set s (fst dx) = Some dst
             /\ ref_of_name 100%N LETTER_D (snd sd) = Some xr /\ ref_data dst xr = Some (snd dx)) (a_data a) ds.
Proof.
  intros Hid Hsets (_ & _ & Fs). unfold data_names. generalize (a_data a). intro l. revert ds.
  induction l as [|dx l IH]; intros ds H.
  - injection H as <-. constructor.
  - cbn [map_opt] in H. destruct (get_set s (fst dx)) as [dst|] eqn:Ed; [|discriminate].
    destruct (slot (d_data dst) (snd dx)) as [it|] eqn:Ex; [|discriminate].
    destruct (map_opt _ l) as [ds'|] eqn:El; [|discriminate]. injection H as <-.
    constructor; [|apply IH; reflexivity]. cbn [fst snd].
    destruct (Fs (fst dx) dst Ed) as (G1 & _ & G3). destruct (set_ref_ok s (fst dx) dst Hid Ed G1) as [N1 N2].
    destruct (G3 (snd dx) it Ex) as [G4 G5].
    destruct (data_ref_ok dst (snd dx) it (Hsets (fst dx) dst Ed) Ex G4 G5) as (xr & N3 & N4).
    exists (ById (d_id dst)), dst, xr. repeat split; assumption.
Qed.

(** * for every reachable store *)

Definition refs_resolve (s : store) (a : ann) (ds : list (str * str)) : Prop :=
  Forall2 (fun dx sd => exists sr dst xr,
             set_ref_of_name (fst sd) = Some sr /\ ref_set s sr = Some (fst dx) /\ get_set s (fst dx) = Some dst
             /\ ref_of_name 100%N LETTER_D (snd sd) = Some xr /\ ref_data dst xr = Some (snd dx)) (a_data a) ds.

Theorem reachable_reresolve ops h a r : Forall op_ok ops ->
  store_ok (run ops) = true -> ids_fit (run ops) -> get_ann (run ops) h = Some a -> shape_ok a ->
  pack_row (run ops) h a = Some r ->
  exists bs ds tb lfs',
    csv_row_now r = Ok {| Loader.ab_id := opt (id_column h a); Loader.ab_data := ds;
                          Loader.ab_target := Some (target_of (a_kind a) bs) |}
    /\ target_of_loader (target_of (a_kind a) bs) = Some tb
    /\ resolve_target (run ops) tb = (run ops, Some (a_kind a, lfs'))
    /\ map (leaf_desc (run ops)) lfs' = map (leaf_desc (run ops)) (a_leaves a)
    /\ refs_resolve (run ops) a ds.
Proof.
  intros Hops Hok Hfit Ha Hshape Hr.
  pose proof (reachable_IdInv ops) as Hid. pose proof (reachable_SetsInv ops Hops) as Hsets.
  destruct (pack_row_decodes _ h a r Hok Ha Hr) as (bs & ds & Ebs & Eds & Erow).
  destruct (target_reresolve _ h a bs Hid Hsets Hok Hfit Ha Hshape Ebs) as (tb & lfs' & T1 & T2 & T3).
  exists bs, ds, tb, lfs'. repeat split; try assumption.
  apply (data_reresolve _ a ds Hid Hsets Hfit Eds).
Qed.
