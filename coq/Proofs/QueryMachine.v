(* C08 layer 3: the QueryIter state machine of Model/QuerySem.v (next / init_all_states /
   init_state / next_state / estimate_stacksize with the done flags and the query path) performs
   nested iteration: when every level opens without error and no OPTIONAL sub-query comes back
   empty, it returns the rows of plain nested iteration over the levels, in order; when in addition
   the levels deliver what [sem] says, it returns [sem].  Unbounded in the depth of the query, the
   size of the store and the number of rows. *)
From Coq Require Import List Arith Bool ZArith Lia.
Import ListNotations.
From Stam Require Import Base.Tac Base.ListAux Model.Offset Model.Store Model.DataValue Model.Limit
     Model.QuerySem Spec.QuerySpec Proofs.Limit Proofs.QuerySem.

Section Correct.
  Variable s : store.
  Variable root : query.
  Notation lvl := (level_q root).

  Definition lv (e : env) (q : query) : list item := level_impl s e (q_rt q) (q_cs q) (q_lim q).

  (** plain nested iteration over the levels as the evaluator opens them *)
  Fixpoint rows (e : env) (q : query) {struct q} : list (list item) :=
    match q with
    | Q n rt cs lim o sub =>
        flat_map (fun it => map (cons it) (match sub with
                                           | None => [[]]
                                           | Some sq => rows (e ++ [(n, it)]) sq
                                           end))
                 (level_impl s e rt cs lim)
    end.
  Definition rows_opt (e : env) (oq : option query) : list (list item) :=
    match oq with None => [[]] | Some q => rows e q end.
  Definition sub_rows (e : env) (q : query) (y : item) : list (list item) :=
    rows_opt (e ++ [(q_name q, y)]) (q_sub q).
  Lemma rows_eq e q : rows e q = flat_map (fun it => map (cons it) (sub_rows e q it)) (lv e q).
  Proof. destruct q as [n rt cs lim o [sq|]]; reflexivity. Qed.

  (** the number of items the iteration visits *)
  Fixpoint work (e : env) (q : query) {struct q} : nat :=
    match q with
    | Q n rt cs lim o sub =>
        list_sum (map (fun it => S (match sub with
                                    | None => 0
                                    | Some sq => work (e ++ [(n, it)]) sq
                                    end))
                      (level_impl s e rt cs lim))
    end.
  Definition work_opt (e : env) (oq : option query) : nat :=
    match oq with None => 0 | Some q => work e q end.
  Definition sub_work (e : env) (q : query) (y : item) : nat :=
    work_opt (e ++ [(q_name q, y)]) (q_sub q).
  Lemma work_eq e q : work e q = list_sum (map (fun it => S (sub_work e q it)) (lv e q)).
  Proof. destruct q as [n rt cs lim o [sq|]]; reflexivity. Qed.

  (** every level that is reached opens, and an OPTIONAL level that is reached has a candidate *)
  Fixpoint fine (e : env) (q : query) {struct q} : Prop :=
    match q with
    | Q n rt cs lim o sub =>
        scan_level s e rt true cs = LvOk
        /\ match sub with
           | None => True
           | Some sq =>
               forall it, In it (level_impl s e rt cs lim) ->
                          fine (e ++ [(n, it)]) sq
                          /\ (q_opt sq = true -> lv (e ++ [(n, it)]) sq <> [])
           end
    end.
  (* what [fine] says about the levels below the item y of level q *)
  Definition sub_ok (e : env) (q : query) (y : item) : Prop :=
    match q_sub q with
    | None => True
    | Some sq => fine (e ++ [(q_name q, y)]) sq /\ (q_opt sq = true -> lv (e ++ [(q_name q, y)]) sq <> [])
    end.
  Lemma fine_eq e q : fine e q <-> scan_level s e (q_rt q) true (q_cs q) = LvOk
                                   /\ forall it, In it (lv e q) -> sub_ok e q it.
  Proof.
    destruct q as [n rt cs lim o [sq|]]; cbn; unfold sub_ok, lv; cbn; split; intros [H1 H2]; split; auto.
  Qed.

  (** * The stack (innermost frame first): results, environment *)
  Fixpoint res_of (st : list frame) : list item :=
    match st with
    | [] => []
    | f :: below => res_of below ++ match f_res f with Some x => [x] | None => [] end
    end.
  Fixpoint envs (st : list frame) : env :=
    match st with
    | [] => []
    | f :: below => envs below ++ match lvl (length below), f_res f with
                                  | Some q, Some x => [(q_name q, x)]
                                  | _, _ => []
                                  end
    end.

  Lemma row_of_res st : row_of st = res_of st.
  Proof.
    unfold row_of. induction st as [|f st IH]; [reflexivity|].
    cbn [rev res_of]. rewrite flat_map_app, IH. cbn. rewrite app_nil_r. reflexivity.
  Qed.

  Lemma combine_snoc {X Y} (l : list X) (m : list Y) x y : length l = length m ->
    combine (l ++ [x]) (m ++ [y]) = combine l m ++ [(x, y)].
  Proof.
    revert m. induction l as [|a l IH]; intros [|b m] H; cbn in *; try discriminate; [reflexivity|].
    rewrite IH by lia. reflexivity.
  Qed.

  Lemma env_of_rev st : env_of root (rev st) = envs st.
  Proof.
    unfold env_of. induction st as [|f st IH]; [reflexivity|].
    cbn [rev envs]. rewrite app_length, Nat.add_1_r, seq_S, rev_length. cbn [plus].
    rewrite combine_snoc by (rewrite seq_length, rev_length; reflexivity).
    rewrite flat_map_app. rewrite rev_length in IH. rewrite IH. cbn. rewrite app_nil_r. reflexivity.
  Qed.

  Lemma level_q_S : forall k q0, level_q q0 (S k) = match level_q q0 k with Some q => q_sub q | None => None end.
  Proof.
    induction k as [|k IH]; intros q0.
    - cbn. destruct (q_sub q0); reflexivity.
    - change (level_q q0 (S (S k))) with (match q_sub q0 with Some sq => level_q sq (S k) | None => None end).
      change (level_q q0 (S k)) with (match q_sub q0 with Some sq => level_q sq k | None => None end).
      destruct (q_sub q0) as [sq|]; [apply IH|reflexivity].
  Qed.

  (** * The invariant of the stack between two steps *)
  Fixpoint good (st : list frame) : Prop :=
    match st with
    | [] => True
    | f :: below =>
        good below /\ f_done f = false
        /\ exists q x, lvl (length below) = Some q /\ f_res f = Some x
                       /\ sub_ok (envs below) q x
                       /\ forall y, In y (f_iter f) -> sub_ok (envs below) q y
    end.

  (* the rows still to come: those below the current results, then those of the remaining
     candidates of the frames, innermost first *)
  Definition below_rows (pre : list item) (e : env) (q : query) (y : item) : list (list item) :=
    map (fun suf => pre ++ y :: suf) (sub_rows e q y).
  Fixpoint adv (st : list frame) : list (list item) :=
    match st with
    | [] => []
    | f :: below =>
        match lvl (length below) with
        | Some q => flat_map (below_rows (res_of below) (envs below) q) (f_iter f)
        | None => []
        end ++ adv below
    end.
  Definition ext (st : list frame) : list (list item) :=
    match st with
    | [] => rows [] root
    | f :: below =>
        match lvl (length below), f_res f with
        | Some q, Some x => below_rows (res_of below) (envs below) q x
        | _, _ => []
        end
    end.
  Definition fut (st : list frame) : list (list item) := ext st ++ adv st.

  (* and the number of items still to visit *)
  Fixpoint advw (st : list frame) : nat :=
    match st with
    | [] => 0
    | f :: below =>
        match lvl (length below) with
        | Some q => list_sum (map (fun y => S (sub_work (envs below) q y)) (f_iter f))
        | None => 0
        end + advw below
    end.
  Definition extw (st : list frame) : nat :=
    match st with
    | [] => work [] root
    | f :: below =>
        match lvl (length below), f_res f with
        | Some q, Some x => sub_work (envs below) q x
        | _, _ => 0
        end
    end.
  Definition pot (st : list frame) : nat := extw st + advw st.

  (** next_state on a stack whose frames all have a result *)
  Lemma ns_good : forall st, good st -> forall m' r, next_state root st (length st) = (m', r) ->
    (r = SNew /\ good (m_stack m') /\ m_path m' = length (m_stack m') /\ m_stack m' <> []
     /\ fut (m_stack m') = adv st /\ S (pot (m_stack m')) = advw st)
    \/ (r = SAllDone /\ adv st = [] /\ advw st = 0).
  Proof.
    induction st as [|f below IH]; intros Hg m' r Hn.
    - cbn in Hn. inversion Hn; subst. right. auto.
    - destruct Hg as (Hb & Hd & q & x & Hq & Hx & Hsx & Hit).
      cbn [next_state length] in Hn. rewrite Hd, Hq in Hn.
      destruct (f_iter f) as [|y r0] eqn:Ei.
      + (* depleted *)
        assert (Hadv : adv (f :: below) = adv below) by (cbn [adv]; rewrite Hq, Ei; reflexivity).
        assert (Hadvw : advw (f :: below) = advw below) by (cbn [advw]; rewrite Hq, Ei; reflexivity).
        rewrite Hx in Hn. cbn [is_none] in Hn. rewrite andb_false_r in Hn.
        destruct (Nat.eqb (length below) 0) eqn:E0.
        * rewrite Hadv, Hadvw. apply (IH Hb _ _ Hn).
        * rewrite Hadv, Hadvw. apply (IH Hb _ _ Hn).
      + (* advance this frame *)
        inversion Hn; subst m' r. left. cbn [m_stack m_path].
        split; [reflexivity|]. split.
        { cbn [good f_done f_res f_iter]. split; [exact Hb|]. split; [reflexivity|].
          exists q, y. split; [exact Hq|]. split; [reflexivity|]. split.
          - apply Hit. left; reflexivity.
          - intros z Hz. apply Hit. right; exact Hz. }
        split; [reflexivity|]. split; [discriminate|]. split.
        * unfold fut. cbn [ext adv f_res f_iter length]. rewrite Hq, Ei. cbn [flat_map].
          rewrite !app_assoc. reflexivity.
        * unfold pot. cbn [extw advw f_res f_iter length]. rewrite Hq, Ei. cbn [map]. unfold list_sum. cbn [fold_right]. lia.
  Qed.

  Hypothesis Hroot : fine [] root.

  Lemma map_flat_map {A B C} (g : B -> C) (f : A -> list B) l :
    map g (flat_map f l) = flat_map (fun x => map g (f x)) l.
  Proof. induction l as [|a l IH]; cbn; [reflexivity|]. rewrite map_app, IH. reflexivity. Qed.

  Lemma lvl_next (f : frame) (below : list frame) q : lvl (length below) = Some q -> lvl (length (f :: below)) = q_sub q.
  Proof. intros H. cbn [length]. rewrite level_q_S, H. reflexivity. Qed.

  (* the level that is opened next: it is fine, and if OPTIONAL it has a candidate *)
  Lemma next_fine st q' : good st -> lvl (length st) = Some q' ->
    fine (envs st) q' /\ (st <> [] -> q_opt q' = true -> lv (envs st) q' <> []).
  Proof.
    destruct st as [|f below]; intros Hg Hq'.
    - cbn in Hq'. inversion Hq'; subst q'. split; [exact Hroot|]. intros H; contradiction.
    - destruct Hg as (_ & _ & q & x & Hq & Hx & Hsx & _).
      rewrite (lvl_next f below q Hq) in Hq'. unfold sub_ok in Hsx. rewrite Hq' in Hsx.
      cbn [envs]. rewrite Hq, Hx. destruct Hsx as [H1 H2]. split; [exact H1|]. intros _. exact H2.
  Qed.

  (* the rows below the current results are the rows of the next level *)
  Lemma ext_next st q' : good st -> lvl (length st) = Some q' ->
    ext st = map (fun suf => res_of st ++ suf) (rows (envs st) q') /\ extw st = work (envs st) q'.
  Proof.
    destruct st as [|f below]; intros Hg Hq'.
    - cbn in Hq'. inversion Hq'; subst q'. cbn. split; [|reflexivity].
      symmetry. rewrite <- (map_id (rows [] root)) at 2. apply map_ext. reflexivity.
    - destruct Hg as (_ & _ & q & x & Hq & Hx & _ & _).
      rewrite (lvl_next f below q Hq) in Hq'.
      cbn [ext extw envs res_of]. rewrite Hq, Hx. unfold below_rows, sub_rows, sub_work. rewrite Hq'. cbn [rows_opt work_opt].
      split; [|reflexivity]. apply map_ext. intros suf. rewrite <- app_assoc. reflexivity.
  Qed.

  Lemma ext_last (f : frame) (below : list frame) q : good (f :: below) -> lvl (length below) = Some q -> q_sub q = None ->
    ext (f :: below) = [res_of (f :: below)] /\ extw (f :: below) = 0.
  Proof.
    intros (_ & _ & q0 & x & Hq0 & Hx & _ & _) Hq Hs. rewrite Hq in Hq0. inversion Hq0; subst q0.
    cbn [ext extw res_of]. rewrite Hq, Hx. unfold below_rows, sub_rows, sub_work. rewrite Hs. cbn. auto.
  Qed.

  (** init_state: a level is opened below a stack whose frames all have a result *)
  Lemma open_spec st q' : good st -> lvl (length st) = Some q' ->
    forall m' r, init_state s root (mkm st (S (length st))) = (m', r) ->
    (r = SNew /\ good (m_stack m') /\ m_path m' = length (m_stack m') /\ m_stack m' <> []
     /\ fut (m_stack m') = fut st /\ S (pot (m_stack m')) = pot st)
    \/ (r = SAllDone /\ fut st = []).
  Proof.
    intros Hg Hq' m' r Hi.
    destruct (next_fine st q' Hg Hq') as [Hf Hopt].
    destruct (ext_next st q' Hg Hq') as [Hext Hextw].
    apply fine_eq in Hf. destruct Hf as [Hscan Hitems].
    unfold init_state in Hi. cbn [m_path m_stack] in Hi. rewrite Hq', env_of_rev, Hscan in Hi.
    fold (lv (envs st) q') in Hi.
    rewrite rows_eq in Hext. rewrite work_eq in Hextw.
    cbn [next_state f_done] in Hi. rewrite Hq' in Hi. cbn [f_iter f_res is_none] in Hi.
    destruct (lv (envs st) q') as [|y r0] eqn:EL.
    - (* the level is empty *)
      cbn in Hext, Hextw.
      destruct st as [|f below].
      + cbn in Hi. inversion Hi; subst. right. split; [reflexivity|]. unfold fut. rewrite Hext. reflexivity.
      + cbn [length Nat.eqb] in Hi. rewrite andb_true_r in Hi.
        destruct (q_opt q') eqn:Eo.
        * exfalso. apply Hopt; [discriminate|reflexivity|reflexivity].
        * destruct (ns_good _ Hg _ _ Hi) as [(-> & H1 & H2 & H3 & H4 & H5)|(-> & H1 & H2)].
          -- left. split; [reflexivity|]. split; [exact H1|]. split; [exact H2|]. split; [exact H3|].
             unfold fut, pot. rewrite Hext, Hextw. cbn. split; [exact H4|exact H5].
          -- right. split; [reflexivity|]. unfold fut. rewrite Hext, H1. reflexivity.
    - (* the first candidate becomes the result *)
      inversion Hi; subst m' r. left. cbn [m_stack m_path].
      split; [reflexivity|]. split.
      { cbn [good f_done f_res f_iter]. split; [exact Hg|]. split; [reflexivity|].
        exists q', y. split; [exact Hq'|]. split; [reflexivity|]. split.
        - apply Hitems. left; reflexivity.
        - intros z Hz. apply Hitems. right; exact Hz. }
      split; [reflexivity|]. split; [discriminate|]. split.
      + unfold fut. cbn [ext adv f_res f_iter]. rewrite Hq', Hext.
        rewrite map_flat_map. cbn [flat_map]. rewrite <- app_assoc. f_equal.
        * unfold below_rows. rewrite map_map. reflexivity.
        * f_equal. apply flat_map_ext. intros z. unfold below_rows. rewrite map_map. reflexivity.
      + unfold pot. cbn [extw advw f_res f_iter]. rewrite Hq', Hextw. cbn [map]. unfold list_sum. cbn [fold_right]. lia.
  Qed.

  (* the innermost level *)
  Definition full (st : list frame) : Prop :=
    exists f below q, st = f :: below /\ lvl (length below) = Some q /\ q_sub q = None.

  (** init_all_states: descends to the innermost level, stepping over empty levels *)
  Lemma init_all_spec : forall fuel st, good st -> pot st < fuel ->
    forall m' r, init_all s root fuel (mkm st (length st)) = (m', r) ->
    (r = SNew /\ good (m_stack m') /\ m_path m' = length (m_stack m') /\ full (m_stack m')
     /\ fut (m_stack m') = fut st /\ pot (m_stack m') <= pot st)
    \/ (r = SAllDone /\ fut st = []).
  Proof.
    induction fuel as [|fuel IH]; intros st Hg Hp m' r Hi; [lia|].
    cbn [init_all] in Hi. unfold estimate in Hi. cbn [m_path m_stack] in Hi.
    destruct st as [|f below].
    - (* nothing opened yet *)
      cbn [length Nat.ltb Nat.leb top_done] in Hi.
      destruct (init_state s root (mkm [] 1)) as [m2 r2] eqn:E2.
      destruct (open_spec [] root I eq_refl _ _ E2) as [(-> & H1 & H2 & H3 & H4 & H5)|(-> & H1)].
      + destruct m2 as [st2 p2]. cbn [m_stack m_path] in *. subst p2.
        assert (Hlt : pot st2 < fuel) by lia.
        destruct (IH st2 H1 Hlt _ _ Hi) as [(-> & G1 & G2 & G3 & G4 & G5)|(-> & G1)].
        * left. repeat (split; [assumption || reflexivity|]). split; [congruence|lia].
        * right. split; [reflexivity|congruence].
      + inversion Hi; subst. right. auto.
    - destruct Hg as (Hb & Hd & q & x & Hq & Hx & Hsx & Hit).
      assert (Hg : good (f :: below)) by (cbn [good]; eauto 10).
      cbn [length] in Hi. rewrite Hq in Hi.
      destruct (q_sub q) as [q'|] eqn:Es; cbn [is_none] in Hi.
      + (* a level below *)
        assert (Hlt : (S (length below) <? S (S (length below))) = true) by (apply Nat.ltb_lt; lia).
        rewrite Hlt in Hi. cbn [top_done] in Hi. rewrite Hd in Hi.
        assert (Hq' : lvl (length (f :: below)) = Some q') by (rewrite (lvl_next f below q Hq); exact Es).
        change (S (length below)) with (length (f :: below)) in Hi.
        destruct (init_state s root (mkm (f :: below) (S (length (f :: below))))) as [m2 r2] eqn:E2.
        destruct (open_spec _ q' Hg Hq' _ _ E2) as [(-> & H1 & H2 & H3 & H4 & H5)|(-> & H1)].
        * destruct m2 as [st2 p2]. cbn [m_stack m_path] in *. subst p2.
          assert (Hlt2 : pot st2 < fuel) by lia.
          destruct (IH st2 H1 Hlt2 _ _ Hi) as [(-> & G1 & G2 & G3 & G4 & G5)|(-> & G1)].
          -- left. repeat (split; [assumption || reflexivity|]). split; [congruence|lia].
          -- right. split; [reflexivity|congruence].
        * inversion Hi; subst. right. auto.
      + (* innermost level reached *)
        assert (Hlt : (S (length below) <? 1) = false) by (apply Nat.ltb_ge; lia).
        rewrite Hlt in Hi. inversion Hi; subst m' r. left. cbn [m_stack m_path].
        split; [reflexivity|]. split; [exact Hg|]. split; [reflexivity|]. split.
        * exists f, below, q. auto.
        * split; [reflexivity|lia].
  Qed.

  (** Iterator::next until it is exhausted *)
  Lemma iterate_spec : forall fuel st acc, good st -> pot st < fuel ->
    iterate s root fuel (mkm st (length st)) acc = Some (acc ++ fut st).
  Proof.
    induction fuel as [|fuel IH]; intros st acc Hg Hp; [lia|].
    cbn [iterate].
    destruct (init_all s root (S (S (S fuel))) (mkm st (length st))) as [m1 r1] eqn:E1.
    assert (Hp3 : pot st < S (S (S fuel))) by lia.
    destruct (init_all_spec _ st Hg Hp3 _ _ E1) as [(-> & H1 & H2 & H3 & H4 & H5)|(-> & H1)].
    - destruct m1 as [st1 p1]. cbn [m_stack m_path] in *. subst p1.
      destruct H3 as (f & below & q & -> & Hq & Hs).
      destruct (ext_last f below q H1 Hq Hs) as [Hext Hextw].
      destruct (next_state root (f :: below) (length (f :: below))) as [m2 r2] eqn:E2.
      rewrite row_of_res.
      destruct (ns_good _ H1 _ _ E2) as [(-> & G1 & G2 & G3 & G4 & G5)|(-> & G1 & G2)].
      + destruct m2 as [st2 p2]. cbn [m_stack m_path] in *. subst p2.
        assert (Hlt : pot st2 < fuel) by (unfold pot in H5 at 1; rewrite Hextw in H5; lia).
        rewrite (IH st2 _ G1 Hlt). f_equal. rewrite <- app_assoc. f_equal.
        rewrite <- H4. unfold fut at 2. rewrite Hext, G4. reflexivity.
      + f_equal. f_equal. rewrite <- H4. unfold fut. rewrite Hext, G1. reflexivity.
    - rewrite H1, app_nil_r. reflexivity.
  Qed.

  (** the machine returns the rows of nested iteration over its levels *)
  Theorem machine_rows : forall fuel, work [] root < fuel ->
    iterate s root fuel (mkm [] 0) [] = Some (rows [] root).
  Proof.
    intros fuel Hf. assert (Hp : pot [] < fuel) by (cbn; lia).
    pose proof (iterate_spec fuel [] [] I Hp) as H. cbn in H. rewrite app_nil_r in H. exact H.
  Qed.
End Correct.

(** * From the rows of the machine to [sem] *)
Section ToSem.
  Variable s : store.

  (* every level that is reached opens without error and delivers the level of [sem]; an OPTIONAL
     sub-query that is reached has a row *)
  Fixpoint clean (e : env) (q : query) {struct q} : Prop :=
    match q with
    | Q n rt cs lim o sub =>
        scan_level s e rt true cs = LvOk
        /\ level_impl s e rt cs lim = level s e rt cs lim
        /\ match sub with
           | None => True
           | Some sq =>
               forall it, In it (level s e rt cs lim) ->
                          clean (e ++ [(n, it)]) sq
                          /\ (q_opt sq = true -> sem s (e ++ [(n, it)]) sq <> [])
           end
    end.

  Lemma flat_map_ext_in {X Y} (f g : X -> list Y) l :
    (forall x, In x l -> f x = g x) -> flat_map f l = flat_map g l.
  Proof.
    induction l as [|a l IH]; intros H; cbn; [reflexivity|].
    rewrite (H a) by (left; reflexivity). rewrite IH; [reflexivity|].
    intros x Hx. apply H. right; exact Hx.
  Qed.

  Lemma flat_map_single {X Y} (f : X -> Y) l : flat_map (fun x => [f x]) l = map f l.
  Proof. induction l as [|a l IH]; cbn; [reflexivity|]. rewrite IH. reflexivity. Qed.

  Lemma clean_rows : forall q e, clean e q -> rows s e q = sem s e q.
  Proof.
    induction q as [n rt cs lim o|n rt cs lim o sq IH] using query_ind'; intros e (_ & Hl & Hsub).
    - cbn [rows sem]. rewrite Hl. cbn [map]. apply flat_map_single.
    - cbn [rows sem]. rewrite Hl. apply flat_map_ext_in. intros it Hit.
      destruct (Hsub it Hit) as [Hc Ho]. rewrite (IH _ Hc).
      destruct (q_opt sq) eqn:Eo; cbn [andb]; [|reflexivity].
      destruct (sem s (e ++ [(n, it)]) sq) eqn:Es; [exfalso; apply Ho; reflexivity|reflexivity].
  Qed.

  Lemma sem_nil s0 e q : level s0 e (q_rt q) (q_cs q) (q_lim q) = [] -> sem s0 e q = [].
  Proof. destruct q as [n rt cs lim o [sq|]]; cbn; intros ->; reflexivity. Qed.

  Lemma clean_fine : forall q e, clean e q -> fine s e q.
  Proof.
    induction q as [n rt cs lim o|n rt cs lim o sq IH] using query_ind'; intros e (Hs & Hl & Hsub).
    - cbn. auto.
    - cbn [fine]. split; [exact Hs|]. rewrite Hl. intros it Hit.
      destruct (Hsub it Hit) as [Hc Ho]. split; [apply IH, Hc|].
      intros Hopt Hnil. apply (Ho Hopt). apply sem_nil.
      destruct sq as [n' rt' cs' lim' o' sub']. cbn [q_rt q_cs q_lim]. destruct Hc as (_ & Hl' & _).
      unfold lv in Hnil. cbn [q_rt q_cs q_lim] in Hnil. rewrite <- Hl'. exact Hnil.
  Qed.

  (** the budget of [run_machine] suffices *)
  Lemma filter_length {X} (p : X -> bool) l : length (filter p l) <= length l.
  Proof. induction l as [|a l IH]; cbn; [lia|]. destruct (p a); cbn; lia. Qed.

  Lemma level_length e rt cs lim : length (level s e rt cs lim) <= length (universe s rt).
  Proof.
    unfold level, apply_limit. destruct lim as [[bg en]|].
    - rewrite limit_is_slice. unfold slice_spec. rewrite firstn_length, skipn_length.
      pose proof (filter_length (all_sat s e cs) (universe s rt)). lia.
    - apply filter_length.
  Qed.

  Lemma level_bound_gt rt : length (universe s rt) < level_bound s rt.
  Proof. destruct rt; cbn [level_bound]; lia. Qed.

  Lemma row_bound_pos : forall q, 1 <= row_bound s q.
  Proof.
    induction q as [n rt cs lim o|n rt cs lim o sq IH] using query_ind'; cbn [row_bound].
    - pose proof (level_bound_gt rt). lia.
    - pose proof (level_bound_gt rt). nia.
  Qed.

  Lemma list_sum_bound {X} (f : X -> nat) b l : (forall x, In x l -> f x <= b) -> list_sum (map f l) <= length l * b.
  Proof.
    induction l as [|a l IH]; intros H; [cbn; lia|].
    pose proof (H a (or_introl eq_refl)) as Ha.
    assert (Hl : list_sum (map f l) <= length l * b) by (apply IH; intros x Hx; apply H; right; exact Hx).
    cbn [map length Nat.mul]. unfold list_sum in *. cbn [fold_right]. lia.
  Qed.

  Lemma work_bound : forall q e, clean e q -> work s e q < row_bound s q.
  Proof.
    induction q as [n rt cs lim o|n rt cs lim o sq IH] using query_ind'; intros e (_ & Hl & Hsub);
      cbn [work row_bound]; rewrite Hl; pose proof (level_length e rt cs lim) as Hlen; pose proof (level_bound_gt rt) as Hlb.
    - assert (H : list_sum (map (fun _ : item => 1) (level s e rt cs lim)) <= length (level s e rt cs lim) * 1)
        by (apply list_sum_bound; intros; lia).
      lia.
    - pose proof (row_bound_pos sq) as Hpos.
      assert (H : list_sum (map (fun it => S (work s (e ++ [(n, it)]) sq)) (level s e rt cs lim))
                  <= length (level s e rt cs lim) * row_bound s sq).
      { apply list_sum_bound. intros it Hit. destruct (Hsub it Hit) as [Hc _]. pose proof (IH _ Hc). lia. }
      nia.
  Qed.

  (** The state machine of QueryIter returns [sem] on every query whose levels open without error,
      deliver what the constraints mean, and whose OPTIONAL sub-queries never come back empty. *)
  Theorem machine_sem q : clean [] q -> run_machine s q = Some (sem s [] q).
  Proof.
    intros Hc. unfold run_machine. rewrite (machine_rows s q (clean_fine q [] Hc)).
    - rewrite (clean_rows q [] Hc). reflexivity.
    - pose proof (work_bound q [] Hc). lia.
  Qed.
End ToSem.

(** * The condition of [machine_sem], decidable *)
Section Decide.
  Variable s : store.

  Definition lvres_ok (r : levelres) : bool := match r with LvOk => true | _ => false end.

  Fixpoint cleanb (e : env) (q : query) {struct q} : bool :=
    match q with
    | Q n rt cs lim o sub =>
        lvres_ok (scan_level s e rt true cs)
        && list_eqb item_eqb (level_impl s e rt cs lim) (level s e rt cs lim)
        && match sub with
           | None => true
           | Some sq =>
               forallb (fun it => cleanb (e ++ [(n, it)]) sq
                                  && (negb (q_opt sq) || negb (is_nil (sem s (e ++ [(n, it)]) sq))))
                       (level s e rt cs lim)
           end
    end.

  Lemma list_eqb_items l l' : list_eqb item_eqb l l' = true -> l = l'.
  Proof.
    revert l'. induction l as [|a l IH]; intros [|b l']; cbn; try discriminate; [reflexivity|].
    rewrite andb_true_iff. intros [H1 H2]. apply item_eqb_eq in H1. subst. f_equal. apply IH, H2.
  Qed.

  Lemma cleanb_clean : forall q e, cleanb e q = true -> clean s e q.
  Proof.
    induction q as [n rt cs lim o|n rt cs lim o sq IH] using query_ind'; intros e H; cbn [cleanb] in H;
      rewrite !andb_true_iff in H; destruct H as [[H1 H2] H3]; cbn [clean].
    - split; [destruct (scan_level s e rt true cs); try discriminate; reflexivity|].
      split; [apply list_eqb_items, H2|exact I].
    - split; [destruct (scan_level s e rt true cs); try discriminate; reflexivity|].
      split; [apply list_eqb_items, H2|].
      intros it Hit. rewrite forallb_forall in H3. specialize (H3 it Hit).
      rewrite andb_true_iff in H3. destruct H3 as [H4 H5]. split; [apply IH, H4|].
      intros Ho. rewrite Ho in H5. cbn in H5. intros Hnil. rewrite Hnil in H5. discriminate.
  Qed.

  Theorem machine_sem_dec q : cleanb [] q = true -> run_machine s q = Some (sem s [] q).
  Proof. intros H. apply machine_sem, cleanb_clean, H. Qed.
End Decide.

(** * A syntactic sufficient condition: plain constraint lists
   A constraint is plain for a result type and a role when the evaluator model gives it the
   meaning of [csat] in that role and, as first constraint, delivers its candidates in store
   order: no UNION, and none of the (type, form, role) combinations of the known classes
   (routes through AnnotationSelectors, special sources, TEXT literal written first, RELATION as a
   filter of TEXT queries). *)
Definition kind_of (it : item) : rtype :=
  match it with
  | IAnn _ => TAnn | IData _ _ => TData | IKey _ _ => TKey
  | IRes _ => TRes | ISet _ => TSet | IText _ _ _ => TText
  end.

Definition plain_c (rt : rtype) (primary : bool) (c : cst) : bool :=
  match c with
  | CUnion _ => false
  | CRes _ _ => match rt with TAnn => primary | TText => negb primary | _ => true end
  | CText _ _ => match rt with TAnn | TText => negb primary | _ => true end
  | CAnn _ m => match rt with
                | TAnn => negb primary || m
                | TData => negb m && negb primary
                | TKey => negb m
                | TText => negb primary
                | _ => true
                end
  | CKey _ _ _ | CKeyVal _ _ _ _ | CDataVar _ _ | CKeyVar _ _ =>
      match rt with TRes => negb primary | _ => true end
  | CRel _ _ => match rt with TText => false | _ => true end
  | CTextVar _ => match rt with TText => negb primary | _ => true end
  | _ => true
  end.

Definition plain_l (rt : rtype) (cs : list cst) : bool :=
  match cs with
  | [] => true
  | c :: r => plain_c rt true c && forallb (plain_c rt false) r
  end.

Section Plain.
  Variable s : store.

  Lemma universe_kind rt it : In it (universe s rt) -> kind_of it = rt.
  Proof.
    destruct rt; cbn [universe]; intros H.
    - apply in_map_iff in H. destruct H as (h & <- & _). reflexivity.
    - apply in_flat_map in H. destruct H as (d & _ & H). destruct (get_set s d); [|contradiction].
      apply in_map_iff in H. destruct H as (h & <- & _). reflexivity.
    - apply in_flat_map in H. destruct H as (d & _ & H). destruct (get_set s d); [|contradiction].
      apply in_map_iff in H. destruct H as (h & <- & _). reflexivity.
    - apply in_map_iff in H. destruct H as (h & <- & _). reflexivity.
    - apply in_map_iff in H. destruct H as (h & <- & _). reflexivity.
    - apply in_map_iff in H. destruct H as (h & <- & _). reflexivity.
  Qed.

  Lemma plain_sat e rt primary c it : plain_c rt primary c = true -> kind_of it = rt ->
    csat_impl s e primary c it = csat s e c it.
  Proof.
    intros H Hk. destruct it; cbn in Hk; subst rt; destruct c; cbn in H; try discriminate;
      try reflexivity;
      repeat match goal with
             | b : bool |- _ => destruct b; cbn in H; try discriminate; try reflexivity
             end.
  Qed.

  Lemma plain_src e rt c : plain_c rt true c = true ->
    src s e rt c = filter (fun it => csat_impl s e true c it) (universe s rt).
  Proof.
    intros H. destruct rt, c; cbn in H; try discriminate; try reflexivity;
      repeat match goal with
             | b : bool |- _ => destruct b; cbn in H; try discriminate; try reflexivity
             end.
  Qed.

  Theorem plain_level e rt cs lim : plain_l rt cs = true ->
    level_impl s e rt cs lim = level s e rt cs lim.
  Proof.
    intros H. unfold level_impl, level. f_equal. destruct cs as [|c r].
    - cbn. induction (universe s rt) as [|a l IH]; cbn; [reflexivity|]. f_equal. exact IH.
    - cbn [plain_l] in H. apply andb_true_iff in H. destruct H as [Hc Hr].
      rewrite (plain_src e rt c Hc), filter_filter.
      apply filter_ext_in. intros it Hit. pose proof (universe_kind rt it Hit) as Hk.
      unfold all_sat. cbn [forallb]. rewrite (plain_sat e rt true c it Hc Hk). f_equal.
      rewrite forallb_forall in Hr.
      induction r as [|c' r IH]; cbn [forallb]; [reflexivity|].
      rewrite (plain_sat e rt false c' it (Hr c' (or_introl eq_refl)) Hk). f_equal.
      apply IH. intros x Hx. apply Hr. right; exact Hx.
  Qed.

  (* plain at every level, every reached level opens, no reached OPTIONAL sub-query without rows *)
  Fixpoint guard (e : env) (q : query) {struct q} : bool :=
    match q with
    | Q n rt cs lim o sub =>
        lvres_ok (scan_level s e rt true cs) && plain_l rt cs
        && match sub with
           | None => true
           | Some sq =>
               forallb (fun it => guard (e ++ [(n, it)]) sq
                                  && (negb (q_opt sq) || negb (is_nil (sem s (e ++ [(n, it)]) sq))))
                       (level s e rt cs lim)
           end
    end.

  Lemma guard_clean : forall q e, guard e q = true -> clean s e q.
  Proof.
    induction q as [n rt cs lim o|n rt cs lim o sq IH] using query_ind'; intros e H; cbn [guard] in H;
      rewrite !andb_true_iff in H; destruct H as [[H1 H2] H3]; cbn [clean].
    - split; [destruct (scan_level s e rt true cs); try discriminate; reflexivity|].
      split; [apply plain_level, H2|exact I].
    - split; [destruct (scan_level s e rt true cs); try discriminate; reflexivity|].
      split; [apply plain_level, H2|].
      intros it Hit. rewrite forallb_forall in H3. specialize (H3 it Hit).
      rewrite andb_true_iff in H3. destruct H3 as [H4 H5]. split; [apply IH, H4|].
      intros Ho. rewrite Ho in H5. cbn in H5. intros Hnil. rewrite Hnil in H5. discriminate.
  Qed.

  (** on plain queries whose levels open and whose OPTIONAL sub-queries have rows, the evaluator
      model returns [sem] *)
  Theorem machine_sem_plain q : guard [] q = true -> run_machine s q = Some (sem s [] q).
  Proof. intros H. apply machine_sem, guard_clean, H. Qed.
End Plain.
