(* A lookup by string through temporary-id resolution and the id map equals the documented
   meaning (scan of the live items), for every string. *)
From Coq Require Import NArith.
From Stam Require Import Base.Tac Base.ListAux Model.Offset Model.Store Model.StoreObs Model.TempId
     Spec.StoreSpec Spec.IdSpec Proofs.RelMap Proofs.StoreScan Proofs.StoreItems Proofs.StoreIds Proofs.TempId.

Lemma parse_digits_horner s : forall acc,
  parse_digits acc s = if forallb is_digit s then Some (fold_left (fun a c => (a * 10 + (c - 48))%N) s acc) else None.
Proof.
  induction s as [|c s IH]; intros acc; cbn [parse_digits forallb fold_left]; [reflexivity|].
  destruct (is_digit c); cbn [andb]; [apply IH|reflexivity].
Qed.

Lemma parse_usize_numeral rest :
  parse_usize rest = match numeral_value rest with
                     | Some n => if (n <? 18446744073709551616)%N then Some n else None
                     | None => None
                     end.
Proof.
  unfold parse_usize, numeral_value.
  set (body := match rest with 43%N :: r => r | _ => rest end).
  destruct body as [|c b]; [reflexivity|]. rewrite parse_digits_horner.
  destruct (forallb is_digit (c :: b)); reflexivity.
Qed.

(* a string that reads as a temporary id is not an ordinary identifier of the harness *)
Lemma plain_token_not_numeral k c rest n : numeral_value rest = Some n -> plain_token k (33%N :: c :: rest) = None.
Proof.
  intros Hn. unfold plain_token.
  assert (G : (if N.eqb 33 (idletter k) then
                 match canonical_token (c :: rest) with Some n0 => if bang_named n0 then None else Some n0 | None => None end
               else None) = None).
  { destruct (N.eqb_spec 33%N (idletter k)) as [E|]; [|reflexivity]. destruct k; cbn [idletter] in E; discriminate. }
  destruct rest as [|c2 r']; [exact G|].
  destruct (N.eqb_spec c2 120) as [->|Hne].
  - unfold numeral_value in Hn. cbn in Hn. discriminate.
  - destruct c2 as [|p]; [exact G|]. do 7 (destruct p as [p|p|]; try exact G). contradiction.
Qed.

Theorem lookup_str_spec {X} (k : kind) (l : list (option X)) (idof : X -> option nat) (m : idmap) (s : list N) :
  exact idof l m -> (N.of_nat (length l) <= width k)%N ->
  (match lookup_str k l m s with Some h => [h] | None => [] end) = spec_lookup_str k l idof s.
Proof.
  intros E Hlen. unfold lookup_str, spec_lookup_str.
  assert (Hplain : forall tokopt, (match (match tokopt with Some tok => resolve_ref l m (ById (N.to_nat tok)) | None => None end) with Some h => [h] | None => [] end)
                   = match tokopt with Some tok => s_resolve l idof (N.to_nat tok) | None => [] end).
  { intros [tok|]; [|reflexivity]. rewrite <- (exact_resolve idof l m (N.to_nat tok) E). unfold m_resolve.
    destruct (resolve_ref l m (ById (N.to_nat tok))); reflexivity. }
  destruct s as [|c0 s']; [cbn [temp_resolve]; apply Hplain|].
  destruct s' as [|c rest]; [cbn [temp_resolve]; apply Hplain|].
  unfold temp_resolve.
  destruct (N.eqb_spec c0 33) as [E0|N0]; cbn [andb]; [|apply Hplain].
  subst c0. destruct (N.eqb c (letter k)); [|apply Hplain].
  rewrite parse_usize_numeral. destruct (numeral_value rest) as [n|] eqn:Hnum; [|apply Hplain].
  destruct (n <? 18446744073709551616)%N eqn:E64.
  - destruct (n <? width k)%N eqn:Ew.
    + unfold exists_slot. destruct (N.ltb n (N.of_nat (length l))); [|reflexivity].
      destruct (slot l (N.to_nat n)); reflexivity.
    + apply N.ltb_ge in Ew. assert (Hn : N.ltb n (N.of_nat (length l)) = false) by (apply N.ltb_ge; lia).
      rewrite Hn, (plain_token_not_numeral k c rest n Hnum). reflexivity.
  - apply N.ltb_ge in E64. assert (Hn : N.ltb n (N.of_nat (length l)) = false).
    { apply N.ltb_ge. destruct k; cbn [width] in Hlen; lia. }
    rewrite Hn, (plain_token_not_numeral k c rest n Hnum). reflexivity.
Qed.

Theorem lookup_str_plain_spec {X} (k : kind) (l : list (option X)) (idof : X -> option nat) (m : idmap) (s : list N) :
  exact idof l m ->
  (match lookup_str_plain k l m s with Some h => [h] | None => [] end) = spec_lookup_plain k l idof s.
Proof.
  intros E. unfold lookup_str_plain, spec_lookup_plain. destruct (plain_token k s) as [tok|]; [|reflexivity].
  rewrite <- (exact_resolve idof l m (N.to_nat tok) E). unfold m_resolve.
  destruct (resolve_ref l m (ById (N.to_nat tok))); reflexivity.
Qed.
