(* Algebra of the relation maps and id maps of Model/Store.v. *)
From Stam Require Import Base.Tac Base.ListAux Model.Offset Model.Store.

(** * rows *)

Lemma last_in {X} (l : list X) d : l <> [] -> In (last l d) l.
Proof.
  induction l as [|x l IH]; intros H; [contradiction|].
  destruct l as [|y l]; [left; reflexivity|]. right. apply IH. discriminate.
Qed.

Lemma S_neqb y : (S y =? y) = false.
Proof. apply Nat.eqb_neq. lia. Qed.

Lemma push_new_spec row y :
  push_new row y = if last row (S y) =? y then row else row ++ [y].
Proof.
  induction row as [|z row IH]; [cbn [last push_new app]; rewrite S_neqb; reflexivity|].
  destruct row as [|z' row].
  - cbn. destruct (z =? y); reflexivity.
  - change (push_new (z :: z' :: row) y) with (z :: push_new (z' :: row) y).
    rewrite IH. change (last (z :: z' :: row) (S y)) with (last (z' :: row) (S y)).
    destruct (last (z' :: row) (S y) =? y); reflexivity.
Qed.

(* all entries are smaller than y: a genuine push *)
Lemma push_new_fresh row y : Forall (fun z => z < y) row -> push_new row y = row ++ [y].
Proof.
  intros H. rewrite push_new_spec.
  destruct row as [|z row]; [cbn [last app]; rewrite S_neqb; reflexivity|].
  assert (Hl : last (z :: row) (S y) < y).
  { rewrite Forall_forall in H. apply H. apply last_in. discriminate. }
  destruct (last (z :: row) (S y) =? y) eqn:E; [lia|reflexivity].
Qed.

(* y is already the last entry: nothing happens *)
Lemma push_new_again row y : push_new (row ++ [y]) y = row ++ [y].
Proof. rewrite push_new_spec, last_last, Nat.eqb_refl. reflexivity. Qed.

Lemma remove_first_notin y l : ~ In y l -> remove_first y l = l.
Proof.
  induction l as [|z l IH]; intros H; cbn [remove_first]; [reflexivity|].
  destruct (z =? y) eqn:E; [exfalso; apply H; left; lia|].
  f_equal. apply IH. intros Hi. apply H. right; exact Hi.
Qed.

Lemma filter_neq_notin y l : ~ In y l -> filter (fun z => negb (z =? y)) l = l.
Proof.
  induction l as [|w l IH]; intros H; cbn [filter]; [reflexivity|].
  destruct (w =? y) eqn:E; [exfalso; apply H; left; lia|].
  cbn [negb]. f_equal. apply IH. intros Hi. apply H. right; exact Hi.
Qed.

Lemma remove_first_filter y l : NoDup l -> remove_first y l = filter (fun z => negb (z =? y)) l.
Proof.
  induction l as [|z l IH]; intros H; cbn [remove_first filter]; [reflexivity|].
  inversion H as [|? ? Hz Hl]; subst.
  destruct (z =? y) eqn:E; cbn [negb].
  - assert (z = y) by lia. subst z. symmetry. apply filter_neq_notin. exact Hz.
  - f_equal. apply IH. exact Hl.
Qed.

(** * RelationMap *)

Lemma rget_nil x : rget [] x = [].
Proof. unfold rget. destruct x; reflexivity. Qed.

Lemma nth_nil_nil {X} (x : nat) : nth x (@nil (list X)) [] = [].
Proof. destruct x; reflexivity. Qed.

Lemma rget_rins_nil : forall x y x',
  rget (rins [] x y) x' = if x' =? x then [y] else [].
Proof.
  unfold rget. induction x as [|x IHx]; intros y x'; cbn [rins].
  - destruct x' as [|x']; cbn [nth Nat.eqb]; [reflexivity|apply nth_nil_nil].
  - destruct x' as [|x']; cbn [nth Nat.eqb]; [reflexivity|apply IHx].
Qed.

Lemma rget_rins m : forall x y x',
  rget (rins m x y) x' = if x' =? x then push_new (rget m x) y else rget m x'.
Proof.
  induction m as [|row m IH]; intros x y x'.
  - rewrite rget_rins_nil, !rget_nil. reflexivity.
  - unfold rget in *. destruct x as [|x]; destruct x' as [|x']; cbn [rins nth Nat.eqb]; try reflexivity.
    apply IH.
Qed.

Lemma rget_rupd m f : f [] = [] -> forall x x',
  rget (rupd m x f) x' = if x' =? x then f (rget m x) else rget m x'.
Proof.
  intros Hf. induction m as [|row m IH]; intros x x'.
  - cbn [rupd]. rewrite !rget_nil, Hf. destruct (x' =? x); reflexivity.
  - unfold rget in *. destruct x as [|x]; destruct x' as [|x']; cbn [rupd nth Nat.eqb]; try reflexivity.
    apply IH.
Qed.

Lemma rget_rrem m x y x' :
  rget (rrem m x y) x' = if x' =? x then remove_first y (rget m x) else rget m x'.
Proof. unfold rrem. apply rget_rupd. reflexivity. Qed.

Lemma rget_rclear m x x' : rget (rclear m x) x' = if x' =? x then [] else rget m x'.
Proof. unfold rclear. apply (rget_rupd m (fun _ => [])). reflexivity. Qed.

(** * TripleRelationMap *)

Lemma tget_nil x y : tget [] x y = [].
Proof. unfold tget. destruct x; cbn [nth]; apply rget_nil. Qed.

Lemma nth_tins_nil : forall x y z x',
  nth x' (tins [] x y z) [] = if x' =? x then rins [] y z else [].
Proof.
  induction x as [|x IHx]; intros y z x'; cbn [tins].
  - destruct x' as [|x']; cbn [nth Nat.eqb]; [reflexivity|apply nth_nil_nil].
  - destruct x' as [|x']; cbn [nth Nat.eqb]; [reflexivity|apply IHx].
Qed.

Lemma nth_tins m : forall x y z x',
  nth x' (tins m x y z) [] = if x' =? x then rins (nth x m []) y z else nth x' m [].
Proof.
  induction m as [|row m IH]; intros x y z x'.
  - rewrite nth_tins_nil. destruct x; destruct x'; reflexivity.
  - destruct x as [|x]; destruct x' as [|x']; cbn [tins nth Nat.eqb]; try reflexivity.
    apply IH.
Qed.

Lemma tget_tins m x y z x' y' :
  tget (tins m x y z) x' y' =
  if (x' =? x) && (y' =? y) then push_new (tget m x y) z else tget m x' y'.
Proof.
  unfold tget. rewrite nth_tins. destruct (x' =? x) eqn:Ex; cbn [andb]; [|reflexivity].
  assert (x' = x) by lia. subst x'. rewrite rget_rins. reflexivity.
Qed.

Lemma nth_tupd m f : f [] = [] -> forall x x',
  nth x' (tupd m x f) [] = if x' =? x then f (nth x m []) else nth x' m [].
Proof.
  intros Hf. induction m as [|row m IH]; intros x x'.
  - cbn [tupd]. destruct x; destruct x'; cbn [nth]; rewrite ?Hf; try reflexivity; destruct (_ =? _); reflexivity.
  - destruct x as [|x]; destruct x' as [|x']; cbn [tupd nth Nat.eqb]; try reflexivity.
    apply IH.
Qed.

Lemma tget_trem m x y z x' y' :
  tget (trem m x y z) x' y' =
  if (x' =? x) && (y' =? y) then remove_first z (tget m x y) else tget m x' y'.
Proof.
  unfold tget, trem. rewrite (nth_tupd m (fun r => rrem r y z)) by reflexivity.
  destruct (x' =? x) eqn:Ex; cbn [andb]; [|reflexivity].
  assert (x' = x) by lia. subst x'. rewrite rget_rrem. reflexivity.
Qed.

Lemma tget_tclear m x x' y' : tget (tclear m x) x' y' = if x' =? x then [] else tget m x' y'.
Proof.
  unfold tget, tclear. rewrite (nth_tupd m (fun _ => [])) by reflexivity.
  destruct (x' =? x); [apply rget_nil|reflexivity].
Qed.

Lemma tget_tclear2 m x y x' y' :
  tget (tclear2 m x y) x' y' = if (x' =? x) && (y' =? y) then [] else tget m x' y'.
Proof.
  unfold tget, tclear2. rewrite (nth_tupd m (fun r => rclear r y)) by reflexivity.
  destruct (x' =? x) eqn:Ex; cbn [andb]; [|reflexivity].
  assert (x' = x) by lia. subst x'. rewrite rget_rclear. reflexivity.
Qed.

(** * id maps *)

Lemma id_get_del m k k' : id_get (id_del m k) k' = if k' =? k then None else id_get m k'.
Proof.
  unfold id_del. induction m as [|[a h] m IH]; cbn [filter id_get fst]; [destruct (k' =? k); reflexivity|].
  destruct (a =? k) eqn:E; cbn [negb].
  - rewrite IH. destruct (k' =? k) eqn:E2; [reflexivity|].
    destruct (a =? k') eqn:E3; [lia|reflexivity].
  - cbn [id_get]. rewrite IH. destruct (a =? k') eqn:E3; [|reflexivity].
    destruct (k' =? k) eqn:E2; [lia|reflexivity].
Qed.

Lemma id_get_put m k h k' : id_get (id_put m k h) k' = if k' =? k then Some h else id_get m k'.
Proof.
  unfold id_put. cbn [id_get]. rewrite id_get_del.
  destruct (k =? k') eqn:E; destruct (k' =? k) eqn:E2; try reflexivity; lia.
Qed.

(** * slots *)

Lemma slot_app_new {X} (l : list (option X)) v h :
  slot (l ++ [v]) h = if h =? length l then v else slot l h.
Proof.
  unfold slot. destruct (h =? length l) eqn:E.
  - assert (h = length l) by lia. subst h. rewrite app_nth2 by lia. rewrite Nat.sub_diag. reflexivity.
  - destruct (lt_dec h (length l)) as [Hl|Hl].
    + apply app_nth1. exact Hl.
    + rewrite app_nth2 by lia. rewrite (nth_overflow l) by lia.
      destruct (h - length l) as [|n] eqn:En; [lia|]. destruct n; reflexivity.
Qed.

Lemma slot_set_slot {X} (l : list (option X)) : forall h v h',
  slot (set_slot l h v) h' = if (h' =? h) && (h <? length l) then v else slot l h'.
Proof.
  induction l as [|x l IH]; intros h v h'.
  - cbn [set_slot length]. rewrite andb_false_r. reflexivity.
  - destruct h as [|h]; destruct h' as [|h']; cbn [set_slot]; unfold slot; cbn [nth Nat.eqb length andb]; try reflexivity.
    change (nth h' (set_slot l h v) None) with (slot (set_slot l h v) h').
    rewrite IH. reflexivity.
Qed.

Lemma length_set_slot {X} (l : list (option X)) : forall h v, length (set_slot l h v) = length l.
Proof.
  induction l as [|x l IH]; intros h v; [reflexivity|].
  destruct h; cbn [set_slot length]; [reflexivity|]. rewrite IH. reflexivity.
Qed.
