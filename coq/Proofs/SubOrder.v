(* The comparator of subselectors() is a total preorder on every mix of selector kinds: it is the
   lexicographic order of leaf_sortkey.  (The pinned code had arms that contradicted each other -
   fix f7d544a; sort_unstable_by may panic or misorder on an inconsistent comparator.) *)
From Coq Require Import List Arith Bool Lia.
Import ListNotations.
From Stam Require Import Base.Tac Model.Offset Model.Store Model.Compress Model.SubOrder.

Lemma compare_refl n : Nat.compare n n = Eq.
Proof. apply Nat.compare_refl. Qed.

Lemma compare_lt_small a b : a < b -> Nat.compare a b = Lt.
Proof. intros H. apply Nat.compare_lt_iff. exact H. Qed.

Lemma compare_gt_big a b : b < a -> Nat.compare a b = Gt.
Proof. intros H. apply Nat.compare_gt_iff. exact H. Qed.

Theorem leaf_cmp_key s a b : leaf_cmp s a b = lex4 (leaf_sortkey s a) (leaf_sortkey s b).
Proof.
  destruct a as [r t m|x|x r t m|r|d|d k|d y]; destruct b as [r2 t2 m2|x2|x2 r2 t2 m2|r2|d2|d2 k2|d2 y2];
    cbn [leaf_cmp leaf_sortkey]; unfold text_cmp, lex4;
    repeat match goal with |- context [sel_range ?s ?r ?t] => destruct (sel_range s r t) end;
    cbn [fst snd Nat.compare cmp_then]; try reflexivity;
    try (rewrite !compare_refl; cbn [cmp_then]; reflexivity).
  all: try (destruct (Nat.eqb r r2) eqn:E; [apply Nat.eqb_eq in E; subst; rewrite compare_refl; reflexivity|
            destruct (Nat.compare r r2) eqn:C; cbn [cmp_then]; try reflexivity; apply Nat.compare_eq in C; apply Nat.eqb_neq in E; contradiction]).
  all: repeat match goal with |- context [Nat.compare ?a ?b] => destruct (Nat.compare a b) end; reflexivity.
Qed.

(* the lexicographic order on keys is a total order *)
Lemma cmp_then_opp c d : CompOpp (cmp_then c d) = cmp_then (CompOpp c) (CompOpp d).
Proof. destruct c; reflexivity. Qed.

Lemma lex4_antisym x y : lex4 y x = CompOpp (lex4 x y).
Proof.
  unfold lex4. rewrite !cmp_then_opp, <- !Nat.compare_antisym. reflexivity.
Qed.

Lemma lex4_spec x y :
  match lex4 x y with
  | Eq => x = y
  | Lt => fst x < fst y \/ (fst x = fst y /\ (fst (snd x) < fst (snd y) \/ (fst (snd x) = fst (snd y)
            /\ (fst (snd (snd x)) < fst (snd (snd y)) \/ (fst (snd (snd x)) = fst (snd (snd y)) /\ snd (snd (snd x)) < snd (snd (snd y)))))))
  | Gt => fst y < fst x \/ (fst x = fst y /\ (fst (snd y) < fst (snd x) \/ (fst (snd x) = fst (snd y)
            /\ (fst (snd (snd y)) < fst (snd (snd x)) \/ (fst (snd (snd x)) = fst (snd (snd y)) /\ snd (snd (snd y)) < snd (snd (snd x)))))))
  end.
Proof.
  destruct x as [a [b [c d]]], y as [a' [b' [c' d']]]. unfold lex4. cbn [fst snd].
  destruct (Nat.compare_spec a a'); cbn [cmp_then]; [|lia|lia].
  destruct (Nat.compare_spec b b'); cbn [cmp_then]; [|lia|lia].
  destruct (Nat.compare_spec c c'); cbn [cmp_then]; [|lia|lia].
  destruct (Nat.compare_spec d d'); [subst; reflexivity|lia|lia].
Qed.

Lemma lex4_trans x y z : lex4 x y <> Gt -> lex4 y z <> Gt -> lex4 x z <> Gt.
Proof.
  pose proof (lex4_spec x y) as A. pose proof (lex4_spec y z) as B. pose proof (lex4_spec x z) as C.
  destruct x as [a [b [c d]]], y as [a' [b' [c' d']]], z as [a'' [b'' [c'' d'']]]. cbn [fst snd] in *.
  destruct (lex4 (a, (b, (c, d))) (a', (b', (c', d')))), (lex4 (a', (b', (c', d'))) (a'', (b'', (c'', d'')))),
    (lex4 (a, (b, (c, d))) (a'', (b'', (c'', d'')))); intros H1 H2 H3; try congruence;
    try (injection A as -> -> -> ->); try (injection B as -> -> -> ->); lia.
Qed.

(* the comparator: antisymmetric, transitive, total; Equal exactly on equal keys *)
Theorem leaf_cmp_antisym s a b : leaf_cmp s b a = CompOpp (leaf_cmp s a b).
Proof. rewrite !leaf_cmp_key. apply lex4_antisym. Qed.

Theorem leaf_cmp_trans s a b c : leaf_cmp s a b <> Gt -> leaf_cmp s b c <> Gt -> leaf_cmp s a c <> Gt.
Proof. rewrite !leaf_cmp_key. apply lex4_trans. Qed.

Theorem leaf_cmp_eq s a b : leaf_cmp s a b = Eq <-> leaf_sortkey s a = leaf_sortkey s b.
Proof.
  rewrite leaf_cmp_key. pose proof (lex4_spec (leaf_sortkey s a) (leaf_sortkey s b)) as H. split.
  - intros E. rewrite E in H. exact H.
  - intros E. rewrite E. clear. destruct (leaf_sortkey s b) as [p [q [u v]]]. unfold lex4. cbn [fst snd]. rewrite !compare_refl. reflexivity.
Qed.
