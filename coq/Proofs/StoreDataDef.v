(* "every data reference of a live annotation names an existing data item" *)
From Stam Require Import Base.Tac Base.ListAux Model.Offset Model.Store.

Definition data_exists (s : store) (dx : nat * nat) : Prop :=
  exists ds it, get_set s (fst dx) = Some ds /\ slot (d_data ds) (snd dx) = Some it.

Definition data_ok (s : store) : Prop :=
  forall h a, get_ann s h = Some a -> forall dx, In dx (a_data a) -> data_exists s dx.

(* existing data stays *)
Definition sets_grow (s s' : store) : Prop := forall dx, data_exists s dx -> data_exists s' dx.

Lemma sets_grow_refl s : sets_grow s s. Proof. intros dx H; exact H. Qed.
Lemma sets_grow_trans s1 s2 s3 : sets_grow s1 s2 -> sets_grow s2 s3 -> sets_grow s1 s3.
Proof. intros A B dx H. apply B, A, H. Qed.
Lemma sets_grow_same s s' : sets s' = sets s -> sets_grow s s'.
Proof. intros E dx (ds & it & H1 & H2). exists ds, it. unfold get_set in *. rewrite E. tauto. Qed.

Lemma data_ok_grow s s' : anns s' = anns s -> sets_grow s s' -> data_ok s -> data_ok s'.
Proof.
  intros E G H h a Ha dx Hdx. apply G. apply (H h a); [unfold get_ann in *; rewrite <- E; exact Ha|exact Hdx].
Qed.


(* the resource / dataset / key / data a leaf selector names exists *)
Definition item_ref_ok (s : store) (lf : leaf) : Prop :=
  match lf with
  | LText r t _ | LAnnText _ r t _ => exists rs, get_res s r = Some rs /\ t < length (r_sels rs)
  | LRes r => get_res s r <> None
  | LSet d => get_set s d <> None
  | LKey d k => exists ds, get_set s d = Some ds /\ slot (d_keys ds) k <> None
  | LData d x => exists ds, get_set s d = Some ds /\ slot (d_data ds) x <> None
  | LAnn _ => True
  end.

Definition item_refs_ok (s : store) : Prop :=
  forall y a, get_ann s y = Some a -> forall lf, In lf (a_leaves a) -> item_ref_ok s lf.

(* items only appear, text selections, keys and data are only added *)
Definition items_grow (s s' : store) : Prop :=
  (forall r rs, get_res s r = Some rs -> exists rs', get_res s' r = Some rs' /\ length (r_sels rs) <= length (r_sels rs'))
  /\ (forall d ds, get_set s d = Some ds -> exists ds', get_set s' d = Some ds'
        /\ (forall k, slot (d_keys ds) k <> None -> slot (d_keys ds') k <> None)
        /\ (forall x, slot (d_data ds) x <> None -> slot (d_data ds') x <> None)).

Lemma items_grow_refl s : items_grow s s.
Proof. split; [intros r rs H; exists rs; split; [exact H|lia]|intros d ds H; exists ds; split; [exact H|split; tauto]]. Qed.

Lemma items_grow_trans s1 s2 s3 : items_grow s1 s2 -> items_grow s2 s3 -> items_grow s1 s3.
Proof.
  intros (A1 & A2) (B1 & B2). split.
  - intros r rs H. destruct (A1 r rs H) as (rs2 & H2 & L2). destruct (B1 r rs2 H2) as (rs3 & H3 & L3). exists rs3. split; [exact H3|lia].
  - intros d ds H. destruct (A2 d ds H) as (ds2 & H2 & K2 & X2). destruct (B2 d ds2 H2) as (ds3 & H3 & K3 & X3).
    exists ds3. split; [exact H3|]. split; [intros k Hk; apply K3, K2, Hk|intros x Hx; apply X3, X2, Hx].
Qed.

Lemma item_ref_ok_grow s s' lf : items_grow s s' -> item_ref_ok s lf -> item_ref_ok s' lf.
Proof.
  intros (G1 & G2) H. destruct lf; cbn [item_ref_ok] in *; try exact I.
  - destruct H as (rs & H1 & H2). destruct (G1 r rs H1) as (rs' & H1' & L). exists rs'. split; [exact H1'|lia].
  - destruct H as (rs & H1 & H2). destruct (G1 r rs H1) as (rs' & H1' & L). exists rs'. split; [exact H1'|lia].
  - destruct (get_res s r) as [rs|] eqn:E; [|congruence]. destruct (G1 r rs E) as (rs' & H1' & _). congruence.
  - destruct (get_set s d) as [ds|] eqn:E; [|congruence]. destruct (G2 d ds E) as (ds' & H1' & _). congruence.
  - destruct H as (ds & H1 & H2). destruct (G2 d ds H1) as (ds' & H1' & K & _). exists ds'. split; [exact H1'|apply K; exact H2].
  - destruct H as (ds & H1 & H2). destruct (G2 d ds H1) as (ds' & H1' & _ & X). exists ds'. split; [exact H1'|apply X; exact H2].
Qed.

Lemma item_refs_grow s s' : anns s' = anns s -> items_grow s s' -> item_refs_ok s -> item_refs_ok s'.
Proof.
  intros E G H y a Hy lf Hlf. apply (item_ref_ok_grow s s' lf G). apply (H y a); [unfold get_ann in *; rewrite <- E; exact Hy|exact Hlf].
Qed.
