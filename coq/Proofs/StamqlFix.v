(* Print-then-parse, bottom-up: the tokens the printers emit (quoted strings,
   raw tokens, integers, cursors) are read back by the lexer as exactly the
   value printed, and the printed form of a data operator is parsed back to
   the same operator. *)
From Coq Require Import List ZArith NArith Bool Arith Lia.
Import ListNotations.
From Stam Require Import Model.StamqlLex Model.Stamql Spec.StamqlSpec Proofs.StamqlLex.
Local Open Scope stamql_scope.

(* ---------- quoted strings ---------- *)
Lemma get_arg_loop_inquote : forall dt s esc all_rev q_rev rest,
  bad_quote_aux esc s = false ->
  get_arg_loop dt true esc all_rev q_rev (s ++ c_dquote :: rest)
  = Ok (rev q_rev ++ s, trim_start rest, get_arg_type dt (rev q_rev ++ s) true).
Proof.
  induction s as [|c s IH]; intros esc all_rev q_rev rest H; cbn [app get_arg_loop].
  - cbn in H. subst esc. rewrite N.eqb_refl. cbn. rewrite app_nil_r. reflexivity.
  - cbn [bad_quote_aux] in H.
    destruct ((c =? c_dquote)%N && negb esc) eqn:E; [discriminate|].
    cbn [negb andb]. rewrite IH by exact H. cbn [rev]. rewrite <- app_assoc. reflexivity.
Qed.

(* a string without an unescaped quote and without a final backslash, printed between
   quotes, is read back by get_arg as itself, classified as a quoted argument *)
Theorem get_arg_quoted : forall dt s rest,
  bad_quote s = false ->
  get_arg dt (quoted s ++ rest) = Ok (s, trim_start rest, get_arg_type dt s true).
Proof.
  intros dt s rest H. unfold get_arg, quoted. cbn [app get_arg_loop].
  rewrite N.eqb_refl. cbn [negb andb]. rewrite <- app_assoc. cbn [app].
  rewrite get_arg_loop_inquote by exact H. reflexivity.
Qed.

(* ---------- raw tokens ---------- *)

Lemma is_term_not_quote : forall c, is_term c = true -> (c =? c_dquote)%N = false.
Proof.
  intros c H. destruct (c =? c_dquote)%N eqn:E; auto. apply N.eqb_eq in E. subst. discriminate.
Qed.

Lemma starts_with_OR_space : forall c s, starts_with K__OR_ (c :: s) = true -> c = c_space.
Proof.
  intros c s H. unfold K__OR_ in H. cbn [starts_with] in H.
  apply andb_true_iff in H as [H _]. apply N.eqb_eq in H. auto.
Qed.

Lemma get_arg_loop_raw : forall dt t esc all_rev q_rev c rest,
  tok_ok t = true -> is_term c = true ->
  get_arg_loop dt false esc all_rev q_rev (t ++ c :: rest)
  = Ok (rev all_rev ++ t, trim_start (c :: rest), get_arg_type dt (rev all_rev ++ t) false).
Proof.
  induction t as [|x t IH]; intros esc all_rev q_rev c rest Ht Hc; cbn [app get_arg_loop].
  - rewrite (is_term_not_quote c Hc). cbn [andb negb]. rewrite app_nil_r.
    destruct (starts_with K__OR_ (c :: rest)) eqn:EO.
    + apply starts_with_OR_space in EO. subst c. reflexivity.
    + rewrite Hc. reflexivity.
  - cbn in Ht. apply andb_true_iff in Ht as [Hx Ht]. unfold tok_char in Hx.
    apply andb_true_iff in Hx as [Hx1 Hx2]. apply negb_true_iff in Hx1, Hx2.
    rewrite Hx2. cbn [andb negb].
    destruct (starts_with K__OR_ (x :: t ++ c :: rest)) eqn:EO.
    + apply starts_with_OR_space in EO. subst x. discriminate.
    + rewrite Hx1. rewrite IH by assumption. cbn [rev]. rewrite <- app_assoc. reflexivity.
Qed.

(* a token without separators and quotes, followed by a separator, is read back as itself *)
Theorem get_arg_raw : forall dt t c rest,
  tok_ok t = true -> is_term c = true ->
  get_arg dt (t ++ c :: rest) = Ok (t, trim_start (c :: rest), get_arg_type dt t false).
Proof. intros. unfold get_arg. rewrite get_arg_loop_raw by assumption. reflexivity. Qed.

(* ---------- integers ---------- *)
Definition digit_of (z : Z) : N := (Z.to_N z + 48)%N.

Lemma digit_of_is_digit : forall z, (0 <= z < 10)%Z -> is_digit (digit_of z) = true.
Proof.
  intros z H. unfold is_digit, digit_of. apply andb_true_iff. split; apply N.leb_le; lia.
Qed.

Lemma digit_of_val : forall z, (0 <= z < 10)%Z -> Z.of_N (digit_of z - 48) = z.
Proof. intros z H. unfold digit_of. lia. Qed.

Lemma digits_step : forall f z acc,
  digits_of_pos_fuel (S f) z acc
  = if (z <? 10)%Z then digit_of z :: acc else digits_of_pos_fuel f (z / 10)%Z (digit_of (z mod 10) :: acc).
Proof. reflexivity. Qed.

Lemma digits_of_pos_fuel_spec : forall fuel z acc,
  (0 <= z < 10 ^ Z.of_nat (S fuel))%Z ->
  exists d, digits_of_pos_fuel (S fuel) z acc = d ++ acc
            /\ d <> [] /\ forallb is_digit d = true
            /\ forall a rest, digits_val a (d ++ rest) = digits_val (a * 10 ^ Z.of_nat (length d) + z)%Z rest.
Proof.
  induction fuel as [|fuel IH]; intros z acc Hz.
  - exists [digit_of z]. change (10 ^ Z.of_nat 1)%Z with 10%Z in Hz.
    rewrite digits_step. replace (z <? 10)%Z with true by (symmetry; apply Z.ltb_lt; lia).
    split; [reflexivity|]. split; [discriminate|]. split; [cbn; rewrite digit_of_is_digit; auto|].
    intros a rest. cbn [app digits_val length]. rewrite digit_of_is_digit by lia.
    rewrite digit_of_val by lia. change (10 ^ Z.of_nat 1)%Z with 10%Z. reflexivity.
  - rewrite digits_step. destruct (z <? 10)%Z eqn:E.
    + apply Z.ltb_lt in E. exists [digit_of z].
      split; [reflexivity|]. split; [discriminate|]. split; [cbn; rewrite digit_of_is_digit; auto; lia|].
      intros a rest. cbn [app digits_val length]. rewrite digit_of_is_digit by lia.
      rewrite digit_of_val by lia. change (10 ^ Z.of_nat 1)%Z with 10%Z. reflexivity.
    + apply Z.ltb_ge in E.
      assert (Hq : (0 <= z / 10 < 10 ^ Z.of_nat (S fuel))%Z).
      { split; [apply Z.div_pos; lia|]. apply Z.div_lt_upper_bound; [lia|].
        replace (Z.of_nat (S (S fuel))) with (Z.of_nat (S fuel) + 1)%Z in Hz by lia.
        rewrite Z.pow_add_r in Hz by lia. lia. }
      destruct (IH (z / 10)%Z (digit_of (z mod 10) :: acc) Hq) as (d & Hd & Hne & Hdig & Hval).
      exists (d ++ [digit_of (z mod 10)]).
      pose proof (Z.mod_pos_bound z 10 ltac:(lia)) as Hm.
      split; [rewrite Hd, <- app_assoc; reflexivity|].
      split; [destruct d; discriminate|].
      split; [rewrite forallb_app, Hdig; cbn; rewrite digit_of_is_digit; auto|].
      intros a rest. rewrite <- app_assoc. cbn [app]. rewrite Hval. cbn [digits_val].
      rewrite digit_of_is_digit by lia. rewrite digit_of_val by lia.
      f_equal. rewrite app_length. cbn [length].
      replace (Z.of_nat (length d + 1)) with (Z.of_nat (length d) + 1)%Z by lia.
      rewrite Z.pow_add_r by lia. pose proof (Z.div_mod z 10 ltac:(lia)). lia.
Qed.

Definition small (z : Z) : Prop := (0 <= z < 10 ^ 80)%Z.

Lemma print_nat_Z_spec : forall z, small z ->
  exists d, print_nat_Z z = d /\ d <> [] /\ forallb is_digit d = true
            /\ forall a rest, digits_val a (d ++ rest) = digits_val (a * 10 ^ Z.of_nat (length d) + z)%Z rest.
Proof.
  intros z Hz. unfold print_nat_Z.
  destruct (digits_of_pos_fuel_spec 79 z [] Hz) as (d & Hd & H).
  exists d. rewrite Hd, app_nil_r. split; auto.
Qed.

Lemma digits_nonempty_print : forall z, small z -> digits_nonempty (print_nat_Z z) = Some z.
Proof.
  intros z Hz. destruct (print_nat_Z_spec z Hz) as (d & -> & Hne & _ & Hval).
  unfold digits_nonempty. destruct d as [|x d]; [congruence|].
  specialize (Hval 0%Z []). rewrite app_nil_r in Hval. rewrite Hval. cbn [digits_val]. f_equal; try lia.
Qed.

Lemma is_digit_not_sign : forall c, is_digit c = true -> (c =? c_minus)%N = false /\ (c =? c_plus)%N = false.
Proof.
  intros c H. unfold is_digit in H. apply andb_true_iff in H as [H1 H2]. apply N.leb_le in H1, H2.
  split; apply N.eqb_neq; unfold c_minus, c_plus; lia.
Qed.

Lemma print_nat_Z_head : forall z, small z ->
  exists x d, print_nat_Z z = x :: d /\ is_digit x = true /\ forallb is_digit d = true.
Proof.
  intros z Hz. destruct (print_nat_Z_spec z Hz) as (d & -> & Hne & Hdig & _).
  destruct d as [|x d]; [congruence|]. cbn in Hdig. apply andb_true_iff in Hdig as [H1 H2]. eauto.
Qed.

Definition in_isize (z : Z) : Prop := (isize_min <= z <= isize_max)%Z.

Lemma isize_small : forall z, in_isize z -> small (Z.abs z).
Proof. intros z [H1 H2]. unfold small, isize_min, isize_max in *. split; [lia|].
  assert (Z.abs z < 10 ^ 19)%Z by (change (10 ^ 19)%Z with 10000000000000000000%Z; lia).
  assert (10 ^ 19 <= 10 ^ 80)%Z by (apply Z.pow_le_mono_r; lia). lia.
Qed.

(* isize printed by Display and read by str::parse::<isize>() *)
Theorem parse_isize_print : forall z, in_isize z -> parse_isize (print_Z z) = Some z.
Proof.
  intros z Hz. pose proof (isize_small z Hz) as Hs. unfold print_Z.
  destruct (z <? 0)%Z eqn:E.
  - apply Z.ltb_lt in E. replace (- z)%Z with (Z.abs z) by lia.
    unfold parse_isize. rewrite N.eqb_refl. rewrite digits_nonempty_print by exact Hs.
    replace (- Z.abs z)%Z with z by lia.
    destruct Hz as [H1 H2]. apply Z.leb_le in H1, H2. rewrite H1, H2. reflexivity.
  - apply Z.ltb_ge in E. replace z with (Z.abs z) at 1 by lia.
    destruct (print_nat_Z_head _ Hs) as (x & d & Hp & Hx & Hd).
    pose proof (digits_nonempty_print _ Hs) as Hv. rewrite Hp in *.
    unfold parse_isize. destruct (is_digit_not_sign x Hx) as [-> ->]. rewrite Hv.
    replace (Z.abs z) with z by lia.
    destruct Hz as [H1 H2]. apply Z.leb_le in H1, H2. rewrite H1, H2. reflexivity.
Qed.

(* the characters of a printed integer: digits and a leading '-' *)
Lemma is_digit_tok : forall c, is_digit c = true -> tok_char c = true.
Proof.
  intros c H. unfold is_digit in H. apply andb_true_iff in H as [H1 H2]. apply N.leb_le in H1, H2.
  unfold tok_char, is_term, c_semicolon, c_space, c_rbracket, c_nl, c_tab, c_dquote.
  repeat match goal with |- context [(c =? ?k)%N] => replace (c =? k)%N with false by (symmetry; apply N.eqb_neq; lia) end.
  reflexivity.
Qed.

Lemma digits_tok : forall d, forallb is_digit d = true -> tok_ok d = true.
Proof.
  induction d as [|x d IH]; cbn; auto. intros H. apply andb_true_iff in H as [H1 H2].
  rewrite (is_digit_tok x H1). cbn. apply IH. exact H2.
Qed.

Lemma print_Z_tok : forall z, in_isize z -> tok_ok (print_Z z) = true.
Proof.
  intros z Hz. pose proof (isize_small z Hz) as Hs. unfold print_Z.
  destruct (z <? 0)%Z eqn:E.
  - apply Z.ltb_lt in E. replace (- z)%Z with (Z.abs z) by lia.
    destruct (print_nat_Z_spec _ Hs) as (d & -> & _ & Hd & _). cbn. apply digits_tok. exact Hd.
  - apply Z.ltb_ge in E. replace z with (Z.abs z) by lia.
    destruct (print_nat_Z_spec _ Hs) as (d & -> & _ & Hd & _). apply digits_tok. exact Hd.
Qed.

(* the lexer classifies a printed integer as an integer *)
Lemma gat_loop_digits : forall d prevc,
  forallb is_digit d = true -> gat_loop false true false prevc d = (None, true, false).
Proof.
  induction d as [|x d IH]; intros prevc H; cbn [gat_loop]; auto.
  cbn in H. apply andb_true_iff in H as [Hx Hd].
  assert (x =? c_pipe = false)%N as ->.
  { unfold is_digit in Hx. apply andb_true_iff in Hx as [H1 H2]. apply N.leb_le in H1, H2.
    apply N.eqb_neq. unfold c_pipe. lia. }
  cbn [andb]. rewrite Hx. cbn [negb].
  assert (x =? c_period = false)%N as ->.
  { unfold is_digit in Hx. apply andb_true_iff in Hx as [H1 H2]. apply N.leb_le in H1, H2.
    apply N.eqb_neq. unfold c_period. lia. }
  cbn [andb]. apply IH. exact Hd.
Qed.

Theorem get_arg_type_print_Z : forall dt z, in_isize z -> get_arg_type dt (print_Z z) false = TInteger.
Proof.
  intros dt z Hz. pose proof (isize_small z Hz) as Hs. unfold print_Z.
  destruct (z <? 0)%Z eqn:E.
  - apply Z.ltb_lt in E. replace (- z)%Z with (Z.abs z) by lia.
    destruct (print_nat_Z_spec _ Hs) as (d & -> & _ & Hd & _).
    unfold get_arg_type. cbn [negb]. cbn [gat_loop]. cbn. rewrite gat_loop_digits by exact Hd. reflexivity.
  - apply Z.ltb_ge in E. replace z with (Z.abs z) by lia.
    destruct (print_nat_Z_head _ Hs) as (x & d & -> & Hx & Hd).
    unfold get_arg_type. cbn [negb]. rewrite gat_loop_digits by (cbn; rewrite Hx, Hd; reflexivity). reflexivity.
Qed.

(* ---------- cursors ---------- *)
Definition cursor_valid (c : cursor) : Prop :=
  match c with
  | CB n => (0 <= n <= usize_max)%Z
  | CE z => (isize_min <= z <= 0)%Z
  end.

Lemma usize_small : forall n, (0 <= n <= usize_max)%Z -> small n.
Proof.
  intros n [H1 H2]. unfold small, usize_max in *. split; [lia|].
  assert (n < 10 ^ 20)%Z by (change (10 ^ 20)%Z with 100000000000000000000%Z; lia).
  assert (10 ^ 20 <= 10 ^ 80)%Z by (apply Z.pow_le_mono_r; lia). lia.
Qed.

Theorem cursor_of_str_print : forall c, cursor_valid c -> cursor_of_str (print_cursor c) = Some c.
Proof.
  intros [n | z] H; cbn [cursor_valid] in H.
  - pose proof (usize_small n H) as Hs. cbn [print_cursor]. unfold print_Z.
    replace (n <? 0)%Z with false by (symmetry; apply Z.ltb_ge; lia).
    destruct (print_nat_Z_head _ Hs) as (x & d & Hp & Hx & Hd).
    pose proof (digits_nonempty_print _ Hs) as Hv. rewrite Hp in *.
    unfold cursor_of_str. destruct (is_digit_not_sign x Hx) as [Hm Hpl].
    cbn [starts_with]. rewrite N.eqb_sym, Hm. cbn [andb].
    unfold parse_usize. rewrite Hpl, Hv.
    destruct H as [_ H]. apply Z.leb_le in H. rewrite H. reflexivity.
  - destruct (Z.eq_dec z 0) as [-> | Hz].
    + reflexivity.
    + assert (Hi : in_isize z) by (unfold in_isize, isize_max; lia).
      assert (Hp : print_cursor (CE z) = print_Z z) by (destruct z; try reflexivity; congruence).
      rewrite Hp. unfold cursor_of_str.
      assert (Hs : starts_with [c_minus] (print_Z z) = true).
      { unfold print_Z. replace (z <? 0)%Z with true by (symmetry; apply Z.ltb_lt; lia). cbn. reflexivity. }
      rewrite Hs, parse_isize_print by exact Hi.
      replace (0 <? z)%Z with false by (symmetry; apply Z.ltb_ge; lia). reflexivity.
Qed.

Lemma print_cursor_tok : forall c, cursor_valid c -> tok_ok (print_cursor c) = true.
Proof.
  intros [n | z] H; cbn [cursor_valid] in H.
  - pose proof (usize_small n H) as Hs. cbn [print_cursor]. unfold print_Z.
    replace (n <? 0)%Z with false by (symmetry; apply Z.ltb_ge; lia).
    destruct (print_nat_Z_spec _ Hs) as (d & -> & _ & Hd & _). apply digits_tok. exact Hd.
  - destruct (Z.eq_dec z 0) as [-> | Hz]; [reflexivity|].
    assert (Hp : print_cursor (CE z) = print_Z z) by (destruct z; try reflexivity; congruence).
    rewrite Hp. apply print_Z_tok. unfold in_isize, isize_max. lia.
Qed.

Lemma is_digit_nows : forall c, is_digit c = true -> is_ws c = false.
Proof.
  intros c H. unfold is_digit in H. apply andb_true_iff in H as [H1 H2]. apply N.leb_le in H1, H2.
  unfold is_ws.
  repeat match goal with
         | |- context [(c =? ?k)%N] => replace (c =? k)%N with false by (symmetry; apply N.eqb_neq; lia)
         | |- context [(c <=? ?k)%N] => replace (c <=? k)%N with false by (symmetry; apply N.leb_gt; lia)
         | |- context [(?k <=? c)%N] => first [ replace (k <=? c)%N with false by (symmetry; apply N.leb_gt; lia)
                                             | replace (k <=? c)%N with true by (symmetry; apply N.leb_le; lia) ]
         end.
  reflexivity.
Qed.

Lemma print_Z_head_nows : forall z, in_isize z -> exists x v, print_Z z = x :: v /\ is_ws x = false.
Proof.
  intros z Hz. pose proof (isize_small z Hz) as Hs. unfold print_Z.
  destruct (z <? 0)%Z eqn:E.
  - eexists; eexists; split; reflexivity.
  - apply Z.ltb_ge in E. replace z with (Z.abs z) by lia.
    destruct (print_nat_Z_head _ Hs) as (x & d & -> & Hx & _).
    exists x, d. split; auto. apply is_digit_nows. exact Hx.
Qed.

(* ---------- data operators ---------- *)
Section DataOp.
  Variable dt : str -> option str.

  (* what the datetime oracle must satisfy for a printed datetime to be read back: its canonical
     text is a token, is classified as a datetime and is its own canonical form *)
  Definition dt_canonical (d : str) : Prop :=
    tok_ok d = true /\ get_arg_type dt d false = TDatetime /\ dt d = Some d
    /\ exists x v, d = x :: v /\ is_ws x = false.

  Definition leaf_ok (l : leaf) : Prop :=
    match l with
    | LStr s => bad_quote s = false /\ get_arg_type dt s true = TString
    | LInt z => in_isize z
    | LFlt _ => False
    end.

  Definition base_ok (b : base) : Prop :=
    match b with
    | BNull | BAny | BTrue | BFalse => True
    | BLeaf l => leaf_ok l
    | BCmp _ z => in_isize z
    | BCmpF _ _ => False
    | BDt _ d => dt_canonical d
    | BOr _ => False
    end.

  Definition op_ok (o : dataop) : Prop :=
    match o with
    | Pos b => base_ok b
    | Neg b => base_ok b /\ match b with BLeaf _ | BAny | BNull | BTrue | BFalse => True | _ => False end
    end.

  (* what Constraint::parse does with "<operator> <value>" *)
  Definition read_op (s : str) : outcome (dataop * str) :=
    do (opstr, r1, _) <- get_arg dt s;
    do (value, r2, vt) <- get_arg dt r1;
    do op <- parse_dataoperator dt opstr value vt;
    Ok (op, r2).

  Lemma trim_start_semi : forall r, trim_start (c_semicolon :: r) = c_semicolon :: r.
  Proof. reflexivity. Qed.

  Lemma trim_start_sp_nows : forall x v, is_ws x = false -> trim_start (c_space :: x :: v) = x :: v.
  Proof. intros x v H. cbn [trim_start]. change (is_ws c_space) with true. cbv iota. rewrite H. reflexivity. Qed.

  (* the operator keyword, a space, then the value text whose first character is not white space *)
  Lemma read_op_split : forall opstr x vtext,
    tok_ok opstr = true -> is_ws x = false ->
    read_op (opstr ++ c_space :: x :: vtext)
    = do (value, r2, vt) <- get_arg dt (x :: vtext);
      do op <- parse_dataoperator dt opstr value vt; Ok (op, r2).
  Proof.
    intros opstr x vtext Ho Hx. unfold read_op.
    rewrite get_arg_raw by (auto; reflexivity). cbn [bind].
    rewrite trim_start_sp_nows by exact Hx. reflexivity.
  Qed.

  Definition opstr_of (o : dataop) : str :=
    match o with
    | Pos (BCmp c _) => match c with Gt => K_GT | Ge => K_GE | Lt => K_LT | Le => K_LE end
    | Pos (BDt c _) => match c with DtEq => K_EQ | DtGt => K_GT | DtGe => K_GE | DtLt => K_LT | DtLe => K_LE end
    | Pos _ => K_EQ
    | Neg _ => K_NE
    end.

  Definition value_text (b : base) : str :=
    match b with
    | BNull => K_null | BAny => K_any | BTrue => K_true | BFalse => K_false
    | BLeaf (LStr s) => quoted s
    | BLeaf (LInt z) => print_Z z
    | BLeaf (LFlt f) => print_flt f
    | BCmp _ z => print_Z z
    | BCmpF _ f => print_flt f
    | BDt _ d => d
    | BOr _ => []
    end.

  Lemma print_dataop_shape : forall o t, op_ok o -> print_dataop o = Some t ->
    t = opstr_of o ++ c_space :: value_text (op_base o).
  Proof.
    intros [b | b] t Hok H; cbn [op_ok] in Hok.
    - destruct b as [| | | |[s|z|f]|c z|c f|c d|l]; cbn in H; inversion H; subst; try reflexivity;
        try contradiction; try (destruct c; reflexivity).
    - destruct Hok as [Hb Hs].
      destruct b as [| | | |[s|z|f]|c z|c f|c d|l]; cbn in H; inversion H; subst; try reflexivity;
        try contradiction.
  Qed.

  Lemma tok_ok_ops : tok_ok K_EQ = true /\ tok_ok K_NE = true /\ tok_ok K_GT = true
    /\ tok_ok K_GE = true /\ tok_ok K_LT = true /\ tok_ok K_LE = true.
  Proof. repeat split; reflexivity. Qed.

  Lemma tok_ok_opstr : forall o, tok_ok (opstr_of o) = true.
  Proof. intros [b|b]; [destruct b as [| | | |l|c z|c f|c d|l]; try destruct c|]; reflexivity. Qed.

  (* reading the value text back *)
  Lemma read_value : forall b rest, base_ok b ->
    exists v vt, get_arg dt (value_text b ++ c_semicolon :: rest) = Ok (v, c_semicolon :: rest, vt)
      /\ eq_base dt v vt = Ok (match b with BCmp _ z => BLeaf (LInt z) | BDt _ d => BDt DtEq d | _ => b end)
      /\ (forall c, cmp_base dt c v vt =
            match b with
            | BCmp _ z | BLeaf (LInt z) => Ok (BCmp c z)
            | BDt _ d => Ok (BDt (match c with Gt => DtGt | Ge => DtGe | Lt => DtLt | Le => DtLe end) d)
            | _ => Err
            end).
  Proof.
    intros b rest Hok.
    destruct b as [| | | |[s|z|f]|c z|c f|c d|l]; cbn [base_ok leaf_ok] in Hok; try contradiction; cbn [value_text].
    - exists K_null, TNull. repeat split; reflexivity.
    - exists K_any, TAny. repeat split; reflexivity.
    - exists K_true, TBool. repeat split; reflexivity.
    - exists K_false, TBool. repeat split; reflexivity.
    - destruct Hok as [Hq Ht]. exists s, TString.
      rewrite get_arg_quoted by exact Hq. rewrite Ht, trim_start_semi. repeat split; reflexivity.
    - exists (print_Z z), TInteger.
      rewrite get_arg_raw by (try apply print_Z_tok; auto; reflexivity).
      rewrite get_arg_type_print_Z, trim_start_semi by exact Hok.
      cbn [eq_base cmp_base]. unfold int_value. rewrite parse_isize_print by exact Hok. repeat split; reflexivity.
    - exists (print_Z z), TInteger.
      rewrite get_arg_raw by (try apply print_Z_tok; auto; reflexivity).
      rewrite get_arg_type_print_Z, trim_start_semi by exact Hok.
      cbn [eq_base cmp_base]. unfold int_value. rewrite parse_isize_print by exact Hok. repeat split; reflexivity.
    - destruct Hok as (Ht & Hty & Hd & _). exists d, TDatetime.
      rewrite get_arg_raw by (auto; reflexivity). rewrite Hty, trim_start_semi.
      cbn [eq_base cmp_base]. unfold dt_value. rewrite Hd. repeat split; reflexivity.
  Qed.

  (* first character of a value text is not white space *)
  Lemma value_text_head : forall b, base_ok b -> exists x v, value_text b = x :: v /\ is_ws x = false.
  Proof.
    intros b Hok.
    destruct b as [| | | |[s|z|f]|c z|c f|c d|l]; cbn [base_ok leaf_ok] in Hok; try contradiction; cbn [value_text];
      try (eexists; eexists; split; [reflexivity | reflexivity]).
    - apply print_Z_head_nows. exact Hok.
    - apply print_Z_head_nows. exact Hok.
    - destruct Hok as (_ & _ & _ & H). exact H.
  Qed.

  (* the printed form of a data operator, followed by ";", is parsed back to the same operator *)
  Theorem read_op_print : forall o t rest, op_ok o -> print_dataop o = Some t ->
    read_op (t ++ c_semicolon :: rest) = Ok (o, c_semicolon :: rest).
  Proof.
    intros o t rest Hok Hp. rewrite (print_dataop_shape o t Hok Hp).
    assert (Hb : base_ok (op_base o)) by (destruct o; cbn in *; tauto).
    destruct (value_text_head _ Hb) as (x & v & Hv & Hx).
    rewrite <- app_assoc. cbn [app]. rewrite Hv. cbn [app].
    rewrite read_op_split by (try apply tok_ok_opstr; auto).
    destruct (read_value (op_base o) rest Hb) as (val & vt & Hg & He & Hc).
    rewrite Hv in Hg. cbn [app] in Hg. rewrite Hg. cbn [bind].
    destruct o as [b | b]; cbn [op_base opstr_of] in *.
    - destruct b as [| | | |[s|z|f]|c z|c f|c d|l]; cbn [base_ok leaf_ok] in Hb; try contradiction;
        try (unfold parse_dataoperator; cbn [str_eqb N.eqb Pos.eqb andb K_EQ]; rewrite He; reflexivity).
      + destruct c; unfold parse_dataoperator; cbn -[cmp_base]; rewrite Hc; reflexivity.
      + destruct c; unfold parse_dataoperator; cbn -[cmp_base eq_base]; rewrite ?Hc, ?He; reflexivity.
    - destruct Hok as [_ Hs].
      destruct b as [| | | |[s|z|f]|c z|c f|c d|l]; cbn [base_ok leaf_ok] in Hb; try contradiction;
        unfold parse_dataoperator; cbn -[eq_base]; rewrite He.
      all: try reflexivity.
      all: destruct vt; try reflexivity.
      all: exfalso; cbn in He; unfold dt_value in He; destruct (dt val); cbn in He; discriminate.
  Qed.


  Theorem read_op_parts : forall o t rest, op_ok o -> print_dataop o = Some t ->
    exists r1 t1 v vt,
      get_arg dt (t ++ c_semicolon :: rest) = Ok (opstr_of o, r1, t1)
      /\ get_arg dt r1 = Ok (v, c_semicolon :: rest, vt)
      /\ parse_dataoperator dt (opstr_of o) v vt = Ok o.
  Proof.
    intros o t rest Hok Hp. pose proof (read_op_print o t rest Hok Hp) as R.
    rewrite (print_dataop_shape o t Hok Hp) in *.
    assert (Hb : base_ok (op_base o)) by (destruct o; cbn in *; tauto).
    destruct (value_text_head _ Hb) as (x & v & Hv & Hx).
    rewrite <- app_assoc in *. cbn [app] in *. rewrite Hv in *. cbn [app] in *.
    unfold read_op in R. rewrite get_arg_raw in * by (try apply tok_ok_opstr; auto; reflexivity).
    cbn [bind] in R. rewrite trim_start_sp_nows in * by exact Hx.
    apply bind_ok in R as [[[val r2] vt] [G R]]. apply bind_ok in R as [op [P R]].
    inversion R; subst. eauto 10.
  Qed.

  (* the printed operator starts with one of = ! > < *)
  Lemma print_dataop_head : forall o t R, op_ok o -> print_dataop o = Some t ->
    trim_start (c_space :: t ++ R) = t ++ R /\ closed (t ++ R) = false.
  Proof.
    intros o t R Hok Hp. rewrite (print_dataop_shape o t Hok Hp).
    destruct o as [b | b]; [destruct b as [| | | |l|c z|c f|c d|l]; try destruct c|]; split; reflexivity.
  Qed.
End DataOp.

(* ---------- keyword prefixes ---------- *)
Definition nosplit (kw : str) : bool := forallb (fun c => negb (is_split c)) kw.

Lemma split_first_kw : forall kw c r, nosplit kw = true -> is_split c = true -> split_first (kw ++ c :: r) = kw.
Proof.
  induction kw as [|x kw IH]; intros c r H Hc; cbn [app split_first].
  - rewrite Hc. reflexivity.
  - cbn in H. apply andb_true_iff in H as [Hx H]. apply negb_true_iff in Hx. rewrite Hx.
    f_equal. apply IH; auto.
Qed.

Lemma strip_kw : forall kw r, strip kw (kw ++ r) = Ok r.
Proof. intros. unfold strip. apply slice_from_app. Qed.

Lemma trim_start_sp : forall x r, is_ws x = false -> trim_start (c_space :: x :: r) = x :: r.
Proof. intros x r H. cbn [trim_start]. change (is_ws c_space) with true. cbv iota. rewrite H. reflexivity. Qed.

Lemma trim_start_sp2 : forall x r, is_ws x = false -> trim_start (c_space :: c_space :: x :: r) = x :: r.
Proof. intros x r H. cbn [trim_start]. change (is_ws c_space) with true. cbv iota. rewrite H. reflexivity. Qed.

Lemma trim_start_nows : forall x r, is_ws x = false -> trim_start (x :: r) = x :: r.
Proof. intros x r H. cbn [trim_start]. rewrite H. reflexivity. Qed.

Lemma eat_semi_semi : forall r, eat_semi (c_semicolon :: r) = Ok (trim_start r).
Proof. intros. unfold eat_semi. cbn [starts_with K_SEMI]. rewrite N.eqb_refl. cbn [andb].
  change (slice_from 1 (c_semicolon :: r)) with (slice_from (blen [c_semicolon]) ([c_semicolon] ++ r)).
  rewrite slice_from_app. reflexivity. Qed.

Section Constraints.
  Variable dt : str -> option str.
  Variable re : str -> bool.

  (* ---------- quoted identifier followed by something ---------- *)
  Lemma get_arg_quoted_semi : forall s rest, bad_quote s = false ->
    get_arg dt (quoted s ++ c_semicolon :: rest) = Ok (s, c_semicolon :: rest, get_arg_type dt s true).
  Proof. intros. rewrite get_arg_quoted by assumption. reflexivity. Qed.

  (* ---------- variables: "?v" ---------- *)
  Definition var_ok (v : str) : Prop := tok_ok v = true /\ v <> [].

  Lemma var_token : forall v, var_ok v -> tok_ok (c_qmark :: v) = true /\ is_var (c_qmark :: v) = true
    /\ var_name (c_qmark :: v) = Ok v.
  Proof.
    intros v [Ht Hne]. split; [cbn; exact Ht|]. split.
    - unfold is_var. cbn [starts_with K_QMARK]. rewrite N.eqb_refl. cbn [andb].
      destruct v as [|x v]; [congruence|]. cbn [blen fold_right]. pose proof (clen_pos x).
      apply Nat.ltb_lt. change (clen c_qmark) with 1. lia.
    - unfold var_name. change (slice_from 1 (c_qmark :: v)) with (slice_from (blen [c_qmark]) ([c_qmark] ++ v)).
      apply slice_from_app.
  Qed.

  (* ---------- ID ---------- *)
  (* Constraint::parse after the keyword dispatch: the arm, then the optional ";" *)
  Definition arm (qs : str) : outcome (constr * str) :=
    do (c', r) <- parse_simple_constraint dt re (split_first qs) qs; do r' <- eat_semi r; Ok (c', r').

  Lemma get_arg_quoted_cons : forall s rest, bad_quote s = false ->
    get_arg dt (c_dquote :: s ++ c_dquote :: rest) = Ok (s, trim_start rest, get_arg_type dt s true).
  Proof.
    intros s rest H. pose proof (get_arg_quoted dt s rest H) as G. unfold quoted in G.
    cbn [app] in G. rewrite <- app_assoc in G. exact G.
  Qed.

  (* normal form of printed text: literal prefixes as cons cells, abstract segments re-associated *)
  Ltac norm := unfold semi, sp, quoted; repeat rewrite <- app_assoc; cbn [app];
               repeat rewrite <- app_assoc; cbn [app].
  (* evaluation of the parser on a concrete prefix *)
  Ltac comp := cbn [split_first is_split str_eqb starts_with closed N.eqb Pos.eqb orb andb negb
                    c_space c_nl c_cr c_tab c_semicolon c_rbracket c_lbracket c_qmark c_dquote c_minus c_plus
                    trim_start is_ws N.leb N.compare Pos.compare Pos.compare_cont
                    bind strip slice_from drop_bytes blen clen fold_right N.ltb Nat.leb Nat.sub Nat.add
                    K_ID K_TEXT K_ANNOTATION K_RESOURCE K_DATASET K_RELATION K_DATA K_VALUE K_KEY K_SUBSTORE
                    K_LIMIT K_LBRACKET K_SEMI K_OR_ K_RBRACKET K_AS K_TARGET K_METADATA K_RECURSIVE K_REGEX
                    K_REGEXP K_NOCASE K_OFFSET K_WHOLE K_ALL K_NONE].

  Lemma get_arg_var : forall v c r, tok_ok v = true -> is_term c = true ->
    get_arg dt (c_qmark :: v ++ c :: r) = Ok (c_qmark :: v, trim_start (c :: r), get_arg_type dt (c_qmark :: v) false).
  Proof.
    intros v c r Hv Hc. change (c_qmark :: v ++ c :: r) with ((c_qmark :: v) ++ c :: r).
    apply get_arg_raw; auto.
  Qed.

  (* a literal token in front of the text: get_arg returns it *)
  Ltac raw_tok kw :=
    match goal with
    | |- context [get_arg dt ?s] =>
        let n := eval compute in (length kw) in
        let r := eval cbn [skipn] in (skipn n s) in
        match r with
        | ?c :: ?R => change s with (kw ++ c :: R); rewrite (get_arg_raw dt kw c R) by reflexivity
        end
    end.

  Ltac start Hp := cbn in Hp; inversion Hp; subst; clear Hp; norm; unfold arm, parse_simple_constraint; comp.
  Lemma starts_qmark : forall v, starts_with K_QMARK (c_qmark :: v) = true.
  Proof. reflexivity. Qed.
  Ltac finish := comp; rewrite ?eat_semi_semi; reflexivity.

  Theorem fix_CId : forall id t rest, bad_quote id = false -> print_constraint (CId id) = Some t ->
    arm (t ++ rest) = Ok (CId id, trim_start rest).
  Proof.
    intros id t rest Hq Hp. start Hp.
    rewrite get_arg_quoted_cons by exact Hq. finish.
  Qed.

  Definition not_var (s : str) : Prop := is_var s = false.

  Theorem fix_CText : forall tx nocase t rest,
    bad_quote tx = false -> not_var tx -> (nocase = false -> str_eqb tx K_AS = false) ->
    print_constraint (CText tx nocase) = Some t ->
    arm (t ++ rest) = Ok (CText tx nocase, trim_start rest).
  Proof.
    intros tx nocase t rest Hq Hv Has Hp. destruct nocase; start Hp.
    - raw_tok K_AS. comp. unfold parse_text_qualifiers. comp.
      raw_tok K_NOCASE. comp. rewrite get_arg_quoted_cons by exact Hq. comp.
      rewrite Hv. finish.
    - rewrite get_arg_quoted_cons by exact Hq. comp. unfold parse_text_qualifiers.
      rewrite (Has eq_refl). comp. rewrite Hv. finish.
  Qed.

  Theorem fix_CRegex : forall r t rest,
    bad_quote r = false -> not_var r -> re r = true ->
    print_constraint (CRegex r) = Some t ->
    arm (t ++ rest) = Ok (CRegex r, trim_start rest).
  Proof.
    intros r t rest Hq Hv Hre Hp. start Hp.
    raw_tok K_AS. comp. unfold parse_text_qualifiers. comp.
    raw_tok K_REGEX. comp. rewrite get_arg_quoted_cons by exact Hq. comp.
    rewrite Hv, Hre. finish.
  Qed.

  Theorem fix_CSubStore : forall o t rest,
    match o with
    | Some id => bad_quote id = false /\ not_var id /\ str_eqb id K_NONE = false /\ id <> []
    | None => True
    end ->
    print_constraint (CSubStore o) = Some t ->
    arm (t ++ rest) = Ok (CSubStore o, trim_start rest).
  Proof.
    intros [id|] t rest H Hp; start Hp.
    - destruct H as (Hq & Hv & Hn & He).
      rewrite get_arg_quoted_cons by exact Hq. comp. rewrite Hv, Hn.
      destruct id; [congruence|]. finish.
    - raw_tok K_NONE. comp. match goal with |- context [is_var ?x] => replace (is_var x) with false by reflexivity end. finish.
  Qed.

  (* constraints whose argument is a variable, without qualifier-dependent parts *)
  Theorem fix_CTextVar : forall v t rest, var_ok v -> print_constraint (CTextVar v) = Some t ->
    arm (t ++ rest) = Ok (CTextVar v, trim_start rest).
  Proof.
    intros v t rest Hv Hp. destruct (var_token v Hv) as (Ht & Hi & Hn). destruct Hv as [Hv _]. start Hp.
    rewrite get_arg_var by (auto; reflexivity). comp. unfold parse_text_qualifiers.
    replace (str_eqb (c_qmark :: v) K_AS) with false by reflexivity. comp.
    rewrite Hi, Hn. finish.
  Qed.

  Theorem fix_CSubStoreVar : forall v t rest, var_ok v -> print_constraint (CSubStoreVar v) = Some t ->
    arm (t ++ rest) = Ok (CSubStoreVar v, trim_start rest).
  Proof.
    intros v t rest Hv Hp. destruct (var_token v Hv) as (Ht & Hi & Hn). destruct Hv as [Hv _]. start Hp.
    rewrite get_arg_var by (auto; reflexivity). comp. rewrite Hi, Hn. finish.
  Qed.

  Theorem fix_CTextRel : forall v k t rest,
    tok_ok v = true -> (k <> RSameRange /\ k <> RInSet) ->
    print_constraint (CTextRel v k true) = Some t ->
    arm (t ++ rest) = Ok (CTextRel v k true, trim_start rest).
  Proof.
    intros v k t rest Hv [Hk1 Hk2] Hp.
    assert (Hn : var_name (c_qmark :: v) = Ok v).
    { unfold var_name. change (slice_from 1 (c_qmark :: v)) with (slice_from (blen [c_qmark]) ([c_qmark] ++ v)).
      apply slice_from_app. }
    destruct k; try congruence; start Hp;
      rewrite get_arg_var by (auto; reflexivity); comp; rewrite starts_qmark; comp;
      match goal with |- context [CTextRel v ?k true] =>
        let kw := eval cbv in (relkind_str k) in raw_tok kw end;
      unfold relkind_of; comp; rewrite Hn; finish.
  Qed.

  (* ---------- offsets ---------- *)
  Definition numhead (s : str) : Prop := exists x v, s = x :: v /\ (is_digit x = true \/ x = c_minus).

  Lemma print_Z_numhead : forall z, small (Z.abs z) -> numhead (print_Z z).
  Proof.
    intros z Hs. unfold print_Z. destruct (z <? 0)%Z eqn:E.
    - eexists; eexists; split; [reflexivity | right; reflexivity].
    - apply Z.ltb_ge in E. replace z with (Z.abs z) by lia.
      destruct (print_nat_Z_head _ Hs) as (x & d & -> & Hx & _). exists x, d. auto.
  Qed.

  Lemma print_cursor_numhead : forall c, cursor_valid c -> numhead (print_cursor c).
  Proof.
    intros [n | z] H; cbn [cursor_valid] in H.
    - cbn [print_cursor]. apply print_Z_numhead. replace (Z.abs n) with n by lia. apply usize_small. exact H.
    - destruct (Z.eq_dec z 0) as [-> | Hz].
      + eexists; eexists; split; [reflexivity | right; reflexivity].
      + assert (Hp : print_cursor (CE z) = print_Z z) by (destruct z; try reflexivity; congruence).
        rewrite Hp. apply print_Z_numhead. apply isize_small. unfold in_isize, isize_max. lia.
  Qed.

  Lemma numhead_facts : forall x, (is_digit x = true \/ x = c_minus) ->
    is_ws x = false /\ (x =? 87)%N = false /\ (x =? 65)%N = false /\ (x =? 79)%N = false
    /\ (x =? c_semicolon)%N = false /\ (x =? c_rbracket)%N = false.
  Proof.
    intros x [H | ->]; [|repeat split; reflexivity].
    split; [apply is_digit_nows; exact H|].
    unfold is_digit in H. apply andb_true_iff in H as [H1 H2]. apply N.leb_le in H1, H2.
    unfold c_semicolon, c_rbracket. repeat split; apply N.eqb_neq; lia.
  Qed.

  Theorem read_offset : forall o rest,
    match o with Some (b, e) => cursor_valid b /\ cursor_valid e | None => True end ->
    parse_offset dt (trim_start (print_offset o ++ c_semicolon :: rest)) = Ok (o, c_semicolon :: rest).
  Proof.
    intros [[b e]|] rest H; [|reflexivity].
    destruct H as [Hb He].
    destruct (print_cursor_numhead b Hb) as (xb & vb & Eb & Fb).
    destruct (print_cursor_numhead e He) as (xe & ve & Ee & Fe).
    destruct (numhead_facts xb Fb) as (Wb & B1 & B2 & B3 & B4 & B5).
    destruct (numhead_facts xe Fe) as (We & E1 & E2 & E3 & E4 & E5).
    pose proof (print_cursor_tok b Hb) as Tb. pose proof (print_cursor_tok e He) as Te.
    pose proof (cursor_of_str_print b Hb) as Cb. pose proof (cursor_of_str_print e He) as Ce.
    unfold print_offset. norm. comp. unfold parse_offset. comp.
    assert (T1 : forall R, trim_start (print_cursor b ++ R) = print_cursor b ++ R)
      by (intros R; rewrite Eb; cbn [app]; apply trim_start_nows; exact Wb).
    assert (T2 : forall R, trim_start (c_space :: print_cursor e ++ R) = print_cursor e ++ R)
      by (intros R; rewrite Ee; cbn [app]; apply trim_start_sp; exact We).
    rewrite T1. rewrite get_arg_raw by (auto; reflexivity). rewrite T2. cbn [bind].
    assert (HW : str_eqb (print_cursor b) K_WHOLE || str_eqb (print_cursor b) K_ALL = false).
    { rewrite Eb. unfold K_WHOLE, K_ALL. cbn [str_eqb]. rewrite B1, B2. reflexivity. }
    rewrite HW. unfold cursor_arg. rewrite Cb. cbn [bind].
    assert (HC : closed (print_cursor e ++ c_semicolon :: rest) = false).
    { rewrite Ee. unfold closed, K_SEMI, K_OR_, K_RBRACKET. cbn [app starts_with].
      rewrite (N.eqb_sym 59 xe), (N.eqb_sym 79 xe), (N.eqb_sym 93 xe).
      unfold c_semicolon, c_rbracket in *. rewrite E3, E4, E5. reflexivity. }
    rewrite HC. rewrite get_arg_raw by (auto; reflexivity). cbn [bind]. rewrite Ce. reflexivity.
  Qed.

  (* ---------- qualified constraints ---------- *)
  Definition id_free (id : str) (q : qual) : Prop :=
    match q with QNormal => str_eqb id K_AS = false | QMetadata => str_eqb id K_RECURSIVE = false end.

  Ltac qual_meta := raw_tok K_AS; comp; unfold parse_qualifiers; comp; raw_tok K_METADATA; comp.
  Ltac varfree v :=
    replace (str_eqb (c_qmark :: v) K_AS) with false by reflexivity;
    replace (str_eqb (c_qmark :: v) K_RECURSIVE) with false by reflexivity.

  Theorem fix_CDataSet : forall id q t rest,
    bad_quote id = false -> not_var id -> id_free id q ->
    print_constraint (CDataSet id q) = Some t ->
    arm (t ++ rest) = Ok (CDataSet id q, trim_start rest).
  Proof.
    intros id q t rest Hq Hv Hf Hp. destruct q; cbn [id_free] in Hf; start Hp.
    - rewrite get_arg_quoted_cons by exact Hq. comp. unfold parse_qualifiers. rewrite Hf. comp.
      rewrite Hv. finish.
    - qual_meta. rewrite get_arg_quoted_cons by exact Hq. comp. rewrite Hf. comp. rewrite Hv. finish.
  Qed.

  Theorem fix_CDataSetVar : forall v q t rest, var_ok v ->
    print_constraint (CDataSetVar v q) = Some t ->
    arm (t ++ rest) = Ok (CDataSetVar v q, trim_start rest).
  Proof.
    intros v q t rest Hv Hp. destruct (var_token v Hv) as (Ht & Hi & Hn). destruct Hv as [Hv _].
    destruct q; start Hp.
    - rewrite get_arg_var by (auto; reflexivity). comp. unfold parse_qualifiers. varfree v. comp.
      rewrite Hi, Hn. finish.
    - qual_meta. rewrite get_arg_var by (auto; reflexivity). comp. varfree v. comp. rewrite Hi, Hn. finish.
  Qed.

  Theorem fix_CKeyVar : forall v q t rest, var_ok v ->
    print_constraint (CKeyVar v q) = Some t ->
    arm (t ++ rest) = Ok (CKeyVar v q, trim_start rest).
  Proof.
    intros v q t rest Hv Hp. destruct (var_token v Hv) as (Ht & Hi & Hn). destruct Hv as [Hv _].
    destruct q; start Hp.
    - rewrite get_arg_var by (auto; reflexivity). comp. unfold parse_qualifiers. varfree v. comp.
      rewrite Hi, Hn. finish.
    - qual_meta. rewrite get_arg_var by (auto; reflexivity). comp. varfree v. comp. rewrite Hi, Hn. finish.
  Qed.

  Lemma var_name_q : forall v, var_name (c_qmark :: v) = Ok v.
  Proof.
    intros v. unfold var_name.
    change (slice_from 1 (c_qmark :: v)) with (slice_from (blen [c_qmark]) ([c_qmark] ++ v)). apply slice_from_app.
  Qed.

  Theorem fix_CDataVar : forall v q t rest, tok_ok v = true ->
    print_constraint (CDataVar v q) = Some t ->
    arm (t ++ rest) = Ok (CDataVar v q, trim_start rest).
  Proof.
    intros v q t rest Hv Hp. pose proof (var_name_q v) as Hn.
    destruct q; start Hp.
    - rewrite get_arg_var by (auto; reflexivity). comp. unfold parse_qualifiers. varfree v. comp.
      rewrite starts_qmark, Hn. finish.
    - qual_meta. rewrite get_arg_var by (auto; reflexivity). comp. varfree v. comp.
      rewrite starts_qmark, Hn. finish.
  Qed.

  Theorem fix_CDataKey : forall set key q t rest,
    bad_quote set = false -> bad_quote key = false -> starts_with K_QMARK set = false -> id_free set q ->
    print_constraint (CDataKey set key q) = Some t ->
    arm (t ++ rest) = Ok (CDataKey set key q, trim_start rest).
  Proof.
    intros set key q t rest Hs Hk Hv Hf Hp. destruct q; cbn [id_free] in Hf; start Hp.
    - rewrite get_arg_quoted_cons by exact Hs. comp. unfold parse_qualifiers. rewrite Hf. comp.
      rewrite Hv. norm. rewrite get_arg_quoted_cons by exact Hk. finish.
    - qual_meta. rewrite get_arg_quoted_cons by exact Hs. comp. rewrite Hf. comp.
      rewrite Hv. norm. rewrite get_arg_quoted_cons by exact Hk. finish.
  Qed.

  Definition off_valid (o : option offset) : Prop :=
    match o with Some (b, e) => cursor_valid b /\ cursor_valid e | None => True end.

  Theorem fix_CResource : forall id q o t rest,
    bad_quote id = false -> not_var id -> id_free id q -> off_valid o ->
    print_constraint (CResource id q o) = Some t ->
    arm (t ++ rest) = Ok (CResource id q o, trim_start rest).
  Proof.
    intros id q o t rest Hq Hv Hf Ho Hp. destruct q; cbn [id_free] in Hf; start Hp.
    - rewrite get_arg_quoted_cons by exact Hq. comp. unfold parse_qualifiers. rewrite Hf. comp.
      norm. rewrite read_offset by exact Ho. comp. rewrite Hv. finish.
    - qual_meta. rewrite get_arg_quoted_cons by exact Hq. comp. rewrite Hf. comp.
      norm. rewrite read_offset by exact Ho. comp. rewrite Hv. finish.
  Qed.

  Theorem fix_CResourceVar : forall v q o t rest, var_ok v -> off_valid o ->
    print_constraint (CResourceVar v q o) = Some t ->
    arm (t ++ rest) = Ok (CResourceVar v q o, trim_start rest).
  Proof.
    intros v q o t rest Hv Ho Hp. destruct (var_token v Hv) as (Ht & Hi & Hn). destruct Hv as [Hv _].
    assert (Hsp : forall R, trim_start (c_space :: print_offset o ++ R) = trim_start (print_offset o ++ R))
      by reflexivity.
    assert (Hterm : forall R, exists c R', print_offset o ++ c_semicolon :: R = c :: R' /\ is_term c = true).
    { intros R. destruct o as [[b e]|]; eexists; eexists; split; reflexivity. }
    destruct q; start Hp.
    - destruct (Hterm rest) as (c & R' & HR & Hc). norm. rewrite HR.
      rewrite get_arg_var by auto. rewrite <- HR. comp. unfold parse_qualifiers. varfree v. comp.
      rewrite read_offset by exact Ho. comp. rewrite Hi, Hn. finish.
    - qual_meta. destruct (Hterm rest) as (c & R' & HR & Hc). norm. rewrite HR.
      rewrite get_arg_var by auto. rewrite <- HR. comp. varfree v. comp.
      rewrite read_offset by exact Ho. comp. rewrite Hi, Hn. finish.
  Qed.

  Definition depth_ok (q : qual) (d : depth) : Prop := d = DOne \/ (d = DMax /\ q = QMetadata).

  Theorem fix_CAnnotation : forall id q d o t rest,
    bad_quote id = false -> not_var id -> (d = DOne -> id_free id q) -> depth_ok q d -> off_valid o ->
    print_constraint (CAnnotation id q d o) = Some t ->
    arm (t ++ rest) = Ok (CAnnotation id q d o, trim_start rest).
  Proof.
    intros id q d o t rest Hq Hv Hf Hd Ho Hp.
    destruct Hd as [-> | [-> ->]]; [specialize (Hf eq_refl); destruct q; cbn [id_free] in Hf|]; start Hp.
    - rewrite get_arg_quoted_cons by exact Hq. comp. unfold parse_qualifiers. rewrite Hf. comp.
      norm. rewrite read_offset by exact Ho. comp. rewrite Hv. finish.
    - qual_meta. rewrite get_arg_quoted_cons by exact Hq. comp. rewrite Hf. comp.
      norm. rewrite read_offset by exact Ho. comp. rewrite Hv. finish.
    - qual_meta. raw_tok K_RECURSIVE. comp. rewrite get_arg_quoted_cons by exact Hq. comp.
      norm. rewrite read_offset by exact Ho. comp. rewrite Hv. finish.
  Qed.

  Theorem fix_CAnnotationVar : forall v q d o t rest, var_ok v -> depth_ok q d -> off_valid o ->
    print_constraint (CAnnotationVar v q d o) = Some t ->
    arm (t ++ rest) = Ok (CAnnotationVar v q d o, trim_start rest).
  Proof.
    intros v q d o t rest Hv Hd Ho Hp. destruct (var_token v Hv) as (Ht & Hi & Hn). destruct Hv as [Hv _].
    assert (Hterm : forall R, exists c R', print_offset o ++ c_semicolon :: R = c :: R' /\ is_term c = true).
    { intros R. destruct o as [[b e]|]; eexists; eexists; split; reflexivity. }
    destruct (Hterm rest) as (c & R' & HR & Hc).
    destruct Hd as [-> | [-> ->]]; [destruct q|]; start Hp.
    - norm. rewrite HR. rewrite get_arg_var by auto. rewrite <- HR. comp. unfold parse_qualifiers. varfree v. comp.
      rewrite read_offset by exact Ho. comp. rewrite Hi, Hn. finish.
    - qual_meta. norm. rewrite HR. rewrite get_arg_var by auto. rewrite <- HR. comp. varfree v. comp.
      rewrite read_offset by exact Ho. comp. rewrite Hi, Hn. finish.
    - qual_meta. raw_tok K_RECURSIVE. comp. norm. rewrite HR. rewrite get_arg_var by auto. rewrite <- HR. comp.
      rewrite read_offset by exact Ho. comp. rewrite Hi, Hn. finish.
  Qed.

  (* ---------- LIMIT ---------- *)
  Lemma numhead_trim : forall s R, numhead s -> trim_start (s ++ R) = s ++ R /\ trim_start (c_space :: s ++ R) = s ++ R
    /\ closed (s ++ R) = false.
  Proof.
    intros s R (x & v & -> & F). destruct (numhead_facts x F) as (W & _ & _ & E3 & E4 & E5).
    cbn [app]. split; [apply trim_start_nows; exact W|]. split; [apply trim_start_sp; exact W|].
    unfold closed, K_SEMI, K_OR_, K_RBRACKET. cbn [starts_with].
    rewrite (N.eqb_sym 59 x), (N.eqb_sym 79 x), (N.eqb_sym 93 x).
    unfold c_semicolon, c_rbracket in *. rewrite E3, E4, E5. reflexivity.
  Qed.

  Theorem fix_CLimit : forall b e t rest, in_isize b -> in_isize e ->
    print_constraint (CLimit b e) = Some t ->
    arm (trim_start (t ++ rest)) = Ok (CLimit b e, trim_start rest).
  Proof.
    intros b e t rest Hb He Hp.
    pose proof (print_Z_numhead b (isize_small b Hb)) as Nb.
    pose proof (print_Z_numhead e (isize_small e He)) as Ne.
    cbn in Hp; inversion Hp; subst; clear Hp; norm. comp. unfold arm, parse_simple_constraint. comp. norm.
    destruct (numhead_trim _ (c_space :: print_Z e ++ c_semicolon :: rest) Nb) as (T1 & _ & _).
    rewrite T1. rewrite get_arg_raw by (try apply print_Z_tok; auto; reflexivity).
    destruct (numhead_trim _ (c_semicolon :: rest) Ne) as (_ & T2 & C2).
    rewrite T2. cbn [bind]. unfold limit_value. rewrite parse_isize_print by exact Hb. cbn [bind].
    rewrite C2. rewrite get_arg_raw by (try apply print_Z_tok; auto; reflexivity). cbn [bind].
    rewrite parse_isize_print by exact He. finish.
  Qed.

  (* ---------- DATA set key op / VALUE op ---------- *)
  Theorem fix_CKeyValue : forall set key op q o t rest,
    bad_quote set = false -> bad_quote key = false -> starts_with K_QMARK set = false -> id_free set q ->
    op_ok dt op -> op <> Pos BAny -> print_dataop op = Some o ->
    print_constraint (CKeyValue set key op q) = Some t ->
    arm (t ++ rest) = Ok (CKeyValue set key op q, trim_start rest).
  Proof.
    intros set key op q o t rest Hs Hk Hv Hf Hok Hany Ho Hp.
    destruct (read_op_parts dt op o rest Hok Ho) as (r1 & t1 & v & vt & G1 & G2 & P).
    assert (Ht : t = K_DATA ++ qual_str q ++ sp ++ quoted set ++ sp ++ quoted key ++ sp ++ o ++ semi).
    { cbn [print_constraint] in Hp. rewrite Ho in Hp.
      destruct op as [[| | | |l|c z|c f|c d|l]|b]; try congruence; inversion Hp; reflexivity. }
    subst t. clear Hp.
    destruct (print_dataop_head dt op o (c_semicolon :: rest) Hok Ho) as [T C].
    destruct q; cbn [id_free] in Hf; cbn [qual_str]; unfold K_DATA; norm; unfold arm, parse_simple_constraint; comp.
    - rewrite get_arg_quoted_cons by exact Hs. comp. unfold parse_qualifiers. rewrite Hf. comp.
      rewrite Hv. norm. rewrite get_arg_quoted_cons by exact Hk. rewrite T. cbn [bind]. rewrite C.
      rewrite G1. cbn [bind]. rewrite G2. cbn [bind]. rewrite P. finish.
    - qual_meta. rewrite get_arg_quoted_cons by exact Hs. comp. rewrite Hf. comp.
      rewrite Hv. norm. rewrite get_arg_quoted_cons by exact Hk. rewrite T. cbn [bind]. rewrite C.
      rewrite G1. cbn [bind]. rewrite G2. cbn [bind]. rewrite P. finish.
  Qed.

  Lemma opstr_not_AS : forall o, str_eqb (opstr_of o) K_AS = false.
  Proof. intros [b|b]; [destruct b as [| | | |l|c z|c f|c d|l]; try destruct c|]; reflexivity. Qed.
  Lemma opstr_not_REC : forall o, str_eqb (opstr_of o) K_RECURSIVE = false.
  Proof. intros [b|b]; [destruct b as [| | | |l|c z|c f|c d|l]; try destruct c|]; reflexivity. Qed.

  Theorem fix_CValue : forall op q o t rest,
    op_ok dt op -> print_dataop op = Some o ->
    print_constraint (CValue op q) = Some t ->
    arm (t ++ rest) = Ok (CValue op q, trim_start rest).
  Proof.
    intros op q o t rest Hok Ho Hp.
    destruct (read_op_parts dt op o rest Hok Ho) as (r1 & t1 & v & vt & G1 & G2 & P).
    assert (Ht : t = K_VALUE ++ qual_str q ++ sp ++ o ++ semi).
    { cbn [print_constraint] in Hp. rewrite Ho in Hp. inversion Hp; reflexivity. }
    subst t. clear Hp.
    destruct (print_dataop_head dt op o (c_semicolon :: rest) Hok Ho) as [T C].
    assert (T' : trim_start (o ++ c_semicolon :: rest) = o ++ c_semicolon :: rest).
    { rewrite <- T at 1. rewrite trim_start_idem. exact T. }
    destruct q; cbn [qual_str]; unfold K_VALUE; norm; unfold arm, parse_simple_constraint; comp.
    - rewrite T', G1. cbn [bind]. unfold parse_qualifiers. rewrite opstr_not_AS. cbn [bind].
      rewrite G2. cbn [bind]. rewrite P. finish.
    - qual_meta. rewrite T', G1. cbn [bind]. rewrite opstr_not_REC. cbn [bind].
      rewrite G2. cbn [bind]. rewrite P. finish.
  Qed.

  (* ---------- all constraint kinds the parser can produce, except unions ---------- *)
  Definition simple_ok (c : constr) : Prop :=
    match c with
    | CId id => bad_quote id = false
    | CAnnotation id q d o =>
        bad_quote id = false /\ not_var id /\ (d = DOne -> id_free id q) /\ depth_ok q d /\ off_valid o
    | CResource id q o => bad_quote id = false /\ not_var id /\ id_free id q /\ off_valid o
    | CDataSet id q => bad_quote id = false /\ not_var id /\ id_free id q
    | CDataKey set key q =>
        bad_quote set = false /\ bad_quote key = false /\ starts_with K_QMARK set = false /\ id_free set q
    | CSubStore (Some id) => bad_quote id = false /\ not_var id /\ str_eqb id K_NONE = false /\ id <> []
    | CSubStore None => True
    | CKeyVar v _ | CDataSetVar v _ | CTextVar v | CSubStoreVar v => var_ok v
    | CResourceVar v _ o => var_ok v /\ off_valid o
    | CAnnotationVar v q d o => var_ok v /\ depth_ok q d /\ off_valid o
    | CDataVar v _ => tok_ok v = true
    | CTextRel v k dflt => tok_ok v = true /\ dflt = true /\ k <> RSameRange /\ k <> RInSet
    | CKeyValue set key op q =>
        bad_quote set = false /\ bad_quote key = false /\ starts_with K_QMARK set = false /\ id_free set q
        /\ op_ok dt op /\ op <> Pos BAny
    | CValue op _ => op_ok dt op
    | CKeyValueVar _ _ _ => False
    | CText tx nocase => bad_quote tx = false /\ not_var tx /\ (nocase = false -> str_eqb tx K_AS = false)
    | CRegex r => bad_quote r = false /\ not_var r /\ re r = true
    | CUnion _ => False
    | CLimit b e => in_isize b /\ in_isize e
    end.

  Lemma print_constraint_head : forall c t, print_constraint c = Some t ->
    (forall b e, c <> CLimit b e) -> exists x v, t = x :: v /\ is_ws x = false.
  Proof.
    intros c t H NL. destruct c; cbn [print_constraint] in H;
      repeat match type of H with context [match ?x with _ => _ end] => destruct x end;
      try discriminate; inversion H;
      try (eexists; eexists; split; reflexivity).
    exfalso. eapply NL. reflexivity.
  Qed.

  Lemma trim_start_printed : forall c t rest, print_constraint c = Some t ->
    (forall b e, c <> CLimit b e) -> trim_start (t ++ rest) = t ++ rest.
  Proof.
    intros c t rest H NL. destruct (print_constraint_head c t H NL) as (x & v & -> & W).
    cbn [app]. apply trim_start_nows. exact W.
  Qed.

  (* every simple constraint, printed and followed by anything, is parsed back to itself *)
  Theorem fix_simple : forall c t rest, simple_ok c -> print_constraint c = Some t ->
    arm (trim_start (t ++ rest)) = Ok (c, trim_start rest).
  Proof.
    intros c t rest Hok Hp.
    destruct c; cbn [simple_ok] in Hok; try contradiction;
      try (rewrite (trim_start_printed _ _ rest Hp) by (intros; discriminate)).
    - apply fix_CId; auto.
    - destruct Hok as (? & ? & ? & ? & ?). apply fix_CAnnotation; auto.
    - destruct Hok as (? & ? & ? & ?). apply fix_CResource; auto.
    - destruct Hok as (? & ? & ?). apply fix_CDataSet; auto.
    - destruct Hok as (? & ? & ? & ?). apply fix_CDataKey; auto.
    - apply fix_CSubStore; auto.
    - apply fix_CKeyVar; auto.
    - apply fix_CDataVar; auto.
    - apply fix_CDataSetVar; auto.
    - destruct Hok. apply fix_CResourceVar; auto.
    - apply fix_CTextVar; auto.
    - apply fix_CSubStoreVar; auto.
    - destruct Hok as (? & -> & ? & ?). apply fix_CTextRel; auto.
    - destruct Hok as (? & ? & ? & ? & ? & ?).
      destruct (print_dataop op) as [o|] eqn:Eo.
      + eapply fix_CKeyValue; eauto.
      + exfalso. cbn [print_constraint] in Hp. rewrite Eo in Hp.
        destruct op as [[| | | |l|c z|c f|c d|l]|b]; discriminate.
    - destruct (print_dataop op) as [o|] eqn:Eo.
      + eapply fix_CValue; eauto.
      + exfalso. cbn [print_constraint] in Hp. rewrite Eo in Hp. discriminate.
    - destruct Hok as (? & ? & ?). apply fix_CText; auto.
    - destruct Hok as (? & ? & ?). apply fix_CRegex; auto.
    - destruct Hok as (? & ? & ?). apply fix_CAnnotationVar; auto.
    - destruct Hok. apply fix_CLimit; auto.
  Qed.

  (* ---------- Constraint::parse on a printed simple constraint ---------- *)
  Definition no_trail (s : str) : Prop := hd_nows (rev s).

  Lemma no_trail_trim_end : forall s, no_trail s -> trim_end s = s.
  Proof. intros s H. unfold trim_end. rewrite trim_start_fix by exact H. apply rev_involutive. Qed.

  Lemma no_trail_tail : forall c s, no_trail (c :: s) -> no_trail s.
  Proof.
    intros c s H. unfold no_trail in *. cbn [rev] in H. destruct (rev s) as [|x r]; [exact I | exact H].
  Qed.

  Lemma no_trail_trim_start : forall s, no_trail s -> no_trail (trim_start s).
  Proof.
    induction s as [|c s IH]; intros H; cbn [trim_start]; auto.
    destruct (is_ws c); auto. apply IH. eapply no_trail_tail; eauto.
  Qed.

  Lemma trim_no_trail : forall s, no_trail s -> trim s = trim_start s.
  Proof. intros s H. unfold trim. apply no_trail_trim_end, no_trail_trim_start, H. Qed.

  (* the arm only succeeds on a keyword: the text does not start with "@" or "[" *)
  Lemma arm_ok_head : forall qs x, arm qs = Ok x ->
    (forall r, qs <> c_at :: r) /\ str_eqb (split_first qs) K_LBRACKET = false.
  Proof.
    intros qs x H. split.
    - intros r ->. unfold arm, parse_simple_constraint in H. cbn [split_first is_split N.eqb Pos.eqb orb c_at
        c_space c_nl c_cr c_tab] in H.
      cbn [str_eqb N.eqb Pos.eqb andb K_ID K_TEXT K_ANNOTATION K_RESOURCE K_DATASET K_RELATION K_DATA K_VALUE
           K_KEY K_SUBSTORE K_LIMIT bind] in H. discriminate.
    - destruct (str_eqb (split_first qs) K_LBRACKET) eqn:E; auto.
      apply str_eqb_eq in E. unfold arm, parse_simple_constraint in H. rewrite E in H.
      cbn [str_eqb N.eqb Pos.eqb andb K_LBRACKET K_ID K_TEXT K_ANNOTATION K_RESOURCE K_DATASET K_RELATION K_DATA
           K_VALUE K_KEY K_SUBSTORE K_LIMIT bind] in H. discriminate.
  Qed.

  Lemma parse_attributes_none : forall qs, no_trail qs -> (forall r, trim_start qs <> c_at :: r) ->
    parse_attributes qs = Ok ([], trim_start qs).
  Proof.
    intros qs H NA. unfold parse_attributes. rewrite trim_no_trail by exact H.
    destruct (trim_start qs) as [|c r] eqn:E; [reflexivity|].
    cbn [parse_attributes_loop]. destruct (c =? c_at)%N eqn:EC; [|reflexivity].
    apply N.eqb_eq in EC. subst c. exfalso. eapply NA. reflexivity.
  Qed.

  Theorem fix_constraint_simple : forall f c t rest,
    simple_ok c -> print_constraint c = Some t -> no_trail (t ++ rest) ->
    parse_constraint dt re (S f) (t ++ rest) = Ok (c, [], trim_start rest).
  Proof.
    intros f c t rest Hok Hp Ht.
    pose proof (fix_simple c t rest Hok Hp) as A.
    destruct (arm_ok_head _ _ A) as [NA NB].
    cbn [parse_constraint]. rewrite parse_attributes_none by assumption. cbn [bind]. cbv zeta.
    rewrite NB. unfold arm in A.
    destruct (parse_simple_constraint dt re (split_first (trim_start (t ++ rest))) (trim_start (t ++ rest)))
      as [[c' r]| | |]; cbn [bind] in *; try discriminate.
    destruct (eat_semi r); cbn [bind] in *; try discriminate. inversion A; subst. reflexivity.
  Qed.
End Constraints.

(* ---------- outside the known classes every printable simple constraint is covered ---------- *)
Section Bridge.
  Variable dt : str -> option str.
  Variable re : str -> bool.

  Lemma bad_var_tok : forall v, bad_var v = false -> tok_ok v = true.
  Proof.
    induction v as [|c v IH]; cbn; auto. intros H. apply orb_false_iff in H as [H1 H2].
    apply orb_false_iff in H1 as [H1 _]. apply orb_false_iff in H1 as [Ht Hq].
    unfold tok_char. rewrite Ht, Hq. cbn. apply IH. exact H2.
  Qed.

  Lemma in_isize_b_ok : forall z, in_isize_b z = true -> in_isize z.
  Proof. intros z H. unfold in_isize_b in H. apply andb_true_iff in H as [H1 H2]. split; apply Z.leb_le; auto. Qed.

  Lemma offset_ok_valid : forall o, offset_ok o = true -> off_valid o.
  Proof.
    intros [[b e]|] H; cbn in *; auto. apply andb_true_iff in H as [Hb He].
    split; [destruct b; apply andb_true_iff in Hb as [? ?] | destruct e; apply andb_true_iff in He as [? ?]];
      cbn; split; apply Z.leb_le; auto.
  Qed.

  Lemma dt_canonical_b_ok : forall d, dt_canonical_b dt d = true -> dt_canonical dt d.
  Proof.
    intros d H. unfold dt_canonical_b in H.
    apply andb_true_iff in H as [H H4]. apply andb_true_iff in H as [H H3]. apply andb_true_iff in H as [H1 H2].
    split; [exact H1|]. split; [destruct (get_arg_type dt d false); try discriminate; reflexivity|].
    split.
    - destruct (dt d) as [d'|]; [|discriminate]. apply str_eqb_eq in H3. congruence.
    - destruct d as [|x v]; [discriminate|]. exists x, v. split; auto. apply negb_true_iff. exact H4.
  Qed.

  Lemma base_ok_of : forall b,
    base_wf dt b = true -> base_leaf leaf_quote b = false -> base_leaf (leaf_keyword dt) b = false ->
    (match b with BLeaf l => leaf_float l | BCmpF _ _ => true | _ => false end) = false ->
    (forall l, b <> BOr l) -> base_ok dt b.
  Proof.
    intros b Hw Hq Hk Hf Hor. destruct b as [| | | |[s|z|f]|c z|c f|c d|l]; cbn in *; auto; try discriminate.
    - split; auto. destruct (get_arg_type dt s true); try discriminate; reflexivity.
    - apply in_isize_b_ok; auto.
    - apply in_isize_b_ok; auto.
    - apply dt_canonical_b_ok; auto.
    - exfalso. eapply Hor. reflexivity.
  Qed.

  Lemma op_ok_of : forall op t,
    op_wf dt op = true -> base_leaf leaf_quote (op_base op) = false ->
    base_leaf (leaf_keyword dt) (op_base op) = false -> op_float op = false ->
    print_dataop op = Some t -> op_ok dt op.
  Proof.
    intros op t Hw Hq Hk Hf Hp. unfold op_float in Hf.
    assert (Hor : forall l, op_base op <> BOr l).
    { intros l E. destruct op as [b|b]; cbn in E; subst b; cbn in Hp; discriminate. }
    pose proof (base_ok_of (op_base op) Hw Hq Hk Hf Hor) as B.
    destruct op as [b|b]; cbn [op_ok op_base] in *; auto. split; auto.
    destruct b; cbn in Hp; try discriminate; auto.
  Qed.

  Ltac split_free H :=
    unfold class_free in H; apply negb_true_iff in H;
    repeat (let H' := fresh "F" in apply orb_false_iff in H as [H H']).

  Theorem class_free_simple_ok : forall c t,
    wf_constr dt re c = true -> class_free dt c = true -> (forall l, c <> CUnion l) ->
    print_constraint c = Some t -> simple_ok dt re c.
  Proof.
    intros c t Hw Hf NU Hp. split_free Hf.
    destruct c; cbn [simple_ok c_quote c_var c_float c_keyword c_depth c_kvvar c_rel c_any wf_constr] in *;
      try discriminate.
    - exact Hf.
    - apply orb_false_iff in F3 as [R V]. split; [exact Hf|]. split; [exact V|].
      split; [intros ->; destruct q; exact R|]. split; [|apply offset_ok_valid; exact Hw].
      unfold depth_ok. destruct d, q; try discriminate; auto.
    - apply orb_false_iff in F3 as [R V]. split; [exact Hf|]. split; [exact V|].
      split; [destruct q; exact R | apply offset_ok_valid; exact Hw].
    - apply orb_false_iff in F3 as [R V]. split; [exact Hf|]. split; [exact V | destruct q; exact R].
    - apply orb_false_iff in Hf as [Q1 Q2]. apply orb_false_iff in F3 as [R V].
      repeat split; auto. destruct q; exact R.
    - destruct id as [id|]; auto. apply orb_false_iff in F3 as [F3 E]. apply orb_false_iff in F3 as [V N].
      repeat split; auto. destruct id; [discriminate | discriminate].
    - apply orb_false_iff in F5 as [B E]. split; [apply bad_var_tok; exact B | destruct v; discriminate].
    - apply bad_var_tok; exact F5.
    - apply orb_false_iff in F5 as [B E]. split; [apply bad_var_tok; exact B | destruct v; discriminate].
    - apply orb_false_iff in F5 as [B E]. split; [split; [apply bad_var_tok; exact B | destruct v; discriminate]|].
      apply offset_ok_valid; exact Hw.
    - apply orb_false_iff in F5 as [B E]. split; [apply bad_var_tok; exact B | destruct v; discriminate].
    - apply orb_false_iff in F5 as [B E]. split; [apply bad_var_tok; exact B | destruct v; discriminate].
    - apply orb_false_iff in F0 as [D K]. apply negb_false_iff in D.
      split; [apply bad_var_tok; exact F5|]. split; [exact D|]. split; intros ->; discriminate.
    - apply orb_false_iff in Hf as [Q Q3]. apply orb_false_iff in Q as [Q1 Q2].
      apply orb_false_iff in F3 as [F3 K]. apply orb_false_iff in F3 as [R V].
      split; [exact Q1|]. split; [exact Q2|]. split; [exact V|]. split; [destruct q; exact R|].
      assert (NA : op <> Pos BAny) by (intros ->; discriminate).
      split; [|exact NA].
      cbn [print_constraint] in Hp. destruct (print_dataop op) as [o|] eqn:Eo.
      + eapply op_ok_of; eauto.
      + destruct op as [[| | | |l|c z|c f|c d|l]|b]; discriminate.
    - cbn [print_constraint] in Hp. destruct (print_dataop op) as [o|] eqn:Eo; [|discriminate].
      eapply op_ok_of; eauto.
    - apply orb_false_iff in F3 as [A V]. split; [exact Hf|]. split; [exact V|].
      intros ->. exact A.
    - split; [exact Hf|]. split; [exact F3 | exact Hw].
    - exfalso. eapply NU. reflexivity.
    - apply orb_false_iff in F5 as [B E]. split; [split; [apply bad_var_tok; exact B | destruct v; discriminate]|].
      split; [|apply offset_ok_valid; exact Hw]. unfold depth_ok. destruct d, q; try discriminate; auto.
    - apply andb_true_iff in Hw as [B E]. split; apply in_isize_b_ok; auto.
  Qed.

  (* the constraint-level fixpoint, stated with the classes the check uses *)
  Theorem constraint_fixpoint : forall f c t rest,
    wf_constr dt re c = true -> class_free dt c = true -> (forall l, c <> CUnion l) ->
    print_constraint c = Some t -> no_trail (t ++ rest) ->
    parse_constraint dt re (S f) (t ++ rest) = Ok (c, [], trim_start rest).
  Proof.
    intros f c t rest Hw Hf NU Hp Ht. apply fix_constraint_simple; auto.
    eapply class_free_simple_ok; eauto.
  Qed.
End Bridge.
