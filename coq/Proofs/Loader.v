(* Lemmas about the loader model (Model/Loader.v) and its specification (Spec/LoaderSpec.v). *)
From Coq Require Import List NArith ZArith Bool Arith Lia String Ascii.
Import ListNotations.
From Stam Require Import Base.Tac Model.Loader Spec.LoaderSpec.
Local Open Scope N_scope.

(* ------------------------------------------------------------------ *)
(* decimal integers                                                    *)

Lemma digit_spec c : digit c = if is_digit c then Some (c - 48) else None.
Proof. reflexivity. Qed.

Definition eval_from (a : N) (s : str) : N := fold_left (fun a c => a * 10 + (c - 48)) s a.

Lemma eval_from_ge s : forall a, a <= eval_from a s.
Proof.
  induction s as [|c s IH]; intro a; cbn [eval_from fold_left]; [lia|].
  etransitivity; [|apply IH]. lia.
Qed.

Lemma eval_from_app s t a : eval_from a (s ++ t) = eval_from (eval_from a s) t.
Proof. unfold eval_from. apply fold_left_app. Qed.

Lemma digits_val_spec max s : forall a, a <= max ->
  digits_val max a s = if forallb is_digit s && (eval_from a s <=? max) then Some (eval_from a s) else None.
Proof.
  induction s as [|c s IH]; intros a Ha.
  - cbn [digits_val forallb eval_from fold_left andb].
    destruct (N.leb_spec a max); [reflexivity|lia].
  - cbn [digits_val forallb]. rewrite digit_spec.
    destruct (is_digit c) eqn:Ec; cbn [andb]; [|reflexivity].
    change (eval_from a (c :: s)) with (eval_from (a * 10 + (c - 48)) s).
    destruct (N.ltb_spec max (a * 10 + (c - 48))) as [Hlt|Hle].
    + pose proof (eval_from_ge s (a * 10 + (c - 48))) as Hge.
      destruct (N.leb_spec (eval_from (a * 10 + (c - 48)) s) max); [lia|].
      rewrite andb_false_r. reflexivity.
    + apply IH. exact Hle.
Qed.

Lemma nonempty_digits_spec max s : nonempty_digits max s = spec_digits max s.
Proof.
  destruct s as [|c s]; [reflexivity|].
  unfold nonempty_digits, spec_digits. rewrite digits_val_spec by lia. reflexivity.
Qed.

Lemma parse_usize_spec s : parse_usize s = spec_usize s.
Proof.
  destruct s as [|c r]; [reflexivity|].
  unfold parse_usize, spec_usize. rewrite !nonempty_digits_spec.
  destruct (N.eqb_spec c 43) as [->|Hne]; [reflexivity|].
  destruct c as [|p]; [reflexivity|].
  repeat (destruct p as [p|p|]; try reflexivity); exfalso; apply Hne; reflexivity.
Qed.

(* printing *)
Lemma dec_fuel_digits f : forall n, forallb is_digit (dec_fuel f n) = true.
Proof.
  induction f as [|f IH]; intro n; [reflexivity|].
  cbn [dec_fuel]. destruct (N.ltb_spec n 10).
  - cbn [forallb]. unfold is_digit. rewrite andb_true_r.
    apply andb_true_intro. split; apply N.leb_le; lia.
  - rewrite forallb_app, IH. cbn [forallb andb]. unfold is_digit. rewrite andb_true_r.
    pose proof (N.mod_lt n 10 ltac:(lia)) as Hm. set (m := n mod 10) in *. clearbody m. apply andb_true_intro. split; apply N.leb_le; lia.
Qed.

Lemma dec_fuel_nonempty f n : dec_fuel (S f) n <> [].
Proof.
  cbn [dec_fuel]. destruct (n <? 10); [discriminate|].
  intro H. apply app_eq_nil in H. destruct H as [_ H]. discriminate.
Qed.

Lemma dec_fuel_eval f : forall n, n < 2 ^ N.of_nat f -> eval_from 0 (dec_fuel f n) = n.
Proof.
  induction f as [|f IH]; intros n Hn.
  - cbn in Hn. assert (n = 0) by lia. subst. reflexivity.
  - cbn [dec_fuel]. destruct (N.ltb_spec n 10).
    + cbn [eval_from fold_left]. lia.
    + rewrite eval_from_app, IH.
      * cbn [eval_from fold_left]. pose proof (N.div_mod' n 10) as Hdm.
        set (d := n / 10) in *. set (m := n mod 10) in *. clearbody d m. lia.
      * rewrite Nat2N.inj_succ, N.pow_succ_r' in Hn.
        apply N.div_lt_upper_bound; lia.
Qed.

Lemma size_nat_bound n : n < 2 ^ N.of_nat (N.size_nat n).
Proof.
  destruct n as [|p]; [cbn; lia|].
  cbn [N.size_nat]. induction p as [p IH|p IH|]; cbn [Pos.size_nat].
  - rewrite Nat2N.inj_succ, N.pow_succ_r'. lia.
  - rewrite Nat2N.inj_succ, N.pow_succ_r'. lia.
  - cbn. lia.
Qed.

Lemma dec_eval n : eval_from 0 (dec n) = n.
Proof.
  unfold dec. apply dec_fuel_eval.
  pose proof (size_nat_bound n) as H.
  rewrite Nat2N.inj_succ, N.pow_succ_r'. lia.
Qed.

Lemma spec_digits_dec max n : n <= max -> spec_digits max (dec n) = Some n.
Proof.
  intro Hn. unfold spec_digits.
  destruct (dec n) eqn:E; [exfalso; exact (dec_fuel_nonempty _ _ E)|].
  rewrite <- E. unfold dec at 1. rewrite dec_fuel_digits. cbn [andb].
  change (eval_digits (dec n)) with (eval_from 0 (dec n)). rewrite dec_eval.
  destruct (N.leb_spec n max); [reflexivity|lia].
Qed.

Lemma dec_head_digit n : exists c r, dec n = c :: r /\ is_digit c = true.
Proof.
  destruct (dec n) as [|c r] eqn:E; [exfalso; exact (dec_fuel_nonempty _ _ E)|].
  exists c, r. split; [reflexivity|].
  pose proof (dec_fuel_digits (S (N.size_nat n)) n) as H. fold (dec n) in H. rewrite E in H.
  cbn [forallb] in H. apply andb_prop in H. tauto.
Qed.

Lemma parse_usize_dec n : n <= usize_max -> parse_usize (dec n) = Some n.
Proof.
  intro Hn. rewrite parse_usize_spec.
  destruct (dec_head_digit n) as (c & r & E & Hc).
  unfold spec_usize. rewrite E.
  assert (c <> 43) as Hne.
  { intros ->. discriminate Hc. }
  rewrite <- E.
  destruct c as [|p]; [apply spec_digits_dec; exact Hn|].
  repeat (destruct p as [p|p|]; try (apply spec_digits_dec; exact Hn)); exfalso; apply Hne; reflexivity.
Qed.

(* ------------------------------------------------------------------ *)
(* cursors                                                             *)

(* split on whether a scalar value is a given small literal *)
Ltac split_lit_by c tac :=
  destruct c as [|c]; [|repeat (destruct c as [c|c|]; try (solve [tac]))].
Ltac split_lit c := split_lit_by c reflexivity.

Lemma cursor_model_spec s : cursor_of_str s = spec_cursor s.
Proof.
  destruct s as [|c r]; [reflexivity|].
  unfold cursor_of_str. destruct (N.eqb_spec c 45) as [->|Hne].
  - cbn [spec_cursor]. unfold parse_isize.
    change (45 =? 43) with false. change (45 =? 45) with true. cbn iota.
    rewrite nonempty_digits_spec.
    destruct (spec_digits isize_min_abs r) as [n|]; [|reflexivity].
    cbn [option_map]. destruct (Z.ltb_spec 0 (- Z.of_N n)); [lia|reflexivity].
  - rewrite parse_usize_spec.
    split_lit c; try reflexivity. exfalso; apply Hne; reflexivity.
Qed.

Lemma cursor_total s : exists r, cursor_of_str s = r /\ r <> Panic /\ r <> Abort /\ r <> Hang.
Proof.
  eexists; split; [reflexivity|].
  unfold cursor_of_str.
  destruct s as [|c r].
  - destruct (parse_usize []); repeat split; discriminate.
  - destruct (c =? 45).
    + destruct (parse_isize (c :: r)) as [z|]; [destruct (0 <? z)%Z|]; repeat split; discriminate.
    + destruct (parse_usize (c :: r)); repeat split; discriminate.
Qed.

Definition cursor_wf (c : cursor) : Prop :=
  match c with
  | CBegin n => n <= usize_max
  | CEnd z => (- Z.of_N isize_min_abs <= z <= 0)%Z
  end.

Lemma cursor_roundtrip c : cursor_wf c -> cursor_of_str (str_of_cursor c) = Ok c.
Proof.
  destruct c as [n|z]; cbn [cursor_wf str_of_cursor]; intro H.
  - rewrite cursor_model_spec.
    destruct (dec_head_digit n) as (c & r & E & Hc).
    assert (spec_usize (dec n) = Some n) as Hs.
    { rewrite <- parse_usize_spec. apply parse_usize_dec. exact H. }
    unfold spec_cursor. rewrite E in *.
    assert (c <> 45) as Hne by (intros ->; discriminate Hc).
    split_lit_by c ltac:(rewrite Hs; reflexivity); try (rewrite Hs; reflexivity). exfalso; apply Hne; reflexivity.
  - destruct (Z.eqb_spec z 0) as [->|Hz]; [reflexivity|].
    destruct (Z.ltb_spec z 0); [|lia].
    rewrite cursor_model_spec. cbn [spec_cursor].
    rewrite spec_digits_dec by (unfold isize_min_abs in *; lia).
    f_equal. f_equal. lia.
Qed.

(* ------------------------------------------------------------------ *)
(* finite tables                                                       *)

(* ascii_lower, lower_with: Model/Loader.v *)

Lemma type_roundtrip hi t : type_of_str (lower_with hi) (str_of_type t) = Ok t.
Proof. destruct t; vm_compute; reflexivity. Qed.

Lemma type_total lower s : type_of_str lower s <> Panic /\ type_of_str lower s <> Abort /\ type_of_str lower s <> Hang.
Proof. unfold type_of_str. destruct (assoc _ _); repeat split; discriminate. Qed.

Lemma kind_roundtrip k : kind_of_str (str_of_kind k) = Ok k.
Proof. destruct k; vm_compute; reflexivity. Qed.

Lemma kind_total s : kind_of_str s <> Panic /\ kind_of_str s <> Abort /\ kind_of_str s <> Hang.
Proof. unfold kind_of_str. destruct (assoc _ _); repeat split; discriminate. Qed.

Lemma format_roundtrip f : exists f', format_of_str (str_of_format f) = Ok f' /\
  match f, f' with FJson _, FJson _ => True | FCbor, FCbor => True | FCsv, FCsv => True | _, _ => False end.
Proof. destruct f; eexists; (split; [vm_compute; reflexivity|exact I]). Qed.

Lemma format_total s : format_of_str s <> Panic /\ format_of_str s <> Abort /\ format_of_str s <> Hang.
Proof. unfold format_of_str. destruct (assoc _ _); repeat split; discriminate. Qed.

(* ------------------------------------------------------------------ *)
(* temporary identifiers                                               *)

Lemma temp_id_ok is_upper s : exists o, resolve_temp_id is_upper false s = Ok o.
Proof.
  unfold resolve_temp_id.
  destruct s as [|c [|x rest]]; try (eexists; reflexivity).
  destruct (negb (c =? 33)); [eexists; reflexivity|].
  destruct (negb (is_upper x)); [eexists; reflexivity|].
  destruct (clen x =? 1); eexists; reflexivity.
Qed.

Lemma temp_id_old_refuted :
  resolve_temp_id (fun c => c =? 201) true [33; 201; 49] = Panic.
Proof. reflexivity. Qed.

Lemma clen_one x : (clen x =? 1) = (x <? 128).
Proof.
  unfold clen. destruct (x <? 128); [reflexivity|].
  destruct (x <? 2048); [reflexivity|]. destruct (x <? 65536); reflexivity.
Qed.

Lemma temp_id_spec is_upper s :
  (forall c, c < 128 -> is_upper c = ascii_upper c) ->
  resolve_temp_id is_upper false s = Ok (spec_temp_id s).
Proof.
  intro Hup. unfold resolve_temp_id.
  destruct s as [|c [|x rest]].
  - reflexivity.
  - split_lit c; reflexivity.
  - destruct (N.eqb_spec c 33) as [->|Hne]; cbn [negb].
    + cbn [spec_temp_id]. rewrite clen_one.
      destruct (N.ltb_spec x 128) as [Hx|Hx].
      * rewrite (Hup x Hx). destruct (ascii_upper x); cbn [negb]; [|reflexivity].
        rewrite parse_usize_spec. reflexivity.
      * assert (ascii_upper x = false) as ->.
        { unfold ascii_upper. apply andb_false_intro2. apply N.leb_gt. lia. }
        destruct (is_upper x); reflexivity.
    + split_lit c; try reflexivity. exfalso; apply Hne; reflexivity.
Qed.

Lemma temp_id_roundtrip is_upper letter h :
  ascii_upper letter = true -> is_upper letter = true -> h <= usize_max ->
  resolve_temp_id is_upper false (temp_id letter h) = Ok (Some h).
Proof.
  intros Ha Hu Hh. unfold resolve_temp_id, temp_id.
  change (33 =? 33) with true. cbn [negb]. rewrite Hu. cbn [negb].
  rewrite clen_one.
  assert (letter <? 128 = true) as ->.
  { unfold ascii_upper in Ha. apply andb_prop in Ha. destruct Ha as [_ Ha].
    apply N.leb_le in Ha. apply N.ltb_lt. lia. }
  rewrite parse_usize_dec by exact Hh. reflexivity.
Qed.

(* ------------------------------------------------------------------ *)
(* the visitors                                                        *)

Section Visit.
  Variable is_upper : N -> bool.
  Variables cap ovf : N.
  Variable strip : bool.

  Notation step := (visit_step is_upper cap ovf strip false).
  Notation vfrom := (visit_from is_upper cap ovf strip false).
  Notation vdoc := (visit_doc is_upper cap ovf strip false).
  Notation etemp := (elem_temp is_upper strip).

  Definition abs_elem (e : velem) : option N * bool := (etemp e, v_build e).

  Lemma temp_handle_ok e : temp_handle is_upper strip false e = Ok (etemp e).
  Proof.
    unfold elem_temp, temp_handle. destruct strip; [|reflexivity].
    destruct (v_id e) as [s|]; [|reflexivity].
    destruct (temp_id_ok is_upper s) as (o & ->). destruct o; reflexivity.
  Qed.

  Definition safe (s : status) : Prop := s = SOk \/ s = SErr.

  (* one step written on the abstraction: where does the item go *)
  Definition step_at (pre next : N) (t : option N) : option N :=
    match t with
    | Some h => if N.min usize_max (h + pre) <? next then None
                else if next <? h then (if cap <=? h then None else Some h)
                else Some next
    | None => Some next
    end.

  Lemma step_char pre st e :
    match step_at pre (slots st) (etemp e) with
    | None => step pre st e = (SErr, st)
    | Some p =>
        if v_build e then
          step pre st e = (SOk, {| slots := p + 1;
                                   alloc := if slots st <? p then N.max (alloc st) p else alloc st;
                                   placed := p :: placed st |})
        else step pre st e =
             (SErr, if slots st <? p
                    then {| slots := p; alloc := N.max (alloc st) p; placed := placed st |} else st)
    end.
  Proof.
    unfold visit_step, step_at. rewrite temp_handle_ok. cbn [andb].
    destruct (etemp e) as [h|].
    - destruct (N.min usize_max (h + pre) <? slots st); [reflexivity|].
      destruct (N.ltb_spec (slots st) h) as [Hlt|Hge].
      + destruct (cap <=? h); [reflexivity|].
        destruct (v_build e); cbn [negb].
        * cbn [slots alloc placed]. destruct (N.ltb_spec (slots st) h); [reflexivity|lia].
        * destruct (N.ltb_spec (slots st) h); [reflexivity|lia].
      + destruct (v_build e); cbn [negb]; rewrite N.ltb_irrefl; [destruct st|]; reflexivity.
    - destruct (v_build e); cbn [negb]; rewrite N.ltb_irrefl; [destruct st|]; reflexivity.
  Qed.

  Lemma step_safe pre st e : safe (fst (step pre st e)).
  Proof.
    pose proof (step_char pre st e) as H.
    destruct (step_at pre (slots st) (etemp e)).
    - destruct (v_build e); rewrite H; [left|right]; reflexivity.
    - rewrite H. right. reflexivity.
  Qed.

  Lemma vfrom_safe pre l : forall st, safe (fst (vfrom pre st l)).
  Proof.
    induction l as [|e l IH]; intro st; cbn [visit_from]; [left; reflexivity|].
    pose proof (step_safe pre st e) as Hs.
    destruct (step pre st e) as [s st'] eqn:E. cbn [fst] in Hs.
    destruct s; try apply IH; cbn [fst]; destruct Hs; try discriminate; right; reflexivity.
  Qed.

  Lemma vdoc_safe d : forall st, safe (fst (vdoc st d)).
  Proof.
    induction d as [|l d IH]; intro st; cbn [visit_doc]; [left; reflexivity|].
    unfold visit. pose proof (vfrom_safe (slots st) l st) as Hs.
    destruct (vfrom (slots st) st l) as [s st'] eqn:E. cbn [fst] in Hs.
    destruct s; try apply IH; cbn [fst]; destruct Hs; try discriminate; right; reflexivity.
  Qed.

  (* model = specification: the handles of the items, or an error *)
  Lemma vfrom_spec pre l : forall st,
    match spec_place cap pre (slots st) (map abs_elem l) with
    | Some ps => fst (vfrom pre st l) = SOk
                 /\ placed (snd (vfrom pre st l)) = rev ps ++ placed st
                 /\ slots (snd (vfrom pre st l)) = match ps with [] => slots st | _ => last ps 0 + 1 end
    | None => fst (vfrom pre st l) = SErr
    end.
  Proof.
    induction l as [|e l IH]; intro st.
    - cbn. repeat split.
    - cbn [map spec_place abs_elem visit_from].
      pose proof (step_char pre st e) as Hc. fold (step_at pre (slots st) (etemp e)).
      destruct (step_at pre (slots st) (etemp e)) as [p|].
      + destruct (v_build e).
        * rewrite Hc.
          set (st1 := {| slots := p + 1; alloc := _; placed := _ |}).
          specialize (IH st1). change (slots st1) with (p + 1) in IH.
          destruct (spec_place cap pre (p + 1) (map abs_elem l)) as [ps|]; cbn [option_map].
          -- destruct IH as (H1 & H2 & H3).
             split; [exact H1|]. split.
             ++ rewrite H2. cbn [rev placed st1]. rewrite <- app_assoc. reflexivity.
             ++ rewrite H3. destruct ps as [|q ps]; reflexivity.
          -- exact IH.
        * rewrite Hc. reflexivity.
      + rewrite Hc. reflexivity.
  Qed.

  Lemma last_app_cons {A} (l : list A) q qs d : last (l ++ q :: qs) d = last (q :: qs) d.
  Proof.
    induction l as [|a l IH]; [reflexivity|].
    change ((a :: l) ++ q :: qs) with (a :: (l ++ q :: qs)).
    destruct (l ++ q :: qs) as [|x xs] eqn:E; [destruct l; discriminate|].
    change (last (a :: x :: xs) d) with (last (x :: xs) d). exact IH.
  Qed.

  Lemma next_after_app next ps qs :
    next_after (next_after next ps) qs = next_after next (ps ++ qs).
  Proof.
    unfold next_after. destruct qs as [|q qs].
    - rewrite app_nil_r. reflexivity.
    - destruct (ps ++ q :: qs) eqn:E; [destruct ps; discriminate|]. rewrite <- E.
      rewrite last_app_cons. reflexivity.
  Qed.

  Lemma vdoc_spec d : forall st,
    match spec_doc cap (slots st) (map (map abs_elem) d) with
    | Some ps => fst (vdoc st d) = SOk
                 /\ placed (snd (vdoc st d)) = rev ps ++ placed st
                 /\ slots (snd (vdoc st d)) = next_after (slots st) ps
    | None => fst (vdoc st d) = SErr
    end.
  Proof.
    induction d as [|l d IH]; intro st.
    - cbn. repeat split.
    - cbn [map spec_doc visit_doc]. unfold visit.
      pose proof (vfrom_spec (slots st) l st) as Hl.
      destruct (spec_place cap (slots st) (slots st) (map abs_elem l)) as [ps|].
      + destruct Hl as (H1 & H2 & H3). fold (next_after (slots st) ps) in H3.
        destruct (vfrom (slots st) st l) as [s st1]. cbn [fst snd] in H1, H2, H3. subst s.
        specialize (IH st1). rewrite H3 in IH.
        destruct (spec_doc cap (next_after (slots st) ps) (map (map abs_elem) d)) as [qs|]; cbn [option_map].
        * destruct IH as (I1 & I2 & I3). split; [exact I1|]. split.
          -- rewrite I2, H2, rev_app_distr, app_assoc. reflexivity.
          -- rewrite I3. apply next_after_app.
        * exact IH.
      + destruct (vfrom (slots st) st l) as [s st1]. cbn [fst] in Hl. subst s. reflexivity.
  Qed.

  (* exactness: in an array read into a store that was empty when the array started
     (pre = 0), an item with temporary identifier !Xh gets handle h, any other item the
     handle after its predecessor, and handles increase strictly *)
  Fixpoint exact_from (next : N) (l : list (option N * bool)) (ps : list N) : Prop :=
    match l, ps with
    | [], [] => True
    | (t, _) :: l', p :: ps' =>
        next <= p /\ match t with Some h => p = h | None => p = next end /\ exact_from (p + 1) l' ps'
    | _, _ => False
    end.

  Lemma spec_place_exact l : forall next ps,
    spec_place cap 0 next l = Some ps -> exact_from next l ps.
  Proof.
    induction l as [|[t b] l IH]; intros next ps H.
    - cbn [spec_place] in H. injection H as <-. exact I.
    - cbn [spec_place] in H.
      destruct t as [h|].
      + rewrite N.add_0_r in H.
        pose proof (N.le_min_r usize_max h) as Hmin0.
        set (m := N.min usize_max h) in *. clearbody m.
        destruct (N.ltb_spec m next) as [|Hmin]; [discriminate|].
        destruct (N.ltb_spec next h) as [Hlt|Hge].
        * destruct (cap <=? h); [discriminate|]. destruct b; [|discriminate].
          destruct (spec_place cap 0 (h + 1) l) as [qs|] eqn:E; [|discriminate].
          cbn [option_map] in H. injection H as <-. cbn [exact_from].
          split; [lia|]. split; [reflexivity|]. apply IH. exact E.
        * destruct b; [|discriminate].
          destruct (spec_place cap 0 (next + 1) l) as [qs|] eqn:E; [|discriminate].
          cbn [option_map] in H. injection H as <-. cbn [exact_from].
          split; [lia|]. split; [lia|]. apply IH. exact E.
      + destruct b; [|discriminate].
        destruct (spec_place cap 0 (next + 1) l) as [qs|] eqn:E; [|discriminate].
        cbn [option_map] in H. injection H as <-. cbn [exact_from].
        split; [lia|]. split; [reflexivity|]. apply IH. exact E.
  Qed.

  (* memory: slots requested because of identifiers *)
  Lemma step_alloc pre st e B :
    match etemp e with Some h => h <= B | None => True end ->
    alloc (snd (step pre st e)) <= N.max (alloc st) B
    /\ slots (snd (step pre st e)) <= N.max (slots st) B + 1.
  Proof.
    intro HB. pose proof (step_char pre st e) as Hc. unfold step_at in Hc.
    revert HB Hc. destruct (etemp e) as [h|]; intros HB Hc.
    - destruct (N.min usize_max (h + pre) <? slots st); [rewrite Hc; cbn [snd]; lia|].
      destruct (N.ltb_spec (slots st) h) as [Hlt|Hge].
      + destruct (cap <=? h); [rewrite Hc; cbn [snd]; lia|].
        destruct (v_build e); rewrite Hc; cbn [snd alloc slots];
          (destruct (N.ltb_spec (slots st) h); [|lia]); cbn [alloc slots]; lia.
      + destruct (v_build e); rewrite Hc; cbn [snd alloc slots]; rewrite N.ltb_irrefl; lia.
    - destruct (v_build e); rewrite Hc; cbn [snd alloc slots]; rewrite N.ltb_irrefl; lia.
  Qed.

  Definition temps_le (B : N) (l : list velem) : Prop :=
    Forall (fun e => match etemp e with Some h => h <= B | None => True end) l.

  Lemma vfrom_alloc pre B l : forall st, temps_le B l ->
    alloc (snd (vfrom pre st l)) <= N.max (alloc st) B
    /\ slots (snd (vfrom pre st l)) <= N.max (slots st) B + N.of_nat (List.length l).
  Proof.
    induction l as [|e l IH]; intros st HB; cbn [visit_from].
    - cbn. lia.
    - inversion HB as [|? ? He Hl]; subst.
      pose proof (step_alloc pre st e B He) as (Ha & Hs).
      destruct (step pre st e) as [s st'] eqn:E. cbn [snd] in Ha, Hs.
      assert (N.of_nat (List.length (e :: l)) = N.of_nat (List.length l) + 1) as Hlen.
      { cbn [List.length]. lia. }
      destruct s; cbn [snd]; try lia.
      specialize (IH st' Hl). lia.
  Qed.

  Lemma vdoc_alloc B d : forall st, Forall (temps_le B) d ->
    alloc (snd (vdoc st d)) <= N.max (alloc st) B
    /\ slots (snd (vdoc st d)) <= N.max (slots st) B + N.of_nat (List.length (concat d)).
  Proof.
    induction d as [|l d IH]; intros st HB; cbn [visit_doc].
    - cbn. lia.
    - inversion HB as [|? ? Hl Hd]; subst. unfold visit.
      pose proof (vfrom_alloc (slots st) B l st Hl) as (Ha & Hs).
      destruct (vfrom (slots st) st l) as [s st'] eqn:E. cbn [snd] in Ha, Hs.
      cbn [concat]. rewrite app_length, Nat2N.inj_add.
      destruct s; cbn [snd]; try lia.
      specialize (IH st' Hd). lia.
  Qed.
End Visit.

(* before the repairs: witnesses of a panic / an abort *)
Definition up_run (c : N) : bool := ((65 <=? c) && (c <=? 90)) || (c =? 201).
Definition cap_run : N := 2 ^ 25.
Definition ovf_run : N := 2 ^ 56.
Definition st0 : vstate := {| slots := 0; alloc := 0; placed := [] |}.
Definition el (id : string) : velem := {| v_id := Some (lit id); v_build := true; v_kinds := [] |}.

Lemma visit_old_abort :
  fst (visit_doc up_run cap_run ovf_run true true st0 [[el "!A99999999999"]]) = SAbort.
Proof. vm_compute. reflexivity. Qed.

Lemma visit_old_capacity_overflow :
  fst (visit_doc up_run cap_run ovf_run true true st0 [[el "!A18446744073709551615"]]) = SPanic.
Proof. vm_compute. reflexivity. Qed.

Lemma visit_old_add_overflow :
  fst (visit_doc up_run cap_run ovf_run true true st0 [[el "x"]; [el "!A18446744073709551615"]]) = SPanic.
Proof. vm_compute. reflexivity. Qed.

Lemma visit_old_slicing :
  fst (visit_doc up_run cap_run ovf_run true true st0
         [[{| v_id := Some [33; 201; 49]; v_build := true; v_kinds := [] |}]]) = SPanic.
Proof. vm_compute. reflexivity. Qed.

Lemma visit_old_comparator :
  fst (visit_doc up_run cap_run ovf_run true true st0
         [[{| v_id := None; v_build := true; v_kinds := [KDataKey; KDataKey] |}]]) = SPanic.
Proof. vm_compute. reflexivity. Qed.

(* the same inputs now *)
Lemma visit_now_witnesses :
  fst (visit_doc up_run cap_run ovf_run true false st0 [[el "!A99999999999"]]) = SErr
  /\ fst (visit_doc up_run cap_run ovf_run true false st0 [[el "!A18446744073709551615"]]) = SErr
  /\ fst (visit_doc up_run cap_run ovf_run true false st0 [[el "x"]; [el "!A18446744073709551615"]]) = SErr
  /\ fst (visit_doc up_run cap_run ovf_run true false st0
         [[{| v_id := Some [33; 201; 49]; v_build := true; v_kinds := [] |}]]) = SOk
  /\ fst (visit_doc up_run cap_run ovf_run true false st0
         [[{| v_id := None; v_build := true; v_kinds := [KDataKey; KDataKey] |}]]) = SOk.
Proof. vm_compute. repeat split. Qed.

(* still the case: one short identifier makes the loader allocate a million slots *)
Lemma visit_alloc_refuted :
  let r := visit_doc up_run cap_run ovf_run true false st0 [[el "!A1000000"]] in
  fst r = SOk /\ alloc (snd r) = 1000000 /\ justified 0 1 = 1.
Proof. vm_compute. repeat split. Qed.

(* ------------------------------------------------------------------ *)
(* the CSV row decoder                                                 *)

Definition safeo {A} (o : outcome A) : Prop := o <> Panic /\ o <> Abort /\ o <> Hang.

Lemma safeo_ok {A} (a : A) : safeo (Ok a).
Proof. repeat split; discriminate. Qed.
Lemma safeo_err {A} : safeo (@Err A).
Proof. repeat split; discriminate. Qed.

Lemma bind_safe {A B} (o : outcome A) (f : A -> outcome B) :
  safeo o -> (forall a, safeo (f a)) -> safeo (bind o f).
Proof.
  intros (H1 & H2 & H3) Hf. destruct o; cbn [bind]; [apply Hf|apply safeo_err|contradiction|contradiction|contradiction].
Qed.

Lemma cursor_safe s : safeo (cursor_of_str s).
Proof. destruct (cursor_total s) as (r & <- & H). exact H. Qed.

Lemma cursor_pair_safe b e : safeo (cursor_pair b e).
Proof.
  unfold cursor_pair. apply bind_safe; [apply cursor_safe|]. intro cb.
  apply bind_safe; [apply cursor_safe|]. intro ce. apply safeo_ok.
Qed.

Lemma kinds_of_safe l : safeo (kinds_of l).
Proof.
  induction l as [|s l IH]; cbn [kinds_of]; [apply safeo_ok|].
  apply bind_safe; [exact (kind_total s)|]. intro k.
  apply bind_safe; [exact IH|]. intro ks. apply safeo_ok.
Qed.

Lemma split_semi_nonempty s : forall cur, split_semi s cur <> [].
Proof.
  induction s as [|c s IH]; intro cur; cbn [split_semi]; [discriminate|].
  destruct (c =? 59); [discriminate|apply IH].
Qed.

Lemma last_opt_some {A} (l : list A) : l <> [] -> exists x, last_opt l = Some x.
Proof.
  induction l as [|a l IH]; [contradiction|]. intros _.
  destruct l as [|b l]; [exists a; reflexivity|].
  destruct IH as (x & Hx); [discriminate|]. exists x. exact Hx.
Qed.

Lemma get_or_last_some {A} (l : list A) i : l <> [] -> exists x, get_or_last l i = Some x.
Proof.
  intro H. unfold get_or_last. destruct (last_opt_some l H) as (la & ->).
  destruct (nth_error l i); eexists; reflexivity.
Qed.

Lemma csv_sub_safe kinds ress dsets anns keys tdatas begins ends i :
  kinds <> [] -> ress <> [] -> dsets <> [] -> anns <> [] ->
  safeo (csv_sub false kinds ress dsets anns keys tdatas begins ends i).
Proof.
  intros Hk Hr Hd Ha. unfold csv_sub.
  destruct (get_or_last_some kinds i Hk) as (k & ->).
  destruct (get_or_last_some ress i Hr) as (r & Er).
  destruct (get_or_last_some dsets i Hd) as (d & Ed).
  destruct (get_or_last_some anns i Ha) as (a & Ea).
  destruct k; rewrite ?Er, ?Ed, ?Ea.
  - destruct (is_empty r); [apply safeo_err|apply safeo_ok].
  - destruct (is_empty a); [apply safeo_err|].
    destruct (nth_error begins i) as [b|]; [|apply safeo_ok].
    destruct (is_empty b); [apply safeo_ok|].
    destruct (nth_error ends i) as [e|]; cbn [negb andb]; [|apply safeo_err].
    destruct (is_empty e); [apply safeo_err|].
    apply bind_safe; [apply cursor_pair_safe|]. intro p. apply safeo_ok.
  - destruct (is_empty r); [apply safeo_err|].
    destruct (nth_error begins i) as [b|]; [|destruct (nth_error ends i); apply safeo_err].
    destruct (nth_error ends i) as [e|].
    + apply bind_safe; [apply cursor_pair_safe|]. intro p. apply safeo_ok.
    + apply bind_safe; [apply cursor_safe|]. intros _. apply safeo_err.
  - destruct (is_empty d); [apply safeo_err|apply safeo_ok].
  - destruct (get_or_last keys i); [|apply safeo_err].
    destruct (is_empty d); [apply safeo_err|apply safeo_ok].
  - destruct (get_or_last tdatas i); [|apply safeo_err].
    destruct (is_empty d); [apply safeo_err|apply safeo_ok].
  - apply safeo_err.
  - apply safeo_err.
  - apply safeo_err.
Qed.

Lemma csv_subs_safe kinds ress dsets anns keys tdatas begins ends is :
  kinds <> [] -> ress <> [] -> dsets <> [] -> anns <> [] ->
  safeo (csv_subs false kinds ress dsets anns keys tdatas begins ends is).
Proof.
  intros Hk Hr Hd Ha. induction is as [|i is IH]; cbn [csv_subs]; [apply safeo_ok|].
  apply bind_safe; [apply csv_sub_safe; assumption|]. intro b.
  apply bind_safe; [exact IH|]. intro bs. apply safeo_ok.
Qed.

Lemma csv_row_safe r : safeo (csv_row false r).
Proof.
  unfold csv_row. cbn [andb].
  apply bind_safe; [apply kinds_of_safe|]. intros [|k0 krest]; [apply safeo_err|].
  cbn [andb].
  apply bind_safe; [|intro t; apply safeo_ok].
  destruct (negb (kind_is_complex k0)).
  - repeat match goal with |- safeo (if ?c then Err else _) => destruct c; [apply safeo_err|] end.
    destruct k0; cbn [negb andb]; try apply safeo_ok; try apply safeo_err.
    + destruct (negb (is_empty (c_begin r)) && negb (is_empty (c_end r))); [|apply safeo_ok].
      apply bind_safe; [apply cursor_pair_safe|]. intro p. apply safeo_ok.
    + apply bind_safe; [apply cursor_pair_safe|]. intro p. apply safeo_ok.
    + destruct (opt (c_key r)); [apply safeo_ok|apply safeo_err].
    + destruct (opt (c_tdata r)); [apply safeo_ok|apply safeo_err].
  - apply bind_safe; [|intro subs; apply safeo_ok].
    apply csv_subs_safe; try discriminate; apply split_semi_nonempty.
Qed.

(* before the repair: the rows the library itself writes for key / data selectors, a complex
   row without TargetKey, an AnnotationSelector sub-selector without end offset *)
Definition row (id data set kind res ann dset b e key tdata : string) : csvrow :=
  {| c_id := lit id; c_data := lit data; c_set := lit set; c_kind := lit kind; c_res := lit res;
     c_ann := lit ann; c_dset := lit dset; c_begin := lit b; c_end := lit e; c_key := lit key;
     c_tdata := lit tdata |}.

Lemma csv_old_refuted :
  csv_row true (row "KS" "!D5" "s" "DataKeySelector" "" "" "s" "" "" "k" "") = Panic
  /\ csv_row true (row "XS" "!D6" "s" "AnnotationDataSelector" "" "" "s" "" "" "" "D0") = Panic
  /\ csv_row true (row "X" "D0" "s" "CompositeSelector;DataKeySelector;ResourceSelector" ";;r" ";;" ";s;" ";;" ";;" "" "") = Panic
  /\ csv_row true (row "X" "D0" "s" "CompositeSelector;AnnotationSelector;ResourceSelector" ";;r" ";A0;" ";;" ";0" "" "" "") = Panic.
Proof. vm_compute. repeat split. Qed.

Lemma csv_now_witnesses :
  csv_row false (row "KS" "!D5" "s" "DataKeySelector" "" "" "s" "" "" "k" "")
    = Ok {| ab_id := Some (lit "KS"); ab_data := [(lit "s", lit "!D5")]; ab_target := Some (BKey (lit "s") (lit "k")) |}
  /\ csv_row false (row "X" "D0" "s" "CompositeSelector;DataKeySelector;ResourceSelector" ";;r" ";;" ";s;" ";;" ";;" "" "") = Err
  /\ csv_row false (row "X" "D0" "s" "CompositeSelector;AnnotationSelector;ResourceSelector" ";;r" ";A0;" ";;" ";0" "" "" "") = Err.
Proof. vm_compute. repeat split. Qed.

(* ------------------------------------------------------------------ *)
(* @include                                                            *)

Lemma resource_include_safe stack t : safeo (resource_include false stack t).
Proof. destruct stack; cbn; destruct t; try apply safeo_ok; apply safeo_err. Qed.

Lemma resource_include_old_refuted stack : resource_include true stack false = Abort.
Proof. induction stack as [|st IH]; [reflexivity|exact IH]. Qed.

(* with the depth limit the recursion never needs more than max_include_depth + 1 frames,
   whatever the files refer to (cycles included) *)
Lemma ds_include_safe files : forall depth stack inc,
  (max_include_depth + 1 <= stack + depth)%nat -> safeo (ds_include false stack depth files inc).
Proof.
  intros depth stack. revert depth.
  induction stack as [|st IH]; intros depth inc H.
  - destruct inc as [j|]; cbn [ds_include]; [|apply safeo_ok].
    cbn [negb andb]. destruct (Nat.leb_spec max_include_depth depth); [apply safeo_err|lia].
  - destruct inc as [j|]; cbn [ds_include]; [|apply safeo_ok].
    cbn [negb andb]. destruct (Nat.leb_spec max_include_depth depth); [apply safeo_err|].
    destruct (nth_error files j) as [inc'|]; [|apply safeo_err].
    apply IH. lia.
Qed.

Lemma ds_include_old_refuted stack : ds_include true stack 0 [Some 0%nat] (Some 0%nat) = Abort.
Proof.
  generalize 0%nat at 1 as d. induction stack as [|st IH]; intro d; [reflexivity|].
  cbn [ds_include negb andb nth_error]. apply IH.
Qed.

(* ------------------------------------------------------------------ *)
(* CBOR                                                                *)

(* decoding succeeds, the store is not sane, following a target panics *)
Lemma cbor_refuted :
  exists s s', cbor_load s = Ok s' /\ cbor_sane s' = false /\ cbor_probe s' = Panic.
Proof. exists {| cs_n := 3; cs_targets := [1]; cs_rev := [(0, 0)] |}. eexists. repeat split. Qed.

Lemma cbor_sane_probe s : cbor_sane s = true -> cbor_probe s = Ok tt.
Proof. unfold cbor_probe. intros ->. reflexivity. Qed.

Lemma cbor_value_depth stack depth : (stack < depth)%nat -> cbor_value stack depth = Abort.
Proof.
  revert depth. induction stack as [|st IH]; intros depth H.
  - destruct depth; [lia|reflexivity].
  - destruct depth; [lia|]. cbn [cbor_value]. apply IH. lia.
Qed.

Lemma ann_offset_safe parent b e : safeo (ann_offset parent b e).
Proof.
  unfold ann_offset. destruct parent as [len|]; [|apply safeo_ok].
  destruct ((b <=? e) && (e <=? len)); [apply safeo_ok|apply safeo_err].
Qed.

Lemma include_stdin_safe o : safeo (include_stdin false o).
Proof. apply safeo_err. Qed.

Lemma include_stdin_old_refuted : include_stdin true true = Hang.
Proof. reflexivity. Qed.

(* ------------------------------------------------------------------ *)
(* running time                                                        *)

Lemma dedup_cost_ids l : forall count, forallb d_hasid l = true -> dedup_cost count l = 0.
Proof.
  induction l as [|d l IH]; intros count H; [reflexivity|].
  cbn [forallb] in H. apply andb_prop in H. destruct H as [Hd Hl].
  cbn [dedup_cost]. rewrite Hd, IH by exact Hl. reflexivity.
Qed.

(* n items without id under one key: every item is compared with all earlier ones *)
Lemma dedup_cost_same_key k n : forall count,
  2 * dedup_cost count (repeat {| d_key := k; d_hasid := false |} n)
  = N.of_nat n * (N.of_nat n - 1) + 2 * count k * N.of_nat n.
Proof.
  induction n as [|n IH]; intro count.
  - cbn. lia.
  - cbn [repeat dedup_cost d_hasid d_key]. rewrite N.mul_add_distr_l, IH.
    rewrite Nat.eqb_refl. rewrite Nat2N.inj_succ.
    set (m := N.of_nat n). set (c := count k). clearbody m c.
    destruct (N.eq_dec m 0) as [->|Hm]; [lia|].
    assert (exists m', m = m' + 1) as (m' & ->) by (exists (m - 1); lia).
    replace (m' + 1 - 1) with m' by lia. replace (N.succ (m' + 1) - 1) with (m' + 1) by lia. nia.
Qed.

(* items under pairwise different keys that were not used before cost nothing *)
Lemma dedup_cost_fresh_keys l : forall count,
  NoDup (map d_key l) -> (forall d, In d l -> count (d_key d) = 0) -> dedup_cost count l = 0.
Proof.
  induction l as [|d l IH]; intros count Hnd H0; [reflexivity|].
  cbn [dedup_cost]. cbn [map] in Hnd. inversion Hnd as [|? ? Hnotin Hnd']; subst.
  rewrite (H0 d (or_introl eq_refl)). rewrite IH; [destruct (d_hasid d); reflexivity|exact Hnd'|].
  intros e He. destruct (Nat.eqb_spec (d_key e) (d_key d)) as [E|_].
  - exfalso. apply Hnotin. rewrite <- E. apply in_map. exact He.
  - apply H0. right. exact He.
Qed.

Lemma load_cost_same_key n :
  load_cost (N.of_nat n) false true
  = N.of_nat n + dedup_cost (fun _ => 0) (repeat {| d_key := 0; d_hasid := false |} n).
Proof.
  unfold load_cost. f_equal.
  pose proof (dedup_cost_same_key 0 n (fun _ => 0)) as H.
  rewrite N.mul_0_r, N.mul_0_l, N.add_0_r in H. rewrite <- H.
  rewrite N.mul_comm, N.div_mul by lia. reflexivity.
Qed.

Lemma superlinear_same_key n : 4 <= n -> superlinear n false true = true.
Proof.
  intro Hn. unfold superlinear, load_cost. apply N.ltb_lt.
  assert (exists m, n * (n - 1) = 2 * m) as (m & Hm).
  { destruct (N.Even_or_Odd n) as [[k Hk]|[k Hk]].
    - exists (k * (n - 1)). lia.
    - exists (n * k). assert (n - 1 = 2 * k) as -> by lia. lia. }
  assert (exists m4, 4 * n * (4 * n - 1) = 2 * m4 /\ m4 = 8 * n * n - 2 * n) as (m4 & Hm4 & Em4).
  { exists (8 * n * n - 2 * n). split; [|reflexivity]. nia. }
  rewrite Hm, Hm4. rewrite (N.mul_comm 2 m), (N.mul_comm 2 m4), !N.div_mul by lia.
  subst m4. nia.
Qed.

Lemma superlinear_linear n hasid samekey :
  hasid = true \/ samekey = false -> superlinear n hasid samekey = false.
Proof.
  intro H. unfold superlinear, load_cost. apply N.ltb_ge.
  destruct H as [-> | ->]; [|destruct hasid]; lia.
Qed.

Lemma cbor_value_ok stack depth : (depth <= stack)%nat -> cbor_value stack depth = Ok tt.
Proof.
  revert depth. induction stack as [|st IH]; intros depth H.
  - destruct depth; [reflexivity|lia].
  - destruct depth; [reflexivity|]. cbn [cbor_value]. apply IH. lia.
Qed.

(* ------------------------------------------------------------------ *)
(* memory, guarded by the known class                                  *)

Lemma known_alloc_temps is_upper strip pre (d : list (list velem)) :
  Known_C19_alloc pre (map (map (abs_elem is_upper strip)) d) = false ->
  Forall (temps_le is_upper strip (justified pre (List.length (concat d)))) d.
Proof.
  unfold Known_C19_alloc.
  assert (List.length (concat (map (map (abs_elem is_upper strip)) d)) = List.length (concat d)) as ->.
  { induction d as [|l d IH]; [reflexivity|]. cbn [map concat]. rewrite !app_length, map_length, IH. reflexivity. }
  generalize (justified pre (List.length (concat d))) as B. intros B H.
  induction d as [|l d IH]; [constructor|].
  cbn [map concat] in H. rewrite existsb_app in H. apply orb_false_elim in H. destruct H as [Hl Hd].
  constructor; [|apply IH; exact Hd].
  clear IH Hd. induction l as [|e l IHl]; [constructor|].
  cbn [map existsb] in Hl. apply orb_false_elim in Hl. destruct Hl as [He Hl].
  constructor; [|apply IHl; exact Hl].
  unfold abs_elem in He. cbn [fst] in He.
  destruct (elem_temp is_upper strip e) as [h|]; [|exact I].
  apply N.ltb_ge in He. exact He.
Qed.

Lemma load_alloc_guarded is_upper cap ovf strip d st :
  Known_C19_alloc (slots st) (map (map (abs_elem is_upper strip)) d) = false ->
  let r := snd (visit_doc is_upper cap ovf strip false st d) in
  let B := justified (slots st) (List.length (concat d)) in
  alloc r <= N.max (alloc st) B /\ slots r <= B + N.of_nat (List.length (concat d)).
Proof.
  intros H r B.
  pose proof (vdoc_alloc is_upper cap ovf strip B d st (known_alloc_temps _ _ _ _ H)) as (Ha & Hs).
  split; [exact Ha|].
  assert (N.max (slots st) B = B) as E by (unfold B, justified; lia).
  rewrite E in Hs. exact Hs.
Qed.

(* ------------------------------------------------------------------ *)
(* CSV: the rows the library writes for simple selectors are read back  *)

Definition nosemi (s : str) : Prop := has_semi s = false.

Lemma split_semi_nosemi s : forall cur, has_semi s = false -> split_semi s cur = [rev cur ++ s].
Proof.
  induction s as [|c s IH]; intros cur H.
  - cbn. rewrite app_nil_r. reflexivity.
  - cbn [has_semi existsb] in H. apply orb_false_elim in H. destruct H as [Hc Hs].
    cbn [split_semi]. rewrite Hc. rewrite IH by exact Hs. cbn [rev]. rewrite <- app_assoc. reflexivity.
Qed.

Lemma split_nosemi s : nosemi s -> split s = [s].
Proof. intro H. unfold split. rewrite split_semi_nosemi by exact H. reflexivity. Qed.

Lemma digits_nosemi s : forallb is_digit s = true -> has_semi s = false.
Proof.
  induction s as [|c s IH]; intro H; [reflexivity|].
  cbn [forallb] in H. apply andb_prop in H. destruct H as [Hc Hs].
  cbn [has_semi existsb]. fold (has_semi s). rewrite IH by exact Hs. rewrite orb_false_r.
  unfold is_digit in Hc. apply andb_prop in Hc. destruct Hc as [_ Hc]. apply N.leb_le in Hc.
  apply N.eqb_neq. lia.
Qed.

Lemma dec_nosemi n : has_semi (dec n) = false.
Proof. apply digits_nosemi. apply dec_fuel_digits. Qed.

Lemma str_of_cursor_nosemi c : has_semi (str_of_cursor c) = false.
Proof.
  destruct c as [n|z]; cbn [str_of_cursor]; [apply dec_nosemi|].
  destruct (z =? 0)%Z; [reflexivity|].
  destruct (z <? 0)%Z; [|apply dec_nosemi].
  cbn [has_semi existsb]. fold (has_semi (dec (Z.to_N (- z)))). rewrite dec_nosemi. reflexivity.
Qed.

Lemma str_of_cursor_nonempty c : is_empty (str_of_cursor c) = false.
Proof.
  destruct c as [n|z]; cbn [str_of_cursor].
  - destruct (dec_head_digit n) as (c & r & -> & _). reflexivity.
  - destruct (z =? 0)%Z; [reflexivity|]. destruct (z <? 0)%Z; [reflexivity|].
    destruct (dec_head_digit (Z.to_N z)) as (c & r & -> & _). reflexivity.
Qed.

Definition simple_wf (b : sbuild) : Prop :=
  match b with
  | BText r cb ce => nosemi r /\ cursor_wf cb /\ cursor_wf ce
  | BAnn a None => nosemi a
  | BAnn a (Some (cb, ce)) => nosemi a /\ cursor_wf cb /\ cursor_wf ce
  | BRes r => nosemi r
  | BSet s => nosemi s
  | BKey s k => nosemi s /\ nosemi k /\ k <> []
  | BDat s d => nosemi s /\ nosemi d /\ d <> []
  | BComplex _ _ => False
  end.

Lemma cursor_pair_roundtrip cb ce : cursor_wf cb -> cursor_wf ce ->
  cursor_pair (str_of_cursor cb) (str_of_cursor ce) = Ok (cb, ce).
Proof. intros Hb He. unfold cursor_pair. rewrite !cursor_roundtrip by assumption. reflexivity. Qed.

Lemma csv_simple_roundtrip id data set b :
  data <> [] -> nosemi data -> nosemi set -> simple_wf b ->
  csv_row false (row_of_simple id data set b)
  = Ok {| ab_id := opt id; ab_data := [(set, data)]; ab_target := Some b |}.
Proof.
  intros Hd Hnd Hns Hb. unfold csv_row.
  assert (forall r, c_data r = data -> is_empty (c_data r) = false) as Hde.
  { intros r ->. destruct data; [contradiction|reflexivity]. }
  destruct b as [r cb ce|a [[cb ce]|]|r|s|s k|s d|k l]; cbn [simple_wf] in Hb; try contradiction;
    cbn [row_of_simple c_id c_data c_set c_kind c_res c_ann c_dset c_begin c_end c_key c_tdata];
    (rewrite (Hde _ eq_refl) || (destruct data; [contradiction|cbn [is_empty]]));
    rewrite ?(split_nosemi _ Hnd), ?(split_nosemi _ Hns).
  - destruct Hb as (Hr & Hcb & Hce).
    change (kinds_of (split (str_of_kind KText))) with (Ok [KText]). cbn [bind kind_is_complex andb negb is_empty_list].
    unfold nosemi in Hr. rewrite Hr, !str_of_cursor_nosemi. cbn [has_semi existsb or_empty opt].
    rewrite cursor_pair_roundtrip by assumption. reflexivity.
  - destruct Hb as (Ha & Hcb & Hce).
    change (kinds_of (split (str_of_kind KAnnotation))) with (Ok [KAnnotation]). cbn [bind kind_is_complex andb negb is_empty_list].
    unfold nosemi in Ha. rewrite Ha, !str_of_cursor_nosemi. cbn [has_semi existsb or_empty opt].
    rewrite !str_of_cursor_nonempty. cbn [negb andb].
    rewrite cursor_pair_roundtrip by assumption. reflexivity.
  - change (kinds_of (split (str_of_kind KAnnotation))) with (Ok [KAnnotation]). cbn [bind kind_is_complex andb negb is_empty_list].
    unfold nosemi in Hb. rewrite Hb. reflexivity.
  - change (kinds_of (split (str_of_kind KResource))) with (Ok [KResource]). cbn [bind kind_is_complex andb negb is_empty_list].
    unfold nosemi in Hb. rewrite Hb. reflexivity.
  - change (kinds_of (split (str_of_kind KDataSet))) with (Ok [KDataSet]). cbn [bind kind_is_complex andb negb is_empty_list].
    unfold nosemi in Hb. rewrite Hb. reflexivity.
  - destruct Hb as (Hs & Hk & Hkne).
    change (kinds_of (split (str_of_kind KDataKey))) with (Ok [KDataKey]). cbn [bind kind_is_complex andb negb is_empty_list].
    unfold nosemi in Hs, Hk. rewrite Hs. cbn [has_semi existsb].
    destruct k as [|k0 k]; [contradiction|]. cbn [opt or_empty]. rewrite Hk. reflexivity.
  - destruct Hb as (Hs & Hx & Hxne).
    change (kinds_of (split (str_of_kind KData))) with (Ok [KData]). cbn [bind kind_is_complex andb negb is_empty_list].
    unfold nosemi in Hs, Hx. rewrite Hs. cbn [has_semi existsb].
    destruct d as [|d0 d]; [contradiction|]. cbn [opt or_empty]. rewrite Hx. reflexivity.
Qed.

(* a row without data: before 62b1571 the target columns were skipped (annotate() then failed
   with NoTarget), now the target is decoded like for any other row *)
Lemma csv_nodata_witness :
  csv_row true (row "X" "" "s" "TextSelector" "r" "" "" "0" "5" "" "")
    = Ok {| ab_id := Some (lit "X"); ab_data := []; ab_target := None |}
  /\ csv_row false (row "X" "" "s" "TextSelector" "r" "" "" "0" "5" "" "")
    = Ok {| ab_id := Some (lit "X"); ab_data := []; ab_target := Some (BText (lit "r") (CBegin 0) (CBegin 5)) |}
  /\ csv_row false (row "X" "" "s" "bogus" "r" "" "" "0" "5" "" "") = Err.
Proof. vm_compute. repeat split. Qed.

(* a complex kind without sub-selector kinds: refused before 8591e12, now the empty complex
   selector the store itself writes; more pieces in another column are still an error *)
Lemma csv_complex_alone_witness :
  csv_row true (row "X" "D0" "s" "MultiSelector" "" "" "" "" "" "" "") = Err
  /\ csv_row false (row "X" "D0" "s" "MultiSelector" "" "" "" "" "" "" "")
     = Ok {| ab_id := Some (lit "X"); ab_data := [(lit "s", lit "D0")]; ab_target := Some (BComplex KMulti []) |}
  /\ csv_row false (row "X" "D0" "s" "MultiSelector" "a;b" "" "" "" "" "" "") = Err.
Proof. vm_compute. repeat split. Qed.

(* ------------------------------------------------------------------ *)
(* a data set defined more than once                                   *)

Lemma has_id_app i l m : has_id i (l ++ m) = has_id i l || has_id i m.
Proof. unfold has_id. apply existsb_app. Qed.

Lemma has_id_in i k l : In (i, k) l -> has_id i l = true.
Proof.
  intro H. unfold has_id. apply existsb_exists. exists (i, k). split; [exact H|]. apply N.eqb_refl.
Qed.

(* ids of the second definition are distinct *)
Definition distinct_ids (l : list (N * N)) : Prop := NoDup (map fst l).

Lemma merge_data_spec other : forall mine i k, distinct_ids other ->
  In (i, k) (merge_data mine other) <-> In (i, k) mine \/ (has_id i mine = false /\ In (i, k) other).
Proof.
  induction other as [|d o IH]; intros mine i k Hnd.
  - cbn. split; [intro H; left; exact H|intros [H|[_ []]]; exact H].
  - inversion Hnd as [|? ? Hnotin Hnd']; subst. cbn [merge_data].
    rewrite IH by exact Hnd'. destruct d as [j kj]. cbn [fst] in *.
    destruct (has_id j mine) eqn:Ej.
    + split.
      * intros [H|[Hn H]]; [left; exact H|right; split; [exact Hn|right; exact H]].
      * intros [H|[Hn [H|H]]]; [left; exact H| |right; split; [exact Hn|exact H]].
        injection H as -> ->. rewrite Ej in Hn. discriminate.
    + split.
      * intros [H|[Hn H]].
        -- apply in_app_or in H. destruct H as [H|[H|[]]]; [left; exact H|].
           injection H as -> ->. right. split; [exact Ej|left; reflexivity].
        -- rewrite has_id_app in Hn. apply orb_false_elim in Hn. destruct Hn as [Hn _].
           right. split; [exact Hn|right; exact H].
      * intros [H|[Hn [H|H]]].
        -- left. apply in_or_app. left. exact H.
        -- injection H as -> ->. left. apply in_or_app. right. left. reflexivity.
        -- right. split; [|exact H]. rewrite has_id_app, Hn. cbn [has_id existsb fst orb].
           destruct (N.eqb_spec j i) as [->|_]; [|reflexivity].
           exfalso. apply Hnotin. change i with (fst (i, k)). apply in_map. exact H.
Qed.

Lemma ds_merge_spec a b i k : distinct_ids (ds_data b) ->
  In (i, k) (ds_data (ds_merge a b)) <-> spec_merged a b i k.
Proof. intro H. unfold ds_merge, spec_merged. cbn [ds_data]. apply merge_data_spec. exact H. Qed.
